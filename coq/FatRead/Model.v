(* Model of the READ path of nobodd's FAT code, statement by statement:
     fs.py    fat_type, fat_type_from_count, the header/offset block of
              FatFileSystem.__init__ (with every ValueError), FatClusters.__len__ /
              __getitem__, FatFile._get_size / readinto / readall / seek and
              io.RawIOBase.read (= one readinto on a fresh buffer; io.BufferedReader
              is CPython and NOT modelled);
     tools.py decode_timestamp (the bit-fields handed to datetime);
     path.py  get_cluster.
   Executable definitions only; proofs are in Proofs*.v.  Field offsets and the
   4085 / 65525 thresholds come from Gen/Fat.v (generated from the source). *)
From Coq Require Import List NArith ZArith Bool.
From NV Require Import Lib.Res Gen.Fat Fat.Spec.
From NV Require Lib.Struct.
Import ListNotations.
Open Scope N_scope.

(* len(buffer) without building a unary number *)
Definition lenN {A} (l : list A) : N := fold_left (fun a _ => N.succ a) l 0.

(* python buf[a:b] (0 <= a, 0 <= b): clips to the buffer, empty when b <= a *)
Definition pyslice {A} (a b : N) (l : list A) : list A := Struct.takeN (b - a) (Struct.dropN a l).

(* ------------------------------------------------------------------ header *)
Inductive ftype := Fat12 | Fat16 | Fat32.
Definition ftype_bits (t : ftype) : N := match t with Fat12 => 12 | Fat16 => 16 | Fat32 => 32 end.

(* every header field the code looks at, unpacked at the fixed positions of
   BIOSParameterBlock (offset 0), ExtendedBIOSParameterBlock directly after it (1)
   or after the FAT32BIOSParameterBlock (2), FAT32BIOSParameterBlock (offset 36) *)
Record rawhdr := {
  r_bps : N; r_spc : N; r_reserved : N; r_nfats : N; r_rootent : N;
  r_tot16 : N; r_spf16 : N; r_tot32 : N;
  r_sig1 : N; r_fs1 : list N;
  r_spf32 : N; r_root32 : N; r_info32 : N;
  r_sig2 : N; r_fs2 : list N
}.

Definition e1 : N := bpb_sizeof.
Definition e2 : N := bpb_sizeof + f32_sizeof.

Definition parse (img : list N) : rawhdr :=
  {| r_bps := field bpb_bytes_per_sector 0 img;
     r_spc := field bpb_sectors_per_cluster 0 img;
     r_reserved := field bpb_reserved_sectors 0 img;
     r_nfats := field bpb_fat_count 0 img;
     r_rootent := field bpb_max_root_entries 0 img;
     r_tot16 := field bpb_fat16_total_sectors 0 img;
     r_spf16 := field bpb_sectors_per_fat 0 img;
     r_tot32 := field bpb_fat32_total_sectors 0 img;
     r_sig1 := field ebpb_extended_boot_sig e1 img;
     r_fs1 := fbytes ebpb_file_system e1 img;
     r_spf32 := field f32_sectors_per_fat bpb_sizeof img;
     r_root32 := field f32_root_dir_cluster bpb_sizeof img;
     r_info32 := field f32_info_sector bpb_sizeof img;
     r_sig2 := field ebpb_extended_boot_sig e2 img;
     r_fs2 := fbytes ebpb_file_system e2 img |}.

(* int.bit_count() *)
Fixpoint pos_bit_count (p : positive) : N :=
  match p with xH => 1 | xO q => pos_bit_count q | xI q => 1 + pos_bit_count q end.
Definition bit_count (n : N) : N := match n with N0 => 0 | Npos p => pos_bit_count p end.

(* the fat_types dict: None = KeyError, Some None = the b'FAT     ' entry *)
Definition s_FAT : list N := [70;65;84;32;32;32;32;32].
Definition fat_types (s : list N) : option (option ftype) :=
  if beq s s_FAT then Some None
  else if beq s s_FAT12 then Some (Some Fat12)
  else if beq s s_FAT16 then Some (Some Fat16)
  else if beq s s_FAT32 then Some (Some Fat32)
  else None.

(* the ebpb / ebpb_fat32 pair fat_type returns: which EBPB position was used *)
Record hdr := { h_type : ftype; h_sig : N; h_fs : list N; h_has32 : bool }.

(* total_sectors = bpb.fat16_total_sectors or bpb.fat32_total_sectors, replaced by
   struct.unpack('<Q', ebpb.file_system) when 0 and extended_boot_sig == 0x29 *)
Definition total_sectors (r : rawhdr) (sig : N) (fs : list N) : N :=
  let t := if r_tot16 r =? 0 then r_tot32 r else r_tot16 r in
  if (t =? 0) && (sig =? 41) then le_val fs else t.

Definition sectors_per_fat (r : rawhdr) (has32 : bool) : N :=
  if has32 then r_spf32 r else r_spf16 r.

Definition fat_type_from_count (r : rawhdr) (sig : N) (fs : list N) (has32 : bool) : ftype :=
  let total := total_sectors r sig fs in
  let fat_sectors := r_nfats r * sectors_per_fat r has32 in
  let root_sectors := (r_rootent r * de_sizeof + (r_bps r - 1)) / r_bps r in
  let data_offset := r_reserved r + fat_sectors + root_sectors in
  (* python ints: the difference may be negative, // is floor division *)
  let data_clusters := ((Z.of_N total - Z.of_N data_offset) / Z.of_N (r_spc r))%Z in
  if (data_clusters <? Z.of_N fat12_threshold)%Z then Fat12
  else if (data_clusters <? Z.of_N fat16_threshold)%Z then Fat16
  else Fat32.

Definition sig_ok (s : N) : bool := (s =? 40) || (s =? 41).

(* fat_type(mem); [len] = len(mem): Struct.unpack_from raises struct.error when the
   buffer ends before the structure does *)
Definition fat_type (r : rawhdr) (len : N) : res hdr :=
  if len <? bpb_sizeof then Err StructError else
  if r_bps r <? 32 then Err ValueError else
  if negb (bit_count (r_bps r) =? 1) then Err ValueError else
  if negb (bit_count (r_spc r) =? 1) then Err ValueError else
  if len <? e1 + ebpb_sizeof then Err StructError else
  match fat_types (r_fs1 r) with
  | Some (Some t) => Ok {| h_type := t; h_sig := r_sig1 r; h_fs := r_fs1 r; h_has32 := false |}
  | _ =>
    if sig_ok (r_sig1 r) then
      Ok {| h_type := fat_type_from_count r (r_sig1 r) (r_fs1 r) false;
            h_sig := r_sig1 r; h_fs := r_fs1 r; h_has32 := false |}
    else
    if len <? bpb_sizeof + f32_sizeof then Err StructError else
    if len <? e2 + ebpb_sizeof then Err StructError else
    match fat_types (r_fs2 r) with
    | Some (Some t) => Ok {| h_type := t; h_sig := r_sig2 r; h_fs := r_fs2 r; h_has32 := true |}
    | _ =>
      if sig_ok (r_sig2 r) then
        Ok {| h_type := fat_type_from_count r (r_sig2 r) (r_fs2 r) true;
              h_sig := r_sig2 r; h_fs := r_fs2 r; h_has32 := true |}
      else Err ValueError
    end
  end.

(* what FatFileSystem.__init__ derives *)
Record geom_m := {
  m_type : ftype; m_has32 : bool;
  m_bps : N; m_cs : N;
  m_total : N;
  m_fat_off : N; m_fat_size : N; m_nfats : N;
  m_root_off : N; m_root_size : N;
  m_data_off : N; m_end_off : N;
  m_root_cluster : N;             (* self._root for fat32, 0 otherwise *)
  m_info_off : option N;
  m_len : N                       (* len(mem) *)
}.

(* len(mem[a:b]) *)
Definition clip_len (a b len : N) : N := N.min b len - a.
(* mem[data_offset:end_offset], len(FatClusters) *)
Definition m_data_len (m : geom_m) : N := clip_len (m_data_off m) (m_end_off m) (m_len m).
Definition m_count (m : geom_m) : N := m_data_len m / m_cs m.
(* mem[fat_offset:root_offset] cut into pieces of fat_size (the last may be short) *)
Definition m_fat_region (m : geom_m) : N := clip_len (m_fat_off m) (m_root_off m) (m_len m).
Definition m_table_lens (m : geom_m) : list N :=
  let q := m_fat_region m / m_fat_size m in
  let rest := m_fat_region m mod m_fat_size m in
  repeat (m_fat_size m) (N.to_nat q) ++ (if rest =? 0 then [] else [rest]).

(* the statements of __init__ up to the construction of the tables *)
Definition init_early (r : rawhdr) (len : N) : res geom_m :=
  do h <- fat_type r len;
  let total := total_sectors r (h_sig h) (h_fs h) in
  let fat_size := sectors_per_fat r (h_has32 h) * r_bps r in
  if fat_size =? 0 then Err ValueError else
  let root_size := r_rootent r * de_sizeof in
  if negb (root_size mod r_bps r =? 0) then Err ValueError else
  let info_offset :=
      if h_has32 h && negb ((r_info32 r =? 0) || (r_info32 r =? 65535))
      then Some (r_info32 r * r_bps r) else None in
  let end_offset := total * r_bps r in
  let fat_offset := r_reserved r * r_bps r in
  let root_offset := fat_offset + fat_size * r_nfats r in
  let data_offset := root_offset + root_size in
  Ok {| m_type := h_type h; m_has32 := h_has32 h; m_bps := r_bps r; m_cs := r_bps r * r_spc r;
        m_total := total;
        m_fat_off := fat_offset; m_fat_size := fat_size; m_nfats := r_nfats r;
        m_root_off := root_offset; m_root_size := root_size;
        m_data_off := data_offset; m_end_off := end_offset;
        m_root_cluster := match h_type h with Fat32 => r_root32 r | _ => 0 end;
        m_info_off := info_offset; m_len := len |}.

(* ... and after it: FAT32 without FAT32 EBPB, then the max_root_entries rules *)
Definition init_late (r : rawhdr) (m : geom_m) : res geom_m :=
  match m_type m with
  | Fat32 => if negb (m_has32 m) then Err ValueError
             else if negb (r_rootent r =? 0) then Err ValueError else Ok m
  | _ => if r_rootent r =? 0 then Err ValueError else Ok m
  end.

Definition geometry_at (r : rawhdr) (len : N) : res geom_m :=
  do m <- init_early r len; init_late r m.

Definition geometry_model (img : list N) : res geom_m := geometry_at (parse img) (lenN img).

(* Exceptions that are not ValueError/struct.error-on-the-header: raised by the table
   constructors (between init_early and init_late) and by the dirty/damaged probe of
   FAT entry 1 (after init_late).  They depend only on lengths. *)
Inductive hazard :=
| HAssertInfo     (* Fat12Table/Fat16Table: assert info_mem is None *)
| HCast           (* memoryview.cast('H'/'I') of a cut-off table: TypeError *)
| HInfoShort      (* FAT32InfoSector.from_buffer on < 512 bytes: struct.error *)
| HNoEntry1.      (* self._fat[1] with no / a tiny first table: IndexError *)

Definition info_len (m : geom_m) : N :=
  match m_info_off m with Some o => clip_len o (o + m_bps m) (m_len m) | None => 0 end.

Definition table_hazard (m : geom_m) : option hazard :=
  match m_type m with
  | Fat12 => match m_info_off m with Some _ => Some HAssertInfo | None => None end
  | Fat16 => match m_info_off m with
             | Some _ => Some HAssertInfo
             | None => if negb (m_fat_region m mod 2 =? 0) then Some HCast else None
             end
  | Fat32 => if negb (m_fat_region m mod 4 =? 0) then Some HCast
             else match m_info_off m with
                  | Some _ => if info_len m <? info_sizeof then Some HInfoShort else None
                  | None => None
                  end
  end.

Definition probe_hazard (m : geom_m) : option hazard :=
  match m_type m with
  | Fat12 => None
  | Fat16 => if m_fat_region m <? 4 then Some HNoEntry1 else None
  | Fat32 => if m_fat_region m <? 8 then Some HNoEntry1 else None
  end.

Inductive outcome := OOk (m : geom_m) | OExn (e : exn) | OHazard (h : hazard).

(* FatFileSystem(mem) in program order *)
Definition open_at (r : rawhdr) (len : N) : outcome :=
  match init_early r len with
  | Err e => OExn e
  | Ok m =>
    match table_hazard m with
    | Some h => OHazard h
    | None =>
      match init_late r m with
      | Err e => OExn e
      | Ok m' => match probe_hazard m' with Some h => OHazard h | None => OOk m' end
      end
    end
  end.
Definition open_model (img : list N) : outcome := open_at (parse img) (lenN img).

(* ------------------------------------------------------------ data clusters *)
(* FatClusters over mem = the data area, cluster size cs *)
Definition clusters_len (cs : N) (data : list N) : N := lenN data / cs.
Definition data_area (m : geom_m) (img : list N) : list N := pyslice (m_data_off m) (m_end_off m) img.

Section File.
Variable cs : N.
Variable data : list N.
Variable ncl : N.                 (* len(fs.clusters), computed once *)

(* FatClusters.__getitem__ *)
Definition cluster_get (c : N) : res (list N) :=
  if (2 <=? c) && (c <? ncl + 2) then
    let offset := (c - 2) * cs in Ok (pyslice offset (offset + cs) data)
  else Err IndexError.

(* an open FatFile: the cluster map, the size (_get_size: the directory entry's
   size, or cs * len(map) for entry-less files), the position *)
Record fstate := { f_map : list N; f_size : N; f_pos : N }.
Definition set_pos (st : fstate) (p : N) : fstate :=
  {| f_map := f_map st; f_size := f_size st; f_pos := p |}.

(* FatFile.readinto(buf) with len(buf) = n: the bytes stored into buf[:read] *)
Definition readinto (n : N) (st : fstate) : res (list N * fstate) :=
  let index := f_pos st / cs in
  let left := f_pos st - index * cs in
  let right := Z.min (Z.min (Z.of_N cs) (Z.of_N left + Z.of_N n))
                     (Z.of_N (f_size st) - Z.of_N (index * cs)) in
  let read := Z.max (right - Z.of_N left) 0 in
  if (0 <? read)%Z then
    match nth_error (f_map st) (N.to_nat index) with
    | None => Err IndexError
    | Some c =>
      do cl <- cluster_get c;
      Ok (pyslice left (Z.to_N right) cl, set_pos st (f_pos st + Z.to_N read))
    end
  else Ok ([], st).

(* FatFile.readall: while self._pos < size: readinto(rest of the buffer).  Each
   round ends at a cluster boundary or at the size, so len(map)+1 rounds suffice.
   An exception in a later round leaves the position where the earlier rounds put it,
   hence the state is returned next to the result *)
Fixpoint readall_loop (fuel : nat) (st : fstate) : res (list N) * fstate :=
  if f_pos st <? f_size st then
    match fuel with
    | O => (Err OutOfFuel, st)
    | S f =>
      match readinto (f_size st - f_pos st) st with
      | Err e => (Err e, st)
      | Ok x =>
        let y := readall_loop f (snd x) in
        (match fst y with Ok b => Ok (fst x ++ b) | Err e => Err e end, snd y)
      end
    end
  else (Ok [], st).
Definition readall (st : fstate) : res (list N) * fstate :=
  readall_loop (S (length (f_map st))) st.

(* io.RawIOBase.read(n): readall for n < 0, else ONE readinto (may return fewer
   bytes than asked for: it stops at the end of the current cluster) *)
Definition read (n : Z) (st : fstate) : res (list N) * fstate :=
  if (n <? 0)%Z then readall st
  else match readinto (Z.to_N n) st with Ok x => (Ok (fst x), snd x) | Err e => (Err e, st) end.

(* what a buffered reader does with a raw file: read until n bytes or b'' *)
Fixpoint read_loop (fuel : nat) (n : N) (st : fstate) : res (list N * fstate) :=
  if n =? 0 then Ok ([], st) else
  match fuel with
  | O => Err OutOfFuel
  | S f =>
    do x <- readinto n st;
    match fst x with
    | [] => Ok ([], snd x)
    | _ => do y <- read_loop f (n - lenN (fst x)) (snd x); Ok (fst x ++ fst y, snd y)
    end
  end.
Definition read_full (n : N) (st : fstate) : res (list N * fstate) :=
  read_loop (S (S (length (f_map st)))) n st.

(* FatFile.seek *)
Definition seek (off : Z) (whence : N) (st : fstate) : res (N * fstate) :=
  do pos <- match whence with
            | 0 => Ok off
            | 1 => Ok (Z.of_N (f_pos st) + off)%Z
            | 2 => Ok (Z.of_N (f_size st) + off)%Z
            | _ => Err ValueError
            end;
  if (pos <? 0)%Z then Err OSError_Other      (* errno EINVAL *)
  else Ok (Z.to_N pos, set_pos st (Z.to_N pos)).

Inductive op := OSeek (off : Z) (whence : N) | ORead (n : Z) | OReadinto (n : N) | OReadall.
Inductive oresult := RPos (p : N) | RBytes (b : list N) | RErr (e : exn).

Definition ores (r : res (list N)) : oresult := match r with Ok b => RBytes b | Err e => RErr e end.
(* an exception in seek / readinto leaves the file object as it was *)
Definition step (o : op) (st : fstate) : oresult * fstate :=
  match o with
  | OSeek off w => match seek off w st with Ok (p, st') => (RPos p, st') | Err e => (RErr e, st) end
  | ORead n => let x := read n st in (ores (fst x), snd x)
  | OReadinto n => match readinto n st with Ok (b, st') => (RBytes b, st') | Err e => (RErr e, st) end
  | OReadall => let x := readall st in (ores (fst x), snd x)
  end.
Fixpoint run (ops : list op) (st : fstate) : list oresult :=
  match ops with
  | [] => []
  | o :: r => let x := step o st in fst x :: run r (snd x)
  end.
End File.

Definition run_file (cs : N) (data : list N) (map : list N) (size : N) (ops : list op) : list oresult :=
  run cs data (clusters_len cs data) ops {| f_map := map; f_size := size; f_pos := 0 |}.

(* ------------------------------------------------- reference: bytes in memory *)
(* the same operations on the content held in memory with a plain position.  A raw
   read returns at most up to the next multiple of cs (RawIOBase allows short reads) *)
Definition raw_len (cs size pos n : N) : N := N.min (N.min (cs - pos mod cs) n) (size - pos).
Definition ref_bytes (content : list N) (pos m : N) : list N :=
  firstn (N.to_nat m) (skipn (N.to_nat pos) content).

Definition ref_step (cs : N) (content : list N) (o : op) (pos : N) : oresult * N :=
  let size := N.of_nat (length content) in
  let rd n := let m := raw_len cs size pos n in (RBytes (ref_bytes content pos m), pos + m) in
  let all := (RBytes (skipn (N.to_nat pos) content), N.max pos size) in
  match o with
  | OSeek off w =>
    match (match w with 0 => Some off | 1 => Some (Z.of_N pos + off)%Z
                   | 2 => Some (Z.of_N size + off)%Z | _ => None end) with
    | None => (RErr ValueError, pos)
    | Some p => if (p <? 0)%Z then (RErr OSError_Other, pos) else (RPos (Z.to_N p), Z.to_N p)
    end
  | ORead n => if (n <? 0)%Z then all else rd (Z.to_N n)
  | OReadinto n => rd n
  | OReadall => all
  end.
Fixpoint ref_run (cs : N) (content : list N) (ops : list op) (pos : N) : list oresult :=
  match ops with
  | [] => []
  | o :: r => let x := ref_step cs content o pos in fst x :: ref_run cs content r (snd x)
  end.

(* ------------------------------------------------ timestamps, first cluster *)
(* the arguments tools.decode_timestamp hands to datetime(): year, month, day,
   hour, minute, second, microsecond *)
Definition decode_timestamp_fields (date time cs : N) : N * N * N * N * N * N * N :=
  let ms := cs * 10 in
  (1980 + N.shiftr (N.land date 65024) 9,      (* 0xFE00 *)
   N.shiftr (N.land date 480) 5,               (* 0x1E0 *)
   N.land date 31,                             (* 0x1F *)
   N.shiftr (N.land time 63488) 11,            (* 0xF800 *)
   N.shiftr (N.land time 2016) 5,              (* 0x7E0 *)
   N.land time 31 * 2 + ms / 1000,
   (ms mod 1000) * 1000).

(* path.get_cluster(entry, fat_type) *)
Definition get_cluster (lo hi : N) (fat32 : bool) : N :=
  N.lor lo (if fat32 then N.shiftl hi 16 else 0).
