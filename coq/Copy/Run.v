From Coq Require Import List NArith String.
From NV Require Import Lib.Val Lib.Res Lib.Wire Copy.Model.
Import ListNotations.
Open Scope string_scope.

(* copy  [content; pos; caps; has_readinto; range = [] | [start; stop; step]; fuel] *)
Definition get_range (v : val) : option byterange :=
  match getL v with
  | [a; b; c] => Some {| r_start := getN a; r_stop := getN b; r_step := getN c |}
  | _ => None
  end.

Definition dispatch (cmd : string) (a : val) : val :=
  if String.eqb cmd "copy" then
    VRes VS (copy_bytes (getNat (arg 5 a))
                        {| content := getS (arg 0 a); pos := getN (arg 1 a);
                           caps := map getN (getL (arg 2 a)) |}
                        (getB (arg 3 a)) (get_range (arg 4 a)))
  else VErr "unknown command".
