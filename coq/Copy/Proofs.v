(* Proofs about the model of nobodd/transfer.py (Copy/Model.v). *)
From Coq Require Import List NArith Bool Lia Arith.
From NV Require Import Lib.Res Gen.Copy Copy.Model.
Import ListNotations.
Open Scope N_scope.

(* ------------------------------------------------------------------ lists *)
Lemma len_app : forall a b, len (a ++ b) = len a + len b.
Proof. intros; unfold len; rewrite app_length; lia. Qed.

Lemma firstn_skipn_split : forall (A : Type) (a b : nat) (l : list A),
  firstn (a + b) l = firstn a l ++ firstn b (skipn a l).
Proof.
  induction a; intros b l; simpl.
  - reflexivity.
  - destruct l; simpl.
    + now rewrite firstn_nil.
    + now rewrite IHa.
Qed.

Lemma skipn_skipn : forall (A : Type) (a b : nat) (l : list A),
  skipn a (skipn b l) = skipn (b + a) l.
Proof.
  induction b; intros l; simpl.
  - reflexivity.
  - destruct l; simpl.
    + now rewrite skipn_nil.
    + apply IHb.
Qed.

Lemma firstn_all_skipn : forall (A : Type) (n p : nat) (l : list A),
  (length l <= p + n)%nat -> firstn n (skipn p l) = skipn p l.
Proof.
  intros. apply firstn_all2. rewrite skipn_length. lia.
Qed.

Lemma skipn_beyond : forall (A : Type) (p : nat) (l : list A),
  (length l <= p)%nat -> skipn p l = [].
Proof. intros. now apply skipn_all2. Qed.

(* ------------------------------------------------------------------ one read *)
Lemma rd_count_le : forall s n, rd_count s n <= n.
Proof. intros; unfold rd_count; lia. Qed.

Lemma rd_count_le_rem : forall s n, rd_count s n <= remaining s.
Proof. intros; unfold rd_count; lia. Qed.

Lemma rd_count_pos : forall s n, 0 < n -> 0 < remaining s -> 0 < rd_count s n.
Proof. intros; unfold rd_count; destruct (caps s); lia. Qed.

Lemma rd_count_full : forall s n, caps s = [] -> rd_count s n = N.min n (remaining s).
Proof. intros s n H; unfold rd_count; rewrite H; lia. Qed.

Lemma rd_buf : forall s n, fst (rd s n) = slice (content s) (pos s) (pos s + rd_count s n).
Proof.
  intros; unfold rd, slice; cbn [fst].
  replace (pos s + rd_count s n - pos s) with (rd_count s n) by lia. reflexivity.
Qed.

Lemma rd_len : forall s n, len (fst (rd s n)) = rd_count s n.
Proof.
  intros; unfold rd, len; cbn [fst].
  rewrite firstn_length, skipn_length.
  pose proof (rd_count_le_rem s n) as H. unfold remaining, len in H. lia.
Qed.

Lemma rd_state : forall s n,
  content (snd (rd s n)) = content s /\ pos (snd (rd s n)) = pos s + rd_count s n /\
  caps (snd (rd s n)) = tl (caps s).
Proof. intros; unfold rd; cbn; auto. Qed.

Lemma is_empty_len : forall b, is_empty b = (len b =? 0).
Proof. destruct b; unfold len; cbn [is_empty length]; [reflexivity|]. symmetry; apply N.eqb_neq; lia. Qed.

Lemma slice_split : forall c a b d, a <= b -> b <= d ->
  slice c a d = slice c a b ++ slice c b d.
Proof.
  intros c a b d H1 H2; unfold slice.
  replace (N.to_nat (d - a)) with (N.to_nat (b - a) + N.to_nat (d - b))%nat by lia.
  rewrite firstn_skipn_split, skipn_skipn.
  replace (N.to_nat a + N.to_nat (b - a))%nat with (N.to_nat b) by lia. reflexivity.
Qed.

Lemma slice_beyond : forall c a d, len c <= a -> slice c a d = [].
Proof.
  intros c a d H; unfold slice, len in *. rewrite skipn_beyond by lia. apply firstn_nil.
Qed.

Lemma slice_empty : forall c a, slice c a a = [].
Proof. intros; unfold slice. replace (a - a) with 0 by lia. reflexivity. Qed.

Lemma slice_to_end : forall c a d, len c <= d -> slice c a d = skipn (N.to_nat a) c.
Proof.
  intros c a d H; unfold slice, len in *. apply firstn_all_skipn. lia.
Qed.

(* ------------------------------------------------------------------ the unbounded loops *)
Lemma loop_none_exact : forall fuel size s out,
  0 < size -> (N.to_nat (remaining s) + 2 <= fuel)%nat ->
  loop_none fuel size true s out = Ok (out ++ skipn (N.to_nat (pos s)) (content s)).
Proof.
  induction fuel as [|f IH]; intros size s out Hsz Hf; [lia|].
  cbn [loop_none]. destruct (rd s size) as [buf s'] eqn:E.
  pose proof (rd_len s size) as Hl. pose proof (rd_buf s size) as Hb.
  pose proof (rd_state s size) as (Hc & Hp & _). rewrite E in *; cbn [fst snd] in *.
  rewrite is_empty_len, Hl. cbn [andb].
  destruct (rd_count s size =? 0) eqn:Ez.
  - apply N.eqb_eq in Ez.
    assert (remaining s = 0).
    { destruct (N.eq_dec (remaining s) 0); [assumption|].
      pose proof (rd_count_pos s size Hsz). lia. }
    unfold remaining, len in H. rewrite skipn_beyond by lia. now rewrite app_nil_r.
  - apply N.eqb_neq in Ez. pose proof (rd_count_le_rem s size).
    rewrite IH; [| assumption | unfold remaining in *; rewrite Hc, Hp; lia].
    rewrite Hc, Hp, <- app_assoc. do 2 f_equal. rewrite Hb.
    rewrite <- (slice_to_end (content s) (pos s) (pos s + remaining s)) by (unfold remaining; lia).
    rewrite <- (slice_to_end (content s) (pos s + rd_count s size) (pos s + remaining s))
      by (unfold remaining; lia).
    symmetry; apply slice_split; lia.
Qed.

(* ------------------------------------------------------------------ the bounded loops *)
(* generic: guard = (0 <? length), size clipped to the remaining length and positive,
   next = length - n, break on empty *)
Lemma loop_bounded_exact : forall guard size next,
  (forall l, guard l = (0 <? l)) ->
  (forall l, 0 < l -> 0 < size l /\ size l <= l) ->
  (forall l n, next l n = l - n) ->
  forall fuel s l out,
  (N.to_nat (remaining s) + 2 <= fuel)%nat ->
  loop_bounded fuel guard size next true s l out =
  Ok (out ++ slice (content s) (pos s) (pos s + l)).
Proof.
  intros guard size next Hg Hs Hn.
  induction fuel as [|f IH]; intros s l out Hf; [lia|].
  cbn [loop_bounded]. rewrite Hg.
  destruct (0 <? l) eqn:El.
  2:{ apply N.ltb_ge in El. replace l with 0 by lia. rewrite N.add_0_r, slice_empty.
      now rewrite app_nil_r. }
  apply N.ltb_lt in El. destruct (Hs l El) as [Hs1 Hs2].
  destruct (rd s (size l)) as [buf s'] eqn:E.
  pose proof (rd_len s (size l)) as Hl. pose proof (rd_buf s (size l)) as Hb.
  pose proof (rd_state s (size l)) as (Hc & Hp & _). rewrite E in *; cbn [fst snd] in *.
  rewrite is_empty_len, Hl. cbn [andb].
  pose proof (rd_count_le s (size l)). pose proof (rd_count_le_rem s (size l)).
  destruct (rd_count s (size l) =? 0) eqn:Ez.
  - apply N.eqb_eq in Ez.
    assert (remaining s = 0).
    { destruct (N.eq_dec (remaining s) 0); [assumption|].
      pose proof (rd_count_pos s (size l) Hs1). lia. }
    rewrite slice_beyond by (unfold remaining in *; lia). now rewrite app_nil_r.
  - apply N.eqb_neq in Ez.
    rewrite IH by (unfold remaining in *; rewrite Hc, Hp; lia).
    rewrite Hc, Hp, Hn, <- app_assoc. do 2 f_equal. rewrite Hb.
    replace (pos s + rd_count s (size l) + (l - rd_count s (size l))) with (pos s + l) by lia.
    symmetry; apply slice_split; lia.
Qed.

Lemma bufsize_pos : 0 < COPY_BUFSIZE.
Proof. reflexivity. Qed.

(* what is requested, clipped to the source *)
Definition expected (c : list N) (p : N) (r : option byterange) : list N :=
  match r with
  | Some r => slice c (r_start r) (r_stop r)
  | None => skipn (N.to_nat p) c
  end.

Lemma slice_range : forall c a b, slice c a (a + (b - a)) = slice c a b.
Proof.
  intros c a b. destruct (N.le_gt_cases a b).
  - now replace (a + (b - a)) with b by lia.
  - replace (b - a) with 0 by lia. rewrite N.add_0_r, slice_empty.
    unfold slice. now replace (b - a) with 0 by lia.
Qed.

(* the two loops, any admissible reader (short reads allowed) *)
Lemma read_write_exact : forall fuel s l,
  (N.to_nat (remaining s) + 2 <= fuel)%nat ->
  copy_read_write fuel s l =
  Ok (match l with Some l => slice (content s) (pos s) (pos s + l)
                 | None => skipn (N.to_nat (pos s)) (content s) end).
Proof.
  intros fuel s [l|] Hf; unfold copy_read_write.
  - unfold rw_break_on_empty.
    rewrite (loop_bounded_exact rw_guard rw_size rw_next); try assumption; try reflexivity.
    intros x Hx. unfold rw_size. pose proof bufsize_pos. lia.
  - unfold rw_none_break_on_empty, rw_none_size.
    rewrite loop_none_exact; [reflexivity | apply bufsize_pos | assumption].
Qed.

Lemma readinto_write_exact : forall fuel s l,
  (N.to_nat (remaining s) + 2 <= fuel)%nat ->
  copy_readinto_write fuel s l =
  Ok (match l with Some l => slice (content s) (pos s) (pos s + l)
                 | None => skipn (N.to_nat (pos s)) (content s) end).
Proof.
  intros fuel s [l|] Hf; unfold copy_readinto_write.
  - unfold ri_break_on_empty.
    rewrite (loop_bounded_exact ri_guard (fun x => N.min ri_alloc (ri_size x)) ri_next);
      try assumption; try reflexivity.
    intros x Hx. unfold ri_size, ri_alloc. pose proof bufsize_pos. lia.
  - unfold ri_none_break_on_empty, ri_alloc.
    rewrite loop_none_exact; [reflexivity | apply bufsize_pos | assumption].
Qed.

Definition seek (s : src) (r : option byterange) : src :=
  match r with
  | Some r => {| content := content s; pos := r_start r; caps := caps s |}
  | None => s
  end.

Definition step_ok (r : option byterange) : Prop :=
  match r with Some r => r_step r = 1 | None => True end.

(* admissible readers for the single-read fast path: full reads (BytesIO,
   BufferedReader); the loops admit any reader *)
Definition takes_fast_path (r : option byterange) : bool :=
  match r with Some r => fast_path (range_len r) | None => false end.

Theorem copy_exact_terminates : forall fuel s ri r,
  step_ok r ->
  (takes_fast_path r = true -> caps s = []) ->
  (length (content s) + 2 <= fuel)%nat ->
  copy_bytes fuel s ri r = Ok (expected (content s) (pos s) r).
Proof.
  intros fuel s ri r Hstep Hfast Hf.
  assert (Hrem : forall s', content s' = content s ->
                 (N.to_nat (remaining s') + 2 <= fuel)%nat).
  { intros s' Hc. unfold remaining, len. rewrite Hc. lia. }
  unfold copy_bytes. destruct r as [r|]; cbn [expected step_ok takes_fast_path] in *.
  - rewrite Hstep. rewrite N.eqb_refl. cbn [negb]. rewrite andb_false_r.
    set (s0 := {| content := content s; pos := r_start r; caps := caps s |}).
    destruct (fast_path (range_len r)) eqn:Efp.
    + rewrite rd_buf. subst s0; cbn [content pos].
      rewrite rd_count_full by (cbn [caps]; auto).
      unfold remaining, range_len; cbn [content pos]. f_equal.
      destruct (N.le_gt_cases (r_stop r - r_start r) (len (content s) - r_start r)).
      * rewrite N.min_l by assumption. apply slice_range.
      * rewrite N.min_r by lia.
        destruct (N.le_gt_cases (r_start r) (len (content s))).
        -- replace (r_start r + (len (content s) - r_start r)) with (len (content s)) by lia.
           rewrite !slice_to_end; [reflexivity | lia | lia].
        -- rewrite !slice_beyond by lia. reflexivity.
    + destruct (ri && dispatch_prefers_readinto).
      * rewrite readinto_write_exact by (apply Hrem; reflexivity).
        subst s0; cbn [content pos]. f_equal. apply slice_range.
      * rewrite read_write_exact by (apply Hrem; reflexivity).
        subst s0; cbn [content pos]. f_equal. apply slice_range.
  - destruct (ri && dispatch_prefers_readinto).
    + rewrite readinto_write_exact by (apply Hrem; reflexivity). reflexivity.
    + rewrite read_write_exact by (apply Hrem; reflexivity). reflexivity.
Qed.

(* the fast path on a short-reading raw source: one read, so possibly fewer
   bytes than requested -- but always a prefix of the requested range, and
   non-empty when the requested range is *)
Theorem fast_path_partial : forall fuel s ri r,
  r_step r = 1 -> fast_path (range_len r) = true ->
  exists k, k <= range_len r /\
    copy_bytes fuel s ri (Some r) = Ok (slice (content s) (r_start r) (r_start r + k)) /\
    (0 < range_len r -> r_start r < len (content s) -> 0 < k).
Proof.
  intros fuel s ri r Hstep Hfp. unfold copy_bytes.
  rewrite Hstep, N.eqb_refl. cbn [negb]. rewrite andb_false_r, Hfp.
  set (s0 := {| content := content s; pos := r_start r; caps := caps s |}).
  exists (rd_count s0 (range_len r)). split; [apply rd_count_le|]. split.
  - rewrite rd_buf. reflexivity.
  - intros H1 H2. apply rd_count_pos; [assumption|]. unfold remaining; subst s0; cbn. lia.
Qed.

Theorem bad_step_rejected : forall fuel s ri r,
  r_step r <> 1 -> copy_bytes fuel s ri (Some r) = Err ValueError.
Proof.
  intros fuel s ri r H. unfold copy_bytes.
  apply N.eqb_neq in H. rewrite H. reflexivity.
Qed.
