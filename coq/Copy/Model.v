(* Model of nobodd/transfer.py: copy_bytes, _copy_read_write, _copy_readinto_write.
   Executable definitions only; proofs are in Proofs.v.

   The source is an abstract reader: its content, its position, and an oracle
   list of read caps.  A read of n bytes returns
       min n (min remaining (1 + cap))     bytes
   where cap is the next element of the oracle (a short read, as io.RawIOBase
   permits), or exactly  min n remaining  once the oracle is exhausted (full
   reads: io.BytesIO, io.BufferedReader, FatPath.open which wraps FatFile in a
   BufferedReader).  So a read returns between 1 and n bytes while data remains
   and n > 0, and nothing only at the end of the source.

   The loop guards, read sizes, decrements, the fast-path comparison, the buffer
   size and the presence of a `break` on an empty read come from Gen/Copy.v,
   i.e. from the AST of transfer.py. *)
From Coq Require Import List NArith Bool.
From NV Require Import Lib.Res Gen.Copy.
Import ListNotations.
Open Scope N_scope.

Record src := { content : list N; pos : N; caps : list N }.

Definition len (l : list N) : N := N.of_nat (length l).
Definition remaining (s : src) : N := len (content s) - pos s.

Definition rd_count (s : src) (n : N) : N :=
  N.min n (N.min (remaining s) (match caps s with [] => n | c :: _ => 1 + c end)).

(* source.read(n) / source.readinto(<buffer of n bytes>) *)
Definition rd (s : src) (n : N) : list N * src :=
  let k := rd_count s n in
  (firstn (N.to_nat k) (skipn (N.to_nat (pos s)) (content s)),
   {| content := content s; pos := pos s + k; caps := tl (caps s) |}).

Definition is_empty (b : list N) : bool := match b with [] => true | _ => false end.

(* `while True: buf = read(SIZE); [if not buf: break]; write(buf)` *)
Fixpoint loop_none (fuel : nat) (size : N) (brk : bool) (s : src) (out : list N) : res (list N) :=
  match fuel with
  | O => Err OutOfFuel
  | S f =>
    let '(buf, s') := rd s size in
    if brk && is_empty buf then Ok out
    else loop_none f size brk s' (out ++ buf)
  end.

(* `while GUARD: buf = read(SIZE); [if not buf: break]; length -= len(buf); write(buf)` *)
Fixpoint loop_bounded (fuel : nat) (guard : N -> bool) (size : N -> N) (next : N -> N -> N)
         (brk : bool) (s : src) (length : N) (out : list N) : res (list N) :=
  match fuel with
  | O => Err OutOfFuel
  | S f =>
    if guard length then
      let '(buf, s') := rd s (size length) in
      if brk && is_empty buf then Ok out
      else loop_bounded f guard size next brk s' (next length (len buf)) (out ++ buf)
    else Ok out
  end.

(* _copy_read_write(read, write, length) *)
Definition copy_read_write (fuel : nat) (s : src) (length : option N) : res (list N) :=
  match length with
  | None => loop_none fuel rw_none_size rw_none_break_on_empty s []
  | Some l => loop_bounded fuel rw_guard rw_size rw_next rw_break_on_empty s l []
  end.

(* _copy_readinto_write(readinto, write, length): the buffer is a memoryview of
   ri_alloc bytes; slicing it clips the requested size to the allocation *)
Definition copy_readinto_write (fuel : nat) (s : src) (length : option N) : res (list N) :=
  match length with
  | None => loop_none fuel ri_alloc ri_none_break_on_empty s []
  | Some l => loop_bounded fuel ri_guard (fun x => N.min ri_alloc (ri_size x)) ri_next
                           ri_break_on_empty s l []
  end.

(* range(start, stop, step) *)
Record byterange := { r_start : N; r_stop : N; r_step : N }.
Definition range_len (r : byterange) : N := r_stop r - r_start r.

(* copy_bytes(source, target, byterange=...): what is written to the target.
   `has_readinto` selects the loop as the try/except AttributeError does. *)
Definition copy_bytes (fuel : nat) (s : src) (has_readinto : bool) (r : option byterange)
  : res (list N) :=
  match r with
  | Some r =>
    if step_must_be_one && negb (r_step r =? 1) then Err ValueError
    else
      let s := {| content := content s; pos := r_start r; caps := caps s |} in
      let length := range_len r in
      if fast_path length then Ok (fst (rd s length))
      else if has_readinto && dispatch_prefers_readinto
           then copy_readinto_write fuel s (Some length)
           else copy_read_write fuel s (Some length)
  | None =>
    if has_readinto && dispatch_prefers_readinto
    then copy_readinto_write fuel s None
    else copy_read_write fuel s None
  end.

(* content[start : stop] (python slicing: clipped to the content) *)
Definition slice (c : list N) (start stop : N) : list N :=
  firstn (N.to_nat (stop - start)) (skipn (N.to_nat start) c).
