From Coq Require Import List NArith String.
From NV Require Import Lib.Val Lib.Res Lib.Wire Netascii.Model.
Import ListNotations.
Open Scope string_scope.

Definition get_mode (v : val) : emode :=
  match getN v with 0%N => Strict | 1%N => Ignore | 2%N => Replace | _ => OtherMode end.

Definition VSN (x : list N * nat) : val := VL [VS (fst x); VNat (snd x)].

Definition dispatch (cmd : string) (a : val) : val :=
  if String.eqb cmd "encode" then
    VRes VSN (encode (get_mode (arg 0 a)) (getB (arg 1 a)) (getS (arg 2 a)))
  else if String.eqb cmd "decode" then
    VRes VSN (decode (get_mode (arg 0 a)) (getB (arg 1 a)) (getS (arg 2 a)))
  else if String.eqb cmd "iterdecode" then
    VRes VS (iterdecode (get_mode (arg 0 a)) (getLs (arg 1 a)))
  else if String.eqb cmd "iterencode" then
    VRes VS (iterencode (get_mode (arg 0 a)) (getLs (arg 1 a)))
  else if String.eqb cmd "swriter" then
    VRes VS (swriter_run (get_mode (arg 0 a)) [] (getLs (arg 1 a)))
  else if String.eqb cmd "xreads" then
    VRes (fun x => VLs (fst x))
         (xreads (map getNat (getL (arg 1 a))) {| xsrc := getS (arg 0 a); xbuf := [] |})
  else VErr "unknown command".
