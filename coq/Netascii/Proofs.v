(* Proofs about the netascii model. *)
From Coq Require Import List NArith Bool Lia Arith.
From NV Require Import Lib.Res Gen.Netascii Netascii.Model.
Import ListNotations.
Open Scope N_scope.

Ltac len := try subst; cbn [length] in *; lia.

Definition all_ascii (s : list N) : bool := forallb is_ascii s.

Lemma ascii_encode_id m s : all_ascii s = true -> ascii_encode m s = Ok s.
Proof.
  induction s as [|c r IH]; cbn; [reflexivity|].
  intros H. apply andb_true_iff in H as [Hc Hr]. rewrite Hc, (IH Hr). reflexivity.
Qed.

Lemma ascii_decode_id m s : all_ascii s = true -> ascii_decode m s = Ok s.
Proof.
  induction s as [|c r IH]; cbn; [reflexivity|].
  intros H. apply andb_true_iff in H as [Hc Hr]. rewrite Hc, (IH Hr). reflexivity.
Qed.

(* ---- encode ---- *)
Theorem encode_spec m f s :
  all_ascii s = true -> encode m f s = Ok (flat_map enc1 s, length s).
Proof. intros H. unfold encode. rewrite (ascii_encode_id m s H). reflexivity. Qed.

Lemma enc1_cases c :
  (c = LF /\ enc1 c = [CR; LF]) \/ (c = CR /\ enc1 c = [CR; NUL]) \/
  (c <> LF /\ c <> CR /\ enc1 c = [c]).
Proof.
  unfold enc1. destruct (N.eqb_spec c LF) as [->|H1]; [left; auto|].
  destruct (N.eqb_spec c CR) as [->|H2]; [right; left; auto|]. right; right; auto.
Qed.

(* ---- decode inverts encode ---- *)
Lemma dec_loop_enc m f b rest :
  dec_loop m f (enc_bytes b ++ rest) =
  do x <- dec_loop m f rest; Ok (b ++ fst x, (length (enc_bytes b) + snd x)%nat).
Proof.
  induction b as [|c r IH]; cbn [enc_bytes flat_map app].
  - destruct (dec_loop m f rest) as [[o k]|e]; reflexivity.
  - fold (enc_bytes r). rewrite app_length.
    destruct (enc1_cases c) as [[-> E]|[[-> E]|(H1 & H2 & E)]]; rewrite E; cbn [app dec_loop length].
    + change (CR =? CR) with true. change (LF =? NUL) with false. change (LF =? LF) with true.
      cbn iota. rewrite IH. destruct (dec_loop m f rest) as [[o k]|e]; cbn; [|reflexivity].
      f_equal.
    + change (CR =? CR) with true. change (NUL =? NUL) with true. cbn iota.
      rewrite IH. destruct (dec_loop m f rest) as [[o k]|e]; cbn; [|reflexivity]. f_equal.
    + destruct (N.eqb_spec c CR) as [->|_]; [congruence|].
      rewrite IH. destruct (dec_loop m f rest) as [[o k]|e]; cbn; [|reflexivity]. f_equal.
Qed.

Theorem decode_encode m f b :
  all_ascii b = true ->
  decode m f (enc_bytes b) = Ok (b, length (enc_bytes b)).
Proof.
  intros H. unfold decode. rewrite <- (app_nil_r (enc_bytes b)) at 1.
  rewrite dec_loop_enc. cbn. rewrite app_nil_r, Nat.add_0_r.
  rewrite (ascii_decode_id m b H). reflexivity.
Qed.

Theorem decode_encode_str m m' f f' s :
  all_ascii s = true ->
  (do e <- encode m f s; decode m' f' (fst e)) = Ok (s, length (enc_bytes s)).
Proof.
  intros H. rewrite (encode_spec m f s H). cbn. apply decode_encode; exact H.
Qed.

Theorem encode_decode_image m f s :
  all_ascii s = true ->
  (do e <- encode m f s; do d <- decode m true (fst e); encode m f (fst d))
  = encode m f s.
Proof.
  intros H. rewrite (encode_spec m f s H). cbn [bind fst].
  change (flat_map enc1 s) with (enc_bytes s).
  rewrite (decode_encode m true s H). cbn [bind fst]. apply encode_spec; exact H.
Qed.

(* ---- splitting the decoder input ---- *)
Definition lift (o : list N) (k : nat) (r : res (list N * nat)) : res (list N * nat) :=
  match r with Ok x => Ok (o ++ fst x, (k + snd x)%nat) | Err e => Err e end.

Lemma lift_nil r : lift [] 0 r = r.
Proof. destruct r as [[o k]|e]; reflexivity. Qed.

Lemma lift_lift o1 k1 o2 k2 r :
  lift o1 k1 (lift o2 k2 r) = lift (o1 ++ o2) (k1 + k2) r.
Proof. destruct r as [[o k]|e]; cbn; [|reflexivity]. rewrite app_assoc, Nat.add_assoc. reflexivity. Qed.

Lemma handle_error_err m e1 e2 :
  handle_error m = Err e1 -> handle_error m = Err e2 -> e1 = e2.
Proof. congruence. Qed.

(* one-step unfolding lemmas, so that proofs never unfold [dec_loop] blindly *)
Lemma dec_nil m f : dec_loop m f [] = Ok ([], O).
Proof. reflexivity. Qed.
Lemma dec_cr_end m f : dec_loop m f [CR] =
  if f then match handle_error m with Ok e => Ok (e, 1%nat) | Err x => Err x end else Ok ([], O).
Proof. cbn. destruct f; [destruct (handle_error m)|]; reflexivity. Qed.
Lemma dec_cr_nul m f r : dec_loop m f (CR :: NUL :: r) = lift [CR] 2 (dec_loop m f r).
Proof. cbn. destruct (dec_loop m f r) as [[o k]|e]; reflexivity. Qed.
Lemma dec_cr_lf m f r : dec_loop m f (CR :: LF :: r) = lift [LF] 2 (dec_loop m f r).
Proof. cbn. destruct (dec_loop m f r) as [[o k]|e]; reflexivity. Qed.
Lemma dec_cr_bad m f d r : d <> NUL -> d <> LF ->
  dec_loop m f (CR :: d :: r) =
  match handle_error m with Ok e => lift e 1 (dec_loop m f (d :: r)) | Err x => Err x end.
Proof.
  intros H0 H1. change (dec_loop m f (CR :: d :: r)) with
    (if d =? NUL then do x <- dec_loop m f r; Ok (CR :: fst x, (2 + snd x)%nat)
     else if d =? LF then do x <- dec_loop m f r; Ok (LF :: fst x, (2 + snd x)%nat)
     else do e <- handle_error m; do x <- dec_loop m f (d :: r); Ok (e ++ fst x, (1 + snd x)%nat)).
  destruct (N.eqb_spec d NUL); [congruence|]. destruct (N.eqb_spec d LF); [congruence|].
  destruct (handle_error m); cbn [bind]; [|reflexivity].
  destruct (dec_loop m f (d :: r)) as [[o k]|e]; reflexivity.
Qed.
Lemma dec_plain m f c r : c <> CR -> dec_loop m f (c :: r) = lift [c] 1 (dec_loop m f r).
Proof.
  intros H. change (dec_loop m f (c :: r)) with
    (if c =? CR then match r with
       | [] => if f then do e <- handle_error m; Ok (e, 1%nat) else Ok ([], O)
       | d :: r' =>
         if d =? NUL then do x <- dec_loop m f r'; Ok (CR :: fst x, (2 + snd x)%nat)
         else if d =? LF then do x <- dec_loop m f r'; Ok (LF :: fst x, (2 + snd x)%nat)
         else do e <- handle_error m; do x <- dec_loop m f r; Ok (e ++ fst x, (1 + snd x)%nat)
       end
     else do x <- dec_loop m f r; Ok (c :: fst x, (1 + snd x)%nat)).
  destruct (N.eqb_spec c CR); [congruence|].
  destruct (dec_loop m f r) as [[o k]|e]; reflexivity.
Qed.

Inductive shape : list N -> Prop :=
| ShNil : shape []
| ShCrEnd : shape [CR]
| ShCrNul r : shape (CR :: NUL :: r)
| ShCrLf r : shape (CR :: LF :: r)
| ShCrBad d r : d <> NUL -> d <> LF -> shape (CR :: d :: r)
| ShPlain c r : c <> CR -> shape (c :: r).

Lemma shape_all b : shape b.
Proof.
  destruct b as [|c r]; [constructor|].
  destruct (N.eq_dec c CR) as [->|Hc]; [|constructor; exact Hc].
  destruct r as [|d r']; [constructor|].
  destruct (N.eq_dec d NUL) as [->|H0]; [constructor|].
  destruct (N.eq_dec d LF) as [->|H1]; [constructor|].
  constructor; assumption.
Qed.

Ltac by_len b :=
  let n := fresh "n" in let Hn := fresh "Hn" in let IH := fresh "IH" in
  remember (length b) as n eqn:Hn; revert b Hn;
  induction n as [n IH] using lt_wf_ind; intros b Hn; subst n.

(* every failure of dec_loop is the failure of handle_error *)
Lemma dec_loop_err m f b : forall e, dec_loop m f b = Err e -> handle_error m = Err e.
Proof.
  by_len b. intros e.
  destruct (shape_all b) as [| |r|r|d r H0 H1|c r Hc].
  - discriminate.
  - rewrite dec_cr_end. destruct f; [|discriminate]. destruct (handle_error m); congruence.
  - rewrite dec_cr_nul. destruct (dec_loop m f r) eqn:E; cbn [lift]; [discriminate|].
    intros H; inversion H; subst e0. apply (IH (length r)) with (b := r); [len|reflexivity|exact E].
  - rewrite dec_cr_lf. destruct (dec_loop m f r) eqn:E; cbn [lift]; [discriminate|].
    intros H; inversion H; subst e0. apply (IH (length r)) with (b := r); [len|reflexivity|exact E].
  - rewrite (dec_cr_bad m f d r H0 H1). destruct (handle_error m) eqn:Hh; [|congruence].
    destruct (dec_loop m f (d :: r)) eqn:E; cbn [lift]; [discriminate|].
    intros H; inversion H; subst e0.
    apply (IH (length (d :: r))) with (b := d :: r); [len|reflexivity|exact E].
  - rewrite (dec_plain m f c r Hc). destruct (dec_loop m f r) eqn:E; cbn [lift]; [discriminate|].
    intros H; inversion H; subst e0. apply (IH (length r)) with (b := r); [len|reflexivity|exact E].
Qed.

(* Non-final decoding of a prefix, then decoding of the rest, equals decoding
   the whole; errors in the prefix are errors of the whole. *)
Definition split_ok m b : Prop :=
  match dec_loop m false b with
  | Err e => forall rest f, dec_loop m f (b ++ rest) = Err e
  | Ok (o, k) => forall rest f,
      dec_loop m f (b ++ rest) = lift o k (dec_loop m f (skipn k b ++ rest))
  end.

Lemma split_step m pre o1 k1 r :
  k1 = length pre ->
  (forall f rest, dec_loop m f (pre ++ r ++ rest) = lift o1 k1 (dec_loop m f (r ++ rest))) ->
  dec_loop m false (pre ++ r) = lift o1 k1 (dec_loop m false r) ->
  split_ok m r -> split_ok m (pre ++ r).
Proof.
  intros Hk Hstep Hstep0 IH. unfold split_ok in *. rewrite Hstep0.
  destruct (dec_loop m false r) as [[o k]|e]; cbn [lift fst snd].
  - intros rest f. rewrite <- app_assoc, Hstep, IH, lift_lift.
    replace (skipn (k1 + k) (pre ++ r)) with (skipn k r); [reflexivity|].
    subst k1. rewrite skipn_app. rewrite (@skipn_all2 _ (length pre + k)%nat pre) by lia. cbn [app].
    f_equal. lia.
  - intros rest f. rewrite <- app_assoc, Hstep, IH. reflexivity.
Qed.

Lemma dec_loop_split m b : split_ok m b.
Proof.
  by_len b.
  destruct (shape_all b) as [| |r|r|d r H0 H1|c r Hc].
  - unfold split_ok. cbn. intros rest f. rewrite lift_nil. reflexivity.
  - unfold split_ok. rewrite dec_cr_end. intros rest f. rewrite lift_nil. reflexivity.
  - apply (split_step m [CR; NUL] [CR] 2 r); [reflexivity| | |].
    + intros f rest. apply dec_cr_nul.
    + apply dec_cr_nul.
    + apply (IH (length r)); [len|reflexivity].
  - apply (split_step m [CR; LF] [LF] 2 r); [reflexivity| | |].
    + intros f rest. apply dec_cr_lf.
    + apply dec_cr_lf.
    + apply (IH (length r)); [len|reflexivity].
  - destruct (handle_error m) as [eo|ee] eqn:Hh.
    + apply (split_step m [CR] eo 1 (d :: r)); [reflexivity| | |].
      * intros f rest. cbn [app]. rewrite (dec_cr_bad m f d (r ++ rest) H0 H1), Hh. reflexivity.
      * cbn [app]. rewrite (dec_cr_bad m false d r H0 H1), Hh. reflexivity.
      * apply (IH (length (d :: r))); [len|reflexivity].
    + unfold split_ok. rewrite (dec_cr_bad m false d r H0 H1), Hh.
      intros rest f. cbn [app]. rewrite (dec_cr_bad m f d (r ++ rest) H0 H1), Hh. reflexivity.
  - apply (split_step m [c] [c] 1 r); [reflexivity| | |].
    + intros f rest. apply dec_plain; exact Hc.
    + apply dec_plain; exact Hc.
    + apply (IH (length r)); [len|reflexivity].
Qed.

(* What is held back by a non-final call: nothing, or exactly one trailing CR. *)
Definition held_ok (b : list N) (k : nat) : Prop :=
  (k = length b) \/ (S k = length b /\ skipn k b = [CR]).

Lemma held_step pre r k : held_ok r k -> held_ok (pre ++ r) (length pre + k).
Proof.
  unfold held_ok. rewrite app_length. intros [->|[H1 H2]]; [left; reflexivity|].
  right. split; [lia|]. rewrite skipn_app. rewrite (@skipn_all2 _ (length pre + k)%nat pre) by lia. cbn [app].
  replace (length pre + k - length pre)%nat with k by lia. exact H2.
Qed.

Lemma dec_loop_held m b : forall o k, dec_loop m false b = Ok (o, k) -> held_ok b k.
Proof.
  by_len b. intros o k.
  destruct (shape_all b) as [| |r|r|d r H0 H1|c r Hc].
  - intros H; inversion H; subst. left; reflexivity.
  - rewrite dec_cr_end. intros H; inversion H; subst. right; split; reflexivity.
  - rewrite dec_cr_nul. destruct (dec_loop m false r) as [[o' k']|] eqn:E; cbn [lift fst snd]; [|discriminate].
    intros H; inversion H; subst o k.
    apply (held_step [CR; NUL] r k'). apply (IH (length r)) with (o := o'); [len|reflexivity|exact E].
  - rewrite dec_cr_lf. destruct (dec_loop m false r) as [[o' k']|] eqn:E; cbn [lift fst snd]; [|discriminate].
    intros H; inversion H; subst o k.
    apply (held_step [CR; LF] r k'). apply (IH (length r)) with (o := o'); [len|reflexivity|exact E].
  - rewrite (dec_cr_bad m false d r H0 H1). destruct (handle_error m); [|discriminate].
    destruct (dec_loop m false (d :: r)) as [[o' k']|] eqn:E; cbn [lift fst snd]; [|discriminate].
    intros H; inversion H; subst o k.
    apply (held_step [CR] (d :: r) k').
    apply (IH (length (d :: r))) with (o := o'); [len|reflexivity|exact E].
  - rewrite (dec_plain m false c r Hc).
    destruct (dec_loop m false r) as [[o' k']|] eqn:E; cbn [lift fst snd]; [|discriminate].
    intros H; inversion H; subst o k.
    apply (held_step [c] r k'). apply (IH (length r)) with (o := o'); [len|reflexivity|exact E].
Qed.

(* ---- ascii stage distributes over concatenation ---- *)
Lemma ascii_decode_app m a b :
  ascii_decode m (a ++ b) =
  match ascii_decode m a with
  | Err e => Err e
  | Ok x => match ascii_decode m b with Err e => Err e | Ok y => Ok (x ++ y) end
  end.
Proof.
  induction a as [|c r IH]; cbn.
  - destruct (ascii_decode m b); reflexivity.
  - destruct (is_ascii c).
    + rewrite IH. destruct (ascii_decode m r); cbn; [|reflexivity].
      destruct (ascii_decode m b); reflexivity.
    + destruct m; try reflexivity; rewrite IH; try reflexivity.
      destruct (ascii_decode Replace r); cbn; [|reflexivity].
      destruct (ascii_decode Replace b); reflexivity.
Qed.

(* similarity of results: equal text, or both fail (the exception class may
   differ between UnicodeError and its subclass UnicodeDecodeError, or between
   ValueError and LookupError, depending on which chunk fails first) *)
Definition res_sim {A} (r1 r2 : res A) : Prop :=
  match r1, r2 with
  | Ok a, Ok b => a = b
  | Err _, Err _ => True
  | _, _ => False
  end.

Definition text_of (r : res (list N * nat)) : res (list N) :=
  match r with Ok x => Ok (fst x) | Err e => Err e end.

Theorem decode_chunk_independent_gen m chunks : forall buf,
  res_sim (iter_run (idec_step m) buf chunks)
          (text_of (decode m true (buf ++ concat chunks))).
Proof.
  induction chunks as [|c cs IH]; intros buf; cbn [iter_run concat].
  - unfold idec_step. rewrite !app_nil_r.
    destruct (decode m true buf) as [[t k]|e]; cbn; auto.
  - unfold idec_step at 1. set (data := buf ++ c).
    rewrite app_assoc. fold data. unfold decode at 1 2.
    pose proof (dec_loop_split m data) as Hs. unfold split_ok in Hs.
    destruct (dec_loop m false data) as [[o k]|e]; cbn [bind fst snd].
    + rewrite (Hs (concat cs) true).
      specialize (IH (skipn k data)). unfold decode in IH.
      destruct (ascii_decode m o) as [t|e1] eqn:Ht; cbn [bind fst snd].
      * destruct (dec_loop m true (skipn k data ++ concat cs)) as [[o' k']|e2]; cbn [lift bind fst snd] in *.
        -- rewrite ascii_decode_app, Ht.
           destruct (iter_run (idec_step m) (skipn k data) cs) as [t'|e3];
             destruct (ascii_decode m o') as [t''|e4]; cbn in *; try contradiction; auto.
           subst; reflexivity.
        -- destruct (iter_run (idec_step m) (skipn k data) cs); cbn in *; auto.
      * destruct (dec_loop m true (skipn k data ++ concat cs)) as [[o' k']|e2]; cbn [lift bind fst snd]; [|exact I].
        rewrite ascii_decode_app, Ht. exact I.
    + rewrite (Hs (concat cs) true). exact I.
Qed.

Theorem decode_chunk_independent m chunks :
  res_sim (iterdecode m chunks) (text_of (decode m true (concat chunks))).
Proof. exact (decode_chunk_independent_gen m chunks []). Qed.

(* the buffer between calls holds at most the single trailing CR *)
Theorem decoder_holds_back_only_cr m buf input out buf' :
  idec_step m buf input false = Ok (out, buf') ->
  buf' = [] \/ (buf' = [CR] /\ exists pre, buf ++ input = pre ++ [CR]).
Proof.
  unfold idec_step, decode. set (data := buf ++ input).
  destruct (dec_loop m false data) as [[o k]|e] eqn:E; cbn; [|discriminate].
  destruct (ascii_decode m o); cbn; [|discriminate].
  intros H; inversion H; subst.
  destruct (dec_loop_held _ _ _ _ E) as [->|[H1 H2]].
  - left. apply skipn_all.
  - right. split; [exact H2|]. exists (firstn k data).
    rewrite <- H2. symmetry; apply firstn_skipn.
Qed.

(* ---- encoder side: chunking never matters for ASCII text ---- *)
Lemma all_ascii_app a b : all_ascii (a ++ b) = all_ascii a && all_ascii b.
Proof. apply forallb_app. Qed.

Lemma enc_bytes_app a b : enc_bytes (a ++ b) = enc_bytes a ++ enc_bytes b.
Proof. unfold enc_bytes. apply flat_map_app. Qed.

Lemma ienc_step_ascii m input f :
  all_ascii input = true -> ienc_step m [] input f = Ok (enc_bytes input, []).
Proof.
  intros H. unfold ienc_step. cbn [app]. rewrite (encode_spec m f input H).
  cbn. rewrite skipn_all. reflexivity.
Qed.

Theorem encode_chunk_independent m chunks :
  forallb all_ascii chunks = true ->
  iterencode m chunks = Ok (enc_bytes (concat chunks)).
Proof.
  unfold iterencode. induction chunks as [|c cs IH]; cbn [iter_run concat forallb]; intros H.
  - rewrite ienc_step_ascii by reflexivity. reflexivity.
  - apply andb_true_iff in H as [Hc Hcs].
    rewrite (ienc_step_ascii m c false Hc). cbn [bind fst snd].
    rewrite (IH Hcs). cbn. rewrite enc_bytes_app. reflexivity.
Qed.

Theorem streamwriter_chunk_independent m chunks :
  forallb all_ascii chunks = true ->
  swriter_run m [] chunks = Ok (enc_bytes (concat chunks)).
Proof.
  induction chunks as [|c cs IH]; cbn [swriter_run concat forallb]; intros H.
  - unfold swriter_write. rewrite ienc_step_ascii by reflexivity. reflexivity.
  - apply andb_true_iff in H as [Hc Hcs]. unfold swriter_write at 1.
    rewrite (ienc_step_ascii m c false Hc). cbn [bind fst snd].
    rewrite (IH Hcs). cbn. rewrite enc_bytes_app. reflexivity.
Qed.

(* ---- error modes ---- *)
(* spec: every CR must be followed by NUL or LF (a trailing CR is tolerated
   when not final); [sub] is what a malformed CR is replaced by *)
Fixpoint dec_sub (sub : list N) (final : bool) (b : list N) : list N * bool :=
  match b with
  | [] => ([], true)
  | c :: r =>
    if c =? CR then
      match r with
      | [] => if final then (sub, false) else ([], true)
      | d :: r' =>
        if d =? NUL then let x := dec_sub sub final r' in (CR :: fst x, snd x)
        else if d =? LF then let x := dec_sub sub final r' in (LF :: fst x, snd x)
        else let x := dec_sub sub final r in (sub ++ fst x, false)
      end
    else let x := dec_sub sub final r in (c :: fst x, snd x)
  end.
Definition well_formed final b := snd (dec_sub [] final b).

Lemma dec_sub_wf_indep sub final b : snd (dec_sub sub final b) = well_formed final b.
Proof.
  unfold well_formed.
  remember (length b) as n eqn:Hn. revert b Hn.
  induction n as [n IH] using lt_wf_ind. intros b Hn.
  destruct b as [|c r]; cbn [dec_sub]; [reflexivity|].
  destruct (c =? CR).
  - destruct r as [|d r']; [destruct final; reflexivity|].
    destruct (d =? NUL); [cbn; apply (IH (length r')); [len|reflexivity]|].
    destruct (d =? LF); [cbn; apply (IH (length r')); [len|reflexivity]|].
    reflexivity.
  - cbn. apply (IH (length r)); [len|reflexivity].
Qed.

Lemma dec_loop_sub m final b sub :
  handle_error m = Ok sub ->
  exists k, dec_loop m final b = Ok (fst (dec_sub sub final b), k).
Proof.
  intros Hh.
  remember (length b) as n eqn:Hn. revert b Hn.
  induction n as [n IH] using lt_wf_ind. intros b Hn.
  destruct b as [|c r]; cbn [dec_loop dec_sub]; [eexists; reflexivity|].
  destruct (c =? CR).
  - destruct r as [|d r'].
    + destruct final; [rewrite Hh|]; eexists; reflexivity.
    + destruct (d =? NUL).
      { destruct (IH (length r')) with (b := r') as [k Hk]; [len|reflexivity|].
        rewrite Hk. eexists; reflexivity. }
      destruct (d =? LF).
      { destruct (IH (length r')) with (b := r') as [k Hk]; [len|reflexivity|].
        rewrite Hk. eexists; reflexivity. }
      rewrite Hh. cbn [bind].
      destruct (IH (length (d :: r'))) with (b := d :: r') as [k Hk]; [len|reflexivity|].
      rewrite Hk. eexists; reflexivity.
  - destruct (IH (length r)) with (b := r) as [k Hk]; [len|reflexivity|].
    rewrite Hk. eexists; reflexivity.
Qed.

Lemma dec_loop_wf m final b sub e :
  handle_error m = Err e ->
  if well_formed final b
  then exists k, dec_loop m final b = Ok (fst (dec_sub sub final b), k)
  else dec_loop m final b = Err e.
Proof.
  intros Hh. unfold well_formed.
  remember (length b) as n eqn:Hn. revert b Hn.
  induction n as [n IH] using lt_wf_ind. intros b Hn.
  destruct b as [|c r]; cbn [dec_loop dec_sub]; [eexists; reflexivity|].
  destruct (c =? CR).
  - destruct r as [|d r'].
    + destruct final; cbn; [rewrite Hh; reflexivity|eexists; reflexivity].
    + destruct (d =? NUL).
      { specialize (IH (length r')) with (b := r'). cbn [snd].
        destruct (snd (dec_sub [] final r')).
        - destruct IH as [k Hk]; [len|reflexivity|]. rewrite Hk. eexists; reflexivity.
        - rewrite IH; [reflexivity|len|reflexivity]. }
      destruct (d =? LF).
      { specialize (IH (length r')) with (b := r'). cbn [snd].
        destruct (snd (dec_sub [] final r')).
        - destruct IH as [k Hk]; [len|reflexivity|]. rewrite Hk. eexists; reflexivity.
        - rewrite IH; [reflexivity|len|reflexivity]. }
      cbn [snd]. rewrite Hh. reflexivity.
  - specialize (IH (length r)) with (b := r). cbn [snd].
    destruct (snd (dec_sub [] final r)).
    + destruct IH as [k Hk]; [len|reflexivity|]. rewrite Hk. eexists; reflexivity.
    + rewrite IH; [reflexivity|len|reflexivity].
Qed.

Theorem error_modes final b :
  (* strict / unknown mode: fail exactly on malformed input *)
  (if well_formed final b
   then (exists k, dec_loop Strict final b = Ok (fst (dec_sub [] final b), k)) /\
        (exists k, dec_loop OtherMode final b = Ok (fst (dec_sub [] final b), k))
   else dec_loop Strict final b = Err UnicodeError /\
        dec_loop OtherMode final b = Err ValueError) /\
  (* ignore: malformed CR vanishes; replace: becomes '?' ; all else untouched *)
  (exists k, dec_loop Ignore final b = Ok (fst (dec_sub [] final b), k)) /\
  (exists k, dec_loop Replace final b = Ok (fst (dec_sub [QM] final b), k)).
Proof.
  split; [|split].
  - pose proof (dec_loop_wf Strict final b [] UnicodeError eq_refl) as H1.
    pose proof (dec_loop_wf OtherMode final b [] ValueError eq_refl) as H2.
    destruct (well_formed final b); split; assumption.
  - apply dec_loop_sub; reflexivity.
  - apply dec_loop_sub; reflexivity.
Qed.

(* ---- BufferedTranscoder ---- *)
Fixpoint takeW (s : list N) : list N :=
  match s with
  | [] => []
  | c :: r => if is_ascii c then c :: takeW r else []
  end.

Definition pending (st : xstate) : list N := xbuf st ++ enc_bytes (takeW (xsrc st)).

Lemma takeW_ascii s : all_ascii (takeW s) = true.
Proof.
  induction s as [|c r IH]; cbn [takeW]; [reflexivity|].
  destruct (is_ascii c) eqn:E; [|reflexivity].
  change (all_ascii (c :: takeW r)) with (is_ascii c && all_ascii (takeW r)).
  rewrite E, IH. reflexivity.
Qed.

Lemma ascii_decode_replace_ok s : exists t, ascii_decode Replace s = Ok t /\
  (all_ascii s = true -> t = s) /\ (all_ascii s = false -> all_ascii t = false).
Proof.
  induction s as [|c r (t & Ht & H1 & H2)].
  - exists []. cbn. repeat split; auto; discriminate.
  - cbn [ascii_decode]. change (all_ascii (c :: r)) with (is_ascii c && all_ascii r).
    destruct (is_ascii c) eqn:E; rewrite Ht; cbn [bind andb].
    + exists (c :: t). split; [reflexivity|]. split.
      * intros Hr. rewrite (H1 Hr). reflexivity.
      * intros Hr. change (all_ascii (c :: t)) with (is_ascii c && all_ascii t).
        rewrite E, (H2 Hr). reflexivity.
    + exists (UFFFD :: t). split; [reflexivity|]. split; [discriminate|]. intros _. reflexivity.
Qed.

Lemma ascii_encode_strict_nonascii s :
  all_ascii s = false -> ascii_encode Strict s = Err UnicodeEncodeError.
Proof.
  induction s as [|c r IH]; cbn; [discriminate|].
  destruct (is_ascii c); cbn; [|reflexivity]. intros H. rewrite (IH H). reflexivity.
Qed.

Lemma takeW_split n s :
  all_ascii (firstn n s) = true -> takeW s = firstn n s ++ takeW (skipn n s).
Proof.
  revert s; induction n as [|n IH]; intros s; cbn; [reflexivity|].
  destruct s as [|c r]; cbn; [reflexivity|].
  destruct (is_ascii c); cbn; [|discriminate]. intros H. rewrite (IH r H). reflexivity.
Qed.

Lemma xrefill_spec st :
  match xrefill st with
  | Ok st' => pending st' = pending st /\ xsrc st' = skipn XCHUNK (xsrc st)
              /\ exists e, xbuf st' = xbuf st ++ e
  | Err e => e = UnicodeEncodeError /\ all_ascii (firstn XCHUNK (xsrc st)) = false
  end.
Proof.
  unfold xrefill. destruct (ascii_decode_replace_ok (firstn XCHUNK (xsrc st))) as (t & Ht & H1 & H2).
  rewrite Ht. cbn [bind].
  destruct (all_ascii (firstn XCHUNK (xsrc st))) eqn:E.
  - rewrite (H1 eq_refl). rewrite (encode_spec Strict true _ E). cbn [bind fst].
    unfold pending; cbn [xbuf xsrc]. split; [|split; [reflexivity|eexists; reflexivity]].
    rewrite (takeW_split XCHUNK (xsrc st) E), enc_bytes_app, app_assoc. reflexivity.
  - unfold encode. rewrite (ascii_encode_strict_nonascii t (H2 eq_refl)). cbn. auto.
Qed.

Lemma XCHUNK_pos : (0 < XCHUNK)%nat.
Proof. unfold XCHUNK, transcoder_chunk. lia. Qed.

Lemma skipn_shorter {A} n (s : list A) : (0 < n)%nat -> s <> [] -> (length (skipn n s) < length s)%nat.
Proof. intros Hn Hs. rewrite skipn_length. destruct s; [congruence|cbn [length]; lia]. Qed.

Lemma xfill_spec fuel n st :
  (length (xsrc st) < fuel)%nat ->
  match xfill fuel n st with
  | Ok st' => pending st' = pending st /\
              (n <= length (xbuf st') \/ xsrc st' = [])%nat /\
              (exists e, xbuf st' = xbuf st ++ e)
  | Err e => e = UnicodeEncodeError /\ all_ascii (xsrc st) = false
  end.
Proof.
  revert st. induction fuel as [|f IH]; intros st Hf; [lia|].
  cbn [xfill]. destruct (Nat.ltb_spec (length (xbuf st)) n) as [Hlt|Hge].
  - destruct (xsrc st) as [|c r] eqn:Es.
    + split; [reflexivity|]. split; [right; exact Es|exists []; rewrite app_nil_r; reflexivity].
    + rewrite <- Es. pose proof (xrefill_spec st) as Hr.
      destruct (xrefill st) as [st1|e]; cbn [bind].
      * destruct Hr as (Hp & Hsrc & (e1 & Hb)).
        assert (L : (length (xsrc st1) < f)%nat).
        { rewrite Hsrc. pose proof (@skipn_shorter N XCHUNK (xsrc st) XCHUNK_pos) as Hs.
          rewrite Es in *. specialize (Hs ltac:(discriminate)). lia. }
        specialize (IH st1 L). destruct (xfill f n st1) as [st2|e2].
        -- destruct IH as (Hp2 & Hor & (e3 & Hb2)). split; [congruence|]. split; [exact Hor|].
           exists (e1 ++ e3). rewrite Hb2, Hb, app_assoc. reflexivity.
        -- destruct IH as [-> Hna]. split; [reflexivity|].
           rewrite Hsrc in Hna. rewrite <- (firstn_skipn XCHUNK (xsrc st)), all_ascii_app, Hna.
           apply andb_false_r.
      * destruct Hr as [-> Hna]. split; [reflexivity|].
        rewrite <- (firstn_skipn XCHUNK (xsrc st)), all_ascii_app, Hna. reflexivity.
  - split; [reflexivity|]. split; [left; exact Hge|exists []; rewrite app_nil_r; reflexivity].
Qed.

(* one readinto(n): bounded, exact, zero only at end of data, the only failure
   is UnicodeEncodeError on non-ASCII content *)
Theorem xreadinto_spec n st :
  match xreadinto n st with
  | Ok (out, st') =>
      (length out <= n)%nat /\ out ++ pending st' = pending st /\
      (out = [] -> (0 < n)%nat -> pending st' = [])
  | Err e => e = UnicodeEncodeError /\ all_ascii (xsrc st) = false
  end.
Proof.
  unfold xreadinto. pose proof (xfill_spec (S (length (xsrc st))) n st (Nat.lt_succ_diag_r _)) as H.
  destruct (xfill (S (length (xsrc st))) n st) as [st1|e]; cbn [bind]; [|exact H].
  destruct H as (Hp & Hor & _). split; [apply firstn_le_length|].
  unfold pending in *; cbn [xbuf xsrc]. split.
  - rewrite <- Hp, app_assoc, firstn_skipn. reflexivity.
  - intros Hout Hn. destruct Hor as [Hge|Hnil].
    + destruct (xbuf st1) as [|x xs]; [cbn in Hge; lia|].
      destruct n; [lia|]. cbn in Hout. discriminate.
    + rewrite Hnil. cbn. rewrite app_nil_r.
      destruct (xbuf st1) as [|x xs] eqn:Eb; [destruct n; reflexivity|].
      destruct n; [lia|]. cbn in Hout. discriminate.
Qed.

Lemma skipn_skipn' {A} a b (l : list A) : skipn a (skipn b l) = skipn (b + a) l.
Proof.
  revert l; induction b as [|b IH]; intros l; [reflexivity|].
  destruct l as [|x l]; [cbn; apply skipn_nil|]. cbn [skipn Nat.add]. apply IH.
Qed.

Lemma xfill_src fuel n : forall st st',
  xfill fuel n st = Ok st' -> exists k, xsrc st' = skipn k (xsrc st).
Proof.
  induction fuel as [|f IH]; intros st st'; cbn [xfill]; [discriminate|].
  destruct (Nat.ltb (length (xbuf st)) n).
  - destruct (xsrc st) as [|c r] eqn:Es.
    + intros H; inversion H; subst. exists O. rewrite Es. reflexivity.
    + rewrite <- Es. pose proof (xrefill_spec st) as Hr.
      destruct (xrefill st) as [st1|e]; cbn [bind]; [|discriminate].
      destruct Hr as (_ & Hsrc & _). intros H. destruct (IH _ _ H) as [k Hk].
      exists (XCHUNK + k)%nat. rewrite Hk, Hsrc, skipn_skipn'. reflexivity.
  - intros H; inversion H; subst. exists O. reflexivity.
Qed.

Lemma all_ascii_skipn_false k s : all_ascii (skipn k s) = false -> all_ascii s = false.
Proof.
  intros H. rewrite <- (firstn_skipn k s), all_ascii_app, H. apply andb_false_r.
Qed.

Lemma xreadinto_src n st out st' :
  xreadinto n st = Ok (out, st') -> exists k, xsrc st' = skipn k (xsrc st).
Proof.
  unfold xreadinto. destruct (xfill (S (length (xsrc st))) n st) as [st1|e] eqn:E; cbn [bind]; [|discriminate].
  intros H; inversion H; subst. cbn [xsrc]. eapply xfill_src; exact E.
Qed.

(* any sequence of readinto calls: each result within its bound, and what was
   delivered plus what is still pending is always the netascii encoding of the
   ASCII prefix of the content; the only failure is UnicodeEncodeError, and
   only when the content is not pure ASCII *)
Theorem transcoder_bounded_exact ns : forall st,
  match xreads ns st with
  | Ok (outs, st') =>
      Forall2 (fun out n => (length out <= n)%nat) outs ns /\
      concat outs ++ pending st' = pending st
  | Err e => e = UnicodeEncodeError /\ all_ascii (xsrc st) = false
  end.
Proof.
  induction ns as [|n r IH]; intros st; cbn [xreads].
  - split; [constructor|reflexivity].
  - pose proof (xreadinto_spec n st) as H1.
    destruct (xreadinto n st) as [[out st1]|e] eqn:E1; cbn [bind fst snd]; [|exact H1].
    destruct H1 as (Hlen & Hp & _). specialize (IH st1).
    destruct (xreads r st1) as [[outs st2]|e]; cbn [bind fst snd].
    + destruct IH as (Hall & Hp2). split; [constructor; assumption|].
      cbn [concat]. rewrite <- app_assoc, Hp2. exact Hp.
    + destruct IH as [-> Hna]. split; [reflexivity|].
      destruct (xreadinto_src _ _ _ _ E1) as [k Hk]. rewrite Hk in Hna.
      eapply all_ascii_skipn_false; exact Hna.
Qed.

(* for pure-ASCII content nothing fails and the total is exactly the encoding *)
Corollary transcoder_ascii_total ns content outs st' :
  all_ascii content = true ->
  xreads ns {| xsrc := content; xbuf := [] |} = Ok (outs, st') ->
  concat outs ++ pending st' = enc_bytes content.
Proof.
  intros Ha H. pose proof (transcoder_bounded_exact ns {| xsrc := content; xbuf := [] |}) as T.
  rewrite H in T. destruct T as (_ & T). rewrite T. unfold pending; cbn [xbuf xsrc app].
  f_equal. clear -Ha. induction content as [|c r IH]; [reflexivity|].
  change (all_ascii (c :: r)) with (is_ascii c && all_ascii r) in Ha.
  apply andb_true_iff in Ha as [Hc Hr]. cbn [takeW]. rewrite Hc, (IH Hr). reflexivity.
Qed.

Corollary transcoder_ascii_never_fails ns content :
  all_ascii content = true ->
  exists outs st', xreads ns {| xsrc := content; xbuf := [] |} = Ok (outs, st').
Proof.
  intros Ha. pose proof (transcoder_bounded_exact ns {| xsrc := content; xbuf := [] |}) as T.
  destruct (xreads ns _) as [[outs st']|e]; [eauto|].
  destruct T as [_ T]. cbn [xsrc] in T. congruence.
Qed.
