(* Model of nobodd/netascii.py (os.linesep = "\n") and tools.BufferedTranscoder.
   Executable definitions only; proofs are in Proofs.v. *)
From Coq Require Import List NArith Bool.
From NV Require Import Lib.Res Gen.Netascii.
Import ListNotations.
Open Scope N_scope.

Inductive emode := Strict | Ignore | Replace | OtherMode.

Definition CR := 13. Definition LF := 10. Definition NUL := 0.
Definition QM := 63. Definition UFFFD := 65533.

Definition is_ascii (c : N) : bool := c <? 128.

(* str.encode('ascii', errors) *)
Fixpoint ascii_encode (m : emode) (s : list N) : res (list N) :=
  match s with
  | [] => Ok []
  | c :: r =>
    if is_ascii c then do t <- ascii_encode m r; Ok (c :: t)
    else match m with
         | Strict => Err UnicodeEncodeError
         | Ignore => ascii_encode m r
         | Replace => do t <- ascii_encode m r; Ok (QM :: t)
         | OtherMode => Err LookupError
         end
  end.

(* bytes.decode('ascii', errors) *)
Fixpoint ascii_decode (m : emode) (s : list N) : res (list N) :=
  match s with
  | [] => Ok []
  | c :: r =>
    if is_ascii c then do t <- ascii_decode m r; Ok (c :: t)
    else match m with
         | Strict => Err UnicodeDecodeError
         | Ignore => ascii_decode m r
         | Replace => do t <- ascii_decode m r; Ok (UFFFD :: t)
         | OtherMode => Err LookupError
         end
  end.

Definition enc1 (c : N) : list N :=
  if c =? LF then [CR; LF] else if c =? CR then [CR; NUL] else [c].

Definition enc_bytes (b : list N) : list N := flat_map enc1 b.

(* netascii.encode(s, errors, final): (bytes, consumed) *)
Definition encode (m : emode) (final : bool) (s : list N) : res (list N * nat) :=
  do b <- ascii_encode m s; Ok (enc_bytes b, length b).

(* netascii.handle_error *)
Definition handle_error (m : emode) : res (list N) :=
  match m with
  | Strict => Err UnicodeError
  | Ignore => Ok []
  | Replace => Ok [QM]
  | OtherMode => Err ValueError
  end.

(* the while loop of netascii.decode: (output bytes, consumed) *)
Fixpoint dec_loop (m : emode) (final : bool) (b : list N) : res (list N * nat) :=
  match b with
  | [] => Ok ([], O)
  | c :: r =>
    if c =? CR then
      match r with
      | [] => if final then do e <- handle_error m; Ok (e, 1%nat) else Ok ([], O)
      | d :: r' =>
        if d =? NUL then do x <- dec_loop m final r'; Ok (CR :: fst x, (2 + snd x)%nat)
        else if d =? LF then do x <- dec_loop m final r'; Ok (LF :: fst x, (2 + snd x)%nat)
        else do e <- handle_error m; do x <- dec_loop m final r; Ok (e ++ fst x, (1 + snd x)%nat)
      end
    else do x <- dec_loop m final r; Ok (c :: fst x, (1 + snd x)%nat)
  end.

Definition decode (m : emode) (final : bool) (b : list N) : res (list N * nat) :=
  do x <- dec_loop m final b;
  do t <- ascii_decode m (fst x);
  Ok (t, snd x).

(* codecs.BufferedIncrementalDecoder.decode / Encoder.encode : state = buffer *)
Definition idec_step (m : emode) (buf input : list N) (final : bool)
  : res (list N * list N) :=
  let data := buf ++ input in
  do x <- decode m final data;
  Ok (fst x, skipn (snd x) data).

Definition ienc_step (m : emode) (buf input : list N) (final : bool)
  : res (list N * list N) :=
  let data := buf ++ input in
  do x <- encode m final data;
  Ok (fst x, skipn (snd x) data).

(* codecs.iterdecode / iterencode: feed chunks, then b"" with final=True *)
Fixpoint iter_run (step : list N -> list N -> bool -> res (list N * list N))
         (buf : list N) (chunks : list (list N)) : res (list N) :=
  match chunks with
  | [] => do x <- step buf [] true; Ok (fst x)
  | c :: cs =>
    do x <- step buf c false;
    do t <- iter_run step (snd x) cs;
    Ok (fst x ++ t)
  end.
Definition iterdecode m chunks := iter_run (idec_step m) [] chunks.
Definition iterencode m chunks := iter_run (ienc_step m) [] chunks.

(* StreamWriter: write(chunk)* ; flush() -- state _buf, output appended to stream *)
Definition swriter_write (m : emode) (buf s : list N) (final : bool)
  : res (list N * list N) := ienc_step m buf s final.
Fixpoint swriter_run (m : emode) (buf : list N) (chunks : list (list N)) : res (list N) :=
  match chunks with
  | [] => do x <- swriter_write m buf [] true; Ok (fst x)
  | c :: cs =>
    do x <- swriter_write m buf c false;
    do t <- swriter_run m (snd x) cs;
    Ok (fst x ++ t)
  end.

(* BufferedTranscoder(stream, 'netascii', 'ascii', errors='replace').
   State: remaining source bytes, pending output buffer. *)
Record xstate := { xsrc : list N; xbuf : list N }.
Definition XCHUNK : nat := N.to_nat transcoder_chunk.

(* one refill: source.read(4096) decoded ascii/replace then stateless netascii
   encode (strict, final) *)
Definition xrefill (st : xstate) : res xstate :=
  let s := firstn XCHUNK (xsrc st) in
  do t <- ascii_decode Replace s;
  do e <- encode Strict true t;
  Ok {| xsrc := skipn XCHUNK (xsrc st); xbuf := xbuf st ++ fst e |}.

Fixpoint xfill (fuel : nat) (n : nat) (st : xstate) : res xstate :=
  match fuel with
  | O => Err OutOfFuel
  | S f =>
    if Nat.ltb (length (xbuf st)) n then
      match xsrc st with
      | [] => Ok st
      | _ => do st' <- xrefill st; xfill f n st'
      end
    else Ok st
  end.

Definition xreadinto (n : nat) (st : xstate) : res (list N * xstate) :=
  do st' <- xfill (S (length (xsrc st))) n st;
  Ok (firstn n (xbuf st'), {| xsrc := xsrc st'; xbuf := skipn n (xbuf st') |}).

Fixpoint xreads (ns : list nat) (st : xstate) : res (list (list N) * xstate) :=
  match ns with
  | [] => Ok ([], st)
  | n :: r =>
    do x <- xreadinto n st;
    do y <- xreads r (snd x);
    Ok (fst x :: fst y, snd y)
  end.
