(* '.' and '..' components.  FatPath does not normalise a path: _resolve looks every component up
   in the directory reached so far, and the dot entries stored in every sub-directory answer for
   '.' and '..'.  [walkd_abs]: on a volume whose dot entries are right (VolInv) this walk over the
   on-disk records is the walk over the plain tree with a stack of the directories passed
   ([Spec.twalkd]): '.' stays, '..' pops, and at the root neither exists.  Whatever a path
   spells, what it reaches is therefore a node of THIS volume's tree ([twalkd_reach]), and the
   usual laws of lexical normalisation hold below the root ([twalkd_dot], [twalkd_dotdot]). *)
From Coq Require Import List NArith Bool Lia Arith Permutation.
From NV Require Import Lib.Res FatVol.Model FatVol.Spec FatVol.ProofsBase FatVol.ProofsFat FatVol.ProofsInv
     FatVol.ProofsTree FatVol.ProofsWalk.
From NV Require FatNames.Model.
Import ListNotations.
Open Scope N_scope.

Section Dots.
Variable upper : name -> name.
Notation lookup := (Model.lookup upper).
Notation walkd := (Model.walkd upper).
Notation twalkd := (Spec.twalkd upper).
Notation tfind := (Spec.tfind upper).
Notation tilde_free := (ProofsWalk.tilde_free upper).

(* ---------- the plain tree: confinement and the normalisation laws ---------- *)
Lemma tfind_In k ch n : tfind k ch = Some n -> exists nm, In (nm, n) ch.
Proof.
  induction ch as [|[nm c] r IH]; cbn [Spec.tfind]; [discriminate|].
  destruct (kmatch upper k (nm, c)).
  - intros H. inversion H; subst. exists nm. left. reflexivity.
  - intros H. destruct (IH H) as (nm' & I). exists nm'. right. exact I.
Qed.

Lemma twalkd_reach root parts : forall stk t n,
  reach root t -> Forall (reach root) stk ->
  twalkd stk t parts = Ok (Some n) -> reach root n.
Proof.
  induction parts as [|h r IH]; intros stk t n Rt Rs H.
  - cbn in H. inversion H; subst. exact Rt.
  - cbn [Spec.twalkd] in H. destruct t as [sz|ch]; [discriminate|].
    assert (Down : match tfind (upper h) ch with None => Ok None | Some n0 => twalkd (Dir ch :: stk) n0 r end = Ok (Some n) ->
                   reach root n).
    { destruct (tfind (upper h) ch) as [c|] eqn:F; [|discriminate]. intros W.
      destruct (tfind_In _ _ _ F) as (nm & I).
      apply (IH (Dir ch :: stk) c n); [apply (reach_child root ch nm c Rt I)|constructor; assumption|exact W]. }
    destruct stk as [|p stk']; [exact (Down H)|].
    destruct (FatNames.Model.beq (upper h) [46]); [apply (IH (p :: stk') (Dir ch) n Rt Rs H)|].
    destruct (FatNames.Model.beq (upper h) [46; 46]); [|exact (Down H)].
    inversion Rs; subst. apply (IH stk' p n); assumption.
Qed.

(* below the root, "." is skipped ... *)
Lemma twalkd_dot p stk ch h r : upper h = [46] ->
  twalkd (p :: stk) (Dir ch) (h :: r) = twalkd (p :: stk) (Dir ch) r.
Proof. intros E. cbn [Spec.twalkd]. rewrite E. reflexivity. Qed.
(* ... and "x/.." cancels when x names a directory *)
Lemma twalkd_dotdot stk ch x h r c :
  (stk = [] \/ (upper x <> [46] /\ upper x <> [46; 46])) ->
  tfind (upper x) ch = Some (Dir c) -> upper h = [46; 46] ->
  twalkd stk (Dir ch) (x :: h :: r) = twalkd stk (Dir ch) r.
Proof.
  intros Hx F E.
  assert (Down : match tfind (upper x) ch with None => Ok None | Some n0 => twalkd (Dir ch :: stk) n0 (h :: r) end =
                 twalkd stk (Dir ch) r).
  { rewrite F. cbn [Spec.twalkd]. rewrite E. reflexivity. }
  cbn [Spec.twalkd] in *. destruct stk as [|p stk']; [exact Down|].
  destruct Hx as [Hx|[H1 H2]]; [discriminate|].
  destruct (FatNames.Model.beq (upper x) [46]) eqn:B1; [apply beq_true in B1; contradiction|].
  destruct (FatNames.Model.beq (upper x) [46; 46]) eqn:B2; [apply beq_true in B2; contradiction|].
  exact Down.
Qed.

(* ---------- a dotted path reaches what its normalised form reaches ---------- *)
Notation twalk := (Spec.twalk upper).
Notation lexnorm := (Spec.lexnorm upper).
Lemma twalk_snoc q : forall t x,
  twalk t (q ++ [x]) =
  match twalk t q with
  | Err e => Err e
  | Ok None => Ok None
  | Ok (Some (File _)) => Err NotADirectory
  | Ok (Some (Dir ch)) => match tfind (upper x) ch with None => Ok None | Some n => Ok (Some n) end
  end.
Proof.
  induction q as [|h r IH]; intros t x; cbn [app Spec.twalk].
  - destruct t as [sz|ch]; [reflexivity|]. destruct (tfind (upper x) ch); reflexivity.
  - destruct t as [sz|ch]; [reflexivity|]. destruct (tfind (upper h) ch) as [c|]; [apply IH|reflexivity].
Qed.

(* [stk] / [acc] / [t]: the directories passed, the names that led through them, the node reached *)
Fixpoint consistent (root : node) (stk : list node) (acc : list name) (t : node) : Prop :=
  match stk, acc with
  | [], [] => t = root
  | p :: stk', x :: acc' => consistent root stk' acc' p /\ exists ch, p = Dir ch /\ tfind (upper x) ch = Some t
  | _, _ => False
  end.
Lemma consistent_walk root : forall stk acc t, consistent root stk acc t -> twalk root (rev acc) = Ok (Some t).
Proof.
  induction stk as [|p stk IH]; intros [|x acc] t C; cbn [consistent] in C; try contradiction.
  - subst. reflexivity.
  - destruct C as (C & ch & -> & F). cbn [rev]. rewrite twalk_snoc, (IH acc _ C), F. reflexivity.
Qed.
Theorem twalkd_lexnorm root parts : forall stk acc t n, consistent root stk acc t ->
  twalkd stk t parts = Ok (Some n) -> twalk root (lexnorm acc parts) = Ok (Some n).
Proof.
  induction parts as [|h r IH]; intros stk acc t n C H.
  - cbn in H. inversion H; subst. cbn [Spec.lexnorm]. apply (consistent_walk root stk acc n C).
  - cbn [Spec.twalkd] in H. destruct t as [sz|ch]; [discriminate|].
    assert (Down : match tfind (upper h) ch with None => Ok None | Some n0 => twalkd (Dir ch :: stk) n0 r end = Ok (Some n) ->
                   twalk root (lexnorm (h :: acc) r) = Ok (Some n)).
    { destruct (tfind (upper h) ch) as [c|] eqn:F; [|discriminate]. intros W.
      apply (IH (Dir ch :: stk) (h :: acc) c n); [|exact W]. cbn [consistent]. split; [exact C|]. exists ch. auto. }
    destruct stk as [|p stk']; destruct acc as [|x acc']; cbn [consistent] in C; try contradiction.
    + cbn [Spec.lexnorm]. apply (Down H).
    + cbn [Spec.lexnorm]. destruct (FatNames.Model.beq (upper h) [46]); [apply (IH (p :: stk') (x :: acc') (Dir ch) n C H)|].
      destruct (FatNames.Model.beq (upper h) [46; 46]); [|apply (Down H)].
      destruct C as (C & _). apply (IH stk' acc' p n C H).
Qed.

(* ---------- the walk over the records ---------- *)
Lemma walkd_cons s cur h rest :
  walkd s cur (h :: rest) =
  if r_isdir cur then
    match dot_lookup s (r_index cur) (upper h) with
    | Some d => walkd s (RFound (e_clu d) d) rest
    | None =>
      match lookup (upper h) (items_of s (r_index cur)) with
      | None => Ok RNone
      | Some e => walkd s (RFound (if is_dir e then e_clu e else r_index cur) e) rest
      end
    end
  else Err NotADirectory.
Proof. reflexivity. Qed.

(* without dot components the two walks are the same function *)
Lemma walkd_walk s parts : forall cur,
  Forall (fun h => upper h <> [46] /\ upper h <> [46; 46]) parts ->
  walkd s cur parts = Model.walk upper s cur parts.
Proof.
  induction parts as [|h r IH]; intros cur F; [reflexivity|]. inversion F as [|? ? [H1 H2] F']; subst.
  rewrite walkd_cons, walk_cons. destruct (r_isdir cur); [|reflexivity].
  assert (D : dot_lookup s (r_index cur) (upper h) = None).
  { unfold dot_lookup. destruct (r_index cur =? 0); [reflexivity|].
    destruct (FatNames.Model.beq (upper h) [46]) eqn:B1; [apply beq_true in B1; contradiction|].
    destruct (FatNames.Model.beq (upper h) [46; 46]) eqn:B2; [apply beq_true in B2; contradiction|]. reflexivity. }
  rewrite D. destruct (lookup (upper h) (items_of s (r_index cur))) as [e|]; [|reflexivity]. apply IH, F'.
Qed.

Section One.
Variables (s : vol) (depth : N -> nat).
Hypothesis T : TreeInv s depth.
Hypothesis NM : forall k, names_ok upper (lives_of s k).
(* every sub-directory in the store is named by an entry (VolInv: vi_refs) *)
Hypothesis REF : forall x, in_store s x -> x <> 0 ->
  exists k e, In e (lives_of s k) /\ is_dir e = true /\ e_clu e = x.
Notation A := (A s).
Notation up := (ProofsTree.up s).

Lemma dots_right x : in_store s x -> x <> 0 -> d_dot (get_dir s x) = x /\ in_store s (up x) /\ depth x = S (depth (up x)).
Proof.
  intros Hx Hn. destruct (REF x Hx Hn) as (k & e & He & Hd & <-).
  destruct (ti_subdirs _ _ T k e He Hd) as (_ & _ & _ & Dt & _). split; [exact Dt|].
  apply (up_facts s depth T _ Hx Hn).
Qed.

(* the directories above [c], innermost first *)
Fixpoint anc_stack (n : nat) (c : N) : list node :=
  match n with O => [] | S m => A (up c) :: anc_stack m (up c) end.
Definition stack_of (c : N) : list node := anc_stack (depth c) c.

Lemma stack_root : stack_of 0 = [].
Proof. unfold stack_of. rewrite (ti_depth0 _ _ T). reflexivity. Qed.
Lemma stack_sub x : in_store s x -> x <> 0 -> stack_of x = A (up x) :: stack_of (up x).
Proof.
  intros Hx Hn. destruct (dots_right x Hx Hn) as (_ & _ & D). unfold stack_of. rewrite D. reflexivity.
Qed.

(* what a resolution may have reached: an entry of some directory, or a dot entry, which stands
   for the directory its cluster field names *)
Definition curd_ok (r : rres) : Prop :=
  match r with
  | RRoot => True
  | RNone => False
  | RFound i e => (exists k, In e (lives_of s k) /\ i = (if is_dir e then e_clu e else k)) \/
                  (is_dir e = true /\ i = e_clu e /\ in_store s i)
  end.
Notation cur_node := (ProofsWalk.cur_node s).

Lemma curd_dir_node cur : curd_ok cur -> r_isdir cur = true -> cur_node cur = A (r_index cur) /\ in_store s (r_index cur).
Proof.
  destruct cur as [| |i e]; cbn; intros H D; [contradiction|split; [reflexivity|apply T]|].
  destruct H as [(k & He & ->)|(_ & -> & I)]; unfold ProofsTree.node_of; rewrite D; (split; [reflexivity|]).
  - apply (ti_subdirs _ _ T k e He D).
  - exact I.
Qed.
Lemma dot_entry_dir nm c : is_dir (dot_entry nm c) = true.
Proof. reflexivity. Qed.

(* _resolve, dot entries included, against the tree with a stack *)
Lemma walkd_abs parts : tilde_free parts -> forall cur stk, curd_ok cur ->
  (r_isdir cur = true -> stk = stack_of (r_index cur)) ->
  match walkd s cur parts with
  | Err x => x = NotADirectory /\ twalkd stk (cur_node cur) parts = Err NotADirectory
  | Ok RNone => twalkd stk (cur_node cur) parts = Ok None
  | Ok r => curd_ok r /\ twalkd stk (cur_node cur) parts = Ok (Some (cur_node r))
  end.
Proof.
  induction parts as [|h rest IH]; intros TF cur stk OK ST.
  - cbn [Model.walkd Spec.twalkd]. destruct cur; [destruct OK| |]; auto.
  - inversion TF as [|? ? Hh TF']; subst. rewrite walkd_cons. destruct (r_isdir cur) eqn:D.
    + destruct (curd_dir_node cur OK D) as [-> Ist]. specialize (ST eq_refl). set (idx := r_index cur) in *.
      rewrite (abs_unfold s depth T). cbn [Spec.twalkd]. fold (Spec.tfind upper).
      (* the ordinary step down, shared by the root case and the no-dot case *)
      assert (Down : forall stk0, stk0 = stack_of idx ->
        match (match lookup (upper h) (items_of s idx) with
               | None => Ok RNone
               | Some e => walkd s (RFound (if is_dir e then e_clu e else idx) e) rest
               end) with
        | Err x => x = NotADirectory /\
                   match tfind (upper h) (kids_of s idx) with None => Ok None | Some n0 => twalkd (Dir (kids_of s idx) :: stk0) n0 rest end = Err NotADirectory
        | Ok RNone => match tfind (upper h) (kids_of s idx) with None => Ok None | Some n0 => twalkd (Dir (kids_of s idx) :: stk0) n0 rest end = Ok None
        | Ok r => curd_ok r /\
                  match tfind (upper h) (kids_of s idx) with None => Ok None | Some n0 => twalkd (Dir (kids_of s idx) :: stk0) n0 rest end = Ok (Some (cur_node r))
        end).
      { intros stk0 E0. unfold kids_of. rewrite tfind_map.
        rewrite lookup_plain by (apply plain_of_names; [apply NM|exact Hh]). fold (lives_of s idx).
        destruct (find (nmatch upper (upper h)) (lives_of s idx)) as [e|] eqn:F; cbn [option_map]; [|reflexivity].
        apply find_some in F. destruct F as [He _].
        set (cur' := RFound (if is_dir e then e_clu e else idx) e).
        assert (OK' : curd_ok cur') by (left; exists idx; auto).
        assert (ST' : r_isdir cur' = true -> Dir (List.map (fun e0 => (e_name e0, node_of s e0)) (lives_of s idx)) :: stk0 = stack_of (r_index cur')).
        { cbn [r_isdir cur' r_index]. intros Hd. rewrite Hd.
          destruct (ti_subdirs _ _ T idx e He Hd) as (Cn & _ & Ic & _ & Up).
          rewrite (stack_sub _ Ic Cn). unfold ProofsTree.up. rewrite Up, E0.
          f_equal. symmetry. apply (abs_unfold s depth T). }
        specialize (IH TF' cur' _ OK' ST'). change (node_of s e) with (cur_node cur'). exact IH. }
      unfold dot_lookup. destruct (N.eqb_spec idx 0) as [E0|N0].
      * (* at the root: no dot entries; the stack is empty *)
        assert (Es : stack_of idx = []) by (rewrite E0; apply stack_root).
        rewrite ST, Es. apply Down. symmetry. exact Es.
      * destruct (dots_right idx Ist N0) as (Dt & Iu & _).
        rewrite ST, (stack_sub idx Ist N0).
        destruct (FatNames.Model.beq (upper h) [46]) eqn:B1.
        -- (* "." : the directory itself *)
           cbn [e_clu dot_entry]. rewrite Dt.
           set (cur' := RFound idx (dot_entry [46] idx)).
           assert (OK' : curd_ok cur') by (right; auto).
           assert (ST' : r_isdir cur' = true -> A (up idx) :: stack_of (up idx) = stack_of (r_index cur')).
           { intros _. cbn [cur' r_index]. symmetry. apply (stack_sub idx Ist N0). }
           specialize (IH TF' cur' _ OK' ST').
           assert (EN : cur_node cur' = Dir (kids_of s idx)).
           { cbn [cur' ProofsWalk.cur_node]. unfold ProofsTree.node_of. rewrite dot_entry_dir. cbn [e_clu dot_entry].
             apply (abs_unfold s depth T). }
           rewrite EN in IH. exact IH.
        -- destruct (FatNames.Model.beq (upper h) [46; 46]) eqn:B2.
           ++ (* ".." : the directory above *)
              cbn [e_clu dot_entry]. fold (up idx).
              set (cur' := RFound (up idx) (dot_entry [46; 46] (up idx))).
              assert (OK' : curd_ok cur') by (right; auto).
              assert (ST' : r_isdir cur' = true -> stack_of (up idx) = stack_of (r_index cur')) by (intros _; reflexivity).
              specialize (IH TF' cur' _ OK' ST').
              assert (EN : cur_node cur' = A (up idx)).
              { cbn [cur' ProofsWalk.cur_node]. unfold ProofsTree.node_of. rewrite dot_entry_dir. reflexivity. }
              rewrite EN in IH. exact IH.
           ++ rewrite <- (stack_sub idx Ist N0). apply Down. reflexivity.
    + destruct cur as [| |i e]; cbn in D; try discriminate; [destruct OK|].
      cbn [ProofsWalk.cur_node]. unfold ProofsTree.node_of. rewrite D. cbn [Spec.twalkd]. auto.
Qed.
End One.
End Dots.

(* ---------- from the volume invariant ---------- *)
Lemma VolInv_referenced upper V s : VolInv upper V s -> forall x, in_store s x -> x <> 0 ->
  exists k e, In e (lives_of s k) /\ is_dir e = true /\ e_clu e = x.
Proof.
  intros I x Hx Hn. pose proof (proj2 (vi_refs _ _ _ I) x Hx Hn) as H. unfold dir_refs in H.
  apply in_flat_map in H. destruct H as (kd & Hkd & H). unfold dir_refs_of, sub_refs in H.
  apply in_map_iff in H. destruct H as (e & E & He). apply filter_In in He. destruct He as [He Hd].
  exists (fst kd), e. split; [|split; assumption].
  destruct kd as [k d]. cbn [fst snd] in *. unfold lives_of, items_of.
  rewrite (get_dir_find s k d); [exact He|]. apply In_find_dir; [apply I|exact Hkd].
Qed.

(* FatPath resolution of ANY component list on a consistent volume: the walk through the on-disk
   dot entries is the stack walk over the tree the volume holds *)
Theorem resolved_refines upper V s parts : VolInv upper V s -> ProofsWalk.tilde_free upper parts ->
  match resolved upper s parts with
  | Err x => x = NotADirectory /\ twalkd upper [] (abs_tree s) parts = Err NotADirectory
  | Ok RNone => twalkd upper [] (abs_tree s) parts = Ok None
  | Ok r => twalkd upper [] (abs_tree s) parts = Ok (Some (ProofsWalk.cur_node s r))
  end.
Proof.
  intros I TF. destruct (VolInv_tree upper V s I) as (depth & T).
  pose proof (walkd_abs upper s depth T (vi_names _ _ _ I) (VolInv_referenced upper V s I) parts TF RRoot [] Logic.I) as H.
  unfold resolved. rewrite (abs_tree_A s).
  assert (ST : r_isdir RRoot = true -> [] = stack_of s depth (r_index RRoot)).
  { intros _. cbn [r_index]. symmetry. apply (stack_root s depth T). }
  specialize (H ST). cbn [ProofsWalk.cur_node] in H.
  destruct (Model.walkd upper s RRoot parts) as [[| |i e]|x]; try exact H; apply H.
Qed.

(* what a dotted path reaches is what its normalised, dot-free form reaches in the tree: the file served for
   "a/b/../c" is the file at "a/c" *)
Theorem resolved_is_normalised_path upper V s parts r : VolInv upper V s -> ProofsWalk.tilde_free upper parts ->
  resolved upper s parts = Ok r -> r <> RNone ->
  Spec.twalk upper (abs_tree s) (Spec.lexnorm upper [] parts) = Ok (Some (ProofsWalk.cur_node s r)).
Proof.
  intros I TF E Hn. pose proof (resolved_refines upper V s parts I TF) as H. rewrite E in H.
  apply (twalkd_lexnorm upper (abs_tree s) parts [] [] (abs_tree s)); [reflexivity|].
  destruct r; [contradiction| |]; exact H.
Qed.

(* ... and so whatever a path spells, it reaches a node of this volume's tree or nothing *)
Theorem resolved_confined upper V s parts r : VolInv upper V s -> ProofsWalk.tilde_free upper parts ->
  resolved upper s parts = Ok r -> r <> RNone -> reach (abs_tree s) (ProofsWalk.cur_node s r).
Proof.
  intros I TF E Hn. pose proof (resolved_refines upper V s parts I TF) as H. rewrite E in H.
  apply (twalkd_reach upper (abs_tree s) parts [] (abs_tree s)); [constructor|constructor|].
  destruct r; [contradiction| |]; exact H.
Qed.
