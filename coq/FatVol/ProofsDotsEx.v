(* Non-vacuity of the dot-component theorems: a volume grown by a guarded history (so it is in
   VolInv), paths through '.' and '..' that resolve, and the theorem's conclusion for them. *)
From Coq Require Import List NArith Bool Lia Arith Permutation.
From NV Require Import Lib.Res FatVol.Model FatVol.Spec FatVol.ProofsBase FatVol.ProofsInv
     FatVol.ProofsWalk FatVol.Proofs FatVol.ProofsEx FatVol.ProofsDots.
Import ListNotations.
Open Scope N_scope.

Definition n_e : name := [101].
Definition dot : name := [46]. Definition dotdot : name := [46; 46].
Definition hist_d : list op := [OMkdir [n_d]; OMkdir [n_d; n_e]; OFile [n_d; n_f] MW (AWrite None 700)].

Lemma hist_d_guard : run_guard up V0 s_empty hist_d.
Proof.
  unfold hist_d. cbn [run_guard op_guard].
  split; [split; [tf|gc]|].
  set (s1 := fst (step up V0 s_empty (OMkdir [n_d]))). vm_compute in s1.
  split; [split; [tf|gc]|].
  set (s2 := fst (step up V0 s1 _)). vm_compute in s2.
  split; [split; [tf|gc]|]. exact I.
Qed.

Definition s_d : vol := fst (run up V0 s_empty hist_d).
Lemma s_d_inv : VolInv up V0 s_d.
Proof. apply (FV_history_inv up V0 V0_wf hist_d s_empty empty_inv hist_d_guard). Qed.

(* /d/e/../f.txt is /d/f.txt; /d/./e/.. is /d; '..' and '.' at the root lead nowhere; a file is no directory *)
Example FV_dots_example :
  VolInv up V0 s_d /\
  (exists i e, resolved up s_d [n_d; n_e; dotdot; n_f] = Ok (RFound i e) /\ e_size e = 700 /\ is_dir e = false) /\
  twalkd up [] (abs_tree s_d) [n_d; n_e; dotdot; n_f] = Ok (Some (File 700)) /\
  resolved up s_d [n_d; n_e; dotdot; n_f] = resolved up s_d [n_d; dot; dot; n_f] /\
  twalkd up [] (abs_tree s_d) [n_d; dot; n_e; dotdot] = twalkd up [] (abs_tree s_d) [n_d] /\
  resolved up s_d [dotdot] = Ok RNone /\ resolved up s_d [dot; n_d] = Ok RNone /\
  resolved up s_d [n_d; dotdot; dotdot] = Ok RNone /\
  resolved up s_d [n_d; n_f; dotdot] = Err NotADirectory /\
  reach (abs_tree s_d) (File 700) /\
  lexnorm up [] [n_d; n_e; dotdot; dot; n_f] = [n_d; n_f] /\ lexnorm up [] [dotdot; n_d; dotdot] = [dotdot].
Proof.
  split; [exact s_d_inv|].
  split; [eexists; eexists; split; [vm_compute; reflexivity|split; reflexivity]|].
  repeat split; try (vm_compute; reflexivity).
  all: try (vm_compute; reflexivity).
  assert (TF : tilde_free up [n_d; n_e; dotdot; n_f]) by tf.
  assert (E : exists r, resolved up s_d [n_d; n_e; dotdot; n_f] = Ok r /\ r <> RNone /\ cur_node s_d r = File 700).
  { eexists. split; [vm_compute; reflexivity|]. split; [discriminate|vm_compute; reflexivity]. }
  destruct E as (r & E1 & E2 & E3). rewrite <- E3.
  apply (resolved_confined up V0 s_d _ r s_d_inv TF E1 E2).
Qed.
Print Assumptions FV_dots_example.
