(* rename refines the plain tree: everything after the source has been resolved and the guard
   has passed ([rest_refines]), then the whole operation ([rename_refines]). *)
From Coq Require Import List NArith Bool Lia Arith Permutation.
From NV Require Import Lib.Res FatAlloc.Model FatAlloc.ProofsBase.
From NV Require Import FatVol.Model FatVol.Spec FatVol.ProofsBase FatVol.ProofsFat FatVol.ProofsInv
     FatVol.ProofsTree FatVol.ProofsWalk FatVol.ProofsOps FatVol.ProofsFatOps FatVol.ProofsUnlink FatVol.ProofsFile
     FatVol.ProofsFileOp FatVol.ProofsMkdir FatVol.ProofsRenameA FatVol.ProofsRenameB FatVol.ProofsRenameC FatVol.ProofsRenameD
     FatVol.ProofsRenameE FatVol.ProofsRenameF FatVol.ProofsRenameG FatVol.ProofsRenameH FatVol.ProofsRenameI FatVol.ProofsRenameJ
     FatVol.ProofsRenameK.
Import ListNotations.
Open Scope N_scope.

Section RenL.
Variable upper : name -> name.
Variable V : vparams.
Hypothesis PW : params_wf V.
Notation VolInv := (VolInv upper V).
Notation lookup := (Model.lookup upper).
Notation resolve := (Model.resolve upper).
Notation rename := (Model.rename upper V).
Notation twalk := (Spec.twalk upper).
Notation tmod := (Spec.tmod upper).

(* the two sides, from the look-up of the target on *)
Definition spec_rest (t : node) (src tgt : list name) (sn : node) : node * res unit :=
  match twalk t tgt with
  | Err x => (t, Err x)
  | Ok (Some tn) =>
    match tgt with
    | [] => (t, Err IsADirectory)
    | _ =>
      if lbeq (upath upper src) (upath upper tgt) then (t, Ok tt)
      else if is_tdir tn then (t, Err IsADirectory)
      else if is_tdir sn then (t, Err NotADirectory)
      else
        let t1 := tmod t (parent src) (tdel upper (upper (leaf src))) in
        (tmod t1 (parent tgt) (tupd upper (upper (leaf tgt)) (fun _ => sn)), Ok tt)
    end
  | Ok None =>
    match twalk t (parent tgt) with
    | Err x => (t, Err x)
    | Ok None => (t, Err FileNotFound)
    | Ok (Some (File _)) => (t, Err NotADirectory)
    | Ok (Some (Dir _)) =>
      let t1 := tmod t (parent src) (tdel upper (upper (leaf src))) in
      (tmod t1 (parent tgt) (fun ch => ch ++ [(leaf tgt, sn)]), Ok tt)
    end
  end.
Definition model_rest (s : vol) (src tgt : list name) (sidx : N) (se : entry) : vol * res unit :=
  match resolve s tgt with
  | Err x => (s, Err x)
  | Ok tr =>
    match prepare upper V s tgt sidx se tr with
    | (s0, Err e) => (s0, Err e)
    | (s0, Ok None) => (s0, Ok tt)
    | (s0, Ok (Some (tidx, tclu))) => rename_tail upper V s0 se sidx tidx tclu src tgt
    end
  end.

Lemma node_is_tdir s depth (T : TreeInv s depth) e : is_tdir (ProofsTree.node_of s e) = is_dir e.
Proof. unfold ProofsTree.node_of. destruct (is_dir e); [rewrite (abs_unfold s depth T)|]; reflexivity. Qed.
Lemma dir_walk_node s depth (T : TreeInv s depth) pr : cur_ok s pr -> r_isdir pr = true ->
  cur_node s pr = Dir (kids_of s (r_index pr)).
Proof.
  intros OK D. destruct (cur_dir_node s depth T pr OK D) as [-> _]. apply (abs_unfold s depth T).
Qed.

Theorem rest_refines s depth src tgt sidx prs se :
  VolInv s -> TreeInv s depth -> tilde_free upper src -> tilde_free upper tgt -> guard_create upper s tgt ->
  valid_parts tgt = true -> src <> [] ->
  resolve s (parent src) = Ok prs -> r_isdir prs = true -> sidx = r_index prs -> in_store s sidx ->
  src = parent src ++ [leaf src] ->
  lookup (upper (leaf src)) (items_of s sidx) = Some se ->
  (is_dir se = true -> into_itself upper s (e_clu se) (parents_of tgt) = Ok false) ->
  VolInv (fst (model_rest s src tgt sidx se)) ->
  snd (model_rest s src tgt sidx se) <> Err OSError_ENOSPC ->
  spec_rest (abs_tree s) src tgt (ProofsTree.node_of s se) =
  (abs_tree (fst (model_rest s src tgt sidx se)), snd (model_rest s src tgt sidx se)).
Proof.
  intros I T TFs TFt G Vt Hsn Rps Dps Esi Is Esrc Ls Gd I' NE.
  unfold spec_rest, model_rest in *.
  pose proof (walk_abs upper s depth T (vi_names _ _ _ I) tgt TFt RRoot Logic.I) as WA.
  cbn [cur_node] in WA. fold (resolve s tgt) in WA. rewrite <- (abs_tree_A s) in WA.
  destruct (resolve s tgt) as [tr|x] eqn:Rt.
  2:{ destruct WA as [-> ->]. reflexivity. }
  destruct tr as [| |tridx te].
  - (* the target is missing *)
    rewrite WA. rewrite prepare_missing in *.
    assert (Htn : tgt <> []) by (intros ->; cbn in Rt; discriminate).
    destruct (parent_tf upper tgt Htn TFt) as [TFpt Hlt].
    pose proof (walk_abs upper s depth T (vi_names _ _ _ I) (parent tgt) TFpt RRoot Logic.I) as WP.
    cbn [cur_node] in WP. fold (resolve s (parent tgt)) in WP. rewrite <- (abs_tree_A s) in WP.
    destruct (touch_missing upper V PW s tgt I G Rt Vt) as (I0 & Facts). cbn zeta in I0, Facts.
    destruct (snd (touch upper V s tgt)) as [[]|err] eqn:Eo.
    + (* touched *)
      destruct (Facts eq_refl) as (prt & e & Rpt & Dpt & It & Ll & En & De & Ce & Lo & Ist). clear Facts.
      set (s0 := fst (touch upper V s tgt)) in *. set (tidx := r_index prt) in *.
      assert (Stab : forall a, is_prefix a (parent tgt) -> resolve s0 a = resolve s a).
      { apply (stable_same_above upper s depth _ (parent tgt) prt T Rpt Dpt). intros d _ Hd. apply Lo, Hd. }
      rewrite (Stab _ (is_prefix_refl _)), Rpt in *. fold tidx in I', NE |- *.
      assert (OKp : cur_ok s prt) by (apply (resolve_ok upper s _ prt Rpt); destruct prt; cbn in Dpt; congruence).
      assert (WPd : twalk (abs_tree s) (parent tgt) = Ok (Some (Dir (kids_of s tidx)))).
      { destruct prt as [| |pi pe]; [discriminate| |]; destruct WP as (_ & -> & _); f_equal; f_equal; apply (dir_walk_node s depth T); assumption. }
      rewrite WPd.
      destruct (resolve_missing upper s tgt Rt) as [_ [Rn|(prt' & Rp' & _ & Ln)]]; [rewrite Rn in Rpt; inversion Rpt; subst; discriminate|].
      assert (prt' = prt) by congruence. subst prt'. fold tidx in Ln.
      (* outcome *)
      assert (Out : snd (rename_tail upper V s0 se sidx tidx 0 src tgt) = Ok tt).
      { destruct (is_dir se) eqn:Ds; [|apply (tail_file_out upper V); exact Ds].
        destruct (VolInv_tree upper V s0 I0) as (depth0 & T0).
        assert (Ls0 : lookup (upper (leaf src)) (items_of s0 sidx) = Some se).
        { pose proof Ls as Ls'. rewrite lookup_lives in Ls' |- *. fold (lives_of s0 sidx). fold (lives_of s sidx) in Ls'.
          destruct (N.eq_dec sidx tidx) as [E|E]; [rewrite E, Ll; apply find_app_some; rewrite <- E; exact Ls'|rewrite (Lo sidx E); exact Ls']. }
        assert (G0 : into_itself upper s0 (e_clu se) (parents_of tgt) = Ok false).
        { rewrite (into_itself_ext upper s s0); [apply Gd; reflexivity|]. intros a Ha. apply Stab. apply (parents_are_prefixes tgt a Htn Ha). }
        apply (tail_dir_out upper V s0 se sidx tidx src tgt prt).
        apply (reresolve_surgery upper s0 depth0 sidx tidx src tgt se prt T0 Ls0); try assumption; try reflexivity.
        rewrite (Stab _ (is_prefix_refl _)). exact Rpt. }
      rewrite Out. f_equal.
      destruct (VolInv_tree upper V _ I') as (depth' & T').
      symmetry. apply (refine_missing upper V s depth src tgt sidx tidx prs prt se I T TFs TFt Hsn Htn Rps Dps Esi Is Ls Rpt Dpt eq_refl It
               e s0 _ depth' Ln Ll Lo En Gd T').
      intros k. apply (tail_lives upper V).
    + (* the touch failed: same failure on the tree *)
      assert (Ne' : Err err <> Err OSError_ENOSPC) by exact NE.
      pose proof (file_op_refines upper V PW s tgt MA ATouch I TFt G) as FR. fold (touch upper V s tgt) in FR.
      rewrite Eo in FR. specialize (FR Ne'). unfold Spec.spec_file_op in FR. rewrite Vt, WA in FR. cbn [negb] in FR.
      cbn [fst snd]. destruct (twalk (abs_tree s) (parent tgt)) as [[[sz|ch]|]|x'];
        try discriminate FR; pose proof (f_equal fst FR) as E1; pose proof (f_equal snd FR) as E2;
        cbn [fst snd] in E1, E2; rewrite <- E1, <- E2; reflexivity.
  - (* the root *)
    destruct WA as (_ & -> & X). destruct (X eq_refl) as [_ ->]. reflexivity.
  - (* an entry is there *)
    destruct WA as (OKt & -> & _). cbn [cur_node].
    assert (Htn : tgt <> []) by (intros ->; cbn in Rt; discriminate).
    destruct tgt as [|t0 ts]; [congruence|]. set (tgt := t0 :: ts) in *.
    destruct (resolve_found upper s tgt tridx te Rt) as (prt & Etgt & Rpt & Dpt & Lt & Ei).
    assert (OKp : cur_ok s prt) by (apply (resolve_ok upper s _ prt Rpt); destruct prt; cbn in Dpt; congruence).
    pose proof (cur_dir_store upper V s prt I OKp Dpt) as It.
    unfold prepare in *.
    assert (Et : (if is_dir te then do pr <- resolve s (parent tgt); Ok (r_index pr) else Ok tridx) = Ok (r_index prt)).
    { destruct (is_dir te); [rewrite Rpt; reflexivity|congruence]. }
    rewrite Et in *.
    pose proof (same_entry_spec upper V s depth I T src tgt sidx (r_index prt) se te prs prt TFs TFt Esrc Etgt Rps Dps Esi Rpt Dpt eq_refl Is It Ls Lt) as SE.
    rewrite SE in *.
    destruct (lbeq (upath upper src) (upath upper tgt)) eqn:Same; [reflexivity|].
    rewrite !(node_is_tdir s depth T). destruct (is_dir te) eqn:Dt; [reflexivity|]. destruct (is_dir se) eqn:Ds; [reflexivity|].
    rewrite (tail_file_out upper V s se sidx (r_index prt) (e_clu te) src tgt Ds). f_equal.
    destruct (VolInv_tree upper V _ I') as (depth' & T').
    symmetry. apply (refine_existing upper V s depth src tgt sidx (r_index prt) prs prt se I T TFs TFt Hsn Htn Rps Dps Esi Is Ls Rpt Dpt eq_refl It
             te _ depth' Lt Dt Ds); [|exact T'|intros k; apply (tail_lives upper V)].
    intros [E1 E2]. rewrite E1, E2, N.eqb_refl, beq_refl in SE. discriminate SE.
Qed.
Lemma spec_rename_unfold t src tgt :
  Spec.spec_rename upper t src tgt =
  if negb (valid_parts src && valid_parts tgt) then (t, Err ValueError) else
  match twalk t src with
  | Err x => (t, Err x)
  | Ok None => (t, Err FileNotFound)
  | Ok (Some sn) =>
    match (if is_tdir sn then
             match src with
             | [] => Err PermissionErr
             | _ => match twalk t (parent tgt) with
                    | Err x => Err x
                    | Ok _ => if proper_prefix (upath upper src) (upath upper tgt) then Err OSError_Other else Ok tt
                    end
             end
           else Ok tt) with
    | Err x => (t, Err x)
    | Ok _ => spec_rest t src tgt sn
    end
  end.
Proof. reflexivity. Qed.
Lemma rename_unfold' s src tgt :
  rename s src tgt =
  if negb (valid_parts src && valid_parts tgt) then (s, Err ValueError) else
  match resolve s src with
  | Err x => (s, Err x)
  | Ok r =>
    if negb (r_exists r) then (s, Err FileNotFound) else
    match r with
    | RNone => (s, Err FileNotFound)
    | RRoot => (s, Err PermissionErr)
    | RFound ridx se =>
      match src_index upper s src tgt ridx se with
      | Err x => (s, Err x)
      | Ok sidx => model_rest s src tgt sidx se
      end
    end
  end.
Proof. reflexivity. Qed.

(* FULL statement: every branch of rename -- onto a new name, onto an existing file, onto itself
   or a case variant, directories including the '..' fix-up and the into-itself guard *)
Theorem rename_refines s src tgt :
  VolInv s -> tilde_free upper src -> tilde_free upper tgt -> guard_create upper s tgt ->
  snd (rename s src tgt) <> Err OSError_ENOSPC ->
  Spec.spec_rename upper (abs_tree s) src tgt = (abs_tree (fst (rename s src tgt)), snd (rename s src tgt)).
Proof.
  intros I TFs TFt G NE. pose proof (rename_inv upper V PW s src tgt I G) as I'.
  destruct (VolInv_tree upper V s I) as (depth & T).
  rewrite rename_unfold' in *. rewrite spec_rename_unfold.
  destruct (valid_parts src && valid_parts tgt) eqn:Vp; [|reflexivity]. cbn [negb] in *.
  apply andb_prop in Vp. destruct Vp as [Vs Vt].
  pose proof (walk_abs upper s depth T (vi_names _ _ _ I) src TFs RRoot Logic.I) as WA.
  cbn [cur_node] in WA. fold (resolve s src) in WA. rewrite <- (abs_tree_A s) in WA.
  destruct (resolve s src) as [r|x] eqn:R.
  2:{ destruct WA as [-> ->]. reflexivity. }
  destruct r as [| |ridx se].
  - rewrite WA. reflexivity.
  - destruct WA as (_ & -> & X). destruct (X eq_refl) as [_ ->]. cbn [cur_node]. rewrite (abs_unfold s depth T). reflexivity.
  - destruct WA as (OKs & -> & _). cbn [cur_node r_exists negb] in *.
    assert (Hsn : src <> []) by (intros ->; cbn in R; discriminate).
    rewrite (node_is_tdir s depth T).
    destruct (resolve_found upper s src ridx se R) as (prs & Esrc & Rps & Dps & Ls & Ei).
    assert (OKp : cur_ok s prs) by (apply (resolve_ok upper s _ prs Rps); destruct prs; cbn in Dps; congruence).
    pose proof (cur_dir_store upper V s prs I OKp Dps) as Is.
    unfold src_index in *. destruct (is_dir se) eqn:Ds.
    + (* a directory: the guard *)
      subst ridx. destruct src as [|s0' ss]; [congruence|]. set (src := s0' :: ss) in *.
      rewrite (guard_spec upper V s depth I T src tgt (e_clu se) se TFs TFt R Ds) in *.
      assert (TFpt : tilde_free upper (parent tgt)).
      { destruct tgt as [|t0 ts]; [constructor|]. apply (parent_tf upper (t0 :: ts)); [discriminate|exact TFt]. }
      pose proof (walk_abs upper s depth T (vi_names _ _ _ I) (parent tgt) TFpt RRoot Logic.I) as WP.
      cbn [cur_node] in WP. fold (resolve s (parent tgt)) in WP. rewrite <- (abs_tree_A s) in WP.
      destruct (resolve s (parent tgt)) as [prt|x] eqn:Rpt; cbn [bind] in *.
      2:{ destruct WP as [-> ->]. reflexivity. }
      assert (WPok : exists o, twalk (abs_tree s) (parent tgt) = Ok o).
      { destruct prt; [eexists; exact WP|destruct WP as (_ & -> & _); eexists; reflexivity|destruct WP as (_ & -> & _); eexists; reflexivity]. }
      destruct WPok as (o & ->).
      destruct (proper_prefix (upath upper src) (upath upper tgt)) eqn:PP; [reflexivity|].
      rewrite Rps in *. cbn [bind] in *.
      apply (rest_refines s depth src tgt (r_index prs) prs se I T TFs TFt G Vt Hsn Rps Dps eq_refl Is Esrc Ls); try assumption.
      intros _. rewrite (guard_spec upper V s depth I T src tgt (e_clu se) se TFs TFt R Ds), Rpt, PP. reflexivity.
    + subst ridx.
      apply (rest_refines s depth src tgt (r_index prs) prs se I T TFs TFt G Vt Hsn Rps Dps eq_refl Is Esrc Ls); try assumption.
      intros X. congruence.
Qed.
End RenL.
