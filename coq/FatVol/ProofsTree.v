(* The tree read off a state: fuel does not matter once it exceeds the number of directories
   ([abs_stable], [abs_unfold]: the fixpoint equation of [A s id]); a sub-tree depends only on
   the directories below its root ([abs_frame], [abs_same]); ancestors through '..' ([anc],
   [Desc]) are unique per depth ([desc_unique]). *)
From Coq Require Import List NArith Bool Lia Arith Permutation.
From NV Require Import Lib.Res FatVol.Model FatVol.Spec FatVol.ProofsBase FatVol.ProofsFat FatVol.ProofsInv.
Import ListNotations.
Open Scope N_scope.

Lemma NoDup_flat_map_in {A B} (f : A -> list B) l a : NoDup (flat_map f l) -> In a l -> NoDup (f a).
Proof.
  induction l as [|x l IH]; cbn [flat_map]; intros N H; [destruct H|]. destruct H as [<-|H].
  - apply FatAlloc.ProofsBase.NoDup_app_inv in N. tauto.
  - apply FatAlloc.ProofsBase.NoDup_app_inv in N. apply IH; tauto.
Qed.

Section Tree.
(* the part of VolInv that is about the shape of the directory graph *)
Record TreeInv (s : vol) (depth : N -> nat) : Prop := {
  ti_keys : NoDup (List.map fst (v_dirs s));
  ti_root : in_store s 0;
  ti_subdirs : forall k e, In e (lives_of s k) -> is_dir e = true ->
     e_clu e <> 0 /\ e_size e = 0 /\ in_store s (e_clu e) /\
     d_dot (get_dir s (e_clu e)) = e_clu e /\ d_dotdot (get_dir s (e_clu e)) = k;
  ti_refs : NoDup (dir_refs s);
  (* '..' leads one level up (for every directory in the store, referenced or not) *)
  ti_up : forall x, in_store s x -> x <> 0 ->
     in_store s (d_dotdot (get_dir s x)) /\ depth x = S (depth (d_dotdot (get_dir s x)));
  ti_depth0 : depth 0 = 0%nat;
  ti_depth : forall k e, In e (lives_of s k) -> is_dir e = true -> depth (e_clu e) = S (depth k) }.


Section One.
Variables (s : vol) (depth : N -> nat).
Hypothesis T : TreeInv s depth.

Lemma lives_of_entry kd : In kd (v_dirs s) -> lives_of s (fst kd) = lives (d_items (snd kd)).
Proof.
  intros H. destruct kd as [k d]. cbn [fst snd]. unfold lives_of, items_of.
  rewrite (get_dir_find s k d); [reflexivity|]. apply In_find_dir; [apply T|exact H].
Qed.
Lemma sub_refs_nodup k : NoDup (sub_refs (lives_of s k)).
Proof.
  destruct (in_dec N.eq_dec k (List.map fst (v_dirs s))) as [I|I].
  - apply in_map_iff in I. destruct I as (kd & <- & Hkd). rewrite (lives_of_entry kd Hkd).
    apply (NoDup_flat_map_in dir_refs_of (v_dirs s) kd (ti_refs _ _ T) Hkd).
  - rewrite (lives_of_absent s k I). constructor.
Qed.

(* ---------- '..' pointers ---------- *)
Definition up (x : N) : N := d_dotdot (get_dir s x).
Fixpoint anc (n : nat) (x : N) : N := match n with O => x | S m => up (anc m x) end.
(* c is an ancestor-or-self of x, reached before the walk up passes the root *)
Definition Desc (c x : N) : Prop := exists n, (n <= depth x)%nat /\ anc n x = c.

Lemma up_facts x : in_store s x -> x <> 0 -> in_store s (up x) /\ depth x = S (depth (up x)).
Proof. apply (ti_up _ _ T). Qed.
Lemma depth0_root x : in_store s x -> depth x = 0%nat -> x = 0.
Proof.
  intros Hx H. destruct (N.eq_dec x 0) as [E|E]; [exact E|].
  destruct (up_facts x Hx E) as (_ & D). lia.
Qed.
Lemma anc_depth x : in_store s x -> forall n, (n <= depth x)%nat ->
  in_store s (anc n x) /\ depth (anc n x) = (depth x - n)%nat.
Proof.
  intros Hx. induction n as [|n IH]; intros Hn; cbn [anc].
  - split; [exact Hx|lia].
  - destruct (IH ltac:(lia)) as [I D].
    assert (Hy : anc n x <> 0) by (intros E; rewrite E, (ti_depth0 _ _ T) in D; lia).
    destruct (up_facts _ I Hy) as (I' & D'). split; [exact I'|lia].
Qed.
Lemma anc_add n m x : anc (n + m) x = anc n (anc m x).
Proof. induction n as [|n IH]; cbn [anc Nat.add]; [reflexivity|rewrite IH; reflexivity]. Qed.
Lemma desc_refl x : Desc x x.
Proof. exists 0%nat. split; [lia|reflexivity]. Qed.
Lemma desc_depth c x : in_store s x -> Desc c x -> in_store s c /\ (depth c <= depth x)%nat.
Proof. intros Hx (n & Hn & <-). destruct (anc_depth x Hx n Hn) as [I D]. split; [exact I|lia]. Qed.
Lemma desc_trans a b x : in_store s x -> Desc a b -> Desc b x -> Desc a x.
Proof.
  intros Hx (n & Hn & <-) (m & Hm & <-). destruct (anc_depth x Hx m Hm) as [_ D].
  exists (n + m)%nat. split; [lia|apply anc_add].
Qed.
Lemma desc_unique c c' x : in_store s x -> Desc c x -> Desc c' x -> depth c = depth c' -> c = c'.
Proof.
  intros Hx (n & Hn & <-) (m & Hm & <-) E.
  destruct (anc_depth x Hx n Hn) as [_ D1]. destruct (anc_depth x Hx m Hm) as [_ D2].
  assert (n = m) by lia. subst. reflexivity.
Qed.
Lemma desc_child k e x : In e (lives_of s k) -> is_dir e = true -> in_store s x ->
  Desc (e_clu e) x -> Desc k x.
Proof.
  intros He Hd Hx (n & Hn & E). destruct (anc_depth x Hx n Hn) as [_ D]. rewrite E in D.
  rewrite (ti_depth _ _ T k e He Hd) in D. exists (S n). split; [lia|].
  cbn [anc]. rewrite E. unfold up. apply (ti_subdirs _ _ T k e He Hd).
Qed.

(* ---------- every depth is below the number of directories ---------- *)
Lemma anc_list n : forall x, in_store s x -> depth x = n ->
  exists l, length l = S n /\ NoDup l /\ (forall y, In y l -> in_store s y /\ (depth y <= n)%nat).
Proof.
  induction n as [|n IH]; intros x Hx D.
  - exists [x]. split; [reflexivity|]. split; [constructor; [intros []|constructor]|].
    intros y [<-|[]]. split; [exact Hx|lia].
  - assert (Hn : x <> 0) by (intros E; rewrite E, (ti_depth0 _ _ T) in D; lia).
    destruct (up_facts x Hx Hn) as (I & D'). destruct (IH (up x) I ltac:(lia)) as (l & L & N & A).
    exists (x :: l). split; [cbn; lia|]. split.
    + constructor; [|exact N]. intros H. destruct (A x H). lia.
    + intros y [<-|Hy]; [split; [exact Hx|lia]|]. destruct (A y Hy). split; [assumption|lia].
Qed.
Lemma depth_lt x : in_store s x -> (depth x < length (v_dirs s))%nat.
Proof.
  intros Hx. destruct (anc_list (depth x) x Hx eq_refl) as (l & L & N & A).
  assert (length l <= length (List.map fst (v_dirs s)))%nat.
  { apply NoDup_incl_length; [exact N|]. intros y Hy. apply (A y Hy). }
  rewrite map_length in H. lia.
Qed.

(* ---------- fuel ---------- *)
Definition A (id : N) : node := abs_dir s (S (length (v_dirs s))) id.
Definition node_of (e : entry) : node := if is_dir e then A (e_clu e) else File (e_size e).
Definition kids_of (id : N) : kids := List.map (fun e => (e_name e, node_of e)) (lives_of s id).

Lemma abs_dir_S f id :
  abs_dir s (S f) id =
  Dir (List.map (fun e => (e_name e, if is_dir e then abs_dir s f (e_clu e) else File (e_size e))) (lives_of s id)).
Proof. reflexivity. Qed.

Lemma abs_stable : forall f1 f2 id, (1 <= f1)%nat -> (1 <= f2)%nat ->
  (in_store s id -> (length (v_dirs s) <= depth id + f1)%nat /\ (length (v_dirs s) <= depth id + f2)%nat) ->
  abs_dir s f1 id = abs_dir s f2 id.
Proof.
  induction f1 as [|a IH]; intros f2 id H1 H2 B; [lia|]. destruct f2 as [|b]; [lia|].
  rewrite !abs_dir_S. f_equal. apply map_ext_in. intros e He. destruct (is_dir e) eqn:Hd; [|reflexivity].
  f_equal. pose proof (lives_in_store s id e He) as Hid. destruct (B Hid) as [B1 B2].
  destruct (ti_subdirs _ _ T id e He Hd) as (_ & _ & Ic & _). pose proof (ti_depth _ _ T id e He Hd) as Dc.
  pose proof (depth_lt _ Ic) as Lc. apply IH; lia.
Qed.
Lemma A_fuel id f : (S (length (v_dirs s)) <= f)%nat -> abs_dir s f id = A id.
Proof. intros H. unfold A. apply abs_stable; lia. Qed.
Lemma abs_unfold id : A id = Dir (kids_of id).
Proof.
  unfold A at 1. rewrite abs_dir_S. f_equal. unfold kids_of. apply map_ext_in. intros e He.
  unfold node_of. destruct (is_dir e) eqn:Hd; [|reflexivity]. f_equal.
  destruct (ti_subdirs _ _ T id e He Hd) as (_ & _ & Ic & _). pose proof (ti_depth _ _ T id e He Hd) as Dc.
  pose proof (depth_lt _ Ic) as Lc. unfold A. apply abs_stable; lia.
Qed.
Lemma abs_tree_A : abs_tree s = A 0.
Proof. reflexivity. Qed.
End One.

(* ---------- a sub-tree depends only on the directories below its root ---------- *)
Lemma abs_frame s depth s' : TreeInv s depth ->
  forall F c0, in_store s c0 ->
    (forall x, in_store s x -> Desc s depth c0 x -> lives_of s' x = lives_of s x) ->
    abs_dir s' F c0 = abs_dir s F c0.
Proof.
  intros T. induction F as [|F IH]; intros c0 Hc FR; [reflexivity|].
  rewrite !abs_dir_S. rewrite (FR c0 Hc (desc_refl s depth c0)). f_equal. apply map_ext_in. intros e He.
  destruct (is_dir e) eqn:Hd; [|reflexivity]. f_equal.
  destruct (ti_subdirs _ _ T c0 e He Hd) as (_ & _ & Ic & _). apply IH; [exact Ic|].
  intros x Hx D. apply FR; [exact Hx|]. apply (desc_child s depth T c0 e x He Hd Hx D).
Qed.
Lemma abs_same s depth s' depth' : TreeInv s depth -> TreeInv s' depth' ->
  forall c0, in_store s c0 ->
    (forall x, in_store s x -> Desc s depth c0 x -> lives_of s' x = lives_of s x) ->
    A s' c0 = A s c0.
Proof.
  intros T T' c0 Hc FR. set (F := (S (length (v_dirs s)) + S (length (v_dirs s')))%nat).
  rewrite <- (A_fuel s depth T c0 F) by (unfold F; lia).
  rewrite <- (A_fuel s' depth' T' c0 F) by (unfold F; lia).
  apply (abs_frame s depth s' T F c0 Hc FR).
Qed.
End Tree.

Lemma VolInv_tree upper V s : VolInv upper V s -> exists depth, TreeInv s depth.
Proof.
  intros I. destruct (vi_depth _ _ _ I) as (depth & D0 & D). exists depth.
  constructor; try assumption; try apply I.
  intros x Hx Hn. pose proof (proj2 (vi_refs _ _ _ I) x Hx Hn) as H. unfold dir_refs in H.
  apply in_flat_map in H. destruct H as (kd & Hkd & H). unfold dir_refs_of, sub_refs in H.
  apply in_map_iff in H. destruct H as (e & E & He). apply filter_In in He. destruct He as [He Hd].
  assert (He' : In e (lives_of s (fst kd))).
  { destruct kd as [k d]. cbn [fst snd] in *. unfold lives_of, items_of.
    rewrite (get_dir_find s k d); [exact He|]. apply In_find_dir; [apply I|exact Hkd]. }
  destruct (vi_subdirs _ _ _ I (fst kd) e He' Hd) as (_ & _ & _ & _ & U). rewrite E in U. rewrite U.
  split; [apply (lives_in_store s _ e He')|]. rewrite <- E. apply D; assumption.
Qed.
