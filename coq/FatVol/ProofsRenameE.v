(* rename: paths.  A resolved directory is re-resolved identically in a state that changed only
   at or below it ([resolve_stable]); its ancestors are the resolutions of the prefixes of its path
   ([resolve_ancestors]); what the guard of rename therefore excludes ([guard_not_inside]). *)
From Coq Require Import List NArith Bool Lia Arith Permutation.
From NV Require Import Lib.Res FatVol.Model FatVol.Spec FatVol.ProofsBase FatVol.ProofsFat FatVol.ProofsInv
     FatVol.ProofsTree FatVol.ProofsWalk FatVol.ProofsOps FatVol.ProofsRenameA.
Import ListNotations.
Open Scope N_scope.

Section RenE.
Variable upper : name -> name.
Notation lookup := (Model.lookup upper).
Notation resolve := (Model.resolve upper).

Section One.
Variables (s : vol) (depth : N -> nat).
Hypothesis T : TreeInv s depth.

(* a directory looked into on the way lies strictly above the directory reached *)
Lemma prefix_depth q x rest r pr :
  resolve s ((q ++ [x]) ++ rest) = Ok r -> r_isdir r = true -> resolve s q = Ok pr ->
  in_store s (r_index pr) /\ (depth (r_index pr) < depth (r_index r))%nat.
Proof.
  intros R D Rq. destruct (resolve_prefix_dir upper s q x rest r R D) as (pr' & e & Rq' & Dp & L & De & Re).
  assert (pr' = pr) by congruence. subst pr'.
  assert (OKp : cur_ok s pr) by (apply (resolve_ok upper s _ pr Rq); destruct pr; cbn in Dp; congruence).
  destruct (cur_dir_node s depth T pr OKp Dp) as [_ Ip]. split; [exact Ip|].
  assert (He : In e (lives_of s (r_index pr))) by apply (lookup_In upper _ _ _ L).
  unfold Model.resolve in R. rewrite walk_app in R. fold (resolve s (q ++ [x])) in R. rewrite Re in R.
  assert (OKe : cur_ok s (RFound (e_clu e) e)) by (exists (r_index pr); rewrite De; auto).
  destruct (walk_desc upper s depth T rest _ r OKe De R D) as [Dsc Ir]. cbn [r_index] in Dsc.
  destruct (desc_depth s depth T _ _ Ir Dsc) as [_ Dle]. rewrite (ti_depth _ _ T _ e He De) in Dle. lia.
Qed.

(* re-resolution in a state that agrees on the entries selected on the way *)
Lemma resolve_stable s' p r :
  resolve s p = Ok r -> r_isdir r = true ->
  (forall d k e q x, in_store s d -> (depth d < depth (r_index r))%nat -> lookup k (items_of s d) = Some e -> is_dir e = true ->
                     is_prefix (q ++ [x]) p -> resolve s (q ++ [x]) = Ok (RFound (e_clu e) e) ->
                     lookup k (items_of s' d) = Some e) ->
  forall a, is_prefix a p -> resolve s' a = resolve s a.
Proof.
  intros R D H a (resta & Ea). apply (resolve_frame upper). intros q x pr (rest & E) Rq Dp.
  assert (Ep : p = (q ++ [x]) ++ (rest ++ resta)) by (rewrite Ea, E, <- !app_assoc; reflexivity).
  rewrite Ep in R.
  destruct (resolve_prefix_dir upper s q x (rest ++ resta) r R D) as (pr' & e & Rq' & _ & L & De & Re).
  assert (pr' = pr) by congruence. subst pr'.
  destruct (prefix_depth q x (rest ++ resta) r pr R D Rq) as [Ip Dl]. rewrite L.
  apply (H _ _ e q x Ip Dl L De); [exists (rest ++ resta); exact Ep|exact Re].
Qed.

(* the ancestors of a resolved directory: the root, or what a non-empty prefix resolves to *)
Lemma resolve_ancestors p : forall r x, resolve s p = Ok r -> r_isdir r = true -> Desc s depth x (r_index r) ->
  x = 0 \/ exists q y rest e, p = (q ++ [y]) ++ rest /\ resolve s (q ++ [y]) = Ok (RFound x e) /\ is_dir e = true.
Proof.
  induction p as [|y p IH] using rev_ind; intros r x R D Dsc.
  - cbn in R. inversion R; subst. cbn [r_index] in Dsc. destruct Dsc as (n & Hn & E).
    rewrite (ti_depth0 _ _ T) in Hn. assert (n = 0%nat) by lia. subst n. left. symmetry. exact E.
  - assert (R' : resolve s ((p ++ [y]) ++ []) = Ok r) by (rewrite app_nil_r; exact R).
    destruct (resolve_prefix_dir upper s p y [] r R' D) as (pr & e & Rp & Dp & L & De & Re).
    rewrite R in Re. inversion Re; subst r. cbn [r_index] in Dsc.
    destruct Dsc as (n & Hn & E). destruct n as [|m].
    + cbn in E. subst x. right. exists p, y, [], e. rewrite app_nil_r. auto.
    + assert (OKp : cur_ok s pr) by (apply (resolve_ok upper s _ pr Rp); destruct pr; cbn in Dp; congruence).
      assert (He : In e (lives_of s (r_index pr))) by apply (lookup_In upper _ _ _ L).
      destruct (ti_subdirs _ _ T _ e He De) as (_ & _ & _ & _ & Ue).
      replace (S m) with (m + 1)%nat in E by lia. rewrite anc_add in E. cbn [anc] in E. unfold up in E. rewrite Ue in E.
      assert (Dsc' : Desc s depth x (r_index pr)).
      { exists m. split; [|exact E]. rewrite (ti_depth _ _ T _ e He De) in Hn. lia. }
      destruct (IH pr x Rp Dp Dsc') as [Z|(q & z & rest & e' & Ep & Rq & De')]; [left; exact Z|].
      right. exists q, z, (rest ++ [y]), e'. rewrite Ep, <- !app_assoc. auto.
Qed.
End One.

(* every non-empty prefix of the target's parent is one of the ancestors the guard resolves *)
Lemma prefix_in_parents tgt q y rest : tgt <> [] -> parent tgt = (q ++ [y]) ++ rest -> In (q ++ [y]) (parents_of tgt).
Proof.
  intros Hn E. unfold parents_of. destruct tgt as [|t0 ts]; [congruence|]. apply in_rev. rewrite rev_involutive.
  apply in_proper_prefixes. rewrite (parent_leaf (t0 :: ts)) by discriminate. rewrite E.
  destruct rest as [|z rest].
  - exists (leaf (t0 :: ts)), []. rewrite app_nil_r. reflexivity.
  - exists z, (rest ++ [leaf (t0 :: ts)]). rewrite <- !app_assoc. reflexivity.
Qed.
Lemma parent_in_parents tgt : tgt <> [] -> In (parent tgt) (parents_of tgt).
Proof.
  intros Hn. unfold parents_of. destruct tgt as [|t0 ts]; [congruence|]. apply in_rev. rewrite rev_involutive.
  apply in_proper_prefixes. exists (leaf (t0 :: ts)), []. apply parent_leaf. discriminate.
Qed.

(* the guard: the moved directory is not among the ancestors of the target's parent *)
Lemma guard_not_inside s depth c tgt prt :
  TreeInv s depth -> tgt <> [] -> c <> 0 -> into_itself upper s c (parents_of tgt) = Ok false ->
  resolve s (parent tgt) = Ok prt -> r_isdir prt = true -> ~ Desc s depth c (r_index prt).
Proof.
  intros T Hn Cn G Rt Dt Dsc.
  destruct (resolve_ancestors s depth T (parent tgt) prt c Rt Dt Dsc) as [Z|(q & y & rest & e & Ep & Rq & De)]; [contradiction|].
  apply (into_itself_false upper s c _ G (q ++ [y]) c e); [apply (prefix_in_parents tgt q y rest Hn Ep)|exact Rq|exact De|].
  assert (OK : cur_ok s (RFound c e)) by (apply (resolve_ok upper s _ _ Rq); discriminate).
  destruct OK as (k & _ & E). rewrite De in E. symmetry. exact E.
Qed.
End RenE.
