(* rename refines the plain tree: helper facts about the result of [rename_tail]. *)
From Coq Require Import List NArith Bool Lia Arith Permutation.
From NV Require Import Lib.Res FatAlloc.Model FatAlloc.ProofsBase.
From NV Require Import FatVol.Model FatVol.Spec FatVol.ProofsBase FatVol.ProofsFat FatVol.ProofsInv
     FatVol.ProofsTree FatVol.ProofsWalk FatVol.ProofsOps FatVol.ProofsFatOps FatVol.ProofsUnlink FatVol.ProofsFile
     FatVol.ProofsFileOp FatVol.ProofsMkdir FatVol.ProofsRenameA FatVol.ProofsRenameB FatVol.ProofsRenameC FatVol.ProofsRenameD
     FatVol.ProofsRenameE FatVol.ProofsRenameF FatVol.ProofsRenameG FatVol.ProofsRenameH FatVol.ProofsRenameI.
Import ListNotations.
Open Scope N_scope.

Section RenJ.
Variable upper : name -> name.
Variable V : vparams.
Hypothesis PW : params_wf V.
Notation VolInv := (VolInv upper V).
Notation lookup := (Model.lookup upper).
Notation resolve := (Model.resolve upper).
Notation hit := (Model.hit upper).

(* whatever the tail returns, the entries are those of the surgery *)
Lemma tail_lives s0 se sidx tidx tclu src tgt k :
  lives_of (fst (rename_tail upper V s0 se sidx tidx tclu src tgt)) k =
  lives_of (ren2 upper s0 sidx tidx (upper (leaf src)) (upper (leaf tgt)) se) k.
Proof.
  unfold rename_tail. set (s2 := ren2 upper s0 sidx tidx (upper (leaf src)) (upper (leaf tgt)) se).
  assert (E3 : lives_of (if tclu =? 0 then s2 else free_chain V s2 tclu) k = lives_of s2 k) by (destruct (tclu =? 0); reflexivity).
  destruct (is_dir se); [|exact E3].
  destruct (resolve (if tclu =? 0 then s2 else free_chain V s2 tclu) (parent tgt)); cbn [fst]; [|exact E3].
  rewrite set_dotdot_lives. exact E3.
Qed.
Lemma tail_file_out s0 se sidx tidx tclu src tgt : is_dir se = false -> snd (rename_tail upper V s0 se sidx tidx tclu src tgt) = Ok tt.
Proof. intros D. unfold rename_tail. rewrite D. reflexivity. Qed.

(* the lives of the surgery, in one formula *)
Lemma ren2_lives_all s0 sidx tidx ks kt se k :
  lives_of (ren2 upper s0 sidx tidx ks kt se) k =
  let l1 := if k =? tidx then upd_first (hit kt) (set_val (e_attr se) (e_size se) (e_clu se)) (lives_of s0 k) else lives_of s0 k in
  if k =? sidx then del_first (hit ks) l1 else l1.
Proof. rewrite (ren2_lives upper), (ren1_lives upper). reflexivity. Qed.

(* re-resolution of the target's parent after the surgery (a directory moves) *)
Lemma reresolve_surgery s0 depth0 sidx tidx src tgt se prt :
  TreeInv s0 depth0 -> lookup (upper (leaf src)) (items_of s0 sidx) = Some se ->
  resolve s0 (parent tgt) = Ok prt -> r_isdir prt = true -> tidx = r_index prt -> tgt <> [] ->
  is_dir se = true -> into_itself upper s0 (e_clu se) (parents_of tgt) = Ok false ->
  resolve (ren2 upper s0 sidx tidx (upper (leaf src)) (upper (leaf tgt)) se) (parent tgt) = Ok prt.
Proof.
  intros T0 Ls0 Rp0 Dp Eti Hn Ds G0. rewrite <- Rp0.
  apply (resolve_stable upper s0 depth0 T0 _ (parent tgt) prt Rp0 Dp); [|apply is_prefix_refl].
  intros d k y q x Id Dl L Dy Pq Rq.
  assert (Hd : d <> tidx) by (intros E; rewrite E, Eti in Dl; lia).
  rewrite lookup_lives in L |- *.
  fold (lives_of (ren2 upper s0 sidx tidx (upper (leaf src)) (upper (leaf tgt)) se) d). fold (lives_of s0 d) in L.
  rewrite ren2_lives_all. cbn zeta. destruct (N.eqb_spec d tidx); [contradiction|]. destruct (N.eqb_spec d sidx) as [E|E]; [|exact L].
  subst d. apply (find_del_first_other _ _ _ y se L); [unfold lives_of; rewrite <- lookup_lives; exact Ls0|].
  intros Ey. subst y. destruct Pq as (rest & Eq).
  apply (into_itself_false upper s0 (e_clu se) _ G0 (q ++ [x]) (e_clu se) se); [|exact Rq|exact Ds|reflexivity].
  apply (prefix_in_parents tgt q x rest Hn Eq).
Qed.
Lemma tail_dir_out s0 se sidx tidx src tgt prt :
  resolve (ren2 upper s0 sidx tidx (upper (leaf src)) (upper (leaf tgt)) se) (parent tgt) = Ok prt ->
  snd (rename_tail upper V s0 se sidx tidx 0 src tgt) = Ok tt.
Proof. intros R. unfold rename_tail. cbn [N.eqb]. rewrite R. destruct (is_dir se); reflexivity. Qed.
End RenJ.
