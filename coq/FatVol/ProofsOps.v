(* Helpers shared by the per-operation proofs, and unlink:
   names_ok under list surgery; the invariant when only FILE entries of one directory (and the
   FAT) change ([VolInv_files_update]); where a resolution comes from ([resolve_found]);
   children sub-trees when one directory's own records change ([kids_same]). *)
From Coq Require Import List NArith Bool Lia Arith Permutation.
From NV Require Import Lib.Res FatAlloc.Model FatAlloc.ProofsBase.
From NV Require Import FatVol.Model FatVol.Spec FatVol.ProofsBase FatVol.ProofsFat FatVol.ProofsInv
     FatVol.ProofsTree FatVol.ProofsWalk.
From NV Require FatNames.Model.
Import ListNotations.
Open Scope N_scope.

Lemma NoDup_map_remove {A B} (f : A -> B) l1 e l2 : NoDup (List.map f (l1 ++ e :: l2)) -> NoDup (List.map f (l1 ++ l2)).
Proof. rewrite !map_app. cbn [List.map]. apply NoDup_remove_1. Qed.
Lemma NoDup_map_mid_notin {A B} (f : A -> B) l1 e l2 x :
  NoDup (List.map f (l1 ++ e :: l2)) -> In x (l1 ++ l2) -> f x <> f e.
Proof.
  rewrite map_app. cbn [List.map]. intros N Hx E. apply NoDup_remove_2 in N. apply N.
  rewrite <- map_app, <- E. apply in_map, Hx.
Qed.
Lemma in_mid {A} (l1 l2 : list A) e x : In x (l1 ++ e :: l2) <-> x = e \/ In x (l1 ++ l2).
Proof. rewrite !in_app_iff. cbn [In]. split; intros H; intuition congruence. Qed.

Section Ops.
Variable upper : name -> name.
Variable V : vparams.
Hypothesis PW : params_wf V.
Notation P := (PP V).
Notation cs := (vp_cs V).
Notation limit := (vp_limit V).
Notation VolInv := (VolInv upper V).
Notation names_ok := (names_ok upper).
Notation lookup := (Model.lookup upper).
Notation resolve := (Model.resolve upper).
Notation hit := (Model.hit upper).

Lemma CS : 0 < cs. Proof. apply PW. Qed.
Lemma LIM : limit <= max_valid P + 1. Proof. apply PW. Qed.

(* ---------------- names_ok under list surgery ---------------- *)
Lemma names_ok_remove l1 e l2 : names_ok (l1 ++ e :: l2) -> names_ok (l1 ++ l2).
Proof.
  intros (N1 & N2 & X & K). split; [apply (NoDup_map_remove _ _ _ _ N1)|].
  split; [apply (NoDup_map_remove _ _ _ _ N2)|]. split.
  - intros a b Ha Hb. apply X; apply in_mid; right; assumption.
  - intros a Ha. apply K. apply in_mid. right. exact Ha.
Qed.
Lemma names_ok_upd l1 e e' l2 : names_ok (l1 ++ e :: l2) -> e_name e' = e_name e -> e_alias e' = e_alias e ->
  names_ok (l1 ++ e' :: l2).
Proof.
  intros (N1 & N2 & X & K) En Ea.
  assert (M1 : List.map (fun x => upper (e_name x)) (l1 ++ e' :: l2) = List.map (fun x => upper (e_name x)) (l1 ++ e :: l2))
    by (rewrite !map_app; cbn [List.map]; rewrite En; reflexivity).
  assert (M2 : List.map e_alias (l1 ++ e' :: l2) = List.map e_alias (l1 ++ e :: l2))
    by (rewrite !map_app; cbn [List.map]; rewrite Ea; reflexivity).
  split; [rewrite M1; exact N1|]. split; [rewrite M2; exact N2|]. split.
  - intros a b Ha Hb E. apply in_mid in Ha. apply in_mid in Hb.
    assert (Ie : In e (l1 ++ e :: l2)) by (apply in_mid; left; reflexivity).
    destruct Ha as [->|Ha]; destruct Hb as [->|Hb].
    + reflexivity.
    + rewrite En in E. assert (e = b) by (apply X; [exact Ie|apply in_mid; right; exact Hb|exact E]).
      subst b. exfalso. exact (NoDup_map_mid_notin _ _ _ _ _ N1 Hb eq_refl).
    + rewrite Ea in E. assert (a = e) by (apply X; [apply in_mid; right; exact Ha|exact Ie|exact E]).
      subst a. exfalso. exact (NoDup_map_mid_notin _ _ _ _ _ N1 Ha eq_refl).
    + apply X; try (apply in_mid; right; assumption). exact E.
  - intros a Ha. apply in_mid in Ha. destruct Ha as [->|Ha].
    + rewrite En, Ea. apply K. apply in_mid. left. reflexivity.
    + apply K. apply in_mid. right. exact Ha.
Qed.
(* a new entry at the end; what creation has to guarantee about its names *)
Definition fresh_names (l : list entry) (e : entry) : Prop :=
  (forall x, In x l -> upper (e_name x) <> upper (e_name e) /\ e_alias x <> e_alias e /\
                       upper (e_name x) <> e_alias e /\ e_alias x <> upper (e_name e)) /\
  upper (e_alias e) = e_alias e /\ (e_alias e = upper (e_name e) \/ In 126 (e_alias e)).
Lemma names_ok_app l e : names_ok l -> fresh_names l e -> names_ok (l ++ [e]).
Proof.
  intros (N1 & N2 & X & K) (Fr & U & Kd). split; [|split; [|split]].
  - rewrite map_app. cbn [List.map]. apply NoDup_app_intro; [exact N1|constructor; [intros []|constructor]|].
    intros y Hy [<-|[]]. apply in_map_iff in Hy. destruct Hy as (x & E & Hx). apply (proj1 (Fr x Hx)). exact E.
  - rewrite map_app. cbn [List.map]. apply NoDup_app_intro; [exact N2|constructor; [intros []|constructor]|].
    intros y Hy [<-|[]]. apply in_map_iff in Hy. destruct Hy as (x & E & Hx). apply (proj1 (proj2 (Fr x Hx))). exact E.
  - intros a b Ha Hb E. apply in_app_or in Ha. apply in_app_or in Hb.
    destruct Ha as [Ha|[<-|[]]]; destruct Hb as [Hb|[<-|[]]].
    + apply X; assumption.
    + exfalso. apply (proj1 (proj2 (proj2 (Fr a Ha)))). exact E.
    + exfalso. apply (proj2 (proj2 (proj2 (Fr b Hb)))). symmetry. exact E.
    + reflexivity.
  - intros a Ha. apply in_app_or in Ha. destruct Ha as [Ha|[<-|[]]]; [apply K, Ha|split; assumption].
Qed.

(* ---------------- owners ---------------- *)
Lemma In_owners s k e : In e (lives_of s k) -> is_dir e = false -> In (e_clu e) (owners V s).
Proof.
  intros He Hd. pose proof (lives_in_store s k e He) as Ik. apply in_store_find in Ik. destruct Ik as (d & Fd).
  unfold owners. apply in_flat_map. exists (k, d). split; [apply find_dir_In, Fd|].
  unfold dir_owners. cbn [fst snd]. right. unfold fclus. apply in_flat_map. exists e. split.
  - unfold lives_of, items_of in He. rewrite (get_dir_find _ _ _ Fd) in He. exact He.
  - unfold own_of. rewrite Hd. left. reflexivity.
Qed.
Lemma In_owners_dir s k : in_store s k -> In (dir_start V k) (owners V s).
Proof.
  intros Ik. apply in_store_find in Ik. destruct Ik as (d & Fd).
  unfold owners. apply in_flat_map. exists (k, d). split; [apply find_dir_In, Fd|]. left. reflexivity.
Qed.
Lemma file_ok_same f f' e : chn V f' (e_clu e) = chn V f (e_clu e) -> file_ok V f e -> file_ok V f' e.
Proof. unfold file_ok. intros ->. tauto. Qed.
Lemma owners_set_fat s f : owners V (set_fat s f) = owners V s.
Proof. reflexivity. Qed.

(* ---------------- only file entries of one directory (and the FAT) change ---------------- *)
Lemma VolInv_files_update s idx l' f' :
  VolInv s -> in_store s idx ->
  filter is_dir (lives l') = filter is_dir (lives_of s idx) -> names_ok (lives l') ->
  FInv V f' (owners V (set_items s idx l')) ->
  (forall k e, In e (lives_of (set_items s idx l') k) -> is_dir e = false -> file_ok V f' e) ->
  VolInv (set_fat (set_items s idx l') f').
Proof.
  intros I Ii Fd Nm Fi Fo. set (s1 := set_items s idx l').
  assert (LO : forall k, lives_of (set_fat s1 f') k = lives_of s1 k) by reflexivity.
  assert (GD : forall k, get_dir (set_fat s1 f') k = get_dir s1 k) by reflexivity.
  assert (IS : forall k, in_store (set_fat s1 f') k <-> in_store s k)
    by (intros k; apply (set_items_in_store s idx l' k Ii)).
  assert (Old : forall k e, In e (lives_of s1 k) -> is_dir e = true -> In e (lives_of s k)).
  { intros k e He Hd. destruct (N.eq_dec k idx) as [->|Hk].
    - unfold s1 in He. rewrite set_items_lives_same in He.
      assert (H : In e (filter is_dir (lives l'))) by (apply filter_In; auto).
      rewrite Fd in H. apply filter_In in H. tauto.
    - unfold s1 in He. rewrite set_items_lives_other in He by exact Hk. exact He. }
  constructor.
  - exact Fi.
  - cbn [set_fat v_dirs]. unfold s1. rewrite (set_items_keys s idx l' Ii). apply I.
  - apply IS. apply I.
  - intros k Hk. apply (vi_keyrange _ _ _ I). apply IS, Hk.
  - intros k e. rewrite LO. apply Fo.
  - intros k e He Hd. rewrite LO in He. pose proof (Old k e He Hd) as He'.
    destruct (vi_subdirs _ _ _ I k e He' Hd) as (A1 & A2 & A3 & A4 & A5).
    rewrite GD. unfold s1. destruct (set_items_dots s idx l' (e_clu e)) as [-> ->].
    repeat split; try assumption. apply IS. exact A3.
  - destruct (flat_set_items sub_refs s idx l' Ii) as (R & P1 & P2).
    assert (Pm : Permutation (dir_refs s) (dir_refs (set_fat s1 f'))).
    { assert (E : sub_refs (lives l') = sub_refs (lives_of s idx)) by (unfold sub_refs; rewrite Fd; reflexivity).
      rewrite E in P2. exact (perm_trans P1 (Permutation_sym P2)). }
    split; [apply (Permutation_NoDup Pm), I|]. intros k Hk Hn.
    apply (Permutation_in _ Pm). apply (proj2 (vi_refs _ _ _ I)); [apply IS, Hk|exact Hn].
  - intros k. rewrite LO. destruct (N.eq_dec k idx) as [->|Hk]; unfold s1.
    + rewrite set_items_lives_same. exact Nm.
    + rewrite set_items_lives_other by exact Hk. apply I.
  - destruct (vi_depth _ _ _ I) as (depth & D0 & D). exists depth. split; [exact D0|].
    intros k e He Hd. rewrite LO in He. apply D; [apply (Old k e He Hd)|exact Hd].
Qed.

(* ---------------- resolutions ---------------- *)
Lemma walk_ok s parts : forall cur r, cur_ok s cur -> Model.walk upper s cur parts = Ok r -> r <> RNone -> cur_ok s r.
Proof.
  induction parts as [|h rest IH]; intros cur r OK W Hr.
  - cbn in W. inversion W; subst. exact OK.
  - rewrite walk_cons in W. destruct (r_isdir cur); [|discriminate].
    destruct (lookup (upper h) (items_of s (r_index cur))) as [e|] eqn:L; [|inversion W; subst; congruence].
    apply (IH (RFound (if is_dir e then e_clu e else r_index cur) e) r); [|exact W|exact Hr].
    exists (r_index cur). split; [|reflexivity]. apply (lookup_In upper _ _ _ L).
Qed.
Lemma resolve_ok s parts r : resolve s parts = Ok r -> r <> RNone -> cur_ok s r.
Proof. apply walk_ok. exact I. Qed.
Lemma cur_dir_store s r : VolInv s -> cur_ok s r -> r_isdir r = true -> in_store s (r_index r).
Proof.
  intros I OK D. destruct r as [| |i e]; cbn in *; [contradiction|apply I|].
  destruct OK as (k & He & ->). rewrite D. apply (vi_subdirs _ _ _ I k e He D).
Qed.
(* the last component of a successful resolution *)
Lemma resolve_found s parts idx e : resolve s parts = Ok (RFound idx e) ->
  exists pr, parts = parent parts ++ [leaf parts] /\ resolve s (parent parts) = Ok pr /\ r_isdir pr = true /\
             lookup (upper (leaf parts)) (items_of s (r_index pr)) = Some e /\
             idx = (if is_dir e then e_clu e else r_index pr).
Proof.
  destruct parts as [|p a] using path_ind; [cbn; discriminate|].
  rewrite parent_app, leaf_app, (resolve_snoc upper). intros H.
  destruct (resolve s p) as [[| |i x]|err] eqn:R; try discriminate.
  - exists RRoot. split; [reflexivity|]. split; [reflexivity|]. split; [reflexivity|]. cbn [r_isdir r_index] in *.
    destruct (lookup (upper a) (items_of s 0)) as [y|]; inversion H; subst. auto.
  - destruct (r_isdir (RFound i x)) eqn:D; [|discriminate]. exists (RFound i x).
    split; [reflexivity|]. split; [reflexivity|]. split; [exact D|]. cbn [r_index] in *.
    destruct (lookup (upper a) (items_of s i)) as [y|]; inversion H; subst. auto.
Qed.
Lemma resolve_missing s parts : resolve s parts = Ok RNone ->
  parts = parent parts ++ [leaf parts] /\
  (resolve s (parent parts) = Ok RNone \/
   exists pr, resolve s (parent parts) = Ok pr /\ r_isdir pr = true /\
              lookup (upper (leaf parts)) (items_of s (r_index pr)) = None).
Proof.
  destruct parts as [|p a] using path_ind; [cbn; discriminate|].
  rewrite parent_app, leaf_app, (resolve_snoc upper). intros H. split; [reflexivity|].
  destruct (resolve s p) as [[| |i x]|err] eqn:R; try discriminate; [left; reflexivity| |]; right.
  - exists RRoot. split; [reflexivity|]. split; [reflexivity|]. cbn [r_isdir r_index] in *.
    destruct (lookup (upper a) (items_of s 0)); [discriminate|reflexivity].
  - exists (RFound i x). destruct (r_isdir (RFound i x)) eqn:D; [|discriminate].
    split; [reflexivity|]. split; [reflexivity|]. cbn [r_index] in *.
    destruct (lookup (upper a) (items_of s i)); [discriminate|reflexivity].
Qed.

(* plain look-ups: the first hit is the first entry of that name *)
Lemma hit_plain l k e : plain upper l k -> In e l -> hit k e = nmatch upper k e.
Proof.
  intros Pl He. unfold Model.hit, nmatch. destruct (FatNames.Model.beq (e_alias e) k) eqn:B; [|apply orb_false_r].
  apply beq_true in B. rewrite (Pl e He B), beq_refl. reflexivity.
Qed.
Lemma split_plain l1 e l2 k : plain upper (l1 ++ e :: l2) k ->
  Forall (fun x => hit k x = false) l1 -> hit k e = true ->
  Forall (fun x => nmatch upper k x = false) l1 /\ nmatch upper k e = true.
Proof.
  intros Pl F He. split.
  - apply Forall_forall. intros x Hx. rewrite Forall_forall in F. specialize (F x Hx).
    unfold Model.hit in F. apply orb_false_iff in F. apply F.
  - rewrite <- (hit_plain _ k e Pl); [exact He|]. apply in_mid. left. reflexivity.
Qed.

Lemma parent_tf parts : parts <> [] -> tilde_free upper parts ->
  tilde_free upper (parent parts) /\ ~ In 126 (upper (leaf parts)).
Proof.
  intros Hn TF. rewrite (parent_leaf parts Hn) in TF. apply Forall_app in TF. destruct TF as [T1 T2].
  split; [exact T1|]. inversion T2; assumption.
Qed.
Lemma resolve_nonroot s parts r : resolve s parts = Ok r -> r <> RRoot -> parts <> [].
Proof. intros R Hr ->. cbn in R. inversion R; subst. congruence. Qed.

(* ---------------- children sub-trees when only one directory's records change ---------------- *)
Lemma kids_same s depth s' depth' idx :
  TreeInv s depth -> TreeInv s' depth' -> in_store s idx ->
  (forall x, in_store s x -> x <> idx -> lives_of s' x = lives_of s x) ->
  forall e, In e (lives_of s idx) -> ProofsTree.node_of s' e = ProofsTree.node_of s e.
Proof.
  intros T T' Ii FR e He. unfold ProofsTree.node_of. destruct (is_dir e) eqn:Hd; [|reflexivity].
  destruct (ti_subdirs _ _ T idx e He Hd) as (_ & _ & Ic & _).
  apply (abs_same s depth s' depth' T T' (e_clu e) Ic). intros y Hy Dy. apply FR; [exact Hy|].
  intros ->. destruct (desc_depth s depth T _ _ Hy Dy) as [_ Dle].
  rewrite (ti_depth _ _ T idx e He Hd) in Dle. lia.
Qed.
End Ops.
