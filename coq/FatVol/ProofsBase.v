(* Base facts for the FatVol proofs: the directory store (find / put / drop), the decoded
   entry lists (lookup, upd_item, del_item seen through [lives]), and path helpers. *)
From Coq Require Import List NArith Bool Lia Arith Permutation.
From NV Require Import Lib.Res FatVol.Model.
From NV Require FatNames.Model FatNames.ProofsValid.
Import ListNotations.
Open Scope N_scope.

(* ---------- beq ---------- *)
Lemma beq_true a : forall b, FatNames.Model.beq a b = true <-> a = b.
Proof.
  induction a as [|x a IH]; intros [|y b]; cbn; split; intros H; try congruence; try discriminate.
  - apply andb_prop in H. destruct H as [H1 H2]. apply N.eqb_eq in H1. apply IH in H2. congruence.
  - inversion H; subst. rewrite N.eqb_refl. cbn. apply IH. reflexivity.
Qed.
Lemma beq_refl a : FatNames.Model.beq a a = true.
Proof. apply beq_true. reflexivity. Qed.
Lemma beq_false a b : FatNames.Model.beq a b = false <-> a <> b.
Proof.
  split.
  - intros H E. apply beq_true in E. congruence.
  - intros H. destruct (FatNames.Model.beq a b) eqn:E; [|reflexivity]. apply beq_true in E. contradiction.
Qed.

(* ---------- the store ---------- *)
Lemma find_dir_In ds id d : find_dir ds id = Some d -> In (id, d) ds.
Proof.
  induction ds as [|[k x] r IH]; cbn; [discriminate|].
  destruct (N.eqb_spec k id) as [->|Hn]; intros H.
  - inversion H; subst. left. reflexivity.
  - right. apply IH. exact H.
Qed.
Lemma In_find_dir ds id d : NoDup (List.map fst ds) -> In (id, d) ds -> find_dir ds id = Some d.
Proof.
  induction ds as [|[k x] r IH]; cbn; intros N H; [destruct H|].
  inversion N as [|? ? Hk N']; subst.
  destruct H as [H|H].
  - inversion H; subst. rewrite N.eqb_refl. reflexivity.
  - destruct (N.eqb_spec k id) as [->|Hn]; [|apply IH; assumption].
    exfalso. apply Hk. apply (in_map fst) in H. exact H.
Qed.
Lemma find_dir_key ds id d : find_dir ds id = Some d -> In id (List.map fst ds).
Proof. intros H. apply find_dir_In in H. apply (in_map fst) in H. exact H. Qed.
Lemma find_dir_none ds id : ~ In id (List.map fst ds) -> find_dir ds id = None.
Proof.
  induction ds as [|[k x] r IH]; cbn; intros H; [reflexivity|].
  destruct (N.eqb_spec k id) as [->|Hn]; [tauto|]. apply IH. tauto.
Qed.
Lemma key_find_dir ds id : In id (List.map fst ds) -> exists d, find_dir ds id = Some d.
Proof.
  induction ds as [|[k x] r IH]; cbn; intros H; [destruct H|].
  destruct (N.eqb_spec k id) as [->|Hn]; [eexists; reflexivity|].
  destruct H as [H|H]; [congruence|]. apply IH. exact H.
Qed.

Lemma find_put_same ds id d : find_dir (put_dir ds id d) id = Some d.
Proof.
  induction ds as [|[k x] r IH]; cbn; [rewrite N.eqb_refl; reflexivity|].
  destruct (N.eqb_spec k id) as [->|Hn]; cbn.
  - rewrite N.eqb_refl. reflexivity.
  - destruct (N.eqb_spec k id); [contradiction|]. exact IH.
Qed.
Lemma find_put_other ds id d j : j <> id -> find_dir (put_dir ds id d) j = find_dir ds j.
Proof.
  intros Hj. induction ds as [|[k x] r IH]; cbn.
  - destruct (N.eqb_spec id j); [congruence|reflexivity].
  - destruct (N.eqb_spec k id) as [->|Hn]; cbn.
    + destruct (N.eqb_spec id j); [congruence|reflexivity].
    + destruct (N.eqb_spec k j); [reflexivity|exact IH].
Qed.
Lemma keys_put_present ds id d d0 :
  find_dir ds id = Some d0 -> List.map fst (put_dir ds id d) = List.map fst ds.
Proof.
  induction ds as [|[k x] r IH]; cbn; [discriminate|].
  destruct (N.eqb_spec k id) as [->|Hn]; cbn; intros H; [reflexivity|]. f_equal. apply IH. exact H.
Qed.
Lemma keys_put_absent ds id d :
  find_dir ds id = None -> List.map fst (put_dir ds id d) = List.map fst ds ++ [id].
Proof.
  induction ds as [|[k x] r IH]; cbn; [reflexivity|].
  destruct (N.eqb_spec k id) as [->|Hn]; cbn; intros H; [discriminate|]. f_equal. apply IH. exact H.
Qed.
Lemma length_put_present ds id d d0 :
  find_dir ds id = Some d0 -> length (put_dir ds id d) = length ds.
Proof.
  intros H. rewrite <- (map_length fst), (keys_put_present _ _ _ _ H), map_length. reflexivity.
Qed.
Lemma find_drop_same ds id : NoDup (List.map fst ds) -> find_dir (drop_dir ds id) id = None.
Proof.
  induction ds as [|[k x] r IH]; cbn; intros N; [reflexivity|]. inversion N as [|? ? Hk N']; subst.
  destruct (N.eqb_spec k id) as [->|Hn]; cbn.
  - apply find_dir_none. exact Hk.
  - destruct (N.eqb_spec k id); [contradiction|]. apply IH. exact N'.
Qed.
Lemma find_drop_other ds id j : j <> id -> find_dir (drop_dir ds id) j = find_dir ds j.
Proof.
  intros Hj. induction ds as [|[k x] r IH]; cbn; [reflexivity|].
  destruct (N.eqb_spec k id) as [->|Hn]; cbn.
  - destruct (N.eqb_spec id j); [congruence|reflexivity].
  - destruct (N.eqb_spec k j); [reflexivity|exact IH].
Qed.
Lemma keys_drop ds id d :
  find_dir ds id = Some d -> Permutation (List.map fst ds) (id :: List.map fst (drop_dir ds id)).
Proof.
  induction ds as [|[k x] r IH]; cbn; [discriminate|].
  destruct (N.eqb_spec k id) as [->|Hn]; cbn; intros H; [apply Permutation_refl|].
  eapply perm_trans; [apply perm_skip, IH, H|]. apply perm_swap.
Qed.
Lemma keys_drop_incl ds id k : In k (List.map fst (drop_dir ds id)) -> In k (List.map fst ds).
Proof.
  induction ds as [|[k0 x] r IH]; cbn; [tauto|].
  destruct (N.eqb_spec k0 id) as [->|Hn]; cbn; [tauto|]. intros [H|H]; [tauto|right; apply IH, H].
Qed.
Lemma keys_drop_nodup ds id : NoDup (List.map fst ds) -> NoDup (List.map fst (drop_dir ds id)).
Proof.
  induction ds as [|[k0 x] r IH]; cbn; intros N; [constructor|]. inversion N as [|? ? Hk N']; subst.
  destruct (N.eqb_spec k0 id) as [->|Hn]; cbn; [exact N'|]. constructor; [|apply IH, N'].
  intros H. apply Hk. apply (keys_drop_incl _ _ _ H).
Qed.
Lemma length_drop ds id d : find_dir ds id = Some d -> S (length (drop_dir ds id)) = length ds.
Proof.
  induction ds as [|[k x] r IH]; cbn; [discriminate|].
  destruct (N.eqb_spec k id) as [->|Hn]; cbn; intros H; [reflexivity|]. f_equal. apply IH, H.
Qed.

(* ---------- lives ---------- *)
Lemma lives_app a b : lives (a ++ b) = lives a ++ lives b.
Proof. induction a as [|[e|] a IH]; cbn; [reflexivity|f_equal; exact IH|exact IH]. Qed.
Lemma lives_repeat_dead n : lives (repeat Dead n) = [].
Proof. induction n; cbn; auto. Qed.
Lemma lives_strip_tail l : lives (strip_tail l) = lives l.
Proof.
  induction l as [|i r IH]; [reflexivity|]. cbn [strip_tail].
  destruct (strip_tail r) as [|j r'] eqn:E.
  - destruct i as [e|]; cbn in *; [rewrite <- IH; reflexivity|exact IH].
  - destruct i as [e|]; cbn [lives]; rewrite <- IH; reflexivity.
Qed.
Lemma lives_filter_live l : lives (filter is_live l) = lives l.
Proof. induction l as [|[e|] r IH]; cbn; [reflexivity|f_equal; exact IH|exact IH]. Qed.

Section Items.
Variable upper : name -> name.
Notation hit := (hit upper).
Notation lookup := (lookup upper).
Notation upd_item := (upd_item upper).
Notation del_item := (del_item upper).

(* the first entry that answers to the key, with what is before and after it *)
Lemma lookup_split k l e : lookup k l = Some e ->
  exists l1 l2, lives l = l1 ++ e :: l2 /\ Forall (fun x => hit k x = false) l1 /\ hit k e = true /\
                lives (del_item k l) = l1 ++ l2 /\ forall g, lives (upd_item k g l) = l1 ++ g e :: l2.
Proof.
  induction l as [|[x|] r IH]; cbn [lookup Model.lookup]; [discriminate| |].
  - destruct (hit k x) eqn:Hx.
    + intros H. inversion H; subst. exists [], (lives r). cbn [del_item Model.del_item upd_item Model.upd_item].
      rewrite Hx. repeat split; auto.
      rewrite lives_app, lives_repeat_dead. reflexivity.
    + intros H. destruct (IH H) as (l1 & l2 & E & F & Hh & D & U). exists (x :: l1), l2.
      cbn [del_item Model.del_item upd_item Model.upd_item]. rewrite Hx. cbn [lives app].
      split; [congruence|]. split; [constructor; assumption|]. split; [assumption|].
      split; [congruence|]. intros g. rewrite U. reflexivity.
  - intros H. destruct (IH H) as (l1 & l2 & E & F & Hh & D & U). exists l1, l2.
    cbn [del_item Model.del_item upd_item Model.upd_item lives]. repeat split; auto.
Qed.
Lemma lookup_none k l : lookup k l = None ->
  Forall (fun x => hit k x = false) (lives l) /\ del_item k l = l /\ forall g, upd_item k g l = l.
Proof.
  induction l as [|[x|] r IH]; cbn [lookup Model.lookup].
  - intros _. split; [constructor|]. split; [reflexivity|]. intros g. reflexivity.
  - destruct (hit k x) eqn:Hx; [discriminate|]. intros H. destruct (IH H) as (F & D & U).
    cbn [del_item Model.del_item upd_item Model.upd_item lives]. rewrite Hx.
    repeat split; [constructor; assumption|congruence|intros g; rewrite U; reflexivity].
  - intros H. destruct (IH H) as (F & D & U). cbn [del_item Model.del_item upd_item Model.upd_item lives].
    repeat split; [assumption|congruence|intros g; rewrite U; reflexivity].
Qed.
Lemma lookup_lives k l : lookup k l = find (hit k) (lives l).
Proof.
  induction l as [|[x|] r IH]; cbn; [reflexivity| |exact IH]. destruct (hit k x); [reflexivity|exact IH].
Qed.
Lemma lookup_In k l e : lookup k l = Some e -> In e (lives l) /\ hit k e = true.
Proof. rewrite lookup_lives. intros H. apply find_some in H. exact H. Qed.
Lemma lookup_same_lives k l l' : lives l' = lives l -> lookup k l' = lookup k l.
Proof. intros H. rewrite !lookup_lives, H. reflexivity. Qed.
Lemma lookup_app_miss k l e : lookup k l = None -> lookup k (l ++ [Live e]) = if hit k e then Some e else None.
Proof.
  rewrite !lookup_lives, lives_app. cbn [lives app]. intros H.
  induction (lives l) as [|x r IH]; cbn in *; [reflexivity|].
  destruct (hit k x); [discriminate|]. apply IH, H.
Qed.
Lemma lookup_app_hit k l e x : lookup k l = Some x -> lookup k (l ++ [Live e]) = Some x.
Proof.
  rewrite !lookup_lives, lives_app. intros H.
  induction (lives l) as [|y r IH]; cbn in *; [discriminate|].
  destruct (hit k y); [exact H|]. apply IH, H.
Qed.
End Items.

(* ---------- paths ---------- *)
Lemma parent_leaf (p : list name) : p <> [] -> p = parent p ++ [leaf p].
Proof. intros H. unfold parent, leaf. apply app_removelast_last. exact H. Qed.
Lemma parent_app (p : list name) x : parent (p ++ [x]) = p.
Proof. unfold parent. apply removelast_last. Qed.
Lemma leaf_app (p : list name) x : leaf (p ++ [x]) = x.
Proof. unfold leaf. apply last_last. Qed.
Lemma path_ind (Q : list name -> Prop) :
  Q [] -> (forall p x, Q (p ++ [x])) -> forall p, Q p.
Proof.
  intros H0 H1 p. destruct p as [|a p]; [exact H0|].
  rewrite (parent_leaf (a :: p)) by discriminate. apply H1.
Qed.
