(* FatDirectory.__setitem__ of a new name ([dir_append]): what it does to the FAT (the
   directory's own chain may grow, on both attempts; nobody else's chain changes) and to the
   entries (the new entry at the end, or -- on ENOSPC -- nothing but a compaction). *)
From Coq Require Import List NArith Bool Lia Arith Permutation.
From NV Require Import Lib.Res FatAlloc.Model FatAlloc.ProofsBase.
From NV Require Import FatVol.Model FatVol.ProofsBase FatVol.ProofsFat FatVol.ProofsInv FatVol.ProofsFatOps.
Import ListNotations.
Open Scope N_scope.

Section Append.
Variable upper : name -> name.
Variable V : vparams.
Hypothesis PW : params_wf V.
Notation P := (PP V).
Notation chn := (chn V).
Notation FInv := (FInv V).

Lemma set_fat_self s : set_fat s (v_fat s) = s.
Proof. destruct s; reflexivity. Qed.

Lemma try_poke_fat s id imax O' :
  FInv (v_fat s) (dir_start V id :: O') -> (dir_cap V id = None -> in_rng V (dir_start V id)) ->
  exists f1, try_poke V s id imax = (set_fat s f1, snd (try_poke V s id imax)) /\
             FInv f1 (dir_start V id :: O') /\ forall o, In o O' -> chn f1 o = chn (v_fat s) o.
Proof.
  intros I R. unfold try_poke. destruct (dir_cap V id) as [cap|].
  - exists (v_fat s). cbn [snd]. rewrite set_fat_self. auto.
  - cbn zeta. cbn [snd].
    destruct (FInv_grow V (proj1 (proj2 PW)) (proj1 PW) (v_fat s) (dir_start V id) O' (32 * imax) 32 I (R eq_refl)) as [I' Same].
    cbn zeta in I', Same. eexists. split; [reflexivity|]. split; assumption.
Qed.

(* the two directions a directory can be in-range for growth *)
Lemma dir_growable s id : VolInv upper V s -> in_store s id -> dir_cap V id = None -> in_rng V (dir_start V id).
Proof.
  intros I Ii. unfold dir_cap, dir_start. destruct (N.eqb_spec id 0) as [->|Hn]; cbn [andb].
  - destruct (N.eqb_spec (vp_bits V) 32) as [E|E]; cbn [negb]; [|discriminate]. intros _. apply PW, E.
  - intros _. apply (vi_keyrange _ _ _ I id Ii Hn).
Qed.

Lemma dir_append_shape s id e O' :
  FInv (v_fat s) (dir_start V id :: O') -> (dir_cap V id = None -> in_rng V (dir_start V id)) ->
  exists f' l',
    fst (dir_append V s id e) = set_fat (set_items s id l') f' /\
    FInv f' (dir_start V id :: O') /\ (forall o, In o O' -> chn f' o = chn (v_fat s) o) /\
    ((snd (dir_append V s id e) = Ok tt /\ lives l' = lives_of s id ++ [e]) \/
     (snd (dir_append V s id e) = Err OSError_ENOSPC /\ lives l' = lives_of s id)).
Proof.
  intros I R. unfold dir_append.
  set (it0 := strip_tail (items_of s id)). set (it1 := filter is_live (items_of s id)).
  destruct (try_poke_fat s id (base id + slots_of it0 + (nslots e + 1) - 1) O' I R) as (f1 & E1 & I1 & S1).
  rewrite E1. cbn [fst snd]. destruct (snd (try_poke V s id (base id + slots_of it0 + (nslots e + 1) - 1))).
  - exists f1, (it0 ++ [Live e]). cbn [fst snd]. split; [reflexivity|]. split; [exact I1|]. split; [exact S1|].
    left. split; [reflexivity|]. rewrite lives_app. unfold it0. rewrite lives_strip_tail. reflexivity.
  - assert (I1' : FInv (v_fat (set_fat s f1)) (dir_start V id :: O')) by exact I1.
    destruct (try_poke_fat (set_fat s f1) id (base id + slots_of it1 + (nslots e + 1) - 1) O' I1' R) as (f2 & E2 & I2 & S2).
    rewrite E2. cbn [fst snd]. cbn [set_fat v_fat] in S2.
    assert (S12 : forall o, In o O' -> chn f2 o = chn (v_fat s) o) by (intros o Ho; rewrite (S2 o Ho); apply S1, Ho).
    destruct (snd (try_poke V (set_fat s f1) id (base id + slots_of it1 + (nslots e + 1) - 1))).
    + exists f2, (it1 ++ [Live e]). cbn [fst snd]. split; [reflexivity|]. split; [exact I2|]. split; [exact S12|].
      left. split; [reflexivity|]. rewrite lives_app. unfold it1. rewrite lives_filter_live. reflexivity.
    + exists f2, it1. cbn [fst snd]. split; [reflexivity|]. split; [exact I2|]. split; [exact S12|].
      right. split; [reflexivity|]. unfold it1. apply lives_filter_live.
Qed.
End Append.
