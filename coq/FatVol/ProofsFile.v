(* open(w/x/a/r+) ; one action ; close  at the level of the volume: [file_session_spec] (an
   existing entry), [create_entry_spec] (__setitem__ of a new file name). *)
From Coq Require Import List NArith Bool Lia Arith Permutation.
From NV Require Import Lib.Res FatAlloc.Model FatAlloc.ProofsBase.
From NV Require Import FatVol.Model FatVol.Spec FatVol.ProofsBase FatVol.ProofsFat FatVol.ProofsInv
     FatVol.ProofsTree FatVol.ProofsWalk FatVol.ProofsOps FatVol.ProofsFatOps FatVol.ProofsAppend
     FatVol.ProofsSession FatVol.ProofsUnlink.
From NV Require FatNames.Model.
Import ListNotations.
Open Scope N_scope.

Fixpoint upd_first (p : entry -> bool) (g : entry -> entry) (l : list entry) : list entry :=
  match l with [] => [] | x :: r => if p x then g x :: r else x :: upd_first p g r end.
Lemma upd_first_split p g l1 e l2 : Forall (fun x => p x = false) l1 -> p e = true ->
  upd_first p g (l1 ++ e :: l2) = l1 ++ g e :: l2.
Proof.
  intros F He. induction F as [|x l1 Hx F IH]; cbn [app upd_first]; [rewrite He; reflexivity|].
  rewrite Hx. f_equal. exact IH.
Qed.
Lemma NoDup_map_inj {A B} (f : A -> B) l a b : NoDup (List.map f l) -> In a l -> In b l -> f a = f b -> a = b.
Proof.
  induction l as [|x l IH]; cbn [List.map]; intros N Ha Hb E; [destruct Ha|].
  inversion N as [|? ? Hx N']; subst. destruct Ha as [->|Ha]; destruct Hb as [->|Hb].
  - reflexivity.
  - exfalso. apply Hx. rewrite E. apply in_map, Hb.
  - exfalso. apply Hx. rewrite <- E. apply in_map, Ha.
  - apply IH; assumption.
Qed.
Lemma set_val_eta e : set_val (e_attr e) (e_size e) (e_clu e) e = e.
Proof. destruct e; reflexivity. Qed.

Section File.
Variable upper : name -> name.
Variable V : vparams.
Hypothesis PW : params_wf V.
Notation P := (PP V).
Notation cs := (vp_cs V).
Notation limit := (vp_limit V).
Notation VolInv := (VolInv upper V).
Notation names_ok := (names_ok upper).
Notation hit := (Model.hit upper).

Lemma lives_upd_item k g l : lives (upd_item upper k g l) = upd_first (hit k) g (lives l).
Proof.
  induction l as [|[x|] r IH]; cbn [Model.upd_item lives upd_first]; [reflexivity| |exact IH].
  destruct (hit k x); cbn [lives]; [reflexivity|]. f_equal. exact IH.
Qed.
(* the key of _set_size / _set_mtime (the 8.3 name) finds the entry itself *)
Lemma alias_key_split l1 e l2 : names_ok (l1 ++ e :: l2) ->
  Forall (fun x => hit (upper (e_alias e)) x = false) l1 /\ hit (upper (e_alias e)) e = true.
Proof.
  intros (N1 & N2 & X & K).
  assert (Ie : In e (l1 ++ e :: l2)) by (apply in_mid; left; reflexivity).
  destruct (K e Ie) as [U _]. rewrite U. split.
  - apply Forall_forall. intros x Hx. destruct (hit (e_alias e) x) eqn:H; [|reflexivity]. exfalso.
    assert (Ix : In x (l1 ++ e :: l2)) by (apply in_or_app; left; exact Hx).
    assert (x = e).
    { unfold Model.hit in H. apply orb_prop in H. destruct H as [H|H]; apply beq_true in H.
      - apply X; assumption.
      - apply (NoDup_map_inj e_alias _ x e N2 Ix Ie H). }
    subst x. apply (NoDup_map_mid_notin _ l1 e l2 e N1); [apply in_or_app; left; exact Hx|reflexivity].
  - unfold Model.hit. rewrite (beq_refl (e_alias e)). apply orb_true_r.
Qed.

Lemma file_state_wf s k e : VolInv s -> In e (lives_of s k) -> is_dir e = false ->
  st_wf P cs limit {| sfat := v_fat s; map := chain_of V (v_fat s) (e_clu e); size := e_size e; pos := 0 |}.
Proof.
  intros I He Hd. split.
  - apply (fi_wf _ _ _ (vi_fat _ _ _ I)). apply (In_owners V s k e He Hd).
  - destruct (vi_files _ _ _ I k e He Hd) as [[Sz L]|[Sz Z]]; cbn [map size].
    + left. split; assumption.
    + right. split; [exact Sz|]. rewrite Z. change (chain_of V (v_fat s) 0) with (chn V (v_fat s) 0).
      rewrite chn_0. cbn. lia.
Qed.

Theorem file_session_spec s idx e m a l1 l2 :
  VolInv s -> in_store s idx -> lives_of s idx = l1 ++ e :: l2 -> is_dir e = false ->
  let x := file_session upper V s idx e m a in
  VolInv (fst x) /\
  (exists sz c, lives_of (fst x) idx = l1 ++ set_val (e_attr e) sz c e :: l2 /\
                (snd x = Ok tt -> sz = new_size m a (e_size e))) /\
  (forall k, k <> idx -> lives_of (fst x) k = lives_of s k) /\
  (forall k, in_store (fst x) k <-> in_store s k).
Proof.
  intros I Ii EL Hd x.
  assert (He : In e (lives_of s idx)) by (rewrite EL; apply in_mid; left; reflexivity).
  pose proof (file_state_wf s idx e I He Hd) as W0.
  unfold x, file_session. clear x.
  destruct (session_core V _ m a) as [[[st3 ok] wb]|err] eqn:E.
  2:{ cbn [fst snd]. split; [exact I|]. split; [|split; [reflexivity|reflexivity]].
      exists (e_size e), (e_clu e). rewrite set_val_eta. split; [exact EL|discriminate]. }
  destruct (session_core_spec V (LIM V PW) (CS V PW) _ m a st3 ok wb W0 eq_refl E) as (S & Z3 & Szok & Nowb).
  cbn [size] in Szok. destruct wb.
  2:{ destruct (Nowb eq_refl) as (A1 & A2 & A3). cbn [sfat map size] in A1, A2, A3.
      cbn [fst snd]. rewrite A1, set_fat_self. split; [exact I|]. split; [|split; [reflexivity|reflexivity]].
      exists (e_size e), (e_clu e). rewrite set_val_eta. split; [exact EL|].
      intros H. transitivity (size st3); [symmetry; exact A3|]. apply Szok. destruct ok; [reflexivity|discriminate]. }
  cbn [fst snd]. set (f3 := sfat st3).
  set (g := fun x0 : entry => set_val (e_attr e) (size st3) (hd 0 (map st3)) x0).
  set (l' := upd_item upper (upper (e_alias e)) g (items_of s idx)).
  change (write_back upper (set_fat s f3) idx e st3) with (set_fat (set_items s idx l') f3).
  assert (Nm : names_ok (l1 ++ e :: l2)) by (rewrite <- EL; apply I).
  assert (Ll : lives l' = l1 ++ g e :: l2).
  { unfold l'. rewrite lives_upd_item. fold (lives_of s idx). rewrite EL.
    destruct (alias_key_split l1 e l2 Nm) as [F1 Hh]. apply upd_first_split; assumption. }
  assert (Hdg : is_dir (g e) = false) by exact Hd.
  (* the FAT *)
  destruct (owners_set_items V s idx l' Ii) as (P1 & P2). rewrite EL in P1. rewrite Ll in P2.
  set (O' := dir_start V idx :: fclus (l1 ++ l2) ++ rest_owners V s idx) in *.
  assert (Pm1 : Permutation (owners V s) (e_clu e :: O')).
  { eapply perm_trans; [exact P1|]. unfold O'. eapply perm_trans; [|apply perm_swap]. apply perm_skip.
    eapply perm_trans; [apply Permutation_app_tail, fclus_mid|]. unfold own_of. rewrite Hd. apply Permutation_refl. }
  assert (Pm2 : Permutation (owners V (set_items s idx l')) (hd 0 (map st3) :: O')).
  { eapply perm_trans; [exact P2|]. unfold O'. eapply perm_trans; [|apply perm_swap]. apply perm_skip.
    eapply perm_trans; [apply Permutation_app_tail, fclus_mid|]. unfold own_of. rewrite Hdg. apply Permutation_refl. }
  destruct S as [W3 X]. unfold tbl in X. cbn [sfat map] in X.
  destruct (FInv_change V (v_fat s) f3 O' (e_clu e) (map st3) (FInv_perm V _ _ _ Pm1 (vi_fat _ _ _ I)) X (proj1 W3))
    as (Fi & Same & Own).
  split; [|split; [|split]].
  - apply (VolInv_files_update upper V s idx l' f3 I Ii).
    + rewrite Ll, EL, !filter_app. cbn [filter]. rewrite Hd, Hdg. reflexivity.
    + rewrite Ll. apply (names_ok_upd upper l1 e (g e) l2 Nm); reflexivity.
    + apply (FInv_perm V _ _ _ (Permutation_sym Pm2)). exact Fi.
    + intros k e' He' Hd'. destruct (N.eq_dec k idx) as [->|Hk].
      * rewrite set_items_lives_same, Ll in He'. apply in_mid in He'. destruct He' as [->|He'].
        -- unfold file_ok. cbn [g set_val e_size e_clu]. fold (chn V f3 (hd 0 (map st3))). rewrite Own.
           destruct (proj2 W3) as [[Sz L]|[Sz L]]; [left; split; assumption|right].
           split; [exact Sz|]. rewrite (Z3 Sz). reflexivity.
        -- apply file_ok_same with (f := v_fat s).
           ++ apply Same. unfold O'. right. apply in_or_app. left. apply In_fclus; assumption.
           ++ apply (vi_files _ _ _ I idx e'); [|exact Hd']. rewrite EL. apply in_mid. right. exact He'.
      * rewrite set_items_lives_other in He' by exact Hk. apply file_ok_same with (f := v_fat s).
        -- apply Same. unfold O'. right. apply in_or_app. right. apply (In_rest_owners V s idx k e' Hk He' Hd').
        -- apply (vi_files _ _ _ I k e' He' Hd').
  - exists (size st3), (hd 0 (map st3)). split.
    + change (lives_of (set_fat (set_items s idx l') f3) idx) with (lives_of (set_items s idx l') idx).
      rewrite set_items_lives_same. exact Ll.
    + intros H. apply Szok. destruct ok; [reflexivity|discriminate].
  - intros k Hk. apply (set_items_lives_other s idx l' k Hk).
  - intros k. apply (set_items_in_store s idx l' k Ii).
Qed.
End File.
