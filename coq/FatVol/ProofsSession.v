(* The chain-level part of one FatFile session ([session_core]): well-formed afterwards, exact
   footprint, an empty file owns no cluster after close(), the size the plain model expects
   when it returns normally, and nothing changed at all when no write-back happened. *)
From Coq Require Import List NArith Bool Lia Arith ZifyN ZifyNat ZifyBool.
From NV Require Import Lib.Res FatAlloc.Model FatAlloc.ProofsBase FatAlloc.ProofsGrow FatAlloc.ProofsOps
     FatAlloc.ProofsWrite FatAlloc.ProofsFrame.
From NV Require Import FatVol.Model FatVol.Spec FatVol.ProofsFat.
Import ListNotations.
Open Scope N_scope.

Section Session.
Variable V : vparams.
Notation P := (PP V).
Notation cs := (vp_cs V).
Notation limit := (vp_limit V).
Hypothesis LIM : limit <= max_valid P + 1.
Hypothesis CS : 0 < cs.
Notation sess := (sess V).

Definition same3 (a b : fstate) : Prop := sfat a = sfat b /\ map a = map b /\ size a = size b.

Lemma truncate_same st : truncate P cs limit (size st) st = Ok st.
Proof. unfold truncate. rewrite N.eqb_refl. reflexivity. Qed.

Lemma init_spec st0 m st1 :
  st_wf P cs limit st0 -> pos st0 = 0 ->
  (match m with
   | MW | MX => truncate P cs limit 0 st0
   | MA => Ok (seek (size st0) st0)
   | MRW => Ok st0
   end) = Ok st1 ->
  sess st0 st1 /\ size st1 = (match m with MW | MX => 0 | _ => size st0 end) /\
  pos st1 = (match m with MA => size st0 | _ => 0 end) /\
  ((match m with MW | MX => negb (size st0 =? 0) | _ => false end) = false -> same3 st1 st0).
Proof.
  intros W P0 E. destruct m.
  - destruct (truncate_wf P (POK V) cs limit CS LIM 0 st0 st1 W E) as (_ & _ & Pp & _).
    destruct (sess_truncate V LIM CS st0 0 st1 W E) as [S Sz]. split; [exact S|]. split; [exact Sz|]. split; [congruence|].
    intros H. apply negb_false_iff, N.eqb_eq in H. rewrite <- H, truncate_same in E. inversion E; subst. repeat split.
  - destruct (truncate_wf P (POK V) cs limit CS LIM 0 st0 st1 W E) as (_ & _ & Pp & _).
    destruct (sess_truncate V LIM CS st0 0 st1 W E) as [S Sz]. split; [exact S|]. split; [exact Sz|]. split; [congruence|].
    intros H. apply negb_false_iff, N.eqb_eq in H. rewrite <- H, truncate_same in E. inversion E; subst. repeat split.
  - inversion E; subst. split; [apply sess_seek, W|]. repeat split.
  - inversion E; subst. split; [apply sess_refl, W|]. repeat split; assumption.
Qed.

Lemma act_spec st1 a st2 ok wb2 :
  st_wf P cs limit st1 ->
  session_act V st1 a = (st2, ok, wb2) ->
  sess st1 st2 /\
  (ok = true -> size st2 = match a with
                           | ANone | ATouch => size st1
                           | AWrite p n => N.max (size st1) ((match p with Some q => q | None => pos st1 end) + n)
                           | ATrunc n => n
                           end) /\
  (wb2 = false -> same3 st2 st1).
Proof.
  intros W E. unfold session_act in E. destruct a as [| |p n|n].
  - inversion E; subst. split; [apply sess_refl, W|]. split; [reflexivity|]. intros _. repeat split.
  - inversion E; subst. split; [apply sess_refl, W|]. split; [reflexivity|discriminate].
  - cbn zeta in E. set (st := match p with Some q => seek q st1 | None => st1 end) in *.
    assert (Ws : st_wf P cs limit st) by (unfold st; destruct p; exact W).
    assert (Es : sfat st = sfat st1 /\ map st = map st1 /\ size st = size st1 /\
                 pos st = match p with Some q => q | None => pos st1 end) by (unfold st; destruct p; repeat split).
    destruct Es as (E1 & E2 & E3 & E4).
    injection E as Est Eok Ewb. subst st2 ok wb2.
    destruct (write_wf P (POK V) cs limit CS LIM n st Ws) as (W' & X & OkC & _).
    split; [|split].
    + split; [exact W'|]. apply extends_xfoot in X. unfold tbl in *. rewrite <- E1, <- E2. exact X.
    + intros H. destruct (OkC H) as (_ & Sz & _). rewrite Sz, E3, E4. reflexivity.
    + intros H. apply negb_false_iff, andb_prop in H. destruct H as [H1 H2].
      apply negb_true_iff in H2. unfold write_clusters. rewrite H1.
      destruct (truncate P cs limit (pos st) st); [discriminate|]. cbn [fst]. repeat split; assumption.
  - destruct (truncate P cs limit n st1) as [st'|x] eqn:T.
    + inversion E; subst. destruct (sess_truncate V LIM CS st1 n st2 W T) as [S Sz]. split; [exact S|]. split; [intros _; exact Sz|].
      intros H. apply negb_false_iff, N.eqb_eq in H. subst n. rewrite H, truncate_same in T. inversion T; subst. repeat split.
    + inversion E; subst. split; [apply sess_refl, W|]. split; [discriminate|]. intros _. repeat split.
Qed.

Lemma close_same st : (size st =? 0) && negb (match map st with [] => true | _ => false end) = false ->
  close_release true st = st.
Proof.
  intros H. unfold close_release. destruct (map st) as [|c r]; [reflexivity|]. cbn [negb] in H.
  rewrite andb_true_r in H. rewrite H. reflexivity.
Qed.

Theorem session_core_spec st0 m a st3 ok wb :
  st_wf P cs limit st0 -> pos st0 = 0 ->
  session_core V st0 m a = Ok (st3, ok, wb) ->
  sess st0 st3 /\ (size st3 = 0 -> map st3 = []) /\
  (ok = true -> size st3 = new_size m a (size st0)) /\
  (wb = false -> same3 st3 st0).
Proof.
  intros W P0 E. unfold session_core in E.
  destruct (match m with MW | MX => truncate P cs limit 0 st0 | MA => Ok (seek (size st0) st0) | MRW => Ok st0 end)
    as [st1|x] eqn:Ei; [|discriminate].
  destruct (init_spec st0 m st1 W P0 Ei) as (S1 & Sz1 & Ps1 & N1).
  cbn zeta in E. destruct (session_act V st1 a) as [[st2 ok'] wb2] eqn:Ea. cbn [fst snd] in E.
  injection E as E3 Eok Ewb. subst ok' st3.
  destruct (act_spec st1 a st2 ok wb2 (proj1 S1) Ea) as (S2 & Sz2 & N2).
  destruct (sess_close V st2 (proj1 S2)) as (S3 & Z3 & Sz3).
  split; [apply (sess_trans V _ _ _ S1), (sess_trans V _ _ _ S2), S3|]. split; [exact Z3|]. split.
  - intros H. rewrite Sz3, (Sz2 H). unfold new_size. rewrite Sz1, Ps1. destruct a as [| |p n|n]; try reflexivity.
    destruct p as [q|]; [reflexivity|]. destruct m; reflexivity.
  - intros H. rewrite <- Ewb in H. apply orb_false_iff in H. destruct H as [H H3].
    apply orb_false_iff in H. destruct H as [H1 H2]. rewrite (close_same st2 H3).
    destruct (N1 H1) as (A1 & A2 & A3). destruct (N2 H2) as (B1 & B2 & B3). repeat split; congruence.
Qed.
End Session.
