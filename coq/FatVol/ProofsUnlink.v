(* FatPath.unlink: the invariant is kept (every failure leaves the state unchanged) and the
   tree changes as the plain model says. *)
From Coq Require Import List NArith Bool Lia Arith Permutation.
From NV Require Import Lib.Res FatAlloc.Model FatAlloc.ProofsBase.
From NV Require Import FatVol.Model FatVol.Spec FatVol.ProofsBase FatVol.ProofsFat FatVol.ProofsInv
     FatVol.ProofsTree FatVol.ProofsWalk FatVol.ProofsOps FatVol.ProofsFatOps.
Import ListNotations.
Open Scope N_scope.

Section Unlink.
Variable upper : name -> name.
Variable V : vparams.
Hypothesis PW : params_wf V.
Notation P := (PP V).
Notation VolInv := (VolInv upper V).
Notation unlink := (Model.unlink upper V).
Notation resolve := (Model.resolve upper).

(* a file entry's chain is empty only when its first cluster is 0 *)
Lemma file_chain_nil f e : file_ok V f e -> chn V f (e_clu e) = [] -> e_clu e = 0.
Proof.
  intros [[Sz L]|[_ Z]] E; [|exact Z]. rewrite E in L. unfold len in L. cbn in L.
  destruct (cdiv_bounds (e_size e) (vp_cs V) (CS V PW) Sz) as [_ B]. lia.
Qed.

(* removing the entry of a file and freeing its chain *)
Lemma remove_file_inv s idx k l1 e l2 :
  VolInv s -> in_store s idx -> is_dir e = false ->
  lives_of s idx = l1 ++ e :: l2 -> lives (del_item upper k (items_of s idx)) = l1 ++ l2 ->
  VolInv (free_chain V (set_items s idx (del_item upper k (items_of s idx))) (e_clu e)).
Proof.
  intros I Ii Hd EL D. set (l' := del_item upper k (items_of s idx)) in *.
  assert (He : In e (lives_of s idx)) by (rewrite EL; apply in_mid; left; reflexivity).
  pose proof (vi_files _ _ _ I idx e He Hd) as Fe.
  change (free_chain V (set_items s idx l') (e_clu e))
    with (set_fat (set_items s idx l') (unlink_chain P (v_fat s) (e_clu e))).
  destruct (owners_set_items V s idx l' Ii) as (P1 & P2). rewrite EL in P1. rewrite D in P2.
  set (O' := dir_start V idx :: fclus (l1 ++ l2) ++ rest_owners V s idx) in *.
  assert (Pm : Permutation (owners V s) (e_clu e :: O')).
  { eapply perm_trans; [exact P1|]. unfold O'. eapply perm_trans; [|apply perm_swap]. apply perm_skip.
    eapply perm_trans; [apply Permutation_app_tail, fclus_mid|]. unfold own_of. rewrite Hd. apply Permutation_refl. }
  destruct (FInv_free V (v_fat s) (e_clu e) O' (FInv_perm V _ _ _ Pm (vi_fat _ _ _ I)) (file_chain_nil _ e Fe)) as [Fi Same].
  apply (VolInv_files_update upper V s idx l' _ I Ii).
  - rewrite D, EL, !filter_app. cbn [filter]. rewrite Hd. reflexivity.
  - rewrite D. apply (names_ok_remove upper l1 e l2). rewrite <- EL. apply I.
  - apply (FInv_perm V _ _ _ (Permutation_sym P2)). exact Fi.
  - intros k' e' He' Hd'. apply file_ok_same with (f := v_fat s).
    + apply Same. apply (Permutation_in _ P2). apply (In_owners V _ k' e' He' Hd').
    + destruct (N.eq_dec k' idx) as [->|Hk].
      * rewrite set_items_lives_same, D in He'. apply (vi_files _ _ _ I idx e'); [|exact Hd'].
        rewrite EL. apply in_mid. right. exact He'.
      * rewrite set_items_lives_other in He' by exact Hk. apply (vi_files _ _ _ I k' e' He' Hd').
Qed.

Theorem unlink_inv s parts : VolInv s -> VolInv (fst (unlink s parts)).
Proof.
  intros I. unfold Model.unlink. destruct (valid_parts parts); [|exact I]. cbn [negb].
  destruct (resolve s parts) as [r|x] eqn:R; [|exact I].
  destruct (r_exists r) eqn:Ex; [|exact I]. cbn [negb]. destruct (r_isdir r) eqn:D; [exact I|].
  destruct r as [| |idx e]; try exact I. cbn [fst]. cbn in D.
  destruct (resolve_found upper s parts idx e R) as (pr & _ & Rp & Dp & L & Ei). rewrite D in Ei. subst idx.
  assert (OKp : cur_ok s pr) by (apply (resolve_ok upper s _ pr Rp); destruct pr; cbn in Dp; congruence).
  pose proof (cur_dir_store upper V s pr I OKp Dp) as Ii.
  destruct (lookup_split upper _ _ _ L) as (l1 & l2 & EL & _ & _ & Dl & _).
  apply (remove_file_inv s (r_index pr) _ l1 e l2 I Ii D EL Dl).
Qed.

(* exact post-state: the state is unchanged whenever unlink fails *)
Theorem unlink_fail_unchanged s parts x : snd (unlink s parts) = Err x -> fst (unlink s parts) = s.
Proof.
  unfold Model.unlink. destruct (valid_parts parts); [|reflexivity]. cbn [negb].
  destruct (resolve s parts) as [r|y]; [|reflexivity].
  destruct (r_exists r); [|reflexivity]. cbn [negb]. destruct (r_isdir r); [reflexivity|].
  destruct r; try reflexivity. cbn. discriminate.
Qed.

Theorem unlink_refines s parts :
  VolInv s -> tilde_free upper parts ->
  Spec.spec_unlink upper (abs_tree s) parts = (abs_tree (fst (unlink s parts)), snd (unlink s parts)).
Proof.
  intros I TF. pose proof (unlink_inv s parts I) as I'.
  destruct (VolInv_tree upper V s I) as (depth & T).
  unfold Spec.spec_unlink, Model.unlink in *. destruct (valid_parts parts); [|reflexivity]. cbn [negb] in *.
  pose proof (walk_abs upper s depth T (vi_names _ _ _ I) parts TF RRoot Logic.I) as WA.
  cbn [cur_node] in WA. fold (resolve s parts) in WA. rewrite <- (abs_tree_A s) in WA.
  destruct (resolve s parts) as [r|x] eqn:R.
  2:{ destruct WA as [-> ->]. reflexivity. }
  destruct r as [| |idx e].
  - rewrite WA. reflexivity.
  - destruct WA as (_ & -> & _). cbn [cur_node]. rewrite (abs_unfold s depth T). reflexivity.
  - destruct WA as (_ & -> & _). cbn [cur_node r_exists r_isdir negb]. unfold ProofsTree.node_of.
    destruct (is_dir e) eqn:D; [rewrite (abs_unfold s depth T); reflexivity|].
    cbn [r_exists r_isdir negb] in I'. rewrite D in I'. cbn [fst snd] in *. f_equal.
    destruct (VolInv_tree upper V _ I') as (depth' & T').
    destruct (resolve_found upper s parts idx e R) as (pr & Epar & Rp & Dp & L & Ei). rewrite D in Ei. subst idx.
    assert (OKp : cur_ok s pr) by (apply (resolve_ok upper s _ pr Rp); destruct pr; cbn in Dp; congruence).
    pose proof (cur_dir_store upper V s pr I OKp Dp) as Ii.
    destruct (lookup_split upper _ _ _ L) as (l1 & l2 & EL & F1 & Hh & Dl & _).
    assert (TFp : tilde_free upper (parent parts)).
    { rewrite Epar in TF. apply Forall_app in TF. apply TF. }
    assert (Hleaf : ~ In 126 (upper (leaf parts))).
    { rewrite Epar in TF. apply Forall_app in TF. destruct TF as [_ TF]. inversion TF; assumption. }
    set (s' := free_chain V (set_items s (r_index pr) (del_item upper (upper (leaf parts)) (items_of s (r_index pr)))) (e_clu e)) in *.
    assert (LO : forall x, x <> r_index pr -> lives_of s' x = lives_of s x)
      by (intros x Hx; unfold s', lives_of; apply (set_items_lives_other s (r_index pr) _ x Hx)).
    assert (LS : lives_of s' (r_index pr) = l1 ++ l2)
      by (unfold s', lives_of; rewrite <- Dl; apply (set_items_lives_same s (r_index pr))).
    rewrite !abs_tree_A. symmetry.
    apply (abs_mod upper s depth s' depth' (Spec.tdel upper (upper (leaf parts))) (r_index pr) T T' (vi_names _ _ _ I))
      with (cur := RRoot) (r := pr); try assumption; try reflexivity.
    + intros x Hx Nd. apply LO. intros ->. apply Nd, desc_refl.
    + rewrite (abs_unfold s' depth' T'). f_equal. unfold kids_of. rewrite LS. fold (lives_of s (r_index pr)) in EL. rewrite EL.
      assert (Pl : plain upper (l1 ++ e :: l2) (upper (leaf parts))).
      { rewrite <- EL. apply plain_of_names; [apply I|exact Hleaf]. }
      destruct (split_plain upper l1 e l2 _ Pl F1 Hh) as [N1 Ne].
      rewrite (tdel_map_split upper (ProofsTree.node_of s) _ l1 e l2 N1 Ne).
      apply map_ext_in. intros x Hx. f_equal.
      apply (kids_same s depth s' depth' (r_index pr) T T' Ii); [intros y _ Hy; apply LO, Hy|].
      rewrite EL. apply in_mid. right. exact Hx.
Qed.
End Unlink.
