(* Wire interface of the FatVol model.
   every command takes  [params; fat; dirs; upper table; ops]
     params = [bits; cs; limit; root cluster (FAT32, else 0); slots of the fixed root]
     fat    = [entry values; () | (last_alloc, free_clusters)]
     dirs   = list of [id; '.' cluster; '..' cluster; items], item = () dead slot |
              (name, alias, attr, size, first cluster, number of long-name records)
     upper table: as FatDir.Run (packed (code point, its upper case), sorted)
     ops    = (0, path, mode, action) | (1, path) unlink | (2, path) mkdir | (3, path) rmdir |
              (4, path, path) rename;  path = list of names;  mode 0 'wb' 1 'xb' 2 'ab' 3 'r+b';
              action = () | (0) touch | (1, () | (pos), nbytes) write | (2, size) truncate
   "run": [outcomes; final state]   "trace": list of [outcome; state after the op]
   "abs": the plain tree of the state, node = (0, size) | (1, list of (name, node))
   "refine": for ONE op o: [model outcome; spec outcome on abs_tree s; spec tree; abs_tree of the
             model's new state; the new state] -- the statement of FV_*_refines, evaluated
   a state is printed as [fat; dirs] in the input format (canonical: directories in store order) *)
From Coq Require Import List NArith String Bool.
From NV Require Import Lib.Val Lib.Res Lib.Wire FatVol.Model FatVol.Spec.
From NV Require FatDir.Run.
Import ListNotations.
Open Scope string_scope.

Definition getNs (v : val) : list N := List.map getN (getL v).
Definition VNs (l : list N) : val := VL (List.map VN l).

Definition get_params (v : val) : vparams :=
  {| vp_bits := getN (arg 0 v); vp_cs := getN (arg 1 v); vp_limit := getN (arg 2 v);
     vp_rootc := getN (arg 3 v); vp_rootcap := getN (arg 4 v) |}.
Definition get_fat (v : val) : FatAlloc.Model.fat :=
  {| FatAlloc.Model.ftbl := getNs (arg 0 v);
     FatAlloc.Model.finfo := match getL (arg 1 v) with [a; b] => Some (getN a, getN b) | _ => None end |}.
Definition get_item (v : val) : item :=
  match getL v with
  | [] => Dead
  | _ => Live {| e_name := getS (arg 0 v); e_alias := getS (arg 1 v); e_attr := getN (arg 2 v);
                 e_size := getN (arg 3 v); e_clu := getN (arg 4 v); e_nlfn := getN (arg 5 v) |}
  end.
Definition get_dirs (v : val) : list (N * dirrec) :=
  List.map (fun d => (getN (arg 0 d),
                      {| d_items := List.map get_item (getL (arg 3 d));
                         d_dot := getN (arg 1 d); d_dotdot := getN (arg 2 d) |})) (getL v).
Definition get_vol (a : val) : vol := {| v_fat := get_fat (arg 1 a); v_dirs := get_dirs (arg 2 a) |}.

Definition get_path (v : val) : list name := List.map getS (getL v).
Definition get_mode (v : val) : omode :=
  let n := getN v in
  if N.eqb n 0 then MW else if N.eqb n 1 then MX else if N.eqb n 2 then MA else MRW.
Definition get_act (v : val) : fact :=
  match getL v with
  | [] => ANone
  | t :: _ =>
    if N.eqb (getN t) 0 then ATouch
    else if N.eqb (getN t) 1 then
      AWrite (match getL (arg 1 v) with [p] => Some (getN p) | _ => None end) (getN (arg 2 v))
    else ATrunc (getN (arg 1 v))
  end.
Definition get_op (v : val) : op :=
  let t := getN (arg 0 v) in
  if N.eqb t 0 then OFile (get_path (arg 1 v)) (get_mode (arg 2 v)) (get_act (arg 3 v))
  else if N.eqb t 1 then OUnlink (get_path (arg 1 v))
  else if N.eqb t 2 then OMkdir (get_path (arg 1 v))
  else if N.eqb t 3 then ORmdir (get_path (arg 1 v))
  else ORename (get_path (arg 1 v)) (get_path (arg 2 v)).

Definition VItem (i : item) : val :=
  match i with
  | Dead => VL []
  | Live e => VL [VS (e_name e); VS (e_alias e); VN (e_attr e); VN (e_size e); VN (e_clu e); VN (e_nlfn e)]
  end.
Definition VVol (s : vol) : val :=
  VL [VL [VNs (FatAlloc.Model.ftbl (v_fat s));
          match FatAlloc.Model.finfo (v_fat s) with Some (la, fc) => VL [VN la; VN fc] | None => VL [] end];
      VL (List.map (fun kd => VL [VN (fst kd); VN (d_dot (snd kd)); VN (d_dotdot (snd kd));
                                  VL (List.map VItem (d_items (snd kd)))]) (v_dirs s))].
Definition VOut (r : res unit) : val := VRes (fun _ => VL []) r.

Fixpoint VNode (n : node) : val :=
  match n with
  | File sz => VL [VN 0; VN sz]
  | Dir ch => VL [VN 1; VL (List.map (fun x => VL [VS (fst x); VNode (snd x)]) ch)]
  end.

Fixpoint trace (up : name -> name) (V : vparams) (s : vol) (ops : list op) : list val :=
  match ops with
  | [] => []
  | o :: rest => let x := step up V s o in VL [VOut (snd x); VVol (fst x)] :: trace up V (fst x) rest
  end.

Definition dispatch (cmd : string) (a : val) : val :=
  let V := get_params (arg 0 a) in
  let up := FatDir.Run.get_upper a in
  let s := get_vol a in
  let ops := List.map get_op (getL (arg 4 a)) in
  if String.eqb cmd "run" then
    let x := run up V s ops in VL [VL (List.map VOut (snd x)); VVol (fst x)]
  else if String.eqb cmd "trace" then VL (trace up V s ops)
  else if String.eqb cmd "abs" then VNode (abs_tree s)
  else if String.eqb cmd "refine" then
    match ops with
    | o :: _ =>
      let x := step up V s o in
      let y := spec_step up (abs_tree s) o in
      VL [VOut (snd x); VOut (snd y); VNode (fst y); VNode (abs_tree (fst x)); VVol (fst x)]
    | [] => VErr "no op"
    end
  else if String.eqb cmd "resolve" then        (* ops = one path: 0 none, 1 root, (index, entry) *)
    VRes (fun r => match r with
                   | RNone => VN 0 | RRoot => VN 1
                   | RFound i e => VL [VN i; VItem (Live e)] end)
         (resolve up s (get_path (arg 4 a)))
  else if String.eqb cmd "resolved" then
    (* ops-slot = list of paths (with "." / ".." components); per path
       [walkd over the records; the node it stands for in the tree; twalkd over abs_tree] --
       the statement of resolved_refines, evaluated *)
    VL (List.map (fun pv =>
          let p := get_path pv in
          let fuel := S (List.length (v_dirs s)) in
          let r := resolved up s p in
          VL [VRes (fun r => match r with
                             | RNone => VN 0 | RRoot => VN 1
                             | RFound i e => VL [VN i; VItem (Live e)] end) r;
              match r with
              | Ok RNone => VL []
              | Ok RRoot => VL [VNode (abs_tree s)]
              | Ok (RFound i e) => VL [VNode (if is_dir e then abs_dir s fuel (e_clu e) else File (e_size e))]
              | Err _ => VL []
              end;
              VRes (fun o => match o with None => VL [] | Some n => VL [VNode n] end)
                   (twalkd up [] (abs_tree s) p);
              (* resolved_is_normalised_path, evaluated: the plain walk along the dot-free normal form *)
              VRes (fun o => match o with None => VL [] | Some n => VL [VNode n] end)
                   (twalk up (abs_tree s) (lexnorm up [] p))]) (getL (arg 4 a)))
  else if String.eqb cmd "chain" then VNs (chain_of V (v_fat s) (getN (arg 4 a)))
  else VErr "unknown command".
