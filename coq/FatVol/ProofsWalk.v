(* _resolve against the tree: [walk_abs] (the model's walk over the records and the tree's walk
   agree, for components that cannot be mistaken for a generated 8.3 alias), [walk_snoc] (the
   parent is resolved by the same walk), and [abs_mod]: changing the entries of ONE directory
   (and anything below it) changes the tree exactly at that directory's path. *)
From Coq Require Import List NArith Bool Lia Arith Permutation.
From NV Require Import Lib.Res FatVol.Model FatVol.Spec FatVol.ProofsBase FatVol.ProofsFat FatVol.ProofsInv
     FatVol.ProofsTree.
From NV Require FatNames.Model.
Import ListNotations.
Open Scope N_scope.

Lemma find_split {A} (p : A -> bool) l e : find p l = Some e ->
  exists l1 l2, l = l1 ++ e :: l2 /\ Forall (fun x => p x = false) l1 /\ p e = true.
Proof.
  induction l as [|x r IH]; cbn; [discriminate|]. destruct (p x) eqn:Hx.
  - intros H. inversion H; subst. exists [], r. auto.
  - intros H. destruct (IH H) as (l1 & l2 & -> & F & He). exists (x :: l1), l2. auto.
Qed.
Lemma find_ext_in {A} (p q : A -> bool) l : (forall x, In x l -> p x = q x) -> find p l = find q l.
Proof.
  induction l as [|x r IH]; cbn; intros H; [reflexivity|]. rewrite (H x (or_introl eq_refl)).
  destruct (q x); [reflexivity|]. apply IH. intros y Hy. apply H. right. exact Hy.
Qed.

Section Walk.
Variable upper : name -> name.
Variable V : vparams.
Notation lookup := (Model.lookup upper).
Notation walk := (Model.walk upper).
Notation resolve := (Model.resolve upper).
Notation twalk := (Spec.twalk upper).
Notation tfind := (Spec.tfind upper).
Notation tupd := (Spec.tupd upper).
Notation tmod := (Spec.tmod upper).

(* a component that is not an 8.3 alias of a differently named entry *)
Definition nmatch (k : name) (e : entry) : bool := FatNames.Model.beq (upper (e_name e)) k.
Definition plain (l : list entry) (k : name) : Prop :=
  forall e, In e l -> e_alias e = k -> upper (e_name e) = k.
Definition tilde_free (parts : list name) : Prop := Forall (fun h => ~ In 126 (upper h)) parts.

Lemma plain_of_names l k : names_ok upper l -> ~ In 126 k -> plain l k.
Proof.
  intros (_ & _ & _ & K) Hk e He Ea. destruct (K e He) as (_ & [E|E]); [congruence|].
  rewrite Ea in E. contradiction.
Qed.
Lemma lookup_plain k l : plain (lives l) k -> lookup k l = find (nmatch k) (lives l).
Proof.
  intros Pl. rewrite lookup_lives. apply find_ext_in. intros e He. unfold hit, nmatch.
  destruct (FatNames.Model.beq (e_alias e) k) eqn:B; [|apply orb_false_r].
  apply beq_true in B. rewrite (Pl e He B), beq_refl. reflexivity.
Qed.
Lemma nmatch_hit k e : nmatch k e = true -> hit upper k e = true.
Proof. unfold hit, nmatch. intros ->. reflexivity. Qed.

Lemma tfind_map (g : entry -> node) k l :
  tfind k (List.map (fun e => (e_name e, g e)) l) = option_map g (find (nmatch k) l).
Proof.
  induction l as [|e r IH]; [reflexivity|]. cbn [List.map Spec.tfind find]. unfold kmatch, nmatch at 1. cbn [fst snd].
  destruct (FatNames.Model.beq (upper (e_name e)) k); [reflexivity|exact IH].
Qed.
Lemma tupd_map_split (g : entry -> node) (h : node -> node) k l1 e l2 :
  Forall (fun x => nmatch k x = false) l1 -> nmatch k e = true ->
  tupd k h (List.map (fun e => (e_name e, g e)) (l1 ++ e :: l2)) =
  List.map (fun e => (e_name e, g e)) l1 ++ (e_name e, h (g e)) :: List.map (fun e => (e_name e, g e)) l2.
Proof.
  intros F He. induction F as [|x l1 Hx F IH]; cbn [app List.map Spec.tupd]; unfold kmatch; cbn [fst snd].
  - unfold nmatch in He. rewrite He. reflexivity.
  - unfold nmatch in Hx. rewrite Hx. f_equal. exact IH.
Qed.
Lemma tdel_map_split (g : entry -> node) k l1 e l2 :
  Forall (fun x => nmatch k x = false) l1 -> nmatch k e = true ->
  Spec.tdel upper k (List.map (fun e => (e_name e, g e)) (l1 ++ e :: l2)) =
  List.map (fun e => (e_name e, g e)) (l1 ++ l2).
Proof.
  intros F He. induction F as [|x l1 Hx F IH]; cbn [app List.map Spec.tdel]; unfold kmatch; cbn [fst snd].
  - unfold nmatch in He. rewrite He. reflexivity.
  - unfold nmatch in Hx. rewrite Hx. f_equal. exact IH.
Qed.

(* ---------- the walk, one component at a time ---------- *)
Lemma walk_cons s cur h rest :
  walk s cur (h :: rest) =
  if r_isdir cur then
    match lookup (upper h) (items_of s (r_index cur)) with
    | None => Ok RNone
    | Some e => walk s (RFound (if is_dir e then e_clu e else r_index cur) e) rest
    end
  else Err NotADirectory.
Proof. reflexivity. Qed.
Lemma walk_none s parts : parts <> [] -> walk s RNone parts = Err NotADirectory.
Proof. destruct parts; [congruence|reflexivity]. Qed.
Lemma walk_app s p : forall cur q,
  walk s cur (p ++ q) =
  match walk s cur p with
  | Err e => Err e
  | Ok RNone => match p with [] => walk s RNone q | _ => Ok RNone end
  | Ok r => walk s r q
  end.
Proof.
  induction p as [|h p IH]; intros cur q; cbn [app].
  - cbn [Model.walk]. destruct cur; reflexivity.
  - rewrite !walk_cons. destruct (r_isdir cur); [|reflexivity].
    destruct (lookup (upper h) (items_of s (r_index cur))) as [e|]; [|reflexivity].
    rewrite IH. destruct (walk s _ p) as [[| |i x]|err] eqn:W; try reflexivity.
    destruct p; [cbn [Model.walk] in W; discriminate|reflexivity].
Qed.

Section One.
Variables (s : vol) (depth : N -> nat).
Hypothesis T : TreeInv s depth.
Hypothesis NM : forall k, names_ok upper (lives_of s k).
Notation A := (A s).
Notation node_of := (node_of s).

Definition cur_node (r : rres) : node :=
  match r with RRoot => A 0 | RFound _ e => node_of e | RNone => Dir [] end.
Definition cur_ok (r : rres) : Prop :=
  match r with
  | RRoot => True
  | RNone => False
  | RFound i e => exists k, In e (lives_of s k) /\ i = (if is_dir e then e_clu e else k)
  end.
Lemma cur_dir_node cur : cur_ok cur -> r_isdir cur = true -> cur_node cur = A (r_index cur) /\ in_store s (r_index cur).
Proof.
  destruct cur as [| |i e]; cbn; intros H D; [contradiction|split; [reflexivity|apply T]|].
  destruct H as (k & He & ->). unfold ProofsTree.node_of. rewrite D. split; [reflexivity|].
  apply (ti_subdirs _ _ T k e He D).
Qed.

(* _resolve and Tree._walk agree *)
Lemma walk_abs parts : tilde_free parts -> forall cur, cur_ok cur ->
  match walk s cur parts with
  | Err x => x = NotADirectory /\ twalk (cur_node cur) parts = Err NotADirectory
  | Ok RNone => twalk (cur_node cur) parts = Ok None
  | Ok r => cur_ok r /\ twalk (cur_node cur) parts = Ok (Some (cur_node r)) /\
            (r = RRoot -> cur = RRoot /\ parts = [])
  end.
Proof.
  induction parts as [|h rest IH]; intros TF cur OK.
  - cbn [Model.walk Spec.twalk]. destruct cur; [destruct OK| |]; auto.
  - inversion TF as [|? ? Hh TF']; subst. rewrite walk_cons. destruct (r_isdir cur) eqn:D.
    + destruct (cur_dir_node cur OK D) as [-> Ist]. rewrite (abs_unfold s depth T). cbn [Spec.twalk].
      unfold kids_of. rewrite tfind_map.
      rewrite lookup_plain by (apply plain_of_names; [apply NM|exact Hh]). fold (lives_of s (r_index cur)).
      destruct (find (nmatch (upper h)) (lives_of s (r_index cur))) as [e|] eqn:F; cbn [option_map]; [|reflexivity].
      apply find_some in F. destruct F as [He _].
      set (cur' := RFound (if is_dir e then e_clu e else r_index cur) e).
      assert (OK' : cur_ok cur') by (exists (r_index cur); auto).
      specialize (IH TF' cur' OK'). change (node_of e) with (cur_node cur').
      destruct (walk s cur' rest) as [[| |i x]|err]; try exact IH.
      * destruct IH as (_ & _ & X). destruct (X eq_refl). discriminate.
      * destruct IH as (I1 & I2 & _). split; [exact I1|]. split; [exact I2|discriminate].
    + destruct cur as [| |i e]; cbn in D; try discriminate; [destruct OK|].
      cbn [cur_node]. unfold ProofsTree.node_of. rewrite D. cbn [Spec.twalk]. auto.
Qed.

(* where a successful resolution of p ++ [x] comes from *)
Lemma resolve_snoc p x :
  resolve s (p ++ [x]) =
  match resolve s p with
  | Err e => Err e
  | Ok RNone => Ok RNone
  | Ok pr => if r_isdir pr then
               match lookup (upper x) (items_of s (r_index pr)) with
               | None => Ok RNone
               | Some e => Ok (RFound (if is_dir e then e_clu e else r_index pr) e)
               end
             else Err NotADirectory
  end.
Proof.
  unfold Model.resolve. rewrite walk_app. destruct (walk s RRoot p) as [[| |i e]|err] eqn:W; try reflexivity.
  destruct p; [cbn in W; discriminate|reflexivity].
Qed.

(* the directory reached lies below the one the walk started from *)
Lemma walk_desc parts : forall cur r, cur_ok cur -> r_isdir cur = true ->
  walk s cur parts = Ok r -> r_isdir r = true -> Desc s depth (r_index cur) (r_index r) /\ in_store s (r_index r).
Proof.
  induction parts as [|h rest IH]; intros cur r OK D W Dr.
  - cbn in W. inversion W; subst. split; [apply desc_refl|apply (cur_dir_node r OK D)].
  - rewrite walk_cons, D in W. destruct (lookup (upper h) (items_of s (r_index cur))) as [e|] eqn:L; [|inversion W; subst; discriminate].
    apply lookup_In in L. destruct L as [He _]. fold (lives_of s (r_index cur)) in He.
    destruct (is_dir e) eqn:Hd.
    + assert (OK' : cur_ok (RFound (e_clu e) e)) by (exists (r_index cur); rewrite Hd; auto).
      destruct (IH _ r OK' Hd W Dr) as [De Ir]. split; [|exact Ir]. cbn [r_index] in De.
      apply (desc_child s depth T (r_index cur) e (r_index r) He Hd Ir De).
    + destruct rest; cbn in W; [inversion W; subst; cbn in Dr; congruence|rewrite Hd in W; discriminate].
Qed.
End One.

(* ---------- one directory changes ---------- *)
Lemma abs_mod s depth s' depth' (f : kids -> kids) id :
  TreeInv s depth -> TreeInv s' depth' -> (forall k, names_ok upper (lives_of s k)) ->
  (forall x, in_store s x -> ~ Desc s depth id x -> lives_of s' x = lives_of s x) ->
  ProofsTree.A s' id = Dir (f (kids_of s id)) ->
  forall dparts cur r, tilde_free dparts -> cur_ok s cur -> r_isdir cur = true ->
    walk s cur dparts = Ok r -> r_isdir r = true -> r_index r = id ->
    ProofsTree.A s' (r_index cur) = tmod (ProofsTree.A s (r_index cur)) dparts f.
Proof.
  intros T T' NM FR At. induction dparts as [|h rest IH]; intros cur r TF OK D W Dr Er.
  - cbn in W. inversion W; subst. rewrite At, (abs_unfold s depth T). reflexivity.
  - inversion TF as [|? ? Hh TF']; subst.
    destruct (walk_desc s depth T _ cur r OK D W Dr) as [Dsc Iid].
    destruct (cur_dir_node s depth T cur OK D) as [_ Icur].
    rewrite walk_cons, D in W.
    destruct (Model.lookup upper (upper h) (items_of s (r_index cur))) as [e|] eqn:L; [|inversion W; subst; discriminate].
    rewrite lookup_plain in L by (apply plain_of_names; [apply NM|exact Hh]). fold (lives_of s (r_index cur)) in L.
    destruct (find_split _ _ _ L) as (l1 & l2 & EL & F1 & Me).
    assert (He : In e (lives_of s (r_index cur))) by (rewrite EL; apply in_or_app; right; left; reflexivity).
    destruct (is_dir e) eqn:Hd.
    2:{ destruct rest; cbn in W; [inversion W; subst; cbn in Dr; congruence|rewrite Hd in W; discriminate]. }
    set (c := e_clu e) in *.
    assert (OK' : cur_ok s (RFound c e)) by (exists (r_index cur); rewrite Hd; auto).
    pose proof (IH (RFound c e) r TF' OK' Hd W Dr eq_refl) as IHc. cbn [r_index] in IHc.
    destruct (walk_desc s depth T _ (RFound c e) r OK' Hd W Dr) as [Dc _]. cbn [r_index] in Dc.
    pose proof (ti_depth _ _ T _ e He Hd) as Depc. fold c in Depc.
    destruct (desc_depth s depth T c (r_index r) Iid Dc) as [Ic Dle].
    (* the directory we stand in is a strict ancestor of id: unchanged *)
    assert (Lcur : lives_of s' (r_index cur) = lives_of s (r_index cur)).
    { apply FR; [exact Icur|]. intros X. destruct (desc_depth s depth T _ _ Icur X). lia. }
    rewrite (abs_unfold s' depth' T'), (abs_unfold s depth T). cbn [Spec.tmod]. f_equal.
    unfold kids_of. rewrite Lcur, EL.
    rewrite (tupd_map_split (ProofsTree.node_of s) (fun n => tmod n rest f) (upper h) l1 e l2 F1 Me).
    rewrite map_app. cbn [List.map].
    assert (Sib : forall x, In x (l1 ++ l2) -> ProofsTree.node_of s' x = ProofsTree.node_of s x).
    { intros x Hx. unfold ProofsTree.node_of. destruct (is_dir x) eqn:Hdx; [|reflexivity].
      assert (Hx' : In x (lives_of s (r_index cur))).
      { rewrite EL. apply in_app_or in Hx. apply in_or_app. destruct Hx; [left|right; right]; assumption. }
      destruct (ti_subdirs _ _ T _ x Hx' Hdx) as (_ & _ & Ix & _).
      assert (Ne : e_clu x <> c).
      { pose proof (sub_refs_nodup s depth T (r_index cur)) as N. rewrite EL in N.
        apply (Permutation_NoDup (sub_refs_mid l1 e l2)) in N. rewrite Hd in N. cbn [app] in N.
        inversion N as [|? ? Nin _]; subst. intros E. apply Nin. unfold sub_refs.
        apply in_map_iff. exists x. split; [exact E|]. apply filter_In. split; assumption. }
      apply (abs_same s depth s' depth' T T' (e_clu x) Ix). intros y Hy Dy. apply FR; [exact Hy|].
      intros Diy. apply Ne.
      apply (desc_unique s depth T (e_clu x) c y Hy Dy).
      - apply (desc_trans s depth T c (r_index r) y Hy Dc Diy).
      - rewrite Depc. apply (ti_depth _ _ T _ x Hx' Hdx). }
    f_equal; [apply map_ext_in; intros x Hx; f_equal; apply Sib, in_or_app; left; exact Hx|].
    f_equal; [|apply map_ext_in; intros x Hx; f_equal; apply Sib, in_or_app; right; exact Hx].
    f_equal. unfold ProofsTree.node_of at 1 2. rewrite Hd. exact IHc.
Qed.
End Walk.
