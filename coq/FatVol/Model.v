(* Record-level model of the PATH OPERATIONS of nobodd (path.py FatPath: _resolve, exists /
   is_dir, open (creation branch + the FatFile session), touch, unlink, mkdir, rmdir, rename)
   composed from the lower layers:
     - the FAT as VALUES and the chain-level file operations: FatAlloc.Model (free_scan, chain,
       mark_end, unlink_chain, truncate, write_clusters, close_release) -- reused, not copied;
     - the name machinery (_get_names: 8.3 alias, number of long-name records): FatNames.Model;
     - a directory is the list of its DECODED entries in directory order.  This is FatDir's
       [view] (FatDir/ProofsView.v: every read of FatDirectory is a function of the view;
       setitem_existing_updates_in_place, delitem_spec, setitem_new_then_getitem say what the
       writes do to it) with the 32-byte records abstracted to
       (name, alias, attr, size, first cluster, number of long-name records).  Deleted records
       are kept as [Dead] slots because where the next entry lands -- and so when a directory
       needs another cluster -- depends on them (FatDir.Model.last_end / clean).
   Directory ids: the first cluster of the directory; 0 = the root (fixed region on FAT12/16,
   the chain at [vp_rootc] on FAT32).  '.' and '..' of a sub-directory occupy slots 0 and 1 and
   are kept as their cluster fields [d_dot], [d_dotdot].
   NOT modelled: cluster DATA and timestamps; path components '.' and '..'; mkdir(parents /
   exist_ok), unlink(missing_ok), touch(exist_ok=False); locks and the dirty bit; the
   `assert len(self._map) == 1` of close() (FatAlloc.close_assert_holds).
   [upper] = str.upper() is a parameter, as in FatNames / FatDir.
   Executable definitions only; proofs are in Proofs*.v. *)
From Coq Require Import List NArith Bool.
From NV Require Import Lib.Res Gen.Fat.
From NV Require FatNames.Model FatAlloc.Model.
Import ListNotations.
Open Scope N_scope.


Definition name := list N.

(* bits; cluster size; FatTable.limit = len(clusters) + 2; FAT32 root cluster (0 on FAT12/16);
   slots of the fixed root (FAT12/16) *)
Record vparams := { vp_bits : N; vp_cs : N; vp_limit : N; vp_rootc : N; vp_rootcap : N }.
Definition PP (V : vparams) : FatAlloc.Model.fatp := FatAlloc.Model.params_of_bits (vp_bits V).

Record entry := { e_name : name; e_alias : name; e_attr : N; e_size : N; e_clu : N; e_nlfn : N }.
Inductive item := Live (e : entry) | Dead.
Record dirrec := { d_items : list item; d_dot : N; d_dotdot : N }.
Record vol := { v_fat : FatAlloc.Model.fat; v_dirs : list (N * dirrec) }.

Definition is_dir (e : entry) : bool := negb (N.land (e_attr e) 16 =? 0).
Definition nslots (e : entry) : N := e_nlfn e + 1.
Definition is_live (i : item) : bool := match i with Live _ => true | Dead => false end.
Fixpoint lives (l : list item) : list entry :=
  match l with [] => [] | Live e :: r => e :: lives r | Dead :: r => lives r end.
Definition slots_of (l : list item) : N :=
  fold_right (fun i a => match i with Live e => nslots e + a | Dead => 1 + a end) 0 l.
(* the items up to the last live one: `offset` after the loop of __setitem__ *)
Fixpoint strip_tail (l : list item) : list item :=
  match l with
  | [] => []
  | i :: r => match strip_tail r, i with
              | [], Dead => []
              | r', _ => i :: r'
              end
  end.

(* ---------------- the directory store ---------------- *)
Definition empty_dir : dirrec := {| d_items := []; d_dot := 0; d_dotdot := 0 |}.
Fixpoint find_dir (ds : list (N * dirrec)) (id : N) : option dirrec :=
  match ds with
  | [] => None
  | (k, d) :: r => if k =? id then Some d else find_dir r id
  end.
Fixpoint put_dir (ds : list (N * dirrec)) (id : N) (d : dirrec) : list (N * dirrec) :=
  match ds with
  | [] => [(id, d)]
  | (k, x) :: r => if k =? id then (k, d) :: r else (k, x) :: put_dir r id d
  end.
Fixpoint drop_dir (ds : list (N * dirrec)) (id : N) : list (N * dirrec) :=
  match ds with
  | [] => []
  | (k, x) :: r => if k =? id then r else (k, x) :: drop_dir r id
  end.
Definition get_dir (s : vol) (id : N) : dirrec :=
  match find_dir (v_dirs s) id with Some d => d | None => empty_dir end.
Definition items_of (s : vol) (id : N) : list item := d_items (get_dir s id).
Definition set_fat (s : vol) (f : FatAlloc.Model.fat) : vol := {| v_fat := f; v_dirs := v_dirs s |}.
Definition set_items (s : vol) (id : N) (l : list item) : vol :=
  let d := get_dir s id in
  {| v_fat := v_fat s;
     v_dirs := put_dir (v_dirs s) id {| d_items := l; d_dot := d_dot d; d_dotdot := d_dotdot d |} |}.

(* ---------------- small text helpers ---------------- *)
Fixpoint rstrip_sp (l : list N) : list N :=
  match l with
  | [] => []
  | x :: r => match rstrip_sp r with [] => if x =? 32 then [] else [x] | r' => x :: r' end
  end.
Fixpoint lstrip_dots (s : list N) : list N := match s with 46 :: r => lstrip_dots r | _ => s end.
(* the 8.3 name as text, as _split_entries shows it *)
Definition alias_text (sfn8 ext3 : list N) : list N :=
  match rstrip_sp ext3 with [] => rstrip_sp sfn8 | x => rstrip_sp sfn8 ++ [46] ++ x end.
Fixpoint proper_prefixes_asc (l : list name) : list (list name) :=      (* [], [a], [a;b] of [a;b;c] *)
  match l with
  | [] => []
  | x :: r => [] :: List.map (cons x) (proper_prefixes_asc r)
  end.
(* FatPath.parents of the resolved target: longest first; the root is its own parent *)
Definition parents_of (l : list name) : list (list name) :=
  match l with [] => [[]] | _ => rev (proper_prefixes_asc l) end.

Section Vol.
Variable upper : name -> name.
Variable V : vparams.
Notation P := (PP V).
Notation cs := (vp_cs V).
Notation limit := (vp_limit V).

(* ---------------- FatDirectory look-ups over the decoded entries ---------------- *)
(* `lfn.upper() == uname or sfn == uname`; [k] is already upper-cased *)
Definition hit (k : name) (e : entry) : bool := FatNames.Model.beq (upper (e_name e)) k || FatNames.Model.beq (e_alias e) k.
Fixpoint lookup (k : name) (l : list item) : option entry :=
  match l with
  | [] => None
  | Live e :: r => if hit k e then Some e else lookup k r
  | Dead :: r => lookup k r
  end.
(* __setitem__ on an existing name: the slot keeps its names, the value is replaced *)
Fixpoint upd_item (k : name) (f : entry -> entry) (l : list item) : list item :=
  match l with
  | [] => []
  | Live e :: r => if hit k e then Live (f e) :: r else Live e :: upd_item k f r
  | Dead :: r => Dead :: upd_item k f r
  end.
(* __delitem__: every record of the group is marked deleted *)
Fixpoint del_item (k : name) (l : list item) : list item :=
  match l with
  | [] => []
  | Live e :: r => if hit k e then repeat Dead (N.to_nat (nslots e)) ++ r else Live e :: del_item k r
  | Dead :: r => Dead :: del_item k r
  end.
Definition set_val (attr size clu : N) (e : entry) : entry :=
  {| e_name := e_name e; e_alias := e_alias e; e_attr := attr; e_size := size; e_clu := clu;
     e_nlfn := e_nlfn e |}.

(* ---------------- chains ---------------- *)
Definition chain_of (f : FatAlloc.Model.fat) (c : N) : list N :=
  FatAlloc.Model.chain P (FatAlloc.Model.ftbl f) (S (length (FatAlloc.Model.ftbl f))) c.
Definition dir_start (id : N) : N := if id =? 0 then vp_rootc V else id.     (* FatDirectory.cluster *)
Definition dir_cap (id : N) : option N :=
  if (id =? 0) && negb (vp_bits V =? 32) then Some (vp_rootcap V) else None.
Definition base (id : N) : N := if id =? 0 then 0 else 2.                    (* slots of '.' and '..' *)

(* the first _update_entry of an append is the one at the highest slot [imax].  Fixed root:
   offset >= len(mem) -> ENOSPC, nothing written.  Sub-directory: FatFile.write of 32 bytes at
   32 * imax on the entry-less file of the directory (size = cs * len(map)): truncate() pads,
   the loop adds the cluster that holds the record; FatAlloc.write_clusters *)
Definition try_poke (s : vol) (id imax : N) : vol * bool :=
  match dir_cap id with
  | Some cap => (s, imax <? cap)
  | None =>
    let m := chain_of (v_fat s) (dir_start id) in
    let st := {| FatAlloc.Model.sfat := v_fat s; FatAlloc.Model.map := m; FatAlloc.Model.size := cs * FatAlloc.Model.len m; FatAlloc.Model.pos := 32 * imax |} in
    let r := FatAlloc.Model.write_clusters P cs limit 32 st in
    (set_fat s (FatAlloc.Model.sfat (fst r)), snd r)
  end.

(* __setitem__, new name: records + EOF record written back to front at the end of the groups;
   on ENOSPC _clean_entries() and one retry *)
Definition dir_append (s : vol) (id : N) (e : entry) : vol * res unit :=
  let k := nslots e + 1 in
  let it0 := strip_tail (items_of s id) in
  let a1 := try_poke s id (base id + slots_of it0 + k - 1) in
  if snd a1 then (set_items (fst a1) id (it0 ++ [Live e]), Ok tt)
  else
    let it1 := filter is_live (items_of s id) in
    let a2 := try_poke (fst a1) id (base id + slots_of it1 + k - 1) in
    if snd a2 then (set_items (fst a2) id (it1 ++ [Live e]), Ok tt)
    else (set_items (fst a2) id it1, Err OSError_ENOSPC).

(* (lfn.upper(), sfn text) of every group, as _get_unique_sfn matches them *)
Definition existing_of (id : N) (l : list item) : list (name * name) :=
  (if id =? 0 then [] else [([46], [46]); ([46; 46], [46; 46])])
  ++ List.map (fun e => (upper (e_name e), e_alias e)) (lives l).
Definition make_entry (id : N) (l : list item) (nm : name) (attr clu : N) : res entry :=
  do x <- FatNames.Model.get_names nm (upper (lstrip_dots nm)) (existing_of id l);
  let '(lfn, sfn8, ext3, _) := x in
  Ok {| e_name := nm; e_alias := alias_text sfn8 ext3; e_attr := attr; e_size := 0; e_clu := clu;
        e_nlfn := FatNames.Model.len lfn / 26 |}.

(* index[nm] = entry(attr, size, clu) *)
Definition setitem (s : vol) (id : N) (nm : name) (attr size clu : N) : vol * res unit :=
  match lookup (upper nm) (items_of s id) with
  | Some _ => (set_items s id (upd_item (upper nm) (set_val attr size clu) (items_of s id)), Ok tt)
  | None =>
    match make_entry id (items_of s id) nm attr clu with
    | Err e => (s, Err e)
    | Ok e => dir_append s id e
    end
  end.

(* ---------------- FatPath._resolve ---------------- *)
(* (_index, _entry): RNone = nothing found (_index None); RRoot = the root index, no entry;
   RFound i e = entry e; i is the directory's OWN index when e is a directory (open_dir of its
   cluster), the containing index when it is a file *)
Inductive rres := RNone | RRoot | RFound (idx : N) (e : entry).
Definition r_exists (r : rres) : bool := match r with RNone => false | _ => true end.
Definition r_isdir (r : rres) : bool :=
  match r with RNone => false | RRoot => true | RFound _ e => is_dir e end.
Definition r_index (r : rres) : N := match r with RFound i _ => i | _ => 0 end.
(* cluster of `path._entry`, 0 when there is none *)
Definition r_cluster (r : rres) : N := match r with RFound _ e => e_clu e | _ => 0 end.

Fixpoint walk (s : vol) (cur : rres) (parts : list name) : res rres :=
  match parts with
  | [] => Ok cur
  | h :: rest =>
    if r_isdir cur then                                   (* _must_exist, _must_be_dir *)
      match lookup (upper h) (items_of s (r_index cur)) with
      | None => Ok RNone                                  (* KeyError: return *)
      | Some e => walk s (RFound (if is_dir e then e_clu e else r_index cur) e) rest
      end
    else Err NotADirectory
  end.
Definition resolve (s : vol) (parts : list name) : res rres := walk s RRoot parts.

(* '.' and '..' components (FatPath.__init__ lets them through unvalidated): FatDirectory.__getitem__
   scans the directory in record order, and the first two records of every sub-directory are its
   own '.' and '..' entries, so they answer before any other entry; the root holds no dot entries.
   _from_entry opens the directory the entry's first cluster names (0 = the root). *)
Definition dot_entry (nm : name) (c : N) : entry :=
  {| e_name := nm; e_alias := nm; e_attr := 16; e_size := 0; e_clu := c; e_nlfn := 0 |}.
Definition dot_lookup (s : vol) (idx : N) (k : name) : option entry :=
  if idx =? 0 then None
  else if FatNames.Model.beq k [46] then Some (dot_entry [46] (d_dot (get_dir s idx)))
  else if FatNames.Model.beq k [46; 46] then Some (dot_entry [46; 46] (d_dotdot (get_dir s idx)))
  else None.
Fixpoint walkd (s : vol) (cur : rres) (parts : list name) : res rres :=
  match parts with
  | [] => Ok cur
  | h :: rest =>
    if r_isdir cur then
      match dot_lookup s (r_index cur) (upper h) with
      | Some d => walkd s (RFound (e_clu d) d) rest
      | None =>
        match lookup (upper h) (items_of s (r_index cur)) with
        | None => Ok RNone
        | Some e => walkd s (RFound (if is_dir e then e_clu e else r_index cur) e) rest
        end
      end
    else Err NotADirectory
  end.
Definition resolved (s : vol) (parts : list name) : res rres := walkd s RRoot parts.
Definition leaf (parts : list name) : name := last parts [].
Definition parent (parts : list name) : list name := removelast parts.
(* FatPath.__init__ *)
Definition valid_parts (parts : list name) : bool := forallb FatNames.Model.lfn_valid parts.

(* ---------------- open() and one FatFile session ---------------- *)
Inductive omode := MW | MX | MA | MRW.               (* 'wb' 'xb' 'ab' 'r+b' *)
(* what is done with the handle before it is closed: nothing; _set_mtime (touch); one raw
   write of n bytes, at the position the mode leaves or after seek(p); truncate(n) *)
Inductive fact := ANone | ATouch | AWrite (p : option N) (n : N) | ATrunc (n : N).

Definition write_back (s : vol) (idx : N) (e : entry) (st : FatAlloc.Model.fstate) : vol :=
  (* _set_size / _set_mtime: self._index[self._get_key()] = entry, the key is the 8.3 name *)
  set_items s idx (upd_item (upper (e_alias e))
                            (fun x => set_val (e_attr e) (FatAlloc.Model.size st) (hd 0 (FatAlloc.Model.map st)) x)
                            (items_of s idx)).

(* the chain-level part of one session: FatFile.__init__, the action, close().
   Result: (state after close, returned normally?, was the directory entry written back?) *)
Definition session_act (st1 : FatAlloc.Model.fstate) (a : fact) : FatAlloc.Model.fstate * bool * bool :=
  match a with
  | ANone => (st1, true, false)
  | ATouch => (st1, true, true)
  | AWrite p n =>
    let st := match p with Some q => FatAlloc.Model.seek q st1 | None => st1 end in
    let r := FatAlloc.Model.write_clusters P cs limit n st in
    (* the padding truncate() raises before the try/finally of write() *)
    let padfail := (FatAlloc.Model.size st <? FatAlloc.Model.pos st) &&
                   negb (is_ok (FatAlloc.Model.truncate P cs limit (FatAlloc.Model.pos st) st)) in
    (fst r, snd r, negb padfail)
  | ATrunc n =>
    match FatAlloc.Model.truncate P cs limit n st1 with
    | Ok st' => (st', true, negb (n =? FatAlloc.Model.size st1))
    | Err _ => (st1, false, false)
    end
  end.
Definition session_core (st0 : FatAlloc.Model.fstate) (m : omode) (a : fact)
  : res (FatAlloc.Model.fstate * bool * bool) :=
  match (match m with
         | MW | MX => FatAlloc.Model.truncate P cs limit 0 st0
         | MA => Ok (FatAlloc.Model.seek (FatAlloc.Model.size st0) st0)
         | MRW => Ok st0
         end) with
  | Err x => Err x
  | Ok st1 =>
    let wb1 := match m with MW | MX => negb (FatAlloc.Model.size st0 =? 0) | _ => false end in
    let x := session_act st1 a in
    let st2 := fst (fst x) in
    (* close() *)
    let st3 := FatAlloc.Model.close_release true st2 in
    let wb3 := (FatAlloc.Model.size st2 =? 0) &&
               negb (match FatAlloc.Model.map st2 with [] => true | _ => false end) in
    Ok (st3, snd (fst x), wb1 || snd x || wb3)
  end.

Definition file_session (s : vol) (idx : N) (e : entry) (m : omode) (a : fact) : vol * res unit :=
  let st0 := {| FatAlloc.Model.sfat := v_fat s; FatAlloc.Model.map := chain_of (v_fat s) (e_clu e);
                FatAlloc.Model.size := e_size e; FatAlloc.Model.pos := 0 |} in
  match session_core st0 m a with
  | Err x => (s, Err x)
  | Ok (st3, ok, wb) =>
    let s1 := set_fat s (FatAlloc.Model.sfat st3) in
    let s2 := if wb then write_back s1 idx e st3 else s1 in
    (s2, if ok then Ok tt else Err OSError_ENOSPC)
  end.

Definition file_op (s : vol) (parts : list name) (m : omode) (a : fact) : vol * res unit :=
  if negb (valid_parts parts) then (s, Err ValueError) else
  match resolve s parts with
  | Err x => (s, Err x)
  | Ok r =>
    if (match m with MRW => negb (r_exists r) | _ => false end) then (s, Err FileNotFound)
    else if (match m with MX => r_exists r | _ => false end) then (s, Err FileExists)
    else if r_isdir r then (s, Err IsADirectory)
    else
      match r with
      | RFound idx e => file_session s idx e m a           (* _refresh(): same key, same records *)
      | _ =>
        (* `if self._entry is None`: create the entry in the parent *)
        match resolve s (parent parts) with
        | Err x => (s, Err x)
        | Ok pr =>
          if negb (r_exists pr) then (s, Err FileNotFound)
          else if negb (r_isdir pr) then (s, Err NotADirectory)
          else
            let idx := r_index pr in
            let x := setitem s idx (leaf parts) 32 0 0 in
            match snd x with
            | Err e => (fst x, Err e)
            | Ok _ =>
              match lookup (upper (leaf parts)) (items_of (fst x) idx) with
              | Some e => file_session (fst x) idx e m a
              | None => (fst x, Err KeyError)
              end
            end
        end
      end
  end.

Definition touch (s : vol) (parts : list name) := file_op s parts MA ATouch.
Definition create_file (s : vol) (parts : list name) (m : omode) := file_op s parts m ANone.
Definition set_size (s : vol) (parts : list name) (n : N) := file_op s parts MRW (ATrunc n).

(* ---------------- unlink ---------------- *)
Definition free_chain (s : vol) (c : N) : vol := set_fat s (FatAlloc.Model.unlink_chain P (v_fat s) c).

Definition unlink (s : vol) (parts : list name) : vol * res unit :=
  if negb (valid_parts parts) then (s, Err ValueError) else
  match resolve s parts with
  | Err x => (s, Err x)
  | Ok r =>
    if negb (r_exists r) then (s, Err FileNotFound)
    else if r_isdir r then (s, Err IsADirectory)
    else match r with
         | RFound idx e =>
           let s1 := set_items s idx (del_item (upper (leaf parts)) (items_of s idx)) in
           (free_chain s1 (e_clu e), Ok tt)
         | _ => (s, Err IsADirectory)
         end
  end.

(* ---------------- mkdir ---------------- *)
Definition new_dir (s : vol) (c pc : N) : vol :=
  {| v_fat := v_fat s;
     v_dirs := put_dir (v_dirs s) c {| d_items := []; d_dot := c; d_dotdot := pc |} |}.

Definition mkdir (s : vol) (parts : list name) : vol * res unit :=
  if negb (valid_parts parts) then (s, Err ValueError) else
  match resolve s parts with
  | Err x => (s, Err x)
  | Ok r =>
    if r_exists r then (s, Err FileExists) else
    match resolve s (parent parts) with
    | Err x => (s, Err x)
    | Ok pr =>
      if negb (r_exists pr) then (s, Err FileNotFound)
      else if negb (r_isdir pr) then (s, Err NotADirectory)
      else
        (* parent._index._get_names(self.name): an unusable name is refused before anything is
           allocated or written *)
        match make_entry (r_index pr) (items_of s (r_index pr)) (leaf parts) 16 0 with
        | Err e => (s, Err e)
        | Ok _ =>
        match FatAlloc.Model.free_scan P (FatAlloc.Model.ftbl (v_fat s)) limit (FatAlloc.Model.hint_of (v_fat s)) with
        | [] => (s, Err OSError_ENOSPC)                    (* next(fs.fat.free()) *)
        | c :: _ =>
          let s1 := set_fat s (FatAlloc.Model.mark_end P (v_fat s) c) in   (* ... and the cluster is zeroed *)
          let x := setitem s1 (r_index pr) (leaf parts) 16 0 c in
          match snd x with
          | Err e =>                           (* except Exception: fs.fat.mark_free(cluster); raise *)
            (set_fat (fst x) (FatAlloc.Model.mark_free (v_fat (fst x)) c), Err e)
          | Ok _ => (new_dir (fst x) c (r_cluster pr), Ok tt)    (* '.' and '..' *)
          end
        end
        end
    end
  end.

(* ---------------- rmdir ---------------- *)
Definition drop (s : vol) (c : N) : vol := {| v_fat := v_fat s; v_dirs := drop_dir (v_dirs s) c |}.

Definition rmdir (s : vol) (parts : list name) : vol * res unit :=
  if negb (valid_parts parts) then (s, Err ValueError) else
  match resolve s parts with
  | Err x => (s, Err x)
  | Ok r =>
    if negb (r_exists r) then (s, Err FileNotFound)
    else if negb (r_isdir r) then (s, Err NotADirectory)
    else
      let c := r_cluster r in
      if c =? 0 then (s, Err PermissionErr)                 (* OSError(EACCES) *)
      else match lives (items_of s (r_index r)) with
           | _ :: _ => (s, Err NotEmpty)
           | [] =>
             match resolve s (parent parts) with
             | Err x => (s, Err x)
             | Ok pr =>
               let pidx := r_index pr in
               let s1 := set_items s pidx (del_item (upper (leaf parts)) (items_of s pidx)) in
               (drop (free_chain s1 c) c, Ok tt)
             end
           end
  end.

(* ---------------- rename ---------------- *)
(* the guard of rename: an ancestor of the target that IS the moved directory *)
Fixpoint into_itself (s : vol) (src_cluster : N) (ancs : list (list name)) : res bool :=
  match ancs with
  | [] => Ok false
  | a :: rest =>
    do r <- resolve s a;                                    (* ancestor.is_dir() resolves it *)
    if r_isdir r && (match r with RFound _ _ => true | _ => false end)
       && (r_cluster r =? src_cluster)
    then Ok true else into_itself s src_cluster rest
  end.
Definition set_dotdot (s : vol) (c pc : N) : vol :=
  let d := get_dir s c in
  {| v_fat := v_fat s;
     v_dirs := put_dir (v_dirs s) c {| d_items := d_items d; d_dot := d_dot d; d_dotdot := pc |} |}.

Definition rename (s : vol) (src tgt : list name) : vol * res unit :=
  if negb (valid_parts src && valid_parts tgt) then (s, Err ValueError) else
  match resolve s src with
  | Err x => (s, Err x)
  | Ok r =>
    if negb (r_exists r) then (s, Err FileNotFound) else
    match r with
    | RNone => (s, Err FileNotFound)
    | RRoot => (s, Err PermissionErr)                       (* OSError(EACCES) *)
    | RFound ridx se =>
      (* source_index *)
      match (if is_dir se then
               do b <- into_itself s (e_clu se) (parents_of tgt);
               if b then Err OSError_Other                  (* OSError(EINVAL) *)
               else do pr <- resolve s (parent src); Ok (r_index pr)
             else Ok ridx) with
      | Err x => (s, Err x)
      | Ok sidx =>
        match resolve s tgt with                            (* target.exists() *)
        | Err x => (s, Err x)
        | Ok tr =>
          (* Ok None: the target is this very entry; Ok (Some (s', tidx, target_cluster)) *)
          let prep : vol * res (option (N * N)) :=
            match tr with
            | RNone =>
              let x := touch s tgt in
              match snd x with
              | Err e => (fst x, Err e)
              | Ok _ => match resolve (fst x) (parent tgt) with
                        | Err e => (fst x, Err e)
                        | Ok pr => (fst x, Ok (Some (r_index pr, 0)))
                        end
              end
            | RRoot => (s, Err IsADirectory)
            | RFound tridx te =>
              match (if is_dir te then do pr <- resolve s (parent tgt); Ok (r_index pr)
                     else Ok tridx) with
              | Err e => (s, Err e)
              | Ok tidx =>
                if (dir_start tidx =? dir_start sidx) && FatNames.Model.beq (e_alias te) (e_alias se)
                then (s, Ok None)
                else if is_dir te then (s, Err IsADirectory)
                else if is_dir se then (s, Err NotADirectory)
                else (s, Ok (Some (tidx, e_clu te)))
              end
            end in
          match prep with
          | (s0, Err e) => (s0, Err e)
          | (s0, Ok None) => (s0, Ok tt)
          | (s0, Ok (Some (tidx, tclu))) =>
            (* target._index[target.name] = source_entry *)
            let s1 := set_items s0 tidx (upd_item (upper (leaf tgt))
                                           (set_val (e_attr se) (e_size se) (e_clu se))
                                           (items_of s0 tidx)) in
            (* del source_index[self.name] *)
            let s2 := set_items s1 sidx (del_item (upper (leaf src)) (items_of s1 sidx)) in
            let s3 := if tclu =? 0 then s2 else free_chain s2 tclu in
            if is_dir se then
              match resolve s3 (parent tgt) with            (* new_parent._resolve() *)
              | Err e => (s3, Err e)
              | Ok npr => (set_dotdot s3 (e_clu se) (r_cluster npr), Ok tt)
              end
            else (s3, Ok tt)
          end
        end
      end
    end
  end.

(* ---------------- histories ---------------- *)
Inductive op :=
| OFile (p : list name) (m : omode) (a : fact)
| OUnlink (p : list name)
| OMkdir (p : list name)
| ORmdir (p : list name)
| ORename (p q : list name).

Definition step (s : vol) (o : op) : vol * res unit :=
  match o with
  | OFile p m a => file_op s p m a
  | OUnlink p => unlink s p
  | OMkdir p => mkdir s p
  | ORmdir p => rmdir s p
  | ORename p q => rename s p q
  end.
Fixpoint run (s : vol) (ops : list op) : vol * list (res unit) :=
  match ops with
  | [] => (s, [])
  | o :: rest => let x := step s o in let y := run (fst x) rest in (fst y, snd x :: snd y)
  end.
End Vol.
