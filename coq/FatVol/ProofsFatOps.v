(* The FatAlloc-level steps of the path operations as transformers of [FInv]:
   free a chain (unlink / rmdir / rename onto a file), allocate one cluster (mkdir), let a
   directory grow (the first record written by an append), one FatFile session. *)
From Coq Require Import List NArith Bool Lia Arith Permutation ZifyN ZifyNat ZifyBool.
From NV Require Import Lib.Res FatAlloc.Model FatAlloc.ProofsBase FatAlloc.ProofsGrow FatAlloc.ProofsOps
     FatAlloc.ProofsWrite FatAlloc.ProofsFrame.
From NV Require Import FatVol.Model FatVol.ProofsFat FatVol.ProofsInv.
Import ListNotations.
Open Scope N_scope.

Section FatOps.
Variable V : vparams.
Notation P := (PP V).
Notation cs := (vp_cs V).
Notation limit := (vp_limit V).
Notation chn := (chn V).
Notation FInv := (FInv V).

Lemma FInv_free f c O :
  FInv f (c :: O) -> (chn f c = [] -> c = 0) ->
  FInv (unlink_chain P f c) O /\ forall o, In o O -> chn (unlink_chain P f c) o = chn f o.
Proof.
  intros I Z. pose proof (free_chain_foot V f c (fi_wf _ _ _ I c (or_introl eq_refl)) Z) as X.
  destruct (FInv_change V f (unlink_chain P f c) O c [] I X (chain_wf_nil P limit _)) as (I' & Same & _).
  split; [|exact Same]. cbn [hd] in I'. apply (FInv_del_empty V _ O 0); [apply chn_0|exact I'].
Qed.

Hypothesis LIM : limit <= max_valid P + 1.

Lemma FInv_alloc f O c rest :
  FInv f O -> free_scan P (ftbl f) limit (hint_of f) = c :: rest ->
  FInv (mark_end P f c) (c :: O) /\ (forall o, In o O -> chn (mark_end P f c) o = chn f o) /\
  chn (mark_end P f c) c = [c] /\ in_rng V c /\ ~ In c (flat_map (chn f) O).
Proof.
  intros I E. destruct (alloc_foot V LIM f c rest E) as (X & W & Z & R).
  assert (I0 : FInv f (0 :: O)) by (apply FInv_add_empty; [apply chn_0|exact I]).
  assert (X' : xfoot (ftbl f) (chn f 0) (ftbl (mark_end P f c)) [c]) by (rewrite chn_0; exact X).
  destruct (FInv_change V f (mark_end P f c) O 0 [c] I0 X' W) as (I' & Same & Own). cbn [hd] in *.
  split; [exact I'|]. split; [exact Same|]. split; [exact Own|]. split; [exact R|].
  intros H. apply in_flat_map in H. destruct H as (o & Ho & Hc).
  apply (chain_nonzero P limit (ftbl f) (chn f o) (POK V) (fi_wf _ _ _ I o Ho) c Hc). exact Z.
Qed.

Hypothesis CS : 0 < cs.

(* the entry-less file of a directory: size = cs * len(map) *)
Lemma dir_state_wf f d : chain_wf P limit (ftbl f) (chn f d) -> in_rng V d -> forall p,
  st_wf P cs limit {| sfat := f; map := chn f d; size := cs * len (chn f d); pos := p |}.
Proof.
  intros W R p. split; [exact W|]. left. cbn [map size].
  destruct (chn_ne V f d R) as (r & E). rewrite E. unfold len. cbn [length]. split; [nia|].
  rewrite N.mul_comm. symmetry. apply cdiv_mul. exact CS.
Qed.
Lemma FInv_grow f d O p n :
  FInv f (d :: O) -> in_rng V d ->
  let r := write_clusters P cs limit n {| sfat := f; map := chn f d; size := cs * len (chn f d); pos := p |} in
  FInv (sfat (fst r)) (d :: O) /\ forall o, In o O -> chn (sfat (fst r)) o = chn f o.
Proof.
  intros I R r. pose proof (fi_wf _ _ _ I d (or_introl eq_refl)) as W.
  destruct (sess_write V LIM CS _ n (dir_state_wf f d W R p)) as [W' X]. fold r in W', X.
  unfold tbl in X. cbn [sfat map] in X.
  destruct (write_wf P (POK V) cs limit CS LIM n _ (dir_state_wf f d W R p)) as (_ & (_ & new & E & _) & _).
  fold r in E. cbn [map] in E.
  destruct (FInv_change V f (sfat (fst r)) O d (map (fst r)) I X (proj1 W')) as (I' & Same & _).
  assert (H : hd 0 (map (fst r)) = d).
  { rewrite E. destruct (chn_ne V f d R) as (x & ->). reflexivity. }
  rewrite H in I'. split; assumption.
Qed.
End FatOps.
