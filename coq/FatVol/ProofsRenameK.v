(* rename refines the plain tree: the two successful shapes (onto an existing file; to a fresh
   name, file or directory). *)
From Coq Require Import List NArith Bool Lia Arith Permutation.
From NV Require Import Lib.Res FatAlloc.Model FatAlloc.ProofsBase.
From NV Require Import FatVol.Model FatVol.Spec FatVol.ProofsBase FatVol.ProofsFat FatVol.ProofsInv
     FatVol.ProofsTree FatVol.ProofsWalk FatVol.ProofsOps FatVol.ProofsFatOps FatVol.ProofsUnlink FatVol.ProofsFile
     FatVol.ProofsFileOp FatVol.ProofsMkdir FatVol.ProofsRenameA FatVol.ProofsRenameB FatVol.ProofsRenameC FatVol.ProofsRenameD
     FatVol.ProofsRenameE FatVol.ProofsRenameF FatVol.ProofsRenameG FatVol.ProofsRenameH FatVol.ProofsRenameI FatVol.ProofsRenameJ.
Import ListNotations.
Open Scope N_scope.

Section RenK.
Variable upper : name -> name.
Variable V : vparams.
Hypothesis PW : params_wf V.
Notation VolInv := (VolInv upper V).
Notation lookup := (Model.lookup upper).
Notation resolve := (Model.resolve upper).
Notation hit := (Model.hit upper).

Section Common.
Variables (s : vol) (depth : N -> nat) (src tgt : list name) (sidx tidx : N) (prs prt : rres) (se : entry).
Hypothesis I : VolInv s.
Hypothesis T : TreeInv s depth.
Hypothesis TFs : tilde_free upper src.
Hypothesis TFt : tilde_free upper tgt.
Hypothesis Hsn : src <> [].
Hypothesis Htn : tgt <> [].
Hypothesis Rps : resolve s (parent src) = Ok prs.
Hypothesis Dps : r_isdir prs = true.
Hypothesis Esi : sidx = r_index prs.
Hypothesis Is : in_store s sidx.
Hypothesis Ls : lookup (upper (leaf src)) (items_of s sidx) = Some se.
Hypothesis Rpt : resolve s (parent tgt) = Ok prt.
Hypothesis Dpt : r_isdir prt = true.
Hypothesis Eti : tidx = r_index prt.
Hypothesis It : in_store s tidx.
Let ks := upper (leaf src).
Let kt := upper (leaf tgt).
Let g := set_val (e_attr se) (e_size se) (e_clu se).
Let sA := minus_src upper s sidx ks.
Let sn := ProofsTree.node_of s se.

Lemma find_src : find (hit ks) (lives_of s sidx) = Some se.
Proof. unfold lives_of. rewrite <- lookup_lives. exact Ls. Qed.
Lemma TA : TreeInv sA depth.
Proof. apply (TreeInv_remove upper s depth sidx ks se T Is Ls). Qed.
Lemma names_A k : names_ok upper (lives_of sA k).
Proof.
  unfold sA. rewrite minus_src_lives. destruct (N.eqb_spec k sidx) as [->|H]; [|apply I].
  destruct (find_split _ _ _ find_src) as (l1 & l2 & E & F & H). rewrite E, (del_first_split _ l1 se l2 F H).
  apply (names_ok_remove upper l1 se l2). rewrite <- E. apply I.
Qed.
Lemma in_store_A k : in_store sA k <-> in_store s k.
Proof. apply (set_items_in_store s sidx _ k Is). Qed.
Lemma leaf_tgt_plain : ~ In 126 kt.
Proof. apply (parent_tf upper tgt Htn TFt). Qed.

(* ---------- onto an existing file ---------- *)
Lemma refine_existing te s' depth' :
  lookup kt (items_of s tidx) = Some te -> is_dir te = false -> is_dir se = false -> ~ (sidx = tidx /\ se = te) ->
  TreeInv s' depth' ->
  (forall k, lives_of s' k = lives_of (ren2 upper s sidx tidx ks kt se) k) ->
  abs_tree s' = tmod upper (tmod upper (abs_tree s) (parent src) (tdel upper ks)) (parent tgt) (tupd upper kt (fun _ => sn)).
Proof.
  intros Lt Dt Ds Ne T' LV.
  assert (Ft : find (hit kt) (lives_of s tidx) = Some te) by (unfold lives_of; rewrite <- lookup_lives; exact Lt).
  assert (LX : forall x, x <> tidx -> lives_of s' x = lives_of sA x).
  { intros x Hx. rewrite LV, ren2_lives_all. cbn zeta. unfold sA. rewrite minus_src_lives.
    destruct (N.eqb_spec x tidx); [contradiction|]. reflexivity. }
  (* the target directory: the slot of te takes the value *)
  assert (LT : lives_of s' tidx = upd_first (hit kt) g (lives_of sA tidx) /\ find (hit kt) (lives_of sA tidx) = Some te).
  { rewrite LV, ren2_lives_all. cbn zeta. unfold sA. rewrite minus_src_lives, N.eqb_refl.
    destruct (N.eqb_spec tidx sidx) as [E|E]; [|split; [reflexivity|exact Ft]].
    rewrite E in Ft |- *. split.
    - apply (upd_del_comm _ _ g _ se te); [reflexivity|exact find_src|exact Ft|]. intros X. apply Ne. split; [symmetry; exact E|exact X].
    - apply (find_del_first_other _ _ _ te se Ft find_src). intros X. apply Ne. split; [symmetry; exact E|symmetry; exact X]. }
  destruct LT as [LT FA]. destruct (find_split _ _ _ FA) as (t1 & t2 & EA & F1 & Hh).
  apply (tail_tree upper V s depth s' depth' src tgt sidx tidx prs prt se _ I T T' TFs TFt Hsn Rps Dps Esi Is Ls Rpt Dpt Eti It).
  - intros e q x De _ _ X. subst e. congruence.
  - exact LX.
  - fold ks sA. unfold kids_of. rewrite LT, EA, (upd_first_split _ g t1 te t2 F1 Hh).
    assert (Pl : plain upper (t1 ++ te :: t2) kt) by (rewrite <- EA; apply plain_of_names; [apply names_A|exact leaf_tgt_plain]).
    destruct (split_plain upper t1 te t2 kt Pl F1 Hh) as [N1 Ne'].
    rewrite (tupd_map_split upper (ProofsTree.node_of sA) _ kt t1 te t2 N1 Ne'), map_app. cbn [List.map].
    assert (Sib : forall x, In x (t1 ++ t2) -> ProofsTree.node_of s' x = ProofsTree.node_of sA x).
    { intros x Hx. apply (kids_same sA depth s' depth' tidx TA T' (proj2 (in_store_A tidx) It)); [intros y _ Hy; apply LX, Hy|].
      rewrite EA. apply in_mid. right. exact Hx. }
    f_equal; [apply map_ext_in; intros x Hx; f_equal; apply Sib, in_or_app; left; exact Hx|].
    f_equal; [|apply map_ext_in; intros x Hx; f_equal; apply Sib, in_or_app; right; exact Hx].
    unfold sn, ProofsTree.node_of. change (is_dir (g te)) with (is_dir se). rewrite Ds. reflexivity.
Qed.

(* ---------- to a fresh name ---------- *)
Lemma refine_missing e s0 s' depth' :
  lookup kt (items_of s tidx) = None ->
  lives_of s0 tidx = lives_of s tidx ++ [e] -> (forall k, k <> tidx -> lives_of s0 k = lives_of s k) ->
  e_name e = leaf tgt ->
  (is_dir se = true -> into_itself upper s (e_clu se) (parents_of tgt) = Ok false) ->
  TreeInv s' depth' ->
  (forall k, lives_of s' k = lives_of (ren2 upper s0 sidx tidx ks kt se) k) ->
  abs_tree s' = tmod upper (tmod upper (abs_tree s) (parent src) (tdel upper ks)) (parent tgt) (fun ch => ch ++ [(leaf tgt, sn)]).
Proof.
  intros Ln Ll Lo En Gd T' LV.
  assert (Fn : find (hit kt) (lives_of s tidx) = None) by (unfold lives_of; rewrite <- lookup_lives; exact Ln).
  assert (He : hit kt e = true) by (unfold Model.hit, kt; rewrite En, beq_refl; reflexivity).
  assert (Hse : In se (lives_of s sidx)) by apply (lookup_In upper _ _ _ Ls).
  assert (LX : forall x, x <> tidx -> lives_of s' x = lives_of sA x).
  { intros x Hx. rewrite LV, ren2_lives_all. cbn zeta. unfold sA. rewrite minus_src_lives.
    destruct (N.eqb_spec x tidx); [contradiction|]. rewrite (Lo x Hx). reflexivity. }
  assert (LT : lives_of s' tidx = lives_of sA tidx ++ [g e]).
  { rewrite LV, ren2_lives_all. cbn zeta. unfold sA. rewrite minus_src_lives, N.eqb_refl, Ll. fold g.
    rewrite (upd_first_app_last _ g _ e Fn He). destruct (N.eqb_spec tidx sidx) as [E|E]; [|reflexivity].
    rewrite E. apply (del_first_app _ _ _ se find_src). }
  apply (tail_tree upper V s depth s' depth' src tgt sidx tidx prs prt se _ I T T' TFs TFt Hsn Rps Dps Esi Is Ls Rpt Dpt Eti It).
  - intros y q x Dy (rest & Eq) Rq X. subst y.
    apply (into_itself_false upper s (e_clu se) _ (Gd Dy) (q ++ [x]) (e_clu se) se); [|exact Rq|exact Dy|reflexivity].
    apply (prefix_in_parents tgt q x rest Htn Eq).
  - exact LX.
  - fold ks sA. unfold kids_of. rewrite LT, map_app. cbn [List.map]. f_equal.
    + apply map_ext_in. intros x Hx. f_equal.
      apply (kids_same sA depth s' depth' tidx TA T' (proj2 (in_store_A tidx) It)); [intros y _ Hy; apply LX, Hy|exact Hx].
    + change (e_name (g e)) with (e_name e). rewrite En. f_equal. f_equal.
      unfold sn, ProofsTree.node_of. change (is_dir (g e)) with (is_dir se). change (e_clu (g e)) with (e_clu se). change (e_size (g e)) with (e_size se).
      destruct (is_dir se) eqn:Ds; [|reflexivity].
      (* the moved sub-tree is untouched *)
      destruct (ti_subdirs _ _ T sidx se Hse Ds) as (Cn & _ & Ic & _ & Uc).
      pose proof (guard_not_inside upper s depth (e_clu se) tgt prt T Htn Cn (Gd eq_refl) Rpt Dpt) as Nd. rewrite <- Eti in Nd.
      apply (abs_same s depth s' depth' T T' (e_clu se) Ic). intros y Hy Dy.
      assert (Hy1 : y <> tidx) by (intros ->; exact (Nd Dy)).
      assert (Hy2 : y <> sidx).
      { intros ->. destruct (desc_depth s depth T _ _ Hy Dy) as [_ Dle]. rewrite (ti_depth _ _ T sidx se Hse Ds) in Dle. lia. }
      rewrite (LX y Hy1). unfold sA. rewrite minus_src_lives. destruct (N.eqb_spec y sidx); [contradiction|reflexivity].
Qed.
End Common.
End RenK.
