(* FatPath.mkdir: invariant (also when it ends in ENOSPC: the reserved cluster is released
   again) and refinement. *)
From Coq Require Import List NArith Bool Lia Arith Permutation.
From NV Require Import Lib.Res FatAlloc.Model FatAlloc.ProofsBase.
From NV Require Import FatVol.Model FatVol.Spec FatVol.ProofsBase FatVol.ProofsFat FatVol.ProofsInv
     FatVol.ProofsTree FatVol.ProofsWalk FatVol.ProofsOps FatVol.ProofsFatOps FatVol.ProofsAppend
     FatVol.ProofsUnlink FatVol.ProofsFile FatVol.ProofsFileOp.
Import ListNotations.
Open Scope N_scope.

Section Mkdir.
Variable upper : name -> name.
Variable V : vparams.
Hypothesis PW : params_wf V.
Notation P := (PP V).
Notation VolInv := (VolInv upper V).
Notation mkdir := (Model.mkdir upper V).
Notation resolve := (Model.resolve upper).
Notation lookup := (Model.lookup upper).

(* freeing a one-cluster chain is one mark_free *)
Lemma unlink_single f c : in_rng V c -> max_valid P < get (ftbl f) c -> unlink_chain P f c = mark_free f c.
Proof.
  intros [R1 R2] E. unfold unlink_chain. cbn [unlink_go].
  destruct (N.leb_spec (min_valid P) c); [|lia]. destruct (N.leb_spec c (max_valid P)); [|lia]. cbn [andb].
  destruct (length (ftbl f)) as [|n]; cbn [unlink_go]; [reflexivity|].
  destruct (N.leb_spec (get (ftbl f) c) (max_valid P)); [lia|]. rewrite andb_false_r. reflexivity.
Qed.

(* ---------- a new store record ---------- *)
Lemma new_dir_lives s c pc k : lives_of (new_dir s c pc) k = if k =? c then [] else lives_of s k.
Proof.
  unfold lives_of, items_of, get_dir, new_dir. cbn [v_dirs]. destruct (N.eqb_spec k c) as [->|H].
  - rewrite find_put_same. reflexivity.
  - rewrite find_put_other by exact H. reflexivity.
Qed.
Lemma new_dir_get_other s c pc k : k <> c -> get_dir (new_dir s c pc) k = get_dir s k.
Proof. intros H. unfold get_dir, new_dir. cbn [v_dirs]. rewrite find_put_other by exact H. reflexivity. Qed.
Lemma new_dir_get_same s c pc : get_dir (new_dir s c pc) c = {| d_items := []; d_dot := c; d_dotdot := pc |}.
Proof. unfold get_dir, new_dir. cbn [v_dirs]. rewrite find_put_same. reflexivity. Qed.
Lemma new_dir_keys s c pc : ~ in_store s c -> List.map fst (v_dirs (new_dir s c pc)) = List.map fst (v_dirs s) ++ [c].
Proof. intros H. unfold new_dir. cbn [v_dirs]. apply keys_put_absent, find_dir_none, H. Qed.
Lemma put_absent_app ds id d : find_dir ds id = None -> put_dir ds id d = ds ++ [(id, d)].
Proof.
  induction ds as [|[k x] r IH]; cbn; [reflexivity|]. destruct (N.eqb_spec k id); [discriminate|].
  intros H. f_equal. apply IH, H.
Qed.
Lemma new_dir_flat {A} (h : N * dirrec -> list A) s c pc : ~ in_store s c ->
  flat_map h (v_dirs (new_dir s c pc)) = flat_map h (v_dirs s) ++ h (c, {| d_items := []; d_dot := c; d_dotdot := pc |}).
Proof.
  intros H. unfold new_dir. cbn [v_dirs]. rewrite put_absent_app by (apply find_dir_none, H).
  rewrite flat_map_app. cbn [flat_map]. rewrite app_nil_r. reflexivity.
Qed.

Lemma cur_cluster_index s pr : cur_ok s pr -> r_isdir pr = true -> r_cluster pr = r_index pr.
Proof.
  destruct pr as [| |i e]; cbn; intros H D; [contradiction|reflexivity|].
  destruct H as (k & _ & ->). rewrite D. reflexivity.
Qed.

(* the successful case: entry e (a directory entry naming the fresh cluster c) appended to pidx,
   record c added *)
Lemma add_dir_inv s pidx e c rest l' f2 :
  VolInv s -> in_store s pidx ->
  free_scan P (ftbl (v_fat s)) (vp_limit V) (hint_of (v_fat s)) = c :: rest ->
  is_dir e = true -> e_clu e = c -> e_size e = 0 -> fresh_names upper (lives_of s pidx) e ->
  lives l' = lives_of s pidx ++ [e] ->
  FInv V f2 (dir_start V pidx :: c :: fclus (lives_of s pidx) ++ rest_owners V s pidx) ->
  (forall o, In o (c :: fclus (lives_of s pidx) ++ rest_owners V s pidx) -> chn V f2 o = chn V (mark_end P (v_fat s) c) o) ->
  VolInv (new_dir (set_fat (set_items s pidx l') f2) c pidx).
Proof.
  intros I Ip Fs Hd Ec Ez Fr Ll Fi Same.
  destruct (FInv_alloc V (LIM V PW) (v_fat s) (owners V s) c rest (vi_fat _ _ _ I) Fs) as (_ & Same1 & Own1 & Rc & Nin).
  assert (Cn : c <> 0) by (destruct Rc as [R1 _]; destruct (POK V) as (Pm & _); lia).
  assert (Nst : ~ in_store s c).
  { intros H. apply Nin. apply in_flat_map. exists (dir_start V c). split; [apply (In_owners_dir V s c H)|].
    unfold dir_start. destruct (N.eqb_spec c 0); [contradiction|]. destruct (chn_ne V (v_fat s) c Rc) as (r & ->). left. reflexivity. }
  assert (Ncp : c <> pidx) by (intros ->; contradiction).
  set (s1 := set_fat (set_items s pidx l') f2). set (s' := new_dir s1 c pidx).
  assert (K1 : List.map fst (v_dirs s1) = List.map fst (v_dirs s)) by apply (set_items_keys s pidx l' Ip).
  assert (Nst1 : ~ in_store s1 c) by (unfold in_store; rewrite K1; exact Nst).
  assert (IS : forall x, in_store s' x <-> in_store s x \/ x = c).
  { intros x. unfold in_store, s'. rewrite (new_dir_keys s1 c pidx Nst1), K1, in_app_iff. cbn [In]. intuition. }
  assert (LO : forall x, x <> c -> x <> pidx -> lives_of s' x = lives_of s x).
  { intros x H1 H2. unfold s'. rewrite new_dir_lives. destruct (N.eqb_spec x c); [contradiction|].
    apply (set_items_lives_other s pidx l' x H2). }
  assert (LP : lives_of s' pidx = lives_of s pidx ++ [e]).
  { unfold s'. rewrite new_dir_lives. destruct (N.eqb_spec pidx c); [congruence|].
    rewrite <- Ll. apply (set_items_lives_same s pidx l'). }
  assert (LC : lives_of s' c = []) by (unfold s'; rewrite new_dir_lives, N.eqb_refl; reflexivity).
  assert (Sub : forall x y, In y (lives_of s' x) -> (In y (lives_of s x) /\ x <> c) \/ (x = pidx /\ y = e)).
  { intros x y Hy. destruct (N.eq_dec x c) as [->|H1]; [rewrite LC in Hy; destruct Hy|].
    destruct (N.eq_dec x pidx) as [->|H2].
    - rewrite LP in Hy. apply in_app_or in Hy. destruct Hy as [Hy|[<-|[]]]; [left; auto|right; auto].
    - rewrite (LO x H1 H2) in Hy. left. auto. }
  assert (GD : forall x, x <> c -> get_dir s' x = get_dir s1 x) by (intros x Hx; apply new_dir_get_other, Hx).
  assert (OldNotC : forall x y, In y (lives_of s x) -> is_dir y = true -> e_clu y <> c).
  { intros x y Hy Hdy E. apply Nst. rewrite <- E. apply (vi_subdirs _ _ _ I x y Hy Hdy). }
  assert (Pown : Permutation (owners V s') (dir_start V pidx :: c :: fclus (lives_of s pidx) ++ rest_owners V s pidx)).
  { unfold owners, s'. rewrite (new_dir_flat (dir_owners V) s1 c pidx Nst1). unfold dir_owners at 2. cbn [fst snd d_items lives fclus flat_map].
    assert (Ds : dir_start V c = c) by (unfold dir_start; destruct (N.eqb_spec c 0); [contradiction|reflexivity]). rewrite Ds.
    destruct (owners_set_items V s pidx l' Ip) as (_ & P2). rewrite Ll, fclus_app in P2.
    replace (fclus [e]) with (@nil N) in P2 by (unfold fclus, own_of; cbn [flat_map]; rewrite Hd; reflexivity).
    rewrite app_nil_r in P2. eapply perm_trans; [apply Permutation_app_tail, P2|].
    eapply perm_trans; [apply Permutation_app_comm|]. cbn [app]. apply perm_swap. }
  constructor.
  - apply (FInv_perm V _ _ _ (Permutation_sym Pown)). exact Fi.
  - unfold s'. rewrite (new_dir_keys s1 c pidx Nst1), K1. apply NoDup_app_intro; [apply I|constructor; [intros []|constructor]|].
    intros x Hx [<-|[]]. exact (Nst Hx).
  - apply IS. left. apply I.
  - intros x Hx Hn. apply IS in Hx. destruct Hx as [Hx| ->]; [apply (vi_keyrange _ _ _ I x Hx Hn)|].
    split; [exact Rc|]. intros E. apply Nin. apply in_flat_map. exists (dir_start V 0). split; [apply (In_owners_dir V s 0), I|].
    unfold dir_start. rewrite N.eqb_refl, <- E. destruct (chn_ne V (v_fat s) c Rc) as (r & ->). left. reflexivity.
  - intros x y Hy Hdy. destruct (Sub x y Hy) as [[Hy' Hx]|[-> ->]]; [|congruence].
    apply file_ok_same with (f := v_fat s); [|apply (vi_files _ _ _ I x y Hy' Hdy)].
    assert (Ho : In (e_clu y) (fclus (lives_of s pidx) ++ rest_owners V s pidx)).
    { apply in_or_app. destruct (N.eq_dec x pidx) as [->|Hp]; [left; apply In_fclus; assumption|].
      right. apply (In_rest_owners V s pidx x y Hp Hy' Hdy). }
    change (v_fat s') with f2. rewrite (Same (e_clu y) (or_intror Ho)). apply Same1.
    destruct (owners_set_items V s pidx [] Ip) as (P1 & _). apply (Permutation_in _ (Permutation_sym P1)). right. exact Ho.
  - intros x y Hy Hdy. destruct (Sub x y Hy) as [[Hy' Hx]|[-> ->]].
    + destruct (vi_subdirs _ _ _ I x y Hy' Hdy) as (A1 & A2 & A3 & A4 & A5).
      pose proof (OldNotC x y Hy' Hdy) as Nc. rewrite (GD _ Nc). unfold s1.
      change (get_dir (set_fat (set_items s pidx l') f2) (e_clu y)) with (get_dir (set_items s pidx l') (e_clu y)).
      destruct (set_items_dots s pidx l' (e_clu y)) as [-> ->]. repeat split; try assumption. apply IS. left. exact A3.
    + rewrite Ec. unfold s'. rewrite new_dir_get_same. cbn [d_dot d_dotdot]. repeat split; try assumption. apply IS. right. reflexivity.
  - (* references *)
    assert (Pm : Permutation (dir_refs s') (c :: dir_refs s)).
    { unfold dir_refs, s'. rewrite (new_dir_flat dir_refs_of s1 c pidx Nst1). unfold dir_refs_of at 2. cbn [snd d_items lives sub_refs filter List.map].
      rewrite app_nil_r. destruct (flat_set_items sub_refs s pidx l' Ip) as (R & Q1 & Q2).
      eapply perm_trans; [exact Q2|]. rewrite Ll, sub_refs_app. unfold sub_refs at 2. cbn [filter]. rewrite Hd. cbn [List.map]. rewrite Ec.
      eapply perm_trans; [|apply perm_skip, Permutation_sym, Q1]. rewrite <- app_assoc. cbn [app]. apply Permutation_sym, Permutation_middle. }
    split.
    + apply (Permutation_NoDup (Permutation_sym Pm)). constructor; [|apply I]. intros H.
      unfold dir_refs in H. apply in_flat_map in H. destruct H as (kd & Hkd & H). unfold dir_refs_of, sub_refs in H.
      apply in_map_iff in H. destruct H as (y & Ey & Hy). apply filter_In in Hy. destruct Hy as [Hy Hdy].
      destruct (VolInv_tree upper V s I) as (depth & T). rewrite <- (lives_of_entry s depth T kd Hkd) in Hy.
      exact (OldNotC _ y Hy Hdy Ey).
    + intros x Hx Hn. apply (Permutation_in _ (Permutation_sym Pm)). apply IS in Hx. destruct Hx as [Hx| ->]; [right|left; reflexivity].
      apply (proj2 (vi_refs _ _ _ I) x Hx Hn).
  - intros x. destruct (N.eq_dec x c) as [->|H1]; [rewrite LC; split; [constructor|]; split; [constructor|]; split; [intros ? ? []|intros ? []]|].
    destruct (N.eq_dec x pidx) as [->|H2].
    + rewrite LP. apply (names_ok_app upper); [apply I|exact Fr].
    + rewrite (LO x H1 H2). apply I.
  - destruct (vi_depth _ _ _ I) as (depth & D0 & Dp).
    exists (fun x => if x =? c then S (depth pidx) else depth x). split.
    + destruct (N.eqb_spec 0 c); [congruence|exact D0].
    + intros x y Hy Hdy. destruct (Sub x y Hy) as [[Hy' Hx]|[-> ->]].
      * pose proof (OldNotC x y Hy' Hdy) as Nc. destruct (N.eqb_spec (e_clu y) c); [contradiction|].
        destruct (N.eqb_spec x c); [contradiction|]. apply Dp; assumption.
      * rewrite Ec, N.eqb_refl. destruct (N.eqb_spec pidx c); [congruence|reflexivity].
Qed.
(* everything after the checks of mkdir: allocate, store the entry, add '.' and '..' *)
Definition mkdir_tail (s : vol) (pr : rres) (nm : name) : vol * res unit :=
  match free_scan P (ftbl (v_fat s)) (vp_limit V) (hint_of (v_fat s)) with
  | [] => (s, Err OSError_ENOSPC)
  | c :: _ =>
    let s1 := set_fat s (mark_end P (v_fat s) c) in
    let x := setitem upper V s1 (r_index pr) nm 16 0 c in
    match snd x with
    | Err e => (set_fat (fst x) (mark_free (v_fat (fst x)) c), Err e)
    | Ok _ => (new_dir (fst x) c (r_cluster pr), Ok tt)
    end
  end.

Lemma mkdir_tail_spec s parts pr :
  VolInv s -> guard_create upper s parts -> resolve s parts = Ok RNone -> resolve s (parent parts) = Ok pr ->
  r_isdir pr = true ->
  let idx := r_index pr in
  let y := mkdir_tail s pr (leaf parts) in
  in_store s idx /\ VolInv (fst y) /\
  ((snd y = Err OSError_ENOSPC /\ forall k, lives_of (fst y) k = lives_of s k) \/
   (snd y = Ok tt /\ exists e c, is_dir e = true /\ e_name e = leaf parts /\ e_clu e = c /\ ~ in_store s c /\
                               lives_of (fst y) idx = lives_of s idx ++ [e] /\ lives_of (fst y) c = [] /\
                               forall k, k <> idx -> k <> c -> lives_of (fst y) k = lives_of s k)).
Proof.
  intros I G R Rp Dp idx y.
  assert (OKp : cur_ok s pr) by (apply (resolve_ok upper s _ pr Rp); destruct pr; cbn in Dp; congruence).
  pose proof (cur_dir_store upper V s pr I OKp Dp) as Ii. fold idx in Ii.
  split; [exact Ii|]. unfold y, mkdir_tail. clear y. fold idx.
  destruct (free_scan P (ftbl (v_fat s)) (vp_limit V) (hint_of (v_fat s))) as [|c rest] eqn:Fs.
  { cbn [fst snd]. split; [exact I|]. left. split; reflexivity. }
  cbn zeta.
  destruct (resolve_missing upper s parts R) as [_ [Rn|(pr' & Rp' & _ & Ln)]]; [rewrite Rn in Rp; inversion Rp; subst; discriminate|].
  assert (pr' = pr) by congruence. subst pr'. fold idx in Ln.
  destruct (G pr R Rp Dp) as (e0 & Me & Fr). fold idx in Me, Fr.
  destruct (make_entry_fields upper _ _ _ _ Me) as [En _].
  set (s1 := set_fat s (mark_end P (v_fat s) c)).
  unfold setitem. change (items_of s1 idx) with (items_of s idx). rewrite Ln, (make_entry_attr upper), Me.
  set (e := set_val 16 0 c e0).
  assert (Hd : is_dir e = true) by reflexivity. assert (Ec : e_clu e = c) by reflexivity.
  assert (Ez : e_size e = 0) by reflexivity. assert (En' : e_name e = leaf parts) by exact En.
  assert (Fr' : fresh_names upper (lives_of s idx) e) by exact Fr. clearbody e. clear Fr En.
  destruct (FInv_alloc V (LIM V PW) (v_fat s) (owners V s) c rest (vi_fat _ _ _ I) Fs) as (Fi1 & Same1 & Own1 & Rc & Nin).
  destruct (owners_set_items V s idx [] Ii) as (P1 & _).
  set (O' := c :: fclus (lives_of s idx) ++ rest_owners V s idx).
  assert (Fi1' : FInv V (v_fat s1) (dir_start V idx :: O')).
  { apply (FInv_perm V _ (c :: owners V s)); [|exact Fi1]. unfold O'. eapply perm_trans; [apply perm_skip, P1|]. apply perm_swap. }
  destruct (dir_append_shape V PW s1 idx e O' Fi1' (dir_growable upper V PW s idx I Ii)) as (f2 & l' & Efst & Fi2 & Same2 & Cases).
  change (lives_of s1 idx) with (lives_of s idx) in Cases.
  change (set_fat (set_items s1 idx l') f2) with (set_fat (set_items s idx l') f2) in Efst.
  rewrite Efst. destruct Cases as [[Eo Ll]|[Eo Ll]]; rewrite Eo.
  - (* stored *)
    cbn [fst snd]. rewrite (cur_cluster_index s pr OKp Dp). fold idx. split.
    + apply (add_dir_inv s idx e c rest l' f2 I Ii Fs Hd Ec Ez Fr' Ll Fi2). intros o Ho. apply Same2, Ho.
    + right. split; [reflexivity|]. exists e, c.
      assert (Nst : ~ in_store s c).
      { intros H. apply Nin. apply in_flat_map. exists (dir_start V c). split; [apply (In_owners_dir V s c H)|].
        assert (Cn : c <> 0) by (destruct Rc as [R1 _]; destruct (POK V) as (Pm & _); lia).
        unfold dir_start. destruct (N.eqb_spec c 0); [contradiction|]. destruct (chn_ne V (v_fat s) c Rc) as (r & ->). left. reflexivity. }
      assert (Ncp : idx <> c) by (intros E; apply Nst; rewrite <- E; exact Ii).
      repeat (split; [assumption|]). split; [|split].
      * rewrite new_dir_lives. destruct (N.eqb_spec idx c); [contradiction|]. rewrite <- Ll. apply (set_items_lives_same s idx l').
      * rewrite new_dir_lives, N.eqb_refl. reflexivity.
      * intros k H1 H2. rewrite new_dir_lives. destruct (N.eqb_spec k c); [contradiction|]. apply (set_items_lives_other s idx l' k H1).
  - (* no room for the entry: the cluster is released *)
    cbn [fst snd set_fat v_fat].
    change (set_fat (set_fat (set_items s idx l') f2) (mark_free f2 c)) with (set_fat (set_items s idx l') (mark_free f2 c)).
    assert (W2 : chain_wf P (vp_limit V) (ftbl f2) (chn V f2 c)) by (apply (fi_wf _ _ _ Fi2); right; left; reflexivity).
    assert (E2 : chn V f2 c = [c]) by (rewrite (Same2 c (or_introl eq_refl)); exact Own1).
    assert (End2 : max_valid P < get (ftbl f2) c) by (rewrite E2 in W2; apply (cw_ended _ _ _ _ W2)).
    rewrite <- (unlink_single f2 c Rc End2).
    assert (Fi2' : FInv V f2 (c :: dir_start V idx :: fclus (lives_of s idx) ++ rest_owners V s idx))
      by (apply (FInv_perm V _ _ _ (perm_swap _ _ _)), Fi2).
    destruct (FInv_free V f2 c _ Fi2') as [Fi3 Same3]; [rewrite E2; discriminate|].
    assert (Inv : VolInv (set_fat (set_items s idx l') (unlink_chain P f2 c))).
    { apply (VolInv_files_update upper V s idx l' _ I Ii).
      - rewrite Ll. reflexivity.
      - rewrite Ll. apply I.
      - destruct (owners_set_items V s idx l' Ii) as (_ & P2). rewrite Ll in P2.
        apply (FInv_perm V _ _ _ (Permutation_sym P2)). exact Fi3.
      - intros k e' He' Hd'.
        assert (He'' : In e' (lives_of s k)).
        { destruct (N.eq_dec k idx) as [->|Hk]; [rewrite set_items_lives_same, Ll in He'; exact He'|].
          rewrite set_items_lives_other in He' by exact Hk. exact He'. }
        apply file_ok_same with (f := v_fat s); [|apply (vi_files _ _ _ I k e' He'' Hd')].
        assert (Ho : In (e_clu e') (fclus (lives_of s idx) ++ rest_owners V s idx)).
        { apply in_or_app. destruct (N.eq_dec k idx) as [->|Hp]; [left; apply In_fclus; assumption|].
          right. apply (In_rest_owners V s idx k e' Hp He'' Hd'). }
        rewrite (Same3 _ (or_intror Ho)), (Same2 _ (or_intror Ho)). apply Same1.
        apply (Permutation_in _ (Permutation_sym P1)). right. exact Ho. }
    split; [exact Inv|]. left. split; [reflexivity|]. intros k.
    change (lives_of (set_fat (set_items s idx l') (unlink_chain P f2 c)) k) with (lives_of (set_items s idx l') k).
    destruct (N.eq_dec k idx) as [->|Hk]; [rewrite set_items_lives_same; exact Ll|apply set_items_lives_other, Hk].
Qed.

Lemma mkdir_unfold s parts :
  mkdir s parts =
  if negb (valid_parts parts) then (s, Err ValueError) else
  match resolve s parts with
  | Err x => (s, Err x)
  | Ok r =>
    if r_exists r then (s, Err FileExists) else
    match resolve s (parent parts) with
    | Err x => (s, Err x)
    | Ok pr =>
      if negb (r_exists pr) then (s, Err FileNotFound)
      else if negb (r_isdir pr) then (s, Err NotADirectory)
      else match Model.make_entry upper (r_index pr) (items_of s (r_index pr)) (leaf parts) 16 0 with
           | Err e => (s, Err e)
           | Ok _ => mkdir_tail s pr (leaf parts)
           end
    end
  end.
Proof.
  unfold Model.mkdir, mkdir_tail. destruct (negb (valid_parts parts)); [reflexivity|].
  destruct (resolve s parts) as [r|x]; [|reflexivity]. destruct (r_exists r); [reflexivity|].
  destruct (resolve s (parent parts)) as [pr|x]; [|reflexivity].
  destruct (negb (r_exists pr)); [reflexivity|]. destruct (negb (r_isdir pr)); [reflexivity|].
  destruct (Model.make_entry upper (r_index pr) (items_of s (r_index pr)) (leaf parts) 16 0); reflexivity.
Qed.
(* under the creation guard the name check of mkdir passes *)
Lemma guard_names_ok s parts pr : guard_create upper s parts -> resolve s parts = Ok RNone ->
  resolve s (parent parts) = Ok pr -> r_isdir pr = true ->
  exists e, Model.make_entry upper (r_index pr) (items_of s (r_index pr)) (leaf parts) 16 0 = Ok e.
Proof.
  intros G R Rp Dp. destruct (G pr R Rp Dp) as (e0 & Me & _). rewrite (make_entry_attr upper), Me. eexists; reflexivity.
Qed.

Theorem mkdir_inv s parts : VolInv s -> guard_create upper s parts -> VolInv (fst (mkdir s parts)).
Proof.
  intros I G. rewrite mkdir_unfold. destruct (valid_parts parts); [|exact I]. cbn [negb].
  destruct (resolve s parts) as [r|x] eqn:R; [|exact I]. destruct r as [| |i e]; try exact I. cbn [r_exists].
  destruct (resolve s (parent parts)) as [pr|x] eqn:Rp; [|exact I].
  destruct (r_exists pr); [|exact I]. cbn [negb]. destruct (r_isdir pr) eqn:Dp; [|exact I]. cbn [negb].
  destruct (guard_names_ok s parts pr G R Rp Dp) as (e1 & ->).
  apply (mkdir_tail_spec s parts pr I G R Rp Dp).
Qed.

Theorem mkdir_refines s parts :
  VolInv s -> tilde_free upper parts -> guard_create upper s parts ->
  snd (mkdir s parts) <> Err OSError_ENOSPC ->
  Spec.spec_mkdir upper (abs_tree s) parts = (abs_tree (fst (mkdir s parts)), snd (mkdir s parts)).
Proof.
  intros I TF G NE. pose proof (mkdir_inv s parts I G) as I'.
  destruct (VolInv_tree upper V s I) as (depth & T). destruct (VolInv_tree upper V _ I') as (depth' & T').
  rewrite mkdir_unfold in *. unfold Spec.spec_mkdir. destruct (valid_parts parts); [|reflexivity]. cbn [negb] in *.
  pose proof (walk_abs upper s depth T (vi_names _ _ _ I) parts TF RRoot Logic.I) as WA.
  cbn [cur_node] in WA. fold (resolve s parts) in WA. rewrite <- (abs_tree_A s) in WA.
  destruct (resolve s parts) as [r|x] eqn:R.
  2:{ destruct WA as [-> ->]. reflexivity. }
  destruct r as [| |idx e]; [|destruct WA as (_ & -> & _); reflexivity|destruct WA as (_ & -> & _); reflexivity].
  rewrite WA. cbn [r_exists] in *.
  destruct (parent_tf upper parts (resolve_nonroot upper s parts _ R ltac:(discriminate)) TF) as [TFp Hleaf].
  pose proof (walk_abs upper s depth T (vi_names _ _ _ I) (parent parts) TFp RRoot Logic.I) as WP.
  cbn [cur_node] in WP. fold (resolve s (parent parts)) in WP. rewrite <- (abs_tree_A s) in WP.
  destruct (resolve s (parent parts)) as [pr|x] eqn:Rp; [|destruct WP as [-> ->]; reflexivity].
  assert (Hnode : forall Dp : r_isdir pr = true,
            twalk upper (abs_tree s) (parent parts) = Ok (Some (Dir (kids_of s (r_index pr))))).
  { intros Dp. destruct pr as [| |pi pe]; [discriminate| |]; destruct WP as (_ & -> & _); cbn [cur_node r_index].
    - rewrite (abs_unfold s depth T). reflexivity.
    - unfold ProofsTree.node_of. cbn in Dp. rewrite Dp.
      assert (OKp : cur_ok s (RFound pi pe)) by (apply (resolve_ok upper s _ _ Rp); discriminate).
      destruct OKp as (k & _ & ->). rewrite Dp. rewrite (abs_unfold s depth T). reflexivity. }
  destruct pr as [| |pi pe].
  - rewrite WP. reflexivity.
  - cbn [r_exists r_isdir negb] in *. rewrite (Hnode eq_refl).
    destruct (guard_names_ok s parts RRoot G R Rp eq_refl) as (e1 & Me1). rewrite Me1 in *.
    destruct (mkdir_tail_spec s parts RRoot I G R Rp eq_refl) as (Ii & _ & Cases). cbn zeta in Cases.
    destruct Cases as [[Eo _]|(Eo & e' & c & Hd & En & Ec & Nst & Ll & Lc & Lo)]; [exfalso; apply NE; exact Eo|].
    rewrite Eo. f_equal. rewrite !abs_tree_A. symmetry.
    apply (abs_mod upper s depth _ depth' (fun ch => ch ++ [(leaf parts, Dir [])]) (r_index RRoot) T T' (vi_names _ _ _ I))
      with (cur := RRoot) (r := RRoot); try assumption; try reflexivity.
    + intros x Hx Nd. apply Lo; [intros ->; apply Nd, desc_refl|intros ->; contradiction].
    + rewrite (abs_unfold _ depth' T'). f_equal. unfold kids_of. rewrite Ll, map_app. cbn [List.map]. f_equal.
      * apply map_ext_in. intros x Hx. f_equal.
        apply (kids_same s depth _ depth' (r_index RRoot) T T' Ii); [|exact Hx].
        intros y Hy Hn. apply Lo; [exact Hn|intros ->; contradiction].
      * unfold ProofsTree.node_of. rewrite Hd, En, Ec, (abs_unfold _ depth' T'). unfold kids_of. rewrite Lc. reflexivity.
  - cbn [r_exists r_isdir negb] in *. destruct (is_dir pe) eqn:Dpe; cbn [negb] in *.
    2:{ destruct WP as (_ & -> & _). cbn [cur_node]. unfold ProofsTree.node_of. rewrite Dpe. reflexivity. }
    rewrite (Hnode eq_refl).
    destruct (guard_names_ok s parts (RFound pi pe) G R Rp Dpe) as (e1 & Me1). rewrite Me1 in *.
    destruct (mkdir_tail_spec s parts (RFound pi pe) I G R Rp Dpe) as (Ii & _ & Cases). cbn zeta in Cases.
    destruct Cases as [[Eo _]|(Eo & e' & c & Hd & En & Ec & Nst & Ll & Lc & Lo)]; [exfalso; apply NE; exact Eo|].
    rewrite Eo. f_equal. rewrite !abs_tree_A. symmetry.
    apply (abs_mod upper s depth _ depth' (fun ch => ch ++ [(leaf parts, Dir [])]) (r_index (RFound pi pe)) T T' (vi_names _ _ _ I))
      with (cur := RRoot) (r := RFound pi pe); try assumption; try reflexivity.
    + intros x Hx Nd. apply Lo; [intros ->; apply Nd, desc_refl|intros ->; contradiction].
    + rewrite (abs_unfold _ depth' T'). f_equal. unfold kids_of. rewrite Ll, map_app. cbn [List.map]. f_equal.
      * apply map_ext_in. intros x Hx. f_equal.
        apply (kids_same s depth _ depth' (r_index (RFound pi pe)) T T' Ii); [|exact Hx].
        intros y Hy Hn. apply Lo; [exact Hn|intros ->; contradiction].
      * unfold ProofsTree.node_of. rewrite Hd, En, Ec, (abs_unfold _ depth' T'). unfold kids_of. rewrite Lc. reflexivity.
Qed.
End Mkdir.
