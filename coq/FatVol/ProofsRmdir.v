(* FatPath.rmdir: invariant and refinement. *)
From Coq Require Import List NArith Bool Lia Arith Permutation.
From NV Require Import Lib.Res FatAlloc.Model FatAlloc.ProofsBase.
From NV Require Import FatVol.Model FatVol.Spec FatVol.ProofsBase FatVol.ProofsFat FatVol.ProofsInv
     FatVol.ProofsTree FatVol.ProofsWalk FatVol.ProofsOps FatVol.ProofsFatOps FatVol.ProofsUnlink.
Import ListNotations.
Open Scope N_scope.

Section Rmdir.
Variable upper : name -> name.
Variable V : vparams.
Hypothesis PW : params_wf V.
Notation P := (PP V).
Notation VolInv := (VolInv upper V).
Notation rmdir := (Model.rmdir upper V).
Notation resolve := (Model.resolve upper).

(* ---------- dropping a store record ---------- *)
Lemma drop_lives_other s c k : k <> c -> lives_of (drop s c) k = lives_of s k.
Proof. intros H. unfold lives_of, items_of, get_dir, drop. cbn [v_dirs]. rewrite find_drop_other by exact H. reflexivity. Qed.
Lemma drop_get_dir_other s c k : k <> c -> get_dir (drop s c) k = get_dir s k.
Proof. intros H. unfold get_dir, drop. cbn [v_dirs]. rewrite find_drop_other by exact H. reflexivity. Qed.
Lemma drop_lives_same s c : NoDup (List.map fst (v_dirs s)) -> lives_of (drop s c) c = [].
Proof. intros N. unfold lives_of, items_of, get_dir, drop. cbn [v_dirs]. rewrite find_drop_same by exact N. reflexivity. Qed.
Lemma drop_in_store s c k : NoDup (List.map fst (v_dirs s)) -> (in_store (drop s c) k <-> in_store s k /\ k <> c).
Proof.
  intros N. rewrite !in_store_find. unfold drop. cbn [v_dirs]. split.
  - intros (d & H). destruct (N.eq_dec k c) as [->|Hk]; [rewrite find_drop_same in H by exact N; discriminate|].
    rewrite find_drop_other in H by exact Hk. split; [exists d; exact H|exact Hk].
  - intros [(d & H) Hk]. exists d. rewrite find_drop_other by exact Hk. exact H.
Qed.

(* removing the entry of an EMPTY sub-directory c from pidx, freeing its chain, dropping it *)
Lemma remove_dir_inv s pidx k l1 e l2 :
  VolInv s -> in_store s pidx -> is_dir e = true -> lives_of s (e_clu e) = [] ->
  lives_of s pidx = l1 ++ e :: l2 -> lives (del_item upper k (items_of s pidx)) = l1 ++ l2 ->
  VolInv (drop (free_chain V (set_items s pidx (del_item upper k (items_of s pidx))) (e_clu e)) (e_clu e)).
Proof.
  intros I Ip Hd Emp EL D. set (c := e_clu e) in *. set (l' := del_item upper k (items_of s pidx)) in *.
  assert (He : In e (lives_of s pidx)) by (rewrite EL; apply in_mid; left; reflexivity).
  destruct (vi_subdirs _ _ _ I pidx e He Hd) as (Cn & _ & Ic & _ & Dd). fold c in Cn, Ic, Dd.
  destruct (vi_keyrange _ _ _ I c Ic Cn) as [Rc _].
  assert (Ncp : c <> pidx).
  { intros E. rewrite E in Emp. rewrite Emp in He. destruct He. }
  set (s1 := set_items s pidx l').
  set (f' := unlink_chain P (v_fat s) c).
  change (drop (free_chain V s1 c) c) with (drop (set_fat s1 f') c). set (s' := drop (set_fat s1 f') c).
  assert (K1 : List.map fst (v_dirs s1) = List.map fst (v_dirs s)) by apply (set_items_keys s pidx l' Ip).
  assert (N1 : NoDup (List.map fst (v_dirs (set_fat s1 f')))) by (cbn [set_fat v_dirs]; rewrite K1; apply I).
  assert (IS : forall x, in_store s' x <-> in_store s x /\ x <> c).
  { intros x. unfold s'. rewrite (drop_in_store _ c x N1). unfold in_store. cbn [set_fat v_dirs]. rewrite K1. tauto. }
  assert (LO : forall x, x <> c -> x <> pidx -> lives_of s' x = lives_of s x).
  { intros x H1 H2. unfold s'. rewrite drop_lives_other by exact H1.
    change (lives_of (set_fat s1 f') x) with (lives_of s1 x). apply (set_items_lives_other s pidx l' x H2). }
  assert (LP : lives_of s' pidx = l1 ++ l2).
  { unfold s'. rewrite drop_lives_other by congruence. change (lives_of (set_fat s1 f') pidx) with (lives_of s1 pidx).
    unfold s1. rewrite set_items_lives_same. exact D. }
  assert (LC : lives_of s' c = []) by (apply drop_lives_same; exact N1).
  assert (Sub : forall x y, In y (lives_of s' x) -> In y (lives_of s x) /\ x <> c /\ (x = pidx -> In y (l1 ++ l2))).
  { intros x y Hy. destruct (N.eq_dec x c) as [->|H1]; [rewrite LC in Hy; destruct Hy|].
    destruct (N.eq_dec x pidx) as [->|H2].
    - rewrite LP in Hy. split; [rewrite EL; apply in_mid; right; exact Hy|]. split; [exact H1|intros _; exact Hy].
    - rewrite (LO x H1 H2) in Hy. split; [exact Hy|]. split; [exact H1|congruence]. }
  assert (GD : forall x, x <> c -> d_dot (get_dir s' x) = d_dot (get_dir s x) /\ d_dotdot (get_dir s' x) = d_dotdot (get_dir s x)).
  { intros x Hx. unfold s'. rewrite drop_get_dir_other by exact Hx. change (get_dir (set_fat s1 f') x) with (get_dir s1 x).
    apply (set_items_dots s pidx l' x). }
  (* sub-directory references: c leaves *)
  assert (Fc : exists dc, find_dir (v_dirs s1) c = Some dc /\ lives (d_items dc) = []).
  { assert (H : in_store s1 c) by (apply (set_items_in_store s pidx l' c Ip); exact Ic).
    apply in_store_find in H. destruct H as (dc & H). exists dc. split; [exact H|].
    pose proof (set_items_lives_other s pidx l' c Ncp) as X. fold s1 in X. rewrite Emp in X.
    unfold lives_of, items_of in X. rewrite (get_dir_find _ _ _ H) in X. exact X. }
  destruct Fc as (dc & Fc & Ldc).
  assert (NotRef : forall x y, In y (lives_of s' x) -> is_dir y = true -> e_clu y <> c).
  { intros x y Hy Hdy. destruct (Sub x y Hy) as (Hy' & Hxc & Hp).
    pose proof (sub_refs_nodup s) as _.
    intros E. destruct (vi_subdirs _ _ _ I x y Hy' Hdy) as (_ & _ & _ & _ & Ddy). rewrite E, Dd in Ddy. subst x.
    specialize (Hp eq_refl).
    destruct (VolInv_tree upper V s I) as (depth & T).
    pose proof (sub_refs_nodup s depth T pidx) as N. rewrite EL in N.
    apply (Permutation_NoDup (sub_refs_mid l1 e l2)) in N. rewrite Hd in N. cbn [app] in N.
    inversion N as [|? ? Nin _]; subst. apply Nin. unfold sub_refs. apply in_map_iff. exists y.
    split; [exact E|]. apply filter_In. split; assumption. }
  constructor.
  - (* FAT *)
    destruct (owners_set_items V s pidx l' Ip) as (P1 & P2). rewrite EL in P1. rewrite D in P2. fold s1 in P2.
    assert (Pm0 : Permutation (owners V s) (owners V s1)).
    { eapply perm_trans; [exact P1|]. apply Permutation_sym. eapply perm_trans; [exact P2|]. apply perm_skip.
      apply Permutation_app_tail. apply Permutation_sym. eapply perm_trans; [apply fclus_mid|].
      unfold own_of. rewrite Hd. apply Permutation_refl. }
    pose proof (flat_split (dir_owners V) _ _ _ Fc) as Pm1. unfold dir_owners at 2 in Pm1. cbn [fst snd] in Pm1.
    rewrite Ldc in Pm1. cbn [fclus flat_map app] in Pm1.
    assert (Ds : dir_start V c = c) by (unfold dir_start; destruct (N.eqb_spec c 0); [contradiction|reflexivity]).
    rewrite Ds in Pm1.
    assert (FI : FInv V (v_fat s) (c :: owners V s')) by (apply (FInv_perm V _ _ _ (perm_trans Pm0 Pm1)), I).
    apply (FInv_free V (v_fat s) c (owners V s') FI).
    intros E. destruct (chn_ne V (v_fat s) c Rc) as (r & Er). congruence.
  - apply (keys_drop_nodup _ c N1).
  - apply IS. split; [apply I|congruence].
  - intros x Hx Hn. apply (vi_keyrange _ _ _ I x); [apply IS, Hx|exact Hn].
  - intros x y Hy Hdy. destruct (Sub x y Hy) as (Hy' & _ & _).
    apply file_ok_same with (f := v_fat s); [|apply (vi_files _ _ _ I x y Hy' Hdy)].
    (* the chain of y is not the freed one *)
    destruct (owners_set_items V s pidx l' Ip) as (P1 & P2). rewrite EL in P1. rewrite D in P2. fold s1 in P2.
    assert (Pm0 : Permutation (owners V s) (owners V s1)).
    { eapply perm_trans; [exact P1|]. apply Permutation_sym. eapply perm_trans; [exact P2|]. apply perm_skip.
      apply Permutation_app_tail. apply Permutation_sym. eapply perm_trans; [apply fclus_mid|].
      unfold own_of. rewrite Hd. apply Permutation_refl. }
    pose proof (flat_split (dir_owners V) _ _ _ Fc) as Pm1. unfold dir_owners at 2 in Pm1. cbn [fst snd] in Pm1.
    rewrite Ldc in Pm1. cbn [fclus flat_map app] in Pm1.
    assert (Ds : dir_start V c = c) by (unfold dir_start; destruct (N.eqb_spec c 0); [contradiction|reflexivity]).
    rewrite Ds in Pm1.
    assert (FI : FInv V (v_fat s) (c :: owners V s')) by (apply (FInv_perm V _ _ _ (perm_trans Pm0 Pm1)), I).
    destruct (FInv_free V (v_fat s) c (owners V s') FI) as [_ Same].
    { intros E. destruct (chn_ne V (v_fat s) c Rc) as (r & Er). congruence. }
    apply Same. apply (In_owners V s' x y Hy Hdy).
  - intros x y Hy Hdy. destruct (Sub x y Hy) as (Hy' & Hxc & _).
    destruct (vi_subdirs _ _ _ I x y Hy' Hdy) as (A1 & A2 & A3 & A4 & A5).
    pose proof (NotRef x y Hy Hdy) as Nc. destruct (GD (e_clu y) Nc) as [-> ->].
    repeat split; try assumption. apply IS. split; assumption.
  - (* references *)
    destruct (flat_set_items sub_refs s pidx l' Ip) as (R & Q1 & Q2). rewrite EL in Q1. rewrite D in Q2. fold s1 in Q2.
    pose proof (flat_split dir_refs_of _ _ _ Fc) as Q3. unfold dir_refs_of at 2 in Q3. cbn [snd] in Q3.
    rewrite Ldc in Q3. cbn [sub_refs filter List.map app] in Q3.
    assert (Pm : Permutation (dir_refs s) (c :: dir_refs s')).
    { eapply perm_trans; [exact Q1|]. eapply perm_trans; [apply Permutation_app_tail, sub_refs_mid|].
      rewrite Hd. cbn [app]. fold c. apply perm_skip. eapply perm_trans; [apply Permutation_sym, Q2|]. exact Q3. }
    pose proof (Permutation_NoDup Pm (proj1 (vi_refs _ _ _ I))) as N. inversion N as [|? ? Nin N']; subst.
    split; [exact N'|]. intros x Hx Hn. apply IS in Hx. destruct Hx as [Hx Hxc].
    pose proof (Permutation_in _ Pm (proj2 (vi_refs _ _ _ I) x Hx Hn)) as H. destruct H as [H|H]; [congruence|exact H].
  - intros x. destruct (N.eq_dec x c) as [->|H1]; [rewrite LC; split; [constructor|]; split; [constructor|]; split; [intros ? ? []|intros ? []]|].
    destruct (N.eq_dec x pidx) as [->|H2].
    + rewrite LP. apply (names_ok_remove upper l1 e l2). rewrite <- EL. apply I.
    + rewrite (LO x H1 H2). apply I.
  - destruct (vi_depth _ _ _ I) as (depth & D0 & Dp). exists depth. split; [exact D0|].
    intros x y Hy Hdy. destruct (Sub x y Hy) as (Hy' & _ & _). apply Dp; assumption.
Qed.
Theorem rmdir_inv s parts : VolInv s -> VolInv (fst (rmdir s parts)).
Proof.
  intros I. unfold Model.rmdir. destruct (valid_parts parts); [|exact I]. cbn [negb].
  destruct (resolve s parts) as [r|x] eqn:R; [|exact I].
  destruct (r_exists r) eqn:Ex; [|exact I]. cbn [negb]. destruct (r_isdir r) eqn:D; [|exact I]. cbn [negb].
  destruct (r_cluster r =? 0) eqn:Z; [exact I|].
  destruct (lives (items_of s (r_index r))) as [|y ys] eqn:Emp; [|exact I].
  destruct r as [| |idx e]; try discriminate. cbn [r_cluster r_index r_isdir] in *.
  destruct (resolve_found upper s parts idx e R) as (pr & _ & Rp & Dp & L & Ei). rewrite D in Ei. subst idx.
  rewrite Rp. cbn [fst].
  assert (OKp : cur_ok s pr) by (apply (resolve_ok upper s _ pr Rp); destruct pr; cbn in Dp; congruence).
  pose proof (cur_dir_store upper V s pr I OKp Dp) as Ip.
  destruct (lookup_split upper _ _ _ L) as (l1 & l2 & EL & _ & _ & Dl & _).
  apply (remove_dir_inv s (r_index pr) _ l1 e l2 I Ip D Emp EL Dl).
Qed.

Theorem rmdir_fail_unchanged s parts x : snd (rmdir s parts) = Err x -> fst (rmdir s parts) = s.
Proof.
  unfold Model.rmdir. destruct (valid_parts parts); [|reflexivity]. cbn [negb].
  destruct (resolve s parts) as [r|y]; [|reflexivity].
  destruct (r_exists r); [|reflexivity]. cbn [negb]. destruct (r_isdir r); [|reflexivity]. cbn [negb].
  destruct (r_cluster r =? 0); [reflexivity|]. destruct (lives (items_of s (r_index r))); [|reflexivity].
  destruct (resolve s (parent parts)); [|reflexivity]. cbn. discriminate.
Qed.

Theorem rmdir_refines s parts :
  VolInv s -> tilde_free upper parts ->
  Spec.spec_rmdir upper (abs_tree s) parts = (abs_tree (fst (rmdir s parts)), snd (rmdir s parts)).
Proof.
  intros I TF. pose proof (rmdir_inv s parts I) as I'.
  destruct (VolInv_tree upper V s I) as (depth & T).
  unfold Spec.spec_rmdir, Model.rmdir in *. destruct (valid_parts parts); [|reflexivity]. cbn [negb] in *.
  pose proof (walk_abs upper s depth T (vi_names _ _ _ I) parts TF RRoot Logic.I) as WA.
  cbn [cur_node] in WA. fold (resolve s parts) in WA. rewrite <- (abs_tree_A s) in WA.
  destruct (resolve s parts) as [r|x] eqn:R.
  2:{ destruct WA as [-> ->]. reflexivity. }
  destruct r as [| |idx e].
  - rewrite WA. reflexivity.
  - destruct WA as (_ & -> & X). destruct (X eq_refl) as [_ ->]. cbn [cur_node]. rewrite (abs_unfold s depth T). reflexivity.
  - destruct WA as (_ & -> & _). cbn [cur_node r_exists r_isdir r_cluster r_index negb] in *. unfold ProofsTree.node_of.
    destruct (is_dir e) eqn:D; [|reflexivity]. cbn [negb] in *.
    destruct (resolve_found upper s parts idx e R) as (pr & Epar & Rp & Dp & L & Ei). rewrite D in Ei. subst idx.
    assert (OKp : cur_ok s pr) by (apply (resolve_ok upper s _ pr Rp); destruct pr; cbn in Dp; congruence).
    pose proof (cur_dir_store upper V s pr I OKp Dp) as Ip.
    destruct (lookup_split upper _ _ _ L) as (l1 & l2 & EL & F1 & Hh & Dl & _). fold (lives_of s (r_index pr)) in EL.
    assert (He : In e (lives_of s (r_index pr))) by (rewrite EL; apply in_mid; left; reflexivity).
    destruct (vi_subdirs _ _ _ I _ e He D) as (Cn & _ & Ic & _).
    apply N.eqb_neq in Cn. rewrite Cn in *.
    rewrite (abs_unfold s depth T). unfold kids_of. fold (lives_of s (e_clu e)) in *.
    assert (Hne : parts <> []) by (rewrite Epar; intros E; apply app_eq_nil in E; destruct E; discriminate).
    destruct parts as [|p0 ps]; [congruence|]. set (parts := p0 :: ps) in *.
    destruct (lives_of s (e_clu e)) as [|y ys] eqn:Emp; cbn [List.map]; [|reflexivity].
    rewrite Rp in *. cbn [fst snd] in *. f_equal.
    destruct (VolInv_tree upper V _ I') as (depth' & T').
    destruct (parent_tf upper parts Hne TF) as [TFp Hleaf].
    set (s' := drop (free_chain V (set_items s (r_index pr) (del_item upper (upper (leaf parts)) (items_of s (r_index pr)))) (e_clu e)) (e_clu e)) in *.
    assert (Ncp : e_clu e <> r_index pr) by (intros E; rewrite E in Emp; rewrite Emp in He; destruct He).
    assert (N1 : NoDup (List.map fst (v_dirs (free_chain V (set_items s (r_index pr) (del_item upper (upper (leaf parts)) (items_of s (r_index pr)))) (e_clu e))))).
    { cbn [free_chain set_fat v_dirs]. rewrite (set_items_keys s _ _ Ip). apply I. }
    assert (LO : forall x, x <> r_index pr -> lives_of s' x = lives_of s x).
    { intros x Hx. unfold s'. destruct (N.eq_dec x (e_clu e)) as [->|Hc].
      - rewrite (drop_lives_same _ _ N1). symmetry. exact Emp.
      - rewrite drop_lives_other by exact Hc. apply (set_items_lives_other s (r_index pr) _ x Hx). }
    assert (LS : lives_of s' (r_index pr) = l1 ++ l2).
    { unfold s'. rewrite drop_lives_other by congruence. rewrite <- Dl. apply (set_items_lives_same s (r_index pr)). }
    rewrite !abs_tree_A. symmetry.
    apply (abs_mod upper s depth s' depth' (Spec.tdel upper (upper (leaf parts))) (r_index pr) T T' (vi_names _ _ _ I))
      with (cur := RRoot) (r := pr); try assumption; try reflexivity.
    + intros x Hx Nd. apply LO. intros ->. apply Nd, desc_refl.
    + rewrite (abs_unfold s' depth' T'). f_equal. unfold kids_of. rewrite LS, EL.
      assert (Pl : plain upper (l1 ++ e :: l2) (upper (leaf parts))).
      { rewrite <- EL. apply plain_of_names; [apply I|exact Hleaf]. }
      destruct (split_plain upper l1 e l2 _ Pl F1 Hh) as [N1' Ne].
      rewrite (tdel_map_split upper (ProofsTree.node_of s) _ l1 e l2 N1' Ne).
      apply map_ext_in. intros x Hx. f_equal.
      apply (kids_same s depth s' depth' (r_index pr) T T' Ip); [intros y _ Hy; apply LO, Hy|].
      rewrite EL. apply in_mid. right. exact Hx.
Qed.
End Rmdir.
