(* rename, the two-entry surgery: the target slot takes the source's value, the source entry is
   deleted.  Entry lists are handled through [upd_first] / [del_first]; what the two set_items do
   to owners, references, names and entries, for any two distinct entries (same directory or not). *)
From Coq Require Import List NArith Bool Lia Arith Permutation.
From NV Require Import Lib.Res FatAlloc.Model FatAlloc.ProofsBase.
From NV Require Import FatVol.Model FatVol.Spec FatVol.ProofsBase FatVol.ProofsFat FatVol.ProofsInv
     FatVol.ProofsTree FatVol.ProofsWalk FatVol.ProofsOps FatVol.ProofsFatOps FatVol.ProofsFile FatVol.ProofsRenameA.
Import ListNotations.
Open Scope N_scope.

Fixpoint del_first (p : entry -> bool) (l : list entry) : list entry :=
  match l with [] => [] | x :: r => if p x then r else x :: del_first p r end.
Lemma del_first_split p l1 e l2 : Forall (fun x => p x = false) l1 -> p e = true ->
  del_first p (l1 ++ e :: l2) = l1 ++ l2.
Proof.
  intros F He. induction F as [|x l1 Hx F IH]; cbn [app del_first]; [rewrite He; reflexivity|].
  rewrite Hx. f_equal. exact IH.
Qed.
Lemma find_split_iff {A} (p : A -> bool) l e : find p l = Some e ->
  exists l1 l2, l = l1 ++ e :: l2 /\ Forall (fun x => p x = false) l1 /\ p e = true.
Proof. apply find_split. Qed.
Lemma find_upd_first p q g l y :
  (forall x, p (g x) = p x) -> find p l = Some y -> (forall x, find q l = Some x -> x <> y) ->
  find p (upd_first q g l) = Some y.
Proof.
  intros Pg. induction l as [|x r IH]; cbn [find upd_first]; [discriminate|]. intros Fp Ne.
  destruct (q x) eqn:Qx.
  - cbn [find]. rewrite Pg. destruct (p x) eqn:Px; [|exact Fp].
    inversion Fp; subst. exfalso. apply (Ne y); reflexivity.
  - cbn [find]. destruct (p x); [exact Fp|]. apply IH; assumption.
Qed.
Lemma upd_del_comm p q g l se te :
  (forall x, p (g x) = p x) -> find p l = Some se -> find q l = Some te -> se <> te ->
  del_first p (upd_first q g l) = upd_first q g (del_first p l).
Proof.
  intros Pg. induction l as [|x r IH]; cbn [find upd_first del_first]; [discriminate|]. intros Fp Fq Ne.
  destruct (p x) eqn:Px; destruct (q x) eqn:Qx.
  - exfalso. apply Ne. congruence.
  - cbn [del_first]. rewrite Px. reflexivity.
  - cbn [del_first upd_first]. rewrite Pg, Px, Qx. reflexivity.
  - cbn [del_first upd_first]. rewrite Px, Qx. f_equal. apply IH; assumption.
Qed.
Lemma del_first_app p l m x : find p l = Some x -> del_first p (l ++ m) = del_first p l ++ m.
Proof.
  induction l as [|y r IH]; cbn [find app del_first]; [discriminate|].
  destruct (p y); [reflexivity|]. intros H. cbn [app]. f_equal. apply IH, H.
Qed.
Lemma upd_first_app_last p g l e : find p l = None -> p e = true -> upd_first p g (l ++ [e]) = l ++ [g e].
Proof.
  induction l as [|y r IH]; cbn [find app upd_first]; intros H He; [rewrite He; reflexivity|].
  destruct (p y); [discriminate|]. f_equal. apply IH; assumption.
Qed.
Lemma find_app_some {A} (p : A -> bool) l m x : find p l = Some x -> find p (l ++ m) = Some x.
Proof. induction l as [|y r IH]; cbn; [discriminate|]. destruct (p y); [auto|apply IH]. Qed.
Lemma find_app_none {A} (p : A -> bool) l m : find p l = None -> find p (l ++ m) = find p m.
Proof. induction l as [|y r IH]; cbn; [reflexivity|]. destruct (p y); [discriminate|apply IH]. Qed.
Lemma In_del_first p l y : In y (del_first p l) -> In y l.
Proof.
  induction l as [|x r IH]; cbn [del_first]; [tauto|]. destruct (p x); [intros H; right; exact H|].
  intros [H|H]; [left; exact H|right; apply IH, H].
Qed.
Lemma In_upd_first p g l y : In y (upd_first p g l) -> In y l \/ exists x, find p l = Some x /\ y = g x.
Proof.
  induction l as [|x r IH]; cbn [upd_first find]; [tauto|]. destruct (p x).
  - intros [H|H]; [right; exists x; auto|left; right; exact H].
  - intros [H|H]; [left; left; exact H|]. destruct (IH H) as [H'|H']; [left; right; exact H'|right; exact H'].
Qed.

Section RenB.
Variable upper : name -> name.
Variable V : vparams.
Hypothesis PW : params_wf V.
Notation P := (PP V).
Notation VolInv := (VolInv upper V).
Notation names_ok := (names_ok upper).
Notation lookup := (Model.lookup upper).
Notation hit := (Model.hit upper).

Lemma lives_del_item k l : lives (del_item upper k l) = del_first (hit k) (lives l).
Proof.
  induction l as [|[x|] r IH]; cbn [Model.del_item lives del_first]; [reflexivity| |exact IH].
  destruct (hit k x); [rewrite lives_app, lives_repeat_dead; reflexivity|]. cbn [lives]. f_equal. exact IH.
Qed.

(* the states of the surgery *)
Definition ren1 (s0 : vol) (tidx : N) (kt : name) (se : entry) : vol :=
  set_items s0 tidx (upd_item upper kt (set_val (e_attr se) (e_size se) (e_clu se)) (items_of s0 tidx)).
Definition ren2 (s0 : vol) (sidx tidx : N) (ks kt : name) (se : entry) : vol :=
  let s1 := ren1 s0 tidx kt se in set_items s1 sidx (del_item upper ks (items_of s1 sidx)).

Section Surgery.
Variables (s0 : vol) (sidx tidx : N) (ks kt : name) (se te : entry).
Hypothesis I0 : VolInv s0.
Hypothesis Is : in_store s0 sidx.
Hypothesis It : in_store s0 tidx.
Hypothesis Ls : lookup ks (items_of s0 sidx) = Some se.
Hypothesis Lt : lookup kt (items_of s0 tidx) = Some te.
Hypothesis Dt : is_dir te = false.
Hypothesis Ne : ~ (sidx = tidx /\ se = te).
Let g := set_val (e_attr se) (e_size se) (e_clu se).
Let te' := g te.
Let s1 := ren1 s0 tidx kt se.
Let s2 := ren2 s0 sidx tidx ks kt se.

Lemma g_hit k x : hit k (g x) = hit k x.
Proof. reflexivity. Qed.

Lemma ren1_lives k : lives_of s1 k = if k =? tidx then upd_first (hit kt) g (lives_of s0 k) else lives_of s0 k.
Proof.
  unfold s1, ren1. destruct (N.eqb_spec k tidx) as [->|H].
  - rewrite set_items_lives_same. apply (lives_upd_item upper).
  - apply set_items_lives_other, H.
Qed.
Lemma ren1_in_store k : in_store s1 k <-> in_store s0 k.
Proof. apply (set_items_in_store s0 tidx _ k It). Qed.
Lemma ren2_in_store k : in_store s2 k <-> in_store s0 k.
Proof.
  unfold s2, ren2. fold s1. rewrite (set_items_in_store s1 sidx _ k (proj2 (ren1_in_store sidx) Is)). apply ren1_in_store.
Qed.
Lemma ren2_lives k : lives_of s2 k = if k =? sidx then del_first (hit ks) (lives_of s1 k) else lives_of s1 k.
Proof.
  unfold s2, ren2. fold s1. destruct (N.eqb_spec k sidx) as [->|H].
  - rewrite set_items_lives_same. apply lives_del_item.
  - apply set_items_lives_other, H.
Qed.
Lemma ren_dots k : d_dot (get_dir s2 k) = d_dot (get_dir s0 k) /\ d_dotdot (get_dir s2 k) = d_dotdot (get_dir s0 k).
Proof.
  unfold s2, ren2. fold s1. destruct (set_items_dots s1 sidx (del_item upper ks (items_of s1 sidx)) k) as [-> ->].
  apply (set_items_dots s0 tidx _ k).
Qed.

Lemma find_s : find (hit ks) (lives_of s0 sidx) = Some se.
Proof. unfold lives_of. rewrite <- lookup_lives. exact Ls. Qed.
Lemma find_t : find (hit kt) (lives_of s0 tidx) = Some te.
Proof. unfold lives_of. rewrite <- lookup_lives. exact Lt. Qed.
(* the source entry is still the first answer to its key after the update of the target slot *)
Lemma find_s1 : find (hit ks) (lives_of s1 sidx) = Some se.
Proof.
  rewrite ren1_lives. destruct (N.eqb_spec sidx tidx) as [E|E]; [|exact find_s].
  apply find_upd_first; [intros x; apply g_hit|exact find_s|].
  intros x Hx E'. subst x. apply Ne. split; [exact E|]. rewrite E in Hx. rewrite find_t in Hx. congruence.
Qed.

(* splits *)
Lemma split_t : exists t1 t2, lives_of s0 tidx = t1 ++ te :: t2 /\ lives_of s1 tidx = t1 ++ te' :: t2.
Proof.
  destruct (find_split _ _ _ find_t) as (t1 & t2 & E & F & H). exists t1, t2. split; [exact E|].
  rewrite ren1_lives, N.eqb_refl, E. apply upd_first_split; assumption.
Qed.
Lemma split_s : exists a b, lives_of s1 sidx = a ++ se :: b /\ lives_of s2 sidx = a ++ b.
Proof.
  destruct (find_split _ _ _ find_s1) as (a & b & E & F & H). exists a, b. split; [exact E|].
  rewrite ren2_lives, N.eqb_refl, E. apply del_first_split; assumption.
Qed.

Lemma names_s1 k : names_ok (lives_of s1 k).
Proof.
  destruct (N.eq_dec k tidx) as [->|H].
  - destruct split_t as (t1 & t2 & E0 & E1). rewrite E1. apply (names_ok_upd upper t1 te te' t2); try reflexivity.
    rewrite <- E0. apply I0.
  - rewrite ren1_lives. destruct (N.eqb_spec k tidx); [contradiction|]. apply I0.
Qed.
Lemma names_s2 k : names_ok (lives_of s2 k).
Proof.
  destruct (N.eq_dec k sidx) as [->|H].
  - destruct split_s as (a & b & E1 & E2). rewrite E2. apply (names_ok_remove upper a se b). rewrite <- E1. apply names_s1.
  - rewrite ren2_lives. destruct (N.eqb_spec k sidx); [contradiction|]. apply names_s1.
Qed.

(* per-directory flat_maps: what leaves and what arrives *)
Lemma flat_surgery {A} (h : list entry -> list A) (one : entry -> list A) :
  (forall l1 e l2, Permutation (h (l1 ++ e :: l2)) (one e ++ h (l1 ++ l2))) -> one te' = one se ->
  Permutation (flat_map (fun kd => h (lives (d_items (snd kd)))) (v_dirs s0))
              (one te ++ flat_map (fun kd => h (lives (d_items (snd kd)))) (v_dirs s2)).
Proof.
  intros Mid Eq. destruct split_t as (t1 & t2 & E0 & E1). destruct split_s as (a & b & E2 & E3).
  destruct (flat_set_items h s0 tidx (upd_item upper kt g (items_of s0 tidx)) It) as (R1 & Q1 & Q2).
  fold (ren1 s0 tidx kt se) in Q2. fold s1 in Q2.
  replace (lives (upd_item upper kt g (items_of s0 tidx))) with (lives_of s1 tidx) in Q2
    by (unfold s1, ren1; rewrite set_items_lives_same; reflexivity).
  rewrite E0 in Q1. rewrite E1 in Q2.
  destruct (flat_set_items h s1 sidx (del_item upper ks (items_of s1 sidx)) (proj2 (ren1_in_store sidx) Is)) as (R2 & Q3 & Q4).
  fold (ren2 s0 sidx tidx ks kt se) in Q4. fold s2 in Q4.
  replace (lives (del_item upper ks (items_of s1 sidx))) with (lives_of s2 sidx) in Q4
    by (unfold s2, ren2; fold s1; rewrite set_items_lives_same; reflexivity).
  rewrite E2 in Q3. rewrite E3 in Q4.
  set (F0 := flat_map (fun kd => h (lives (d_items (snd kd)))) (v_dirs s0)) in *.
  set (F1 := flat_map (fun kd => h (lives (d_items (snd kd)))) (v_dirs s1)) in *.
  set (F2 := flat_map (fun kd => h (lives (d_items (snd kd)))) (v_dirs s2)) in *.
  assert (A1 : Permutation F0 (one te ++ (h (t1 ++ t2) ++ R1))).
  { eapply perm_trans; [exact Q1|]. eapply perm_trans; [apply Permutation_app_tail, Mid|]. rewrite <- app_assoc. apply Permutation_refl. }
  assert (A2 : Permutation F1 (one se ++ (h (t1 ++ t2) ++ R1))).
  { eapply perm_trans; [exact Q2|]. eapply perm_trans; [apply Permutation_app_tail, Mid|]. rewrite <- app_assoc, Eq. apply Permutation_refl. }
  assert (A3 : Permutation F1 (one se ++ (h (a ++ b) ++ R2))).
  { eapply perm_trans; [exact Q3|]. eapply perm_trans; [apply Permutation_app_tail, Mid|]. rewrite <- app_assoc. apply Permutation_refl. }
  assert (A4 : Permutation (h (t1 ++ t2) ++ R1) F2).
  { apply Permutation_sym. eapply perm_trans; [exact Q4|]. apply Permutation_sym.
    apply (Permutation_app_inv_l (one se)). exact (perm_trans (Permutation_sym A2) A3). }
  eapply perm_trans; [exact A1|]. apply Permutation_app_head. exact A4.
Qed.

(* the old chain of the target is the only owner that leaves *)
Lemma owners_surgery : Permutation (owners V s0) (e_clu te :: owners V s2).
Proof.
  pose proof (flat_surgery (fun l => fclus l) own_of) as H.
  assert (M : forall l1 e l2, Permutation (fclus (l1 ++ e :: l2)) (own_of e ++ fclus (l1 ++ l2))) by apply fclus_mid.
  specialize (H M eq_refl). unfold own_of at 1 in H. rewrite Dt in H. cbn [app] in H.
  (* owners = dir starts interleaved with file owners: separate them *)
  assert (Sep : forall s, in_store s0 0 -> Permutation (owners V s) (List.map (fun kd => dir_start V (fst kd)) (v_dirs s) ++ flat_map (fun kd => fclus (lives (d_items (snd kd)))) (v_dirs s))).
  { intros s _. unfold owners. induction (v_dirs s) as [|kd r IH]; [constructor|]. cbn [flat_map List.map app].
    unfold dir_owners at 1. cbn [app]. apply perm_skip. eapply perm_trans; [apply Permutation_app_head, IH|].
    rewrite !app_assoc. apply Permutation_app_tail, Permutation_app_comm. }
  assert (K : List.map (fun kd => dir_start V (fst kd)) (v_dirs s2) = List.map (fun kd => dir_start V (fst kd)) (v_dirs s0)).
  { assert (K' : List.map fst (v_dirs s2) = List.map fst (v_dirs s0)).
    { unfold s2, ren2. fold s1. rewrite (set_items_keys s1 sidx _ (proj2 (ren1_in_store sidx) Is)). apply (set_items_keys s0 tidx _ It). }
    rewrite <- (map_map fst (dir_start V)), K', map_map. reflexivity. }
  eapply perm_trans; [apply (Sep s0), I0|]. eapply perm_trans; [apply Permutation_app_head, H|].
  eapply perm_trans; [apply Permutation_sym, Permutation_middle|]. apply perm_skip.
  rewrite <- K. apply Permutation_sym, (Sep s2), I0.
Qed.
Lemma refs_surgery : Permutation (dir_refs s0) (dir_refs s2).
Proof.
  pose proof (flat_surgery sub_refs (fun e => if is_dir e then [e_clu e] else [])) as H.
  specialize (H sub_refs_mid eq_refl). cbn beta in H. rewrite Dt in H. exact H.
Qed.

(* the entries of the result *)
Lemma entries_s2 k y : In y (lives_of s2 k) ->
  (k = tidx /\ y = te') \/ (In y (lives_of s0 k) /\ ~ (k = tidx /\ y = te) /\ ~ (k = sidx /\ y = se)).
Proof.
  intros Hy.
  assert (H1 : In y (lives_of s1 k) /\ ~ (k = sidx /\ y = se)).
  { destruct (N.eq_dec k sidx) as [->|Hk].
    - destruct split_s as (a & b & E1 & E2). rewrite E2 in Hy. split; [rewrite E1; apply in_mid; right; exact Hy|].
      intros [_ ->]. pose proof (names_s1 sidx) as (N1 & _). rewrite E1 in N1.
      exact (NoDup_map_mid_notin _ a se b se N1 Hy eq_refl).
    - rewrite ren2_lives in Hy. destruct (N.eqb_spec k sidx); [contradiction|]. split; [exact Hy|tauto]. }
  destruct H1 as [H1 H2]. destruct (N.eq_dec k tidx) as [->|Hk].
  - destruct split_t as (t1 & t2 & E0 & E1). rewrite E1 in H1. apply in_mid in H1. destruct H1 as [->|H1]; [left; auto|].
    right. split; [rewrite E0; apply in_mid; right; exact H1|]. split; [|exact H2].
    intros [_ ->]. pose proof (vi_names _ _ _ I0 tidx) as (N1 & _). rewrite E0 in N1.
    exact (NoDup_map_mid_notin _ t1 te t2 te N1 H1 eq_refl).
  - rewrite ren1_lives in H1. destruct (N.eqb_spec k tidx); [contradiction|]. right. split; [exact H1|]. split; [tauto|exact H2].
Qed.
Lemma te'_in_s2 : In te' (lives_of s2 tidx).
Proof.
  destruct split_t as (t1 & t2 & E0 & E1).
  assert (H1 : In te' (lives_of s1 tidx)) by (rewrite E1; apply in_mid; left; reflexivity).
  destruct (N.eq_dec tidx sidx) as [E|E]; [|rewrite ren2_lives; destruct (N.eqb_spec tidx sidx); [contradiction|exact H1]].
  destruct split_s as (a & b & E2 & E3). rewrite E. rewrite E3. rewrite E, E2 in H1. apply in_mid in H1.
  destruct H1 as [H1|H1]; [|exact H1]. exfalso.
  (* te' = se would make the source and the target the same slot *)
  apply Ne. split; [symmetry; exact E|].
  pose proof (vi_names _ _ _ I0 sidx) as (_ & N2 & _).
  apply (NoDup_map_inj e_alias (lives_of s0 sidx) se te N2).
  - apply (find_some _ _ find_s).
  - rewrite <- E. apply (find_some _ _ find_t).
  - rewrite <- H1. reflexivity.
Qed.
End Surgery.
End RenB.
