(* The volume invariant [VolInv] and how the store primitives change the owner list, the
   sub-directory references and the entry table.

   Tree-ness is stated with a DEPTH function (clause vi_depth): depth 0 = 0 and every
   sub-directory entry leads one level down.  Together with "every sub-directory has exactly one
   referencing entry and its '..' names the directory holding that entry" this makes the graph a
   tree: a cycle would need depth d = depth d + n.  A depth (rather than fuel-bounded
   reachability) was chosen because mkdir / rmdir / file operations keep the SAME function
   (mkdir only defines it at the fresh cluster), and only a directory move has to shift it. *)
From Coq Require Import List NArith Bool Lia Arith Permutation.
From NV Require Import Lib.Res FatAlloc.Model FatAlloc.ProofsBase.
From NV Require Import FatVol.Model FatVol.ProofsBase FatVol.ProofsFat.
Import ListNotations.
Open Scope N_scope.

Section Inv.
Variable upper : name -> name.
Variable V : vparams.
Notation P := (PP V).
Notation cs := (vp_cs V).
Notation limit := (vp_limit V).

(* ---------------- owners of chains ---------------- *)
Definition own_of (e : entry) : list N := if is_dir e then [] else [e_clu e].
Definition fclus (l : list entry) : list N := flat_map own_of l.
Definition dir_owners (kd : N * dirrec) : list N :=
  dir_start V (fst kd) :: fclus (lives (d_items (snd kd))).
Definition owners (s : vol) : list N := flat_map dir_owners (v_dirs s).
(* first clusters named by sub-directory entries *)
Definition sub_refs (l : list entry) : list N := List.map e_clu (filter is_dir l).
Definition dir_refs_of (kd : N * dirrec) : list N := sub_refs (lives (d_items (snd kd))).
Definition dir_refs (s : vol) : list N := flat_map dir_refs_of (v_dirs s).

Definition lives_of (s : vol) (k : N) : list entry := lives (items_of s k).
Definition in_store (s : vol) (k : N) : Prop := In k (List.map fst (v_dirs s)).

(* names of one directory: unique up to upper(), aliases unique, no alias equals the upper-cased
   name of ANOTHER entry, aliases are stable under upper() and are either the upper-cased name
   itself (entry stored without long-name records) or a generated one (contains '~') *)
Definition names_ok (l : list entry) : Prop :=
  NoDup (List.map (fun e => upper (e_name e)) l) /\ NoDup (List.map e_alias l) /\
  (forall e1 e2, In e1 l -> In e2 l -> upper (e_name e1) = e_alias e2 -> e1 = e2) /\
  (forall e, In e l -> upper (e_alias e) = e_alias e /\
                       (e_alias e = upper (e_name e) \/ In 126 (e_alias e))).

Definition file_ok (f : fat) (e : entry) : Prop :=
  (0 < e_size e /\ len (chn V f (e_clu e)) = cdiv (e_size e) cs) \/ (e_size e = 0 /\ e_clu e = 0).

Definition params_wf : Prop :=
  0 < cs /\ limit <= max_valid P + 1 /\
  (vp_bits V = 32 -> in_rng V (vp_rootc V)) /\ (vp_bits V <> 32 -> vp_rootc V = 0).

Record VolInv (s : vol) : Prop := {
  vi_fat : FInv V (v_fat s) (owners s);
  vi_keys : NoDup (List.map fst (v_dirs s));
  vi_root : in_store s 0;
  vi_keyrange : forall k, in_store s k -> k <> 0 -> in_rng V k /\ k <> vp_rootc V;
  vi_files : forall k e, In e (lives_of s k) -> is_dir e = false -> file_ok (v_fat s) e;
  vi_subdirs : forall k e, In e (lives_of s k) -> is_dir e = true ->
     e_clu e <> 0 /\ e_size e = 0 /\ in_store s (e_clu e) /\
     d_dot (get_dir s (e_clu e)) = e_clu e /\ d_dotdot (get_dir s (e_clu e)) = k;
  vi_refs : NoDup (dir_refs s) /\ forall k, in_store s k -> k <> 0 -> In k (dir_refs s);
  vi_names : forall k, names_ok (lives_of s k);
  vi_depth : exists depth : N -> nat, depth 0 = 0%nat /\
     forall k e, In e (lives_of s k) -> is_dir e = true -> depth (e_clu e) = S (depth k) }.

(* ---------------- store facts ---------------- *)
Lemma in_store_find s k : in_store s k <-> exists d, find_dir (v_dirs s) k = Some d.
Proof.
  split; [apply key_find_dir|]. intros (d & H). apply (find_dir_key _ _ _ H).
Qed.
Lemma lives_of_absent s k : ~ in_store s k -> lives_of s k = [].
Proof.
  intros H. unfold lives_of, items_of, get_dir. rewrite (find_dir_none _ _ H). reflexivity.
Qed.
Lemma lives_in_store s k e : In e (lives_of s k) -> in_store s k.
Proof.
  intros H. destruct (in_dec N.eq_dec k (List.map fst (v_dirs s))) as [I|I]; [exact I|].
  rewrite (lives_of_absent s k I) in H. destruct H.
Qed.
Lemma get_dir_find s k d : find_dir (v_dirs s) k = Some d -> get_dir s k = d.
Proof. intros H. unfold get_dir. rewrite H. reflexivity. Qed.

(* per-directory lists split around one directory *)
Lemma flat_split {A} (h : N * dirrec -> list A) ds idx d :
  find_dir ds idx = Some d -> Permutation (flat_map h ds) (h (idx, d) ++ flat_map h (drop_dir ds idx)).
Proof.
  induction ds as [|[k x] r IH]; cbn [find_dir flat_map drop_dir]; [discriminate|].
  destruct (N.eqb_spec k idx) as [->|Hn]; intros H.
  - inversion H; subst. apply Permutation_refl.
  - cbn [flat_map]. eapply perm_trans; [apply Permutation_app_head, IH, H|].
    rewrite !app_assoc. apply Permutation_app_tail, Permutation_app_comm.
Qed.
Lemma drop_put_present ds idx d' d : find_dir ds idx = Some d -> drop_dir (put_dir ds idx d') idx = drop_dir ds idx.
Proof.
  induction ds as [|[k x] r IH]; cbn [find_dir put_dir drop_dir]; [discriminate|].
  destruct (N.eqb_spec k idx) as [->|Hn]; intros H; cbn [drop_dir].
  - rewrite N.eqb_refl. reflexivity.
  - destruct (N.eqb_spec k idx); [contradiction|]. f_equal. apply IH, H.
Qed.
Lemma drop_put_absent ds idx d' : find_dir ds idx = None -> drop_dir (put_dir ds idx d') idx = ds.
Proof.
  induction ds as [|[k x] r IH]; cbn [find_dir put_dir drop_dir]; [rewrite N.eqb_refl; reflexivity|].
  destruct (N.eqb_spec k idx) as [->|Hn]; intros H; [discriminate|]. cbn [drop_dir].
  destruct (N.eqb_spec k idx); [contradiction|]. f_equal. apply IH, H.
Qed.

(* ---------------- set_items ---------------- *)
Lemma set_items_fat s idx l : v_fat (set_items s idx l) = v_fat s.
Proof. reflexivity. Qed.
Lemma set_items_keys s idx l : in_store s idx ->
  List.map fst (v_dirs (set_items s idx l)) = List.map fst (v_dirs s).
Proof. intros H. apply in_store_find in H. destruct H as (d & H). apply (keys_put_present _ _ _ _ H). Qed.
Lemma set_items_lives_same s idx l : lives_of (set_items s idx l) idx = lives l.
Proof. unfold lives_of, items_of, get_dir, set_items. cbn [v_dirs]. rewrite find_put_same. reflexivity. Qed.
Lemma set_items_lives_other s idx l k : k <> idx -> lives_of (set_items s idx l) k = lives_of s k.
Proof.
  intros H. unfold lives_of, items_of, get_dir, set_items. cbn [v_dirs]. rewrite find_put_other by exact H. reflexivity.
Qed.
Lemma set_items_dots s idx l k :
  d_dot (get_dir (set_items s idx l) k) = d_dot (get_dir s k) /\
  d_dotdot (get_dir (set_items s idx l) k) = d_dotdot (get_dir s k).
Proof.
  unfold get_dir, set_items. cbn [v_dirs]. destruct (N.eq_dec k idx) as [->|H].
  - rewrite find_put_same. cbn. unfold get_dir. split; reflexivity.
  - rewrite find_put_other by exact H. split; reflexivity.
Qed.
Lemma set_items_in_store s idx l k : in_store s idx -> (in_store (set_items s idx l) k <-> in_store s k).
Proof. intros H. unfold in_store. rewrite (set_items_keys s idx l H). tauto. Qed.
Lemma set_items_length s idx l : in_store s idx -> length (v_dirs (set_items s idx l)) = length (v_dirs s).
Proof. intros H. apply in_store_find in H. destruct H as (d & H). apply (length_put_present _ _ _ _ H). Qed.

(* a per-directory flat_map after set_items: only the component of idx changes *)
Lemma flat_set_items {A} (g : list entry -> list A) s idx l : in_store s idx ->
  exists R, Permutation (flat_map (fun kd => g (lives (d_items (snd kd)))) (v_dirs s)) (g (lives_of s idx) ++ R) /\
            Permutation (flat_map (fun kd => g (lives (d_items (snd kd)))) (v_dirs (set_items s idx l))) (g (lives l) ++ R).
Proof.
  intros H. apply in_store_find in H. destruct H as (d & H).
  exists (flat_map (fun kd => g (lives (d_items (snd kd)))) (drop_dir (v_dirs s) idx)). split.
  - pose proof (flat_split (fun kd => g (lives (d_items (snd kd)))) _ _ _ H) as Pm. cbn [snd] in Pm.
    unfold lives_of, items_of. rewrite (get_dir_find _ _ _ H). exact Pm.
  - unfold set_items. cbn [v_dirs].
    pose proof (flat_split (fun kd => g (lives (d_items (snd kd))))
                  (put_dir (v_dirs s) idx {| d_items := l; d_dot := d_dot (get_dir s idx); d_dotdot := d_dotdot (get_dir s idx) |})
                  idx _ (find_put_same _ _ _)) as Pm.
    cbn [snd d_items] in Pm. rewrite (drop_put_present _ _ _ _ H) in Pm. exact Pm.
Qed.
(* the owners of every directory but idx *)
Definition rest_owners (s : vol) (idx : N) : list N := flat_map dir_owners (drop_dir (v_dirs s) idx).
Lemma owners_set_items s idx l : in_store s idx ->
  Permutation (owners s) (dir_start V idx :: fclus (lives_of s idx) ++ rest_owners s idx) /\
  Permutation (owners (set_items s idx l)) (dir_start V idx :: fclus (lives l) ++ rest_owners s idx).
Proof.
  intros H. apply in_store_find in H. destruct H as (d & H). unfold rest_owners. split.
  - pose proof (flat_split dir_owners _ _ _ H) as Pm. unfold dir_owners at 2 in Pm. cbn [fst snd] in Pm.
    unfold lives_of, items_of. rewrite (get_dir_find _ _ _ H). exact Pm.
  - unfold owners, set_items. cbn [v_dirs].
    pose proof (flat_split dir_owners
                  (put_dir (v_dirs s) idx {| d_items := l; d_dot := d_dot (get_dir s idx); d_dotdot := d_dotdot (get_dir s idx) |})
                  idx _ (find_put_same _ _ _)) as Pm.
    unfold dir_owners at 2 in Pm. cbn [fst snd d_items] in Pm. rewrite (drop_put_present _ _ _ _ H) in Pm. exact Pm.
Qed.
Lemma In_rest_owners s idx k e : k <> idx -> In e (lives_of s k) -> is_dir e = false -> In (e_clu e) (rest_owners s idx).
Proof.
  intros Hk He Hd. pose proof (lives_in_store s k e He) as Ik. apply in_store_find in Ik. destruct Ik as (d & Fd).
  unfold rest_owners. apply in_flat_map. exists (k, d). split.
  - apply find_dir_In. rewrite find_drop_other by exact Hk. exact Fd.
  - unfold dir_owners. cbn [fst snd]. right. unfold fclus. apply in_flat_map. exists e. split.
    + unfold lives_of, items_of in He. rewrite (get_dir_find _ _ _ Fd) in He. exact He.
    + unfold own_of. rewrite Hd. left. reflexivity.
Qed.
Lemma In_rest_owners_dir s idx k : k <> idx -> in_store s k -> In (dir_start V k) (rest_owners s idx).
Proof.
  intros Hk Ik. apply in_store_find in Ik. destruct Ik as (d & Fd).
  unfold rest_owners. apply in_flat_map. exists (k, d). split; [|left; reflexivity].
  apply find_dir_In. rewrite find_drop_other by exact Hk. exact Fd.
Qed.
Lemma In_fclus l e : In e l -> is_dir e = false -> In (e_clu e) (fclus l).
Proof. intros He Hd. unfold fclus. apply in_flat_map. exists e. split; [exact He|]. unfold own_of. rewrite Hd. left. reflexivity. Qed.

(* ---------------- fclus / sub_refs under the list surgery ---------------- *)
Lemma fclus_app a b : fclus (a ++ b) = fclus a ++ fclus b.
Proof. apply flat_map_app. Qed.
Lemma sub_refs_app a b : sub_refs (a ++ b) = sub_refs a ++ sub_refs b.
Proof. unfold sub_refs. rewrite filter_app, map_app. reflexivity. Qed.
Lemma fclus_mid l1 e l2 : Permutation (fclus (l1 ++ e :: l2)) (own_of e ++ fclus (l1 ++ l2)).
Proof.
  rewrite !fclus_app. cbn [fclus flat_map]. rewrite app_assoc.
  eapply perm_trans; [apply Permutation_app_tail, Permutation_app_comm|]. rewrite <- app_assoc. apply Permutation_refl.
Qed.
Lemma sub_refs_mid l1 e l2 :
  Permutation (sub_refs (l1 ++ e :: l2)) ((if is_dir e then [e_clu e] else []) ++ sub_refs (l1 ++ l2)).
Proof.
  rewrite !sub_refs_app. unfold sub_refs at 2. cbn [filter]. destruct (is_dir e); cbn [List.map app].
  - apply Permutation_sym, Permutation_middle.
  - apply Permutation_refl.
Qed.
End Inv.
