(* rename, refinement: the tree after the two-directory change, through the hypothetical state
   in which only the source entry is gone ([tail_tree]). *)
From Coq Require Import List NArith Bool Lia Arith Permutation.
From NV Require Import Lib.Res FatVol.Model FatVol.Spec FatVol.ProofsBase FatVol.ProofsFat FatVol.ProofsInv
     FatVol.ProofsTree FatVol.ProofsWalk FatVol.ProofsOps FatVol.ProofsFile FatVol.ProofsRenameA FatVol.ProofsRenameB
     FatVol.ProofsRenameE FatVol.ProofsRenameF FatVol.ProofsRenameG FatVol.ProofsRenameH.
Import ListNotations.
Open Scope N_scope.

Section RenI.
Variable upper : name -> name.
Variable V : vparams.
Notation lookup := (Model.lookup upper).
Notation resolve := (Model.resolve upper).
Notation hit := (Model.hit upper).
Notation VolInv := (VolInv upper V).

Definition minus_src (s : vol) (sidx : N) (ks : name) : vol :=
  set_items s sidx (del_item upper ks (items_of s sidx)).
Lemma minus_src_lives s sidx ks k :
  lives_of (minus_src s sidx ks) k = if k =? sidx then del_first (hit ks) (lives_of s k) else lives_of s k.
Proof.
  unfold minus_src. destruct (N.eqb_spec k sidx) as [->|H].
  - rewrite set_items_lives_same. apply (lives_del_item upper).
  - apply set_items_lives_other, H.
Qed.

Theorem tail_tree s depth s' depth' src tgt sidx tidx prs prt se (f : kids -> kids) :
  VolInv s -> TreeInv s depth -> TreeInv s' depth' ->
  tilde_free upper src -> tilde_free upper tgt -> src <> [] ->
  resolve s (parent src) = Ok prs -> r_isdir prs = true -> sidx = r_index prs -> in_store s sidx ->
  lookup (upper (leaf src)) (items_of s sidx) = Some se ->
  resolve s (parent tgt) = Ok prt -> r_isdir prt = true -> tidx = r_index prt -> in_store s tidx ->
  (forall e q x, is_dir e = true -> is_prefix (q ++ [x]) (parent tgt) ->
                 resolve s (q ++ [x]) = Ok (RFound (e_clu e) e) -> e <> se) ->
  let sA := minus_src s sidx (upper (leaf src)) in
  (forall x, x <> tidx -> lives_of s' x = lives_of sA x) ->
  kids_of s' tidx = f (kids_of sA tidx) ->
  abs_tree s' = tmod upper (tmod upper (abs_tree s) (parent src) (tdel upper (upper (leaf src)))) (parent tgt) f.
Proof.
  intros I T T' TFs TFt Hsn Rps Dps Esi Is Ls Rpt Dpt Eti It AV sA LX KT.
  destruct (parent_tf upper src Hsn TFs) as [TFps Hls].
  assert (TFpt : tilde_free upper (parent tgt)).
  { destruct tgt as [|t0 ts]; [constructor|]. apply (parent_tf upper (t0 :: ts)); [discriminate|exact TFt]. }
  pose proof (TreeInv_remove upper s depth sidx _ se T Is Ls) as TA. fold (minus_src s sidx (upper (leaf src))) in TA. fold sA in TA.
  destruct (lookup_split upper _ _ _ Ls) as (l1 & l2 & EL & F1 & Hh & Dl & _). fold (lives_of s sidx) in EL.
  assert (LA : forall x, x <> sidx -> lives_of sA x = lives_of s x) by (intros x Hx; apply (set_items_lives_other s sidx _ x Hx)).
  assert (LAs : lives_of sA sidx = l1 ++ l2) by (unfold sA, minus_src; rewrite set_items_lives_same; exact Dl).
  assert (NMA : forall k, names_ok upper (lives_of sA k)).
  { intros k. destruct (N.eq_dec k sidx) as [->|Hk]; [rewrite LAs; apply (names_ok_remove upper l1 se l2); rewrite <- EL; apply I|].
    rewrite (LA k Hk). apply I. }
  assert (ISA : forall x, in_store sA x <-> in_store s x) by (intros x; apply (set_items_in_store s sidx _ x Is)).
  (* step A: the source entry goes *)
  assert (StepA : ProofsTree.A sA 0 = tmod upper (ProofsTree.A s 0) (parent src) (tdel upper (upper (leaf src)))).
  { apply (abs_mod upper s depth sA depth (tdel upper (upper (leaf src))) sidx T TA (vi_names _ _ _ I))
      with (cur := RRoot) (r := prs); try assumption; try reflexivity; [| |symmetry; exact Esi].
    - intros x Hx Nd. apply LA. intros ->. apply Nd, desc_refl.
    - rewrite (abs_unfold sA depth TA). f_equal. unfold kids_of. rewrite LAs, EL.
      assert (Pl : plain upper (l1 ++ se :: l2) (upper (leaf src))) by (rewrite <- EL; apply plain_of_names; [apply I|exact Hls]).
      destruct (split_plain upper l1 se l2 _ Pl F1 Hh) as [N1 Ne].
      rewrite (tdel_map_split upper (ProofsTree.node_of s) _ l1 se l2 N1 Ne).
      apply map_ext_in. intros x Hx. f_equal.
      apply (kids_same s depth sA depth sidx T TA Is); [intros y _ Hy; apply LA, Hy|].
      rewrite EL. apply in_mid. right. exact Hx. }
  (* the parent of the target is reached in the same way *)
  assert (RptA : resolve sA (parent tgt) = Ok prt).
  { rewrite <- Rpt. apply (resolve_stable upper s depth T sA (parent tgt) prt Rpt Dpt); [|apply is_prefix_refl].
    intros d k e q x Id Dl' L De Pq Rq. destruct (N.eq_dec d sidx) as [->|Hd].
    - unfold sA, minus_src, items_of at 1, get_dir, set_items. cbn [v_dirs]. rewrite find_put_same. cbn [d_items].
      apply (lookup_del_other upper k _ _ (Some e) se Ls L). intros E. inversion E; subst. exact (AV se q x De Pq Rq eq_refl).
    - rewrite <- L. apply lookup_same_lives. apply LA, Hd. }
  (* step B: the target directory takes the node *)
  assert (StepB : ProofsTree.A s' 0 = tmod upper (ProofsTree.A sA 0) (parent tgt) f).
  { apply (abs_mod upper sA depth s' depth' f tidx TA T' NMA) with (cur := RRoot) (r := prt); try assumption; try reflexivity; [| |symmetry; exact Eti].
    - intros x Hx Nd. apply LX. intros ->. apply Nd, desc_refl.
    - rewrite (abs_unfold s' depth' T'). f_equal. exact KT. }
  rewrite !abs_tree_A, StepB, StepA. reflexivity.
Qed.
End RenI.
