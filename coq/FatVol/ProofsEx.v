(* Non-vacuity: a concrete volume satisfies the invariant, a concrete history satisfies every
   guard, and the theorems then give the invariant and the plain-model outcome for it.  Plus a
   witness for why ENOSPC is excluded from the refinement (a failed write keeps a prefix). *)
From Coq Require Import List NArith Bool Lia Arith Permutation.
From NV Require Import Lib.Res FatAlloc.Model FatAlloc.ProofsBase FatAlloc.ProofsWrite.
From NV Require Import FatVol.Model FatVol.Spec FatVol.ProofsBase FatVol.ProofsFat FatVol.ProofsInv
     FatVol.ProofsTree FatVol.ProofsWalk FatVol.ProofsOps FatVol.ProofsFileOp FatVol.Proofs.
Import ListNotations.
Open Scope N_scope.

(* ASCII upper-casing is enough for the example *)
Definition up1 (c : N) : N := if (97 <=? c) && (c <=? 122) then c - 32 else c.
Definition up (s : name) : name := List.map up1 s.

(* a FAT16 volume of 10 data clusters of 512 bytes, 16 root slots, empty *)
Definition V0 : vparams := {| vp_bits := 16; vp_cs := 512; vp_limit := 12; vp_rootc := 0; vp_rootcap := 16 |}.
Definition s_empty : vol :=
  {| v_fat := {| ftbl := [65528; 65535; 0; 0; 0; 0; 0; 0; 0; 0; 0; 0]; finfo := None |};
     v_dirs := [(0, {| d_items := []; d_dot := 0; d_dotdot := 0 |})] |}.

Lemma V0_wf : params_wf V0.
Proof.
  unfold params_wf, V0, in_rng. cbn. repeat split; try (intros; discriminate); try reflexivity.
Qed.

Lemma empty_inv : VolInv up V0 s_empty.
Proof.
  constructor.
  - constructor.
    + intros c [<-|[]]. cbn [dir_start]. rewrite chn_0. apply chain_wf_nil.
    + cbn. constructor.
    + intros c H1 H2 H3. exfalso. apply H3. unfold s_empty, get. cbn [v_fat ftbl].
      assert (M : min_valid (PP V0) = 2) by reflexivity. rewrite M in H1.
      assert (E : exists n, N.to_nat c = S (S n)) by (exists (N.to_nat c - 2)%nat; lia).
      destruct E as (n & ->). cbn [nth]. do 10 (destruct n as [|n]; [reflexivity|]). destruct n; reflexivity.
  - cbn. constructor; [intros []|constructor].
  - left. reflexivity.
  - intros k [<-|[]] H. exfalso. apply H. reflexivity.
  - intros k e H. unfold lives_of, items_of, get_dir, s_empty in H. cbn in H. destruct k; cbn in H; destruct H.
  - intros k e H. unfold lives_of, items_of, get_dir, s_empty in H. cbn in H. destruct k; cbn in H; destruct H.
  - split; [constructor|]. intros k [<-|[]] H. exfalso. apply H. reflexivity.
  - intros k. unfold lives_of, items_of, get_dir, s_empty. cbn. destruct k; cbn;
      (split; [constructor|]; split; [constructor|]; split; [intros ? ? []|intros ? []]).
  - exists (fun _ => 0%nat). split; [reflexivity|].
    intros k e H. unfold lives_of, items_of, get_dir, s_empty in H. cbn in H. destruct k; cbn in H; destruct H.
Qed.

(* "d", "f.txt", "g" *)
Definition n_d : name := [100]. Definition n_f : name := [102; 46; 116; 120; 116]. Definition n_g : name := [103].
Definition hist : list op :=
  [OMkdir [n_d]; OFile [n_d; n_f] MW (AWrite None 700); ORename [n_d; n_f] [n_g]; ORmdir [n_d]].

Ltac tf := repeat constructor; vm_compute; intuition discriminate.
Ltac gc :=
  let pr := fresh "pr" in let R := fresh "R" in let Rp := fresh "Rp" in let D := fresh "D" in
  intros pr R Rp D; vm_compute in Rp; inversion Rp; subst pr; clear Rp;
  eexists; split; [vm_compute; reflexivity|];
  split; [|split; [vm_compute; reflexivity|vm_compute; auto]];
  intros x Hx; vm_compute in Hx;
  repeat (destruct Hx as [<-|Hx]; [vm_compute; repeat split; discriminate|]); destruct Hx.

Lemma hist_guard : run_guard up V0 s_empty hist.
Proof.
  unfold hist. cbn [run_guard op_guard].
  split; [split; [tf|gc]|].
  set (s1 := fst (step up V0 s_empty (OMkdir [n_d]))). vm_compute in s1.
  split; [split; [tf|gc]|].
  set (s2 := fst (step up V0 s1 _)). vm_compute in s2.
  split; [split; [tf|split; [tf|gc]]|].
  split; [tf|exact I].
Qed.
Lemma hist_no_enospc : run_no_enospc up V0 s_empty hist.
Proof. vm_compute. repeat split; discriminate. Qed.

(* the theorems apply: invariant at the end, outcomes and tree of the plain model *)
Example FV_example :
  VolInv up V0 (fst (run up V0 s_empty hist)) /\
  spec_run up (abs_tree s_empty) hist = (Dir [(n_g, File 700)], [Ok tt; Ok tt; Ok tt; Ok tt]) /\
  abs_tree (fst (run up V0 s_empty hist)) = Dir [(n_g, File 700)].
Proof.
  destruct (FV_history_refines up V0 V0_wf hist s_empty empty_inv hist_guard hist_no_enospc) as [I R].
  split; [exact I|]. split; vm_compute; reflexivity.
Qed.

(* why ENOSPC is outside the refinement: a write that runs out of clusters keeps what it
   could map (FatAlloc.FA_write_wf: "size = prefix mapped"); the plain tree has no such outcome *)
Example FV_enospc_keeps_prefix :
  let o := OFile [n_g] MW (AWrite None 9000) in
  snd (step up V0 s_empty o) = Err OSError_ENOSPC /\
  abs_tree (fst (step up V0 s_empty o)) = Dir [(n_g, File 4608)] /\
  VolInv up V0 (fst (step up V0 s_empty o)).
Proof.
  cbn zeta. split; [vm_compute; reflexivity|]. split; [vm_compute; reflexivity|].
  apply (FV_step_inv up V0 V0_wf s_empty); [exact empty_inv|]. cbn [op_guard]. split; [tf|gc].
Qed.

(* failed operations leave the state as it was *)
Example FV_failures_unchanged :
  step up V0 s_empty (OUnlink [n_g]) = (s_empty, Err FileNotFound) /\
  step up V0 s_empty (ORmdir []) = (s_empty, Err PermissionErr) /\
  step up V0 s_empty (ORename [n_g] [n_d]) = (s_empty, Err FileNotFound) /\
  step up V0 s_empty (OMkdir [n_d; n_f]) = (s_empty, Err FileNotFound).
Proof. vm_compute. repeat split. Qed.

Print Assumptions FV_example.
Print Assumptions FV_enospc_keeps_prefix.
