(* FatPath.open (creating modes and r+) + one action + close, touch, set_size:
   the invariant ([file_op_inv]) and the refinement of the plain tree ([file_op_refines]). *)
From Coq Require Import List NArith Bool Lia Arith Permutation.
From NV Require Import Lib.Res FatAlloc.Model FatAlloc.ProofsBase.
From NV Require Import FatVol.Model FatVol.Spec FatVol.ProofsBase FatVol.ProofsFat FatVol.ProofsInv
     FatVol.ProofsTree FatVol.ProofsWalk FatVol.ProofsOps FatVol.ProofsFatOps FatVol.ProofsAppend
     FatVol.ProofsSession FatVol.ProofsUnlink FatVol.ProofsFile.
From NV Require FatNames.Model.
Import ListNotations.
Open Scope N_scope.

Section FileOp.
Variable upper : name -> name.
Variable V : vparams.
Hypothesis PW : params_wf V.
Notation P := (PP V).
Notation cs := (vp_cs V).
Notation limit := (vp_limit V).
Notation VolInv := (VolInv upper V).
Notation names_ok := (names_ok upper).
Notation lookup := (Model.lookup upper).
Notation resolve := (Model.resolve upper).
Notation make_entry := (Model.make_entry upper).
Notation file_op := (Model.file_op upper V).

(* ---------------- the new entry ---------------- *)
Lemma make_entry_attr id l nm attr clu :
  make_entry id l nm attr clu =
  match make_entry id l nm 0 0 with Ok e => Ok (set_val attr 0 clu e) | Err x => Err x end.
Proof.
  unfold Model.make_entry. destruct (FatNames.Model.get_names _ _ _) as [[[[lfn sfn8] ext3] a2]|x]; reflexivity.
Qed.
Lemma make_entry_fields id l nm e : make_entry id l nm 0 0 = Ok e -> e_name e = nm /\ e_size e = 0.
Proof.
  unfold Model.make_entry. destruct (FatNames.Model.get_names _ _ _) as [[[[lfn sfn8] ext3] a2]|x]; cbn [bind]; [|discriminate].
  intros H. inversion H; subst. split; reflexivity.
Qed.
(* what a creation must be able to rely on: _get_names succeeds and the names it produces
   collide with nothing in the directory (see ProofsOps.fresh_names) *)
Definition guard_new (s : vol) (idx : N) (nm : name) : Prop :=
  exists e, make_entry idx (items_of s idx) nm 0 0 = Ok e /\ fresh_names upper (lives_of s idx) e.
Lemma fresh_names_set_val l e a sz c : fresh_names upper l e -> fresh_names upper l (set_val a sz c e).
Proof. intros H. exact H. Qed.

Lemma lookup_none_find k l : lookup k l = None -> find (Model.hit upper k) (lives l) = None.
Proof. rewrite lookup_lives. tauto. Qed.

(* __setitem__ of a name that is not there, for a FILE entry (first cluster 0) *)
Theorem create_file_entry s idx nm e0 :
  VolInv s -> in_store s idx -> lookup (upper nm) (items_of s idx) = None ->
  make_entry idx (items_of s idx) nm 0 0 = Ok e0 -> fresh_names upper (lives_of s idx) e0 ->
  let x := setitem upper V s idx nm 32 0 0 in
  let e := set_val 32 0 0 e0 in
  VolInv (fst x) /\ (forall k, k <> idx -> lives_of (fst x) k = lives_of s k) /\
  (forall k, in_store (fst x) k <-> in_store s k) /\
  ((snd x = Ok tt /\ lives_of (fst x) idx = lives_of s idx ++ [e] /\
    lookup (upper nm) (items_of (fst x) idx) = Some e) \/
   (snd x = Err OSError_ENOSPC /\ lives_of (fst x) idx = lives_of s idx)).
Proof.
  intros I Ii Ln Me Fr x e. unfold x, setitem. clear x. rewrite Ln, make_entry_attr, Me. fold e.
  destruct (make_entry_fields _ _ _ _ Me) as [En Es].
  assert (Hd : is_dir e = false) by reflexivity.
  assert (Ec : e_clu e = 0) by reflexivity. assert (Ez : e_size e = 0) by reflexivity.
  assert (En' : e_name e = nm) by exact En. assert (Fr' : fresh_names upper (lives_of s idx) e) by exact Fr.
  clearbody e. clear Fr En.
  destruct (owners_set_items V s idx [] Ii) as (P1 & _).
  set (O' := fclus (lives_of s idx) ++ rest_owners V s idx) in *.
  destruct (dir_append_shape V PW s idx e O' (FInv_perm V _ _ _ P1 (vi_fat _ _ _ I)) (dir_growable upper V PW s idx I Ii))
    as (f' & l' & Efst & Fi & Same & Cases).
  rewrite Efst.
  assert (Old : forall k e', In e' (lives_of s k) -> is_dir e' = false -> file_ok V f' e').
  { intros k e' He' Hd'. apply file_ok_same with (f := v_fat s); [|apply (vi_files _ _ _ I k e' He' Hd')].
    apply Same. unfold O'. apply in_or_app. destruct (N.eq_dec k idx) as [->|Hk].
    - left. apply In_fclus; assumption.
    - right. apply (In_rest_owners V s idx k e' Hk He' Hd'). }
  destruct (owners_set_items V s idx l' Ii) as (_ & P2).
  assert (Inv : VolInv (set_fat (set_items s idx l') f')).
  { apply (VolInv_files_update upper V s idx l' f' I Ii).
    - destruct Cases as [[_ Ll]|[_ Ll]]; rewrite Ll; [|reflexivity].
      rewrite filter_app. cbn [filter]. rewrite Hd. apply app_nil_r.
    - destruct Cases as [[_ Ll]|[_ Ll]]; rewrite Ll; [|apply I].
      apply (names_ok_app upper); [apply I|exact Fr'].
    - apply (FInv_perm V _ _ _ (Permutation_sym P2)).
      destruct Cases as [[_ Ll]|[_ Ll]]; rewrite Ll; [|exact Fi].
      rewrite fclus_app. replace (fclus [e]) with [0] by (unfold fclus, own_of; cbn [flat_map]; rewrite Hd, Ec; reflexivity).
      apply (FInv_perm V _ (0 :: dir_start V idx :: O')).
      + unfold O'. rewrite <- app_assoc. cbn [app]. eapply perm_trans; [apply perm_swap|]. apply perm_skip.
        apply Permutation_middle.
      + apply FInv_add_empty; [apply chn_0|exact Fi].
    - intros k e' He' Hd'. destruct (N.eq_dec k idx) as [->|Hk].
      + rewrite set_items_lives_same in He'. destruct Cases as [[_ Ll]|[_ Ll]]; rewrite Ll in He'.
        * apply in_app_or in He'. destruct He' as [He'|[<-|[]]]; [apply (Old idx e' He' Hd')|].
          right. split; assumption.
        * apply (Old idx e' He' Hd').
      + rewrite set_items_lives_other in He' by exact Hk. apply (Old k e' He' Hd'). }
  cbn [fst snd]. split; [exact Inv|]. split; [intros k Hk; apply (set_items_lives_other s idx l' k Hk)|].
  split; [intros k; apply (set_items_in_store s idx l' k Ii)|].
  change (lives_of (set_fat (set_items s idx l') f') idx) with (lives_of (set_items s idx l') idx).
  change (items_of (set_fat (set_items s idx l') f') idx) with (items_of (set_items s idx l') idx).
  rewrite set_items_lives_same. destruct Cases as [[Eo Ll]|[Eo Ll]]; [left|right]; (split; [exact Eo|]); [|exact Ll].
  split; [exact Ll|]. rewrite lookup_lives.
  replace (lives (items_of (set_items s idx l') idx)) with (lives_of s idx ++ [e])
    by (rewrite <- Ll; symmetry; apply set_items_lives_same).
  pose proof (lookup_none_find _ _ Ln) as Fn. fold (lives_of s idx) in Fn.
  clear -Fn En'. induction (lives_of s idx) as [|y r IH]; cbn [app find] in *.
  - unfold Model.hit. rewrite En', beq_refl. reflexivity.
  - destruct (Model.hit upper (upper nm) y); [discriminate|]. apply IH, Fn.
Qed.

(* a well-formed file can always be opened: the truncate() of mode 'w' never has to allocate *)
Lemma session_core_ok s k e m a : VolInv s -> In e (lives_of s k) -> is_dir e = false ->
  exists r, session_core V {| sfat := v_fat s; map := chain_of V (v_fat s) (e_clu e); size := e_size e; pos := 0 |} m a = Ok r.
Proof.
  intros I He Hd. unfold session_core.
  assert (T0 : exists st1, truncate P cs limit 0 {| sfat := v_fat s; map := chain_of V (v_fat s) (e_clu e); size := e_size e; pos := 0 |} = Ok st1).
  { unfold truncate. cbn [size map]. destruct (0 =? e_size e) eqn:Z; [eexists; reflexivity|].
    rewrite (cdiv_0 cs (CS V PW)). change (N.max 1 0) with 1.
    destruct (vi_files _ _ _ I k e He Hd) as [[Sz L]|[Sz _]]; [|rewrite Sz in Z; discriminate].
    fold (chn V (v_fat s) (e_clu e)). destruct (cdiv_bounds (e_size e) cs (CS V PW) Sz) as [_ B].
    destruct (N.ltb_spec (len (chn V (v_fat s) (e_clu e))) 1) as [H|H]; [lia|].
    destruct (1 <? len (chn V (v_fat s) (e_clu e))); eexists; reflexivity. }
  destruct T0 as (st1 & T0). destruct m; try rewrite T0; eexists; reflexivity.
Qed.

(* ---------------- the operation ---------------- *)
Definition guard_create (s : vol) (parts : list name) : Prop :=
  forall pr, resolve s parts = Ok RNone -> resolve s (parent parts) = Ok pr -> r_isdir pr = true ->
             guard_new s (r_index pr) (leaf parts).

(* the creating branch of open(): entry made in the parent, then the session on it *)
Lemma create_then_session s parts pr m a :
  VolInv s -> guard_create s parts -> resolve s parts = Ok RNone -> resolve s (parent parts) = Ok pr ->
  r_isdir pr = true ->
  let idx := r_index pr in
  let x := setitem upper V s idx (leaf parts) 32 0 0 in
  let y := match snd x with
           | Err e => (fst x, Err e)
           | Ok _ => match lookup (upper (leaf parts)) (items_of (fst x) idx) with
                     | Some e => file_session upper V (fst x) idx e m a
                     | None => (fst x, Err KeyError)
                     end
           end in
  in_store s idx /\ VolInv (fst y) /\ (forall k, k <> idx -> lives_of (fst y) k = lives_of s k) /\
  (forall k, in_store (fst y) k <-> in_store s k) /\
  ((snd y = Err OSError_ENOSPC /\ (lives_of (fst y) idx = lives_of s idx \/
                                    exists e, lives_of (fst y) idx = lives_of s idx ++ [e] /\ is_dir e = false)) \/
   (snd y = Ok tt /\ exists e, lives_of (fst y) idx = lives_of s idx ++ [e] /\ e_name e = leaf parts /\
                              is_dir e = false /\ e_size e = new_size m a 0)).
Proof.
  intros I G R Rp Dp idx x y.
  assert (OKp : cur_ok s pr) by (apply (resolve_ok upper s _ pr Rp); destruct pr; cbn in Dp; congruence).
  pose proof (cur_dir_store upper V s pr I OKp Dp) as Ii. fold idx in Ii.
  destruct (resolve_missing upper s parts R) as [_ [Rn|(pr' & Rp' & _ & Ln)]]; [rewrite Rn in Rp; inversion Rp; subst; discriminate|].
  assert (pr' = pr) by congruence. subst pr'. fold idx in Ln.
  destruct (G pr R Rp Dp) as (e0 & Me & Fr). fold idx in Me, Fr.
  destruct (make_entry_fields _ _ _ _ Me) as [En _].
  destruct (create_file_entry s idx (leaf parts) e0 I Ii Ln Me Fr) as (I1 & Lo1 & Is1 & Cases). fold x in I1, Lo1, Is1, Cases.
  split; [exact Ii|]. unfold y. clear y.
  destruct Cases as [(Eo & Ll & Lk)|(Eo & Ll)]; rewrite Eo.
  - rewrite Lk. set (e := set_val 32 0 0 e0) in *.
    assert (Ii1 : in_store (fst x) idx) by (apply Is1; exact Ii).
    assert (EL : lives_of (fst x) idx = lives_of s idx ++ e :: []) by exact Ll.
    destruct (file_session_spec upper V PW (fst x) idx e m a (lives_of s idx) [] I1 Ii1 EL eq_refl)
      as (I2 & (sz & c & Ll2 & Sz) & Lo2 & Is2).
    split; [exact I2|]. split; [intros k Hk; rewrite (Lo2 k Hk); apply Lo1, Hk|].
    split; [intros k; rewrite (Is2 k); apply Is1|].
    destruct (snd (file_session upper V (fst x) idx e m a)) as [[]|err] eqn:Es.
    + right. split; [reflexivity|]. eexists. split; [exact Ll2|]. split; [exact En|]. split; [reflexivity|].
      cbn [set_val e_size]. apply Sz. reflexivity.
    + left. assert (err = OSError_ENOSPC).
      { unfold file_session in Es.
        destruct (session_core_ok (fst x) idx e m a I1) as (r' & Er'); [rewrite EL; apply in_or_app; right; left; reflexivity|reflexivity|].
        rewrite Er' in Es. destruct r' as [[st3 ok] wb]. cbn [snd] in Es. destruct ok; inversion Es. reflexivity. }
      subst err. split; [reflexivity|]. right. eexists. split; [exact Ll2|reflexivity].
  - cbn [fst snd]. split; [exact I1|]. split; [exact Lo1|]. split; [exact Is1|]. left. split; [reflexivity|]. left. exact Ll.
Qed.
(* the branch of an existing file *)
Lemma existing_session s parts idx e m a :
  VolInv s -> resolve s parts = Ok (RFound idx e) -> is_dir e = false ->
  exists pr l1 l2,
    resolve s (parent parts) = Ok pr /\ r_isdir pr = true /\ idx = r_index pr /\ in_store s idx /\
    parts = parent parts ++ [leaf parts] /\
    lives_of s idx = l1 ++ e :: l2 /\ Forall (fun x => Model.hit upper (upper (leaf parts)) x = false) l1 /\
    Model.hit upper (upper (leaf parts)) e = true /\
    let x := file_session upper V s idx e m a in
    VolInv (fst x) /\ (forall k, k <> idx -> lives_of (fst x) k = lives_of s k) /\
    (snd x = Ok tt \/ snd x = Err OSError_ENOSPC) /\
    exists sz c, lives_of (fst x) idx = l1 ++ set_val (e_attr e) sz c e :: l2 /\
                 (snd x = Ok tt -> sz = new_size m a (e_size e)).
Proof.
  intros I R Hd. destruct (resolve_found upper s parts idx e R) as (pr & Epar & Rp & Dp & L & Ei).
  rewrite Hd in Ei. subst idx.
  assert (OKp : cur_ok s pr) by (apply (resolve_ok upper s _ pr Rp); destruct pr; cbn in Dp; congruence).
  pose proof (cur_dir_store upper V s pr I OKp Dp) as Ii.
  destruct (lookup_split upper _ _ _ L) as (l1 & l2 & EL & F1 & Hh & _ & _). fold (lives_of s (r_index pr)) in EL.
  exists pr, l1, l2. repeat (split; [assumption || reflexivity|]).
  destruct (file_session_spec upper V PW s (r_index pr) e m a l1 l2 I Ii EL Hd) as (I2 & Ex & Lo & _).
  cbn zeta. split; [exact I2|]. split; [exact Lo|]. split; [|exact Ex].
  assert (He : In e (lives_of s (r_index pr))) by (rewrite EL; apply in_mid; left; reflexivity).
  unfold file_session. destruct (session_core_ok s (r_index pr) e m a I He Hd) as ([[st3 ok] wb] & Er). rewrite Er.
  cbn [snd]. destruct ok; [left|right]; reflexivity.
Qed.

Theorem file_op_inv s parts m a : VolInv s -> guard_create s parts -> VolInv (fst (file_op s parts m a)).
Proof.
  intros I G. unfold Model.file_op. destruct (valid_parts parts); [|exact I]. cbn [negb].
  destruct (resolve s parts) as [r|x] eqn:R; [|exact I].
  destruct (match m with MRW => negb (r_exists r) | _ => false end); [exact I|].
  destruct (match m with MX => r_exists r | _ => false end); [exact I|].
  destruct (r_isdir r) eqn:D; [exact I|]. destruct r as [| |idx e]; [|discriminate|].
  - destruct (resolve s (parent parts)) as [pr|x] eqn:Rp; [|exact I].
    destruct (r_exists pr) eqn:Ep; [|exact I]. cbn [negb]. destruct (r_isdir pr) eqn:Dp; [|exact I]. cbn [negb].
    apply (create_then_session s parts pr m a I G R Rp Dp).
  - cbn in D. destruct (existing_session s parts idx e m a I R D) as (pr & l1 & l2 & _ & _ & _ & _ & _ & _ & _ & _ & X).
    apply X.
Qed.

Theorem file_op_refines s parts m a :
  VolInv s -> tilde_free upper parts -> guard_create s parts ->
  snd (file_op s parts m a) <> Err OSError_ENOSPC ->
  Spec.spec_file_op upper (abs_tree s) parts m a = (abs_tree (fst (file_op s parts m a)), snd (file_op s parts m a)).
Proof.
  intros I TF G NE. pose proof (file_op_inv s parts m a I G) as I'.
  destruct (VolInv_tree upper V s I) as (depth & T). destruct (VolInv_tree upper V _ I') as (depth' & T').
  unfold Spec.spec_file_op, Model.file_op in *. destruct (valid_parts parts); [|reflexivity]. cbn [negb] in *.
  pose proof (walk_abs upper s depth T (vi_names _ _ _ I) parts TF RRoot Logic.I) as WA.
  cbn [cur_node] in WA. fold (resolve s parts) in WA. rewrite <- (abs_tree_A s) in WA.
  destruct (resolve s parts) as [r|x] eqn:R.
  2:{ destruct WA as [-> ->]. reflexivity. }
  destruct r as [| |idx e].
  - (* nothing there: create *)
    rewrite WA. cbn [r_exists r_isdir negb] in *.
    destruct m; try reflexivity.
    all: destruct (parent_tf upper parts (resolve_nonroot upper s parts _ R ltac:(discriminate)) TF) as [TFp Hleaf].
    all: pose proof (walk_abs upper s depth T (vi_names _ _ _ I) (parent parts) TFp RRoot Logic.I) as WP;
      cbn [cur_node] in WP; fold (resolve s (parent parts)) in WP; rewrite <- (abs_tree_A s) in WP.
    all: destruct (resolve s (parent parts)) as [pr|x] eqn:Rp; [|destruct WP as [-> ->]; reflexivity].
    all: destruct pr as [| |pi pe]; [rewrite WP; reflexivity| |].
    all: try (destruct WP as (_ & WPt & _); rewrite WPt; cbn [cur_node r_exists r_isdir negb] in *).
    all: try (unfold ProofsTree.node_of; destruct (is_dir pe) eqn:Dpe; [cbn [negb] in *|reflexivity]).
    all: rewrite (abs_unfold s depth T).
    all: lazymatch goal with
         | Rp : Model.resolve upper _ (parent _) = Ok ?pr |- context [new_size ?mm _ 0] =>
           assert (Dp : r_isdir pr = true) by (cbn; assumption || reflexivity);
           destruct (create_then_session s parts pr mm a I G R Rp Dp) as (Ii & _ & Lo & _ & Cases);
           cbn zeta in Lo, Cases; cbn [r_index] in *;
           destruct Cases as [[Eo _]|(Eo & e' & Ll & En & Hd & Sz)]; [exfalso; apply NE; exact Eo|];
           rewrite Eo; f_equal; rewrite !abs_tree_A; symmetry;
           apply (abs_mod upper s depth _ depth' (fun ch => ch ++ [(leaf parts, File (new_size mm a 0))]) (r_index pr) T T' (vi_names _ _ _ I))
             with (cur := RRoot) (r := pr); try assumption; try reflexivity;
           [intros x Hx Nd; apply Lo; intros ->; apply Nd, desc_refl|];
           rewrite (abs_unfold _ depth' T'); f_equal; unfold kids_of; cbn [r_index]; rewrite Ll, map_app; cbn [List.map];
           f_equal; [apply map_ext_in; intros x Hx; f_equal;
                     apply (kids_same s depth _ depth' (r_index pr) T T' Ii); [intros y _ Hy; apply Lo, Hy|exact Hx]|];
           unfold ProofsTree.node_of; rewrite Hd, En, Sz; reflexivity
         end.
  - (* the root *)
    destruct WA as (_ & -> & _). cbn [cur_node r_exists r_isdir negb]. rewrite (abs_unfold s depth T).
    destruct m; reflexivity.
  - destruct WA as (_ & -> & _). cbn [cur_node r_exists r_isdir negb] in *. unfold ProofsTree.node_of.
    destruct (is_dir e) eqn:D; [rewrite (abs_unfold s depth T); destruct m; reflexivity|].
    destruct m; try reflexivity.
    all: lazymatch goal with
         | |- context [new_size ?mm _ (e_size _)] =>
           destruct (existing_session s parts idx e mm a I R D)
             as (pr & l1 & l2 & Rp & Dp & Ei & Ii & Epar & EL & F1 & Hh & _ & Lo & Oc & sz & c & Ll & Sz);
           destruct Oc as [Eo|Eo]; [|exfalso; apply NE; exact Eo];
           rewrite Eo; f_equal; rewrite !abs_tree_A; symmetry;
           destruct (parent_tf upper parts (resolve_nonroot upper s parts _ R ltac:(discriminate)) TF) as [TFp Hleaf];
           apply (abs_mod upper s depth _ depth' (Spec.tupd upper (upper (leaf parts)) (fun _ => File (new_size mm a (e_size e)))) idx T T' (vi_names _ _ _ I))
             with (cur := RRoot) (r := pr); try assumption; try reflexivity; try (symmetry; exact Ei);
           [intros x Hx Nd; apply Lo; intros ->; apply Nd, desc_refl|];
           rewrite (abs_unfold _ depth' T'); f_equal; unfold kids_of; rewrite Ll, EL;
           assert (Pl : plain upper (l1 ++ e :: l2) (upper (leaf parts)))
             by (rewrite <- EL; apply plain_of_names; [apply I|exact Hleaf]);
           destruct (split_plain upper l1 e l2 _ Pl F1 Hh) as [N1 Ne];
           rewrite (tupd_map_split upper (ProofsTree.node_of s) _ _ l1 e l2 N1 Ne), map_app; cbn [List.map];
           f_equal; [apply map_ext_in; intros x Hx; f_equal;
                     apply (kids_same s depth _ depth' idx T T' Ii); [intros y _ Hy; apply Lo, Hy|rewrite EL; apply in_mid; right; apply in_or_app; left; exact Hx]|];
           f_equal; [unfold ProofsTree.node_of; change (is_dir (set_val (e_attr e) sz c e)) with (is_dir e); rewrite D; cbn [set_val e_size e_name]; rewrite (Sz Eo); reflexivity|];
           apply map_ext_in; intros x Hx; f_equal;
           apply (kids_same s depth _ depth' idx T T' Ii); [intros y _ Hy; apply Lo, Hy|rewrite EL; apply in_mid; right; apply in_or_app; right; exact Hx]
         end.
Qed.
End FileOp.
