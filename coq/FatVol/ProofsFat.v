(* The FAT side of the volume invariant, as an algebra over (FAT, list of chain owners):
   [FInv f O]: the chain of every owner (first cluster) in O is well-formed per FatAlloc, the
   chains are pairwise disjoint and duplicate-free (NoDup of their concatenation), and every
   allocated FAT entry belongs to one of them (no lost cluster).
   One change lemma ([FInv_change]) covers every FatAlloc-level step: one owner's chain goes
   from m to m' with the exact footprint [xfoot]; everything else is untouched.
   Then the FatAlloc theorems are repackaged as footprints: free a chain, allocate one cluster
   (mkdir), grow a directory (write_clusters on its chain), one FatFile session. *)
From Coq Require Import List NArith Bool Lia Arith Permutation ZifyN ZifyNat ZifyBool.
From NV Require Import Lib.Res FatAlloc.Model FatAlloc.ProofsBase FatAlloc.ProofsGrow FatAlloc.ProofsOps
     FatAlloc.ProofsWrite FatAlloc.ProofsFrame FatAlloc.Proofs.
From NV Require Import FatVol.Model.
Import ListNotations.
Open Scope N_scope.

(* exact footprint: outside m and m' nothing changes; what is dropped becomes free; what is new
   was free *)
Definition xfoot (t m t' m' : list N) : Prop :=
  length t' = length t /\
  (forall c, ~ In c m -> ~ In c m' -> get t' c = get t c) /\
  (forall c, In c m -> ~ In c m' -> get t' c = 0) /\
  (forall c, In c m' -> ~ In c m -> get t c = 0).

Lemma xfoot_refl t m : xfoot t m t m.
Proof. split; [reflexivity|]. split; [reflexivity|]. split; intros c H1 H2; tauto. Qed.
Lemma xfoot_trans t m t1 m1 t2 m2 : xfoot t m t1 m1 -> xfoot t1 m1 t2 m2 -> xfoot t m t2 m2.
Proof.
  intros (L1 & A1 & B1 & C1) (L2 & A2 & B2 & C2). split; [congruence|]. split; [|split].
  - intros c H H2. destruct (in_dec N.eq_dec c m1) as [I|I].
    + rewrite (B2 c I H2). symmetry. apply C1; assumption.
    + rewrite (A2 c I H2). apply A1; assumption.
  - intros c H H2. destruct (in_dec N.eq_dec c m1) as [I|I].
    + apply B2; assumption.
    + rewrite (A2 c I H2). apply B1; assumption.
  - intros c H2 H. destruct (in_dec N.eq_dec c m1) as [I|I].
    + apply C1; assumption.
    + rewrite <- (A1 c H I). apply C2; assumption.
Qed.
Lemma xfoot_footprint t m t' m' : xfoot t m t' m' -> footprint t m t' m'.
Proof.
  intros (L & A & B & C). split; [exact L|]. split; [|exact C].
  intros c H1 H2. destruct (in_dec N.eq_dec c m') as [I|I]; [|apply A; assumption].
  exfalso. apply H2. apply C; assumption.
Qed.

Section Fat.
Variable V : vparams.
Notation P := (PP V).
Notation cs := (vp_cs V).
Notation limit := (vp_limit V).

Lemma POK : params_ok P.
Proof. apply params_ok_bits. Qed.

Definition chn (f : fat) (c : N) : list N := chain_of V f c.
Definition in_rng (c : N) : Prop := min_valid P <= c /\ c <= max_valid P.

Lemma chn_unfold f c :
  chn f c = if (min_valid P <=? c) && (c <=? max_valid P)
            then c :: chain P (ftbl f) (length (ftbl f)) (get (ftbl f) c) else [].
Proof. reflexivity. Qed.
Lemma chn_nil f c : ~ in_rng c -> chn f c = [].
Proof.
  intros H. rewrite chn_unfold. unfold in_rng in H.
  destruct (N.leb_spec (min_valid P) c); destruct (N.leb_spec c (max_valid P)); cbn; try reflexivity. lia.
Qed.
Lemma chn_ne f c : in_rng c -> exists r, chn f c = c :: r.
Proof.
  intros [H1 H2]. rewrite chn_unfold.
  destruct (N.leb_spec (min_valid P) c); destruct (N.leb_spec c (max_valid P)); cbn; try lia. eexists; reflexivity.
Qed.
Lemma chn_0 f : chn f 0 = [].
Proof. apply chn_nil. destruct POK as (H & _). unfold in_rng. lia. Qed.
Lemma chn_cases f c : (chn f c = [] /\ ~ in_rng c) \/ (exists r, chn f c = c :: r /\ in_rng c).
Proof.
  destruct (N.leb_spec (min_valid P) c) as [A|A]; [destruct (N.leb_spec c (max_valid P)) as [B|B]|].
  - right. destruct (chn_ne f c (conj A B)) as (r & E). exists r. split; [exact E|split; assumption].
  - left. split; [apply chn_nil|]; unfold in_rng; lia.
  - left. split; [apply chn_nil|]; unfold in_rng; lia.
Qed.
Lemma chn_nil_same f f' c : chn f c = [] -> chn f' c = [].
Proof. intros H. destruct (chn_cases f c) as [[_ N]|(r & E & _)]; [apply chn_nil, N|congruence]. Qed.
Lemma chn_of_wf f m : chain_wf P limit (ftbl f) m -> m <> [] -> chn f (hd 0 m) = m.
Proof.
  intros W Hn. unfold chn, chain_of. apply (chain_of_wf P limit); [exact POK|exact W|].
  pose proof (NoDup_len_le m (ftbl f) (cw_nodup _ _ _ _ W)
                (fun c Hc => proj1 (proj2 (proj2 (cw_range _ _ _ _ W c Hc))))). lia.
Qed.
Lemma chn_self f c : chain_wf P limit (ftbl f) (chn f c) -> forall f', chain_wf P limit (ftbl f') (chn f c) -> chn f' c = chn f c.
Proof.
  intros W f' W'. destruct (chn_cases f c) as [[E N]|(r & E & R)].
  - rewrite E. apply chn_nil, N.
  - rewrite E in *. change c with (hd 0 (c :: r)) at 1. apply chn_of_wf; [exact W'|discriminate].
Qed.

(* ---------------- the invariant over an explicit owner list ---------------- *)
Record FInv (f : fat) (O : list N) : Prop := {
  fi_wf : forall c, In c O -> chain_wf P limit (ftbl f) (chn f c);
  fi_nodup : NoDup (flat_map (chn f) O);
  fi_nolost : forall c, min_valid P <= c -> c < len (ftbl f) -> get (ftbl f) c <> 0 ->
                        In c (flat_map (chn f) O) }.

Lemma FInv_perm f O O' : Permutation O O' -> FInv f O -> FInv f O'.
Proof.
  intros Pm [W N L]. constructor.
  - intros c Hc. apply W. apply (Permutation_in _ (Permutation_sym Pm) Hc).
  - apply (Permutation_NoDup (Permutation_flat_map (chn f) Pm) N).
  - intros c H1 H2 H3. apply (Permutation_in _ (Permutation_flat_map (chn f) Pm)). apply L; assumption.
Qed.
(* an owner whose chain is empty (first cluster 0: an empty file) counts for nothing *)
Lemma FInv_add_empty f O c : chn f c = [] -> FInv f O -> FInv f (c :: O).
Proof.
  intros E [W N L]. constructor.
  - intros x [<-|Hx]; [rewrite E; apply chain_wf_nil|apply W, Hx].
  - cbn [flat_map]. rewrite E. exact N.
  - intros x H1 H2 H3. cbn [flat_map]. rewrite E. apply L; assumption.
Qed.
Lemma FInv_del_empty f O c : chn f c = [] -> FInv f (c :: O) -> FInv f O.
Proof.
  intros E [W N L]. cbn [flat_map] in *. rewrite E in *. constructor.
  - intros x Hx. apply W. right. exact Hx.
  - exact N.
  - exact L.
Qed.
Lemma FInv_disjoint f O c o x : FInv f (c :: O) -> In o O -> In x (chn f c) -> ~ In x (chn f o).
Proof.
  intros [_ N _] Ho Hx Hx'. cbn [flat_map] in N. apply NoDup_app_inv in N. destruct N as (_ & _ & D).
  apply (D x Hx). apply in_flat_map. exists o. split; assumption.
Qed.

(* ONE owner's chain changes from m to m'; nobody else notices *)
Theorem FInv_change f f' O c m' :
  FInv f (c :: O) ->
  xfoot (ftbl f) (chn f c) (ftbl f') m' -> chain_wf P limit (ftbl f') m' ->
  FInv f' (hd 0 m' :: O) /\ (forall o, In o O -> chn f' o = chn f o) /\ chn f' (hd 0 m') = m'.
Proof.
  intros I X W'. set (m := chn f c) in *.
  pose proof (xfoot_footprint _ _ _ _ X) as Fp. destruct X as (Lt & A & B & C).
  assert (Oth : forall o, In o O -> chain_wf P limit (ftbl f') (chn f o) /\
                                   (forall x, In x m' -> ~ In x (chn f o))).
  { intros o Ho. apply (footprint_other P POK limit _ _ _ _ (chn f o) Fp).
    - apply (fi_wf _ _ I). right. exact Ho.
    - intros x Hx. apply (FInv_disjoint f O c o x I Ho Hx). }
  assert (Same : forall o, In o O -> chn f' o = chn f o).
  { intros o Ho. apply chn_self; [apply (fi_wf _ _ I); right; exact Ho|apply Oth, Ho]. }
  assert (Own : chn f' (hd 0 m') = m').
  { destruct m' as [|a r]; [apply chn_0|]. apply chn_of_wf; [exact W'|discriminate]. }
  assert (FM : flat_map (chn f') O = flat_map (chn f) O).
  { clear -Same. induction O as [|o O IH]; [reflexivity|]. cbn [flat_map].
    rewrite Same by (left; reflexivity). f_equal. apply IH. intros x Hx. apply Same. right. exact Hx. }
  split; [|split; assumption]. constructor.
  - intros x [<-|Hx]; [rewrite Own; exact W'|]. rewrite (Same x Hx). apply Oth, Hx.
  - cbn [flat_map]. rewrite Own, FM. pose proof (fi_nodup _ _ I) as N. cbn [flat_map] in N.
    apply NoDup_app_inv in N. destruct N as (_ & N2 & _). apply NoDup_app_intro; [apply W'|exact N2|].
    intros x Hx Hf. apply in_flat_map in Hf. destruct Hf as (o & Ho & Hxo). exact (proj2 (Oth o Ho) x Hx Hxo).
  - intros x H1 H2 H3. cbn [flat_map]. rewrite Own, FM. apply in_or_app.
    destruct (in_dec N.eq_dec x m') as [I'|I']; [left; exact I'|right].
    destruct (in_dec N.eq_dec x m) as [Im|Im]; [exfalso; apply H3; apply B; assumption|].
    rewrite (A x Im I') in H3. unfold len in H2. rewrite Lt in H2.
    pose proof (fi_nolost _ _ I x H1 H2 H3) as Hin. cbn [flat_map] in Hin. apply in_app_or in Hin.
    destruct Hin as [Hin|Hin]; [contradiction|exact Hin].
Qed.

(* ---------------- FatAlloc steps as footprints ---------------- *)
(* unlink / rmdir / rename: for cluster in chain(c): mark_free(cluster) *)
Lemma free_chain_foot f c :
  chain_wf P limit (ftbl f) (chn f c) -> (chn f c = [] -> c = 0) ->
  xfoot (ftbl f) (chn f c) (ftbl (unlink_chain P f c)) [].
Proof.
  intros W Z. assert (E : c = hd 0 (chn f c)).
  { destruct (chn_cases f c) as [[E _]|(r & E & _)]; rewrite E; [apply Z, E|reflexivity]. }
  destruct (unlink_frees_all P POK limit f (chn f c) W) as (L & Zr & Fr). rewrite <- E in *.
  split; [exact L|]. split; [intros x H _; apply Fr, H|]. split; [intros x H _; apply Zr, H|intros x []].
Qed.

Hypothesis LIM : limit <= max_valid P + 1.

(* mkdir: cluster = next(fat.free()); fat.mark_end(cluster) *)
Lemma alloc_foot f c rest :
  free_scan P (ftbl f) limit (hint_of f) = c :: rest ->
  xfoot (ftbl f) [] (ftbl (mark_end P f c)) [c] /\ chain_wf P limit (ftbl (mark_end P f c)) [c] /\
  get (ftbl f) c = 0 /\ in_rng c.
Proof.
  intros E. assert (Fr : is_free P limit (ftbl f) c).
  { apply (free_in_data_area P (ftbl f) limit (hint_of f)). rewrite E. left. reflexivity. }
  destruct Fr as (F1 & F2 & F3 & F4). destruct POK as (Pm & Pmm & Pe).
  unfold mark_end. rewrite ftbl_fset. split; [|split; [|split]].
  - split; [apply set_length|]. split; [|split].
    + intros x _ Hx. apply get_set_other. intros ->. apply Hx. left. reflexivity.
    + intros x [].
    + intros x [<-|[]] _. exact F4.
  - constructor.
    + constructor; [intros []|constructor].
    + intros x [<-|[]]. unfold in_area. rewrite set_len. lia.
    + exact I.
    + cbn [ended last]. rewrite get_set_same by exact F3. lia.
  - exact F4.
  - unfold in_rng. lia.
Qed.

(* growth of the map by [extends] *)
Lemma extends_xfoot t m t' m' : extends P limit t m t' m' -> xfoot t m t' m'.
Proof.
  intros (L & new & E & Nn & F & R). subst m'. split; [exact L|]. split; [|split].
  - intros c H1 H2. apply R; [intros X; apply H1, last_opt_In, X|intros X; apply H2, in_or_app; right; exact X].
  - intros c H1 H2. exfalso. apply H2. apply in_or_app. left. exact H1.
  - intros c H1 H2. apply in_app_or in H1. destruct H1 as [H1|H1]; [contradiction|]. apply (F c H1).
Qed.

(* one step on an open file: well-formed afterwards, exact footprint *)
Definition sess (st st' : fstate) : Prop :=
  st_wf P cs limit st' /\ xfoot (tbl st) (map st) (tbl st') (map st').
Lemma sess_refl st : st_wf P cs limit st -> sess st st.
Proof. intros W. split; [exact W|apply xfoot_refl]. Qed.
Lemma sess_trans a b c : sess a b -> sess b c -> sess a c.
Proof. intros [_ X1] [W X2]. split; [exact W|apply (xfoot_trans _ _ _ _ _ _ X1 X2)]. Qed.
Lemma sess_seek st p : st_wf P cs limit st -> sess st (seek p st).
Proof. intros W. split; [exact W|apply xfoot_refl]. Qed.

Lemma sess_close st :
  st_wf P cs limit st -> sess st (close_release true st) /\
  (size (close_release true st) = 0 -> map (close_release true st) = []) /\
  size (close_release true st) = size st.
Proof.
  intros W. destruct (close_wf P cs limit st W) as (W' & L & Z & NZ). cbn zeta in *.
  destruct (N.eq_dec (size st) 0) as [E|E].
  - destruct (Z E) as (M & S0 & Zr & Fr). split; [split; [exact W'|]|split; [intros _; exact M|congruence]].
    split; [exact L|]. rewrite M. split; [intros c H _; apply Fr, H|]. split; [intros c H _; apply Zr, H|intros c []].
  - rewrite (NZ E). split; [apply sess_refl, W|]. split; [intros; contradiction|reflexivity].
Qed.
Hypothesis CS : 0 < cs.

Lemma sess_truncate st n st' :
  st_wf P cs limit st -> truncate P cs limit n st = Ok st' -> sess st st' /\ size st' = n.
Proof.
  intros W T. destruct (truncate_wf P POK cs limit CS LIM n st st' W T) as (W' & Sz & _ & L & C).
  split; [|exact Sz]. split; [exact W'|].
  destruct C as [(new & _ & _ & _ & X)|[(rem & _ & M & _ & Z & F)|(M & F)]].
  - apply extends_xfoot, X.
  - split; [exact L|]. split; [intros c H _; apply F, H|]. split.
    + intros c H1 H2. apply Z. rewrite M in H1. apply in_app_or in H1. tauto.
    + intros c H1 H2. exfalso. apply H2. rewrite M. apply in_or_app. left. exact H1.
  - unfold tbl. rewrite M, F. apply xfoot_refl.
Qed.
Lemma sess_write st n :
  st_wf P cs limit st -> sess st (fst (write_clusters P cs limit n st)).
Proof.
  intros W. destruct (write_wf P POK cs limit CS LIM n st W) as (W' & X & _).
  split; [exact W'|apply extends_xfoot, X].
Qed.
End Fat.
