(* rename, refinement groundwork II: the guard of the model is the prefix test of the plain
   tree ([guard_spec]); "the target is this very entry" is equality of the upper-cased paths
   ([same_entry_spec]). *)
From Coq Require Import List NArith Bool Lia Arith Permutation.
From NV Require Import Lib.Res FatVol.Model FatVol.Spec FatVol.ProofsBase FatVol.ProofsFat FatVol.ProofsInv
     FatVol.ProofsTree FatVol.ProofsWalk FatVol.ProofsOps FatVol.ProofsFile FatVol.ProofsRenameA FatVol.ProofsRenameB
     FatVol.ProofsRenameE FatVol.ProofsRenameF FatVol.ProofsRenameG.
Import ListNotations.
Open Scope N_scope.

Lemma proper_prefixes_snoc (p : list name) x : proper_prefixes_asc (p ++ [x]) = proper_prefixes_asc p ++ [p].
Proof.
  induction p as [|y p IH]; [reflexivity|]. cbn [app proper_prefixes_asc]. rewrite IH, map_app. reflexivity.
Qed.
Lemma parents_of_cons tgt : tgt <> [] -> parents_of tgt = parent tgt :: rev (proper_prefixes_asc (parent tgt)).
Proof.
  intros Hn. unfold parents_of. destruct tgt as [|t0 ts]; [congruence|].
  rewrite (parent_leaf (t0 :: ts)) at 1 by discriminate. rewrite proper_prefixes_snoc, rev_app_distr. reflexivity.
Qed.

Section RenH.
Variable upper : name -> name.
Variable V : vparams.
Notation lookup := (Model.lookup upper).
Notation resolve := (Model.resolve upper).
Notation VolInv := (VolInv upper V).

(* a prefix of a path that resolves (to anything) resolves too *)
Lemma resolve_prefix_ok s a rest r : resolve s (a ++ rest) = Ok r -> exists ra, resolve s a = Ok ra.
Proof.
  unfold Model.resolve. rewrite walk_app. destruct (Model.walk upper s RRoot a) as [ra|x]; [eexists; reflexivity|discriminate].
Qed.

Definition clash (s : vol) (c : N) (a : list name) : bool :=
  match resolve s a with
  | Ok r => r_isdir r && (match r with RFound _ _ => true | _ => false end) && (r_cluster r =? c)
  | Err _ => false
  end.
Lemma into_itself_ok s c ancs : (forall a, In a ancs -> exists r, resolve s a = Ok r) ->
  into_itself upper s c ancs = Ok (existsb (clash s c) ancs).
Proof.
  induction ancs as [|b r IH]; intros H; [reflexivity|]. cbn [into_itself existsb]. unfold clash at 1.
  destruct (H b (or_introl eq_refl)) as (rb & ->). cbn [bind].
  destruct (r_isdir rb && match rb with RFound _ _ => true | _ => false end && (r_cluster rb =? c)); [reflexivity|].
  cbn [orb]. apply IH. intros a Ha. apply H. right. exact Ha.
Qed.

Section One.
Variables (s : vol) (depth : N -> nat).
Hypothesis I : VolInv s.
Hypothesis T : TreeInv s depth.

Lemma guard_spec src tgt c se :
  tilde_free upper src -> tilde_free upper tgt -> resolve s src = Ok (RFound c se) -> is_dir se = true ->
  into_itself upper s c (parents_of tgt) =
  match resolve s (parent tgt) with
  | Err x => Err x
  | Ok _ => Ok (proper_prefix (upath upper src) (upath upper tgt))
  end.
Proof.
  intros TFs TFt Rs Ds.
  assert (Hsn : src <> []) by (intros ->; cbn in Rs; discriminate).
  assert (Ec : e_clu se = c).
  { assert (OK : cur_ok s (RFound c se)) by (apply (resolve_ok upper s _ _ Rs); discriminate).
    destruct OK as (k & _ & E). rewrite Ds in E. symmetry. exact E. }
  destruct tgt as [|t0 ts].
  - cbn [parents_of parent removelast into_itself]. cbn. destruct src; [congruence|reflexivity].
  - set (tgt := t0 :: ts) in *. assert (Hn : tgt <> []) by discriminate.
    rewrite (parents_of_cons tgt Hn).
    destruct (resolve s (parent tgt)) as [prt|x] eqn:Rp; [|cbn [into_itself]; rewrite Rp; reflexivity].
    rewrite <- (parents_of_cons tgt Hn).
    rewrite into_itself_ok.
    2:{ intros a Ha. destruct (parents_are_prefixes tgt a Hn Ha) as (rest & E). rewrite E in Rp. apply (resolve_prefix_ok s a rest prt Rp). }
    f_equal. apply eq_true_iff_eq. rewrite existsb_exists, proper_prefix_true. split.
    + intros (a & Ha & Cl). unfold clash in Cl. destruct (resolve s a) as [[| |i e]|x] eqn:Ra; try discriminate.
      cbn in Cl. apply andb_prop in Cl. destruct Cl as [Cl Ecl]. rewrite andb_true_r in Cl. apply N.eqb_eq in Ecl.
      assert (OK : cur_ok s (RFound i e)) by (apply (resolve_ok upper s _ _ Ra); discriminate).
      destruct OK as (k & _ & Ei). rewrite Cl in Ei.
      unfold parents_of in Ha. apply in_rev, in_proper_prefixes in Ha. destruct Ha as (y & rest & E).
      assert (TFa : tilde_free upper a) by (rewrite E in TFt; apply Forall_app in TFt; apply TFt).
      assert (Eu : upath upper a = upath upper src).
      { apply (path_unique upper s depth T (vi_names _ _ _ I) a src _ _ TFa TFs Ra Rs Cl Ds). cbn [r_index]. congruence. }
      exists (upper y), (upath upper rest). rewrite E, upath_app, Eu. reflexivity.
    + intros (z & rest' & E). set (a := firstn (length src) tgt).
      assert (Ea : upath upper a = upath upper src).
      { unfold a, upath. rewrite <- firstn_map. change (List.map upper tgt) with (upath upper tgt). rewrite E.
        replace (length src) with (length (upath upper src)) by (unfold upath; apply map_length).
        rewrite firstn_app, firstn_all, Nat.sub_diag. cbn [firstn]. apply app_nil_r. }
      exists a. split.
      * change (In a (rev (proper_prefixes_asc tgt))). apply in_rev. rewrite rev_involutive. apply in_proper_prefixes.
        assert (Hs : skipn (length src) tgt <> []).
        { intros Z. apply (f_equal (@length name)) in Z. rewrite skipn_length in Z.
          assert (L1 : length tgt = (length src + S (length rest'))%nat).
          { rewrite <- (map_length upper tgt). change (List.map upper tgt) with (upath upper tgt). rewrite E, app_length.
            unfold upath. rewrite map_length. reflexivity. }
          change (length (@nil name)) with 0%nat in Z. lia. }
        destruct (skipn (length src) tgt) as [|y rest] eqn:Sk; [congruence|]. exists y, rest.
        rewrite <- Sk. symmetry. apply firstn_skipn.
      * unfold clash. rewrite (resolve_upath upper s a src Ea), Rs. cbn. rewrite Ds, Ec, N.eqb_refl. reflexivity.
Qed.

Lemma removelast_map {A B} (f : A -> B) l : removelast (List.map f l) = List.map f (removelast l).
Proof. induction l as [|x [|y r] IH]; [reflexivity|reflexivity|]. cbn [List.map removelast] in *. f_equal. exact IH. Qed.

Lemma same_entry_spec src tgt sidx tidx se te prs prt :
  tilde_free upper src -> tilde_free upper tgt ->
  src = parent src ++ [leaf src] -> tgt = parent tgt ++ [leaf tgt] ->
  resolve s (parent src) = Ok prs -> r_isdir prs = true -> sidx = r_index prs ->
  resolve s (parent tgt) = Ok prt -> r_isdir prt = true -> tidx = r_index prt ->
  in_store s sidx -> in_store s tidx ->
  lookup (upper (leaf src)) (items_of s sidx) = Some se -> lookup (upper (leaf tgt)) (items_of s tidx) = Some te ->
  (dir_start V tidx =? dir_start V sidx) && FatNames.Model.beq (e_alias te) (e_alias se) = lbeq (upath upper src) (upath upper tgt).
Proof.
  intros TFs TFt Es Et Rps Dps Esi Rpt Dpt Eti Is It Ls Lt.
  assert (TF1 : tilde_free upper (parent src) /\ ~ In 126 (upper (leaf src))).
  { rewrite Es in TFs. apply Forall_app in TFs. destruct TFs as [A B]. split; [exact A|inversion B; assumption]. }
  assert (TF2 : tilde_free upper (parent tgt) /\ ~ In 126 (upper (leaf tgt))).
  { rewrite Et in TFt. apply Forall_app in TFt. destruct TFt as [A B]. split; [exact A|inversion B; assumption]. }
  apply eq_true_iff_eq. rewrite andb_true_iff, N.eqb_eq, beq_true, lbeq_true. split.
  - intros [Ed Ea]. assert (Hts : tidx = sidx) by (apply (dir_start_inj upper V s); assumption).
    rewrite Hts in Lt, It, Eti.
    assert (te = se).
    { apply (NoDup_map_inj e_alias (lives_of s sidx)); [apply (vi_names _ _ _ I sidx)|apply (proj1 (lookup_In upper _ _ _ Lt))|apply (proj1 (lookup_In upper _ _ _ Ls))|exact Ea]. }
    subst te. rewrite Es, Et, !upath_app. f_equal.
    + apply (path_unique upper s depth T (vi_names _ _ _ I) _ _ prs prt (proj1 TF1) (proj1 TF2) Rps Rpt Dps Dpt). congruence.
    + cbn [upath List.map]. f_equal.
      rewrite <- (lookup_name upper (upper (leaf src)) _ se (plain_of_names upper _ _ (vi_names _ _ _ I sidx) (proj2 TF1)) Ls).
      apply (lookup_name upper (upper (leaf tgt)) _ se (plain_of_names upper _ _ (vi_names _ _ _ I sidx) (proj2 TF2)) Lt).
  - intros Eu.
    assert (Ep : upath upper (parent src) = upath upper (parent tgt)).
    { unfold parent, upath. rewrite <- !removelast_map. fold (upath upper src). fold (upath upper tgt). rewrite Eu. reflexivity. }
    assert (El : upper (leaf src) = upper (leaf tgt)).
    { rewrite Es, Et, !upath_app in Eu. rewrite Ep in Eu. apply app_inv_head in Eu. inversion Eu. reflexivity. }
    rewrite (resolve_upath upper s _ _ Ep), Rpt in Rps. inversion Rps; subst prs. subst sidx tidx.
    rewrite El, Lt in Ls. inversion Ls; subst te. split; reflexivity.
Qed.
End One.
End RenH.
