(* Groundwork for rename: resolving a path in a state that differs in a few directories
   ([resolve_frame]), look-ups after delete / update, the ancestors of a resolved directory
   ([resolve_ancestors]) and what the into-itself guard excludes ([into_itself_false]). *)
From Coq Require Import List NArith Bool Lia Arith Permutation.
From NV Require Import Lib.Res FatVol.Model FatVol.Spec FatVol.ProofsBase FatVol.ProofsFat FatVol.ProofsInv
     FatVol.ProofsTree FatVol.ProofsWalk FatVol.ProofsOps.
Import ListNotations.
Open Scope N_scope.

(* [a] is a prefix of [p] *)
Definition is_prefix (a p : list name) : Prop := exists rest, p = a ++ rest.
Lemma prefix_snoc a p x : is_prefix a (p ++ [x]) -> is_prefix a p \/ a = p ++ [x].
Proof.
  intros (rest & E). destruct rest as [|y rest] using rev_ind.
  - right. rewrite app_nil_r in E. auto.
  - left. rewrite app_assoc in E. apply app_inj_tail in E. destruct E as [E _]. exists rest. exact E.
Qed.
Lemma in_proper_prefixes l a : In a (proper_prefixes_asc l) <-> exists y rest, l = a ++ y :: rest.
Proof.
  revert a. induction l as [|x l IH]; intros a; cbn [proper_prefixes_asc].
  - split; [intros []|]. intros (y & rest & E). destruct a; discriminate.
  - split.
    + intros [<-|H]; [exists x, l; reflexivity|]. apply in_map_iff in H. destruct H as (b & <- & Hb).
      apply IH in Hb. destruct Hb as (y & rest & ->). exists y, rest. reflexivity.
    + intros (y & rest & E). destruct a as [|z a]; [left; reflexivity|right]. cbn in E. inversion E; subst.
      apply in_map. apply IH. exists y, rest. reflexivity.
Qed.

Section RenA.
Variable upper : name -> name.
Variable V : vparams.
Notation lookup := (Model.lookup upper).
Notation resolve := (Model.resolve upper).
Notation hit := (Model.hit upper).

(* ---------- look-ups after deleting / updating another entry ---------- *)
Lemma lookup_del_other k ks l x se :
  lookup ks l = Some se -> lookup k l = x -> x <> Some se -> lookup k (del_item upper ks l) = x.
Proof.
  intros Ls Lk Ne. destruct (lookup_split upper _ _ _ Ls) as (l1 & l2 & EL & F1 & Hs & D & _).
  rewrite lookup_lives in *. rewrite D. rewrite EL in Lk. subst x.
  clear -Ne. induction l1 as [|y l1 IH]; cbn [app find] in *.
  - destruct (hit k se); [congruence|reflexivity].
  - destruct (hit k y); [reflexivity|]. apply IH, Ne.
Qed.
(* ---------- resolving in a state that agrees on the look-ups made ---------- *)
Lemma resolve_frame s s' p :
  (forall q x pr, is_prefix (q ++ [x]) p -> resolve s q = Ok pr -> r_isdir pr = true ->
                  lookup (upper x) (items_of s' (r_index pr)) = lookup (upper x) (items_of s (r_index pr))) ->
  resolve s' p = resolve s p.
Proof.
  induction p as [|x p IHp] using rev_ind; intros H; [reflexivity|].
  rewrite !(resolve_snoc upper).
  rewrite IHp by (intros q y pr (rest & E) R D; apply (H q y pr); [exists (rest ++ [x]); rewrite E, <- app_assoc; reflexivity|assumption|assumption]).
  destruct (resolve s p) as [[| |i e]|err] eqn:R; try reflexivity.
  - assert (E : lookup (upper x) (items_of s' (r_index RRoot)) = lookup (upper x) (items_of s (r_index RRoot)))
      by (apply (H p x RRoot); [exists []; rewrite app_nil_r; reflexivity|exact R|reflexivity]).
    cbn [r_isdir r_index] in *. rewrite E. reflexivity.
  - destruct (r_isdir (RFound i e)) eqn:D; [|reflexivity].
    rewrite (H p x (RFound i e)); [reflexivity|exists []; rewrite app_nil_r; reflexivity|exact R|exact D].
Qed.

Lemma walk_not_root s parts : forall cur, parts <> [] -> Model.walk upper s cur parts <> Ok RRoot.
Proof.
  induction parts as [|h t IH]; intros cur Hn; [congruence|].
  rewrite walk_cons. destruct (r_isdir cur); [|discriminate].
  destruct (Model.lookup upper (upper h) (items_of s (r_index cur))); [|discriminate].
  destruct t; [cbn; discriminate|apply IH; discriminate].
Qed.

(* the entry selected for the last component of a path that leads on to a directory *)
Lemma resolve_prefix_dir s q x rest r :
  resolve s ((q ++ [x]) ++ rest) = Ok r -> r_isdir r = true ->
  exists pr e, resolve s q = Ok pr /\ r_isdir pr = true /\
               lookup (upper x) (items_of s (r_index pr)) = Some e /\ is_dir e = true /\
               resolve s (q ++ [x]) = Ok (RFound (e_clu e) e).
Proof.
  intros R D. unfold Model.resolve in R. rewrite walk_app in R. fold (resolve s (q ++ [x])) in R.
  destruct (resolve s (q ++ [x])) as [[| |i e]|err] eqn:W; try discriminate.
  - destruct (q ++ [x]) eqn:E; [destruct q; discriminate|]. inversion R; subst. discriminate.
  - exfalso. apply (walk_not_root s (q ++ [x]) RRoot); [destruct q; discriminate|exact W].
  - assert (Dz : is_dir e = true).
    { destruct (is_dir e) eqn:Dz; [reflexivity|]. destruct rest; cbn in R; [inversion R; subst; cbn in D; congruence|rewrite Dz in R; discriminate]. }
    rewrite (resolve_snoc upper) in W.
    destruct (resolve s q) as [[| |j y]|err] eqn:Rq; try discriminate.
    + cbn [r_isdir r_index] in W. destruct (lookup (upper x) (items_of s 0)) as [z|] eqn:L; [|discriminate].
      assert (z = e) by congruence. subst z. rewrite Dz in W. inversion W; subst.
      exists RRoot, e. auto.
    + destruct (r_isdir (RFound j y)) eqn:Dy; [|discriminate].
      destruct (lookup (upper x) (items_of s (r_index (RFound j y)))) as [z|] eqn:L; [|discriminate].
      assert (z = e) by congruence. subst z. rewrite Dz in W. inversion W; subst.
      exists (RFound j y), e. auto.
Qed.

(* ---------- the guard of rename ---------- *)
Lemma into_itself_false s c ancs : into_itself upper s c ancs = Ok false ->
  forall a i e, In a ancs -> resolve s a = Ok (RFound i e) -> is_dir e = true -> e_clu e <> c.
Proof.
  induction ancs as [|b ancs IH]; intros H a i e Ha R D; [destruct Ha|]. cbn [into_itself] in H.
  destruct (resolve s b) as [r|x] eqn:Rb; cbn [bind] in H; [|discriminate].
  destruct (r_isdir r && match r with RFound _ _ => true | _ => false end && (r_cluster r =? c)) eqn:T; [discriminate|].
  destruct Ha as [<-|Ha]; [|apply (IH H a i e Ha R D)].
  rewrite R in Rb. inversion Rb; subst. cbn in T. rewrite D in T. cbn in T. apply N.eqb_neq. exact T.
Qed.
Lemma into_itself_err s c ancs x : into_itself upper s c ancs = Err x ->
  exists a, In a ancs /\ resolve s a = Err x.
Proof.
  induction ancs as [|b ancs IH]; cbn [into_itself]; [discriminate|].
  destruct (resolve s b) as [r|y] eqn:Rb; cbn [bind].
  - destruct (r_isdir r && match r with RFound _ _ => true | _ => false end && (r_cluster r =? c)); [discriminate|].
    intros H. destruct (IH H) as (a & Ha & Ra). exists a. split; [right; exact Ha|exact Ra].
  - intros H. inversion H; subst. exists b. split; [left; reflexivity|exact Rb].
Qed.
End RenA.
