(* rename: the mutation part keeps the invariant when the source is a DIRECTORY moved to a fresh
   name: the new entry names it, its '..' is redirected, depths below it shift. *)
From Coq Require Import List NArith Bool Lia Arith Permutation.
From NV Require Import Lib.Res FatAlloc.Model FatAlloc.ProofsBase.
From NV Require Import FatVol.Model FatVol.Spec FatVol.ProofsBase FatVol.ProofsFat FatVol.ProofsInv
     FatVol.ProofsTree FatVol.ProofsWalk FatVol.ProofsOps FatVol.ProofsFatOps FatVol.ProofsUnlink FatVol.ProofsFile
     FatVol.ProofsRenameA FatVol.ProofsRenameB FatVol.ProofsRenameC.
Import ListNotations.
Open Scope N_scope.

(* ---------- set_dotdot ---------- *)
Lemma flat_put_same_items {A} (h : N -> list item -> list A) ds c d' :
  (forall d, find_dir ds c = Some d -> d_items d' = d_items d) -> (exists d, find_dir ds c = Some d) ->
  flat_map (fun kd => h (fst kd) (d_items (snd kd))) (put_dir ds c d') = flat_map (fun kd => h (fst kd) (d_items (snd kd))) ds.
Proof.
  induction ds as [|[k x] r IH]; cbn [find_dir put_dir flat_map]; intros E (d & F); [discriminate|].
  destruct (N.eqb_spec k c) as [->|Hn]; cbn [flat_map fst snd].
  - rewrite (E x eq_refl). reflexivity.
  - f_equal. apply IH; [exact E|exists d; exact F].
Qed.
Lemma set_dotdot_lives s c pc k : lives_of (set_dotdot s c pc) k = lives_of s k.
Proof.
  unfold lives_of, items_of, get_dir, set_dotdot. cbn [v_dirs]. destruct (N.eq_dec k c) as [->|H].
  - rewrite find_put_same. reflexivity.
  - rewrite find_put_other by exact H. reflexivity.
Qed.
Lemma set_dotdot_get_other s c pc k : k <> c -> get_dir (set_dotdot s c pc) k = get_dir s k.
Proof. intros H. unfold get_dir, set_dotdot. cbn [v_dirs]. rewrite find_put_other by exact H. reflexivity. Qed.
Lemma set_dotdot_get_same s c pc :
  d_dot (get_dir (set_dotdot s c pc) c) = d_dot (get_dir s c) /\ d_dotdot (get_dir (set_dotdot s c pc) c) = pc.
Proof. unfold get_dir at 1 3, set_dotdot. cbn [v_dirs]. rewrite find_put_same. split; reflexivity. Qed.
Lemma set_dotdot_keys s c pc : in_store s c -> List.map fst (v_dirs (set_dotdot s c pc)) = List.map fst (v_dirs s).
Proof. intros H. apply in_store_find in H. destruct H as (d & H). apply (keys_put_present _ _ _ _ H). Qed.
Lemma set_dotdot_owners V s c pc : in_store s c -> owners V (set_dotdot s c pc) = owners V s.
Proof.
  intros H. apply in_store_find in H. unfold owners, set_dotdot. cbn [v_dirs].
  apply (flat_put_same_items (fun k l => dir_start V k :: fclus (lives l))); [|exact H].
  intros d F. cbn [d_items]. rewrite (get_dir_find _ _ _ F). reflexivity.
Qed.
Lemma set_dotdot_refs s c pc : in_store s c -> dir_refs (set_dotdot s c pc) = dir_refs s.
Proof.
  intros H. apply in_store_find in H. unfold dir_refs, set_dotdot. cbn [v_dirs].
  apply (flat_put_same_items (fun _ l => sub_refs (lives l))); [|exact H].
  intros d F. cbn [d_items]. rewrite (get_dir_find _ _ _ F). reflexivity.
Qed.

Section RenD.
Variable upper : name -> name.
Variable V : vparams.
Hypothesis PW : params_wf V.
Notation P := (PP V).
Notation VolInv := (VolInv upper V).
Notation lookup := (Model.lookup upper).

Section DirTail.
Variables (s0 : vol) (sidx tidx : N) (ks kt : name) (se te : entry) (depth : N -> nat).
Hypothesis I0 : VolInv s0.
Hypothesis T0 : TreeInv s0 depth.
Hypothesis Is : in_store s0 sidx.
Hypothesis It : in_store s0 tidx.
Hypothesis Ls : lookup ks (items_of s0 sidx) = Some se.
Hypothesis Lt : lookup kt (items_of s0 tidx) = Some te.
Hypothesis Dt : is_dir te = false.
Hypothesis Zt : e_clu te = 0.
Hypothesis Ds : is_dir se = true.
Hypothesis Nd : ~ Desc s0 depth (e_clu se) tidx.
Let c := e_clu se.
Let te' := set_val (e_attr se) (e_size se) (e_clu se) te.
Let s2 := ren2 upper s0 sidx tidx ks kt se.
Let s' := set_dotdot s2 c tidx.

Lemma Ne_dir : ~ (sidx = tidx /\ se = te).
Proof. intros [_ E]. rewrite E in Ds. congruence. Qed.

(* is x inside the moved sub-tree? *)
Definition descb (x : N) : bool := existsb (fun n => anc s0 n x =? c) (seq 0 (S (depth x))).
Lemma descb_spec x : descb x = true <-> Desc s0 depth c x.
Proof.
  unfold descb, Desc. rewrite existsb_exists. split.
  - intros (n & Hn & E). apply in_seq in Hn. apply N.eqb_eq in E. exists n. split; [lia|exact E].
  - intros (n & Hn & E). exists n. split; [apply in_seq; lia|apply N.eqb_eq, E].
Qed.
Definition depth' (x : N) : nat := if descb x then (depth x - depth c + S (depth tidx))%nat else depth x.

Theorem tail_dir_inv : VolInv s'.
Proof.
  pose proof Ne_dir as Ne.
  assert (Hse : In se (lives_of s0 sidx)) by apply (lookup_In upper _ _ _ Ls).
  destruct (vi_subdirs _ _ _ I0 sidx se Hse Ds) as (Cn & Sz & Ic & Dotc & Ddc). fold c in Cn, Ic, Dotc, Ddc.
  assert (S3 : (if e_clu te =? 0 then s2 else free_chain V s2 (e_clu te)) = s2) by (rewrite Zt; reflexivity).
  destruct (s3_fat upper V PW s0 sidx tidx ks kt se te I0 Is It Ls Lt Dt Ne) as [Fi Same]. fold s2 in Fi, Same. rewrite S3 in Fi, Same.
  assert (Ent : forall k y, In y (lives_of s2 k) ->
            (k = tidx /\ y = te') \/ (In y (lives_of s0 k) /\ ~ (k = tidx /\ y = te) /\ ~ (k = sidx /\ y = se)))
    by (intros k y; apply (entries_s2 upper V); assumption).
  assert (IS2 : forall k, in_store s2 k <-> in_store s0 k) by (intros k; apply (ren2_in_store upper s0 sidx tidx ks kt se); assumption).
  assert (Ic2 : in_store s2 c) by (apply IS2, Ic).
  assert (IS : forall k, in_store s' k <-> in_store s0 k).
  { intros k. unfold in_store, s'. rewrite (set_dotdot_keys s2 c tidx Ic2). apply IS2. }
  assert (LV : forall k, lives_of s' k = lives_of s2 k) by (intros k; apply set_dotdot_lives).
  (* an old directory entry other than the moved one does not name c *)
  assert (NotC : forall k y, In y (lives_of s0 k) -> is_dir y = true -> ~ (k = sidx /\ y = se) -> e_clu y <> c).
  { intros k y Hy Hdy Nse E. destruct (vi_subdirs _ _ _ I0 k y Hy Hdy) as (_ & _ & _ & _ & Dy). rewrite E, Ddc in Dy. subst k.
    apply Nse. split; [reflexivity|]. pose proof (sub_refs_nodup s0 depth T0 sidx) as N. unfold sub_refs in N.
    apply (NoDup_map_inj e_clu _ y se N); [apply filter_In; auto|apply filter_In; auto|exact E]. }
  constructor.
  - unfold s'. rewrite (set_dotdot_owners V s2 c tidx Ic2). exact Fi.
  - unfold s'. rewrite (set_dotdot_keys s2 c tidx Ic2). unfold s2. rewrite (s2_keys upper s0 sidx tidx ks kt se Is It). apply I0.
  - apply IS, I0.
  - intros k Hk. apply (vi_keyrange _ _ _ I0). apply IS, Hk.
  - intros k y Hy Hdy. rewrite LV in Hy.
    assert (Ho : In (e_clu y) (owners V s2)) by apply (In_owners V s2 k y Hy Hdy).
    destruct (Ent k y Hy) as [[-> ->]|(Hy0 & _ & _)]; [change (is_dir te') with (is_dir se) in Hdy; congruence|].
    apply file_ok_same with (f := v_fat s0); [apply Same, Ho|apply (vi_files _ _ _ I0 k y Hy0 Hdy)].
  - intros k y Hy Hdy. rewrite LV in Hy. destruct (Ent k y Hy) as [[-> ->]|(Hy0 & _ & Nse)].
    + change (e_clu te') with c. change (e_size te') with (e_size se). unfold s'.
      destruct (set_dotdot_get_same s2 c tidx) as [-> ->].
      assert (Dots : d_dot (get_dir s2 c) = d_dot (get_dir s0 c) /\ d_dotdot (get_dir s2 c) = d_dotdot (get_dir s0 c)) by (apply (ren_dots upper)).
      destruct Dots as [-> _]. repeat split; try assumption. apply IS, Ic.
    + destruct (vi_subdirs _ _ _ I0 k y Hy0 Hdy) as (A1 & A2 & A3 & A4 & A5).
      pose proof (NotC k y Hy0 Hdy Nse) as Nc. unfold s'. rewrite (set_dotdot_get_other s2 c tidx _ Nc).
      assert (Dots : d_dot (get_dir s2 (e_clu y)) = d_dot (get_dir s0 (e_clu y)) /\ d_dotdot (get_dir s2 (e_clu y)) = d_dotdot (get_dir s0 (e_clu y))) by (apply (ren_dots upper)).
      destruct Dots as [-> ->]. repeat split; try assumption. apply IS, A3.
  - assert (Pm : Permutation (dir_refs s0) (dir_refs s2)) by (apply (refs_surgery upper) with (te := te); assumption).
    unfold s'. rewrite (set_dotdot_refs s2 c tidx Ic2). split; [apply (Permutation_NoDup Pm), I0|].
    intros k Hk Hn. apply (Permutation_in _ Pm). apply (proj2 (vi_refs _ _ _ I0)); [apply IS, Hk|exact Hn].
  - intros k. rewrite LV. apply (names_s2 upper V) with (te := te); assumption.
  - exists depth'. split.
    + unfold depth'. destruct (descb 0) eqn:B; [|apply T0]. exfalso. apply descb_spec in B.
      destruct B as (n & Hn & E). rewrite (ti_depth0 _ _ T0) in Hn. assert (n = 0%nat) by lia. subst n. cbn in E. congruence.
    + intros k y Hy Hdy. rewrite LV in Hy. destruct (Ent k y Hy) as [[-> ->]|(Hy0 & _ & Nse)].
      * change (e_clu te') with c. unfold depth'.
        assert (B1 : descb c = true) by (apply descb_spec, desc_refl).
        assert (B2 : descb tidx = false) by (destruct (descb tidx) eqn:B; [exfalso; apply Nd, descb_spec, B|reflexivity]).
        rewrite B1, B2. lia.
      * pose proof (NotC k y Hy0 Hdy Nse) as Nc. pose proof (ti_depth _ _ T0 k y Hy0 Hdy) as Dy.
        destruct (ti_subdirs _ _ T0 k y Hy0 Hdy) as (_ & _ & Iy & _ & Uy).
        pose proof (lives_in_store s0 k y Hy0) as Ik.
        assert (Eq : descb (e_clu y) = descb k).
        { apply eq_true_iff_eq. rewrite !descb_spec. split.
          - intros (n & Hn & E). destruct n as [|m]; [cbn in E; contradiction|]. exists m. split; [lia|].
            replace (S m) with (m + 1)%nat in E by lia. rewrite anc_add in E. cbn [anc] in E. unfold up in E. rewrite Uy in E. exact E.
          - intros (n & Hn & E). exists (n + 1)%nat. split; [lia|]. rewrite anc_add. cbn [anc]. unfold up. rewrite Uy. exact E. }
        unfold depth'. rewrite Eq. destruct (descb k) eqn:B; [|exact Dy].
        apply descb_spec in B. destruct (desc_depth s0 depth T0 c k Ik B) as [_ Dle]. lia.
Qed.
End DirTail.
End RenD.
