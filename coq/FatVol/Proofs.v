(* Main theorems of the composition layer of C04 (path operations at record level), stated
   without section context.  Guards, everywhere:
     params_wf V         0 < cluster size, limit <= max_valid + 1, FAT32 root cluster in range
     tilde_free p        no component of the path contains '~' after upper(): it cannot be taken
                         for a generated 8.3 alias (names are then found by NAME, as the tree does)
     guard_create s p    if the operation creates an entry for p: _get_names succeeds and the names
                         it produces (name, alias) collide with nothing in that directory
                         ([fresh_names]; FatNames.alias_unique is the lower-layer theorem about it)
     outcome <> ENOSPC   for the REFINEMENT only (the plain tree knows no space); the invariant is
                         kept by every outcome. *)
From Coq Require Import List NArith Bool Lia Arith Permutation.
From NV Require Import Lib.Res FatAlloc.Model FatAlloc.ProofsBase.
From NV Require Import FatVol.Model FatVol.Spec FatVol.ProofsBase FatVol.ProofsFat FatVol.ProofsInv
     FatVol.ProofsTree FatVol.ProofsWalk FatVol.ProofsOps FatVol.ProofsUnlink FatVol.ProofsFile FatVol.ProofsFileOp
     FatVol.ProofsRmdir FatVol.ProofsMkdir FatVol.ProofsRenameF FatVol.ProofsRenameL.
Import ListNotations.
Open Scope N_scope.

Section Main.
Variable upper : name -> name.
Variable V : vparams.
Hypothesis PW : params_wf V.
Notation VolInv := (VolInv upper V).
Notation step := (Model.step upper V).
Notation run := (Model.run upper V).

Definition op_guard (s : vol) (o : op) : Prop :=
  match o with
  | OFile p _ _ => tilde_free upper p /\ guard_create upper s p
  | OUnlink p => tilde_free upper p
  | OMkdir p => tilde_free upper p /\ guard_create upper s p
  | ORmdir p => tilde_free upper p
  | ORename p q => tilde_free upper p /\ tilde_free upper q /\ guard_create upper s q
  end.

(* op_preserves_inv: every operation, every outcome *)
Theorem FV_step_inv s o : VolInv s -> op_guard s o -> VolInv (fst (step s o)).
Proof.
  intros I G. destruct o as [p m a|p|p|p|p q]; cbn [Model.step op_guard] in *.
  - apply (file_op_inv upper V PW); tauto.
  - apply (unlink_inv upper V PW); assumption.
  - apply (mkdir_inv upper V PW); tauto.
  - apply (rmdir_inv upper V); assumption.
  - apply (rename_inv upper V PW); tauto.
Qed.

(* op_refines: outcome and tree are those of the plain model *)
Theorem FV_step_refines s o : VolInv s -> op_guard s o -> snd (step s o) <> Err OSError_ENOSPC ->
  spec_step upper (abs_tree s) o = (abs_tree (fst (step s o)), snd (step s o)).
Proof.
  intros I G NE. destruct o as [p m a|p|p|p|p q]; cbn [Model.step Spec.spec_step op_guard] in *.
  - apply (file_op_refines upper V PW); tauto.
  - apply (unlink_refines upper V PW); assumption.
  - apply (mkdir_refines upper V PW); tauto.
  - apply (rmdir_refines upper V); assumption.
  - apply (rename_refines upper V PW); tauto.
Qed.

(* a failing operation of the plain model changes nothing: so neither does the volume's tree *)
Lemma spec_err_unchanged t o t' x : spec_step upper t o = (t', Err x) -> t' = t.
Proof.
  destruct o as [p m a|p|p|p|p q]; cbn [Spec.spec_step].
  - unfold Spec.spec_file_op. repeat (match goal with |- context [match ?c with _ => _ end] => destruct c end; try (intros H; inversion H; reflexivity)).
  - unfold Spec.spec_unlink. repeat (match goal with |- context [match ?c with _ => _ end] => destruct c end; try (intros H; inversion H; reflexivity)).
  - unfold Spec.spec_mkdir. repeat (match goal with |- context [match ?c with _ => _ end] => destruct c end; try (intros H; inversion H; reflexivity)).
  - unfold Spec.spec_rmdir. repeat (match goal with |- context [match ?c with _ => _ end] => destruct c end; try (intros H; inversion H; reflexivity)).
  - unfold Spec.spec_rename. repeat (match goal with |- context [match ?c with _ => _ end] => destruct c end; try (intros H; inversion H; reflexivity)).
Qed.
Theorem FV_failure_keeps_tree s o x : VolInv s -> op_guard s o -> snd (step s o) = Err x -> x <> OSError_ENOSPC ->
  abs_tree (fst (step s o)) = abs_tree s.
Proof.
  intros I G E NE. assert (NE' : snd (step s o) <> Err OSError_ENOSPC) by (rewrite E; congruence).
  pose proof (FV_step_refines s o I G NE') as R. rewrite E in R. apply (spec_err_unchanged _ o _ x R).
Qed.

(* histories *)
Fixpoint run_guard (s : vol) (ops : list op) : Prop :=
  match ops with
  | [] => True
  | o :: rest => op_guard s o /\ run_guard (fst (step s o)) rest
  end.
Fixpoint run_no_enospc (s : vol) (ops : list op) : Prop :=
  match ops with
  | [] => True
  | o :: rest => snd (step s o) <> Err OSError_ENOSPC /\ run_no_enospc (fst (step s o)) rest
  end.

Theorem FV_history_inv ops : forall s, VolInv s -> run_guard s ops -> VolInv (fst (run s ops)).
Proof.
  induction ops as [|o rest IH]; intros s I G; cbn [Model.run fst]; [exact I|].
  destruct G as [G1 G2]. apply IH; [apply (FV_step_inv s o I G1)|exact G2].
Qed.
Theorem FV_history_refines ops : forall s, VolInv s -> run_guard s ops -> run_no_enospc s ops ->
  VolInv (fst (run s ops)) /\
  spec_run upper (abs_tree s) ops = (abs_tree (fst (run s ops)), snd (run s ops)).
Proof.
  induction ops as [|o rest IH]; intros s I G N; cbn [Model.run Spec.spec_run fst snd]; [split; [exact I|reflexivity]|].
  destruct G as [G1 G2]. destruct N as [N1 N2].
  rewrite (FV_step_refines s o I G1 N1). cbn [fst snd].
  destruct (IH (fst (step s o)) (FV_step_inv s o I G1) G2 N2) as [I' R]. rewrite R. split; [exact I'|reflexivity].
Qed.
End Main.

(* the named operations of the task statement *)
Theorem FV_unlink_inv upper V s p : params_wf V -> VolInv upper V s -> VolInv upper V (fst (unlink upper V s p)).
Proof. intros PW. apply (unlink_inv upper V PW). Qed.
Theorem FV_unlink_fail_unchanged upper V s p x : snd (unlink upper V s p) = Err x -> fst (unlink upper V s p) = s.
Proof. apply unlink_fail_unchanged. Qed.
Theorem FV_rmdir_inv upper V s p : params_wf V -> VolInv upper V s -> VolInv upper V (fst (rmdir upper V s p)).
Proof. intros _. apply (rmdir_inv upper V). Qed.
Theorem FV_rmdir_fail_unchanged upper V s p x : snd (rmdir upper V s p) = Err x -> fst (rmdir upper V s p) = s.
Proof. apply rmdir_fail_unchanged. Qed.
Theorem FV_touch_inv upper V s p : params_wf V -> VolInv upper V s -> guard_create upper s p ->
  VolInv upper V (fst (touch upper V s p)).
Proof. intros PW. apply (file_op_inv upper V PW). Qed.
Theorem FV_create_file_inv upper V s p m : params_wf V -> VolInv upper V s -> guard_create upper s p ->
  VolInv upper V (fst (create_file upper V s p m)).
Proof. intros PW. apply (file_op_inv upper V PW). Qed.
Theorem FV_set_size_inv upper V s p n : params_wf V -> VolInv upper V s -> guard_create upper s p ->
  VolInv upper V (fst (set_size upper V s p n)).
Proof. intros PW. apply (file_op_inv upper V PW). Qed.
Theorem FV_mkdir_inv upper V s p : params_wf V -> VolInv upper V s -> guard_create upper s p ->
  VolInv upper V (fst (mkdir upper V s p)).
Proof. intros PW. apply (mkdir_inv upper V PW). Qed.
Theorem FV_rename_inv upper V s p q : params_wf V -> VolInv upper V s -> guard_create upper s q ->
  VolInv upper V (fst (rename upper V s p q)).
Proof. intros PW. apply (rename_inv upper V PW). Qed.
Theorem FV_rename_refines upper V s p q : params_wf V -> VolInv upper V s ->
  tilde_free upper p -> tilde_free upper q -> guard_create upper s q ->
  snd (rename upper V s p q) <> Err OSError_ENOSPC ->
  spec_rename upper (abs_tree s) p q = (abs_tree (fst (rename upper V s p q)), snd (rename upper V s p q)).
Proof. intros PW. apply (rename_refines upper V PW). Qed.

Print Assumptions FV_step_inv.
Print Assumptions FV_step_refines.
Print Assumptions FV_failure_keeps_tree.
Print Assumptions FV_history_inv.
Print Assumptions FV_history_refines.
Print Assumptions FV_rename_refines.
Print Assumptions FV_unlink_fail_unchanged.
Print Assumptions FV_rmdir_fail_unchanged.
