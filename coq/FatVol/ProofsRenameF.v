(* rename: what its preparation establishes (source and target entries, the touch of a missing
   target, re-resolutions), then the invariant for every branch ([rename_inv]). *)
From Coq Require Import List NArith Bool Lia Arith Permutation.
From NV Require Import Lib.Res FatAlloc.Model FatAlloc.ProofsBase.
From NV Require Import FatVol.Model FatVol.Spec FatVol.ProofsBase FatVol.ProofsFat FatVol.ProofsInv
     FatVol.ProofsTree FatVol.ProofsWalk FatVol.ProofsOps FatVol.ProofsFatOps FatVol.ProofsUnlink FatVol.ProofsFile
     FatVol.ProofsFileOp FatVol.ProofsMkdir FatVol.ProofsRenameA FatVol.ProofsRenameB FatVol.ProofsRenameC FatVol.ProofsRenameD
     FatVol.ProofsRenameE.
Import ListNotations.
Open Scope N_scope.

Lemma find_del_first_other (p q : entry -> bool) l e se :
  find p l = Some e -> find q l = Some se -> e <> se -> find p (del_first q l) = Some e.
Proof.
  induction l as [|x r IH]; cbn [find del_first]; [discriminate|]. intros Fp Fq Ne.
  destruct (q x) eqn:Qx.
  - inversion Fq; subst. destruct (p se) eqn:Px; [inversion Fp; congruence|exact Fp].
  - cbn [find]. destruct (p x); [exact Fp|]. apply IH; assumption.
Qed.
Lemma removelast_app_cons {A} (a : list A) y rest : removelast (a ++ y :: rest) = a ++ removelast (y :: rest).
Proof. apply removelast_app. discriminate. Qed.

Section RenF.
Variable upper : name -> name.
Variable V : vparams.
Hypothesis PW : params_wf V.
Notation P := (PP V).
Notation VolInv := (VolInv upper V).
Notation lookup := (Model.lookup upper).
Notation resolve := (Model.resolve upper).
Notation hit := (Model.hit upper).
Notation rename := (Model.rename upper V).

Lemma parents_are_prefixes tgt a : tgt <> [] -> In a (parents_of tgt) -> is_prefix a (parent tgt).
Proof.
  intros Hn H. unfold parents_of in H. destruct tgt as [|t0 ts]; [congruence|]. apply in_rev in H.
  apply in_proper_prefixes in H. destruct H as (y & rest & E). unfold parent. rewrite E, removelast_app_cons.
  exists (removelast (y :: rest)). reflexivity.
Qed.
Lemma into_itself_ext s s' c ancs : (forall a, In a ancs -> resolve s' a = resolve s a) ->
  into_itself upper s' c ancs = into_itself upper s c ancs.
Proof.
  induction ancs as [|b r IH]; intros H; [reflexivity|]. cbn [into_itself]. rewrite (H b (or_introl eq_refl)).
  destruct (resolve s b); cbn [bind]; [|reflexivity]. rewrite IH by (intros a' Ha; apply H; right; exact Ha). reflexivity.
Qed.

(* the touch of a missing target *)
Lemma touch_missing s tgt :
  VolInv s -> guard_create upper s tgt -> resolve s tgt = Ok RNone -> valid_parts tgt = true ->
  let x := touch upper V s tgt in
  VolInv (fst x) /\
  (snd x = Ok tt ->
   exists pr e, resolve s (parent tgt) = Ok pr /\ r_isdir pr = true /\ in_store s (r_index pr) /\
     lives_of (fst x) (r_index pr) = lives_of s (r_index pr) ++ [e] /\ e_name e = leaf tgt /\
     is_dir e = false /\ e_clu e = 0 /\
     (forall k, k <> r_index pr -> lives_of (fst x) k = lives_of s k) /\
     (forall k, in_store (fst x) k <-> in_store s k)).
Proof.
  intros I G R Vp x. pose proof (file_op_inv upper V PW s tgt MA ATouch I G) as I'. fold (touch upper V s tgt) in I'. fold x in I'.
  split; [exact I'|]. unfold x, touch, Model.file_op in *. clear x. rewrite Vp, R in *. cbn [negb r_exists r_isdir] in *.
  destruct (resolve s (parent tgt)) as [pr|err] eqn:Rp; [|cbn; discriminate].
  destruct (r_exists pr) eqn:Ep; [|cbn; discriminate]. cbn [negb] in *.
  destruct (r_isdir pr) eqn:Dp; [|cbn; discriminate]. cbn [negb] in *.
  destruct (create_then_session upper V PW s tgt pr MA ATouch I G R Rp Dp) as (Ii & _ & Lo & Ist & Cases). cbn zeta in *.
  intros Eo. destruct Cases as [[Eo' _]|(_ & e & Ll & En & Hd & Sz)]; [congruence|].
  exists pr, e. repeat (split; [assumption || reflexivity|]). split; [|split; assumption].
  assert (He : In e (lives_of (fst (match snd (setitem upper V s (r_index pr) (leaf tgt) 32 0 0) with
                 | Ok _ => match lookup (upper (leaf tgt)) (items_of (fst (setitem upper V s (r_index pr) (leaf tgt) 32 0 0)) (r_index pr)) with
                           | Some e0 => file_session upper V (fst (setitem upper V s (r_index pr) (leaf tgt) 32 0 0)) (r_index pr) e0 MA ATouch
                           | None => (fst (setitem upper V s (r_index pr) (leaf tgt) 32 0 0), Err KeyError) end
                 | Err e0 => (fst (setitem upper V s (r_index pr) (leaf tgt) 32 0 0), Err e0) end)) (r_index pr)))
    by (rewrite Ll; apply in_or_app; right; left; reflexivity).
  destruct (vi_files _ _ _ I' _ e He Hd) as [[Pos _]|[_ Z]]; [|exact Z].
  rewrite Sz in Pos. cbn in Pos. lia.
Qed.
(* ---------- rename, staged ---------- *)
(* source_index *)
Definition src_index (s : vol) (src tgt : list name) (ridx : N) (se : entry) : res N :=
  if is_dir se then
    do b <- into_itself upper s (e_clu se) (parents_of tgt);
    if b then Err OSError_Other else do pr <- resolve s (parent src); Ok (r_index pr)
  else Ok ridx.
(* state after the touch of a missing target / the checks on an existing one:
   Ok None = the very same entry; Ok (Some (target_index, target_cluster)) *)
Definition prepare (s : vol) (tgt : list name) (sidx : N) (se : entry) (tr : rres) : vol * res (option (N * N)) :=
  match tr with
  | RNone =>
    let x := touch upper V s tgt in
    match snd x with
    | Err e => (fst x, Err e)
    | Ok _ => match resolve (fst x) (parent tgt) with
              | Err e => (fst x, Err e)
              | Ok pr => (fst x, Ok (Some (r_index pr, 0)))
              end
    end
  | RRoot => (s, Err IsADirectory)
  | RFound tridx te =>
    match (if is_dir te then do pr <- resolve s (parent tgt); Ok (r_index pr) else Ok tridx) with
    | Err e => (s, Err e)
    | Ok tidx =>
      if (dir_start V tidx =? dir_start V sidx) && FatNames.Model.beq (e_alias te) (e_alias se)
      then (s, Ok None)
      else if is_dir te then (s, Err IsADirectory)
      else if is_dir se then (s, Err NotADirectory)
      else (s, Ok (Some (tidx, e_clu te)))
    end
  end.
Lemma rename_unfold s src tgt :
  rename s src tgt =
  if negb (valid_parts src && valid_parts tgt) then (s, Err ValueError) else
  match resolve s src with
  | Err x => (s, Err x)
  | Ok r =>
    if negb (r_exists r) then (s, Err FileNotFound) else
    match r with
    | RNone => (s, Err FileNotFound)
    | RRoot => (s, Err PermissionErr)
    | RFound ridx se =>
      match src_index s src tgt ridx se with
      | Err x => (s, Err x)
      | Ok sidx =>
        match resolve s tgt with
        | Err x => (s, Err x)
        | Ok tr =>
          match prepare s tgt sidx se tr with
          | (s0, Err e) => (s0, Err e)
          | (s0, Ok None) => (s0, Ok tt)
          | (s0, Ok (Some (tidx, tclu))) => rename_tail upper V s0 se sidx tidx tclu src tgt
          end
        end
      end
    end
  end.
Proof. reflexivity. Qed.

(* what the resolution of the source provides *)
Lemma src_facts s src tgt ridx se sidx :
  VolInv s -> resolve s src = Ok (RFound ridx se) -> src_index s src tgt ridx se = Ok sidx ->
  exists prs, resolve s (parent src) = Ok prs /\ r_isdir prs = true /\ sidx = r_index prs /\ in_store s sidx /\
              src = parent src ++ [leaf src] /\
              lookup (upper (leaf src)) (items_of s sidx) = Some se /\
              (is_dir se = true -> into_itself upper s (e_clu se) (parents_of tgt) = Ok false).
Proof.
  intros I R S. destruct (resolve_found upper s src ridx se R) as (prs & Ep & Rp & Dp & L & Ei).
  assert (OKp : cur_ok s prs) by (apply (resolve_ok upper s _ prs Rp); destruct prs; cbn in Dp; congruence).
  pose proof (cur_dir_store upper V s prs I OKp Dp) as Ii.
  exists prs. unfold src_index in S. destruct (is_dir se) eqn:Ds.
  - destruct (into_itself upper s (e_clu se) (parents_of tgt)) as [[|]|x] eqn:G; cbn [bind] in S; try discriminate.
    rewrite Rp in S. cbn [bind] in S. inversion S; subst sidx. repeat (split; [assumption || reflexivity|]). intros _. reflexivity.
  - inversion S; subst sidx. subst ridx. repeat (split; [assumption || reflexivity|]). discriminate.
Qed.

Lemma dir_start_inj s a b : VolInv s -> in_store s a -> in_store s b -> dir_start V a = dir_start V b -> a = b.
Proof.
  intros I Ia Ib E. unfold dir_start in E. destruct (N.eqb_spec a 0) as [->|Ha]; destruct (N.eqb_spec b 0) as [->|Hb]; auto.
  - exfalso. apply (proj2 (vi_keyrange _ _ _ I b Ib Hb)). symmetry. exact E.
  - exfalso. apply (proj2 (vi_keyrange _ _ _ I a Ia Ha)). exact E.
Qed.
(* a state that differs from s only in the records of the directory reached (and below) resolves
   the path to that directory, and every prefix of it, as s does *)
Lemma stable_same_above s depth s' p r :
  TreeInv s depth -> resolve s p = Ok r -> r_isdir r = true ->
  (forall d, in_store s d -> d <> r_index r -> lives_of s' d = lives_of s d) ->
  forall a, is_prefix a p -> resolve s' a = resolve s a.
Proof.
  intros T R D Same. apply (resolve_stable upper s depth T s' p r R D).
  intros d k e q x Id Dl L De _ _. rewrite <- L. apply lookup_same_lives. apply Same; [exact Id|]. intros E. rewrite E in Dl. lia.
Qed.

Lemma is_prefix_refl (p : list name) : is_prefix p p.
Proof. exists []. symmetry. apply app_nil_r. Qed.

(* ---------- the target exists ---------- *)
Lemma rename_existing_inv s src tgt sidx se tridx te tidx tclu :
  VolInv s -> in_store s sidx -> lookup (upper (leaf src)) (items_of s sidx) = Some se ->
  resolve s tgt = Ok (RFound tridx te) ->
  prepare s tgt sidx se (RFound tridx te) = (s, Ok (Some (tidx, tclu))) ->
  VolInv (fst (rename_tail upper V s se sidx tidx tclu src tgt)).
Proof.
  intros I Is Ls Rt Pr. destruct (resolve_found upper s tgt tridx te Rt) as (prt & Ep & Rp & Dp & Lt & Ei).
  assert (OKp : cur_ok s prt) by (apply (resolve_ok upper s _ prt Rp); destruct prt; cbn in Dp; congruence).
  pose proof (cur_dir_store upper V s prt I OKp Dp) as It.
  unfold prepare in Pr.
  assert (Et : (if is_dir te then do pr <- resolve s (parent tgt); Ok (r_index pr) else Ok tridx) = Ok (r_index prt)).
  { destruct (is_dir te); [rewrite Rp; reflexivity|congruence]. }
  rewrite Et in Pr.
  destruct ((dir_start V (r_index prt) =? dir_start V sidx) && FatNames.Model.beq (e_alias te) (e_alias se)) eqn:Same; [discriminate|].
  destruct (is_dir te) eqn:Dt; [discriminate|]. destruct (is_dir se) eqn:Ds; [discriminate|].
  inversion Pr; subst tidx tclu. unfold rename_tail. rewrite Ds. cbn [fst].
  apply (tail_file_inv upper V PW s sidx (r_index prt) _ _ se te I Is It Ls Lt Dt); [|exact Ds].
  intros [E1 E2]. subst. rewrite N.eqb_refl, beq_refl in Same. discriminate.
Qed.

(* ---------- the target is missing ---------- *)
Lemma rename_missing_inv s src tgt sidx se s0 tidx tclu :
  VolInv s -> guard_create upper s tgt -> valid_parts tgt = true ->
  in_store s sidx -> lookup (upper (leaf src)) (items_of s sidx) = Some se ->
  (is_dir se = true -> into_itself upper s (e_clu se) (parents_of tgt) = Ok false) ->
  resolve s tgt = Ok RNone ->
  prepare s tgt sidx se RNone = (s0, Ok (Some (tidx, tclu))) ->
  VolInv (fst (rename_tail upper V s0 se sidx tidx tclu src tgt)).
Proof.
  intros I G Vt Is Ls Gd Rt Pr. unfold prepare in Pr.
  destruct (touch_missing s tgt I G Rt Vt) as (I0 & Facts). cbn zeta in I0, Facts.
  destruct (snd (touch upper V s tgt)) as [[]|err] eqn:Eo; [|inversion Pr].
  destruct (Facts eq_refl) as (prt & e & Rp & Dp & It & Ll & En & De & Ce & Lo & Ist). clear Facts.
  destruct (VolInv_tree upper V s I) as (depth & T).
  assert (Hn : tgt <> []) by (intros ->; cbn in Rt; discriminate).
  assert (Stab : forall a, is_prefix a (parent tgt) -> resolve (fst (touch upper V s tgt)) a = resolve s a).
  { apply (stable_same_above s depth _ (parent tgt) prt T Rp Dp). intros d _ Hd. apply Lo, Hd. }
  rewrite (Stab _ (is_prefix_refl _)), Rp in Pr. inversion Pr; subst s0 tidx tclu. clear Pr.
  set (s0 := fst (touch upper V s tgt)) in *. set (tidx := r_index prt) in *.
  assert (Is0 : in_store s0 sidx) by (apply Ist, Is). assert (It0 : in_store s0 tidx) by (apply Ist, It).
  (* the source entry is still found, the new entry is the target *)
  destruct (resolve_missing upper s tgt Rt) as [_ [Rn|(prt' & Rp' & _ & Ln)]]; [rewrite Rn in Rp; inversion Rp; subst; discriminate|].
  assert (prt' = prt) by congruence. subst prt'. fold tidx in Ln.
  assert (Fn : find (hit (upper (leaf tgt))) (lives_of s tidx) = None) by (unfold lives_of; rewrite <- lookup_lives; exact Ln).
  assert (He : hit (upper (leaf tgt)) e = true) by (unfold Model.hit; rewrite En, beq_refl; reflexivity).
  assert (Ls0 : lookup (upper (leaf src)) (items_of s0 sidx) = Some se).
  { pose proof Ls as Ls'. rewrite lookup_lives in Ls' |- *. fold (lives_of s0 sidx). fold (lives_of s sidx) in Ls'.
    destruct (N.eq_dec sidx tidx) as [E|E].
    - rewrite E, Ll. apply find_app_some. rewrite <- E. exact Ls'.
    - rewrite (Lo sidx E). exact Ls'. }
  assert (Lt0 : lookup (upper (leaf tgt)) (items_of s0 tidx) = Some e).
  { rewrite lookup_lives. fold (lives_of s0 tidx). rewrite Ll, (find_app_none _ _ _ Fn). cbn [find]. rewrite He. reflexivity. }
  assert (Ne : ~ (sidx = tidx /\ se = e)).
  { intros [E1 E2]. subst e. pose proof Ls as Ls'. rewrite lookup_lives in Ls'. fold (lives_of s sidx) in Ls'. rewrite E1 in Ls'.
    apply find_some in Ls'. destruct Ls' as [Hin _]. pose proof (find_none _ _ Fn se Hin) as X. congruence. }
  unfold rename_tail. destruct (is_dir se) eqn:Ds.
  - (* a directory moves *)
    cbn [N.eqb]. destruct (VolInv_tree upper V s0 I0) as (depth0 & T0).
    assert (Rp0 : resolve s0 (parent tgt) = Ok prt) by (rewrite (Stab _ (is_prefix_refl _)); exact Rp).
    assert (G0 : into_itself upper s0 (e_clu se) (parents_of tgt) = Ok false).
    { rewrite (into_itself_ext s s0); [apply Gd; reflexivity|]. intros a Ha. apply Stab. apply (parents_are_prefixes tgt a Hn Ha). }
    assert (Hse : In se (lives_of s0 sidx)) by apply (lookup_In upper _ _ _ Ls0).
    destruct (vi_subdirs _ _ _ I0 sidx se Hse Ds) as (Cn & _).
    pose proof (guard_not_inside upper s0 depth0 (e_clu se) tgt prt T0 Hn Cn G0 Rp0 Dp) as Nd. fold tidx in Nd.
    (* the parent of the target is resolved again, after the surgery *)
    set (s2 := ren2 upper s0 sidx tidx (upper (leaf src)) (upper (leaf tgt)) se).
    assert (Rp2 : resolve s2 (parent tgt) = Ok prt).
    { rewrite <- Rp0. apply (resolve_stable upper s0 depth0 T0 s2 (parent tgt) prt Rp0 Dp); [|apply is_prefix_refl].
      intros d k y q x Id Dl L Dy Pq Rq.
      assert (Hd : d <> tidx) by (intros E; rewrite E in Dl; unfold tidx in Dl; lia).
      rewrite lookup_lives in L |- *. fold (lives_of s2 d). fold (lives_of s0 d) in L. unfold s2.
      rewrite (ren2_lives upper s0 sidx tidx _ _ se d), (ren1_lives upper s0 tidx _ se d).
      destruct (N.eqb_spec d tidx); [contradiction|]. destruct (N.eqb_spec d sidx) as [E|E]; [|exact L].
      subst d. apply (find_del_first_other _ _ _ y se L); [unfold lives_of; rewrite <- lookup_lives; exact Ls0|].
      intros Ey. subst y. destruct Pq as (rest & Eq).
      apply (into_itself_false upper s0 (e_clu se) _ G0 (q ++ [x]) (e_clu se) se); [|exact Rq|exact Ds|reflexivity].
      apply (prefix_in_parents tgt q x rest Hn Eq). }
    fold s2. rewrite Rp2. cbn [fst].
    assert (OKp : cur_ok s prt) by (apply (resolve_ok upper s _ prt Rp); destruct prt; cbn in Dp; congruence).
    rewrite (cur_cluster_index s prt OKp Dp). fold tidx.
    apply (tail_dir_inv upper V PW s0 sidx tidx _ _ se e depth0 I0 T0 Is0 It0 Ls0 Lt0 De Ce Ds Nd).
  - cbn [fst].
    pose proof (tail_file_inv upper V PW s0 sidx tidx _ _ se e I0 Is0 It0 Ls0 Lt0 De Ne Ds) as X.
    rewrite Ce in X. exact X.
Qed.

Lemma prepare_missing s tgt sidx se :
  prepare s tgt sidx se RNone =
  (fst (touch upper V s tgt),
   match snd (touch upper V s tgt) with
   | Err e => Err e
   | Ok _ => match resolve (fst (touch upper V s tgt)) (parent tgt) with
             | Err e => Err e
             | Ok pr => Ok (Some (r_index pr, 0))
             end
   end).
Proof. unfold prepare. destruct (snd (touch upper V s tgt)); [destruct (resolve _ _)|]; reflexivity. Qed.

Theorem rename_inv s src tgt : VolInv s -> guard_create upper s tgt -> VolInv (fst (rename s src tgt)).
Proof.
  intros I G. rewrite rename_unfold. destruct (valid_parts src && valid_parts tgt) eqn:Vp; [|exact I]. cbn [negb].
  apply andb_prop in Vp. destruct Vp as [Vs Vt].
  destruct (resolve s src) as [r|x] eqn:R; [|exact I]. destruct (r_exists r); [|exact I]. cbn [negb].
  destruct r as [| |ridx se]; try exact I.
  destruct (src_index s src tgt ridx se) as [sidx|x] eqn:S; [|exact I].
  destruct (src_facts s src tgt ridx se sidx I R S) as (prs & Rps & Dps & Esi & Is & Esrc & Ls & Gd).
  destruct (resolve s tgt) as [tr|x] eqn:Rt; [|exact I].
  destruct (prepare s tgt sidx se tr) as [s0 [[[tidx tclu]|]|err]] eqn:Pr.
  - destruct tr as [| |tridx te].
    + apply (rename_missing_inv s src tgt sidx se s0 tidx tclu I G Vt Is Ls Gd Rt Pr).
    + inversion Pr.
    + assert (s0 = s).
      { unfold prepare in Pr. destruct (if is_dir te then _ else _); [|inversion Pr; reflexivity].
        destruct (_ && _); [inversion Pr; reflexivity|]. destruct (is_dir te); [inversion Pr; reflexivity|].
        destruct (is_dir se); inversion Pr; reflexivity. }
      subst s0. apply (rename_existing_inv s src tgt sidx se tridx te tidx tclu I Is Ls Rt Pr).
  - (* the same entry *) cbn [fst]. destruct tr as [| |tridx te].
    + rewrite prepare_missing in Pr. destruct (snd (touch upper V s tgt)); [destruct (resolve (fst (touch upper V s tgt)) (parent tgt))|]; inversion Pr.
    + inversion Pr.
    + unfold prepare in Pr. destruct (if is_dir te then _ else _); [|inversion Pr].
      destruct (_ && _); [inversion Pr; subst; exact I|]. destruct (is_dir te); [inversion Pr|]. destruct (is_dir se); inversion Pr.
  - cbn [fst]. destruct tr as [| |tridx te].
    + rewrite prepare_missing in Pr. destruct (touch_missing s tgt I G Rt Vt) as (I0 & _). cbn zeta in I0.
      inversion Pr; subst; exact I0.
    + inversion Pr; subst. exact I.
    + unfold prepare in Pr. destruct (if is_dir te then _ else _); [|inversion Pr; subst; exact I].
      destruct (_ && _); [inversion Pr|]. destruct (is_dir te); [inversion Pr; subst; exact I|].
      destruct (is_dir se); inversion Pr; subst; exact I.
Qed.
End RenF.
