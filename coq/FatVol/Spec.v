(* The plain in-memory tree and the specification semantics of the path operations
   (sizes instead of contents), mirroring harness/fatops.py [Tree] / [apply_model]:
   children are kept in directory order, keys compare through [upper] (first match wins, on
   both sides), a new child goes to the end, a replaced child keeps the slot's name.
   Error CLASSES follow path.py where fatops.apply_model (which the checks use for
   succeed / fail only) names another class:
     - rename with a file on the way of the source or of the target: NotADirectoryError
       (apply_model: FileNotFoundError); the into-itself test comes before the look-up of the
       target's parent (apply_model: FileNotFoundError first);
     - open('xb') on an existing directory: FileExistsError (apply_model: IsADirectoryError);
     - the root as an operand: mkdir FileExistsError, rmdir / rename from EACCES
       (PermissionError), rename onto it / open IsADirectoryError (apply_model: not handled).
   The tree knows no space: ENOSPC is never an outcome here.
   At the end: [abs_tree], the tree read off a FatVol state.  Executable, no proofs. *)
From Coq Require Import List NArith Bool.
From NV Require Import Lib.Res FatVol.Model.
From NV Require FatNames.Model.
Import ListNotations.
Open Scope N_scope.

Inductive node := File (size : N) | Dir (children : list (name * node)).
Definition kids := list (name * node).

Section Spec.
Variable upper : name -> name.

(* ---------------- children lists; [k] is an upper-cased key ---------------- *)
Definition kmatch (k : name) (x : name * node) : bool := FatNames.Model.beq (upper (fst x)) k.
Fixpoint tfind (k : name) (l : kids) : option node :=
  match l with [] => None | x :: r => if kmatch k x then Some (snd x) else tfind k r end.
Fixpoint tupd (k : name) (g : node -> node) (l : kids) : kids :=
  match l with
  | [] => []
  | x :: r => if kmatch k x then (fst x, g (snd x)) :: r else x :: tupd k g r
  end.
Fixpoint tdel (k : name) (l : kids) : kids :=
  match l with [] => [] | x :: r => if kmatch k x then r else x :: tdel k r end.

(* Tree._walk: Err = 'notdir', Ok None = missing *)
Fixpoint twalk (t : node) (parts : list name) : res (option node) :=
  match parts with
  | [] => Ok (Some t)
  | h :: r =>
    match t with
    | File _ => Err NotADirectory
    | Dir ch => match tfind (upper h) ch with None => Ok None | Some n => twalk n r end
    end
  end.
(* the walk with '.' and '..' components, over the plain tree and a stack of the directories passed
   (innermost first): below the root '.' stays and '..' pops; AT the root neither exists as such (the
   root directory holds no dot entries), so they are looked up like any other name *)
Fixpoint twalkd (stk : list node) (t : node) (parts : list name) : res (option node) :=
  match parts with
  | [] => Ok (Some t)
  | h :: r =>
    match t with
    | File _ => Err NotADirectory
    | Dir ch =>
      let down := match tfind (upper h) ch with None => Ok None | Some n => twalkd (t :: stk) n r end in
      match stk with
      | [] => down
      | p :: stk' =>
        if FatNames.Model.beq (upper h) [46] then twalkd stk t r
        else if FatNames.Model.beq (upper h) [46; 46] then twalkd stk' p r
        else down
      end
    end
  end.
(* the dot-free path a dotted path stands for: below the root "." is dropped and ".." drops the
   component before it; at the root (nothing passed yet) both are kept as ordinary names, which
   is how the root directory, holding no dot entries, treats them.  [acc] = components kept so
   far, innermost first *)
Fixpoint lexnorm (acc : list name) (parts : list name) : list name :=
  match parts with
  | [] => rev acc
  | h :: r =>
    match acc with
    | [] => lexnorm [h] r
    | _ :: acc' =>
      if FatNames.Model.beq (upper h) [46] then lexnorm acc r
      else if FatNames.Model.beq (upper h) [46; 46] then lexnorm acc' r
      else lexnorm (h :: acc) r
    end
  end.
(* the nodes of a tree *)
Inductive reach (root : node) : node -> Prop :=
  | reach_root : reach root root
  | reach_child ch nm c : reach root (Dir ch) -> In (nm, c) ch -> reach root c.

(* apply [f] to the children of the directory at [dparts] *)
Fixpoint tmod (t : node) (dparts : list name) (f : kids -> kids) : node :=
  match t with
  | File s => File s
  | Dir ch =>
    match dparts with
    | [] => Dir (f ch)
    | h :: r => Dir (tupd (upper h) (fun n => tmod n r f) ch)
    end
  end.

Definition is_tdir (n : node) : bool := match n with Dir _ => true | File _ => false end.
Definition upath (p : list name) : list name := List.map upper p.
Fixpoint lbeq (a b : list name) : bool :=
  match a, b with
  | [], [] => true
  | x :: a', y :: b' => FatNames.Model.beq x y && lbeq a' b'
  | _, _ => false
  end.
(* [a] is a proper prefix of [b] *)
Fixpoint proper_prefix (a b : list name) : bool :=
  match a, b with
  | [], _ :: _ => true
  | x :: a', y :: b' => FatNames.Model.beq x y && proper_prefix a' b'
  | _, _ => false
  end.

(* ---------------- files: open(mode) ; one action ; close ---------------- *)
Definition new_size (m : omode) (a : fact) (old : N) : N :=
  let s0 := match m with MW | MX => 0 | _ => old end in
  match a with
  | ANone | ATouch => s0
  | AWrite p n =>
    let pos := match p with Some q => q | None => match m with MA => s0 | _ => 0 end end in
    N.max s0 (pos + n)
  | ATrunc n => n
  end.

Definition spec_file_op (t : node) (parts : list name) (m : omode) (a : fact) : node * res unit :=
  if negb (valid_parts parts) then (t, Err ValueError) else
  match twalk t parts with
  | Err x => (t, Err x)
  | Ok r =>
    if (match m, r with MRW, None => true | _, _ => false end) then (t, Err FileNotFound)
    else if (match m, r with MX, Some _ => true | _, _ => false end) then (t, Err FileExists)
    else
      match r with
      | Some (Dir _) => (t, Err IsADirectory)
      | Some (File old) =>
        (tmod t (parent parts) (tupd (upper (leaf parts)) (fun _ => File (new_size m a old))), Ok tt)
      | None =>
        match twalk t (parent parts) with
        | Err x => (t, Err x)
        | Ok None => (t, Err FileNotFound)
        | Ok (Some (File _)) => (t, Err NotADirectory)
        | Ok (Some (Dir _)) =>
          (tmod t (parent parts) (fun ch => ch ++ [(leaf parts, File (new_size m a 0))]), Ok tt)
        end
      end
  end.

Definition spec_unlink (t : node) (parts : list name) : node * res unit :=
  if negb (valid_parts parts) then (t, Err ValueError) else
  match twalk t parts with
  | Err x => (t, Err x)
  | Ok None => (t, Err FileNotFound)
  | Ok (Some (Dir _)) => (t, Err IsADirectory)
  | Ok (Some (File _)) => (tmod t (parent parts) (tdel (upper (leaf parts))), Ok tt)
  end.

Definition spec_mkdir (t : node) (parts : list name) : node * res unit :=
  if negb (valid_parts parts) then (t, Err ValueError) else
  match twalk t parts with
  | Err x => (t, Err x)
  | Ok (Some _) => (t, Err FileExists)
  | Ok None =>
    match twalk t (parent parts) with
    | Err x => (t, Err x)
    | Ok None => (t, Err FileNotFound)
    | Ok (Some (File _)) => (t, Err NotADirectory)
    | Ok (Some (Dir _)) => (tmod t (parent parts) (fun ch => ch ++ [(leaf parts, Dir [])]), Ok tt)
    end
  end.

Definition spec_rmdir (t : node) (parts : list name) : node * res unit :=
  if negb (valid_parts parts) then (t, Err ValueError) else
  match twalk t parts with
  | Err x => (t, Err x)
  | Ok None => (t, Err FileNotFound)
  | Ok (Some (File _)) => (t, Err NotADirectory)
  | Ok (Some (Dir ch)) =>
    match parts with
    | [] => (t, Err PermissionErr)
    | _ => match ch with
           | _ :: _ => (t, Err NotEmpty)
           | [] => (tmod t (parent parts) (tdel (upper (leaf parts))), Ok tt)
           end
    end
  end.

Definition spec_rename (t : node) (src tgt : list name) : node * res unit :=
  if negb (valid_parts src && valid_parts tgt) then (t, Err ValueError) else
  match twalk t src with
  | Err x => (t, Err x)
  | Ok None => (t, Err FileNotFound)
  | Ok (Some sn) =>
    match (if is_tdir sn then
             match src with
             | [] => Err PermissionErr
             | _ => match twalk t (parent tgt) with       (* the longest ancestor is resolved first *)
                    | Err x => Err x
                    | Ok _ => if proper_prefix (upath src) (upath tgt) then Err OSError_Other else Ok tt
                    end
             end
           else Ok tt) with
    | Err x => (t, Err x)
    | Ok _ =>
      match twalk t tgt with
      | Err x => (t, Err x)
      | Ok (Some tn) =>
        match tgt with
        | [] => (t, Err IsADirectory)
        | _ =>
          if lbeq (upath src) (upath tgt) then (t, Ok tt)          (* onto itself / a case variant *)
          else if is_tdir tn then (t, Err IsADirectory)
          else if is_tdir sn then (t, Err NotADirectory)
          else
            (* `del par['children'][name.upper()]`, then the target slot takes the node *)
            let t1 := tmod t (parent src) (tdel (upper (leaf src))) in
            (tmod t1 (parent tgt) (tupd (upper (leaf tgt)) (fun _ => sn)), Ok tt)
        end
      | Ok None =>
        match twalk t (parent tgt) with
        | Err x => (t, Err x)
        | Ok None => (t, Err FileNotFound)
        | Ok (Some (File _)) => (t, Err NotADirectory)
        | Ok (Some (Dir _)) =>
          let t1 := tmod t (parent src) (tdel (upper (leaf src))) in
          (tmod t1 (parent tgt) (fun ch => ch ++ [(leaf tgt, sn)]), Ok tt)
        end
      end
    end
  end.

Definition spec_step (t : node) (o : op) : node * res unit :=
  match o with
  | OFile p m a => spec_file_op t p m a
  | OUnlink p => spec_unlink t p
  | OMkdir p => spec_mkdir t p
  | ORmdir p => spec_rmdir t p
  | ORename p q => spec_rename t p q
  end.
Fixpoint spec_run (t : node) (ops : list op) : node * list (res unit) :=
  match ops with
  | [] => (t, [])
  | o :: rest => let x := spec_step t o in let y := spec_run (fst x) rest in (fst y, snd x :: snd y)
  end.
End Spec.

(* ---------------- the tree of a state ---------------- *)
(* fuel bounds the nesting; under VolInv every directory lies at a depth below the number of
   directories, so [length (v_dirs s)] is enough (Proofs: abs_fuel_enough) *)
Fixpoint abs_dir (s : vol) (fuel : nat) (id : N) : node :=
  match fuel with
  | O => Dir []
  | S f =>
    Dir (List.map (fun e => (e_name e, if is_dir e then abs_dir s f (e_clu e) else File (e_size e)))
                  (lives (items_of s id)))
  end.
Definition abs_tree (s : vol) : node := abs_dir s (S (length (v_dirs s))) 0.
