(* rename, refinement groundwork: resolution depends only on the upper-cased components
   ([resolve_upath]); two paths to one directory are equal up to upper() ([path_unique]);
   removing one entry keeps the tree part of the invariant ([TreeInv_remove]). *)
From Coq Require Import List NArith Bool Lia Arith Permutation.
From NV Require Import Lib.Res FatVol.Model FatVol.Spec FatVol.ProofsBase FatVol.ProofsFat FatVol.ProofsInv
     FatVol.ProofsTree FatVol.ProofsWalk FatVol.ProofsOps FatVol.ProofsFile FatVol.ProofsRenameA FatVol.ProofsRenameB.
Import ListNotations.
Open Scope N_scope.

Section RenG.
Variable upper : name -> name.
Notation lookup := (Model.lookup upper).
Notation resolve := (Model.resolve upper).
Notation hit := (Model.hit upper).

Lemma walk_upath s : forall p q cur, upath upper p = upath upper q -> Model.walk upper s cur p = Model.walk upper s cur q.
Proof.
  induction p as [|h p IH]; intros [|k q] cur E; cbn in E; try discriminate; [reflexivity|].
  inversion E as [[E1 E2]]. rewrite !walk_cons, E1. destruct (r_isdir cur); [|reflexivity].
  destruct (lookup (upper k) (items_of s (r_index cur))); [|reflexivity]. apply IH, E2.
Qed.
Lemma resolve_upath s p q : upath upper p = upath upper q -> resolve s p = resolve s q.
Proof. apply walk_upath. Qed.

Lemma lbeq_true a : forall b, lbeq a b = true <-> a = b.
Proof.
  induction a as [|x a IH]; intros [|y b]; cbn; split; intros H; try congruence; try discriminate.
  - apply andb_prop in H. destruct H as [H1 H2]. apply beq_true in H1. apply IH in H2. congruence.
  - inversion H; subst. rewrite beq_refl. cbn. apply IH. reflexivity.
Qed.
Lemma proper_prefix_true a : forall b, proper_prefix a b = true <-> exists y rest, b = a ++ y :: rest.
Proof.
  induction a as [|x a IH]; intros [|y b]; cbn; split; intros H; try discriminate.
  - destruct H as (z & rest & E). discriminate.
  - exists y, b. reflexivity.
  - reflexivity.
  - destruct H as (z & rest & E). destruct a; discriminate.
  - apply andb_prop in H. destruct H as [H1 H2]. apply beq_true in H1. apply IH in H2. destruct H2 as (z & rest & ->).
    subst. exists z, rest. reflexivity.
  - destruct H as (z & rest & E). inversion E; subst. rewrite beq_refl. cbn. apply IH. exists z, rest. reflexivity.
Qed.
Lemma upath_app p q : upath upper (p ++ q) = upath upper p ++ upath upper q.
Proof. apply map_app. Qed.

Section One.
Variables (s : vol) (depth : N -> nat).
Hypothesis T : TreeInv s depth.
Hypothesis NM : forall k, names_ok upper (lives_of s k).

(* the name by which a plain component found its entry *)
Lemma lookup_name k l e : plain upper (lives l) k -> lookup k l = Some e -> upper (e_name e) = k.
Proof.
  intros Pl L. rewrite (lookup_plain upper k l Pl) in L. apply find_some in L. destruct L as [_ H].
  unfold nmatch in H. apply beq_true in H. exact H.
Qed.

Lemma path_unique p : forall q r r', tilde_free upper p -> tilde_free upper q ->
  resolve s p = Ok r -> resolve s q = Ok r' -> r_isdir r = true -> r_isdir r' = true -> r_index r = r_index r' ->
  upath upper p = upath upper q.
Proof.
  induction p as [|x p IH] using rev_ind; intros q r r' TFp TFq R R' D D' E.
  - cbn in R. inversion R; subst r. cbn [r_index] in E.
    destruct q as [|y q] using rev_ind; [reflexivity|]. exfalso. clear IHq.
    assert (R'' : resolve s ((q ++ [y]) ++ []) = Ok r') by (rewrite app_nil_r; exact R').
    destruct (resolve_prefix_dir upper s q y [] r' R'' D') as (pr & e & Rq & Dq & L & De & Re).
    rewrite R' in Re. inversion Re; subst r'. cbn [r_index] in E.
    assert (OKp : cur_ok s pr) by (apply (resolve_ok upper s _ pr Rq); destruct pr; cbn in Dq; congruence).
    assert (He : In e (lives_of s (r_index pr))) by apply (lookup_In upper _ _ _ L).
    destruct (ti_subdirs _ _ T _ e He De) as (Cn & _). congruence.
  - assert (R0 : resolve s ((p ++ [x]) ++ []) = Ok r) by (rewrite app_nil_r; exact R).
    destruct (resolve_prefix_dir upper s p x [] r R0 D) as (pr & e & Rp & Dp & L & De & Re).
    rewrite R in Re. inversion Re; subst r. cbn [r_index] in E.
    assert (OKp : cur_ok s pr) by (apply (resolve_ok upper s _ pr Rp); destruct pr; cbn in Dp; congruence).
    assert (He : In e (lives_of s (r_index pr))) by apply (lookup_In upper _ _ _ L).
    destruct (ti_subdirs _ _ T _ e He De) as (Cn & _ & _ & _ & Ue).
    destruct q as [|y q] using rev_ind.
    { cbn in R'. inversion R'; subst r'. cbn [r_index] in E. congruence. }
    clear IHq.
    assert (R0' : resolve s ((q ++ [y]) ++ []) = Ok r') by (rewrite app_nil_r; exact R').
    destruct (resolve_prefix_dir upper s q y [] r' R0' D') as (pr' & e' & Rq & Dq & L' & De' & Re').
    rewrite R' in Re'. inversion Re'; subst r'. cbn [r_index] in E.
    assert (OKq : cur_ok s pr') by (apply (resolve_ok upper s _ pr' Rq); destruct pr'; cbn in Dq; congruence).
    assert (He' : In e' (lives_of s (r_index pr'))) by apply (lookup_In upper _ _ _ L').
    destruct (ti_subdirs _ _ T _ e' He' De') as (_ & _ & _ & _ & Ue').
    assert (Ed : r_index pr = r_index pr') by (rewrite <- Ue, <- Ue', E; reflexivity).
    apply Forall_app in TFp. destruct TFp as [TFp0 TFx]. apply Forall_app in TFq. destruct TFq as [TFq0 TFy].
    rewrite !upath_app. f_equal; [apply (IH q pr pr' TFp0 TFq0 Rp Rq Dp Dq Ed)|]. cbn [upath List.map]. f_equal.
    assert (Ee : e = e').
    { rewrite <- Ed in He'. pose proof (sub_refs_nodup s depth T (r_index pr)) as N. unfold sub_refs in N.
      apply (NoDup_map_inj e_clu _ e e' N); [apply filter_In; auto|apply filter_In; auto|exact E]. }
    subst e'. inversion TFx as [|? ? Hx _]; subst. inversion TFy as [|? ? Hy _]; subst.
    rewrite <- (lookup_name (upper x) _ e (plain_of_names upper _ _ (NM _) Hx) L).
    rewrite <- Ed in L'. rewrite <- (lookup_name (upper y) _ e (plain_of_names upper _ _ (NM _) Hy) L'). reflexivity.
Qed.
End One.

(* one entry removed: the shape invariant stays, with the same depths *)
Lemma TreeInv_remove s depth idx k se :
  TreeInv s depth -> in_store s idx -> lookup k (items_of s idx) = Some se ->
  TreeInv (set_items s idx (del_item upper k (items_of s idx))) depth.
Proof.
  intros T Ii L. set (l' := del_item upper k (items_of s idx)). set (sA := set_items s idx l').
  destruct (lookup_split upper _ _ _ L) as (l1 & l2 & EL & _ & _ & Dl & _). fold (lives_of s idx) in EL. fold l' in Dl.
  assert (Sub : forall x y, In y (lives_of sA x) -> In y (lives_of s x)).
  { intros x y Hy. destruct (N.eq_dec x idx) as [->|Hx].
    - unfold sA in Hy. rewrite set_items_lives_same, Dl in Hy. rewrite EL. apply in_mid. right. exact Hy.
    - unfold sA in Hy. rewrite set_items_lives_other in Hy by exact Hx. exact Hy. }
  assert (IS : forall x, in_store sA x <-> in_store s x) by (intros x; apply (set_items_in_store s idx l' x Ii)).
  assert (GD : forall x, d_dot (get_dir sA x) = d_dot (get_dir s x) /\ d_dotdot (get_dir sA x) = d_dotdot (get_dir s x))
    by (intros x; apply (set_items_dots s idx l' x)).
  constructor.
  - unfold sA. rewrite (set_items_keys s idx l' Ii). apply T.
  - apply IS, T.
  - intros x y Hy Hd. destruct (ti_subdirs _ _ T x y (Sub x y Hy) Hd) as (A1 & A2 & A3 & A4 & A5).
    destruct (GD (e_clu y)) as [-> ->]. repeat split; try assumption. apply IS, A3.
  - destruct (flat_set_items sub_refs s idx l' Ii) as (R & Q1 & Q2). rewrite EL in Q1. rewrite Dl in Q2.
    assert (N : NoDup (sub_refs (l1 ++ se :: l2) ++ R)) by (apply (Permutation_NoDup Q1), T).
    apply (Permutation_NoDup (Permutation_sym Q2)).
    apply (Permutation_NoDup (Permutation_app_tail R (sub_refs_mid l1 se l2))) in N. rewrite <- app_assoc in N.
    apply FatAlloc.ProofsBase.NoDup_app_inv in N. apply N.
  - intros x Hx Hn. destruct (GD x) as [_ ->]. destruct (ti_up _ _ T x (proj1 (IS x) Hx) Hn) as [U1 U2]. split; [apply IS, U1|exact U2].
  - apply T.
  - intros x y Hy Hd. apply (ti_depth _ _ T x y (Sub x y Hy) Hd).
Qed.
End RenG.
