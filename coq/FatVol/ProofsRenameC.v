(* rename: the mutation part ([rename_tail]) keeps the invariant when the source is a FILE. *)
From Coq Require Import List NArith Bool Lia Arith Permutation.
From NV Require Import Lib.Res FatAlloc.Model FatAlloc.ProofsBase.
From NV Require Import FatVol.Model FatVol.Spec FatVol.ProofsBase FatVol.ProofsFat FatVol.ProofsInv
     FatVol.ProofsTree FatVol.ProofsWalk FatVol.ProofsOps FatVol.ProofsFatOps FatVol.ProofsUnlink FatVol.ProofsFile
     FatVol.ProofsRenameA FatVol.ProofsRenameB.
Import ListNotations.
Open Scope N_scope.

Section RenC.
Variable upper : name -> name.
Variable V : vparams.
Hypothesis PW : params_wf V.
Notation P := (PP V).
Notation VolInv := (VolInv upper V).
Notation lookup := (Model.lookup upper).
Notation resolve := (Model.resolve upper).

Definition rename_tail (s0 : vol) (se : entry) (sidx tidx tclu : N) (src tgt : list name) : vol * res unit :=
  let s2 := ren2 upper s0 sidx tidx (upper (leaf src)) (upper (leaf tgt)) se in
  let s3 := if tclu =? 0 then s2 else free_chain V s2 tclu in
  if is_dir se then
    match resolve s3 (parent tgt) with
    | Err e => (s3, Err e)
    | Ok npr => (set_dotdot s3 (e_clu se) (r_cluster npr), Ok tt)
    end
  else (s3, Ok tt).

Section Tail.
Variables (s0 : vol) (sidx tidx : N) (ks kt : name) (se te : entry).
Hypothesis I0 : VolInv s0.
Hypothesis Is : in_store s0 sidx.
Hypothesis It : in_store s0 tidx.
Hypothesis Ls : lookup ks (items_of s0 sidx) = Some se.
Hypothesis Lt : lookup kt (items_of s0 tidx) = Some te.
Hypothesis Dt : is_dir te = false.
Hypothesis Ne : ~ (sidx = tidx /\ se = te).
Let te' := set_val (e_attr se) (e_size se) (e_clu se) te.
Let s2 := ren2 upper s0 sidx tidx ks kt se.
Let s3 := if e_clu te =? 0 then s2 else free_chain V s2 (e_clu te).

Lemma s3_lives k : lives_of s3 k = lives_of s2 k.
Proof. unfold s3. destruct (e_clu te =? 0); reflexivity. Qed.
Lemma s3_get_dir k : get_dir s3 k = get_dir s2 k.
Proof. unfold s3. destruct (e_clu te =? 0); reflexivity. Qed.
Lemma s3_dirs : v_dirs s3 = v_dirs s2.
Proof. unfold s3. destruct (e_clu te =? 0); reflexivity. Qed.
Lemma s3_in_store k : in_store s3 k <-> in_store s0 k.
Proof. unfold in_store. rewrite s3_dirs. apply (ren2_in_store upper s0 sidx tidx ks kt se); assumption. Qed.
Lemma s2_keys : List.map fst (v_dirs s2) = List.map fst (v_dirs s0).
Proof.
  unfold s2, ren2. rewrite (set_items_keys (ren1 upper s0 tidx kt se) sidx _).
  - apply (set_items_keys s0 tidx _ It).
  - apply (set_items_in_store s0 tidx _ sidx It). exact Is.
Qed.

(* the FAT after the old chain of the target is gone *)
Lemma s3_fat : FInv V (v_fat s3) (owners V s2) /\ forall o, In o (owners V s2) -> chn V (v_fat s3) o = chn V (v_fat s0) o.
Proof.
  assert (Pm : Permutation (owners V s0) (e_clu te :: owners V s2)) by (apply (owners_surgery upper V); assumption).
  pose proof (FInv_perm V _ _ _ Pm (vi_fat _ _ _ I0)) as Fi.
  assert (He : In te (lives_of s0 tidx)) by apply (lookup_In upper _ _ _ Lt).
  unfold s3. destruct (N.eqb_spec (e_clu te) 0) as [Z|Z].
  - split; [|reflexivity]. apply (FInv_del_empty V _ _ (e_clu te)); [rewrite Z; apply chn_0|exact Fi].
  - apply (FInv_free V (v_fat s0) (e_clu te) (owners V s2) Fi).
    apply (file_chain_nil V PW). apply (vi_files _ _ _ I0 tidx te He Dt).
Qed.

Theorem tail_file_inv : is_dir se = false -> VolInv s3.
Proof.
  intros Ds. destruct s3_fat as [Fi Same].
  assert (Hse : In se (lives_of s0 sidx)) by apply (lookup_In upper _ _ _ Ls).
  assert (Dte' : is_dir te' = false) by exact Ds.
  assert (Ent : forall k y, In y (lives_of s2 k) ->
            (k = tidx /\ y = te') \/ (In y (lives_of s0 k) /\ ~ (k = tidx /\ y = te) /\ ~ (k = sidx /\ y = se)))
    by (intros k y; apply (entries_s2 upper V); assumption).
  constructor.
  - unfold owners. rewrite s3_dirs. exact Fi.
  - rewrite s3_dirs, s2_keys. apply I0.
  - apply s3_in_store. apply I0.
  - intros k Hk. apply (vi_keyrange _ _ _ I0). apply s3_in_store, Hk.
  - intros k y Hy Hdy. rewrite s3_lives in Hy.
    assert (Ho : In (e_clu y) (owners V s2)) by apply (In_owners V s2 k y Hy Hdy).
    destruct (Ent k y Hy) as [[-> ->]|(Hy0 & _ & _)].
    + unfold file_ok. rewrite (Same _ Ho). apply (vi_files _ _ _ I0 sidx se Hse Ds).
    + apply file_ok_same with (f := v_fat s0); [apply Same, Ho|apply (vi_files _ _ _ I0 k y Hy0 Hdy)].
  - intros k y Hy Hdy. rewrite s3_lives in Hy. destruct (Ent k y Hy) as [[-> ->]|(Hy0 & _ & _)]; [congruence|].
    destruct (vi_subdirs _ _ _ I0 k y Hy0 Hdy) as (A1 & A2 & A3 & A4 & A5). rewrite s3_get_dir.
    assert (Dots : d_dot (get_dir s2 (e_clu y)) = d_dot (get_dir s0 (e_clu y)) /\ d_dotdot (get_dir s2 (e_clu y)) = d_dotdot (get_dir s0 (e_clu y)))
      by (apply (ren_dots upper)).
    destruct Dots as [-> ->]. repeat split; try assumption. apply s3_in_store, A3.
  - assert (Pm : Permutation (dir_refs s0) (dir_refs s2)) by (apply (refs_surgery upper) with (te := te); assumption).
    unfold dir_refs at 1 2. rewrite s3_dirs. split; [apply (Permutation_NoDup Pm), I0|].
    intros k Hk Hn. apply (Permutation_in _ Pm). apply (proj2 (vi_refs _ _ _ I0)); [apply s3_in_store, Hk|exact Hn].
  - intros k. rewrite s3_lives. apply (names_s2 upper V) with (te := te); assumption.
  - destruct (vi_depth _ _ _ I0) as (depth & D0 & Dp). exists depth. split; [exact D0|].
    intros k y Hy Hdy. rewrite s3_lives in Hy. destruct (Ent k y Hy) as [[-> ->]|(Hy0 & _ & _)]; [congruence|].
    apply Dp; assumption.
Qed.
End Tail.
End RenC.
