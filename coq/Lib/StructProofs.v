(* Lemmas about Lib/Struct.v: N-indexed buffer algebra and the pack/unpack
   round trips for ANY layout. *)
From Coq Require Import String List NArith Bool Arith Lia.
From NV Require Import Lib.Res Lib.Struct.
Import ListNotations.
Open Scope N_scope.

(* ================================================================ buffers *)
Lemma lenN_nil {A} : lenN (@nil A) = 0.
Proof. reflexivity. Qed.

Lemma lenN_cons {A} (x : A) l : lenN (x :: l) = 1 + lenN l.
Proof. unfold lenN. cbn [length]. lia. Qed.

Lemma lenN_app {A} (a b : list A) : lenN (a ++ b) = lenN a + lenN b.
Proof. unfold lenN. rewrite app_length. lia. Qed.

Lemma lenN_repeat {A} (x : A) n : lenN (repeat x n) = N.of_nat n.
Proof. unfold lenN. now rewrite repeat_length. Qed.

Lemma lenN_zeros n : lenN (zeros n) = n.
Proof. unfold zeros. rewrite lenN_repeat. lia. Qed.

Lemma lenN_map {A B} (f : A -> B) l : lenN (map f l) = lenN l.
Proof. unfold lenN. now rewrite map_length. Qed.

Lemma takeN_firstn {A} n (l : list A) : takeN n l = firstn (N.to_nat n) l.
Proof.
  revert n. induction l as [|x r IH]; intros n; cbn [takeN].
  - now rewrite firstn_nil.
  - destruct (N.eqb_spec n 0) as [->|H]; [reflexivity|].
    rewrite IH. replace (N.to_nat n) with (S (N.to_nat (N.pred n))) by lia. reflexivity.
Qed.

Lemma dropN_skipn {A} n (l : list A) : dropN n l = skipn (N.to_nat n) l.
Proof.
  revert n. induction l as [|x r IH]; intros n; cbn [dropN].
  - now rewrite skipn_nil.
  - destruct (N.eqb_spec n 0) as [->|H]; [reflexivity|].
    rewrite IH. replace (N.to_nat n) with (S (N.to_nat (N.pred n))) by lia. reflexivity.
Qed.

Lemma lenN_takeN {A} n (l : list A) : lenN (takeN n l) = N.min n (lenN l).
Proof. rewrite ?takeN_firstn; unfold lenN. rewrite firstn_length. lia. Qed.

Lemma lenN_dropN {A} n (l : list A) : lenN (dropN n l) = lenN l - n.
Proof. rewrite ?dropN_skipn; unfold lenN. rewrite skipn_length. lia. Qed.

Lemma takeN_0 {A} (l : list A) : takeN 0 l = [].
Proof. now rewrite takeN_firstn. Qed.

Lemma dropN_0 {A} (l : list A) : dropN 0 l = l.
Proof. now rewrite dropN_skipn. Qed.

Lemma takeN_all {A} n (l : list A) : lenN l <= n -> takeN n l = l.
Proof. rewrite ?takeN_firstn; unfold lenN. intros H. apply firstn_all2. lia. Qed.

Lemma dropN_all {A} n (l : list A) : lenN l <= n -> dropN n l = [].
Proof. rewrite ?dropN_skipn; unfold lenN. intros H. apply skipn_all2. lia. Qed.

Lemma takeN_app_exact {A} n (a b : list A) : lenN a = n -> takeN n (a ++ b) = a.
Proof.
  rewrite ?takeN_firstn; unfold lenN. intros <-. rewrite Nat2N.id.
  rewrite firstn_app, Nat.sub_diag, firstn_all. cbn. now rewrite app_nil_r.
Qed.

Lemma takeN_app_le {A} n (a b : list A) : n <= lenN a -> takeN n (a ++ b) = takeN n a.
Proof.
  rewrite ?takeN_firstn; unfold lenN. intros H. rewrite firstn_app.
  replace (N.to_nat n - length a)%nat with O by lia. cbn. now rewrite app_nil_r.
Qed.

Lemma takeN_app_ge {A} n (a b : list A) :
  lenN a <= n -> takeN n (a ++ b) = a ++ takeN (n - lenN a) b.
Proof.
  rewrite ?takeN_firstn; unfold lenN. intros H. rewrite firstn_app.
  rewrite firstn_all2 by lia. f_equal. f_equal. lia.
Qed.

Lemma dropN_app_exact {A} n (a b : list A) : lenN a = n -> dropN n (a ++ b) = b.
Proof.
  rewrite ?dropN_skipn; unfold lenN. intros <-. rewrite Nat2N.id.
  rewrite skipn_app, Nat.sub_diag, skipn_all. reflexivity.
Qed.

Lemma dropN_app_le {A} n (a b : list A) : n <= lenN a -> dropN n (a ++ b) = dropN n a ++ b.
Proof.
  rewrite ?dropN_skipn; unfold lenN. intros H. rewrite skipn_app.
  replace (N.to_nat n - length a)%nat with O by lia. reflexivity.
Qed.

Lemma dropN_app_ge {A} n (a b : list A) :
  lenN a <= n -> dropN n (a ++ b) = dropN (n - lenN a) b.
Proof.
  rewrite ?dropN_skipn; unfold lenN. intros H. rewrite skipn_app.
  rewrite skipn_all2 by lia. cbn. f_equal. lia.
Qed.

Lemma skipn_add {A} a b (l : list A) : skipn a (skipn b l) = skipn (b + a) l.
Proof.
  revert l. induction b as [|b IH]; intros l; [reflexivity|].
  destruct l; cbn [skipn plus]; [now rewrite skipn_nil|apply IH].
Qed.

Lemma dropN_dropN {A} a b (l : list A) : dropN a (dropN b l) = dropN (b + a) l.
Proof.
  rewrite !dropN_skipn. rewrite skipn_add. f_equal. lia.
Qed.

Lemma takeN_takeN {A} a b (l : list A) : takeN a (takeN b l) = takeN (N.min a b) l.
Proof.
  rewrite !takeN_firstn. rewrite firstn_firstn. f_equal. lia.
Qed.

Lemma take_drop {A} n (l : list A) : takeN n l ++ dropN n l = l.
Proof. rewrite takeN_firstn, dropN_skipn. apply firstn_skipn. Qed.

Lemma takeN_zeros n m : n <= m -> takeN n (zeros m) = zeros n.
Proof.
  rewrite takeN_firstn. unfold zeros. intros H.
  replace (N.to_nat m) with (N.to_nat n + (N.to_nat m - N.to_nat n))%nat by lia.
  rewrite repeat_app. rewrite firstn_app, repeat_length, Nat.sub_diag.
  cbn. rewrite app_nil_r. rewrite firstn_all2; [reflexivity|]. rewrite repeat_length. lia.
Qed.

Lemma dropN_zeros n m : dropN n (zeros m) = zeros (m - n).
Proof.
  rewrite dropN_skipn. unfold zeros. destruct (N.le_gt_cases n m) as [H|H].
  - replace (N.to_nat m) with (N.to_nat n + N.to_nat (m - n))%nat by lia.
    rewrite repeat_app, skipn_app, repeat_length, Nat.sub_diag.
    rewrite skipn_all2 by (rewrite repeat_length; lia). reflexivity.
  - rewrite skipn_all2 by (rewrite repeat_length; lia).
    replace (m - n) with 0 by lia. reflexivity.
Qed.

Lemma zeros_app n m : zeros (n + m) = zeros n ++ zeros m.
Proof. unfold zeros. rewrite <- repeat_app. f_equal. lia. Qed.

(* python buf[a:b] of  pre ++ mid ++ post  with len(pre) = a, len(mid) = b - a *)
Lemma slice_app_mid {A} a b (pre mid post : list A) :
  lenN pre = a -> lenN mid = b - a -> slice a b (pre ++ mid ++ post) = mid.
Proof.
  intros Ha Hm. unfold slice. rewrite (dropN_app_exact a) by exact Ha.
  apply takeN_app_exact. exact Hm.
Qed.

Lemma slice_spec {A} a b (l : list A) :
  lenN (slice a b l) = N.min (b - a) (lenN l - a).
Proof. unfold slice. now rewrite lenN_takeN, lenN_dropN. Qed.

Lemma slice_full_length {A} a b (l : list A) :
  a <= b -> b <= lenN l -> lenN (slice a b l) = b - a.
Proof. intros. rewrite slice_spec. lia. Qed.

(* concatenation of blocks of uniform width *)
Lemma lenN_concat_uniform {A} w (bl : list (list A)) :
  Forall (fun b => lenN b = w) bl -> lenN (concat bl) = w * lenN bl.
Proof.
  induction 1 as [|b bl Hb _ IH]; cbn [concat].
  - unfold lenN. cbn [length]. lia.
  - rewrite lenN_app, lenN_cons, IH, Hb. lia.
Qed.

Lemma concat_split_nth {A} (bl : list (list A)) i b :
  nth_error bl i = Some b ->
  concat bl = concat (firstn i bl) ++ b ++ concat (skipn (S i) bl).
Proof.
  revert i. induction bl as [|x bl IH]; intros [|i] H; cbn in H; try discriminate.
  - injection H as ->. reflexivity.
  - cbn [firstn skipn concat]. rewrite <- app_assoc. f_equal. now apply IH.
Qed.

Lemma lenN_firstn_le {A} i (l : list A) : (i <= length l)%nat -> lenN (firstn i l) = N.of_nat i.
Proof. intros H. unfold lenN. rewrite firstn_length. lia. Qed.

(* reading block i out of the concatenation *)
Lemma read_block {A} w (bl : list (list A)) i b post n :
  Forall (fun b => lenN b = w) bl -> nth_error bl i = Some b -> n <= w ->
  takeN n (dropN (w * N.of_nat i) (concat bl ++ post)) = takeN n b.
Proof.
  intros Hu Hn Hle.
  rewrite (concat_split_nth bl i b Hn), <- !app_assoc.
  rewrite dropN_app_exact.
  - apply takeN_app_le. rewrite Forall_forall in Hu.
    rewrite (Hu b); [exact Hle|]. eapply nth_error_In; eauto.
  - rewrite (lenN_concat_uniform w).
    + rewrite lenN_firstn_le; [reflexivity|].
      apply Nat.lt_le_incl. apply nth_error_Some. congruence.
    + rewrite Forall_forall in *. intros x Hx. apply Hu.
      rewrite <- (firstn_skipn i bl). apply in_or_app. now left.
Qed.

(* ================================================================ integers *)
Lemma le_encode_length n v : length (le_encode n v) = n.
Proof. revert v. induction n; intros; cbn; auto. Qed.

Lemma pow256_succ n : 256 ^ N.of_nat (S n) = 256 * 256 ^ N.of_nat n.
Proof. rewrite Nat2N.inj_succ, N.pow_succ_r'. reflexivity. Qed.

Lemma le_decode_encode n v : v < 256 ^ N.of_nat n -> le_decode (le_encode n v) = v.
Proof.
  revert v. induction n as [|n IH]; intros v H.
  - cbn in *. lia.
  - cbn [le_encode le_decode]. rewrite pow256_succ in H.
    rewrite IH.
    + pose proof (N.div_mod v 256). lia.
    + apply N.div_lt_upper_bound; lia.
Qed.

Lemma bytes_ok_cons b r : bytes_ok (b :: r) = true <-> b < 256 /\ bytes_ok r = true.
Proof.
  unfold bytes_ok, byte_ok. cbn [forallb]. rewrite andb_true_iff, N.ltb_lt. tauto.
Qed.

Lemma bytes_ok_app a b : bytes_ok (a ++ b) = bytes_ok a && bytes_ok b.
Proof. apply forallb_app. Qed.

Lemma bytes_ok_repeat0 n : bytes_ok (repeat 0 n) = true.
Proof. induction n; cbn; auto. Qed.

Lemma bytes_ok_zeros n : bytes_ok (zeros n) = true.
Proof. apply bytes_ok_repeat0. Qed.

Lemma bytes_ok_firstn n bs : bytes_ok bs = true -> bytes_ok (firstn n bs) = true.
Proof.
  revert n. induction bs as [|b r IH]; intros [|n] H; cbn [firstn]; auto.
  apply bytes_ok_cons in H as [H1 H2]. apply bytes_ok_cons. auto.
Qed.

Lemma bytes_ok_skipn n bs : bytes_ok bs = true -> bytes_ok (skipn n bs) = true.
Proof.
  revert n. induction bs as [|b r IH]; intros [|n] H; cbn [skipn]; auto.
  apply bytes_ok_cons in H as [H1 H2]. auto.
Qed.

Lemma bytes_ok_takeN n bs : bytes_ok bs = true -> bytes_ok (takeN n bs) = true.
Proof. rewrite takeN_firstn. apply bytes_ok_firstn. Qed.

Lemma bytes_ok_dropN n bs : bytes_ok bs = true -> bytes_ok (dropN n bs) = true.
Proof. rewrite dropN_skipn. apply bytes_ok_skipn. Qed.

Lemma le_encode_decode bs :
  bytes_ok bs = true -> le_encode (length bs) (le_decode bs) = bs.
Proof.
  induction bs as [|b r IH]; intros H; [reflexivity|].
  apply bytes_ok_cons in H as [Hb Hr]. cbn [length le_encode le_decode].
  replace ((b + 256 * le_decode r) mod 256) with b.
  - replace ((b + 256 * le_decode r) / 256) with (le_decode r); [now rewrite IH|].
    symmetry. rewrite N.mul_comm, N.div_add by lia. rewrite N.div_small by lia. lia.
  - symmetry. rewrite N.mul_comm, N.mod_add by lia. apply N.mod_small. lia.
Qed.

Lemma le_decode_bound bs : bytes_ok bs = true -> le_decode bs < 256 ^ N.of_nat (length bs).
Proof.
  induction bs as [|b r IH]; intros H.
  - cbn. lia.
  - apply bytes_ok_cons in H as [Hb Hr]. cbn [length le_decode]. rewrite pow256_succ.
    specialize (IH Hr). lia.
Qed.

Lemma le_encode_bytes_ok n v : bytes_ok (le_encode n v) = true.
Proof.
  revert v. induction n as [|n IH]; intros v; [reflexivity|].
  cbn [le_encode]. apply bytes_ok_cons. split; [|apply IH].
  apply N.mod_lt. lia.
Qed.

(* ================================================================ pack / unpack *)
Lemma unpack_length l bs vs : unpack l bs = Some vs -> length bs = size l.
Proof.
  revert bs vs. induction l as [|[k lab] r IH]; intros bs vs H; cbn [unpack size] in *.
  - destruct bs; [reflexivity|discriminate].
  - destruct (Nat.ltb_spec (length bs) (fsize k)) as [Hlt|Hge]; [discriminate|].
    destruct (unpack r (skipn (fsize k) bs)) as [vs'|] eqn:E; [|discriminate].
    apply IH in E. rewrite skipn_length in E. lia.
Qed.

Lemma enc_field_length k v : val_ok k v = true -> length (enc_field k v) = fsize k.
Proof.
  destruct k, v; cbn; intros H; try discriminate.
  - apply le_encode_length.
  - apply andb_true_iff in H as [H _]. now apply Nat.eqb_eq in H.
Qed.

Lemma enc_field_bytes_ok k v : val_ok k v = true -> bytes_ok (enc_field k v) = true.
Proof.
  destruct k, v; cbn; intros H; try discriminate.
  - apply le_encode_bytes_ok.
  - now apply andb_true_iff in H as [_ H].
Qed.

Lemma dec_enc_field k v :
  val_ok k v = true -> is_pad k = false -> dec_field k (enc_field k v) = Some v.
Proof.
  destruct k, v; cbn; intros H P; try discriminate.
  - apply N.ltb_lt in H. now rewrite le_decode_encode.
  - reflexivity.
Qed.

(* one-step inversion of pack *)
Lemma pack_cons_inv k lab r vs bs :
  pack ((k, lab) :: r) vs = Some bs ->
  (exists n t, k = FPad n /\ pack r vs = Some t /\ bs = repeat 0 n ++ t) \/
  (exists v vs' t, is_pad k = false /\ vs = v :: vs' /\ val_ok k v = true /\
                   pack r vs' = Some t /\ bs = enc_field k v ++ t).
Proof.
  intros H. cbn [pack] in H. destruct k.
  - right. destruct vs as [|v vs']; [discriminate|].
    destruct (val_ok (FU bytes) v) eqn:V; [|discriminate].
    destruct (pack r vs') as [t|] eqn:E; [|discriminate].
    exists v, vs', t. repeat split; auto. now injection H as <-.
  - right. destruct vs as [|v vs']; [discriminate|].
    destruct (val_ok (FS n) v) eqn:V; [|discriminate].
    destruct (pack r vs') as [t|] eqn:E; [|discriminate].
    exists v, vs', t. repeat split; auto. now injection H as <-.
  - left. destruct (pack r vs) as [t|] eqn:E; [|discriminate].
    exists n, t. repeat split; auto. now injection H as <-.
Qed.

Theorem pack_length l vs bs : pack l vs = Some bs -> length bs = size l.
Proof.
  revert vs bs. induction l as [|[k lab] r IH]; intros vs bs H.
  - cbn in H. destruct vs; [injection H as <-; reflexivity|discriminate].
  - cbn [size].
    apply pack_cons_inv in H as [(n & t & -> & E & ->)|(v & vs' & t & P & -> & V & E & ->)].
    + rewrite app_length, repeat_length, (IH _ _ E). reflexivity.
    + rewrite app_length, (enc_field_length _ _ V), (IH _ _ E). reflexivity.
Qed.

Lemma pack_lenN l vs bs : pack l vs = Some bs -> lenN bs = sizeN l.
Proof. intros H. unfold lenN, sizeN. now rewrite (pack_length _ _ _ H). Qed.

Lemma pack_bytes_ok l vs bs : pack l vs = Some bs -> bytes_ok bs = true.
Proof.
  revert vs bs. induction l as [|[k lab] r IH]; intros vs bs H.
  - cbn in H. destruct vs; [injection H as <-; reflexivity|discriminate].
  - apply pack_cons_inv in H as [(n & t & -> & E & ->)|(v & vs' & t & P & -> & V & E & ->)].
    + rewrite bytes_ok_app, bytes_ok_repeat0, (IH _ _ E). reflexivity.
    + rewrite bytes_ok_app, (enc_field_bytes_ok _ _ V), (IH _ _ E). reflexivity.
Qed.

Lemma pack_some l vs : vals_ok l vs = true <-> exists bs, pack l vs = Some bs.
Proof.
  revert vs. induction l as [|[k lab] r IH]; intros vs; cbn [pack vals_ok].
  - destruct vs; split; intros H; try discriminate; eauto. destruct H; discriminate.
  - destruct k.
    + destruct vs as [|v vs']; [split; [discriminate|intros [? ?]; discriminate]|].
      destruct (val_ok (FU bytes) v); cbn [andb]; [|split; [discriminate|intros [? ?]; discriminate]].
      rewrite IH. split; intros [t E]; [rewrite E; eauto|].
      destruct (pack r vs'); [eauto|discriminate].
    + destruct vs as [|v vs']; [split; [discriminate|intros [? ?]; discriminate]|].
      destruct (val_ok (FS n) v); cbn [andb]; [|split; [discriminate|intros [? ?]; discriminate]].
      rewrite IH. split; intros [t E]; [rewrite E; eauto|].
      destruct (pack r vs'); [eauto|discriminate].
    + rewrite IH. split; intros [t E]; [rewrite E; eauto|].
      destruct (pack r vs); [eauto|discriminate].
Qed.

(* unpacking what was packed returns the values *)
Theorem unpack_pack l vs bs : pack l vs = Some bs -> unpack l bs = Some vs.
Proof.
  revert vs bs. induction l as [|[k lab] r IH]; intros vs bs H.
  - cbn in *. destruct vs; [injection H as <-; reflexivity|discriminate].
  - assert (Hstep : forall e t vs' o, length e = fsize k -> bs = e ++ t ->
              unpack r t = Some vs' -> dec_field k e = o ->
              unpack ((k, lab) :: r) bs = Some (cons_opt o vs')).
    { intros e t vs' o Hl -> Hu Hd. cbn [unpack].
      destruct (Nat.ltb_spec (length (e ++ t)) (fsize k)) as [Hlt|_].
      - rewrite app_length in Hlt. lia.
      - rewrite <- Hl, skipn_app, Nat.sub_diag, skipn_all, firstn_app, Nat.sub_diag, firstn_all.
        cbn [skipn firstn app]. rewrite app_nil_r, Hu, Hd. reflexivity. }
    apply pack_cons_inv in H as [(n & t & -> & E & ->)|(v & vs' & t & P & -> & V & E & ->)].
    + apply (Hstep (repeat 0 n) t vs None); auto using repeat_length.
    + apply (Hstep (enc_field k v) t vs' (Some v)); auto using enc_field_length, dec_enc_field.
Qed.

(* packing what was unpacked returns the bytes (pad bytes come back as zero) *)
Theorem pack_unpack l bs vs :
  unpack l bs = Some vs -> bytes_ok bs = true -> pack l vs = Some (zero_pads l bs).
Proof.
  revert bs vs. induction l as [|[k lab] r IH]; intros bs vs H B; cbn [pack unpack zero_pads] in *.
  - destruct bs; [injection H as <-; reflexivity|discriminate].
  - destruct (Nat.ltb_spec (length bs) (fsize k)) as [Hlt|Hge]; [discriminate|].
    destruct (unpack r (skipn (fsize k) bs)) as [vs'|] eqn:E; [|discriminate].
    injection H as <-.
    pose proof (IH _ _ E (bytes_ok_skipn _ _ B)) as IH'.
    pose proof (bytes_ok_firstn (fsize k) _ B) as Bf.
    assert (Lf : length (firstn (fsize k) bs) = fsize k) by (rewrite firstn_length; lia).
    destruct k; cbn [dec_field cons_opt fsize] in *.
    + assert (V : val_ok (FU bytes) (VInt (le_decode (firstn bytes bs))) = true).
      { cbn. apply N.ltb_lt. rewrite <- Lf at 2. now apply le_decode_bound. }
      rewrite V, IH'. cbn [enc_field]. rewrite <- Lf at 1. now rewrite le_encode_decode.
    + assert (V : val_ok (FS n) (VBytes (firstn n bs)) = true).
      { cbn. rewrite Lf, Nat.eqb_refl, Bf. reflexivity. }
      rewrite V, IH'. reflexivity.
    + rewrite IH'. reflexivity.
Qed.

Lemma unpack_vals_ok l bs vs :
  unpack l bs = Some vs -> bytes_ok bs = true -> vals_ok l vs = true.
Proof. intros H B. apply pack_some. eexists. eapply pack_unpack; eauto. Qed.

Lemma zero_pads_nopad l bs :
  forallb (fun f => negb (is_pad (fst f))) l = true -> length bs = size l -> zero_pads l bs = bs.
Proof.
  revert bs. induction l as [|[k lab] r IH]; intros bs H L; cbn [zero_pads size forallb fst] in *.
  - reflexivity.
  - apply andb_true_iff in H as [Hk Hr].
    rewrite IH; [|exact Hr|rewrite skipn_length; lia].
    destruct k; cbn in Hk; try discriminate; apply firstn_skipn.
Qed.

Lemma zero_pads_length l bs : length bs = size l -> length (zero_pads l bs) = size l.
Proof.
  revert bs. induction l as [|[k lab] r IH]; intros bs L; cbn [zero_pads size] in *; [exact L|].
  rewrite app_length, IH by (rewrite skipn_length; lia).
  destruct k; cbn [fsize]; rewrite ?repeat_length, ?firstn_length; cbn [fsize] in *; lia.
Qed.

(* the value of a named field is the decoding of the bytes at its offset *)
Theorem field_offset_get l name bs vs off k :
  unpack l bs = Some vs -> field_offset l name = Some (off, k) ->
  get l name vs = dec_field k (firstn (fsize k) (skipn off bs)) /\ is_pad k = false.
Proof.
  unfold get. revert bs vs off. induction l as [|[k0 lab] r IH]; intros bs vs off H F;
    cbn [unpack field_offset field_index] in *; [discriminate|].
  destruct (Nat.ltb_spec (length bs) (fsize k0)) as [Hlt|Hge]; [discriminate|].
  destruct (unpack r (skipn (fsize k0) bs)) as [vs'|] eqn:E; [|discriminate].
  injection H as <-.
  destruct (is_pad k0) eqn:P; cbn [negb andb] in F.
  - destruct (field_offset r name) as [[o k']|] eqn:F'; [|discriminate]. injection F as <- <-.
    destruct k0; try discriminate. cbn [dec_field cons_opt].
    specialize (IH _ _ _ E eq_refl). rewrite skipn_add in IH. exact IH.
  - destruct (String.eqb lab name) eqn:Q.
    + injection F as <- <-. cbn [skipn]. split; [|exact P].
      destruct k0; try discriminate; reflexivity.
    + destruct (field_offset r name) as [[o k']|] eqn:F'; [|discriminate]. injection F as <- <-.
      specialize (IH _ _ _ E eq_refl) as [IH Pk]. rewrite skipn_add in IH.
      split; [|exact Pk].
      destruct (field_index r name) as [i|];
        destruct k0; try discriminate; cbn [dec_field cons_opt nth_error]; exact IH.
Qed.

(* ================================================================ python entry points *)
Lemma pack_or_nil_ok l vs : vals_ok l vs = true -> pack l vs = Some (pack_or_nil l vs).
Proof.
  intros H. apply pack_some in H as [bs E]. unfold pack_or_nil. now rewrite E.
Qed.

Lemma lenN_pack_or_nil l vs : vals_ok l vs = true -> lenN (pack_or_nil l vs) = sizeN l.
Proof. intros H. eapply pack_lenN. now apply pack_or_nil_ok. Qed.

Lemma bytes_ok_pack_or_nil l vs : bytes_ok (pack_or_nil l vs) = true.
Proof.
  unfold pack_or_nil. destruct (pack l vs) eqn:E; [|reflexivity]. eapply pack_bytes_ok; eauto.
Qed.

Lemma unpack_pack_or_nil l vs : vals_ok l vs = true -> unpack l (pack_or_nil l vs) = Some vs.
Proof. intros H. apply unpack_pack. now apply pack_or_nil_ok. Qed.

Lemma unpack_exact_pack l vs : vals_ok l vs = true -> unpack_exact l (pack_or_nil l vs) = Ok vs.
Proof. intros H. unfold unpack_exact. now rewrite unpack_pack_or_nil. Qed.

(* reading a packed structure back from the middle of a buffer *)
Lemma unpack_from_app l vs pre post off :
  vals_ok l vs = true -> lenN pre = off ->
  unpack_from l (pre ++ pack_or_nil l vs ++ post) off = Ok vs.
Proof.
  intros V L. unfold unpack_from. rewrite !lenN_app, (lenN_pack_or_nil _ _ V), L.
  destruct (N.ltb_spec (off + (sizeN l + lenN post)) (off + sizeN l)) as [H|_]; [lia|].
  rewrite (dropN_app_exact off) by exact L.
  rewrite takeN_app_exact by now apply lenN_pack_or_nil.
  now apply unpack_exact_pack.
Qed.

Lemma unpack_from_short l buf off :
  lenN buf < off + sizeN l -> unpack_from l buf off = Err StructError.
Proof. intros H. unfold unpack_from. apply N.ltb_lt in H. now rewrite H. Qed.

(* unpack_from succeeds exactly when the buffer is long enough *)
Lemma unpack_from_ok l buf off :
  off + sizeN l <= lenN buf -> exists vs, unpack_from l buf off = Ok vs.
Proof.
  intros H. unfold unpack_from.
  destruct (N.ltb_spec (lenN buf) (off + sizeN l)) as [H'|_]; [lia|].
  unfold unpack_exact.
  assert (L : length (takeN (sizeN l) (dropN off buf)) = size l).
  { rewrite takeN_firstn, dropN_skipn. unfold sizeN, lenN in *. rewrite firstn_length, skipn_length. lia. }
  revert L. generalize (takeN (sizeN l) (dropN off buf)). clear.
  induction l as [|[k lab] r IH]; intros bs L; cbn [unpack size] in *.
  - destruct bs; [eauto|discriminate].
  - destruct (Nat.ltb_spec (length bs) (fsize k)) as [Hlt|Hge]; [lia|].
    destruct (IH (skipn (fsize k) bs)) as [vs E]; [rewrite skipn_length; lia|].
    destruct (unpack r (skipn (fsize k) bs)); [eauto|discriminate].
Qed.
