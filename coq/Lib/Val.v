(* Generic value type used on the wire between the Python harness and the
   extracted model runners.  No proofs here. *)
From Coq Require Import List NArith ZArith String Ascii Bool.
Import ListNotations.
Open Scope N_scope.

Inductive val : Type :=
| VN (n : N)
| VZ (z : Z)
| VS (s : list N)          (* byte string / code-point string *)
| VL (l : list val).

Definition VB (b : bool) : val := VN (if b then 1 else 0).
Definition VErr (tag : string) : val :=
  VL [VS [69;82;82]; VS (map (fun a => N_of_ascii a) (list_ascii_of_string tag))].
Definition VNone : val := VL [].
Definition VSome (v : val) : val := VL [v].
Definition VOpt {A} (f : A -> val) (o : option A) : val :=
  match o with Some a => VSome (f a) | None => VNone end.
Definition VPair (a b : val) : val := VL [a; b].
Definition str (s : string) : list N :=
  map (fun a => N_of_ascii a) (list_ascii_of_string s).
Definition VStr (s : string) : val := VS (str s).

Definition getN (v : val) : N := match v with VN n => n | VZ z => Z.to_N z | _ => 0 end.
Definition getZ (v : val) : Z := match v with VZ z => z | VN n => Z.of_N n | _ => 0%Z end.
Definition getS (v : val) : list N := match v with VS s => s | _ => [] end.
Definition getL (v : val) : list val := match v with VL l => l | _ => [] end.
Definition getB (v : val) : bool := negb (N.eqb (getN v) 0).
Definition arg (i : nat) (v : val) : val := nth i (getL v) (VL []).
Definition getOpt (v : val) : option val :=
  match v with VL [x] => Some x | _ => None end.

Fixpoint list_eqb {A} (eqb : A -> A -> bool) (a b : list A) : bool :=
  match a, b with
  | [], [] => true
  | x :: a', y :: b' => eqb x y && list_eqb eqb a' b'
  | _, _ => false
  end.
Definition bytes_eqb := list_eqb N.eqb.
