(* Encoding of results on the wire. No proofs. *)
From Coq Require Import List NArith String.
From NV Require Import Lib.Val Lib.Res.
Import ListNotations.
Definition VRes {A} (f : A -> val) (r : res A) : val :=
  match r with
  | Ok a => VL [VN 0; f a]
  | Err e => VL [VN 1; VStr (exn_name e)]
  end.
Definition VNat (n : nat) : val := VN (N.of_nat n).
Definition getNat (v : val) : nat := N.to_nat (getN v).
Definition VLs (l : list (list N)) : val := VL (map VS l).
Definition getLs (v : val) : list (list N) := map getS (getL v).
