(* Result type with Python exception classes as an enumeration. No proofs. *)
From Coq Require Import List NArith String.
Import ListNotations.

Inductive exn : Type :=
| UnicodeError | UnicodeDecodeError | UnicodeEncodeError | ValueError
| LookupError | KeyError | IndexError | TypeError | StructError
| AttributeError | OSError_ENOSPC | FileNotFound | PermissionErr | FileExists
| IsADirectory | NotADirectory | OSError_Other | TransferDone
| AlreadyAcked | BadOptions | OverflowErr | NotEmpty | OutOfFuel.

Inductive res (A : Type) : Type :=
| Ok (a : A)
| Err (e : exn).
Arguments Ok {A} a.
Arguments Err {A} e.

Definition bind {A B} (r : res A) (f : A -> res B) : res B :=
  match r with Ok a => f a | Err e => Err e end.
Notation "'do' x <- r ; k" := (bind r (fun x => k))
  (at level 200, x pattern, r at level 100, k at level 200).

Definition exn_name (e : exn) : string :=
  match e with
  | UnicodeError => "UnicodeError" | UnicodeDecodeError => "UnicodeDecodeError"
  | UnicodeEncodeError => "UnicodeEncodeError" | ValueError => "ValueError"
  | LookupError => "LookupError" | KeyError => "KeyError"
  | IndexError => "IndexError" | TypeError => "TypeError"
  | StructError => "StructError" | AttributeError => "AttributeError"
  | OSError_ENOSPC => "ENOSPC" | FileNotFound => "FileNotFoundError"
  | PermissionErr => "PermissionError" | FileExists => "FileExistsError"
  | IsADirectory => "IsADirectoryError" | NotADirectory => "NotADirectoryError"
  | OSError_Other => "OSError" | TransferDone => "TransferDone"
  | AlreadyAcked => "AlreadyAcknowledged" | BadOptions => "BadOptions"
  | OverflowErr => "OverflowError" | NotEmpty => "ENOTEMPTY" | OutOfFuel => "OutOfFuel"
  end%string.

Definition is_ok {A} (r : res A) : bool := match r with Ok _ => true | Err _ => false end.
