(* Python int(str) (base 10), str(int), ASCII lower-casing, UTF-8 decoding.
   Executable definitions only. *)
From Coq Require Import List NArith ZArith Bool.
Import ListNotations.
Open Scope N_scope.

Definition is_upper (c : N) : bool := (65 <=? c) && (c <=? 90).
Definition lower1 (c : N) : N := if is_upper c then c + 32 else c.
Definition lower (s : list N) : list N := map lower1 s.

Definition is_digit (c : N) : bool := (48 <=? c) && (c <=? 57).
(* characters removed by str.strip() / ignored around int() literals (ASCII range) *)
Definition is_space (c : N) : bool :=
  ((9 <=? c) && (c <=? 13)) || ((28 <=? c) && (c <=? 32)).

Fixpoint drop_while (p : N -> bool) (l : list N) : list N :=
  match l with
  | [] => []
  | c :: r => if p c then drop_while p r else l
  end.
Definition strip (s : list N) : list N :=
  rev (drop_while is_space (rev (drop_while is_space s))).
(* int() ignores only these around the literal (ASCII range; U+0085/U+00A0 are outside it) *)
Definition is_space_int (c : N) : bool := ((9 <=? c) && (c <=? 13)) || (c =? 32).
Definition strip_int (s : list N) : list N :=
  rev (drop_while is_space_int (rev (drop_while is_space_int s))).

(* digits with single underscores between digits *)
Fixpoint digits_val (acc : N) (prev_digit : bool) (l : list N) : option N :=
  match l with
  | [] => if prev_digit then Some acc else None
  | c :: r =>
    if is_digit c then digits_val (acc * 10 + (c - 48)) true r
    else if (c =? 95) && prev_digit then
      match r with
      | d :: _ => if is_digit d then digits_val acc false r else None
      | [] => None
      end
    else None
  end.

(* int(s) for a str of ASCII code points; None = ValueError *)
Definition py_int (s : list N) : option Z :=
  match strip_int s with
  | [] => None
  | 43 :: r => option_map Z.of_N (digits_val 0 false r)
  | 45 :: r => option_map (fun n => Z.opp (Z.of_N n)) (digits_val 0 false r)
  | r => option_map Z.of_N (digits_val 0 false r)
  end.

(* str(n) for n >= 0 *)
Fixpoint dec_digits (fuel : nat) (n : N) (acc : list N) : list N :=
  match fuel with
  | O => acc
  | S f => let acc' := (48 + n mod 10) :: acc in
           if n / 10 =? 0 then acc' else dec_digits f (n / 10) acc'
  end.
Definition str_of_N (n : N) : list N := dec_digits (S (N.to_nat (N.log2 n))) n [].
Definition str_of_Z (z : Z) : list N :=
  match z with
  | Zneg p => 45 :: str_of_N (Npos p)
  | _ => str_of_N (Z.to_N z)
  end.

(* strict UTF-8 decoding as CPython's bytes.decode('utf-8'); None = UnicodeDecodeError *)
Definition is_cont (c : N) : bool := (128 <=? c) && (c <=? 191).
Fixpoint utf8_decode (fuel : nat) (l : list N) : option (list N) :=
  match fuel with
  | O => match l with [] => Some [] | _ => None end
  | S f =>
    match l with
    | [] => Some []
    | c :: r =>
      if c <? 128 then option_map (cons c) (utf8_decode f r)
      else if (194 <=? c) && (c <=? 223) then
        match r with
        | c1 :: r1 => if is_cont c1
                      then option_map (cons ((c - 192) * 64 + (c1 - 128))) (utf8_decode f r1)
                      else None
        | _ => None
        end
      else if (224 <=? c) && (c <=? 239) then
        match r with
        | c1 :: c2 :: r2 =>
          let lo := if c =? 224 then 160 else 128 in
          let hi := if c =? 237 then 159 else 191 in
          if (lo <=? c1) && (c1 <=? hi) && is_cont c2
          then option_map (cons ((c - 224) * 4096 + (c1 - 128) * 64 + (c2 - 128))) (utf8_decode f r2)
          else None
        | _ => None
        end
      else if (240 <=? c) && (c <=? 244) then
        match r with
        | c1 :: c2 :: c3 :: r3 =>
          let lo := if c =? 240 then 144 else 128 in
          let hi := if c =? 244 then 143 else 191 in
          if (lo <=? c1) && (c1 <=? hi) && is_cont c2 && is_cont c3
          then option_map (cons ((c - 240) * 262144 + (c1 - 128) * 4096 + (c2 - 128) * 64 + (c3 - 128)))
                          (utf8_decode f r3)
          else None
        | _ => None
        end
      else None
    end
  end.
Definition py_utf8_decode (l : list N) : option (list N) := utf8_decode (length l) l.
