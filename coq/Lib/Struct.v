(* Generic little-endian `struct` layouts (python struct module, '<' prefix) and
   N-indexed buffer slicing (python slices / memoryview slices clip to the buffer).
   Executable definitions only; lemmas are in Lib/StructProofs.v. *)
From Coq Require Import String List NArith Bool Arith.
From NV Require Import Lib.Res.
Import ListNotations.
Open Scope N_scope.

(* ---------------------------------------------------------------- buffers *)
Definition lenN {A} (l : list A) : N := N.of_nat (length l).
(* = firstn (N.to_nat n) l and skipn (N.to_nat n) l (StructProofs.takeN_firstn /
   dropN_skipn), but without converting a possibly huge n to unary *)
Fixpoint takeN {A} (n : N) (l : list A) : list A :=
  match l with
  | [] => []
  | x :: r => if n =? 0 then [] else x :: takeN (N.pred n) r
  end.
Fixpoint dropN {A} (n : N) (l : list A) : list A :=
  match l with
  | [] => []
  | x :: r => if n =? 0 then l else dropN (N.pred n) r
  end.
(* python l[a:b] for 0 <= a, 0 <= b: clips to the buffer, empty when b <= a *)
Definition slice {A} (a b : N) (l : list A) : list A := takeN (b - a) (dropN a l).
Definition zeros (n : N) : list N := repeat 0 (N.to_nat n).

(* ---------------------------------------------------------------- layouts *)
Inductive fkind :=
| FU (bytes : nat)     (* unsigned little-endian integer: B=1 H=2 I=4 Q=8 *)
| FS (n : nat)         (* n-byte string  "<n>s" *)
| FPad (n : nat).      (* n pad bytes    "<n>x": skipped by unpack, zero in pack *)

Definition layout := list (fkind * string).

Inductive fieldval := VInt (n : N) | VBytes (l : list N).

Definition fsize (k : fkind) : nat := match k with FU n => n | FS n => n | FPad n => n end.

Fixpoint size (l : layout) : nat :=
  match l with [] => O | (k, _) :: r => (fsize k + size r)%nat end.
Definition sizeN (l : layout) : N := N.of_nat (size l).

Fixpoint le_decode (bs : list N) : N :=
  match bs with [] => 0 | b :: r => b + 256 * le_decode r end.

Fixpoint le_encode (n : nat) (v : N) : list N :=
  match n with O => [] | S k => (v mod 256) :: le_encode k (v / 256) end.

Definition dec_field (k : fkind) (bs : list N) : option fieldval :=
  match k with
  | FU _ => Some (VInt (le_decode bs))
  | FS _ => Some (VBytes bs)
  | FPad _ => None
  end.

Definition cons_opt {A} (o : option A) (l : list A) : list A :=
  match o with Some a => a :: l | None => l end.

(* struct.unpack(fmt, bs): exactly [size l] bytes, pad fields produce no value *)
Fixpoint unpack (l : layout) (bs : list N) : option (list fieldval) :=
  match l with
  | [] => match bs with [] => Some [] | _ => None end
  | (k, _) :: r =>
    let n := fsize k in
    if (length bs <? n)%nat then None
    else match unpack r (skipn n bs) with
         | None => None
         | Some vs => Some (cons_opt (dec_field k (firstn n bs)) vs)
         end
  end.

Definition byte_ok (b : N) : bool := b <? 256.
Definition bytes_ok (bs : list N) : bool := forallb byte_ok bs.

(* a value that struct.pack accepts for the field and encodes without padding
   or truncation (ints in range, byte strings of exactly the field width) *)
Definition val_ok (k : fkind) (v : fieldval) : bool :=
  match k, v with
  | FU n, VInt x => x <? 256 ^ N.of_nat n
  | FS n, VBytes b => (length b =? n)%nat && bytes_ok b
  | _, _ => false
  end.

Definition enc_field (k : fkind) (v : fieldval) : list N :=
  match k, v with
  | FU n, VInt x => le_encode n x
  | _, VBytes b => b
  | _, _ => []
  end.

(* struct.pack(fmt, *vs); None stands for struct.error (and for the byte-string
   padding/truncation cases of "s", which this library does not model) *)
Fixpoint pack (l : layout) (vs : list fieldval) : option (list N) :=
  match l with
  | [] => match vs with [] => Some [] | _ => None end
  | (FPad n, _) :: r =>
    match pack r vs with Some t => Some (repeat 0 n ++ t) | None => None end
  | (k, _) :: r =>
    match vs with
    | [] => None
    | v :: vs' =>
      if val_ok k v
      then match pack r vs' with Some t => Some (enc_field k v ++ t) | None => None end
      else None
    end
  end.

Definition pack_or_nil (l : layout) (vs : list fieldval) : list N :=
  match pack l vs with Some b => b | None => [] end.

(* all field values acceptable for the layout *)
Fixpoint vals_ok (l : layout) (vs : list fieldval) : bool :=
  match l with
  | [] => match vs with [] => true | _ => false end
  | (FPad _, _) :: r => vals_ok r vs
  | (k, _) :: r =>
    match vs with [] => false | v :: vs' => val_ok k v && vals_ok r vs' end
  end.

(* the buffer with the pad bytes of the layout forced to zero *)
Fixpoint zero_pads (l : layout) (bs : list N) : list N :=
  match l with
  | [] => bs
  | (k, _) :: r =>
    let n := fsize k in
    (match k with FPad _ => repeat 0 n | _ => firstn n bs end) ++ zero_pads r (skipn n bs)
  end.

(* ---------------------------------------------------------------- named fields *)
Definition is_pad (k : fkind) : bool := match k with FPad _ => true | _ => false end.

(* position of the labelled field among the unpacked values (namedtuple index) *)
Fixpoint field_index (l : layout) (name : string) : option nat :=
  match l with
  | [] => None
  | (k, lab) :: r =>
    if is_pad k then field_index r name
    else if String.eqb lab name then Some O
    else match field_index r name with Some i => Some (S i) | None => None end
  end.

(* byte offset and kind of the labelled field *)
Fixpoint field_offset (l : layout) (name : string) : option (nat * fkind) :=
  match l with
  | [] => None
  | (k, lab) :: r =>
    if negb (is_pad k) && String.eqb lab name then Some (O, k)
    else match field_offset r name with
         | Some (o, k') => Some ((fsize k + o)%nat, k')
         | None => None
         end
  end.

Definition get (l : layout) (name : string) (vs : list fieldval) : option fieldval :=
  match field_index l name with Some i => nth_error vs i | None => None end.
Definition get_int (l : layout) (name : string) (vs : list fieldval) : N :=
  match get l name vs with Some (VInt n) => n | _ => 0 end.
Definition get_bytes (l : layout) (name : string) (vs : list fieldval) : list N :=
  match get l name vs with Some (VBytes b) => b | _ => [] end.

Fixpoint set_nth {A} (i : nat) (v : A) (l : list A) : list A :=
  match l, i with
  | [], _ => []
  | _ :: r, O => v :: r
  | x :: r, S j => x :: set_nth j v r
  end.
(* namedtuple._replace(name=v) *)
Definition set (l : layout) (name : string) (v : fieldval) (vs : list fieldval) : list fieldval :=
  match field_index l name with Some i => set_nth i v vs | None => vs end.

Definition labels (l : layout) : list string :=
  map snd (filter (fun f => negb (is_pad (fst f))) l).

(* ---------------------------------------------------------------- python entry points *)
(* Struct.unpack(s): struct.error unless len(s) == size *)
Definition unpack_exact (l : layout) (s : list N) : res (list fieldval) :=
  match unpack l s with Some v => Ok v | None => Err StructError end.

(* Struct.unpack_from(buf, off) for off >= 0: struct.error when the buffer is
   shorter than off + size *)
Definition unpack_from (l : layout) (buf : list N) (off : N) : res (list fieldval) :=
  if lenN buf <? off + sizeN l then Err StructError
  else unpack_exact l (takeN (sizeN l) (dropN off buf)).

(* Struct.pack of the values *)
Definition pack_res (l : layout) (vs : list fieldval) : res (list N) :=
  match pack l vs with Some b => Ok b | None => Err StructError end.
