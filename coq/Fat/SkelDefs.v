(* The skeleton language in which harness/gen_fatskel.py describes nobodd/fs.py and
   nobodd/path.py, its trace semantics, and the executable checks. No proofs. *)
From Coq Require Import List Arith Bool.
Import ListNotations.

Inductive lk := LR | LW | LD.        (* lock.read, lock.write, mark_dirty() *)

Inductive stmt :=
| SPoke (k : nat)                    (* a store into the image *)
| SCall (targets : list nat)         (* call of one of these functions (resolved by name) *)
| SYield
| SWith (l : lk) (body : list stmt)
| SGuard (g : nat) (body : list stmt).

Inductive event :=
| EAcq (l : lk) | ERel (l : lk) | EPoke (k : nat) | EYield
| EEnter (caller callee : nat) | EExit.

(* Executions of a body: its items run in any order, any number of times, and execution may
   stop after any prefix (return, exception); a with block always releases on the way out.
   This is a superset of what the Python control flow allows. *)
Section Sem.
Variable prog : list (list stmt).
Variable env : nat -> bool.            (* which guards can hold *)

Inductive exec : nat -> list stmt -> list event -> Prop :=
| ex_stop fi items : exec fi items []
| ex_pick fi items s t1 t2 : In s items -> exec1 fi s t1 -> exec fi items t2 -> exec fi items (t1 ++ t2)
with exec1 : nat -> stmt -> list event -> Prop :=
| ex_poke fi k : exec1 fi (SPoke k) [EPoke k]
| ex_yield fi : exec1 fi SYield [EYield]
| ex_call fi tg f body t : In f tg -> nth_error prog f = Some body -> exec f body t ->
    exec1 fi (SCall tg) (EEnter fi f :: t ++ [EExit])
| ex_with fi l body t : exec fi body t -> exec1 fi (SWith l body) (EAcq l :: t ++ [ERel l])
| ex_guard fi g body t : env g = true -> exec fi body t -> exec1 fi (SGuard g body) t.
End Sem.

Definition is_w (l : lk) : bool := match l with LR => false | _ => true end.
Definition is_d (l : lk) : bool := match l with LD => true | _ => false end.

(* ---- trace predicates ---- *)
(* write-side depth held by the thread; every poke must see it positive *)
Fixpoint pokes_under (sel : lk -> bool) (d : nat) (t : list event) : bool :=
  match t with
  | [] => true
  | EAcq l :: r => pokes_under sel (if sel l then S d else d) r
  | ERel l :: r => pokes_under sel (if sel l then pred d else d) r
  | EPoke _ :: r => Nat.ltb 0 d && pokes_under sel d r
  | _ :: r => pokes_under sel d r
  end.

Fixpoint final_depth (sel : lk -> bool) (d : nat) (t : list event) : nat :=
  match t with
  | [] => d
  | EAcq l :: r => final_depth sel (if sel l then S d else d) r
  | ERel l :: r => final_depth sel (if sel l then pred d else d) r
  | _ :: r => final_depth sel d r
  end.

(* general form: a poke must be inside a selected with-block (depth d > 0) or inside an exempt
   call (top of the stack x).  C14: sel = write side, nothing exempt.  C15: sel = mark_dirty,
   exempt = the access-time update and the functions that store the flag itself.  C06: nothing
   selected, nothing exempt, i.e. no poke at all. *)
Fixpoint pokes_ok (sel : lk -> bool) (exempt : nat -> nat -> bool) (d : nat) (x : list bool) (t : list event) : bool :=
  match t with
  | [] => true
  | EAcq l :: r => pokes_ok sel exempt (if sel l then S d else d) x r
  | ERel l :: r => pokes_ok sel exempt (if sel l then pred d else d) x r
  | EEnter a b :: r => pokes_ok sel exempt d ((exempt a b || match x with e :: _ => e | [] => false end) :: x) r
  | EExit :: r => pokes_ok sel exempt d (tl x) r
  | EPoke _ :: r => (Nat.ltb 0 d || match x with e :: _ => e | [] => false end) && pokes_ok sel exempt d x r
  | _ :: r => pokes_ok sel exempt d x r
  end.

Fixpoint no_poke (t : list event) : bool :=
  match t with
  | [] => true
  | EPoke _ :: _ => false
  | _ :: r => no_poke r
  end.

(* ---- the executable checks over the generated skeleton ---- *)
Section Check.
Variable need : nat -> bool.             (* summary: the function must be called with protection *)
Variable sel : lk -> bool.               (* which with-blocks protect *)
Variable env : nat -> bool.
Variable exempt : nat -> nat -> bool.    (* call edges that need no protection *)

Fixpoint ok_stmt (fi : nat) (prot : bool) (s : stmt) : bool :=
  match s with
  | SPoke _ => prot
  | SCall tg => prot || forallb (fun f => negb (need f) || exempt fi f) tg
  | SYield => true
  | SWith l body => forallb (ok_stmt fi (prot || sel l)) body
  | SGuard g body => if env g then forallb (ok_stmt fi prot) body else true
  end.

Definition ok_fn (fi : nat) (body : list stmt) : bool :=
  need fi || forallb (ok_stmt fi false) body.

Fixpoint ok_prog_from (i : nat) (prog : list (list stmt)) : bool :=
  match prog with
  | [] => true
  | b :: r => ok_fn i b && ok_prog_from (S i) r
  end.
End Check.

Definition nthb (l : list bool) (i : nat) : bool := nth i l true.
Definition mem_nat (l : list nat) (x : nat) : bool := existsb (Nat.eqb x) l.
Definition mem_edge (l : list (nat * nat)) (a b : nat) : bool :=
  existsb (fun e => Nat.eqb (fst e) a && Nat.eqb (snd e) b) l.

(* ---- atomicity of composite operations: ONE outermost lock section ----------------------------
   A trace is quiet when it contains no lock event and no store.  [span_ok] accepts the traces in
   which every lock event and every store lies inside one outermost section: phase 0 = before the
   section (quiet), phase 1 = inside it at depth d > 0, phase 2 = after it (quiet). *)
Fixpoint quiet (t : list event) : bool :=
  match t with
  | [] => true
  | EAcq _ :: _ | ERel _ :: _ | EPoke _ :: _ => false
  | _ :: r => quiet r
  end.

(* [w]: the outermost lock of the section is the write side.  In a section opened with the READ side a
   write-side acquisition is an UPGRADE, and the lock implements an upgrade by letting go of the read side
   first -- another writer may run in between -- so such a trace is not one section. *)
Fixpoint span_ok (phase d : nat) (w : bool) (t : list event) : bool :=
  match t with
  | [] => true
  | EAcq l :: r => match phase with
                   | 0 => span_ok 1 1 (is_w l) r
                   | 1 => if is_w l && negb w then false else span_ok 1 (S d) w r
                   | _ => false
                   end
  | ERel _ :: r => match phase with
                   | 1 => match d with
                          | 0 => false
                          | 1 => span_ok 2 0 w r
                          | S d' => span_ok 1 d' w r
                          end
                   | _ => false
                   end
  | EPoke _ :: r => match phase with 1 => span_ok 1 d w r | _ => false end
  | _ :: r => span_ok phase d w r
  end.

(* no write-side acquisition at all *)
Fixpoint nowrite (t : list event) : bool :=
  match t with
  | [] => true
  | EAcq l :: r => negb (is_w l) && nowrite r
  | _ :: r => nowrite r
  end.

(* The top level of a function body taken in program order, every statement at most once
   (skipped by a branch, run, or cut short by return / exception); blocks nested inside a
   statement keep the any-order-any-number semantics [exec].  gen_fatskel.py refuses a function
   listed in atomic_entries whose lock sections sit inside a loop, which is what makes this
   reading of the top level sound. *)
Inductive exec_seq (prog : list (list stmt)) (env : nat -> bool) (fi : nat) : list stmt -> list event -> Prop :=
| sq_stop items : exec_seq prog env fi items []
| sq_skip s r t : exec_seq prog env fi r t -> exec_seq prog env fi (s :: r) t
| sq_run s r t1 t2 : exec1 prog env fi s t1 -> exec_seq prog env fi r t2 -> exec_seq prog env fi (s :: r) (t1 ++ t2).

Section Quiet.
Variable q : nat -> bool.                (* summary: the function is quiet *)
Variable env : nat -> bool.

Fixpoint quiet_stmt (s : stmt) : bool :=
  match s with
  | SPoke _ => false
  | SCall tg => forallb q tg
  | SYield => true
  | SWith _ _ => false
  | SGuard g body => if env g then forallb quiet_stmt body else true
  end.

Definition quiet_fn (fi : nat) (body : list stmt) : bool := negb (q fi) || forallb quiet_stmt body.

Fixpoint quiet_prog_from (i : nat) (prog : list (list stmt)) : bool :=
  match prog with
  | [] => true
  | b :: r => quiet_fn i b && quiet_prog_from (S i) r
  end.

Variable nw : nat -> bool.               (* summary: the function never takes the write side *)
Fixpoint nowrite_stmt (s : stmt) : bool :=
  match s with
  | SPoke _ => true
  | SCall tg => forallb nw tg
  | SYield => true
  | SWith l body => negb (is_w l) && forallb nowrite_stmt body
  | SGuard g body => if env g then forallb nowrite_stmt body else true
  end.
Definition nowrite_fn (fi : nat) (body : list stmt) : bool := negb (nw fi) || forallb nowrite_stmt body.
Fixpoint nowrite_prog_from (i : nat) (prog : list (list stmt)) : bool :=
  match prog with
  | [] => true
  | b :: r => nowrite_fn i b && nowrite_prog_from (S i) r
  end.

(* quiet statements, at most one with-block, quiet statements; a block opened with the read side must not
   reach a write-side acquisition *)
Fixpoint one_span_items (seen : bool) (items : list stmt) : bool :=
  match items with
  | [] => true
  | s :: r => if quiet_stmt s then one_span_items seen r
              else match s with
                   | SWith l body => negb seen && (is_w l || forallb nowrite_stmt body) && one_span_items true r
                   | _ => false
                   end
  end.
End Quiet.
