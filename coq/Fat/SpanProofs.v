(* Soundness of the single-section check: if the quiet summary checks and the top level of a
   function has the shape  quiet* ; with ... ; quiet*  then in every execution that takes the top
   level in program order all lock events and all stores lie inside one outermost section. *)
From Coq Require Import List Arith Bool Lia.
From NV Require Import Fat.SkelDefs Fat.SkelProofs.
Import ListNotations.

Lemma quiet_app t1 t2 : quiet (t1 ++ t2) = quiet t1 && quiet t2.
Proof. induction t1 as [|e t1 IH]; [reflexivity|]. destruct e; cbn; auto. Qed.

Lemma span_quiet_skip t : quiet t = true -> forall ph d w r, span_ok ph d w (t ++ r) = span_ok ph d w r.
Proof.
  induction t as [|e t IH]; intros Hq ph d w r; [reflexivity|].
  destruct e; cbn in Hq; try discriminate; cbn; apply IH; exact Hq.
Qed.

Lemma span_quiet_ok t : quiet t = true -> forall ph d w, span_ok ph d w t = true.
Proof.
  intros Hq ph d w. rewrite <- (app_nil_r t). rewrite (span_quiet_skip t Hq). reflexivity.
Qed.

Lemma nowrite_app t1 t2 : nowrite (t1 ++ t2) = nowrite t1 && nowrite t2.
Proof. induction t1 as [|e t1 IH]; [reflexivity|]. destruct e; cbn; auto. rewrite IH. apply andb_assoc. Qed.

Section Span.
Variable prog : list (list stmt).
Variable env : nat -> bool.
Variable q : nat -> bool.
Variable nw : nat -> bool.
Hypothesis qchecked : forall f body, nth_error prog f = Some body -> quiet_fn q env f body = true.
Hypothesis nwchecked : forall f body, nth_error prog f = Some body -> nowrite_fn env nw f body = true.

(* quiet statements produce quiet traces, to any call depth *)
Lemma quiet_both :
  (forall fi items t, exec prog env fi items t -> forallb (quiet_stmt q env) items = true -> quiet t = true) /\
  (forall fi s t, exec1 prog env fi s t -> quiet_stmt q env s = true -> quiet t = true).
Proof.
  apply exec_both.
  - reflexivity.
  - intros fi items s t1 t2 Hin H1 IH1 H2 IH2 Hall.
    rewrite quiet_app, IH1, IH2; auto. rewrite forallb_forall in Hall. apply Hall. exact Hin.
  - intros fi k Hq. cbn in Hq. discriminate.
  - reflexivity.
  - intros fi tg f body t Hin Hn H IH Hq. cbn in Hq. rewrite forallb_forall in Hq. specialize (Hq f Hin).
    pose proof (qchecked f body Hn) as Hc. unfold quiet_fn in Hc. rewrite Hq in Hc. cbn in Hc.
    cbn. rewrite quiet_app, (IH Hc). reflexivity.
  - intros fi l body t H IH Hq. cbn in Hq. discriminate.
  - intros fi g body t Hg H IH Hq. cbn in Hq. rewrite Hg in Hq. apply IH. exact Hq.
Qed.

(* statements that never take the write side produce traces without a write-side acquisition *)
Lemma nowrite_both :
  (forall fi items t, exec prog env fi items t -> forallb (nowrite_stmt env nw) items = true -> nowrite t = true) /\
  (forall fi s t, exec1 prog env fi s t -> nowrite_stmt env nw s = true -> nowrite t = true).
Proof.
  apply exec_both.
  - reflexivity.
  - intros fi items s t1 t2 Hin H1 IH1 H2 IH2 Hall.
    rewrite nowrite_app, IH1, IH2; auto. rewrite forallb_forall in Hall. apply Hall. exact Hin.
  - reflexivity.
  - reflexivity.
  - intros fi tg f body t Hin Hn H IH Hq. cbn in Hq. rewrite forallb_forall in Hq. specialize (Hq f Hin).
    pose proof (nwchecked f body Hn) as Hc. unfold nowrite_fn in Hc. rewrite Hq in Hc. cbn in Hc.
    cbn. rewrite nowrite_app, (IH Hc). reflexivity.
  - intros fi l body t H IH Hq. cbn in Hq. apply andb_true_iff in Hq as [Hl Hb].
    cbn. rewrite Hl. cbn. rewrite nowrite_app, (IH Hb). reflexivity.
  - intros fi g body t Hg H IH Hq. cbn in Hq. rewrite Hg in Hq. apply IH. exact Hq.
Qed.

(* inside the section (depth > 0) an execution stays inside and comes back to its depth -- any execution
   when the write side is held, an execution without write-side acquisitions otherwise *)
Lemma inside_both :
  (forall fi items t, exec prog env fi items t -> forall d w r, 0 < d -> (w = true \/ nowrite t = true) ->
     span_ok 1 d w (t ++ r) = span_ok 1 d w r) /\
  (forall fi s t, exec1 prog env fi s t -> forall d w r, 0 < d -> (w = true \/ nowrite t = true) ->
     span_ok 1 d w (t ++ r) = span_ok 1 d w r).
Proof.
  apply exec_both.
  - reflexivity.
  - intros fi items s t1 t2 Hin H1 IH1 H2 IH2 d w r Hd Hw. rewrite <- app_assoc.
    assert (Hw1 : w = true \/ nowrite t1 = true) by (destruct Hw as [Hw|Hw]; [left; exact Hw|right; rewrite nowrite_app in Hw; apply andb_true_iff in Hw; tauto]).
    assert (Hw2 : w = true \/ nowrite t2 = true) by (destruct Hw as [Hw|Hw]; [left; exact Hw|right; rewrite nowrite_app in Hw; apply andb_true_iff in Hw; tauto]).
    rewrite IH1, IH2; auto.
  - intros fi k d w r Hd Hw. reflexivity.
  - reflexivity.
  - intros fi tg f body t Hin Hn H IH d w r Hd Hw. cbn [app span_ok]. rewrite <- app_assoc, IH; [reflexivity|exact Hd|].
    destruct Hw as [Hw|Hw]; [left; exact Hw|right]. cbn in Hw. rewrite nowrite_app in Hw. apply andb_true_iff in Hw. tauto.
  - intros fi l body t H IH d w r Hd Hw. cbn [app span_ok].
    assert (Hup : is_w l && negb w = false).
    { destruct Hw as [Hw|Hw]; [subst w; apply andb_false_r|]. cbn in Hw. apply andb_true_iff in Hw as [Hl _].
      apply negb_true_iff in Hl. rewrite Hl. reflexivity. }
    rewrite Hup. rewrite <- app_assoc, IH; [|lia|].
    + cbn [app span_ok]. destruct d as [|d]; [lia|]. reflexivity.
    + destruct Hw as [Hw|Hw]; [left; exact Hw|right]. cbn in Hw. apply andb_true_iff in Hw as [_ Hw].
      rewrite nowrite_app in Hw. apply andb_true_iff in Hw. tauto.
  - intros fi g body t Hg H IH d w r Hd Hw. apply IH; assumption.
Qed.

Theorem one_span_sound fi : forall items t, exec_seq prog env fi items t ->
  forall seen w, one_span_items q env nw seen items = true ->
  span_ok (if seen then 2 else 0) 0 w t = true.
Proof.
  induction 1 as [items|s r t H IH|s r t1 t2 H1 H IH]; intros seen w Hs.
  - reflexivity.
  - cbn [one_span_items] in Hs. destruct (quiet_stmt q env s) eqn:Hq.
    + apply IH. exact Hs.
    + destruct s; try discriminate. apply andb_true_iff in Hs as [Hs1 Hs]. apply andb_true_iff in Hs1 as [Hseen _].
      apply negb_true_iff in Hseen. subst seen.
      (* the with-block is skipped: what follows is quiet, hence fine from phase 0 as well *)
      specialize (IH true w Hs). cbn in IH.
      clear -IH. revert IH. generalize 0 at 1 3. intros d.
      induction t as [|e t IHt]; [reflexivity|]. destruct e; cbn; try discriminate; auto.
  - cbn [one_span_items] in Hs. destruct (quiet_stmt q env s) eqn:Hq.
    + rewrite (span_quiet_skip t1 (proj2 quiet_both _ _ _ H1 Hq)). apply IH. exact Hs.
    + destruct s; try discriminate. apply andb_true_iff in Hs as [Hs1 Hs]. apply andb_true_iff in Hs1 as [Hseen Hkind].
      apply negb_true_iff in Hseen. subst seen.
      inversion H1 as [| | |fi' l' body' t' Hb|]; subst.
      cbn [app span_ok]. rewrite <- app_assoc. rewrite (proj1 inside_both _ _ _ Hb); [|lia|].
      * cbn [app span_ok]. exact (IH true (is_w l) Hs).
      * apply orb_true_iff in Hkind as [Hk|Hk]; [left; exact Hk|right; exact (proj1 nowrite_both _ _ _ Hb Hk)].
Qed.
End Span.

Lemma quiet_prog_from_nth q env prog : forall i,
  quiet_prog_from q env i prog = true ->
  forall f body, nth_error prog f = Some body -> quiet_fn q env (i + f) body = true.
Proof.
  induction prog as [|b r IH]; intros i H f body Hn; [destruct f; discriminate|].
  cbn in H. apply andb_true_iff in H as [H1 H2]. destruct f as [|f]; cbn in Hn.
  - injection Hn as <-. rewrite Nat.add_0_r. exact H1.
  - replace (i + S f) with (S i + f) by lia. apply IH; assumption.
Qed.

Lemma nowrite_prog_from_nth env nw prog : forall i,
  nowrite_prog_from env nw i prog = true ->
  forall f body, nth_error prog f = Some body -> nowrite_fn env nw (i + f) body = true.
Proof.
  induction prog as [|b r IH]; intros i H f body Hn; [destruct f; discriminate|].
  cbn in H. apply andb_true_iff in H as [H1 H2]. destruct f as [|f]; cbn in Hn.
  - injection Hn as <-. rewrite Nat.add_0_r. exact H1.
  - replace (i + S f) with (S i + f) by lia. apply IH; assumption.
Qed.
