(* Soundness of the single-section check: if the quiet summary checks and the top level of a
   function has the shape  quiet* ; with ... ; quiet*  then in every execution that takes the top
   level in program order all lock events and all stores lie inside one outermost section. *)
From Coq Require Import List Arith Bool Lia.
From NV Require Import Fat.SkelDefs Fat.SkelProofs.
Import ListNotations.

Lemma quiet_app t1 t2 : quiet (t1 ++ t2) = quiet t1 && quiet t2.
Proof. induction t1 as [|e t1 IH]; [reflexivity|]. destruct e; cbn; auto. Qed.

Lemma span_quiet_skip t : quiet t = true -> forall ph d r, span_ok ph d (t ++ r) = span_ok ph d r.
Proof.
  induction t as [|e t IH]; intros Hq ph d r; [reflexivity|].
  destruct e; cbn in Hq; try discriminate; cbn; apply IH; exact Hq.
Qed.

Lemma span_quiet_ok t : quiet t = true -> forall ph d, span_ok ph d t = true.
Proof.
  intros Hq ph d. rewrite <- (app_nil_r t). rewrite (span_quiet_skip t Hq). reflexivity.
Qed.

Section Span.
Variable prog : list (list stmt).
Variable env : nat -> bool.
Variable q : nat -> bool.
Hypothesis qchecked : forall f body, nth_error prog f = Some body -> quiet_fn q env f body = true.

(* quiet statements produce quiet traces, to any call depth *)
Lemma quiet_both :
  (forall fi items t, exec prog env fi items t -> forallb (quiet_stmt q env) items = true -> quiet t = true) /\
  (forall fi s t, exec1 prog env fi s t -> quiet_stmt q env s = true -> quiet t = true).
Proof.
  apply exec_both.
  - reflexivity.
  - intros fi items s t1 t2 Hin H1 IH1 H2 IH2 Hall.
    rewrite quiet_app, IH1, IH2; auto. rewrite forallb_forall in Hall. apply Hall. exact Hin.
  - intros fi k Hq. cbn in Hq. discriminate.
  - reflexivity.
  - intros fi tg f body t Hin Hn H IH Hq. cbn in Hq. rewrite forallb_forall in Hq. specialize (Hq f Hin).
    pose proof (qchecked f body Hn) as Hc. unfold quiet_fn in Hc. rewrite Hq in Hc. cbn in Hc.
    cbn. rewrite quiet_app, (IH Hc). reflexivity.
  - intros fi l body t H IH Hq. cbn in Hq. discriminate.
  - intros fi g body t Hg H IH Hq. cbn in Hq. rewrite Hg in Hq. apply IH. exact Hq.
Qed.

(* inside the section (depth > 0) any execution whatsoever stays inside and comes back to its depth *)
Lemma inside_both :
  (forall fi items t, exec prog env fi items t -> forall d r, 0 < d -> span_ok 1 d (t ++ r) = span_ok 1 d r) /\
  (forall fi s t, exec1 prog env fi s t -> forall d r, 0 < d -> span_ok 1 d (t ++ r) = span_ok 1 d r).
Proof.
  apply exec_both.
  - reflexivity.
  - intros fi items s t1 t2 Hin H1 IH1 H2 IH2 d r Hd. rewrite <- app_assoc, IH1, IH2; auto.
  - intros fi k d r Hd. reflexivity.
  - reflexivity.
  - intros fi tg f body t Hin Hn H IH d r Hd. cbn [app span_ok]. rewrite <- app_assoc, IH by exact Hd. reflexivity.
  - intros fi l body t H IH d r Hd. cbn [app span_ok]. rewrite <- app_assoc, IH by lia. cbn [app span_ok].
    destruct d as [|d]; [lia|]. reflexivity.
  - intros fi g body t Hg H IH d r Hd. apply IH. exact Hd.
Qed.

Theorem one_span_sound fi : forall items t, exec_seq prog env fi items t ->
  forall seen, one_span_items q env seen items = true ->
  span_ok (if seen then 2 else 0) 0 t = true.
Proof.
  induction 1 as [items|s r t H IH|s r t1 t2 H1 H IH]; intros seen Hs.
  - reflexivity.
  - cbn [one_span_items] in Hs. destruct (quiet_stmt q env s) eqn:Hq.
    + apply IH. exact Hs.
    + destruct s; try discriminate. apply andb_true_iff in Hs as [Hseen Hs]. apply negb_true_iff in Hseen. subst seen.
      (* the with-block is skipped: what follows is quiet, hence fine from phase 0 as well *)
      specialize (IH true Hs). cbn in IH.
      clear -IH. revert IH. generalize 0 at 1 3. intros d.
      induction t as [|e t IHt]; [reflexivity|]. destruct e; cbn; try discriminate; auto.
  - cbn [one_span_items] in Hs. destruct (quiet_stmt q env s) eqn:Hq.
    + rewrite (span_quiet_skip t1 (proj2 quiet_both _ _ _ H1 Hq)). apply IH. exact Hs.
    + destruct s; try discriminate. apply andb_true_iff in Hs as [Hseen Hs]. apply negb_true_iff in Hseen. subst seen.
      inversion H1 as [| | |fi' l' body' t' Hb|]; subst.
      cbn [app span_ok]. rewrite <- app_assoc. rewrite (proj1 inside_both _ _ _ Hb) by lia.
      cbn [app span_ok]. exact (IH true Hs).
Qed.
End Span.

Lemma quiet_prog_from_nth q env prog : forall i,
  quiet_prog_from q env i prog = true ->
  forall f body, nth_error prog f = Some body -> quiet_fn q env (i + f) body = true.
Proof.
  induction prog as [|b r IH]; intros i H f body Hn; [destruct f; discriminate|].
  cbn in H. apply andb_true_iff in H as [H1 H2]. destruct f as [|f]; cbn in Hn.
  - injection Hn as <-. rewrite Nat.add_0_r. exact H1.
  - replace (i + S f) with (S i + f) by lia. apply IH; assumption.
Qed.
