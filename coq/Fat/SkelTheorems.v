(* The three skeleton theorems instantiated on the skeleton regenerated from nobodd/fs.py and
   nobodd/path.py on every run (Gen/FatSkel.v); the checks themselves run by vm_compute. *)
From Coq Require Import List Arith Bool.
From NV Require Import Fat.SkelDefs Fat.SkelProofs Fat.SpanProofs Gen.FatSkel.
Import ListNotations.

Definition all_on (g : nat) : bool := true.
Definition serve_env (g : nat) : bool := negb (mem_nat serve_false_guards g).
Definition no_exempt (a b : nat) : bool := false.
Definition exempt15 (a b : nat) : bool := mem_edge atime_edges a b || mem_nat flag_functions b.
Definition sel_none (l : lk) : bool := false.

Definition check14 : bool :=
  ok_prog_from (nthb needs_w) is_w all_on no_exempt 0 skeleton && forallb (fun f => negb (nthb needs_w f)) entries_all.
Definition check15 : bool :=
  ok_prog_from (nthb needs_d) is_d all_on exempt15 0 skeleton && forallb (fun f => negb (nthb needs_d f)) entries_api.
Definition check06 : bool :=
  ok_prog_from (nthb may_poke_serving) sel_none serve_env no_exempt 0 skeleton &&
  forallb (fun f => negb (nthb may_poke_serving f)) entries_serve.

(* mutating operations: every guard may hold; reading operations: the reading configuration (access times off,
   files opened for reading, nothing created) -- [serve_env] *)
Definition nthf (l : list bool) (i : nat) : bool := nth i l false.
Definition nw_none (f : nat) : bool := false.      (* no function is claimed write-free: the section must be opened with the write side *)
Definition check14_atomic : bool :=
  quiet_prog_from (nthb quiet_fns) all_on 0 skeleton &&
  nowrite_prog_from all_on nw_none 0 skeleton &&
  forallb (fun f => one_span_items (nthb quiet_fns) all_on nw_none false (nth f skeleton [])) atomic_entries.
Definition check14_atomic_read : bool :=
  quiet_prog_from (nthb quiet_fns) serve_env 0 skeleton &&
  nowrite_prog_from serve_env (nthf nowrite_fns) 0 skeleton &&
  forallb (fun f => one_span_items (nthb quiet_fns) serve_env (nthf nowrite_fns) false (nth f skeleton [])) atomic_read_entries.

Lemma check14_holds : check14 = true. Proof. vm_compute. reflexivity. Qed.
Lemma check14_atomic_holds : check14_atomic = true. Proof. vm_compute. reflexivity. Qed.
Lemma check14_atomic_read_holds : check14_atomic_read = true. Proof. vm_compute. reflexivity. Qed.
Lemma check15_holds : check15 = true. Proof. vm_compute. reflexivity. Qed.
Lemma check06_holds : check06 = true. Proof. vm_compute. reflexivity. Qed.

Lemma entry_not_needed need entries f :
  forallb (fun f => negb (nthb need f)) entries = true -> In f entries -> nthb need f = false.
Proof. intros H Hin. rewrite forallb_forall in H. apply negb_true_iff. apply H. exact Hin. Qed.

(* C14: every execution of every public function of fs.py / path.py stores into the image only
   while the write side is held, and has released everything it acquired when it ends *)
Theorem skel_pokes_under_write f body t :
  In f entries_all -> nth_error skeleton f = Some body -> exec skeleton all_on f body t ->
  pokes_ok is_w no_exempt 0 [] t = true /\
  final_depth is_w 0 t = 0 /\ final_depth (fun l => negb (is_w l)) 0 t = 0.
Proof.
  intros Hin Hn H. pose proof check14_holds as C. unfold check14 in C. apply andb_true_iff in C as [C1 C2].
  split; [|split; eapply locks_balanced; exact H].
  eapply (entry_safe skeleton all_on is_w no_exempt (nthb needs_w)); [|exact Hn| |exact H].
  - intros g b Hg. exact (ok_prog_from_nth _ _ _ _ _ 0 C1 g b Hg).
  - eapply entry_not_needed; eassumption.
Qed.

(* C15: every store made by an API operation lies inside a mark_dirty bracket, except the
   access-time update of a read and the stores of the flag itself *)
Theorem skel_pokes_inside_dirty_bracket f body t :
  In f entries_api -> nth_error skeleton f = Some body -> exec skeleton all_on f body t ->
  pokes_ok is_d exempt15 0 [] t = true /\ final_depth is_d 0 t = 0.
Proof.
  intros Hin Hn H. pose proof check15_holds as C. unfold check15 in C. apply andb_true_iff in C as [C1 C2].
  split; [|eapply locks_balanced; exact H].
  eapply (entry_safe skeleton all_on is_d exempt15 (nthb needs_d)); [|exact Hn| |exact H].
  - intros g b Hg. exact (ok_prog_from_nth _ _ _ _ _ 0 C1 g b Hg).
  - eapply entry_not_needed; eassumption.
Qed.

(* C06: with the serving configuration (file opened 'rb', access times off, nothing created in
   read mode, close releasing only writable files) no execution of the serving entry points
   stores into the image at all *)
Theorem skel_serving_never_pokes f body t :
  In f entries_serve -> nth_error skeleton f = Some body -> exec skeleton serve_env f body t ->
  no_poke t = true.
Proof.
  intros Hin Hn H. pose proof check06_holds as C. unfold check06 in C. apply andb_true_iff in C as [C1 C2].
  apply (pokes_ok_none_no_poke t 0 []); [reflexivity|reflexivity|].
  eapply (entry_safe skeleton serve_env sel_none no_exempt (nthb may_poke_serving)); [|exact Hn| |exact H].
  - intros g b Hg. exact (ok_prog_from_nth _ _ _ _ _ 0 C1 g b Hg).
  - eapply entry_not_needed; eassumption.
Qed.

(* C14, atomicity: the composite operations (unlink, rename, mkdir, rmdir, touch, write_bytes/text,
   read_bytes/text, iterdir/glob/rglob, FatFile.write / truncate / readall) are ONE exclusive (or
   shared) section: in every execution that takes the top level of the function in program order,
   every lock event and every store lies inside a single outermost with-block, with nothing but
   lock-free, store-free code before and after it *)
Theorem skel_atomic_single_section f body t w :
  In f atomic_entries -> nth_error skeleton f = Some body -> exec_seq skeleton all_on f body t ->
  span_ok 0 0 w t = true.
Proof.
  intros Hin Hn H. pose proof check14_atomic_holds as C. unfold check14_atomic in C.
  apply andb_true_iff in C as [C C2]. apply andb_true_iff in C as [C1 C3].
  rewrite forallb_forall in C2. specialize (C2 f Hin). rewrite (nth_error_nth _ _ _ Hn) in C2.
  apply (one_span_sound skeleton all_on (nthb quiet_fns) nw_none
           (fun g b Hg => quiet_prog_from_nth _ _ _ 0 C1 g b Hg)
           (fun g b Hg => nowrite_prog_from_nth _ _ _ 0 C3 g b Hg) f body t H false w C2).
Qed.

(* the reading operations (read_bytes / read_text / iterdir / glob / rglob / readall) in the reading
   configuration: one section opened with the read side, in which the write side is never requested
   (an upgrade would let go of the read side first) *)
Theorem skel_atomic_read_single_section f body t w :
  In f atomic_read_entries -> nth_error skeleton f = Some body -> exec_seq skeleton serve_env f body t ->
  span_ok 0 0 w t = true.
Proof.
  intros Hin Hn H. pose proof check14_atomic_read_holds as C. unfold check14_atomic_read in C.
  apply andb_true_iff in C as [C C2]. apply andb_true_iff in C as [C1 C3].
  rewrite forallb_forall in C2. specialize (C2 f Hin). rewrite (nth_error_nth _ _ _ Hn) in C2.
  apply (one_span_sound skeleton serve_env (nthb quiet_fns) (nthf nowrite_fns)
           (fun g b Hg => quiet_prog_from_nth _ _ _ 0 C1 g b Hg)
           (fun g b Hg => nowrite_prog_from_nth _ _ _ 0 C3 g b Hg) f body t H false w C2).
Qed.
