(* The tree abstraction [abs] and the complete structural check [wf_check] of a FAT
   volume (specification side; executable, no proofs). *)
From Coq Require Import List NArith Bool.
From NV Require Import Lib.Res Gen.Fat Fat.Spec.
Import ListNotations.
Open Scope N_scope.

Inductive node :=
| NFile (e : dentry) (content : list N) (ch : list N) (ce : chain_end)
| NDir (e : option dentry) (dots : list dentry) (children : list node)
       (ch : list N) (ce : chain_end) (orphans : N).

Definition cend_code (c : chain_end) : N := match c with CEnd => 0 | CBad w => w end.

Definition is_dot (d : dentry) : bool :=
  beq (d_sfn d) [46] || beq (d_sfn d) [46; 46].

Definition dir_records (g : geom) (img : image) (fat : list N) (cluster : N)
  : list (list N) * list N * chain_end :=
  if (cluster =? 0) && negb (g_bits g =? 32) then
    (chunks32 (S (N.to_nat (g_root_size g / 32))) (slice (g_root_off g) (g_root_size g) img), [], CEnd)
  else
    let c := if cluster =? 0 then g_root_cluster g else cluster in
    let x := chain g fat (S (N.to_nat (g_count g))) c in
    let bytes := flat_map (cluster_bytes g img) (fst x) in
    (chunks32 (S (Nat.div (length bytes) 32)) bytes, fst x, snd x).

(* [budget] bounds the number of directories visited in total (a damaged volume can describe an
   exponentially large "tree"); [anc] are the clusters of the ancestor directories (cycles) *)
Fixpoint read_dir (fuel : nat) (budget : nat) (g : geom) (img : image) (fat : list N) (anc : list N)
         (e : option dentry) (cluster : N) : node * nat :=
  let r := dir_records g img fat cluster in
  let recs := fst (fst r) in
  let dd := decode_dir recs 0 None 0 in
  let ents := fst dd in
  let dots := filter is_dot ents in
  let real := filter (fun d => negb (is_dot d)) ents in
  match fuel with
  | O => (NDir e dots [] (snd (fst r)) (CBad 3) (snd dd), budget)
  | S f =>
    let step (st : list node * nat) (d : dentry) : list node * nat :=
        let acc := fst st in let b := snd st in
        if d_is_dir d then
          match b with
          | O => (acc ++ [NDir (Some d) [] [] [] (CBad 3) 0], O)
          | S b' =>
            (* a directory that is its own ancestor (a cycle) is not descended into *)
            if existsb (N.eqb (d_cluster (g_bits g) d)) (cluster :: anc)
            then (acc ++ [NDir (Some d) [] [] [] (CBad 3) 0], b)
            else let x := read_dir f b' g img fat (cluster :: anc) (Some d) (d_cluster (g_bits g) d) in
                 (acc ++ [fst x], snd x)
          end
        else
          let c := d_cluster (g_bits g) d in
          if (c =? 0) then (acc ++ [NFile d [] [] CEnd], b)
          else let x := chain g fat (S (N.to_nat (g_count g))) c in
               (acc ++ [NFile d (firstn (N.to_nat (d_size d)) (flat_map (cluster_bytes g img) (fst x)))
                              (fst x) (snd x)], b) in
    let kids := fold_left step real ([], budget) in
    (NDir e dots (fst kids) (snd (fst r)) (snd r) (snd dd), snd kids)
  end.

Definition abs (img : image) : res (geom * node) :=
  do g <- geometry img;
  let fat := fat_copy g img 0 in
  Ok (g, fst (read_dir 24 (64 + 2 * N.to_nat (g_count g)) g img fat [] None 0)).

(* ---------------- structural check ---------------- *)
(* problems are reported as (code, detail) pairs:
   1 FAT copies differ (detail = copy)      2 file chain not terminated / out of range (first cluster)
   3 file chain length <> ceil(size/cs)     4 empty file owns a cluster
   5 directory chain bad                    6 cluster used twice
   7 lost cluster (allocated, unreachable)  8 '.' entry wrong     9 '..' entry wrong
   10 duplicate name in a directory         11 orphaned / invalid long-name records
   12 FSInfo free count wrong (detail = recorded)   13 dirty flag set
   14 illegal character in an 8.3 alias     15 directory entry has non-zero size
   16 non-empty file without a cluster      17 nesting too deep / directory cycle *)
Definition problem := (N * N)%type.

Fixpoint all_chains (n : node) : list N :=
  match n with
  | NFile _ _ ch _ => ch
  | NDir _ _ kids ch _ _ => ch ++ flat_map all_chains kids
  end.

Fixpoint has_dup (l : list N) (seen : list N) : option N :=
  match l with
  | [] => None
  | c :: r => if existsb (N.eqb c) seen then Some c else has_dup r (c :: seen)
  end.

Definition upper_ascii (c : N) : N := if (97 <=? c) && (c <=? 122) then c - 32 else c.
Definition ci_eq (a b : list N) : bool := beq (map upper_ascii a) (map upper_ascii b).

Fixpoint dup_names (names : list (list N)) : bool :=
  match names with
  | [] => false
  | n :: r => existsb (ci_eq n) r || dup_names r
  end.

Definition alias_char_ok (c : N) : bool :=
  ((65 <=? c) && (c <=? 90)) || ((48 <=? c) && (c <=? 57)) || (128 <=? c) ||
  existsb (N.eqb c) [32;33;35;36;37;38;39;40;41;45;64;94;95;96;123;125;126].

Definition alias_ok (d : dentry) : bool :=
  let ne := sfn_text (d_raw d) in
  forallb alias_char_ok (fst ne) && forallb alias_char_ok (snd ne) &&
  negb (match fst ne with [] => true | _ => false end).

Fixpoint check_node (g : geom) (parent_cluster : N) (n : node) : list problem :=
  match n with
  | NFile d content ch ce =>
    let size := d_size d in
    let c := d_cluster (g_bits g) d in
    let need := (size + g_cs g - 1) / g_cs g in
    (if negb (alias_ok d) then [(14, d_off d)] else []) ++
    (if size =? 0 then (if c =? 0 then [] else [(4, c)])
     else if c =? 0 then [(16, size)]
     else (match ce with CEnd => [] | CBad w => [(2, c)] end) ++
          (if N.of_nat (length ch) =? need then [] else [(3, c)]))
  | NDir e dots kids ch ce orph =>
    let own := match e with Some d => d_cluster (g_bits g) d | None => 0 end in
    (match ce with CEnd => [] | CBad w => [(if w =? 3 then 17 else 5, own)] end) ++
    (if orph =? 0 then [] else [(11, orph)]) ++
    (match e with
     | None => []
     | Some d =>
       (if negb (alias_ok d) then [(14, d_off d)] else []) ++
       (if d_size d =? 0 then [] else [(15, own)]) ++
       match dots with
       | d1 :: d2 :: _ =>
         (if beq (d_sfn d1) [46] && (d_cluster (g_bits g) d1 =? own) && d_is_dir d1 && (d_off d1 =? 0)
          then [] else [(8, own)]) ++
         (if beq (d_sfn d2) [46; 46] && (d_cluster (g_bits g) d2 =? parent_cluster) && d_is_dir d2 && (d_off d2 =? 1)
          then [] else [(9, own)])
       | _ => [(8, own)]
       end
     end) ++
    (let names := flat_map (fun k => match k with
                                     | NFile d _ _ _ => [d_name d; d_sfn d]
                                     | NDir (Some d) _ _ _ _ _ => [d_name d; d_sfn d]
                                     | _ => [] end) kids in
     (* a name and its own alias may coincide; anything else may not *)
     let distinct := flat_map (fun k => match k with
                                     | NFile d _ _ _ | NDir (Some d) _ _ _ _ _ =>
                                       if ci_eq (d_name d) (d_sfn d) then [d_sfn d] else [d_name d; d_sfn d]
                                     | _ => [] end) kids in
     if dup_names distinct then [(10, own)] else []) ++
    flat_map (check_node g (if g_bits g =? 32 then (if own =? g_root_cluster g then 0 else own) else own)) kids
  end.

Fixpoint count_free (g : geom) (fat : list N) (i : N) (fuel : nat) : N :=
  match fuel with
  | O => 0
  | S f => (if in_data g i && (nth (N.to_nat i) fat 1 =? 0) then 1 else 0) + count_free g fat (i + 1) f
  end.

Fixpoint lost (g : geom) (fat : list N) (used : list N) (i : N) (fuel : nat) : list problem :=
  match fuel with
  | O => []
  | S f =>
    let v := nth (N.to_nat i) fat 0 in
    (if in_data g i && negb (v =? 0) && negb (v =? bad_mark (g_bits g)) && negb (existsb (N.eqb i) used)
     then [(7, i)] else []) ++ lost g fat used (i + 1) f
  end.

Definition clean_bit_set (g : geom) (fat : list N) : bool :=
  if g_bits g =? 12 then true
  else negb (N.land (nth 1 fat 0) (if g_bits g =? 16 then fat16_clean_bit else fat32_clean_bit) =? 0).

Definition sig_RRaA : list N := [82;82;97;65].
Definition sig_rrAa : list N := [114;114;65;97].
Definition sig_55AA : list N := [0;0;85;170].

Definition wf_problems (img : image) : res (list problem) :=
  do x <- abs img;
  let g := fst x in let root := snd x in
  let fat := fat_copy g img 0 in
  let copies := seq 1 (N.to_nat (g_nfats g) - 1) in
  let p1 := flat_map (fun k => if list_eq_dec N.eq_dec (fat_copy g img (N.of_nat k)) fat then [] else [(1, N.of_nat k)]) copies in
  let used := all_chains root in
  let p6 := match has_dup used [] with Some c => [(6, c)] | None => [] end in
  let p7 := lost g fat used 2 (N.to_nat (g_count g)) in
  let p12 := match g_info_off g with
             | None => []
             | Some off =>
               if beq (fbytes info_sig1 off img) sig_RRaA && beq (fbytes info_sig2 off img) sig_rrAa
                  && beq (fbytes info_sig3 off img) sig_55AA
               then let rec := field info_free_clusters off img in
                    if (rec =? 4294967295) || (rec =? count_free g fat 2 (N.to_nat (g_count g))) then [] else [(12, rec)]
               else []
             end in
  let p13 := if clean_bit_set g fat then [] else [(13, 0)] in
  Ok (p1 ++ check_node g 0 root ++ p6 ++ p7 ++ p12 ++ p13).

(* lookup of one path (list of names, case-insensitive, long name or alias) *)
Fixpoint find_child (name : list N) (kids : list node) : option node :=
  match kids with
  | [] => None
  | k :: r =>
    let hit := match k with
               | NFile d _ _ _ | NDir (Some d) _ _ _ _ _ => ci_eq (d_name d) name || ci_eq (d_sfn d) name
               | _ => false end in
    if hit then Some k else find_child name r
  end.
Fixpoint lookup (path : list (list N)) (n : node) : option node :=
  match path with
  | [] => Some n
  | p :: r => match n with
              | NDir _ _ kids _ _ _ => match find_child p kids with Some k => lookup r k | None => None end
              | _ => None
              end
  end.
