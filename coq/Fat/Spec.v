(* Specification-level reader of a FAT12/16/32 volume, independent of nobodd's code:
   geometry, bit-level FAT entries, VFAT directory decoding, the tree abstraction
   [abs] and the complete structural check [wf_check].  Executable; no proofs. *)
From Coq Require Import List NArith Bool.
From NV Require Import Lib.Res Gen.Fat.
Import ListNotations.
Open Scope N_scope.

Definition image := list N.

Definition slice (off len : N) (img : image) : list N :=
  firstn (N.to_nat len) (skipn (N.to_nat off) img).

Fixpoint le_val (b : list N) : N :=
  match b with [] => 0 | x :: r => x + 256 * le_val r end.
Definition field (f : N * N) (base : N) (img : image) : N := le_val (slice (base + fst f) (snd f) img).
Definition fbytes (f : N * N) (base : N) (img : image) : list N := slice (base + fst f) (snd f) img.

Fixpoint beq (a b : list N) : bool :=
  match a, b with
  | [], [] => true
  | x :: a', y :: b' => (x =? y) && beq a' b'
  | _, _ => false
  end.

(* ---------------- geometry ---------------- *)
Record geom := {
  g_bits : N;            (* 12 / 16 / 32 *)
  g_bps : N; g_spc : N; g_cs : N;
  g_fat_off : N; g_fat_size : N; g_nfats : N;
  g_root_off : N; g_root_size : N;      (* fixed root region (0 for FAT32) *)
  g_root_cluster : N;                   (* FAT32 *)
  g_data_off : N; g_count : N;          (* data clusters are 2 .. count+1 *)
  g_info_off : option N;
  g_total : N
}.

Definition s_FAT12 : list N := [70;65;84;49;50;32;32;32].
Definition s_FAT16 : list N := [70;65;84;49;54;32;32;32].
Definition s_FAT32 : list N := [70;65;84;51;50;32;32;32].

Definition is_pow2 (n : N) : bool := negb (n =? 0) && (N.land n (n - 1) =? 0).

Definition type_by_string (s : list N) : option N :=
  if beq s s_FAT12 then Some 12 else if beq s s_FAT16 then Some 16
  else if beq s s_FAT32 then Some 32 else None.

(* which EBPB is present, and the FAT width: file-system string first, otherwise
   the cluster-count rule of the FAT specification *)
Definition geometry (img : image) : res geom :=
  let bps := field bpb_bytes_per_sector 0 img in
  let spc := field bpb_sectors_per_cluster 0 img in
  if (N.of_nat (length img) <? 90) then Err ValueError else
  if negb (is_pow2 bps) || (bps <? 32) || negb (is_pow2 spc) then Err ValueError else
  let reserved := field bpb_reserved_sectors 0 img in
  let nfats := field bpb_fat_count 0 img in
  let rootent := field bpb_max_root_entries 0 img in
  let tot16 := field bpb_fat16_total_sectors 0 img in
  let tot32 := field bpb_fat32_total_sectors 0 img in
  let spf16 := field bpb_sectors_per_fat 0 img in
  let total := if tot16 =? 0 then tot32 else tot16 in
  let count_of spf :=
      let root_sectors := (rootent * 32 + (bps - 1)) / bps in
      let data_start := reserved + nfats * spf + root_sectors in
      (total - data_start) / spc in
  let by_count spf := let c := count_of spf in
                      if c <? fat12_threshold then 12 else if c <? fat16_threshold then 16 else 32 in
  (* try the short (FAT12/16) EBPB directly after the BPB, then the FAT32 layout *)
  let e1 := bpb_sizeof in
  let sig1 := field ebpb_extended_boot_sig e1 img in
  let e2 := bpb_sizeof + f32_sizeof in
  let sig2 := field ebpb_extended_boot_sig e2 img in
  let choice : option (N * bool) :=   (* (bits, has fat32 ebpb) *)
      match type_by_string (fbytes ebpb_file_system e1 img) with
      | Some b => Some (b, false)
      | None =>
        if (sig1 =? 40) || (sig1 =? 41) then Some (by_count spf16, false)
        else match type_by_string (fbytes ebpb_file_system e2 img) with
             | Some b => Some (b, true)
             | None => if (sig2 =? 40) || (sig2 =? 41)
                       then Some (by_count (field f32_sectors_per_fat bpb_sizeof img), true)
                       else None
             end
      end in
  match choice with
  | None => Err ValueError
  | Some (bits, has32) =>
    let spf := if has32 then field f32_sectors_per_fat bpb_sizeof img else spf16 in
    let fat_size := spf * bps in
    let root_size := rootent * 32 in
    if fat_size =? 0 then Err ValueError
    else if negb (root_size mod bps =? 0) then Err ValueError
    else if (bits =? 32) && negb has32 then Err ValueError
    else if (bits =? 32) && negb (rootent =? 0) then Err ValueError
    else if negb (bits =? 32) && (rootent =? 0) then Err ValueError
    else
      let fat_off := reserved * bps in
      let root_off := fat_off + fat_size * nfats in
      let data_off := root_off + root_size in
      let endo := N.min (total * bps) (N.of_nat (length img)) in
      let cs := bps * spc in
      let info := if has32 then field f32_info_sector bpb_sizeof img else 0 in
      Ok {| g_bits := bits; g_bps := bps; g_spc := spc; g_cs := cs;
            g_fat_off := fat_off; g_fat_size := fat_size; g_nfats := nfats;
            g_root_off := root_off; g_root_size := root_size;
            g_root_cluster := if has32 then field f32_root_dir_cluster bpb_sizeof img else 0;
            g_data_off := data_off; g_count := (endo - data_off) / cs;
            g_info_off := if has32 && negb (info =? 0) && negb (info =? 65535) then Some (info * bps) else None;
            g_total := total |}
  end.

(* ---------------- the FAT, bit by bit ---------------- *)
(* entry n of width w occupies bits [w*n, w*n+w) of the table's little-endian bit
   stream; for w = 32 only the low 28 bits are the value *)
Fixpoint decode12 (b : list N) : list N :=
  match b with
  | b0 :: b1 :: b2 :: r => (b0 + 256 * (b1 mod 16)) :: (b1 / 16 + 16 * b2) :: decode12 r
  | [b0; b1] => [b0 + 256 * (b1 mod 16)]
  | _ => []
  end.
Fixpoint decode16 (b : list N) : list N :=
  match b with
  | b0 :: b1 :: r => (b0 + 256 * b1) :: decode16 r
  | _ => []
  end.
Fixpoint decode32 (b : list N) : list N :=
  match b with
  | b0 :: b1 :: b2 :: b3 :: r => (b0 + 256 * b1 + 65536 * b2 + 16777216 * (b3 mod 16)) :: decode32 r
  | _ => []
  end.
Definition decode_fat (bits : N) (b : list N) : list N :=
  if bits =? 12 then decode12 b else if bits =? 16 then decode16 b else decode32 b.

Definition fat_copy (g : geom) (img : image) (k : N) : list N :=
  decode_fat (g_bits g) (slice (g_fat_off g + k * g_fat_size g) (g_fat_size g) img).

Definition eoc_min (bits : N) : N :=       (* values >= this terminate a chain *)
  if bits =? 12 then 4088 else if bits =? 16 then 65528 else 268435448.
Definition bad_mark (bits : N) : N :=
  if bits =? 12 then 4087 else if bits =? 16 then 65527 else 268435447.

Definition in_data (g : geom) (c : N) : bool := (2 <=? c) && (c <? g_count g + 2).

(* the chain starting at [start]: clusters, and how it ended *)
Inductive chain_end := CEnd | CBad (why : N).   (* 1 out of range, 2 free, 3 cycle/too long, 4 reserved value *)
Fixpoint chain (g : geom) (fat : list N) (fuel : nat) (c : N) : list N * chain_end :=
  match fuel with
  | O => ([], CBad 3)
  | S f =>
    if negb (in_data g c) then ([], CBad 1)
    else
      let v := nth (N.to_nat c) fat 0 in
      if v =? 0 then ([c], CBad 2)
      else if eoc_min (g_bits g) <=? v then ([c], CEnd)
      else if (bad_mark (g_bits g) <=? v) || (v <? 2) then ([c], CBad 4)
      else let x := chain g fat f v in (c :: fst x, snd x)
  end.

Definition cluster_bytes (g : geom) (img : image) (c : N) : list N :=
  slice (g_data_off g + (c - 2) * g_cs g) (g_cs g) img.

(* ---------------- directory decoding (VFAT) ---------------- *)
Fixpoint chunks32 (fuel : nat) (b : list N) : list (list N) :=
  match fuel with
  | O => []
  | S f => match b with
           | [] => []
           | _ => firstn 32 b :: chunks32 f (skipn 32 b)
           end
  end.

Definition rfield (f : N * N) (r : list N) : N := le_val (slice (fst f) (snd f) r).
Definition rbytes (f : N * N) (r : list N) : list N := slice (fst f) (snd f) r.

Definition checksum (name11 : list N) : N :=
  fold_left (fun acc c => (N.land acc 1 * 128 + acc / 2 + c) mod 256) name11 0.

Fixpoint rstrip_sp (l : list N) : list N :=
  match l with
  | [] => []
  | c :: r => match rstrip_sp r with
              | [] => if c =? 32 then [] else [c]
              | r' => c :: r'
              end
  end.

(* str.lower() on the iso-8859-1 decoding, re-encoded: A-Z and the Latin-1 capitals 0xC0-0xDE except the
   multiplication sign 0xD7; the writer (_get_names) and the reader (_split_entries) use the same map *)
Definition lower_ascii (c : N) : N := if ((65 <=? c) && (c <=? 90)) || ((192 <=? c) && (c <=? 222) && negb (c =? 215)) then c + 32 else c.

(* UTF-16LE code units -> code points (surrogate pairs joined; lone surrogates kept) *)
Fixpoint units (b : list N) : list N :=
  match b with
  | lo :: hi :: r => (lo + 256 * hi) :: units r
  | _ => []
  end.
Fixpoint join_surrogates (u : list N) : list N :=
  match u with
  | h :: r =>
    if (55296 <=? h) && (h <? 56320) then
      match r with
      | l :: r' => if (56320 <=? l) && (l <? 57344)
                   then (65536 + (h - 55296) * 1024 + (l - 56320)) :: join_surrogates r'
                   else h :: join_surrogates r
      | [] => [h]
      end
    else h :: join_surrogates r
  | [] => []
  end.
Fixpoint take_until0 (u : list N) : list N :=
  match u with
  | [] => []
  | c :: r => if c =? 0 then [] else c :: take_until0 r
  end.
Fixpoint rstrip_ffff (l : list N) : list N :=
  match l with
  | [] => []
  | c :: r => match rstrip_ffff r with
              | [] => if c =? 65535 then [] else [c]
              | r' => c :: r'
              end
  end.

Record dentry := {
  d_name : list N;          (* code points of the name as listed *)
  d_sfn : list N;           (* 8.3 alias as text (bytes of the OEM code page) *)
  d_raw : list N;           (* the 32-byte short entry *)
  d_nlfn : N;               (* number of long-name records used *)
  d_off : N                 (* index of the short entry in the directory *)
}.

Definition d_attr (d : dentry) : N := rfield de_attr (d_raw d).
Definition d_is_dir (d : dentry) : bool := negb (N.land (d_attr d) 16 =? 0).
Definition d_size (d : dentry) : N := rfield de_size (d_raw d).
Definition d_cluster (bits : N) (d : dentry) : N :=
  rfield de_first_cluster_lo (d_raw d) +
  (if bits =? 32 then 65536 * rfield de_first_cluster_hi (d_raw d) else 0).

Definition sfn_text (raw : list N) : list N * list N :=
  let nm := rstrip_sp (rbytes de_filename raw) in
  let nm := match nm with 5 :: r => 229 :: r | _ => nm end in
  (nm, rstrip_sp (rbytes de_ext raw)).

Definition short_name (raw : list N) : list N * list N :=   (* (display name, alias) *)
  let ne := sfn_text raw in
  let nm := fst ne in let ex := snd ne in
  let a2 := rfield de_attr2 raw in
  let dn := if negb (N.land a2 8 =? 0) then map lower_ascii nm else nm in
  let de := if negb (N.land a2 16 =? 0) then map lower_ascii ex else ex in
  (match ex with [] => dn | _ => dn ++ [46] ++ de end,
   match ex with [] => nm | _ => nm ++ [46] ++ ex end).

(* pending long-name run: next expected ordinal (0 = complete), checksum, parts collected
   (the parts come in reverse order on disk, so consing puts them in name order) *)
Record lrun := { l_next : N; l_sum : N; l_units : list N; l_count : N }.

Definition lfn_units (r : list N) : list N :=
  units (rbytes lfn_name_1 r ++ rbytes lfn_name_2 r ++ rbytes lfn_name_3 r).

Fixpoint decode_dir (recs : list (list N)) (idx : N) (pend : option lrun) (orphans : N)
  : list dentry * N :=
  match recs with
  | [] => ([], orphans + match pend with Some p => l_count p | None => 0 end)
  | r :: rest =>
    let b0 := nth 0 r 0 in
    let attr := rfield de_attr r in
    let pc := match pend with Some p => l_count p | None => 0 end in
    if b0 =? 0 then ([], orphans + pc)
    else if attr =? 15 then
      (* long-name record *)
      let seq := b0 in
      if seq =? 229 then decode_dir rest (idx + 1) None (orphans + pc)
      else if negb (rfield lfn_first_cluster r =? 0) then decode_dir rest (idx + 1) None (orphans + pc + 1)
      else if negb (N.land seq 64 =? 0) then
        let n := N.land seq 31 in
        if n =? 0 then decode_dir rest (idx + 1) None (orphans + pc + 1)
        else decode_dir rest (idx + 1)
               (Some {| l_next := n - 1; l_sum := rfield lfn_checksum r; l_units := lfn_units r; l_count := 1 |})
               (orphans + pc)
      else
        match pend with
        | Some p =>
          if (seq =? l_next p) && negb (l_next p =? 0) && (rfield lfn_checksum r =? l_sum p)
          then decode_dir rest (idx + 1)
                 (Some {| l_next := l_next p - 1; l_sum := l_sum p; l_units := lfn_units r ++ l_units p;
                          l_count := l_count p + 1 |}) orphans
          else decode_dir rest (idx + 1) None (orphans + pc + 1)
        | None => decode_dir rest (idx + 1) None (orphans + 1)
        end
    else if b0 =? 229 then decode_dir rest (idx + 1) None (orphans + pc)
    else if negb (N.land attr 8 =? 0) then decode_dir rest (idx + 1) None (orphans + pc)
    else
      let sn := short_name r in
      let sum := checksum (firstn 11 r) in
      let long :=
          match pend with
          | Some p => if (l_next p =? 0) && (l_sum p =? sum)
                      then Some (join_surrogates (take_until0 (l_units p)), l_count p) else None
          | None => None
          end in
      let x := decode_dir rest (idx + 1) None
                 (orphans + match long with Some _ => 0 | None => pc end) in
      ({| d_name := match long with Some (n, _) => match n with [] => fst sn | _ => n end | None => fst sn end;
          d_sfn := snd sn; d_raw := r;
          d_nlfn := match long with Some (_, k) => k | None => 0 end; d_off := idx |} :: fst x, snd x)
  end.
