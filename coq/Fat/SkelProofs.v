(* Soundness of the executable skeleton checks: if the check passes, EVERY execution of every
   entry function (any order of its statements, any repetition, aborting anywhere, any depth of
   calls) satisfies the trace predicate. *)
From Coq Require Import List Arith Bool Lia.
From NV Require Import Fat.SkelDefs.
Import ListNotations.

Scheme exec_mind := Induction for exec Sort Prop
  with exec1_mind := Induction for exec1 Sort Prop.
Combined Scheme exec_both from exec_mind, exec1_mind.

Section Sound.
Variable prog : list (list stmt).
Variable env : nat -> bool.
Variable sel : lk -> bool.
Variable exempt : nat -> nat -> bool.
Variable need : nat -> bool.

Definition hd_x (x : list bool) : bool := match x with e :: _ => e | [] => false end.

Lemma pokes_ok_app d x t1 t2 d' x' :
  pokes_ok sel exempt d x t1 = true ->
  (forall r, pokes_ok sel exempt d x (t1 ++ r) = (pokes_ok sel exempt d x t1 && pokes_ok sel exempt d' x' r)) ->
  pokes_ok sel exempt d' x' t2 = true -> pokes_ok sel exempt d x (t1 ++ t2) = true.
Proof. intros H1 H2 H3. rewrite H2, H1, H3. reflexivity. Qed.

(* every trace restores depth and stack, wherever it starts *)
Lemma restore_both :
  (forall fi items t, exec prog env fi items t ->
     forall d x r, pokes_ok sel exempt d x (t ++ r) = (pokes_ok sel exempt d x t && pokes_ok sel exempt d x r)) /\
  (forall fi s t, exec1 prog env fi s t ->
     forall d x r, pokes_ok sel exempt d x (t ++ r) = (pokes_ok sel exempt d x t && pokes_ok sel exempt d x r)).
Proof.
  apply exec_both.
  - intros fi items d x r. reflexivity.
  - intros fi items s t1 t2 Hin H1 IH1 H2 IH2 d x r.
    rewrite <- app_assoc. rewrite (IH1 d x (t2 ++ r)), (IH2 d x r), (IH1 d x t2). apply andb_assoc.
  - intros fi k d x r. cbn. rewrite andb_true_r. reflexivity.
  - intros fi d x r. reflexivity.
  - intros fi tg f body t Hin Hn H IH d x r. cbn [app pokes_ok].
    rewrite <- app_assoc. rewrite IH. cbn [app pokes_ok tl].
    rewrite (IH d _ [EExit]). cbn [pokes_ok tl]. rewrite andb_true_r. reflexivity.
  - intros fi l body t H IH d x r. cbn [app pokes_ok].
    rewrite <- app_assoc. rewrite IH. cbn [app pokes_ok].
    rewrite (IH _ x [ERel l]). cbn [pokes_ok]. rewrite andb_true_r.
    destruct (sel l); cbn [pred]; reflexivity.
  - intros fi g body t Hg H IH d x r. apply IH.
Qed.

(* inside a protected region (d > 0 or an exempt call) everything is fine *)
Lemma protected_both :
  (forall fi items t, exec prog env fi items t ->
     forall d x, (0 < d \/ hd_x x = true) -> pokes_ok sel exempt d x t = true) /\
  (forall fi s t, exec1 prog env fi s t ->
     forall d x, (0 < d \/ hd_x x = true) -> pokes_ok sel exempt d x t = true).
Proof.
  apply exec_both.
  - reflexivity.
  - intros fi items s t1 t2 Hin H1 IH1 H2 IH2 d x Hp.
    rewrite (proj2 restore_both _ _ _ H1), IH1, IH2 by exact Hp. reflexivity.
  - intros fi k d x Hp. cbn. destruct Hp as [Hd|Hx].
    + destruct d; [lia|reflexivity].
    + unfold hd_x in Hx. rewrite Hx. rewrite orb_true_r. reflexivity.
  - reflexivity.
  - intros fi tg f body t Hin Hn H IH d x Hp. cbn [pokes_ok].
    rewrite (proj1 restore_both _ _ _ H). cbn [pokes_ok]. rewrite andb_true_r.
    apply IH. destruct Hp as [Hd|Hx]; [left; exact Hd|right]. cbn. unfold hd_x in Hx. rewrite Hx. apply orb_true_r.
  - intros fi l body t H IH d x Hp. cbn [pokes_ok].
    rewrite (proj1 restore_both _ _ _ H). cbn [pokes_ok]. rewrite andb_true_r.
    apply IH. destruct Hp as [Hd|Hx]; [left; destruct (sel l); lia|right; exact Hx].
  - intros fi g body t Hg H IH d x Hp. apply IH. exact Hp.
Qed.

Hypothesis checked : forall f body, nth_error prog f = Some body -> ok_fn need sel env exempt f body = true.

Lemma checked_both :
  (forall fi items t, exec prog env fi items t ->
     forall prot d x, forallb (ok_stmt need sel env exempt fi prot) items = true ->
       (prot = true -> 0 < d \/ hd_x x = true) -> pokes_ok sel exempt d x t = true) /\
  (forall fi s t, exec1 prog env fi s t ->
     forall prot d x, ok_stmt need sel env exempt fi prot s = true ->
       (prot = true -> 0 < d \/ hd_x x = true) -> pokes_ok sel exempt d x t = true).
Proof.
  apply exec_both.
  - reflexivity.
  - intros fi items s t1 t2 Hin H1 IH1 H2 IH2 prot d x Hok Hp.
    rewrite (proj2 restore_both _ _ _ H1).
    rewrite (IH1 prot d x), (IH2 prot d x); auto.
    rewrite forallb_forall in Hok. apply Hok. exact Hin.
  - intros fi k prot d x Hok Hp. cbn in Hok. cbn.
    destruct (Hp Hok) as [Hd|Hx].
    + destruct d; [lia|reflexivity].
    + unfold hd_x in Hx. rewrite Hx, orb_true_r. reflexivity.
  - reflexivity.
  - intros fi tg f body t Hin Hn H IH prot d x Hok Hp. cbn [pokes_ok].
    rewrite (proj1 restore_both _ _ _ H). cbn [pokes_ok]. rewrite andb_true_r.
    cbn in Hok. apply orb_true_iff in Hok as [Hprot|Hall].
    + apply (proj1 protected_both _ _ _ H). destruct (Hp Hprot) as [Hd|Hx]; [left; exact Hd|right].
      cbn. unfold hd_x in Hx. rewrite Hx. apply orb_true_r.
    + rewrite forallb_forall in Hall. specialize (Hall f Hin). apply orb_true_iff in Hall as [Hn0|Hex].
      * apply negb_true_iff in Hn0. pose proof (checked f body Hn) as Hc. unfold ok_fn in Hc. rewrite Hn0 in Hc.
        cbn [orb] in Hc. apply (IH false d _ Hc). discriminate.
      * apply (proj1 protected_both _ _ _ H). right. cbn. rewrite Hex. reflexivity.
  - intros fi l body t H IH prot d x Hok Hp. cbn [pokes_ok].
    rewrite (proj1 restore_both _ _ _ H). cbn [pokes_ok]. rewrite andb_true_r.
    cbn in Hok. apply (IH (prot || sel l) _ x Hok).
    intros Hb. apply orb_true_iff in Hb as [Hb|Hb].
    + destruct (Hp Hb) as [Hd|Hx]; [left; destruct (sel l); lia|right; exact Hx].
    + left. rewrite Hb. lia.
  - intros fi g body t Hg H IH prot d x Hok Hp. cbn in Hok. rewrite Hg in Hok. apply (IH prot d x Hok Hp).
Qed.

(* the theorem used for C14 / C15 / C06 *)
Theorem entry_safe f body t :
  nth_error prog f = Some body -> need f = false -> exec prog env f body t ->
  pokes_ok sel exempt 0 [] t = true.
Proof.
  intros Hn Hneed H. pose proof (checked f body Hn) as Hc. unfold ok_fn in Hc. rewrite Hneed in Hc.
  apply (proj1 checked_both _ _ _ H false 0 [] Hc). discriminate.
Qed.
End Sound.

(* locks always balance: whatever happens, what a function acquired it has released *)
Lemma balanced_both prog env (sel : lk -> bool) :
  (forall fi items t, exec prog env fi items t -> forall d r, final_depth sel d (t ++ r) = final_depth sel d r) /\
  (forall fi s t, exec1 prog env fi s t -> forall d r, final_depth sel d (t ++ r) = final_depth sel d r).
Proof.
  apply exec_both.
  - reflexivity.
  - intros fi items s t1 t2 Hin H1 IH1 H2 IH2 d r. rewrite <- app_assoc, IH1, IH2. reflexivity.
  - reflexivity.
  - reflexivity.
  - intros fi tg f body t Hin Hn H IH d r. cbn [app final_depth]. rewrite <- app_assoc, IH. reflexivity.
  - intros fi l body t H IH d r. cbn [app final_depth]. rewrite <- app_assoc, IH. cbn [app final_depth].
    destruct (sel l); reflexivity.
  - intros fi g body t Hg H IH d r. apply IH.
Qed.

Theorem locks_balanced prog env sel fi items t :
  exec prog env fi items t -> final_depth sel 0 t = 0.
Proof. intros H. rewrite <- (app_nil_r t). rewrite (proj1 (balanced_both prog env sel) _ _ _ H). reflexivity. Qed.

Lemma ok_prog_from_nth need sel env exempt prog : forall i,
  ok_prog_from need sel env exempt i prog = true ->
  forall f body, nth_error prog f = Some body -> ok_fn need sel env exempt (i + f) body = true.
Proof.
  induction prog as [|b r IH]; intros i H f body Hn; [destruct f; discriminate|].
  cbn in H. apply andb_true_iff in H as [H1 H2]. destruct f as [|f]; cbn in Hn.
  - injection Hn as <-. rewrite Nat.add_0_r. exact H1.
  - replace (i + S f) with (S i + f) by lia. apply IH; assumption.
Qed.

(* no poke at all, from the general predicate with nothing selected and nothing exempt *)
Lemma pokes_ok_none_no_poke t : forall d x,
  d = 0 -> forallb negb x = true -> pokes_ok (fun _ => false) (fun _ _ => false) d x t = true -> no_poke t = true.
Proof.
  induction t as [|e t IH]; intros d x Hd Hx H; [reflexivity|]. subst d.
  destruct e; cbn in *; try (eapply IH; eauto; fail).
  - destruct x as [|b x]; cbn in *; [discriminate|]. apply andb_true_iff in Hx as [Hb _].
    destruct b; cbn in *; discriminate.
  - eapply (IH 0 ((false || match x with e :: _ => e | [] => false end) :: x)); [reflexivity| |exact H].
    cbn. destruct x as [|b x]; cbn in *; [reflexivity|]. apply andb_true_iff in Hx as [Hb Hx]. rewrite Hb, Hx.
    destruct b; [discriminate|reflexivity].
  - eapply (IH 0 (tl x)); [reflexivity| |exact H]. destruct x; cbn in *; [reflexivity|]. apply andb_true_iff in Hx as [_ Hx]. exact Hx.
Qed.
