From Coq Require Import List NArith String Bool.
From NV Require Import Lib.Val Lib.Res Lib.Wire Gen.Fat Fat.Spec Fat.Check.
Import ListNotations.
Open Scope string_scope.

Definition VGeom (g : geom) : val :=
  VL [VN (g_bits g); VN (g_bps g); VN (g_spc g); VN (g_cs g); VN (g_fat_off g); VN (g_fat_size g);
      VN (g_nfats g); VN (g_root_off g); VN (g_root_size g); VN (g_root_cluster g); VN (g_data_off g);
      VN (g_count g); match g_info_off g with Some o => VL [VN o] | None => VL [] end; VN (g_total g)].

Definition VEntry (bits : N) (d : dentry) : val :=
  VL [VS (d_name d); VS (d_sfn d); VN (d_attr d); VN (d_size d); VN (d_cluster bits d);
      VL [VN (rfield de_cdate (d_raw d)); VN (rfield de_ctime (d_raw d)); VN (rfield de_ctime_cs (d_raw d));
          VN (rfield de_adate (d_raw d)); VN (rfield de_mdate (d_raw d)); VN (rfield de_mtime (d_raw d));
          VN (rfield de_attr2 (d_raw d))];
      VN (d_nlfn d); VN (d_off d)].

Fixpoint VNode (bits : N) (n : node) : val :=
  match n with
  | NFile d content ch ce => VL [VN 0; VEntry bits d; VS content; VL (map VN ch); VN (cend_code ce)]
  | NDir e dots kids ch ce orph =>
    VL [VN 1; match e with Some d => VL [VEntry bits d] | None => VL [] end;
        VL (map (VNode bits) kids); VL (map VN ch); VN (cend_code ce); VN orph;
        VL (map (VEntry bits) dots)]
  end.

Definition dispatch (cmd : string) (a : val) : val :=
  if String.eqb cmd "geometry" then VRes VGeom (geometry (getS a))
  else if String.eqb cmd "abs" then
    VRes (fun x => VL [VGeom (fst x); VNode (g_bits (fst x)) (snd x)]) (abs (getS a))
  else if String.eqb cmd "wf" then
    VRes (fun l => VL (map (fun p => VL [VN (fst p); VN (snd p)]) l)) (wf_problems (getS a))
  else if String.eqb cmd "fat" then
    VRes (fun g => VL (map VN (fat_copy g (getS (arg 0 a)) (getN (arg 1 a))))) (geometry (getS (arg 0 a)))
  else if String.eqb cmd "checksum" then VN (checksum (getS a))
  else VErr "unknown command".
