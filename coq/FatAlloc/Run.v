From Coq Require Import List NArith String Bool.
From NV Require Import Lib.Val Lib.Res Lib.Wire FatAlloc.Model.
Import ListNotations.
Open Scope string_scope.

Definition getNs (v : val) : list N := List.map getN (getL v).
Definition VNs (l : list N) : val := VL (List.map VN l).
(* FSInfo on the wire: [] (none / invalid) or [last_alloc; free_clusters] *)
Definition get_info (v : val) : info :=
  match getL v with [a; b] => Some (getN a, getN b) | _ => None end.
Definition VInfo (i : info) : val :=
  match i with Some (la, fc) => VL [VN la; VN fc] | None => VL [] end.
Definition get_hint (v : val) : option N :=
  match getL v with [a] => Some (getN a) | _ => None end.

(* (bits, cs, limit, info, tbl, map, size, pos, arg) *)
Definition get_state (a : val) : fstate :=
  {| sfat := {| ftbl := getNs (arg 4 a); finfo := get_info (arg 3 a) |};
     map := getNs (arg 5 a); size := getN (arg 6 a); pos := getN (arg 7 a) |}.
Definition VState (st : fstate) : val :=
  VL [VNs (tbl st); VNs (map st); VN (size st); VN (pos st); VInfo (finfo (sfat st))].

Definition dispatch (cmd : string) (a : val) : val :=
  let P := params_of_bits (getN (arg 0 a)) in
  if String.eqb cmd "free_scan" then
    VNs (free_scan P (getNs (arg 1 a)) (getN (arg 2 a)) (get_hint (arg 3 a)))
  else if String.eqb cmd "chain" then
    let t := getNs (arg 1 a) in VNs (chain P t (S (List.length t)) (getN (arg 2 a)))
  else if String.eqb cmd "truncate" then
    VRes VState (truncate P (getN (arg 1 a)) (getN (arg 2 a)) (getN (arg 8 a)) (get_state a))
  else if String.eqb cmd "write" then
    let r := write_clusters P (getN (arg 1 a)) (getN (arg 2 a)) (getN (arg 8 a)) (get_state a) in
    VL [VState (fst r); VB (snd r)]
  else if String.eqb cmd "alloc_one" then
    VRes VState (alloc_one P (getN (arg 2 a)) (get_state a))
  else if String.eqb cmd "close" then
    VState (close_release (getB (arg 8 a)) (get_state a))
  else if String.eqb cmd "unlink" then
    let st := get_state a in
    VState {| sfat := unlink_chain P (sfat st) (getN (arg 8 a)); map := []; size := 0; pos := 0 |}
  else VErr "unknown command".
