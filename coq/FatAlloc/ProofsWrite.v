(* The allocation effect of FatFile.write (including ENOSPC half way), FatFile.close and
   FatPath.unlink. *)
From Coq Require Import List NArith Bool Lia Arith ZifyN ZifyNat ZifyBool.
From NV Require Import Lib.Res FatAlloc.Model FatAlloc.ProofsBase FatAlloc.ProofsGrow FatAlloc.ProofsOps.
Import ListNotations.
Open Scope N_scope.

Section Params.
Variable P : fatp.
Hypothesis POK : params_ok P.
Variables cs limit : N.
Hypothesis CS : 0 < cs.
Hypothesis LIM : limit <= max_valid P + 1.

Definition size_okN (L s : N) : Prop := (0 < s /\ L = cdiv s cs) \/ (s = 0 /\ L <= 1).
Lemma size_ok_N (m : list N) s : size_ok cs m s <-> size_okN (len m) s.
Proof. unfold size_ok, size_okN, len. lia. Qed.

Lemma write_arith (done : bool) size0 p nb s1 L1 L2 :
  size_okN L1 s1 ->
  ((s1 = size0 /\ p <= size0) \/ (s1 = p /\ size0 < p)) ->
  let target := if nb =? 0 then 0 else cdiv (p + nb) cs in
  (done = true -> L2 = L1 + (target - L1)) ->
  (done = false -> L1 <= L2 < L1 + (target - L1)) ->
  let pos' := if done then p + nb else N.max p (L2 * cs) in
  let size' := if size0 <? pos' then pos' else s1 in
  size_okN L2 size' /\ size' = N.max size0 pos' /\
  (done = false -> pos' = L2 * cs) /\ (done = true -> 0 < nb -> cdiv (p + nb) cs <= L2).
Proof.
  intros S1 C target D1 D0 pos' size'.
  assert (PL : p <= L1 * cs).
  { destruct S1 as [[H1 H2]|[H1 H2]].
    - pose proof (cdiv_le_mul s1 cs CS) as H. rewrite <- H2 in H. destruct C; lia.
    - destruct C; lia. }
  destruct done.
  - specialize (D1 eq_refl). clear D0. subst pos' size'. unfold target in *. clear target.
    destruct (N.eqb_spec nb 0) as [Z|Z].
    + assert (L2 = L1) by lia. clear D1. subst L2 nb. replace (p + 0) with p in * by lia.
      destruct (N.ltb_spec size0 p).
      * destruct C as [[? ?]|[? ?]]; [lia|]. subst s1. split; [exact S1|]. split; [lia|]. split; [discriminate|lia].
      * destruct C as [[? ?]|[? ?]]; [|lia]. subst s1. split; [exact S1|]. split; [lia|]. split; [discriminate|lia].
    + set (T := cdiv (p + nb) cs) in *. destruct (cdiv_bounds (p + nb) cs CS ltac:(lia)) as [_ T1]. fold T in T1.
      destruct (N.ltb_spec size0 (p + nb)).
      * assert (L1 <= T).
        { destruct S1 as [[Q1 Q2]|[Q1 Q2]]; [|lia]. rewrite Q2. apply cdiv_mono; [exact CS|]. destruct C; lia. }
        split; [left; split; lia|]. split; [lia|]. split; [discriminate|lia].
      * destruct C as [[? ?]|[? ?]]; [|lia]. subst s1.
        assert (T <= L1).
        { destruct S1 as [[Q1 Q2]|[Q1 Q2]]; [|lia]. rewrite Q2. apply cdiv_mono; [exact CS|lia]. }
        assert (Q : L2 = L1) by lia. clear D1. subst L2. split; [exact S1|]. split; [lia|]. split; [discriminate|lia].
  - specialize (D0 eq_refl). clear D1. destruct D0 as [D0 D0'].
    assert (M : L1 * cs <= L2 * cs) by (apply N.mul_le_mono_r; exact D0).
    assert (E : pos' = L2 * cs) by (subst pos'; lia).
    subst size'. rewrite E. destruct (N.ltb_spec size0 (L2 * cs)).
    + split; [left; split; [lia|symmetry; apply cdiv_mul; exact CS]|].
      split; [lia|]. split; [reflexivity|discriminate].
    + destruct C as [[? ?]|[? ?]]; [|lia]. subst s1. split; [|split; [lia|split; [reflexivity|discriminate]]].
      destruct S1 as [[Q1 Q2]|[Q1 Q2]].
      * pose proof (cdiv_le_mul size0 cs CS) as X. rewrite <- Q2 in X.
        assert (Q3 : L1 * cs = L2 * cs) by lia. apply N.mul_cancel_r in Q3; [|lia]. subst L2. left. split; assumption.
      * right. split; [exact Q1|]. nia.
Qed.

Lemma pre_truncate st st1 :
  st_wf P cs limit st ->
  (if size st <? pos st then truncate P cs limit (pos st) st else Ok st) = Ok st1 ->
  st_wf P cs limit st1 /\ extends P limit (tbl st) (map st) (tbl st1) (map st1) /\
  pos st1 = pos st /\
  ((size st1 = size st /\ pos st <= size st) \/ (size st1 = pos st /\ size st < pos st)).
Proof.
  intros W T. destruct (N.ltb_spec (size st) (pos st)) as [L|L].
  - destruct (truncate_wf P POK cs limit CS LIM (pos st) st st1 W T) as (W1 & S1 & P1 & _ & C).
    split; [exact W1|]. split; [|split; [exact P1|right; split; assumption]].
    destruct C as [(new & _ & _ & _ & X)|[(rem & R1 & R2 & _)|(M & F)]].
    + exact X.
    + exfalso. destruct W as [_ S]. destruct W1 as [_ S']. apply size_ok_N in S, S'. rewrite S1 in S'.
      assert (LL : len (map st1) < len (map st)).
      { rewrite R2. unfold len. rewrite app_length. destruct rem; [congruence|]. cbn [length]. lia. }
      destruct (cdiv_bounds (pos st) cs CS ltac:(lia)) as [_ B].
      destruct S' as [[A1 A2]|[A1 A2]]; [|lia]. destruct S as [[B1 B2]|[B1 B2]]; [|lia].
      pose proof (cdiv_mono (size st) (pos st) cs CS ltac:(lia)). lia.
    + unfold tbl. rewrite M, F. apply extends_refl.
  - inversion T; subst st1. split; [exact W|]. split; [apply extends_refl|]. split; [reflexivity|]. left. split; [reflexivity|exact L].
Qed.

(* FatFile.write(buf), len(buf) = nbytes, at position pos st *)
Theorem write_wf nbytes st :
  st_wf P cs limit st ->
  let r := write_clusters P cs limit nbytes st in
  st_wf P cs limit (fst r) /\
  extends P limit (tbl st) (map st) (tbl (fst r)) (map (fst r)) /\
  (snd r = true ->
     pos (fst r) = pos st + nbytes /\ size (fst r) = N.max (size st) (pos st + nbytes) /\
     (0 < nbytes -> cdiv (pos st + nbytes) cs <= len (map (fst r)))) /\
  (snd r = false ->
     fst r = st \/
     (free_scan P (tbl (fst r)) limit (hint_of (sfat (fst r))) = [] /\
      pos (fst r) = len (map (fst r)) * cs /\ size (fst r) = N.max (size st) (pos (fst r)))).
Proof.
  intros W. unfold write_clusters.
  destruct (if size st <? pos st then truncate P cs limit (pos st) st else Ok st) as [st1|e] eqn:T.
  2:{ cbn [fst snd]. split; [exact W|]. split; [apply extends_refl|]. split; [discriminate|]. intros _. left. reflexivity. }
  destruct (pre_truncate st st1 W T) as ([W1 S1] & X1 & P1 & C).
  set (target := if nbytes =? 0 then 0 else cdiv (pos st + nbytes) cs).
  set (need := N.to_nat (target - len (map st1))).
  pose proof (alloc_n_spec P POK cs limit CS LIM need st1 W1) as A. cbn zeta in A.
  set (r := alloc_n P limit need st1) in *. destruct A as (W2 & X2 & S2 & P2 & At & Af).
  cbn zeta. cbn [fst snd sfat map size pos]. unfold st_wf, tbl. cbn [fst snd sfat map size pos].
  apply size_ok_N in S1.
  pose proof (write_arith (snd r) (size st) (pos st) nbytes (size st1) (len (map st1)) (len (map (fst r))) S1 C) as Ar.
  cbn zeta in Ar. fold target in Ar. rewrite S2.
  assert (D1 : snd r = true -> len (map (fst r)) = len (map st1) + (target - len (map st1))).
  { intros H. specialize (At H). unfold need, len in *. lia. }
  assert (D0 : snd r = false -> len (map st1) <= len (map (fst r)) < len (map st1) + (target - len (map st1))).
  { intros H. destruct (Af H) as [Af1 _]. unfold need, len in *. lia. }
  destruct (Ar D1 D0) as (R1 & R2 & R3 & R4). clear Ar.
  split; [split; [exact W2|apply size_ok_N; exact R1]|].
  split; [exact (extends_trans P POK limit _ _ _ _ _ _ W1 X1 X2)|]. split.
  - intros H. rewrite H in *. split; [reflexivity|]. split; [exact R2|]. exact (R4 eq_refl).
  - intros H. right. split; [exact (proj2 (Af H))|]. split; [exact (R3 H)|]. rewrite R2. reflexivity.
Qed.

(* ---------- close ---------- *)
Lemma chain_wf_nil t : chain_wf P limit t [].
Proof. constructor; [constructor|intros c []|exact I|exact I]. Qed.

(* the `assert len(self._map) == 1` in close() cannot fail *)
Theorem close_assert_holds st :
  st_wf P cs limit st -> size st = 0 -> map st <> [] -> length (map st) = 1%nat.
Proof.
  clear CS LIM. intros [_ [[H _]|[_ H]]] Z Hn; [lia|]. destruct (map st); [congruence|]. cbn [length] in *. lia.
Qed.

Theorem close_wf st :
  st_wf P cs limit st ->
  let st' := close_release true st in
  st_wf P cs limit st' /\ length (tbl st') = length (tbl st) /\
  (size st = 0 -> map st' = [] /\ size st' = 0 /\
     (forall c, In c (map st) -> get (tbl st') c = 0) /\
     (forall c, ~ In c (map st) -> get (tbl st') c = get (tbl st) c)) /\
  (size st <> 0 -> st' = st).
Proof.
  clear CS LIM. intros W st'. unfold close_release in st'. destruct (map st) as [|c r] eqn:M.
  { subst st'. split; [exact W|]. split; [reflexivity|]. split; [|reflexivity].
    intros Z. rewrite M. split; [reflexivity|]. split; [exact Z|]. split; [intros c []|reflexivity]. }
  destruct (N.eqb_spec (size st) 0) as [Z|Z]; cbn [andb] in st'; subst st'.
  2:{ split; [exact W|]. split; [reflexivity|]. split; [intros; congruence|reflexivity]. }
  assert (r = []).
  { pose proof (close_assert_holds st W Z ltac:(rewrite M; discriminate)) as L. rewrite M in L.
    destruct r; [reflexivity|cbn in L; lia]. }
  subst r. destruct W as [W _]. rewrite M in W.
  unfold st_wf, tbl, mark_free. cbn [sfat map size pos]. rewrite ftbl_fset.
  split; [split; [apply chain_wf_nil|right; split; [reflexivity|cbn; lia]]|].
  split; [apply set_length|]. split; [|congruence]. intros _. split; [reflexivity|]. split; [reflexivity|]. split.
  - intros x [<-|[]]. apply get_set_same. apply (cw_range _ _ _ _ W c). left. reflexivity.
  - intros x Hx. apply get_set_other. intros ->. apply Hx. left. reflexivity.
Qed.

Theorem close_readonly st : close_release false st = st.
Proof. unfold close_release. destruct (map st); [reflexivity|]. rewrite andb_false_r. reflexivity. Qed.

(* ---------- unlink ---------- *)
Lemma unlink_go_fold m : forall f fuel,
  m <> [] -> NoDup m -> links (ftbl f) m -> ended P (ftbl f) m ->
  (forall c, In c m -> min_valid P <= c <= max_valid P) -> (length m <= fuel)%nat ->
  ftbl (unlink_go P fuel f (hd 0 m)) = ftbl (fold_left mark_free m f).
Proof.
  clear CS LIM. destruct POK as (Pm & Pmm & Pe).
  induction m as [|a r IH]; intros f fuel Hn N L E R F; [congruence|].
  destruct fuel as [|k]; [cbn in F; lia|]. cbn [hd unlink_go fold_left].
  destruct (R a (or_introl eq_refl)) as [R1 R2].
  destruct (N.leb_spec (min_valid P) a); [|lia]. destruct (N.leb_spec a (max_valid P)); [|lia]. cbn [andb].
  inversion N as [|? ? Ha N']; subst. destruct r as [|b r'].
  - cbn [fold_left]. cbn in E. destruct k; [reflexivity|]. cbn [unlink_go].
    destruct (N.leb_spec (get (ftbl f) a) (max_valid P)); [lia|]. rewrite andb_false_r. reflexivity.
  - destruct L as [L1 L2]. rewrite L1. change b with (hd 0 (b :: r')) at 1.
    assert (Fr : forall c, In c (b :: r') -> get (ftbl (mark_free f a)) c = get (ftbl f) c).
    { intros c Hc. unfold mark_free. rewrite ftbl_fset. apply get_set_other. intros ->. exact (Ha Hc). }
    apply IH; [discriminate|exact N'| | | |cbn [length] in *; lia].
    + apply links_frame with (t := ftbl f); assumption.
    + apply (ended_ne P) ; [discriminate|]. rewrite Fr by (apply last_In; discriminate).
      apply (ended_ne P (ftbl f) (a :: b :: r')) in E; [|discriminate]. exact E.
    + intros c Hc. apply R. right. exact Hc.
Qed.

(* regression theorem for the chain() fix: unlink frees the whole chain and nothing else *)
Theorem unlink_frees_all f m :
  chain_wf P limit (ftbl f) m ->
  let t' := ftbl (unlink_chain P f (hd 0 m)) in
  length t' = length (ftbl f) /\
  (forall c, In c m -> get t' c = 0) /\ (forall c, ~ In c m -> get t' c = get (ftbl f) c).
Proof.
  clear CS LIM. intros W t'. destruct (nil_or_ne m) as [->|Hn].
  - assert (E : t' = ftbl f).
    { unfold t', unlink_chain. cbn [hd unlink_go]. destruct POK as (Pm & _).
      destruct (N.leb_spec (min_valid P) 0); [lia|reflexivity]. }
    rewrite E. split; [reflexivity|]. split; [intros c []|reflexivity].
  - assert (E : t' = ftbl (fold_left mark_free m f)).
    { unfold t', unlink_chain. apply unlink_go_fold; try apply W; auto.
      - intros c Hc. destruct (cw_range _ _ _ _ W c Hc) as (A1 & A2 & A3 & A4). lia.
      - pose proof (NoDup_len_le m (ftbl f) (cw_nodup _ _ _ _ W)
                      (fun c Hc => proj1 (proj2 (proj2 (cw_range _ _ _ _ W c Hc))))). lia. }
    rewrite E. split; [apply fold_free_len|]. split.
    + intros c Hc. apply fold_free_zero; [exact Hc|]. apply (cw_range _ _ _ _ W c Hc).
    + intros c Hc. apply fold_free_other. exact Hc.
Qed.
End Params.
