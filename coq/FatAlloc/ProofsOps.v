(* FatFile.truncate and the single-cluster allocation of write(): well-formedness is
   preserved, the frame is exact, ENOSPC is all-or-nothing and genuine. *)
From Coq Require Import List NArith Bool Lia Arith ZifyN ZifyNat ZifyBool.
From NV Require Import Lib.Res FatAlloc.Model FatAlloc.ProofsBase FatAlloc.ProofsGrow.
Import ListNotations.
Open Scope N_scope.

Lemma NoDup_firstn {A} k (l : list A) : NoDup l -> NoDup (firstn k l).
Proof. intros H. rewrite <- (firstn_skipn k l) in H. apply NoDup_app_inv in H. tauto. Qed.
Lemma In_firstn {A} k (l : list A) x : In x (firstn k l) -> In x l.
Proof. intros H. rewrite <- (firstn_skipn k l). apply in_or_app. left. exact H. Qed.

Section Params.
Variable P : fatp.
Hypothesis POK : params_ok P.
Variables cs limit : N.
Hypothesis CS : 0 < cs.
Hypothesis LIM : limit <= max_valid P + 1.

Lemma size_ok_clusters (m : list N) newsize :
  len m = N.max 1 (cdiv newsize cs) -> size_ok cs m newsize.
Proof.
  intros H. destruct (N.eq_dec newsize 0) as [->|Hn].
  - right. rewrite cdiv_0 in H by exact CS. unfold len in H. lia.
  - left. destruct (cdiv_bounds newsize cs CS ltac:(lia)) as [_ B]. lia.
Qed.

Definition trunc_clusters (newsize : N) : N := N.max 1 (cdiv newsize cs).

(* FatFile.truncate(newsize) returned normally *)
Theorem truncate_wf newsize st st' :
  st_wf P cs limit st -> truncate P cs limit newsize st = Ok st' ->
  st_wf P cs limit st' /\ size st' = newsize /\ pos st' = pos st /\
  length (tbl st') = length (tbl st) /\
  ( (exists new, new <> [] /\ map st' = map st ++ new /\
       new = firstn (length new) (free_scan P (tbl st) limit (hint_of (sfat st))) /\
       extends P limit (tbl st) (map st) (tbl st') (map st'))
  \/ (exists removed, removed <> [] /\ map st = map st' ++ removed /\ map st' <> [] /\
       (forall c, In c removed -> get (tbl st') c = 0) /\
       (forall c, ~ In c (map st) -> get (tbl st') c = get (tbl st) c))
  \/ (map st' = map st /\ sfat st' = sfat st) ).
Proof.
  intros [W S] T. unfold truncate in T.
  destruct (N.eqb_spec newsize (size st)) as [E|E].
  { inversion T; subst st'. split; [exact (conj W S)|]. split; [auto|]. split; [reflexivity|].
    split; [reflexivity|]. right; right. split; reflexivity. }
  fold (trunc_clusters newsize) in T. set (cl := trunc_clusters newsize) in *.
  destruct (N.ltb_spec (len (map st)) cl) as [G|G].
  - (* grow *)
    set (scan := free_scan P (tbl st) limit (hint_of (sfat st))) in *.
    set (need := N.to_nat (cl - len (map st))) in *.
    destruct (Nat.ltb_spec (length scan) need) as [X|X]; [discriminate|].
    set (new := firstn need scan) in *.
    assert (Ln : length new = need) by (apply firstn_length_le; exact X).
    assert (Hne : new <> []).
    { intros E0. rewrite E0 in Ln. change (length (@nil N)) with O in Ln. unfold need, len in *. clear - Ln G. lia. }
    assert (Nn : NoDup new) by (apply NoDup_firstn, free_nodup).
    assert (Fr : forall c, In c new -> is_free P limit (tbl st) c).
    { intros c Hc. apply In_firstn in Hc. exact (free_in_data_area P _ _ _ _ Hc). }
    destruct (grow_spec P POK limit st new LIM W Hne Nn Fr) as [W' X'].
    inversion T; subst st'. unfold st_wf, tbl. cbn [sfat map size pos].
    split; [split; [exact W'|]|].
    { apply size_ok_clusters. fold (trunc_clusters newsize). fold cl. unfold len in *.
      rewrite app_length, Ln. unfold need. clear - G. lia. }
    split; [reflexivity|]. split; [reflexivity|]. split; [apply X'|].
    left. exists new. repeat split; auto; try apply X'. rewrite Ln. reflexivity.
  - destruct (N.ltb_spec cl (len (map st))) as [H|H].
    + (* shrink *)
      set (k := N.to_nat cl) in *.
      assert (Hk : (0 < k < length (map st))%nat) by (unfold k, cl, trunc_clusters, len in *; lia).
      destruct (shrink_spec P POK limit (sfat st) (map st) k W Hk) as (L' & W' & Z & F).
      inversion T; subst st'. unfold st_wf, tbl. cbn [sfat map size pos].
      split; [split; [exact W'|]|].
      { apply size_ok_clusters. fold (trunc_clusters newsize). fold cl. unfold len.
        rewrite firstn_length. unfold k in *. lia. }
      split; [reflexivity|]. split; [reflexivity|]. split; [exact L'|].
      right; left. exists (skipn k (map st)). repeat split.
      * intros E0. apply (f_equal (@length N)) in E0. rewrite skipn_length in E0. cbn in E0. lia.
      * symmetry. apply firstn_skipn.
      * intros E0. apply (f_equal (@length N)) in E0. rewrite firstn_length in E0. cbn in E0. lia.
      * exact Z.
      * exact F.
    + inversion T; subst st'. unfold st_wf, tbl. cbn [sfat map size pos].
      split; [split; [exact W|]|].
      { apply size_ok_clusters. fold (trunc_clusters newsize). fold cl. lia. }
      repeat split; auto.
Qed.

(* ... raised: only OSError(ENOSPC), only when growing, and exactly when one complete
   free() scan yields fewer clusters than are needed.  The model returns no state in that
   case: nothing was written before the exception (growth is all-or-nothing). *)
Theorem truncate_enospc newsize st e :
  truncate P cs limit newsize st = Err e <->
  e = OSError_ENOSPC /\ newsize <> size st /\ len (map st) < trunc_clusters newsize /\
  (length (free_scan P (tbl st) limit (hint_of (sfat st)))
   < N.to_nat (trunc_clusters newsize - len (map st)))%nat.
Proof.
  unfold truncate. fold (trunc_clusters newsize).
  destruct (N.eqb_spec newsize (size st)) as [E|E].
  { split; [discriminate|]. intros (_ & H & _). congruence. }
  destruct (N.ltb_spec (len (map st)) (trunc_clusters newsize)) as [G|G].
  - destruct (Nat.ltb_spec (length (free_scan P (tbl st) limit (hint_of (sfat st))))
                           (N.to_nat (trunc_clusters newsize - len (map st)))) as [X|X].
    + split; [intros H; inversion H; auto|intros (-> & _); reflexivity].
    + split; [discriminate|]. intros (_ & _ & _ & H). lia.
  - destruct (trunc_clusters newsize <? len (map st)); split; try discriminate; intros (_ & _ & H & _); lia.
Qed.

(* ... and then there really are not enough free clusters in the data area *)
Theorem truncate_enospc_genuine newsize st e l :
  truncate P cs limit newsize st = Err e ->
  NoDup l -> (forall c, In c l -> is_free P limit (tbl st) c /\ c <= max_valid P) ->
  (length l < N.to_nat (trunc_clusters newsize - len (map st)))%nat.
Proof.
  intros T N F. apply truncate_enospc in T. destruct T as (_ & _ & _ & H).
  pose proof (free_scan_max P (tbl st) limit (hint_of (sfat st)) l N F). lia.
Qed.

(* ---------- one allocation of write() ---------- *)
Lemma alloc_one_grow st c rest :
  free_scan P (tbl st) limit (hint_of (sfat st)) = c :: rest ->
  alloc_one P limit st =
  Ok {| sfat := grow_with P [c] st; map := map st ++ [c]; size := size st; pos := pos st |}.
Proof.
  intros E. unfold alloc_one. rewrite E. unfold grow_with. destruct (map st); reflexivity.
Qed.

Theorem alloc_one_wf st st' :
  chain_wf P limit (tbl st) (map st) -> alloc_one P limit st = Ok st' ->
  chain_wf P limit (tbl st') (map st') /\
  extends P limit (tbl st) (map st) (tbl st') (map st') /\
  size st' = size st /\ pos st' = pos st /\
  exists c rest, free_scan P (tbl st) limit (hint_of (sfat st)) = c :: rest /\ map st' = map st ++ [c].
Proof.
  intros W A. destruct (free_scan P (tbl st) limit (hint_of (sfat st))) as [|c rest] eqn:E.
  { unfold alloc_one in A. rewrite E in A. discriminate. }
  rewrite (alloc_one_grow st c rest E) in A. inversion A; subst st'. clear A.
  assert (Fr : forall x, In x [c] -> is_free P limit (tbl st) x).
  { intros x [<-|[]]. apply (free_in_data_area P (tbl st) limit (hint_of (sfat st))). rewrite E. left. reflexivity. }
  assert (Nn : NoDup [c]) by (repeat constructor; intros []).
  destruct (grow_spec P POK limit st [c] LIM W ltac:(discriminate) Nn Fr) as [W' X'].
  unfold tbl in *. cbn [sfat map size pos] in *. split; [exact W'|]. split; [exact X'|].
  split; [reflexivity|]. split; [reflexivity|]. exists c, rest. split; reflexivity.
Qed.

Theorem alloc_one_enospc st e :
  alloc_one P limit st = Err e <->
  e = OSError_ENOSPC /\ free_scan P (tbl st) limit (hint_of (sfat st)) = [].
Proof.
  unfold alloc_one. destruct (free_scan P (tbl st) limit (hint_of (sfat st))).
  - split; [intros H; inversion H; auto|intros (-> & _); reflexivity].
  - split; [discriminate|intros (_ & H); discriminate].
Qed.

(* ---------- composing extensions ---------- *)
Lemma extends_refl t m : extends P limit t m t m.
Proof.
  split; [reflexivity|]. exists []. rewrite app_nil_r. split; [reflexivity|]. split; [constructor|].
  split; [intros c []|]. intros c _ _. reflexivity.
Qed.

Lemma last_opt_app_In (m new : list N) c :
  In c (last_opt (m ++ new)) -> In c (last_opt m) \/ In c new.
Proof.
  destruct (nil_or_ne new) as [->|Hn]; [rewrite app_nil_r; auto|].
  intros H. right. rewrite last_opt_ne in H.
  - destruct H as [<-|[]]. rewrite last_app_ne by exact Hn. apply last_In. exact Hn.
  - intros E. apply app_eq_nil in E. tauto.
Qed.

Lemma extends_trans t m t1 m1 t2 m2 :
  chain_wf P limit t1 m1 ->
  extends P limit t m t1 m1 -> extends P limit t1 m1 t2 m2 -> extends P limit t m t2 m2.
Proof.
  intros W1 (L1 & n1 & E1 & N1 & F1 & R1) (L2 & n2 & E2 & N2 & F2 & R2). subst m1 m2.
  assert (D : forall c, In c n2 -> ~ In c (m ++ n1)).
  { intros c Hc Hm. apply (chain_nonzero P limit t1 _ POK W1 c Hm). apply (F2 c Hc). }
  split; [congruence|]. exists (n1 ++ n2). split; [symmetry; apply app_assoc|]. split; [|split].
  - apply NoDup_app_intro; auto. intros c H1 H2. apply (D c H2). apply in_or_app. right. exact H1.
  - intros c Hc. apply in_app_or in Hc. destruct Hc as [Hc|Hc]; [auto|].
    destruct (F2 c Hc) as (A1 & A2 & A3 & A4). unfold is_free, len in *. rewrite L1 in A3.
    split; [exact A1|]. split; [exact A2|]. split; [exact A3|]. rewrite <- R1; [exact A4| |].
    + intros X. apply (D c Hc). apply in_or_app. left. apply last_opt_In. exact X.
    + intros X. apply (D c Hc). apply in_or_app. right. exact X.
  - intros c H1 H2. rewrite R2, R1; auto.
    + intros X. apply H2. apply in_or_app. left. exact X.
    + intros X. apply last_opt_app_In in X. destruct X as [X|X]; [tauto|].
      apply H2. apply in_or_app. left. exact X.
    + intros X. apply H2. apply in_or_app. right. exact X.
Qed.

Lemma alloc_n_spec k st :
  chain_wf P limit (tbl st) (map st) ->
  let r := alloc_n P limit k st in
  chain_wf P limit (tbl (fst r)) (map (fst r)) /\
  extends P limit (tbl st) (map st) (tbl (fst r)) (map (fst r)) /\
  size (fst r) = size st /\ pos (fst r) = pos st /\
  (snd r = true -> length (map (fst r)) = (length (map st) + k)%nat) /\
  (snd r = false -> (length (map st) <= length (map (fst r)) < length (map st) + k)%nat /\
                    free_scan P (tbl (fst r)) limit (hint_of (sfat (fst r))) = []).
Proof.
  revert st; induction k as [|k IH]; intros st W; cbn [alloc_n]; cbn zeta.
  - cbn [fst snd]. split; [exact W|]. split; [apply extends_refl|]. split; [reflexivity|].
    split; [reflexivity|]. split; [intros _; lia|discriminate].
  - destruct (alloc_one P limit st) as [st1|e] eqn:A.
    + destruct (alloc_one_wf st st1 W A) as (W1 & X1 & S1 & P1 & c & rest & _ & M1).
      specialize (IH st1 W1). cbn zeta in IH. destruct IH as (W2 & X2 & S2 & P2 & T & F).
      split; [exact W2|]. split; [exact (extends_trans _ _ _ _ _ _ W1 X1 X2)|].
      split; [congruence|]. split; [congruence|]. rewrite M1, app_length in T, F. cbn [length] in T, F.
      split; [intros H; rewrite (T H); lia|]. intros H. destruct (F H) as [F1 F2]. split; [lia|exact F2].
    + apply alloc_one_enospc in A. destruct A as [_ A]. cbn [fst snd].
      split; [exact W|]. split; [apply extends_refl|]. split; [reflexivity|].
      split; [reflexivity|]. split; [discriminate|]. intros _. split; [lia|exact A].
Qed.
End Params.
