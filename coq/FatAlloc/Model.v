(* Allocation core of nobodd/fs.py over an ABSTRACT FAT (list of entry VALUES, index =
   cluster number): FatTable.free / Fat32Table.free (limit, _scan_end, FSInfo hint),
   FatTable.chain, mark_free / mark_end, Fat32Table.__setitem__'s _alloc/_dealloc
   bookkeeping of the FSInfo sector, and FatFile.truncate / write / close plus
   FatPath.unlink's freeing loop.  Executable definitions only; proofs in Proofs*.v.

   Ignored (not part of this model): the DATA bytes of clusters (truncate zeroes the tail
   of the last cluster / the new clusters, write copies the buffer: neither touches the
   FAT, the map or the size), the directory entry other than size (first cluster is the
   head of the map, or 0), timestamps, the dirty bit (mark_dirty toggles a bit of entry 1
   and restores it on exit), locking, the width check of __setitem__ (values written are
   0, the end mark, or a cluster number), IndexError for an entry index beyond the table
   (`set` is then a no-op, `get` reads 0: never reached from a well-formed file, see
   Proofs), and the 32-bit limit of the size field. *)
From Coq Require Import List NArith Bool.
From NV Require Import Lib.Res Gen.Fat.
Import ListNotations.
Open Scope N_scope.

Record fatp := { min_valid : N; max_valid : N; end_mark : N }.
Definition fat12p := {| min_valid := fat12_min_valid; max_valid := fat12_max_valid; end_mark := fat12_end_mark |}.
Definition fat16p := {| min_valid := fat16_min_valid; max_valid := fat16_max_valid; end_mark := fat16_end_mark |}.
Definition fat32p := {| min_valid := fat32_min_valid; max_valid := fat32_max_valid; end_mark := fat32_end_mark |}.
Definition params_of_bits (bits : N) : fatp :=
  if bits =? 12 then fat12p else if bits =? 16 then fat16p else fat32p.

Definition len {A} (l : list A) : N := N.of_nat (length l).
Definition get (tbl : list N) (c : N) : N := nth (N.to_nat c) tbl 0.
Fixpoint set_nat (tbl : list N) (i : nat) (v : N) : list N :=
  match tbl, i with
  | [], _ => []
  | _ :: r, O => v :: r
  | x :: r, S j => x :: set_nat r j v
  end.
Definition set (tbl : list N) (c v : N) : list N := set_nat tbl (N.to_nat c) v.

(* FSInfo sector of a FAT32 volume when its three signatures are valid:
   (last_alloc, free_clusters); None for FAT12/16 or an invalid info sector *)
Definition info := option (N * N).
Record fat := { ftbl : list N; finfo : info }.

(* Fat32Table.__setitem__ : _alloc / _dealloc, then the store *)
Definition note_set (tbl : list N) (inf : info) (c v : N) : info :=
  match inf with
  | None => None
  | Some (la, fc) =>
    let old := get tbl c in
    if (old =? 0) && negb (v =? 0) then
      (if (0 <? fc) && (fc <=? len tbl) then Some (c, fc - 1) else inf)
    else if negb (old =? 0) && (v =? 0) then
      (if fc <? len tbl then Some (la, fc + 1) else inf)
    else inf
  end.
Definition fset (f : fat) (c v : N) : fat :=
  {| ftbl := set (ftbl f) c v; finfo := note_set (ftbl f) (finfo f) c v |}.
Definition hint_of (f : fat) : option N := option_map fst (finfo f).

Definition cdiv (a b : N) : N := (a + b - 1) / b.
(* map[-1:] *)
Definition last_opt (l : list N) : list N := match l with [] => [] | _ => [last l 0] end.

Section Params.
Variable P : fatp.

Definition mark_free (f : fat) (c : N) : fat := fset f c 0.
Definition mark_end (f : fat) (c : N) : fat := fset f c (end_mark P).

(* `for cluster in range(c, c+n): if self[cluster] == 0 and min_valid < cluster: yield;
    if cluster >= max_valid: break` *)
Fixpoint scan_from (tbl : list N) (n : nat) (c : N) : list N :=
  match n with
  | O => []
  | S n' =>
    let y := if (get tbl c =? 0) && (min_valid P <? c) then [c] else [] in
    if max_valid P <=? c then y else y ++ scan_from tbl n' (c + 1)
  end.
Definition scan_end (tbl : list N) (limit : N) : N := N.min (len tbl) limit.
Definition scan_start (tbl : list N) (limit : N) (hint : option N) : N :=
  match hint with
  | Some h => if (min_valid P <=? h) && (h <? scan_end tbl limit) then h + 1 else 0
  | None => 0
  end.
(* everything one free() generator yields before it raises ENOSPC.  hint = None:
   FatTable.free; hint = Some last_alloc: Fat32Table.free with a valid info sector *)
Definition free_scan (tbl : list N) (limit : N) (hint : option N) : list N :=
  let s := scan_start tbl limit hint in
  scan_from tbl (N.to_nat (scan_end tbl limit - s)) s ++ scan_from tbl (N.to_nat s) 0.

(* FatTable.chain (the link is read before the cluster is yielded) *)
Fixpoint chain (tbl : list N) (fuel : nat) (c : N) : list N :=
  match fuel with
  | O => []
  | S f => if (min_valid P <=? c) && (c <=? max_valid P) then c :: chain tbl f (get tbl c) else []
  end.

(* FatPath.unlink: for cluster in fat.chain(start): fat.mark_free(cluster) *)
Fixpoint unlink_go (fuel : nat) (f : fat) (c : N) : fat :=
  match fuel with
  | O => f
  | S k => if (min_valid P <=? c) && (c <=? max_valid P)
           then unlink_go k (mark_free f c) (get (ftbl f) c) else f
  end.
Definition unlink_chain (f : fat) (start : N) : fat := unlink_go (S (length (ftbl f))) f start.

(* the chain() of the code before the fix: yield first, read the link afterwards (the
   caller has freed the cluster by then) -- regression witness only *)
Fixpoint unlink_go_old (fuel : nat) (f : fat) (c : N) : fat :=
  match fuel with
  | O => f
  | S k => if (min_valid P <=? c) && (c <=? max_valid P)
           then let f' := mark_free f c in unlink_go_old k f' (get (ftbl f') c) else f
  end.

Record fstate := { sfat : fat; map : list N; size : N; pos : N }.
Definition tbl (st : fstate) : list N := ftbl (sfat st).

(* for next_c, this_c in pairwise(reversed(l)): fat[this_c] = next_c *)
Fixpoint link_chain (f : fat) (l : list N) : fat :=
  match l with
  | a :: ((b :: _) as r) => fset (link_chain f r) a b
  | _ => f
  end.

(* the `if clusters > len(self._map)` arm once to_append is known *)
Definition grow_with (new : list N) (st : fstate) : fat :=
  link_chain (mark_end (sfat st) (last new 0)) (last_opt (map st) ++ new).

Definition truncate (cs limit newsize : N) (st : fstate) : res fstate :=
  if newsize =? size st then Ok st else
  let clusters := N.max 1 (cdiv newsize cs) in
  let n := len (map st) in
  if n <? clusters then
    let need := N.to_nat (clusters - n) in
    let scan := free_scan (tbl st) limit (hint_of (sfat st)) in
    if Nat.ltb (length scan) need then Err OSError_ENOSPC else
    let new := firstn need scan in
    Ok {| sfat := grow_with new st; map := map st ++ new; size := newsize; pos := pos st |}
  else if clusters <? n then
    let k := N.to_nat clusters in
    let to_remove := skipn k (map st) in
    let f1 := mark_end (sfat st) (nth (k - 1) (map st) 0) in
    Ok {| sfat := fold_left mark_free to_remove f1; map := firstn k (map st);
          size := newsize; pos := pos st |}
  else Ok {| sfat := sfat st; map := map st; size := newsize; pos := pos st |}.

(* the shrink arm before the fix: to_remove = self._map[len(self._map) - clusters:] *)
Definition truncate_old_slice (cs limit newsize : N) (st : fstate) : res fstate :=
  if newsize =? size st then Ok st else
  let clusters := N.max 1 (cdiv newsize cs) in
  let n := len (map st) in
  if clusters <? n then
    let k := N.to_nat clusters in
    let to_remove := skipn (length (map st) - k) (map st) in
    let f1 := mark_end (sfat st) (nth (k - 1) (map st) 0) in
    Ok {| sfat := fold_left mark_free to_remove f1; map := firstn k (map st);
          size := newsize; pos := pos st |}
  else truncate cs limit newsize st.

(* body of write()'s `for cluster in fs.fat.free(): ...; break` *)
Definition alloc_one (limit : N) (st : fstate) : res fstate :=
  match free_scan (tbl st) limit (hint_of (sfat st)) with
  | [] => Err OSError_ENOSPC
  | c :: _ =>
    let f1 := mark_end (sfat st) c in
    let f2 := match map st with [] => f1 | _ => fset f1 (last (map st) 0) c end in
    Ok {| sfat := f2; map := map st ++ [c]; size := size st; pos := pos st |}
  end.

Fixpoint alloc_n (limit : N) (k : nat) (st : fstate) : fstate * bool :=
  match k with
  | O => (st, true)
  | S k' => match alloc_one limit st with
            | Ok st' => alloc_n limit k' st'
            | Err _ => (st, false)
            end
  end.

(* allocation effect of write(buf) with len(buf) = nbytes at the current position.
   Result flag: true = returned normally, false = OSError(ENOSPC) was raised (by the
   padding truncate: state unchanged; or inside the loop: the clusters allocated so far
   stay, the position is the end of the last mapped cluster, and the `finally` records it
   as the size when it is beyond the size at entry) *)
Definition write_clusters (cs limit nbytes : N) (st : fstate) : fstate * bool :=
  let size0 := size st in
  match (if size0 <? pos st then truncate cs limit (pos st) st else Ok st) with
  | Err _ => (st, false)
  | Ok st1 =>
    let target := if nbytes =? 0 then 0 else cdiv (pos st + nbytes) cs in
    let need := N.to_nat (target - len (map st1)) in
    let r := alloc_n limit need st1 in
    let st2 := fst r in
    let pos' := if snd r then pos st + nbytes else N.max (pos st) (len (map st2) * cs) in
    let size' := if size0 <? pos' then pos' else size st2 in
    ({| sfat := sfat st2; map := map st2; size := size'; pos := pos' |}, snd r)
  end.

(* FatFile.close (the `assert len(self._map) == 1` holds for a well-formed file) *)
Definition close_release (writable : bool) (st : fstate) : fstate :=
  match map st with
  | c :: _ =>
    if (size st =? 0) && writable
    then {| sfat := mark_free (sfat st) c; map := []; size := 0; pos := pos st |}
    else st
  | [] => st
  end.

(* FatFile.seek(pos, SEEK_SET) *)
Definition seek (p : N) (st : fstate) : fstate :=
  {| sfat := sfat st; map := map st; size := size st; pos := p |}.
End Params.
