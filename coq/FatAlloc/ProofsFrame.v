(* Footprint of every operation (only own or free entries change), preservation of the
   well-formedness of OTHER files on the same table, and the history theorem over any
   sequence of operations on any family of files sharing one table. *)
From Coq Require Import List NArith Bool Lia Arith ZifyN ZifyNat ZifyBool.
From NV Require Import Lib.Res FatAlloc.Model FatAlloc.ProofsBase FatAlloc.ProofsGrow
  FatAlloc.ProofsOps FatAlloc.ProofsWrite.
Import ListNotations.
Open Scope N_scope.

Lemma params_ok_bits bits : params_ok (params_of_bits bits).
Proof.
  unfold params_of_bits. destruct (bits =? 12); [|destruct (bits =? 16)];
    repeat split; vm_compute; congruence.
Qed.

(* the operations a client of the file API can perform on one open file *)
Inductive op :=
| OTruncate (n : N)             (* f.truncate(n) *)
| OWrite (p nbytes : N)         (* f.seek(p); f.write(b'.' * nbytes) *)
| OClose                        (* f.close(); reopen 'r+b' (the map is re-read with chain()) *)
| OUnlink.                      (* path.unlink(); the name is created again, empty *)

(* footprint: an entry that was non-zero and not ours is unchanged; a cluster that
   is ours afterwards was ours or free before *)
Definition footprint (t m t' m' : list N) : Prop :=
  length t' = length t /\
  (forall c, ~ In c m -> get t c <> 0 -> get t' c = get t c) /\
  (forall c, In c m' -> ~ In c m -> get t c = 0).

Lemma footprint_refl t m : footprint t m t m.
Proof. split; [reflexivity|]. split; [reflexivity|]. intros c H1 H2. tauto. Qed.

Section Params.
Variable P : fatp.
Hypothesis POK : params_ok P.
Variables cs limit : N.
Hypothesis CS : 0 < cs.
Hypothesis LIM : limit <= max_valid P + 1.

Lemma extends_footprint t m t' m' : extends P limit t m t' m' -> footprint t m t' m'.
Proof.
  intros (L & new & E & Nn & F & R). split; [exact L|]. split.
  - intros c H1 H2. apply R.
    + intros X. apply H1. apply last_opt_In. exact X.
    + intros X. apply H2. apply (F c X).
  - intros c H1 H2. subst m'. apply in_app_or in H1. destruct H1 as [H1|H1]; [tauto|]. apply (F c H1).
Qed.

Definition apply_op (o : op) (st : fstate) : fstate :=
  match o with
  | OTruncate n => match truncate P cs limit n st with Ok st' => st' | Err _ => st end
  | OWrite p nb => fst (write_clusters P cs limit nb (seek p st))
  | OClose =>
    let st' := close_release true st in
    {| sfat := sfat st'; map := chain P (tbl st') (S (length (tbl st'))) (hd 0 (map st'));
       size := size st'; pos := 0 |}
  | OUnlink => {| sfat := unlink_chain P (sfat st) (hd 0 (map st)); map := []; size := 0; pos := 0 |}
  end.

Theorem apply_op_wf o st :
  st_wf P cs limit st ->
  st_wf P cs limit (apply_op o st) /\
  footprint (tbl st) (map st) (tbl (apply_op o st)) (map (apply_op o st)).
Proof.
  intros W. destruct o as [n|p nb| |]; cbn [apply_op].
  - destruct (truncate P cs limit n st) as [st'|e] eqn:T; [|split; [exact W|apply footprint_refl]].
    destruct (truncate_wf P POK cs limit CS LIM n st st' W T) as (W' & _ & _ & L & C).
    split; [exact W'|]. destruct C as [(new & _ & _ & _ & X)|[(rem & _ & M & _ & Z & F)|(M & F)]].
    + apply extends_footprint. exact X.
    + split; [exact L|]. split; [intros c H1 _; apply F; exact H1|].
      intros c H1 H2. exfalso. apply H2. rewrite M. apply in_or_app. left. exact H1.
    + unfold tbl. rewrite M, F. apply footprint_refl.
  - assert (Ws : st_wf P cs limit (seek p st)) by exact W.
    destruct (write_wf P POK cs limit CS LIM nb (seek p st) Ws) as (W' & X & _).
    split; [exact W'|]. apply extends_footprint in X. exact X.
  - destruct (close_wf P cs limit st W) as (W' & L & Z & NZ). cbn zeta in *.
    set (st' := close_release true st) in *.
    assert (E : chain P (tbl st') (S (length (tbl st'))) (hd 0 (map st')) = map st').
    { destruct W' as [Wc _]. apply (chain_of_wf P limit); [exact POK|exact Wc|].
      pose proof (NoDup_len_le (map st') (tbl st') (cw_nodup _ _ _ _ Wc)
                    (fun c Hc => proj1 (proj2 (proj2 (cw_range _ _ _ _ Wc c Hc))))). lia. }
    rewrite E. unfold st_wf, tbl. cbn [sfat map size pos]. split; [exact W'|].
    destruct (N.eq_dec (size st) 0) as [Z0|Z0].
    + destruct (Z Z0) as (M & _ & _ & F). split; [exact L|]. split; [intros c H1 _; apply F; exact H1|].
      fold (tbl st'). rewrite M. intros c [].
    + rewrite (NZ Z0). apply footprint_refl.
  - destruct W as [Wc _]. destruct (unlink_frees_all P POK limit (sfat st) (map st) Wc) as (L & Z & F).
    unfold st_wf, tbl. cbn [sfat map size pos]. split.
    + split; [apply chain_wf_nil|right; split; [reflexivity|cbn; lia]].
    + split; [exact L|]. split; [intros c H1 _; apply F; exact H1|intros c []].
Qed.

Lemma footprint_other t m1 t' m1' m2 :
  footprint t m1 t' m1' -> chain_wf P limit t m2 -> (forall c, In c m1 -> ~ In c m2) ->
  chain_wf P limit t' m2 /\ (forall c, In c m1' -> ~ In c m2).
Proof.
  intros (L & F & A) W D.
  assert (U : forall c, In c m2 -> get t' c = get t c).
  { intros c Hc. apply F; [intros X; exact (D c X Hc)|]. exact (chain_nonzero P limit t m2 POK W c Hc). }
  split; [constructor|].
  - apply W.
  - intros c Hc. unfold in_area, len. rewrite L. apply (cw_range _ _ _ _ W c Hc).
  - apply links_frame with (t := t); [exact U|apply W].
  - destruct (nil_or_ne m2) as [->|Hn]; [exact I|]. apply (ended_ne P); [exact Hn|].
    rewrite U by (apply last_In; exact Hn). apply (ended_ne P t m2 Hn). apply W.
  - intros c H1 H2. destruct (in_dec N.eq_dec c m1) as [I|I]; [exact (D c I H2)|].
    apply (chain_nonzero P limit t m2 POK W c H2). apply A; assumption.
Qed.

(* two files, disjoint clusters, one table: whatever is done to the first, the second
   stays well-formed with the same map, and they stay disjoint *)
Theorem two_files_frame o st m2 s2 :
  st_wf P cs limit st -> file_wf P cs limit (tbl st) m2 s2 ->
  (forall c, In c (map st) -> ~ In c m2) ->
  let st' := apply_op o st in
  st_wf P cs limit st' /\ file_wf P cs limit (tbl st') m2 s2 /\
  (forall c, In c (map st') -> ~ In c m2).
Proof.
  intros W [W2 S2] D st'. destruct (apply_op_wf o st W) as [W' Fp]. fold st' in W', Fp.
  destruct (footprint_other _ _ _ _ m2 Fp W2 D) as [W2' D']. split; [exact W'|]. split; [split; assumption|exact D'].
Qed.

(* ---------- any number of files, any history ---------- *)
Record fmeta := { fm_map : list N; fm_size : N; fm_pos : N }.
Record volume := { vfat : fat; vfiles : nat -> fmeta }.
Definition file_state (v : volume) (i : nat) : fstate :=
  {| sfat := vfat v; map := fm_map (vfiles v i); size := fm_size (vfiles v i); pos := fm_pos (vfiles v i) |}.
Definition vstep (v : volume) (io : nat * op) : volume :=
  let st' := apply_op (snd io) (file_state v (fst io)) in
  {| vfat := sfat st';
     vfiles := fun j => if Nat.eqb j (fst io)
                        then {| fm_map := map st'; fm_size := size st'; fm_pos := pos st' |}
                        else vfiles v j |}.
Definition vol_wf (v : volume) : Prop :=
  (forall i, file_wf P cs limit (ftbl (vfat v)) (fm_map (vfiles v i)) (fm_size (vfiles v i))) /\
  (forall i j, i <> j -> forall c, In c (fm_map (vfiles v i)) -> ~ In c (fm_map (vfiles v j))).
(* an entry that belongs to no file of the family and is in use (a directory chain, the
   reserved entries 0 and 1, a bad-cluster mark) *)
Definition foreign (v : volume) (c : N) : Prop :=
  get (ftbl (vfat v)) c <> 0 /\ forall i, ~ In c (fm_map (vfiles v i)).

Lemma vstep_wf v io : vol_wf v -> vol_wf (vstep v io) /\
  forall c, foreign v c -> foreign (vstep v io) c /\ get (ftbl (vfat (vstep v io))) c = get (ftbl (vfat v)) c.
Proof.
  intros [WF DJ]. destruct io as [i o]. unfold vstep. cbn [fst snd].
  assert (W : st_wf P cs limit (file_state v i)) by apply WF.
  destruct (apply_op_wf o (file_state v i) W) as [W' Fp]. set (st' := apply_op o (file_state v i)) in *.
  unfold tbl in Fp. cbn [file_state sfat map] in Fp. fold (tbl st') in Fp.
  assert (OT : forall j, j <> i -> chain_wf P limit (tbl st') (fm_map (vfiles v j)) /\
                                  forall c, In c (map st') -> ~ In c (fm_map (vfiles v j))).
  { intros j Hj. apply (footprint_other _ _ _ _ _ Fp); [apply WF|]. apply DJ. congruence. }
  split; [split|]; cbn [vfat vfiles].
  - intros j. destruct (Nat.eqb_spec j i) as [->|Hj]; cbn [fm_map fm_size]; [exact W'|].
    split; [apply OT; exact Hj|apply WF].
  - intros j k Hjk c. destruct (Nat.eqb_spec j i) as [->|Hj]; destruct (Nat.eqb_spec k i) as [->|Hk];
      cbn [fm_map]; try congruence.
    + apply OT. exact Hk.
    + intros H1 H2. exact (proj2 (OT j Hj) c H2 H1).
    + apply DJ. exact Hjk.
  - intros c [NZ NF]. destruct Fp as (L & F & A). unfold foreign. cbn [vfat vfiles]. split; [split|].
    + fold (tbl st'). rewrite F; [exact NZ|apply NF|exact NZ].
    + intros j. destruct (Nat.eqb_spec j i) as [->|Hj]; cbn [fm_map]; [|apply NF].
      intros X. apply NZ. apply A; [exact X|apply NF].
    + fold (tbl st'). apply F; [apply NF|exact NZ].
Qed.

Theorem history ops : forall v, vol_wf v ->
  vol_wf (fold_left vstep ops v) /\
  forall c, foreign v c -> foreign (fold_left vstep ops v) c /\
                           get (ftbl (vfat (fold_left vstep ops v))) c = get (ftbl (vfat v)) c.
Proof.
  induction ops as [|io ops IH]; intros v W; cbn [fold_left].
  - split; [exact W|]. intros c H. split; [exact H|reflexivity].
  - destruct (vstep_wf v io W) as [W1 F1]. destruct (IH _ W1) as [W2 F2]. split; [exact W2|].
    intros c H. destruct (F1 c H) as [H1 E1]. destruct (F2 c H1) as [H2 E2]. split; [exact H2|congruence].
Qed.
End Params.
