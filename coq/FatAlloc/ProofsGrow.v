(* The two table transformations of FatFile.truncate: appending freshly found free
   clusters to a chain (also the body of write()'s allocation loop) and cutting a chain. *)
From Coq Require Import List NArith Bool Lia Arith ZifyN ZifyNat ZifyBool.
From NV Require Import Lib.Res FatAlloc.Model FatAlloc.ProofsBase.
Import ListNotations.
Open Scope N_scope.

Lemma NoDup_last_removelast (l : list N) d : l <> [] -> NoDup l -> ~ In (last l d) (removelast l).
Proof.
  intros Hn N. rewrite (split_last l d Hn) in N. apply NoDup_app_inv in N.
  destruct N as (_ & _ & D). intros H. apply (D _ H). left. reflexivity.
Qed.
Lemma In_removelast (l : list N) c : In c (removelast l) -> In c l.
Proof.
  destruct l as [|a l]; [intros []|]. intros H.
  rewrite (split_last (a :: l) 0) by discriminate. apply in_or_app. left. exact H.
Qed.
Lemma NoDup_len_le (m : list N) (t : list N) :
  NoDup m -> (forall c, In c m -> c < len t) -> (length m <= length t)%nat.
Proof.
  intros N R. rewrite <- (map_length N.to_nat m), <- (seq_length (length t) 0).
  apply NoDup_incl_length.
  - clear R. induction N as [|a l Ha N IH]; cbn; constructor; auto.
    rewrite in_map_iff. intros (x & E & Hx). apply N2Nat.inj in E. subst. auto.
  - intros x Hx. apply in_map_iff in Hx. destruct Hx as (c & <- & Hc).
    apply in_seq. specialize (R c Hc). unfold len in R. lia.
Qed.

(* ---------- link_chain ---------- *)
Lemma link_chain_len f l : length (ftbl (link_chain f l)) = length (ftbl f).
Proof.
  induction l as [|a [|b r] IH]; try reflexivity.
  change (link_chain f (a :: b :: r)) with (fset (link_chain f (b :: r)) a b).
  rewrite ftbl_fset, set_length. exact IH.
Qed.
Lemma link_chain_frame f l c :
  ~ In c (removelast l) -> get (ftbl (link_chain f l)) c = get (ftbl f) c.
Proof.
  induction l as [|a [|b r] IH]; intros H; try reflexivity.
  change (link_chain f (a :: b :: r)) with (fset (link_chain f (b :: r)) a b).
  change (removelast (a :: b :: r)) with (a :: removelast (b :: r)) in H.
  rewrite ftbl_fset, get_set_other.
  - apply IH. intros X. apply H. right. exact X.
  - intros ->. apply H. left. reflexivity.
Qed.
Lemma link_chain_links f l :
  NoDup l -> (forall c, In c l -> c < len (ftbl f)) -> links (ftbl (link_chain f l)) l.
Proof.
  induction l as [|a [|b r] IH]; intros N R; try exact I.
  change (link_chain f (a :: b :: r)) with (fset (link_chain f (b :: r)) a b).
  rewrite ftbl_fset. inversion N as [|? ? Ha N']; subst. split.
  - apply get_set_same. unfold len. rewrite link_chain_len. apply R. left. reflexivity.
  - apply links_frame with (t := ftbl (link_chain f (b :: r))).
    + intros c Hc. apply get_set_other. intros ->. exact (Ha Hc).
    + apply IH; [exact N'|]. intros c Hc. apply R. right. exact Hc.
Qed.

(* ---------- a run of mark_free ---------- *)
Section Params.
Variable P : fatp.
Hypothesis POK : params_ok P.

Lemma fold_free_len l f : length (ftbl (fold_left mark_free l f)) = length (ftbl f).
Proof.
  revert f; induction l as [|a l IH]; intros f; [reflexivity|].
  cbn [fold_left]. rewrite IH. unfold mark_free. rewrite ftbl_fset. apply set_length.
Qed.
Lemma fold_free_other l f c : ~ In c l -> get (ftbl (fold_left mark_free l f)) c = get (ftbl f) c.
Proof.
  revert f; induction l as [|a l IH]; intros f H; [reflexivity|].
  cbn [fold_left]. rewrite IH by (intros X; apply H; right; exact X).
  unfold mark_free. rewrite ftbl_fset. apply get_set_other. intros ->. apply H. left. reflexivity.
Qed.
Lemma fold_free_zero l f c : In c l -> c < len (ftbl f) -> get (ftbl (fold_left mark_free l f)) c = 0.
Proof.
  revert f; induction l as [|a l IH]; intros f H L; [destruct H|].
  cbn [fold_left]. destruct (in_dec N.eq_dec c l) as [I|I].
  - apply IH; [exact I|]. unfold mark_free. rewrite ftbl_fset, set_len. exact L.
  - rewrite fold_free_other by exact I. destruct H as [->|H]; [|tauto].
    unfold mark_free. rewrite ftbl_fset. apply get_set_same. exact L.
Qed.

(* ---------- growth ---------- *)
(* `extends`: the map got longer by clusters that were free (so: inside the data area,
   entry 0), and no entry other than the old last one and the new ones changed *)
Definition extends (limit : N) (t m t' m' : list N) : Prop :=
  length t' = length t /\
  exists new, m' = m ++ new /\ NoDup new /\
    (forall c, In c new -> is_free P limit t c) /\
    (forall c, ~ In c (last_opt m) -> ~ In c new -> get t' c = get t c).

Lemma ended_ne t (l : list N) : l <> [] -> (ended P t l <-> max_valid P < get t (last l 0)).
Proof. destruct l; [congruence|]. intros _. cbn [ended]. tauto. Qed.
Lemma nil_or_ne {A} (l : list A) : l = [] \/ l <> [].
Proof. destruct l; [left; reflexivity|right; discriminate]. Qed.
Lemma last_opt_ne (m : list N) : m <> [] -> last_opt m = [last m 0].
Proof. destruct m; [congruence|reflexivity]. Qed.
Lemma last_opt_In (m : list N) c : In c (last_opt m) -> In c m.
Proof.
  destruct m as [|a m]; [intros []|]. intros [<-|[]]. apply last_In. discriminate.
Qed.

Lemma grow_spec limit st new :
  limit <= max_valid P + 1 ->
  chain_wf P limit (tbl st) (map st) ->
  new <> [] -> NoDup new -> (forall c, In c new -> is_free P limit (tbl st) c) ->
  let t' := ftbl (grow_with P new st) in
  chain_wf P limit t' (map st ++ new) /\ extends limit (tbl st) (map st) t' (map st ++ new).
Proof.
  intros Hlim W Hne Nn Fr t'. destruct st as [f m sz p]. unfold tbl, grow_with in *.
  cbn [sfat map] in *. destruct POK as (Pm & Pmm & Pe).
  set (t := ftbl f) in *.
  set (ak := last new 0) in *. set (f1 := mark_end P f ak) in *.
  set (l := last_opt m ++ new).
  assert (Hak : In ak new) by (apply last_In; exact Hne).
  assert (Dis : forall c, In c new -> ~ In c m).
  { intros c Hc Hm. apply (chain_nonzero P limit t m POK W c Hm). apply (Fr c Hc). }
  assert (Lt1 : length (ftbl f1) = length t) by (unfold f1, mark_end; rewrite ftbl_fset; apply set_length).
  assert (Lt' : length t' = length t).
  { unfold t'. rewrite link_chain_len. exact Lt1. }
  assert (Nl : NoDup l).
  { unfold l. destruct m as [|a m0] eqn:Em; [exact Nn|]. cbn [last_opt app]. constructor; [|exact Nn].
    intros H. apply (Dis _ H). rewrite <- Em. apply last_In. rewrite Em. discriminate. }
  assert (Rl : forall c, In c l -> c < len (ftbl f1)).
  { intros c Hc. unfold len. rewrite Lt1. unfold l in Hc. apply in_app_or in Hc. destruct Hc as [Hc|Hc].
    - apply last_opt_In in Hc. apply (cw_range _ _ _ _ W c Hc).
    - apply (Fr c Hc). }
  assert (Ll : last l 0 = ak) by (unfold l; apply last_app_ne; exact Hne).
  assert (Lne : l <> []) by (unfold l; intros E; apply app_eq_nil in E; tauto).
  assert (Fm : forall c, ~ In c l -> get t' c = get t c).
  { intros c Hc. unfold t'. fold l. rewrite link_chain_frame.
    - unfold f1, mark_end. rewrite ftbl_fset. apply get_set_other. intros <-.
      apply Hc. unfold l. apply in_or_app. right. exact Hak.
    - intros X. apply Hc. apply In_removelast. exact X. }
  assert (Lk : links t' l) by (unfold t'; fold l; apply link_chain_links; assumption).
  assert (Ek : get t' ak = end_mark P).
  { unfold t'. fold l. rewrite link_chain_frame.
    - unfold f1, mark_end. rewrite ftbl_fset. apply get_set_same. apply (Fr ak Hak).
    - rewrite <- Ll. apply NoDup_last_removelast; assumption. }
  split; [constructor|].
  - apply NoDup_app_intro; [apply W|exact Nn|]. intros c Hm Hc. exact (Dis c Hc Hm).
  - intros c Hc. unfold in_area, len. rewrite Lt'. apply in_app_or in Hc. destruct Hc as [Hc|Hc].
    + apply (cw_range _ _ _ _ W c Hc).
    + destruct (Fr c Hc) as (F1 & F2 & F3 & F4). unfold len in F3. lia.
  - destruct (nil_or_ne m) as [Em|Hm].
    + unfold l in Lk. rewrite Em in *. exact Lk.
    + pose proof (last_opt_ne m Hm) as Lo.
      rewrite (split_last m 0 Hm), <- app_assoc. cbn [app]. apply links_app. split.
      * apply links_frame_pre with (t := t).
        -- intros c Hc. apply Fm. unfold l. rewrite Lo. cbn [app].
           pose proof (cw_nodup _ _ _ _ W) as Nm. rewrite (split_last m 0 Hm) in Nm.
           apply NoDup_app_inv in Nm. destruct Nm as (_ & _ & D). intros [<-|X].
           ++ apply (D _ Hc). left. reflexivity.
           ++ apply (Dis _ X). apply In_removelast. exact Hc.
        -- rewrite <- (split_last m 0 Hm). apply W.
      * unfold l in Lk. rewrite Lo in Lk. exact Lk.
  - unfold ended. destruct (m ++ new) eqn:E; [exact I|]. rewrite <- E.
    rewrite last_app_ne by exact Hne. fold ak. rewrite Ek. lia.
  - split; [exact Lt'|]. exists new. split; [reflexivity|]. split; [exact Nn|]. split; [exact Fr|].
    intros c H1 H2. apply Fm. unfold l. intros X. apply in_app_or in X. tauto.
Qed.

(* ---------- cutting ---------- *)
Lemma shrink_spec limit f m k :
  chain_wf P limit (ftbl f) m -> (0 < k < length m)%nat ->
  let t := ftbl f in
  let t' := ftbl (fold_left mark_free (skipn k m) (mark_end P f (nth (k - 1) m 0))) in
  length t' = length t /\ chain_wf P limit t' (firstn k m) /\
  (forall c, In c (skipn k m) -> get t' c = 0) /\
  (forall c, ~ In c m -> get t' c = get t c).
Proof.
  intros W Hk t t'. destruct POK as (Pm & Pmm & Pe).
  set (keep := firstn k m). set (rem := skipn k m).
  assert (Em : m = keep ++ rem) by (symmetry; apply firstn_skipn).
  assert (Hkeep : keep <> []).
  { intros E. apply (f_equal (@length N)) in E. unfold keep in E. rewrite firstn_length in E. cbn in E. lia. }
  set (y := nth (k - 1) m 0).
  assert (Hy : y = last keep 0) by (apply nth_pred_last_firstn; lia).
  pose proof (cw_nodup _ _ _ _ W) as Nm. rewrite Em in Nm. apply NoDup_app_inv in Nm.
  destruct Nm as (Nk & Nr & D).
  assert (Yk : In y keep) by (rewrite Hy; apply last_In; exact Hkeep).
  assert (Ym : In y m) by (rewrite Em; apply in_or_app; left; exact Yk).
  assert (Lt1 : length (ftbl (mark_end P f y)) = length t) by (unfold mark_end; rewrite ftbl_fset; apply set_length).
  assert (Lt' : length t' = length t) by (unfold t'; rewrite fold_free_len; exact Lt1).
  assert (Fo : forall c, ~ In c rem -> c <> y -> get t' c = get t c).
  { intros c H1 H2. unfold t'. fold rem y. rewrite fold_free_other by exact H1.
    unfold mark_end. rewrite ftbl_fset. apply get_set_other. congruence. }
  split; [exact Lt'|]. split; [constructor|split].
  - exact Nk.
  - intros c Hc. unfold in_area, len. rewrite Lt'. apply (cw_range _ _ _ _ W c).
    rewrite Em. apply in_or_app. left. exact Hc.
  - rewrite (split_last keep 0 Hkeep). apply links_frame_pre with (t := t).
    + intros c Hc. apply Fo.
      * intros X. apply (D c); [apply In_removelast; exact Hc|exact X].
      * rewrite Hy. intros ->. exact (NoDup_last_removelast keep 0 Hkeep Nk Hc).
    + rewrite <- (split_last keep 0 Hkeep). apply links_prefix with (l2 := rem). rewrite <- Em. apply W.
  - apply ended_ne; [exact Hkeep|]. rewrite <- Hy.
    unfold t'. fold rem y. rewrite fold_free_other by (apply D; exact Yk).
    unfold mark_end. rewrite ftbl_fset, get_set_same; [lia|]. apply (cw_range _ _ _ _ W y Ym).
  - intros c Hc. unfold t'. fold rem y. apply fold_free_zero; [exact Hc|].
    unfold len. rewrite Lt1. apply (cw_range _ _ _ _ W c). rewrite Em. apply in_or_app. right. exact Hc.
  - intros c Hc. apply Fo.
    + intros X. apply Hc. rewrite Em. apply in_or_app. right. exact X.
    + intros ->. exact (Hc Ym).
Qed.
End Params.
