(* Basic facts: table get/set, chain links, the free() scan.  Definitions of file
   well-formedness used by the other Proofs files. *)
From Coq Require Import List NArith Bool Lia Arith ZifyN ZifyNat ZifyBool.
From NV Require Import Lib.Res FatAlloc.Model.
Import ListNotations.
Open Scope N_scope.

(* ---------- lists ---------- *)
Lemma NoDup_app_intro {A} (l1 l2 : list A) :
  NoDup l1 -> NoDup l2 -> (forall x, In x l1 -> ~ In x l2) -> NoDup (l1 ++ l2).
Proof.
  induction l1 as [|a l1 IH]; intros H1 H2 D; [exact H2|].
  inversion H1 as [|? ? Ha H1']; subst. cbn [app]. constructor.
  - rewrite in_app_iff. intros [H|H]; [exact (Ha H)|]. exact (D a (or_introl eq_refl) H).
  - apply IH; auto. intros x Hx. apply D. right. exact Hx.
Qed.
Lemma NoDup_app_inv {A} (l1 l2 : list A) :
  NoDup (l1 ++ l2) -> NoDup l1 /\ NoDup l2 /\ (forall x, In x l1 -> ~ In x l2).
Proof.
  induction l1 as [|a l1 IH]; cbn [app]; intros H.
  - repeat split; [constructor|exact H|intros x []].
  - inversion H as [|? ? Ha H']; subst. destruct (IH H') as (N1 & N2 & D).
    rewrite in_app_iff in Ha. repeat split.
    + constructor; tauto.
    + exact N2.
    + intros x [<-|Hx]; [tauto|auto].
Qed.
Lemma firstn_skipn_In {A} k (l : list A) x : In x l <-> In x (firstn k l) \/ In x (skipn k l).
Proof. rewrite <- in_app_iff, firstn_skipn. tauto. Qed.
Lemma last_app_single {A} (l : list A) x d : last (l ++ [x]) d = x.
Proof. apply last_last. Qed.
Lemma last_cons_cons {A} (a b : A) r d : last (a :: b :: r) d = last (b :: r) d.
Proof. reflexivity. Qed.
Lemma last_In {A} (l : list A) d : l <> [] -> In (last l d) l.
Proof.
  induction l as [|a [|b r] IH]; intros H; [congruence|left; reflexivity|].
  right. rewrite last_cons_cons. apply IH. discriminate.
Qed.
Lemma last_app_ne {A} (l1 l2 : list A) d : l2 <> [] -> last (l1 ++ l2) d = last l2 d.
Proof.
  intros H. induction l1 as [|a l1 IH]; [reflexivity|].
  cbn [app]. destruct (l1 ++ l2) eqn:E.
  - apply app_eq_nil in E. tauto.
  - rewrite last_cons_cons. exact IH.
Qed.
Lemma split_last {A} (l : list A) d : l <> [] -> l = removelast l ++ [last l d].
Proof. intros H. apply app_removelast_last. exact H. Qed.
Lemma nth_pred_last_firstn {A} (l : list A) k d :
  (0 < k <= length l)%nat -> nth (k - 1) l d = last (firstn k l) d.
Proof.
  revert k; induction l as [|a l IH]; intros k H; [cbn in H; lia|].
  destruct k as [|k]; [lia|]. cbn [length] in H.
  destruct k as [|k]; [reflexivity|].
  replace (S (S k) - 1)%nat with (S (S k - 1)) by lia. cbn [nth].
  rewrite IH by lia. destruct l as [|b l]; [cbn in H; lia|]. reflexivity.
Qed.

(* ---------- get / set ---------- *)
Lemma set_nat_length t i v : length (set_nat t i v) = length t.
Proof. revert i; induction t as [|x t IH]; intros [|i]; cbn; auto. Qed.
Lemma nth_set_nat_same t i v : (i < length t)%nat -> nth i (set_nat t i v) 0 = v.
Proof.
  revert i; induction t as [|x t IH]; intros [|i] H; cbn in *; try lia; auto.
  apply IH; lia.
Qed.
Lemma nth_set_nat_other t i j v : i <> j -> nth j (set_nat t i v) 0 = nth j t 0.
Proof.
  revert i j; induction t as [|x t IH]; intros [|i] [|j] H; cbn; try reflexivity; try congruence.
  apply IH; congruence.
Qed.
Lemma set_length t c v : length (set t c v) = length t.
Proof. apply set_nat_length. Qed.
Lemma set_len t c v : len (set t c v) = len t.
Proof. unfold len. rewrite set_length. reflexivity. Qed.
Lemma get_set_same t c v : c < len t -> get (set t c v) c = v.
Proof. unfold get, set, len. intros H. apply nth_set_nat_same. lia. Qed.
Lemma get_set_other t c c' v : c <> c' -> get (set t c v) c' = get t c'.
Proof. unfold get, set. intros H. apply nth_set_nat_other. lia. Qed.
Lemma get_beyond t c : len t <= c -> get t c = 0.
Proof. unfold get, len. intros H. apply nth_overflow. lia. Qed.
Lemma ftbl_fset f c v : ftbl (fset f c v) = set (ftbl f) c v.
Proof. reflexivity. Qed.

(* ---------- ceil division ---------- *)
Lemma cdiv_0 cs : 0 < cs -> cdiv 0 cs = 0.
Proof. intros H. unfold cdiv. apply N.div_small. lia. Qed.
Lemma cdiv_bounds a cs : 0 < cs -> 0 < a -> (cdiv a cs - 1) * cs < a <= cdiv a cs * cs /\ 1 <= cdiv a cs.
Proof.
  intros Hc Ha. unfold cdiv.
  pose proof (N.div_mod (a + cs - 1) cs ltac:(lia)) as E.
  pose proof (N.mod_lt (a + cs - 1) cs ltac:(lia)) as L.
  set (q := (a + cs - 1) / cs) in *. set (r := (a + cs - 1) mod cs) in *.
  assert (1 <= q) by nia. split; [split|]; nia.
Qed.
Lemma cdiv_unique a cs q : 0 < cs -> 0 < a -> (q - 1) * cs < a <= q * cs -> cdiv a cs = q.
Proof.
  intros Hc Ha [H1 H2]. destruct (cdiv_bounds a cs Hc Ha) as [[B1 B2] B3].
  set (p := cdiv a cs) in *. assert (1 <= q) by nia. nia.
Qed.
Lemma cdiv_mul L cs : 0 < cs -> cdiv (L * cs) cs = L.
Proof.
  intros Hc. destruct (N.eq_dec L 0) as [->|Hn]; [apply cdiv_0; exact Hc|].
  apply cdiv_unique; nia.
Qed.
Lemma cdiv_mono a b cs : 0 < cs -> a <= b -> cdiv a cs <= cdiv b cs.
Proof. intros Hc H. unfold cdiv. apply N.div_le_mono; lia. Qed.
Lemma cdiv_le_mul a cs : 0 < cs -> a <= cdiv a cs * cs.
Proof.
  intros Hc. destruct (N.eq_dec a 0) as [->|Hn]; [lia|].
  apply (cdiv_bounds a cs Hc). lia.
Qed.

(* ---------- links of a chain ---------- *)
Fixpoint links (t : list N) (l : list N) : Prop :=
  match l with
  | a :: ((b :: _) as r) => get t a = b /\ links t r
  | _ => True
  end.
Lemma links_app t l1 x l2 : links t (l1 ++ x :: l2) <-> links t (l1 ++ [x]) /\ links t (x :: l2).
Proof.
  induction l1 as [|a l1 IH]; [cbn; tauto|].
  destruct l1 as [|b l1]; [cbn; tauto|].
  change (((a :: b :: l1) ++ x :: l2)) with (a :: b :: (l1 ++ x :: l2)).
  change ((a :: b :: l1) ++ [x]) with (a :: b :: (l1 ++ [x])).
  change (links t (a :: b :: l1 ++ x :: l2)) with (get t a = b /\ links t ((b :: l1) ++ x :: l2)).
  change (links t (a :: b :: l1 ++ [x])) with (get t a = b /\ links t ((b :: l1) ++ [x])).
  tauto.
Qed.
Lemma links_frame t t' l : (forall c, In c l -> get t' c = get t c) -> links t l -> links t' l.
Proof.
  induction l as [|a [|b r] IH]; intros F H; try exact I.
  destruct H as [H1 H2]. split.
  - rewrite F; [exact H1|left; reflexivity].
  - apply IH; [|exact H2]. intros c Hc. apply F. right. exact Hc.
Qed.
Lemma links_frame_pre t t' l x :
  (forall c, In c l -> get t' c = get t c) -> links t (l ++ [x]) -> links t' (l ++ [x]).
Proof.
  induction l as [|a l IH]; intros F H; [exact I|].
  destruct l as [|b l].
  - cbn in *. split; [|exact I]. rewrite F; tauto.
  - change (get t a = b /\ links t ((b :: l) ++ [x])) in H.
    change (get t' a = b /\ links t' ((b :: l) ++ [x])). destruct H as [H1 H2]. split.
    + rewrite F; [exact H1|left; reflexivity].
    + apply IH; [|exact H2]. intros c Hc. apply F. right. exact Hc.
Qed.
Lemma links_prefix t l1 l2 : links t (l1 ++ l2) -> links t l1.
Proof.
  destruct l2 as [|x l2]; [rewrite app_nil_r; auto|].
  intros H. apply links_app in H. destruct H as [H _].
  destruct l1 as [|a l1]; [exact I|].
  clear -H. revert a H. induction l1 as [|b l1 IH]; intros a H; [exact I|].
  change (get t a = b /\ links t ((b :: l1) ++ [x])) in H. destruct H as [H1 H2].
  split; [exact H1|]. apply IH. exact H2.
Qed.

Section Params.
Variable P : fatp.

Definition params_ok : Prop := 0 < min_valid P /\ min_valid P <= max_valid P /\ max_valid P < end_mark P.

Definition ended (t : list N) (l : list N) : Prop :=
  match l with [] => True | _ => max_valid P < get t (last l 0) end.

Definition in_area (limit : N) (t : list N) (c : N) : Prop :=
  min_valid P <= c /\ c < limit /\ c < len t /\ c <= max_valid P.

(* the part of well-formedness that concerns the table and the map *)
Record chain_wf (limit : N) (t : list N) (m : list N) : Prop := {
  cw_nodup : NoDup m;
  cw_range : forall c, In c m -> in_area limit t c;
  cw_links : links t m;
  cw_ended : ended t m }.

(* size / cluster count agreement; the second disjunct is the transient state the code
   keeps on purpose: truncate(0) leaves ONE cluster mapped while the file is open so that
   the file does not "move cluster"; close() releases it *)
Definition size_ok (cs : N) (m : list N) (sz : N) : Prop :=
  (0 < sz /\ len m = cdiv sz cs) \/ (sz = 0 /\ (length m <= 1)%nat).

Definition file_wf (cs limit : N) (t : list N) (m : list N) (sz : N) : Prop :=
  chain_wf limit t m /\ size_ok cs m sz.

Definition st_wf (cs limit : N) (st : fstate) : Prop :=
  file_wf cs limit (tbl st) (map st) (size st).

(* every entry of a well-formed chain is non-zero (so: not free) *)
Lemma chain_nonzero limit t m : params_ok -> chain_wf limit t m -> forall c, In c m -> get t c <> 0.
Proof.
  intros (Pm & Pmm & Pe) [_ R L E]. induction m as [|a [|b r] IH]; intros c Hc; [destruct Hc| |].
  - destruct Hc as [<-|[]]. cbn in E. lia.
  - destruct L as [L1 L2]. destruct Hc as [<-|Hc].
    + rewrite L1. destruct (R b (or_intror (or_introl eq_refl))) as (Hb & _). lia.
    + apply IH; auto. intros x Hx. apply R. right. exact Hx.
Qed.

(* ---------- the free() scan ---------- *)
Lemma yield_In t lo c :
  In c (if (get t lo =? 0) && (min_valid P <? lo) then [lo] else []) <->
  c = lo /\ get t lo = 0 /\ min_valid P < lo.
Proof.
  destruct (N.eqb_spec (get t lo) 0) as [E|E]; destruct (N.ltb_spec (min_valid P) lo) as [L|L]; cbn;
    split; try tauto; try lia; intros [H|[]]; subst; auto.
Qed.

Lemma In_scan_from t n lo c :
  In c (scan_from P t n lo) <->
  lo <= c < lo + N.of_nat n /\ get t c = 0 /\ min_valid P < c /\ (c <= max_valid P \/ c = lo).
Proof.
  revert lo; induction n as [|n IH]; intros lo; cbn [scan_from].
  - split; [intros []|lia].
  - destruct (N.leb_spec (max_valid P) lo) as [M|M].
    + rewrite yield_In. split.
      * intros (-> & H1 & H2). repeat split; auto; lia.
      * intros (H1 & H2 & H3 & H4). assert (c = lo) by lia. subst. auto.
    + rewrite in_app_iff, yield_In, IH. split.
      * intros [(-> & H1 & H2)|(H1 & H2 & H3 & H4)]; repeat split; auto; lia.
      * intros (H1 & H2 & H3 & H4). destruct (N.eq_dec c lo) as [->|Hn]; [left; auto|].
        right. repeat split; auto; lia.
Qed.

Lemma NoDup_scan_from t n lo : NoDup (scan_from P t n lo).
Proof.
  revert lo; induction n as [|n IH]; intros lo; cbn [scan_from]; [constructor|].
  assert (Y : NoDup (if (get t lo =? 0) && (min_valid P <? lo) then [lo] else [])).
  { destruct ((get t lo =? 0) && (min_valid P <? lo)); repeat constructor. intros []. }
  destruct (max_valid P <=? lo); [exact Y|].
  apply NoDup_app_intro; [exact Y|apply IH|].
  intros x Hx. apply yield_In in Hx. destruct Hx as (-> & _). rewrite In_scan_from. lia.
Qed.

Lemma scan_start_le t limit hint : scan_start P t limit hint <= scan_end t limit.
Proof.
  unfold scan_start. destruct hint as [h|]; [|lia].
  destruct (N.leb_spec (min_valid P) h); destruct (N.ltb_spec h (scan_end t limit)); cbn; lia.
Qed.

Definition is_free (limit : N) (t : list N) (c : N) : Prop :=
  min_valid P < c /\ c < limit /\ c < len t /\ get t c = 0.

Theorem free_in_data_area t limit hint c :
  In c (free_scan P t limit hint) -> is_free limit t c.
Proof.
  unfold free_scan, is_free. pose proof (scan_start_le t limit hint) as S.
  set (s := scan_start P t limit hint) in *. unfold scan_end in *.
  rewrite in_app_iff, !In_scan_from. intros [H|H]; lia.
Qed.

Theorem free_nodup t limit hint : NoDup (free_scan P t limit hint).
Proof.
  unfold free_scan. apply NoDup_app_intro; try apply NoDup_scan_from.
  intros x. rewrite !In_scan_from. lia.
Qed.

Theorem free_complete t limit hint c :
  is_free limit t c -> c <= max_valid P -> In c (free_scan P t limit hint).
Proof.
  unfold free_scan, is_free. pose proof (scan_start_le t limit hint) as S.
  set (s := scan_start P t limit hint) in *. unfold scan_end in *.
  intros (H1 & H2 & H3 & H4) H5. rewrite in_app_iff, !In_scan_from.
  destruct (N.ltb_spec c s); [right|left]; lia.
Qed.

(* no list of distinct free clusters is longer than what one scan yields *)
Theorem free_scan_max t limit hint l :
  NoDup l -> (forall c, In c l -> is_free limit t c /\ c <= max_valid P) ->
  (length l <= length (free_scan P t limit hint))%nat.
Proof.
  intros N H. apply NoDup_incl_length; [exact N|]. intros c Hc.
  destruct (H c Hc). apply free_complete; auto.
Qed.

(* ---------- chain ---------- *)
Lemma chain_of_wf limit t m fuel :
  params_ok -> chain_wf limit t m -> (length m < fuel)%nat -> chain P t fuel (hd 0 m) = m.
Proof.
  intros (Pm & Pmm & Pe) [_ R L E]. revert fuel. induction m as [|a r IH]; intros fuel F.
  - destruct fuel; [reflexivity|]. cbn. destruct (N.leb_spec (min_valid P) 0); [lia|reflexivity].
  - destruct fuel as [|fuel]; [cbn in F; lia|]. cbn [hd chain].
    destruct (R a (or_introl eq_refl)) as (A1 & A2 & A3 & A4).
    destruct (N.leb_spec (min_valid P) a); [|lia]. destruct (N.leb_spec a (max_valid P)); [|lia].
    cbn [andb]. f_equal. destruct r as [|b r].
    + cbn in E. destruct fuel; [reflexivity|]. cbn.
      destruct (N.leb_spec (get t a) (max_valid P)); [lia|]. rewrite andb_false_r. reflexivity.
    + destruct L as [L1 L2]. rewrite L1. apply (IH (fun c H => R c (or_intror H)) L2 E).
      cbn [length] in *. lia.
Qed.
End Params.
