(* Non-vacuity examples and regression witnesses (computed with vm_compute). *)
From Coq Require Import List NArith Bool Lia.
From NV Require Import Lib.Res Gen.Fat FatAlloc.Model FatAlloc.ProofsBase FatAlloc.ProofsFrame.
Import ListNotations.
Open Scope N_scope.

Definition mk t i m s p := {| sfat := {| ftbl := t; finfo := i |}; map := m; size := s; pos := p |}.
Definition show (st : fstate) := (tbl st, finfo (sfat st), map st, size st, pos st).
Definition showr (r : res fstate) := match r with Ok s => Some (show s) | Err _ => None end.

(* FAT12, 12 entries, a 5-cluster file 3->4->5->6->7 *)
Definition t5 : list N := [4088; 4095; 0; 4; 5; 6; 7; 4095; 0; 0; 0; 0].
Definition f5 := mk t5 None [3;4;5;6;7] 2100 0.

Ltac consts := unfold fat12_min_valid, fat12_max_valid, fat12_end_mark, fat16_min_valid, fat16_max_valid,
  fat16_end_mark, fat32_min_valid, fat32_max_valid, fat32_end_mark in *.
Ltac wf_nodup := repeat constructor; cbn; intuition discriminate.
Ltac wf_range := let c := fresh "c" in let H := fresh "H" in
  intros c H; cbn in H; unfold in_area, len; cbn; consts;
  repeat (destruct H as [<-|H]; [lia|]); destruct H.
Ltac wf_links := vm_compute; intuition reflexivity.
Ltac wf_ended := vm_compute; reflexivity.
Ltac wf_size := unfold size_ok, len, cdiv; cbn;
  first [left; split; [lia|reflexivity] | right; split; [reflexivity|lia]].
Ltac wf_by_compute := split; [constructor; [wf_nodup|wf_range|wf_links|wf_ended]|wf_size].

Example f5_wf : st_wf fat12p 512 12 f5.
Proof. unfold st_wf, file_wf, f5, mk, tbl; cbn [sfat ftbl map size]. wf_by_compute. Qed.

(* a 5-cluster file shrunk to 2 *)
Example shrink_5_to_2 :
  showr (truncate fat12p 512 12 600 f5)
  = Some ([4088; 4095; 0; 4; 4095; 0; 0; 0; 0; 0; 0; 0], None, [3;4], 600, 0).
Proof. vm_compute. reflexivity. Qed.
Example shrink_5_to_2_wf : forall st', truncate fat12p 512 12 600 f5 = Ok st' -> st_wf fat12p 512 12 st'.
Proof.
  intros st' H. vm_compute in H. inversion H; subst st'.
  unfold st_wf, file_wf, tbl; cbn [sfat ftbl map size]. wf_by_compute.
Qed.

(* the shrink slice of the code before the fix (to_remove = last `clusters` entries):
   5 -> 4 clusters frees clusters 4..7 and keeps [3;4;5;6] mapped: the chain is destroyed *)
Example old_slice_5_to_4 :
  showr (truncate_old_slice fat12p 512 12 2000 f5)
  = Some ([4088; 4095; 0; 4; 0; 0; 0; 0; 0; 0; 0; 0], None, [3;4;5;6], 2000, 0).
Proof. vm_compute. reflexivity. Qed.
Example old_slice_breaks_wf :
  forall st', truncate_old_slice fat12p 512 12 2000 f5 = Ok st' -> ~ st_wf fat12p 512 12 st'.
Proof.
  intros st' H. vm_compute in H. inversion H; subst st'. intros [[_ _ L _] _].
  vm_compute in L. destruct L as [_ [L _]]. discriminate.
Qed.
(* ... and 5 -> 2 leaks cluster 5 (entry 5 still links to the freed cluster 6) *)
Example old_slice_5_to_2_leaks :
  showr (truncate_old_slice fat12p 512 12 600 f5)
  = Some ([4088; 4095; 0; 4; 4095; 6; 0; 0; 0; 0; 0; 0], None, [3;4], 600, 0).
Proof. vm_compute. reflexivity. Qed.

(* growth from an empty map (file that owns no cluster yet); limit 7 < 8 entries *)
Definition t0 : list N := [4088; 4095; 4095; 0; 4095; 0; 0; 0].
Example grow_from_empty :
  showr (truncate fat12p 512 7 1000 (mk t0 None [] 0 0))
  = Some ([4088; 4095; 4095; 5; 4095; 4095; 0; 0], None, [3;5], 1000, 0).
Proof. vm_compute. reflexivity. Qed.
(* three clusters are free below the limit (3,5,6); entry 7 is free but beyond the data
   area: asking for 3 works, asking for 4 is ENOSPC although the FAT has 4 zero entries *)
Example grow_exact_fit :
  showr (truncate fat12p 512 7 1025 (mk t0 None [] 0 0))
  = Some ([4088; 4095; 4095; 5; 4095; 6; 4095; 0], None, [3;5;6], 1025, 0).
Proof. vm_compute. reflexivity. Qed.
Example enospc_one_too_few :
  truncate fat12p 512 7 1537 (mk t0 None [] 0 0) = Err OSError_ENOSPC.
Proof. vm_compute. reflexivity. Qed.
Example never_beyond_limit : free_scan fat12p t0 7 None = [3;5;6] /\ free_scan fat12p t0 8 None = [3;5;6;7].
Proof. split; vm_compute; reflexivity. Qed.

(* FAT32 hint: the scan starts after last_alloc and wraps around, no duplicates *)
Definition t32 : list N :=
  [268435448; 268435455; 268435455; 0; 5; 268435455; 0; 7; 268435455; 0; 0; 0].
Example fat32_wraparound :
  free_scan fat32p t32 10 (Some 7) = [9;3;6] /\ free_scan fat32p t32 10 (Some 9) = [3;6;9] /\
  free_scan fat32p t32 10 (Some 10) = [3;6;9] /\ free_scan fat32p t32 10 None = [3;6;9].
Proof. repeat split; vm_compute; reflexivity. Qed.

(* write(): 2000 bytes at position 700 of a 2-cluster file need 6 clusters, 3 are free:
   ENOSPC half way; the three clusters stay, size = position = 5 * 512; FSInfo follows *)
Example write_enospc_half_way :
  let r := write_clusters fat32p 512 10 2000 (mk t32 (Some (7, 3)) [4;5] 700 700) in
  (show (fst r), snd r) =
  (([268435448; 268435455; 268435455; 6; 5; 9; 268435455; 7; 268435455; 3; 0; 0],
    Some (6, 0), [4;5;9;3;6], 2560, 2560), false).
Proof. vm_compute. reflexivity. Qed.
Example write_fits :
  let r := write_clusters fat32p 512 10 1000 (mk t32 (Some (7, 3)) [4;5] 700 700) in
  (show (fst r), snd r) =
  (([268435448; 268435455; 268435455; 268435455; 5; 9; 0; 7; 268435455; 3; 0; 0],
    Some (3, 1), [4;5;9;3], 1700, 1700), true).
Proof. vm_compute. reflexivity. Qed.

(* close() of a truncated-to-zero file releases its cluster *)
Example close_releases :
  show (close_release true (mk t0 None [4] 0 0)) = ([4088; 4095; 4095; 0; 0; 0; 0; 0], None, [], 0, 0).
Proof. vm_compute. reflexivity. Qed.

(* unlink frees the whole chain; with the chain() of the code before the fix (link read
   after the caller freed the cluster) only the first cluster was freed *)
Example unlink_all :
  ftbl (unlink_chain fat12p {| ftbl := t5; finfo := None |} 3) = [4088; 4095; 0; 0; 0; 0; 0; 0; 0; 0; 0; 0].
Proof. vm_compute. reflexivity. Qed.
Example unlink_old_leaks :
  ftbl (unlink_go_old fat12p 13 {| ftbl := t5; finfo := None |} 3) = [4088; 4095; 0; 0; 5; 6; 7; 4095; 0; 0; 0; 0].
Proof. vm_compute. reflexivity. Qed.

(* a history on two files sharing the table *)
Example history_two_files :
  let v := {| vfat := {| ftbl := t32; finfo := Some (7, 3) |};
              vfiles := fun i => match i with
                                 | O => {| fm_map := [4;5]; fm_size := 700; fm_pos := 0 |}
                                 | 1%nat => {| fm_map := [7;8]; fm_size := 1024; fm_pos := 0 |}
                                 | _ => {| fm_map := []; fm_size := 0; fm_pos := 0 |} end |} in
  let v' := fold_left (vstep fat32p 512 10)
              [(O, OWrite 700 1000); (1%nat, OTruncate 100); (O, OTruncate 0); (O, OClose); (1%nat, OUnlink)] v in
  (ftbl (vfat v'), fm_map (vfiles v' O), fm_map (vfiles v' 1%nat)) =
  ([268435448; 268435455; 268435455; 0; 0; 0; 0; 0; 0; 0; 0; 0], [], []).
Proof. vm_compute. reflexivity. Qed.
