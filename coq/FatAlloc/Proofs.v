(* Main theorems of the allocation core, instantiated for the three FAT widths with the
   constants regenerated from /repo (Gen.Fat), stated without section context.
   Side conditions: 0 < cs (cluster size) and limit <= max_valid + 1 (the data area holds
   no cluster whose number the FAT width cannot express as a link; `limit` is
   len(fs.clusters) + 2, or len(fat) when FatTable.limit is None). *)
From Coq Require Import List NArith Bool Lia.
From NV Require Import Lib.Res FatAlloc.Model FatAlloc.ProofsBase FatAlloc.ProofsGrow
  FatAlloc.ProofsOps FatAlloc.ProofsWrite FatAlloc.ProofsFrame.
Import ListNotations.
Open Scope N_scope.

Notation PB := params_of_bits.

Theorem FA_free_in_data_area bits t limit hint c :
  In c (free_scan (PB bits) t limit hint) ->
  min_valid (PB bits) < c /\ c < limit /\ c < len t /\ get t c = 0.
Proof. apply free_in_data_area. Qed.

Theorem FA_free_nodup bits t limit hint : NoDup (free_scan (PB bits) t limit hint).
Proof. apply free_nodup. Qed.

Theorem FA_free_complete bits t limit hint c :
  min_valid (PB bits) < c -> c < limit -> c < len t -> get t c = 0 -> c <= max_valid (PB bits) ->
  In c (free_scan (PB bits) t limit hint).
Proof. intros. apply free_complete; [repeat split|]; assumption. Qed.

Theorem FA_chain_of_wf bits limit t m fuel :
  chain_wf (PB bits) limit t m -> (length m < fuel)%nat -> chain (PB bits) t fuel (hd 0 m) = m.
Proof. apply chain_of_wf, params_ok_bits. Qed.

Section Instance.
Variables bits cs limit : N.
Hypothesis CS : 0 < cs.
Hypothesis LIM : limit <= max_valid (PB bits) + 1.
Let P := PB bits.
Let POK := params_ok_bits bits.

Theorem FA_truncate_wf newsize st st' :
  st_wf P cs limit st -> truncate P cs limit newsize st = Ok st' ->
  st_wf P cs limit st' /\ size st' = newsize /\ pos st' = pos st /\
  length (tbl st') = length (tbl st) /\
  ( (exists new, new <> [] /\ map st' = map st ++ new /\
       new = firstn (length new) (free_scan P (tbl st) limit (hint_of (sfat st))) /\
       extends P limit (tbl st) (map st) (tbl st') (map st'))
  \/ (exists removed, removed <> [] /\ map st = map st' ++ removed /\ map st' <> [] /\
       (forall c, In c removed -> get (tbl st') c = 0) /\
       (forall c, ~ In c (map st) -> get (tbl st') c = get (tbl st) c))
  \/ (map st' = map st /\ sfat st' = sfat st) ).
Proof. apply truncate_wf; assumption. Qed.

Theorem FA_truncate_enospc newsize st e :
  truncate P cs limit newsize st = Err e <->
  e = OSError_ENOSPC /\ newsize <> size st /\ len (map st) < trunc_clusters cs newsize /\
  (length (free_scan P (tbl st) limit (hint_of (sfat st)))
   < N.to_nat (trunc_clusters cs newsize - len (map st)))%nat.
Proof. apply truncate_enospc; assumption. Qed.

Theorem FA_truncate_enospc_genuine newsize st e l :
  truncate P cs limit newsize st = Err e ->
  NoDup l -> (forall c, In c l -> is_free P limit (tbl st) c /\ c <= max_valid P) ->
  (length l < N.to_nat (trunc_clusters cs newsize - len (map st)))%nat.
Proof. apply truncate_enospc_genuine; assumption. Qed.

Theorem FA_alloc_one_wf st st' :
  chain_wf P limit (tbl st) (map st) -> alloc_one P limit st = Ok st' ->
  chain_wf P limit (tbl st') (map st') /\
  extends P limit (tbl st) (map st) (tbl st') (map st') /\
  size st' = size st /\ pos st' = pos st /\
  exists c rest, free_scan P (tbl st) limit (hint_of (sfat st)) = c :: rest /\ map st' = map st ++ [c].
Proof. apply alloc_one_wf; assumption. Qed.

Theorem FA_alloc_one_enospc st e :
  alloc_one P limit st = Err e <->
  e = OSError_ENOSPC /\ free_scan P (tbl st) limit (hint_of (sfat st)) = [].
Proof. apply alloc_one_enospc; assumption. Qed.

Theorem FA_write_wf nbytes st :
  st_wf P cs limit st ->
  let r := write_clusters P cs limit nbytes st in
  st_wf P cs limit (fst r) /\
  extends P limit (tbl st) (map st) (tbl (fst r)) (map (fst r)) /\
  (snd r = true ->
     pos (fst r) = pos st + nbytes /\ size (fst r) = N.max (size st) (pos st + nbytes) /\
     (0 < nbytes -> cdiv (pos st + nbytes) cs <= len (map (fst r)))) /\
  (snd r = false ->
     fst r = st \/
     (free_scan P (tbl (fst r)) limit (hint_of (sfat (fst r))) = [] /\
      pos (fst r) = len (map (fst r)) * cs /\ size (fst r) = N.max (size st) (pos (fst r)))).
Proof. apply write_wf; assumption. Qed.

Theorem FA_close_wf st :
  st_wf P cs limit st ->
  let st' := close_release true st in
  st_wf P cs limit st' /\ length (tbl st') = length (tbl st) /\
  (size st = 0 -> map st' = [] /\ size st' = 0 /\
     (forall c, In c (map st) -> get (tbl st') c = 0) /\
     (forall c, ~ In c (map st) -> get (tbl st') c = get (tbl st) c)) /\
  (size st <> 0 -> st' = st).
Proof. apply close_wf; assumption. Qed.

Theorem FA_unlink_frees_all f m :
  chain_wf P limit (ftbl f) m ->
  let t' := ftbl (unlink_chain P f (hd 0 m)) in
  length t' = length (ftbl f) /\
  (forall c, In c m -> get t' c = 0) /\ (forall c, ~ In c m -> get t' c = get (ftbl f) c).
Proof. apply unlink_frees_all; assumption. Qed.

Theorem FA_two_files_frame o st m2 s2 :
  st_wf P cs limit st -> file_wf P cs limit (tbl st) m2 s2 ->
  (forall c, In c (map st) -> ~ In c m2) ->
  let st' := apply_op P cs limit o st in
  st_wf P cs limit st' /\ file_wf P cs limit (tbl st') m2 s2 /\
  (forall c, In c (map st') -> ~ In c m2).
Proof. apply two_files_frame; assumption. Qed.

Theorem FA_history ops v :
  vol_wf P cs limit v ->
  vol_wf P cs limit (fold_left (vstep P cs limit) ops v) /\
  forall c, foreign v c ->
    foreign (fold_left (vstep P cs limit) ops v) c /\
    get (ftbl (vfat (fold_left (vstep P cs limit) ops v))) c = get (ftbl (vfat v)) c.
Proof. apply history; assumption. Qed.
End Instance.

Print Assumptions FA_free_in_data_area.
Print Assumptions FA_free_nodup.
Print Assumptions FA_free_complete.
Print Assumptions FA_truncate_wf.
Print Assumptions FA_truncate_enospc_genuine.
Print Assumptions FA_write_wf.
Print Assumptions FA_close_wf.
Print Assumptions FA_unlink_frees_all.
Print Assumptions FA_two_files_frame.
Print Assumptions FA_history.
