(* Fat32Table.__setitem__ on ONE copy: raw 32-bit words, the 28-bit value, and the
   preserved top nibble. *)
From Coq Require Import List NArith ZArith Bool Lia Arith.
Require Import ZifyN ZifyNat ZifyBool.
From NV Require Import Lib.Res Gen.Fat Fat.Spec FatTable.Model FatTable.ProofsBase FatTable.ProofsGet
  FatTable.ProofsSet.
Import ListNotations.
Open Scope N_scope.
Ltac Zify.zify_post_hook ::= Z.div_mod_to_equations.

(* the table as raw little-endian 32-bit words (top nibble included) *)
Fixpoint raw32 (b : list N) : list N :=
  match b with
  | b0 :: b1 :: b2 :: b3 :: r => (b0 + 256 * b1 + 65536 * b2 + 16777216 * b3) :: raw32 r
  | _ => []
  end.
Lemma raw32_4 a b c d r :
  raw32 (a :: b :: c :: d :: r) = (a + 256 * b + 65536 * c + 16777216 * d) :: raw32 r.
Proof. reflexivity. Qed.

Definition val28 (x : N) : N := x mod 268435456.

Lemma len_raw32 t : N.of_nat (length (raw32 t)) = lenN t / 4.
Proof.
  induction t as [t IH] using list_len_ind.
  destruct t as [|a [|b [|c [|d r]]]]; try reflexivity.
  rewrite raw32_4. cbn [length]. rewrite !lenN_cons.
  specialize (IH r ltac:(cbn [length]; lia)). lia.
Qed.
Lemma in32_raw t n : in32 t n <-> (N.to_nat n < length (raw32 t))%nat.
Proof. unfold in32. pose proof (len_raw32 t). lia. Qed.

Lemma raw32_entry t : forall n, in32 t n -> nth (N.to_nat n) (raw32 t) 0 = word32 t (4 * n).
Proof.
  unfold in32. induction t as [t IH] using list_len_ind. intros n Hn.
  destruct t as [|a [|b [|c [|d r]]]]; try (unfold lenN in Hn; cbn [length] in Hn; lia).
  rewrite raw32_4. rewrite !lenN_cons in Hn.
  destruct (N_cases1 n) as [->|[m ->]].
  - reflexivity.
  - replace (N.to_nat (m + 1)) with (S (N.to_nat m)) by lia. cbn [nth].
    replace (4 * (m + 1)) with (4 * m + 1 + 1 + 1 + 1) by lia.
    rewrite !word32_cons. apply IH; [cbn [length]; lia|lia].
Qed.

Lemma decode32_raw t : bytes t -> decode32 t = map val28 (raw32 t).
Proof.
  unfold val28. induction t as [t IH] using list_len_ind. intros Hb.
  destruct t as [|a [|b [|c [|d r]]]]; try reflexivity.
  inv_bytes Hb. rewrite decode32_4, raw32_4. cbn [map]. f_equal; [lia|].
  apply IH; [cbn [length]; lia|assumption].
Qed.

Lemma raw32_bound t : bytes t -> Forall (fun e => e < 4294967296) (raw32 t).
Proof.
  induction t as [t IH] using list_len_ind. intros Hb.
  destruct t as [|a [|b [|c [|d r]]]]; try constructor.
  - inv_bytes Hb. lia.
  - inv_bytes Hb. apply IH; [cbn [length]; lia|assumption].
Qed.

Lemma raw32_put t : forall n w, w < 4294967296 -> in32 t n ->
  raw32 (put32 t (4 * n) w) = upd (raw32 t) (N.to_nat n) w.
Proof.
  unfold in32. induction t as [t IH] using list_len_ind. intros n w Hw Hn.
  destruct t as [|a [|b [|c [|d r]]]]; try (unfold lenN in Hn; cbn [length] in Hn; lia).
  rewrite !lenN_cons in Hn. destruct (N_cases1 n) as [->|[m ->]].
  - change (4 * 0) with 0. rewrite put32_0, !raw32_4. change (N.to_nat 0) with O.
    cbn [upd]. f_equal. lia.
  - replace (4 * (m + 1)) with (4 * m + 1 + 1 + 1 + 1) by lia.
    rewrite !put32_cons, !raw32_4.
    replace (N.to_nat (m + 1)) with (S (N.to_nat m)) by lia. cbn [upd].
    f_equal. apply IH; [cbn [length]; lia|assumption|lia].
Qed.

Lemma map_upd (f : N -> N) l i x : map f (upd l i x) = upd (map f l) i (f x).
Proof. revert i; induction l as [|y r IH]; intros [|i]; cbn; auto. f_equal. apply IH. Qed.

Lemma get32_raw t n : in32 t n -> get32 t n = Ok (val28 (nth (N.to_nat n) (raw32 t) 0)).
Proof. intros H. rewrite get32_word, raw32_entry by assumption. reflexivity. Qed.

(* ---------------- set ---------------- *)
Lemma set32_ok t n v : v < 268435456 -> in32 t n ->
  set32 t n v = Ok (put32 t (4 * n) (new32 (word32 t (4 * n)) v)).
Proof.
  intros Hv Hn. unfold set32, set32_from. destruct (N.ltb_spec 0x0FFFFFFF v); [lia|].
  rewrite rdI_ok by assumption. cbn [bind]. apply wrI_ok. assumption.
Qed.
Theorem set32_value_error t n v : 268435456 <= v -> set32 t n v = Err ValueError.
Proof. intros H. unfold set32. destruct (N.ltb_spec 0x0FFFFFFF v); [reflexivity|lia]. Qed.
Theorem set32_index_error t n v : v < 268435456 -> ~ in32 t n -> set32 t n v = Err IndexError.
Proof.
  intros Hv Hn. unfold set32, set32_from. destruct (N.ltb_spec 0x0FFFFFFF v); [lia|].
  rewrite rdI_err by assumption. reflexivity.
Qed.
Lemma set32_inv t n v t' : set32 t n v = Ok t' ->
  v < 268435456 /\ in32 t n /\ t' = put32 t (4 * n) (new32 (word32 t (4 * n)) v).
Proof.
  intros H. destruct (N.lt_ge_cases v 268435456) as [Hv|Hv].
  2:{ rewrite set32_value_error in H by assumption. discriminate. }
  destruct (N.le_gt_cases (4 * n + 4) (lenN t)) as [Hn|Hn].
  2:{ rewrite set32_index_error in H by (unfold in32; lia). discriminate. }
  rewrite set32_ok in H by assumption. inversion H. auto.
Qed.

(* the raw word written: old top nibble, new 28-bit value *)
Theorem set32_raw t n v t' : bytes t -> set32 t n v = Ok t' ->
  raw32 t' = upd (raw32 t) (N.to_nat n)
                 (nth (N.to_nat n) (raw32 t) 0 / 268435456 * 268435456 + v).
Proof.
  intros Hb H. apply set32_inv in H as (Hv & Hn & ->).
  pose proof (word32_bound t (4 * n) Hb) as Hw.
  rewrite raw32_entry by assumption. rewrite new32_eq by assumption.
  replace (word32 t (4 * n) / 268435456 mod 16) with (word32 t (4 * n) / 268435456) by lia.
  apply raw32_put; [lia|assumption].
Qed.
Theorem set32_decode t n v t' : bytes t -> set32 t n v = Ok t' ->
  decode32 t' = upd (decode32 t) (N.to_nat n) v.
Proof.
  intros Hb H. pose proof (set32_raw _ _ _ _ Hb H) as Hr.
  pose proof (set32_inv _ _ _ _ H) as (Hv & Hn & E).
  rewrite !decode32_raw; [|assumption|subst t'; apply bytes_put32; assumption].
  rewrite Hr, map_upd. f_equal. unfold val28. lia.
Qed.
Theorem set32_length t n v t' : set32 t n v = Ok t' -> length t' = length t.
Proof.
  intros H. apply set32_inv in H as (_ & _ & ->).
  pose proof (lenN_put32 t (4 * n) (new32 (word32 t (4 * n)) v)). unfold lenN in *. lia.
Qed.
Theorem set32_bytes_bounded t n v t' : bytes t -> set32 t n v = Ok t' -> bytes t'.
Proof. intros Hb H. apply set32_inv in H as (_ & _ & ->). apply bytes_put32. assumption. Qed.
Theorem set32_bytes_other t n v t' i : set32 t n v = Ok t' ->
  i <> 4 * n -> i <> 4 * n + 1 -> i <> 4 * n + 2 -> i <> 4 * n + 3 -> nthN t' i = nthN t i.
Proof. intros H H1 H2 H3 H4. apply set32_inv in H as (_ & _ & ->). apply nthN_put32_other; assumption. Qed.

Lemma in32_len t t' n : length t' = length t -> in32 t n -> in32 t' n.
Proof. unfold in32, lenN. intros ->. auto. Qed.

Theorem set32_get_same t n v t' : bytes t -> set32 t n v = Ok t' -> get32 t' n = Ok v.
Proof.
  intros Hb H. pose proof (set32_bytes_bounded _ _ _ _ Hb H) as Hb'.
  pose proof (set32_length _ _ _ _ H) as Hl. pose proof (set32_decode _ _ _ _ Hb H) as Hd.
  apply set32_inv in H as (Hv & Hn & _).
  rewrite get32_spec by (try assumption; eapply in32_len; eauto).
  rewrite Hd, nth_upd_same; [reflexivity|]. apply in32_iff. assumption.
Qed.
Theorem set32_get_other t n v t' j : bytes t -> set32 t n v = Ok t' -> j <> n ->
  get32 t' j = get32 t j.
Proof.
  intros Hb H Hj. pose proof (set32_bytes_bounded _ _ _ _ Hb H) as Hb'.
  pose proof (set32_length _ _ _ _ H) as Hl. pose proof (set32_decode _ _ _ _ Hb H) as Hd.
  destruct (N.le_gt_cases (4 * j + 4) (lenN t)) as [Hi|Hi].
  - rewrite !get32_spec by (try assumption; eapply in32_len; eauto).
    rewrite Hd, nth_upd_other by lia. reflexivity.
  - rewrite !get32_index_error; [reflexivity| |]; unfold in32, lenN in *; try rewrite Hl; lia.
Qed.
(* the reserved top four bits of entry n survive the write; all other raw words too *)
Theorem set32_top_bits t n v t' : bytes t -> set32 t n v = Ok t' ->
  nth (N.to_nat n) (raw32 t') 0 / 268435456 = nth (N.to_nat n) (raw32 t) 0 / 268435456.
Proof.
  intros Hb H. rewrite (set32_raw _ _ _ _ Hb H).
  apply set32_inv in H as (Hv & Hn & _).
  rewrite nth_upd_same by (apply in32_raw; assumption). lia.
Qed.
Theorem set32_raw_other t n v t' j : bytes t -> set32 t n v = Ok t' -> j <> n ->
  nth (N.to_nat j) (raw32 t') 0 = nth (N.to_nat j) (raw32 t) 0.
Proof. intros Hb H Hj. rewrite (set32_raw _ _ _ _ Hb H). apply nth_upd_other. lia. Qed.
