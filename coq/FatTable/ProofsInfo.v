(* FSInfo bookkeeping of Fat32Table.__setitem__ (_alloc / _dealloc): the recorded free
   count tracks the number of zero entries of copy 0 -- provided the reserved top nibbles
   are clear -- along any sequence of sets; refuted stronger forms as computed examples. *)
From Coq Require Import List NArith ZArith Bool Lia Arith.
Require Import ZifyN ZifyNat ZifyBool.
From NV Require Import Lib.Res Gen.Fat Fat.Spec FatTable.Model FatTable.ProofsBase FatTable.ProofsGet
  FatTable.ProofsSet FatTable.ProofsSet32 FatTable.ProofsCopies.
Import ListNotations.
Open Scope N_scope.
Ltac Zify.zify_post_hook ::= Z.div_mod_to_equations.

Definition isz (x : N) : N := if x =? 0 then 1 else 0.
Fixpoint zeros (l : list N) : N :=
  match l with [] => 0 | x :: r => isz x + zeros r end.

(* entries of the copy that read 0 (specification level: 28-bit values) *)
Definition free_entries (t : list N) : N := zeros (decode32 t).
(* all reserved top nibbles are zero *)
Definition top_clear (t : list N) : Prop := Forall (fun e => e < 268435456) (raw32 t).

Lemma zeros_le l : zeros l <= N.of_nat (length l).
Proof. induction l as [|x r IH]; cbn [zeros length]; unfold isz; [lia|]. destruct (x =? 0); lia. Qed.
Lemma zeros_upd l : forall i w, (i < length l)%nat ->
  zeros (upd l i w) + isz (nth i l 0) = zeros l + isz w.
Proof.
  induction l as [|x r IH]; intros [|i] w H; cbn [length] in H; try lia; cbn [upd zeros nth].
  - lia.
  - specialize (IH i w ltac:(lia)). lia.
Qed.

Lemma top_clear_raw t : bytes t -> top_clear t -> decode32 t = raw32 t.
Proof.
  intros Hb H. rewrite decode32_raw by assumption. unfold top_clear in H.
  induction H as [|x r Hx Hr IH]; [reflexivity|]. cbn [map]. f_equal; [unfold val28; lia|exact IH].
Qed.

Definition info_ok (t0 : list N) (i : info) : Prop :=
  match i with None => True | Some (fr, _) => fr = free_entries t0 end.

Lemma len32_raw t : len32 t = N.of_nat (length (raw32 t)).
Proof. unfold len32. rewrite len_raw32. reflexivity. Qed.

Lemma Forall_nth_lt (P : N -> Prop) l i : Forall P l -> (i < length l)%nat -> P (nth i l 0).
Proof.
  intros H. revert i; induction H as [|x r Hx Hr IH]; intros [|i] Hi; cbn in *; try lia; auto.
  apply IH. lia.
Qed.

(* one successful set on copy 0 keeps the invariant *)
Lemma info_step_ok t n v t' i :
  bytes t -> top_clear t -> info_ok t i -> set32 t n v = Ok t' ->
  top_clear t' /\ info_ok t' (info_step (len32 t) n (word32 t (4 * n)) v i).
Proof.
  intros Hb Ht Hi H. pose proof (set32_raw _ _ _ _ Hb H) as Hr.
  pose proof (set32_bytes_bounded _ _ _ _ Hb H) as Hb'.
  apply set32_inv in H as (Hv & Hn & _).
  pose proof (proj1 (in32_raw t n) Hn) as Hlt.
  pose proof (Forall_nth_lt _ _ _ Ht Hlt) as Hold. cbv beta in Hold.
  rewrite <- raw32_entry by assumption.
  set (old := nth (N.to_nat n) (raw32 t) 0) in *.
  replace (old / 268435456 * 268435456 + v) with v in Hr by lia.
  assert (Ht' : top_clear t').
  { unfold top_clear. rewrite Hr. apply Forall_upd; assumption. }
  split; [exact Ht'|].
  destruct i as [[fr la]|]; [|unfold info_step; destruct (_ && _); [|destruct (_ && _)]; exact I].
  unfold info_ok, free_entries in *. rewrite top_clear_raw in * by assumption.
  pose proof (zeros_upd (raw32 t) (N.to_nat n) v Hlt) as Hz. fold old in Hz. rewrite <- Hr in Hz.
  pose proof (zeros_le (raw32 t)) as Hle. pose proof (zeros_le (raw32 t')) as Hle'.
  assert (length (raw32 t') = length (raw32 t)) as Hlen by (rewrite Hr; apply length_upd).
  rewrite Hlen in Hle'. rewrite len32_raw.
  unfold info_step, alloc, dealloc, isz in *.
  destruct (N.eqb_spec old 0) as [Eo|Eo]; destruct (N.eqb_spec v 0) as [Ev|Ev]; cbn [negb andb].
  - lia.
  - replace ((0 <? fr) && (fr <=? N.of_nat (length (raw32 t)))) with true by lia. lia.
  - replace ((0 <=? fr) && (fr <? N.of_nat (length (raw32 t)))) with true by lia. lia.
  - lia.
Qed.

(* ---------------- sequences of operations ---------------- *)
Definition state := (list (list N) * info)%type.
(* an operation that raises leaves the state as it was (no write precedes the checks) *)
Definition step (st : state) (op : N * N) : state :=
  match set_all32 (fst st) (snd st) (fst op) (snd op) with Ok st' => st' | Err _ => st end.
Definition run (ops : list (N * N)) (st : state) : state := fold_left step ops st.

Definition inv (st : state) : Prop :=
  exists t0 rest, fst st = t0 :: rest /\ same_len t0 rest /\
                  bytes t0 /\ top_clear t0 /\ info_ok t0 (snd st).

Lemma same_len_map t0 rest f :
  (forall t, lenN (f t) = lenN t) -> same_len t0 rest -> same_len (f t0) (map f rest).
Proof.
  intros Hf Hs t Ht. apply in_map_iff in Ht as (u & <- & Hu). rewrite !Hf. apply Hs. exact Hu.
Qed.

Lemma step_inv st op : inv st -> inv (step st op).
Proof.
  intros (t0 & rest & E & Hs & Hb & Ht & Hi). unfold step. destruct st as [ts i]. cbn [fst snd] in *.
  subst ts. destruct op as [n v]. cbn [fst snd].
  destruct (set_all32 (t0 :: rest) i n v) as [[ts' i']|e] eqn:H.
  2:{ exists t0, rest. auto. }
  pose proof (set_all32_from_copy0 _ _ _ _ _ _ _ Hs H) as (Hv & Hn & -> & ->).
  pose proof (set32_ok t0 n v Hv Hn) as H0.
  pose proof (info_step_ok _ _ _ _ i Hb Ht Hi H0) as (Ht' & Hi').
  cbn [map]. eexists _, _. cbn [fst snd]. split; [reflexivity|].
  repeat split; try assumption.
  - apply (same_len_map t0 rest (fun t => put32 t (4 * n) (new32 (word32 t0 (4 * n)) v)));
    [intros; apply lenN_put32|assumption].
  - apply bytes_put32. assumption.
Qed.

Theorem run_inv ops st : inv st -> inv (run ops st).
Proof.
  revert st; induction ops as [|op ops IH]; intros st H; [exact H|]. apply IH, step_inv, H.
Qed.

Lemma info_step_some len n old v x : exists y, info_step len n old v (Some x) = Some y.
Proof.
  destruct x as [f l]. unfold info_step, alloc, dealloc.
  destruct (_ && _); [destruct (_ && _); eauto|]. destruct (_ && _); [destruct (_ && _); eauto|eauto].
Qed.
Lemma step_some st op : (exists x, snd st = Some x) -> exists x, snd (step st op) = Some x.
Proof.
  destruct st as [ts i]. intros [x Hx]. cbn [snd] in Hx. subst i. unfold step. cbn [fst snd].
  destruct (set_all32 _ _ _ _) as [[ts' i']|e] eqn:E; [|cbn [snd]; eauto].
  unfold set_all32 in E.
  destruct (_ <? _); [discriminate|]. destruct (copy0 _) as [t0|]; [|discriminate].
  cbn [bind] in E. destruct (rdI _ _) as [old|]; [|discriminate]. cbn [bind] in E.
  destruct (mapM _ _); [|discriminate]. cbn [bind] in E. inversion E. cbn [snd].
  apply info_step_some.
Qed.
Lemma run_some ops : forall st, (exists x, snd st = Some x) -> exists x, snd (run ops st) = Some x.
Proof.
  induction ops as [|op ops IH]; intros st H; [exact H|]. apply IH, step_some, H.
Qed.

(* the headline: along ANY sequence of sets (failing ones included), the recorded free
   count equals the number of entries of copy 0 that read 0 *)
Theorem alloc_dealloc_count ops t0 rest fr la :
  same_len t0 rest -> bytes t0 -> top_clear t0 -> fr = free_entries t0 ->
  match run ops (t0 :: rest, Some (fr, la)) with
  | (t0' :: _, Some (fr', _)) => fr' = free_entries t0' /\ fr' <= len32 t0'
  | _ => False
  end.
Proof.
  intros Hs Hb Ht Hf.
  assert (Hinv : inv (t0 :: rest, Some (fr, la))) by (exists t0, rest; cbn; auto).
  pose proof run_some as Hsome.
  pose proof (run_inv ops _ Hinv) as (t0' & rest' & E & _ & Hb' & Ht' & Hi').
  destruct (Hsome ops (t0 :: rest, Some (fr, la)) ltac:(cbn; eauto)) as [[f' l'] Hx].
  destruct (run ops (t0 :: rest, Some (fr, la))) as [ts i]. cbn [fst snd] in *. subst ts i.
  unfold info_ok in Hi'. split; [exact Hi'|].
  subst f'. unfold free_entries. rewrite top_clear_raw by assumption. rewrite len32_raw. apply zeros_le.
Qed.

(* ---------------- refuted stronger forms ---------------- *)
(* 1. without [top_clear]: the code tests the RAW old word.  Entry 0 reads 0 (free) but has a
      reserved bit set; allocating it does not decrement the count *)
Example count_wrong_with_reserved_bits :
  let t := [0; 0; 0; 0x10] in
  free_entries t = 1 /\
  exists t', set_all32 [t] (Some (1, 0)) 0 5 = Ok ([t'], Some (1, 0)) /\ free_entries t' = 0.
Proof. vm_compute. split; [reflexivity|]. eexists. split; reflexivity. Qed.
(*    ... and "freeing" the already-free entry increments it *)
Example count_wrong_with_reserved_bits_dealloc :
  let t := [0; 0; 0; 0x10; 7; 0; 0; 0] in
  free_entries t = 1 /\
  exists t', set_all32 [t] (Some (1, 0)) 0 0 = Ok ([t'], Some (2, 0)) /\ free_entries t' = 1.
Proof. vm_compute. split; [reflexivity|]. eexists. split; reflexivity. Qed.
(* 2. a recorded count that is wrong is not "corrected by the same offset": the guards clamp.
      Two free entries recorded as 0: an allocation leaves 0 (error -2 becomes -1) *)
Example count_offset_not_preserved :
  let t := [0; 0; 0; 0; 0; 0; 0; 0] in
  exists t', set_all32 [t] (Some (0, 9)) 0 5 = Ok ([t'], Some (0, 9)) /\ free_entries t' = 1.
Proof. vm_compute. eexists. split; reflexivity. Qed.
(* 3. the "unknown" marker 0xFFFFFFFF (or any count above len) is never touched *)
Example count_unknown_stays :
  let t := [0; 0; 0; 0; 3; 0; 0; 0] in
  exists t1 t2, set_all32 [t] (Some (0xFFFFFFFF, 9)) 0 5 = Ok ([t1], Some (0xFFFFFFFF, 9)) /\
                set_all32 [t1] (Some (0xFFFFFFFF, 9)) 1 0 = Ok ([t2], Some (0xFFFFFFFF, 9)).
Proof. vm_compute. do 2 eexists. split; reflexivity. Qed.
