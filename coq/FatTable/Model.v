(* Model ON BYTES of nobodd/fs.py Fat12Table / Fat16Table / Fat32Table
   (__getitem__, __setitem__, get_all, mark_free, mark_end, Fat32Table._alloc/_dealloc),
   FatTable.chain and FatClusters.__getitem__.
   A FAT copy is a [list N] of bytes; the table is the list of copies
   ( mem[offset:offset+fat_size] for offset in range(0, len(mem), fat_size) ).
   Executable definitions only; proofs are in Proofs*.v.
   Not modelled: negative (from-the-end) indices; copies of unequal length (the last
   slice is shorter only when len(mem) is not a multiple of fat_size, which the file
   system never produces); the TypeError of memoryview.cast for a length that is not a
   multiple of the item size. *)
From Coq Require Import List NArith ZArith Bool.
From NV Require Import Lib.Res Gen.Fat.
Import ListNotations.
Open Scope N_scope.

Definition lenN (l : list N) : N := N.of_nat (length l).
Definition nthN (l : list N) (i : N) : N := nth (N.to_nat i) l 0.

(* buffer[i] = x  (no effect outside the buffer; callers check bounds first) *)
Fixpoint upd (l : list N) (i : nat) (x : N) : list N :=
  match l, i with
  | [], _ => []
  | _ :: r, O => x :: r
  | y :: r, S j => y :: upd r j x
  end.
Definition updN (l : list N) (i x : N) : list N := upd l (N.to_nat i) x.

Fixpoint mapM {A B} (f : A -> res B) (l : list A) : res (list B) :=
  match l with
  | [] => Ok []
  | x :: r => do y <- f x; do ys <- mapM f r; Ok (y :: ys)
  end.

(* ---- little-endian words in a buffer ---- *)
(* struct.unpack_from('<H', t, off): struct.error (-> IndexError) when off+2 > len *)
Definition word16 (t : list N) (off : N) : N := nthN t off + 256 * nthN t (off + 1).
Definition rd16 (t : list N) (off : N) : res N :=
  if off + 2 <=? lenN t then Ok (word16 t off) else Err IndexError.
(* struct.pack_into('<H', t, off, w) *)
Definition put16 (t : list N) (off w : N) : list N :=
  updN (updN t off (w mod 256)) (off + 1) (w / 256 mod 256).
Definition wr16 (t : list N) (off w : N) : res (list N) :=
  if off + 2 <=? lenN t then Ok (put16 t off w) else Err IndexError.

Definition word32 (t : list N) (off : N) : N :=
  nthN t off + 256 * nthN t (off + 1) + 65536 * nthN t (off + 2) + 16777216 * nthN t (off + 3).
Definition put32 (t : list N) (off w : N) : list N :=
  updN (updN (updN (updN t off (w mod 256)) (off + 1) (w / 256 mod 256))
             (off + 2) (w / 65536 mod 256)) (off + 3) (w / 16777216 mod 256).

(* memoryview.cast('H')[n] / .cast('I')[n]: IndexError when n >= len // itemsize *)
Definition rdH (t : list N) (n : N) : res N :=
  if 2 * n + 2 <=? lenN t then Ok (word16 t (2 * n)) else Err IndexError.
Definition wrH (t : list N) (n w : N) : res (list N) :=
  if 2 * n + 2 <=? lenN t then Ok (put16 t (2 * n) w) else Err IndexError.
Definition rdI (t : list N) (n : N) : res N :=
  if 4 * n + 4 <=? lenN t then Ok (word32 t (4 * n)) else Err IndexError.
Definition wrI (t : list N) (n w : N) : res (list N) :=
  if 4 * n + 4 <=? lenN t then Ok (put32 t (4 * n) w) else Err IndexError.

(* self._tables[0] : IndexError on an empty tuple *)
Definition copy0 (ts : list (list N)) : res (list N) :=
  match ts with [] => Err IndexError | t :: _ => Ok t end.

(* ---------------- FAT12 ---------------- *)
Definition off12 (n : N) : N := n + N.shiftr n 1.

Definition get12 (t : list N) (n : N) : res N :=
  do w <- rd16 t (off12 n);
  Ok (if N.odd n then N.shiftr w 4 else N.land w 0xFFF).

(* the 16-bit word written by __setitem__, from the word read in copy 0 *)
Definition new12 (n old v : N) : N :=
  if N.odd n then N.lor (N.shiftl v 4) (N.land old 0xF)
  else N.lor v (N.land old 0xF000).

(* write into [t] the value computed from the old word of [src] *)
Definition set12_from (src t : list N) (n v : N) : res (list N) :=
  do old <- rd16 src (off12 n);
  wr16 t (off12 n) (new12 n old v).
Definition set12 (t : list N) (n v : N) : res (list N) :=
  if 0xFFF <? v then Err ValueError else set12_from t t n v.
Definition set_all12 (ts : list (list N)) (n v : N) : res (list (list N)) :=
  if 0xFFF <? v then Err ValueError else
  do t0 <- copy0 ts;
  do old <- rd16 t0 (off12 n);
  mapM (fun t => wr16 t (off12 n) (new12 n old v)) ts.
Definition get_all12 (ts : list (list N)) (n : N) : res (list N) :=
  mapM (fun t => get12 t n) ts.

(* ---------------- FAT16 ---------------- *)
Definition get16 (t : list N) (n : N) : res N := rdH t n.
Definition set16 (t : list N) (n v : N) : res (list N) :=
  if 0xFFFF <? v then Err ValueError else wrH t n v.
Definition set_all16 (ts : list (list N)) (n v : N) : res (list (list N)) :=
  if 0xFFFF <? v then Err ValueError else mapM (fun t => wrH t n v) ts.
Definition get_all16 (ts : list (list N)) (n : N) : res (list N) :=
  mapM (fun t => get16 t n) ts.

(* ---------------- FAT32 ---------------- *)
Definition get32 (t : list N) (n : N) : res N :=
  do w <- rdI t n; Ok (N.land w 0x0FFFFFFF).
Definition new32 (old v : N) : N :=
  N.lor (N.land old 0xF0000000) (N.land v 0x0FFFFFFF).
Definition set32_from (src t : list N) (n v : N) : res (list N) :=
  do old <- rdI src n; wrI t n (new32 old v).
Definition set32 (t : list N) (n v : N) : res (list N) :=
  if 0x0FFFFFFF <? v then Err ValueError else set32_from t t n v.
Definition get_all32 (ts : list (list N)) (n : N) : res (list N) :=
  mapM (fun t => get32 t n) ts.

(* FSInfo sector fields (free_clusters, last_alloc); None = no valid info sector *)
Definition info := option (N * N).
Definition len32 (t : list N) : N := lenN t / 4.        (* len(self) *)
Definition alloc (len cluster : N) (i : info) : info :=
  match i with
  | None => None
  | Some (fr, la) => if (0 <? fr) && (fr <=? len) then Some (fr - 1, cluster) else Some (fr, la)
  end.
Definition dealloc (len : N) (i : info) : info :=
  match i with
  | None => None
  | Some (fr, la) => if (0 <=? fr) && (fr <? len) then Some (fr + 1, la) else Some (fr, la)
  end.
(* the bookkeeping branch of __setitem__; [old] is the RAW 32-bit word of copy 0 *)
Definition info_step (len n old v : N) (i : info) : info :=
  if (old =? 0) && negb (v =? 0) then alloc len n i
  else if negb (old =? 0) && (v =? 0) then dealloc len i
  else i.

Definition set_all32 (ts : list (list N)) (i : info) (n v : N)
  : res (list (list N) * info) :=
  if 0x0FFFFFFF <? v then Err ValueError else
  do t0 <- copy0 ts;
  do old <- rdI t0 n;
  let i' := info_step (len32 t0) n old v i in
  do ts' <- mapM (fun t => wrI t n (new32 old v)) ts;
  Ok (ts', i').

(* ---------------- width-generic front ---------------- *)
Definition get (bits : N) (t : list N) (n : N) : res N :=
  if bits =? 12 then get12 t n else if bits =? 16 then get16 t n else get32 t n.
Definition set (bits : N) (t : list N) (n v : N) : res (list N) :=
  if bits =? 12 then set12 t n v else if bits =? 16 then set16 t n v else set32 t n v.
Definition set_all (bits : N) (ts : list (list N)) (n v : N) : res (list (list N)) :=
  if bits =? 12 then set_all12 ts n v else if bits =? 16 then set_all16 ts n v
  else do x <- set_all32 ts None n v; Ok (fst x).
Definition get_all (bits : N) (ts : list (list N)) (n : N) : res (list N) :=
  if bits =? 12 then get_all12 ts n else if bits =? 16 then get_all16 ts n else get_all32 ts n.
(* table[cluster] : first copy *)
Definition getitem (bits : N) (ts : list (list N)) (n : N) : res N :=
  do t0 <- copy0 ts; get bits t0 n.

Definition min_valid (bits : N) : N :=
  if bits =? 12 then fat12_min_valid else if bits =? 16 then fat16_min_valid else fat32_min_valid.
Definition max_valid (bits : N) : N :=
  if bits =? 12 then fat12_max_valid else if bits =? 16 then fat16_max_valid else fat32_max_valid.
Definition end_mark (bits : N) : N :=
  if bits =? 12 then fat12_end_mark else if bits =? 16 then fat16_end_mark else fat32_end_mark.

Definition mark_free (bits : N) (t : list N) (n : N) : res (list N) := set bits t n 0.
Definition mark_end (bits : N) (t : list N) (n : N) : res (list N) := set bits t n (end_mark bits).

(* a value coming from Python may be negative: "if not 0 <= value <= MAX: ValueError" *)
Definition set_allZ (bits : N) (ts : list (list N)) (n : N) (v : Z) : res (list (list N)) :=
  if (v <? 0)%Z then Err ValueError else set_all bits ts n (Z.to_N v).
Definition set_all32Z (ts : list (list N)) (i : info) (n : N) (v : Z) :=
  if (v <? 0)%Z then Err ValueError else set_all32 ts i n (Z.to_N v).

(* ---------------- FatTable.chain ---------------- *)
(* yielded clusters and how the generator stopped: None = StopIteration, Some e = raised e.
   The link is read BEFORE the cluster is yielded, so a failing read yields nothing more. *)
Fixpoint chain_model (fuel : nat) (get : N -> res N) (minv maxv : N) (c : N)
  : list N * option exn :=
  match fuel with
  | O => ([], Some OutOfFuel)
  | S f =>
    if (minv <=? c) && (c <=? maxv) then
      match get c with
      | Err e => ([], Some e)
      | Ok nx => let r := chain_model f get minv maxv nx in (c :: fst r, snd r)
      end
    else ([], None)
  end.
Definition chain (bits : N) (fuel : nat) (t : list N) (start : N) :=
  chain_model fuel (get bits t) (min_valid bits) (max_valid bits) start.

(* ---------------- FatClusters.__getitem__ ---------------- *)
Definition clusters_len (mem : list N) (cs : N) : N := lenN mem / cs.
Definition clusters_get (mem : list N) (cs c : N) : res (list N) :=
  if (2 <=? c) && (c <? clusters_len mem cs + 2)
  then Ok (firstn (N.to_nat cs) (skipn (N.to_nat ((c - 2) * cs)) mem))
  else Err IndexError.

(* mem -> tuple of copies *)
Fixpoint split_copies (k size : nat) (l : list N) : list (list N) :=
  match k with
  | O => []
  | S k' => firstn size l :: split_copies k' size (skipn size l)
  end.
Definition copies_of (nfats : N) (mem : list N) : list (list N) :=
  if nfats =? 0 then []
  else split_copies (N.to_nat nfats) (N.to_nat (lenN mem / nfats)) mem.
