(* Base lemmas for the FAT table proofs: bit operations as div/mod arithmetic,
   functional buffer update, induction on buffers by several bytes at a time. *)
From Coq Require Import List NArith ZArith Bool Lia Arith.
Require Import ZifyN ZifyNat ZifyBool.
From NV Require Import Lib.Res Gen.Fat FatTable.Model.
Import ListNotations.
Open Scope N_scope.
Ltac Zify.zify_post_hook ::= Z.div_mod_to_equations.

Definition bytes (t : list N) : Prop := Forall (fun b => b < 256) t.

(* ---------------- bit operations ---------------- *)
Lemma land_shifted_ones a n m :
  N.land a (N.shiftl (N.ones m) n) = N.shiftl (N.land (N.shiftr a n) (N.ones m)) n.
Proof.
  apply N.bits_inj; intro k. rewrite N.land_spec.
  destruct (N.ltb_spec k n) as [H|H].
  - rewrite !N.shiftl_spec_low by assumption. apply andb_false_r.
  - rewrite !N.shiftl_spec_high' by assumption.
    rewrite N.land_spec, N.shiftr_spec'.
    replace (k - n + n) with k by lia. reflexivity.
Qed.

Lemma land_high_mask a n m :
  N.land a (N.shiftl (N.ones m) n) = (a / 2 ^ n mod 2 ^ m) * 2 ^ n.
Proof.
  rewrite land_shifted_ones, N.shiftl_mul_pow2, N.land_ones, N.shiftr_div_pow2. reflexivity.
Qed.

Lemma lor_shiftl_add a b n : a < 2 ^ n -> N.lor (N.shiftl b n) a = b * 2 ^ n + a.
Proof.
  intros Ha. rewrite <- N.shiftl_mul_pow2.
  assert (E : N.land (N.shiftl b n) a = 0).
  { apply N.bits_inj; intro k. rewrite N.land_spec, N.bits_0.
    destruct (N.ltb_spec k n) as [H|H].
    - rewrite N.shiftl_spec_low by assumption. reflexivity.
    - rewrite <- (N.mod_small a (2 ^ n)) by assumption.
      rewrite N.mod_pow2_bits_high by assumption. apply andb_false_r. }
  rewrite <- N.lxor_lor by assumption. symmetry. apply N.add_nocarry_lxor. assumption.
Qed.

Lemma odd_mod2 n : N.odd n = (n mod 2 =? 1).
Proof.
  rewrite <- N.bit0_odd. pose proof (N.bit0_mod n) as H.
  destruct (N.testbit n 0); cbn in H; rewrite <- H; reflexivity.
Qed.

Lemma shiftr1 n : N.shiftr n 1 = n / 2.
Proof. rewrite N.shiftr_div_pow2. reflexivity. Qed.
Lemma off12_eq n : off12 n = n + n / 2.
Proof. unfold off12. rewrite shiftr1. reflexivity. Qed.

Lemma shiftr4 w : N.shiftr w 4 = w / 16.
Proof. rewrite N.shiftr_div_pow2. reflexivity. Qed.
Lemma land_fff w : N.land w 0xFFF = w mod 4096.
Proof. change 0xFFF with (N.ones 12). rewrite N.land_ones. reflexivity. Qed.
Lemma land_f w : N.land w 0xF = w mod 16.
Proof. change 0xF with (N.ones 4). rewrite N.land_ones. reflexivity. Qed.
Lemma land_f000 w : N.land w 0xF000 = (w / 4096 mod 16) * 4096.
Proof. change 0xF000 with (N.shiftl (N.ones 4) 12). rewrite land_high_mask. reflexivity. Qed.
Lemma land_28 w : N.land w 0x0FFFFFFF = w mod 268435456.
Proof. change 0x0FFFFFFF with (N.ones 28). rewrite N.land_ones. reflexivity. Qed.
Lemma land_top4 w : N.land w 0xF0000000 = (w / 268435456 mod 16) * 268435456.
Proof. change 0xF0000000 with (N.shiftl (N.ones 4) 28). rewrite land_high_mask. reflexivity. Qed.

Lemma new12_odd n old v : N.odd n = true -> new12 n old v = v * 16 + old mod 16.
Proof.
  intros H. unfold new12. rewrite H, land_f.
  rewrite (lor_shiftl_add (old mod 16) v 4); [reflexivity|]. change (2 ^ 4) with 16. lia.
Qed.
Lemma new12_even n old v :
  N.odd n = false -> v < 4096 -> new12 n old v = (old / 4096 mod 16) * 4096 + v.
Proof.
  intros H Hv. unfold new12. rewrite H, land_f000, N.lor_comm.
  change 4096 with (2 ^ 12) at 2. rewrite <- N.shiftl_mul_pow2.
  rewrite lor_shiftl_add by exact Hv. reflexivity.
Qed.
Lemma new32_eq old v :
  v < 268435456 -> new32 old v = (old / 268435456 mod 16) * 268435456 + v.
Proof.
  intros Hv. unfold new32. rewrite land_top4, land_28, (N.mod_small v) by exact Hv.
  change 268435456 with (2 ^ 28) at 2. rewrite <- N.shiftl_mul_pow2.
  rewrite lor_shiftl_add by exact Hv. reflexivity.
Qed.

(* ---------------- buffers ---------------- *)
Lemma length_upd l i x : length (upd l i x) = length l.
Proof. revert i; induction l as [|y r IH]; intros [|i]; cbn; auto. Qed.
Lemma lenN_updN l i x : lenN (updN l i x) = lenN l.
Proof. unfold lenN, updN. rewrite length_upd. reflexivity. Qed.

Lemma nth_upd_same l i x d : (i < length l)%nat -> nth i (upd l i x) d = x.
Proof.
  revert i; induction l as [|y r IH]; intros [|i] H; cbn in *; try lia; auto.
  apply IH. lia.
Qed.
Lemma nth_upd_other l i j x d : i <> j -> nth j (upd l i x) d = nth j l d.
Proof.
  revert i j; induction l as [|y r IH]; intros [|i] [|j] H; cbn; auto; try congruence.
Qed.
Lemma nthN_updN_same l i x : i < lenN l -> nthN (updN l i x) i = x.
Proof. intros H. unfold nthN, updN. apply nth_upd_same. unfold lenN in H. lia. Qed.
Lemma nthN_updN_other l i j x : i <> j -> nthN (updN l i x) j = nthN l j.
Proof. intros H. unfold nthN, updN. apply nth_upd_other. lia. Qed.

Lemma Forall_upd (P : N -> Prop) l i x : Forall P l -> P x -> Forall P (upd l i x).
Proof.
  intros Hl Hx. revert i; induction Hl as [|y r Hy Hr IH]; intros [|i]; cbn; auto.
Qed.
Lemma bytes_updN l i x : bytes l -> x < 256 -> bytes (updN l i x).
Proof. intros. apply Forall_upd; assumption. Qed.

Lemma bytes_nthN t i : bytes t -> nthN t i < 256.
Proof.
  intros H. unfold nthN. generalize (N.to_nat i) as k.
  induction H as [|y r Hy Hr IH]; intros [|k]; cbn; try lia; auto.
Qed.

Lemma upd_upd_comm l i j x y : i <> j -> upd (upd l i x) j y = upd (upd l j y) i x.
Proof.
  revert i j; induction l as [|a r IH]; intros [|i] [|j] H; cbn; auto; try congruence.
  f_equal. apply IH. congruence.
Qed.

Lemma nthN_cons_S a l i : nthN (a :: l) (i + 1) = nthN l i.
Proof. unfold nthN. replace (N.to_nat (i + 1)) with (S (N.to_nat i)) by lia. reflexivity. Qed.
Lemma nthN_cons_0 a l : nthN (a :: l) 0 = a.
Proof. reflexivity. Qed.
Lemma updN_cons_S a l i x : updN (a :: l) (i + 1) x = a :: updN l i x.
Proof. unfold updN. replace (N.to_nat (i + 1)) with (S (N.to_nat i)) by lia. reflexivity. Qed.
Lemma updN_cons_0 a l x : updN (a :: l) 0 x = x :: l.
Proof. reflexivity. Qed.
Lemma lenN_cons a (l : list N) : lenN (a :: l) = lenN l + 1.
Proof. unfold lenN. cbn [length]. lia. Qed.
Lemma lenN_nil : lenN [] = 0.
Proof. reflexivity. Qed.

(* words shift with the buffer *)
Lemma word16_cons a l off : word16 (a :: l) (off + 1) = word16 l off.
Proof. unfold word16. rewrite !nthN_cons_S. reflexivity. Qed.
Lemma put16_cons a l off w : put16 (a :: l) (off + 1) w = a :: put16 l off w.
Proof. unfold put16. rewrite !updN_cons_S. reflexivity. Qed.
Lemma word32_cons a l off : word32 (a :: l) (off + 1) = word32 l off.
Proof.
  unfold word32. replace (off + 1 + 2) with (off + 2 + 1) by lia.
  replace (off + 1 + 3) with (off + 3 + 1) by lia. rewrite !nthN_cons_S. reflexivity.
Qed.
Lemma put32_cons a l off w : put32 (a :: l) (off + 1) w = a :: put32 l off w.
Proof.
  unfold put32. replace (off + 1 + 2) with (off + 2 + 1) by lia.
  replace (off + 1 + 3) with (off + 3 + 1) by lia. rewrite !updN_cons_S. reflexivity.
Qed.

Lemma lenN_put16 t off w : lenN (put16 t off w) = lenN t.
Proof. unfold put16. rewrite !lenN_updN. reflexivity. Qed.
Lemma lenN_put32 t off w : lenN (put32 t off w) = lenN t.
Proof. unfold put32. rewrite !lenN_updN. reflexivity. Qed.
Lemma bytes_put16 t off w : bytes t -> bytes (put16 t off w).
Proof. intros H. unfold put16. repeat apply bytes_updN; try assumption; lia. Qed.
Lemma bytes_put32 t off w : bytes t -> bytes (put32 t off w).
Proof. intros H. unfold put32. repeat apply bytes_updN; try assumption; lia. Qed.

Lemma word16_bound t off : bytes t -> word16 t off < 65536.
Proof.
  intros H. unfold word16.
  pose proof (bytes_nthN t off H). pose proof (bytes_nthN t (off + 1) H). lia.
Qed.
Lemma word32_bound t off : bytes t -> word32 t off < 4294967296.
Proof.
  intros H. unfold word32.
  pose proof (bytes_nthN t off H). pose proof (bytes_nthN t (off + 1) H).
  pose proof (bytes_nthN t (off + 2) H). pose proof (bytes_nthN t (off + 3) H). lia.
Qed.

(* reading back a word that was just written, and words elsewhere *)
Lemma word16_put16_same t off w :
  off + 2 <= lenN t -> w < 65536 -> word16 (put16 t off w) off = w.
Proof.
  intros Hl Hw. unfold word16, put16.
  rewrite nthN_updN_other by lia. rewrite nthN_updN_same by lia.
  rewrite nthN_updN_same by (rewrite lenN_updN; lia). lia.
Qed.
Lemma nthN_put16_other t off w i : i <> off -> i <> off + 1 -> nthN (put16 t off w) i = nthN t i.
Proof. intros. unfold put16. rewrite !nthN_updN_other by lia. reflexivity. Qed.
Lemma word32_put32_same t off w :
  off + 4 <= lenN t -> w < 4294967296 -> word32 (put32 t off w) off = w.
Proof.
  intros Hl Hw. unfold word32, put32.
  rewrite (nthN_updN_other _ (off + 3) off), (nthN_updN_other _ (off + 2) off),
    (nthN_updN_other _ (off + 1) off) by lia.
  rewrite nthN_updN_same by lia.
  rewrite (nthN_updN_other _ (off + 3) (off + 1)), (nthN_updN_other _ (off + 2) (off + 1)) by lia.
  rewrite nthN_updN_same by (rewrite !lenN_updN; lia).
  rewrite (nthN_updN_other _ (off + 3) (off + 2)) by lia.
  rewrite nthN_updN_same by (rewrite !lenN_updN; lia).
  rewrite nthN_updN_same by (rewrite !lenN_updN; lia). lia.
Qed.
Lemma nthN_put32_other t off w i :
  i <> off -> i <> off + 1 -> i <> off + 2 -> i <> off + 3 -> nthN (put32 t off w) i = nthN t i.
Proof. intros. unfold put32. rewrite !nthN_updN_other by lia. reflexivity. Qed.

(* induction on the length, to peel several bytes at a time *)
Lemma list_len_ind (P : list N -> Prop) :
  (forall l, (forall r, (length r < length l)%nat -> P r) -> P l) -> forall l, P l.
Proof.
  intros H l. remember (length l) as k eqn:E. revert l E.
  induction k as [k IH] using lt_wf_ind. intros l ->. apply H. intros r Hr. eapply IH; eauto.
Qed.

Lemma N_cases2 n : n = 0 \/ n = 1 \/ exists m, n = m + 2.
Proof.
  destruct (N.eq_dec n 0); [auto|]. destruct (N.eq_dec n 1); [auto|].
  right; right. exists (n - 2). lia.
Qed.
Lemma N_cases1 n : n = 0 \/ exists m, n = m + 1.
Proof. destruct (N.eq_dec n 0); [auto|]. right. exists (n - 1). lia. Qed.

Lemma mapM_length {A B} (f : A -> res B) l r : mapM f l = Ok r -> length r = length l.
Proof.
  revert r; induction l as [|x l IH]; cbn; intros r H.
  - inversion H. reflexivity.
  - destruct (f x); cbn in H; [|discriminate]. destruct (mapM f l); cbn in H; [|discriminate].
    inversion H. cbn. f_equal. apply IH. reflexivity.
Qed.
