(* FAT table model: width-generic statements of the main theorems (the per-width ones
   are in ProofsGet / ProofsSet / ProofsSet32 / ProofsCopies / ProofsInfo). *)
From Coq Require Import List NArith ZArith Bool Lia Arith.
Require Import ZifyN ZifyNat ZifyBool.
From NV Require Import Lib.Res Gen.Fat Fat.Spec FatTable.Model.
From NV Require Export FatTable.ProofsBase FatTable.ProofsGet FatTable.ProofsSet FatTable.ProofsSet32
  FatTable.ProofsCopies FatTable.ProofsInfo.
Import ListNotations.
Open Scope N_scope.
Ltac Zify.zify_post_hook ::= Z.div_mod_to_equations.

(* [bits] = 12, 16, anything else = 32 (as in [Model.get]) *)
Definition in_range (bits : N) (t : list N) (n : N) : Prop :=
  if bits =? 12 then in12 t n else if bits =? 16 then in16 t n else in32 t n.
Definition max_value (bits : N) : N :=
  if bits =? 12 then 0xFFF else if bits =? 16 then 0xFFFF else 0x0FFFFFFF.

Ltac by_bits bits :=
  unfold get, set, in_range, max_value, decode_fat in *;
  destruct (bits =? 12); [|destruct (bits =? 16)].

(* get = entry of the specification-level decoding, exactly on the index range *)
Theorem get_spec bits t n : bytes t -> in_range bits t n ->
  get bits t n = Ok (nth (N.to_nat n) (decode_fat bits t) 0).
Proof.
  intros Hb Hn. by_bits bits;
    [apply get12_spec|apply get16_spec|apply get32_spec]; assumption.
Qed.
Theorem get_index_error bits t n : ~ in_range bits t n -> get bits t n = Err IndexError.
Proof.
  intros Hn. by_bits bits;
    [apply get12_index_error|apply get16_index_error|apply get32_index_error]; assumption.
Qed.
Theorem in_range_iff bits t n :
  in_range bits t n <-> (N.to_nat n < length (decode_fat bits t))%nat.
Proof. by_bits bits; [apply in12_iff|apply in16_iff|apply in32_iff]. Qed.

(* when does set succeed, and with which exception does it fail *)
Theorem set_outcome bits t n v :
  (max_value bits < v -> set bits t n v = Err ValueError) /\
  (v <= max_value bits -> ~ in_range bits t n -> set bits t n v = Err IndexError) /\
  (v <= max_value bits -> in_range bits t n -> exists t', set bits t n v = Ok t').
Proof.
  by_bits bits; repeat split; intros.
  - apply set12_value_error; lia.
  - apply set12_index_error; [lia|assumption].
  - eexists; apply set12_ok; [lia|assumption].
  - apply set16_value_error; lia.
  - apply set16_index_error; [lia|assumption].
  - eexists; apply set16_ok; [lia|assumption].
  - apply set32_value_error; lia.
  - apply set32_index_error; [lia|assumption].
  - eexists; apply set32_ok; [lia|assumption].
Qed.

Theorem set_decode bits t n v t' : bytes t -> set bits t n v = Ok t' ->
  decode_fat bits t' = upd (decode_fat bits t) (N.to_nat n) v.
Proof.
  intros Hb H. by_bits bits;
    [eapply set12_decode|eapply set16_decode|eapply set32_decode]; eassumption.
Qed.
Theorem set_get_same bits t n v t' : bytes t -> set bits t n v = Ok t' -> get bits t' n = Ok v.
Proof.
  intros Hb H. by_bits bits;
    [eapply set12_get_same|eapply set16_get_same|eapply set32_get_same]; eassumption.
Qed.
Theorem set_get_other bits t n v t' j : bytes t -> set bits t n v = Ok t' -> j <> n ->
  get bits t' j = get bits t j.
Proof.
  intros Hb H Hj. by_bits bits;
    [eapply set12_get_other|eapply set16_get_other|eapply set32_get_other]; eassumption.
Qed.
Theorem set_length bits t n v t' : set bits t n v = Ok t' -> length t' = length t.
Proof.
  intros H. by_bits bits; [eapply set12_length|eapply set16_length|eapply set32_length]; eassumption.
Qed.
Theorem set_bytes_bounded bits t n v t' : bytes t -> set bits t n v = Ok t' -> bytes t'.
Proof.
  intros Hb H. by_bits bits;
    [eapply set12_bytes_bounded|eapply set16_bytes_bounded|eapply set32_bytes_bounded]; eassumption.
Qed.

(* all copies equal before: the outcome is that of the single-copy set, replicated *)
Theorem set_all_copies bits t n v k :
  set_all bits (repeat t (S k)) n v = do t' <- set bits t n v; Ok (repeat t' (S k)).
Proof.
  unfold set_all, set. destruct (bits =? 12); [apply set_all12_copies|].
  destruct (bits =? 16); [apply set_all16_copies|].
  rewrite set_all32_copies. destruct (set32 t n v); reflexivity.
Qed.

(* ---------------- mark_end / mark_free / chain ---------------- *)
Theorem mark_end_terminates bits t c t' fuel : bytes t -> mark_end bits t c = Ok t' ->
  min_valid bits <= c <= max_valid bits ->
  chain bits (S (S fuel)) t' c = ([c], None).
Proof.
  intros Hb H Hc. unfold chain, mark_end in *.
  apply chain_stops_at_end with (e := end_mark bits);
    [assumption|eapply set_get_same; eassumption|apply end_above_max].
Qed.
Theorem mark_free_reads_zero bits t c t' : bytes t -> mark_free bits t c = Ok t' ->
  get bits t' c = Ok 0.
Proof. intros Hb H. eapply set_get_same; eassumption. Qed.
Theorem chain_within_valid bits fuel t c :
  Forall (fun x => min_valid bits <= x <= max_valid bits) (fst (chain bits fuel t c)).
Proof. apply chain_in_range. Qed.
Theorem chain_outside_valid bits fuel t c :
  ~ (min_valid bits <= c <= max_valid bits) -> chain bits (S fuel) t c = ([], None).
Proof. apply chain_outside. Qed.

(* ---------------- FatClusters.__getitem__ ---------------- *)
Theorem clusters_get_ok mem cs c : 0 < cs -> 2 <= c < clusters_len mem cs + 2 ->
  clusters_get mem cs c = Ok (slice ((c - 2) * cs) cs mem) /\
  (c - 2) * cs + cs <= lenN mem /\
  lenN (slice ((c - 2) * cs) cs mem) = cs.
Proof.
  unfold clusters_len. intros Hcs Hc.
  assert (Hb : (c - 2) * cs + cs <= lenN mem).
  { assert ((c - 2 + 1) * cs <= lenN mem / cs * cs) by (apply N.mul_le_mono_r; lia).
    pose proof (N.mul_div_le (lenN mem) cs ltac:(lia)). rewrite N.mul_add_distr_r in H. lia. }
  split; [|split; [exact Hb|]].
  - unfold clusters_get, clusters_len, slice.
    replace ((2 <=? c) && (c <? lenN mem / cs + 2)) with true by lia. reflexivity.
  - unfold slice, lenN in *. rewrite firstn_length, skipn_length. lia.
Qed.
Theorem clusters_get_index_error mem cs c :
  ~ (2 <= c < clusters_len mem cs + 2) -> clusters_get mem cs c = Err IndexError.
Proof.
  intros H. unfold clusters_get.
  replace ((2 <=? c) && (c <? clusters_len mem cs + 2)) with false by lia. reflexivity.
Qed.

(* non-vacuity: a 5-byte FAT12 table (3 entries, entry 2 straddles into the odd tail) *)
Example fat12_odd_length :
  let t := [0xF8; 0xFF; 0xFF; 0x34; 0x12] in
  decode12 t = [0xFF8; 0xFFF; 0x234] /\ get12 t 2 = Ok 0x234 /\ get12 t 3 = Err IndexError /\
  set12 t 1 0xABC = Ok [0xF8; 0xCF; 0xAB; 0x34; 0x12].
Proof. vm_compute. repeat split. Qed.

Print Assumptions get_spec.
Print Assumptions set_get_same.
Print Assumptions set_get_other.
Print Assumptions set32_top_bits.
Print Assumptions set_all_copies.
Print Assumptions set_all12_from_copy0.
Print Assumptions mark_end_terminates.
Print Assumptions alloc_dealloc_count.
Print Assumptions clusters_get_ok.
