From Coq Require Import List NArith ZArith String.
From NV Require Import Lib.Val Lib.Res Lib.Wire FatTable.Model.
Import ListNotations.
Open Scope string_scope.

Definition get_info (v : val) : info :=
  match getL v with
  | [a; b] => Some (getN a, getN b)
  | _ => None
  end.
Definition VInfo (i : info) : val := VOpt (fun p => VL [VN (fst p); VN (snd p)]) i.
Definition VLN (l : list N) : val := VL (map VN l).
Definition VStop (o : option exn) : val :=
  match o with None => VStr "" | Some e => VStr (exn_name e) end.

Definition dispatch (cmd : string) (a : val) : val :=
  if String.eqb cmd "get" then          (* bits, bytes of one copy, n *)
    VRes VN (get (getN (arg 0 a)) (getS (arg 1 a)) (getN (arg 2 a)))
  else if String.eqb cmd "getitem" then (* bits, nfats, mem, n *)
    VRes VN (getitem (getN (arg 0 a)) (copies_of (getN (arg 1 a)) (getS (arg 2 a))) (getN (arg 3 a)))
  else if String.eqb cmd "get_all" then (* bits, nfats, mem, n *)
    VRes VLN (get_all (getN (arg 0 a)) (copies_of (getN (arg 1 a)) (getS (arg 2 a))) (getN (arg 3 a)))
  else if String.eqb cmd "set" then     (* bits, nfats, mem, n, v *)
    VRes (fun ts => VS (List.concat ts))
         (set_allZ (getN (arg 0 a)) (copies_of (getN (arg 1 a)) (getS (arg 2 a)))
                   (getN (arg 3 a)) (getZ (arg 4 a)))
  else if String.eqb cmd "mark_free" then (* bits, nfats, mem, n *)
    VRes (fun ts => VS (List.concat ts))
         (set_all (getN (arg 0 a)) (copies_of (getN (arg 1 a)) (getS (arg 2 a))) (getN (arg 3 a)) 0)
  else if String.eqb cmd "mark_end" then  (* bits, nfats, mem, n *)
    VRes (fun ts => VS (List.concat ts))
         (set_all (getN (arg 0 a)) (copies_of (getN (arg 1 a)) (getS (arg 2 a))) (getN (arg 3 a))
                  (end_mark (getN (arg 0 a))))
  else if String.eqb cmd "set32info" then (* nfats, mem, n, v, info *)
    VRes (fun x => VL [VS (List.concat (fst x)); VInfo (snd x)])
         (set_all32Z (copies_of (getN (arg 0 a)) (getS (arg 1 a))) (get_info (arg 4 a))
                     (getN (arg 2 a)) (getZ (arg 3 a)))
  else if String.eqb cmd "chain" then   (* bits, bytes of one copy, start, fuel *)
    let r := chain (getN (arg 0 a)) (getNat (arg 3 a)) (getS (arg 1 a)) (getN (arg 2 a)) in
    VL [VLN (fst r); VStop (snd r)]
  else if String.eqb cmd "cget" then    (* mem, cluster size, cluster *)
    VRes VS (clusters_get (getS (arg 0 a)) (getN (arg 1 a)) (getN (arg 2 a)))
  else VErr "unknown command".
