(* __setitem__ on ONE copy: the decoded table after a set is the decoded table before
   with entry n replaced -- which gives set/get, frame (including the FAT12 neighbour
   sharing a byte and the FAT32 top nibble), length and byte bounds. *)
From Coq Require Import List NArith ZArith Bool Lia Arith.
Require Import ZifyN ZifyNat ZifyBool.
From NV Require Import Lib.Res Gen.Fat Fat.Spec FatTable.Model FatTable.ProofsBase FatTable.ProofsGet.
Import ListNotations.
Open Scope N_scope.
Ltac Zify.zify_post_hook ::= Z.div_mod_to_equations.

Lemma put16_0 a b r w : put16 (a :: b :: r) 0 w = (w mod 256) :: (w / 256 mod 256) :: r.
Proof. reflexivity. Qed.
Lemma put16_1 a b c r w :
  put16 (a :: b :: c :: r) 1 w = a :: (w mod 256) :: (w / 256 mod 256) :: r.
Proof. reflexivity. Qed.
Lemma put32_0 a b c d r w :
  put32 (a :: b :: c :: d :: r) 0 w =
  (w mod 256) :: (w / 256 mod 256) :: (w / 65536 mod 256) :: (w / 16777216 mod 256) :: r.
Proof. reflexivity. Qed.

Lemma new12_add2 m old v : new12 (m + 2) old v = new12 m old v.
Proof. unfold new12. rewrite odd_add2. reflexivity. Qed.

(* ---------------- FAT12 ---------------- *)
Lemma decode12_put t : bytes t -> forall n v, v < 4096 -> in12 t n ->
  decode12 (put16 t (n + n / 2) (new12 n (word16 t (n + n / 2)) v)) =
  upd (decode12 t) (N.to_nat n) v.
Proof.
  unfold in12. induction t as [t IH] using list_len_ind. intros Hb n v Hv Hn.
  destruct t as [|a [|b [|c r]]].
  - rewrite lenN_nil in Hn. lia.
  - rewrite lenN_cons, lenN_nil in Hn. lia.
  - rewrite !lenN_cons, lenN_nil in Hn. assert (n = 0) by lia. subst n.
    inv_bytes Hb. change (0 + 0 / 2) with 0. rewrite word16_0.
    rewrite new12_even by (reflexivity || assumption). rewrite put16_0.
    change (N.to_nat 0) with O.
    set (w := ((a + 256 * b) / 4096 mod 16) * 4096 + v).
    change (decode12 [w mod 256; w / 256 mod 256])
      with [w mod 256 + 256 * ((w / 256 mod 256) mod 16)].
    change (decode12 [a; b]) with [a + 256 * (b mod 16)]. cbn [upd].
    f_equal. subst w. lia.
  - inv_bytes Hb. rewrite !lenN_cons in Hn.
    destruct (N_cases2 n) as [->|[->|[m ->]]].
    + change (0 + 0 / 2) with 0. rewrite word16_0.
      rewrite new12_even by (reflexivity || assumption). rewrite put16_0, !decode12_3.
      change (N.to_nat 0) with O. cbn [upd].
      set (w := ((a + 256 * b) / 4096 mod 16) * 4096 + v).
      f_equal; [|f_equal]; subst w; lia.
    + change (1 + 1 / 2) with 1. rewrite word16_1.
      rewrite new12_odd by reflexivity. rewrite put16_1, !decode12_3.
      change (N.to_nat 1) with 1%nat. cbn [upd].
      set (w := v * 16 + (b + 256 * c) mod 16).
      f_equal; [|f_equal]; subst w; lia.
    + replace (m + 2 + (m + 2) / 2) with (m + m / 2 + 1 + 1 + 1) by lia.
      rewrite !word16_cons, !put16_cons, new12_add2, !decode12_3.
      replace (N.to_nat (m + 2)) with (S (S (N.to_nat m))) by lia. cbn [upd].
      do 2 f_equal. apply IH; [cbn [length]; lia|assumption|assumption|lia].
Qed.

Lemma set12_ok t n v : v < 4096 -> in12 t n ->
  set12 t n v = Ok (put16 t (n + n / 2) (new12 n (word16 t (n + n / 2)) v)).
Proof.
  unfold in12. intros Hv Hn. unfold set12, set12_from.
  destruct (N.ltb_spec 0xFFF v); [lia|].
  rewrite off12_eq, rd16_ok by lia. cbn [bind]. rewrite wr16_ok by lia. reflexivity.
Qed.
Theorem set12_value_error t n v : 4096 <= v -> set12 t n v = Err ValueError.
Proof. intros H. unfold set12. destruct (N.ltb_spec 0xFFF v); [reflexivity|lia]. Qed.
Theorem set12_index_error t n v : v < 4096 -> ~ in12 t n -> set12 t n v = Err IndexError.
Proof.
  unfold in12. intros Hv Hn. unfold set12, set12_from.
  destruct (N.ltb_spec 0xFFF v); [lia|]. rewrite off12_eq, rd16_err by lia. reflexivity.
Qed.
Lemma set12_inv t n v t' : set12 t n v = Ok t' ->
  v < 4096 /\ in12 t n /\ t' = put16 t (n + n / 2) (new12 n (word16 t (n + n / 2)) v).
Proof.
  intros H. destruct (N.lt_ge_cases v 4096) as [Hv|Hv].
  2:{ rewrite set12_value_error in H by assumption. discriminate. }
  destruct (N.le_gt_cases (n + n / 2 + 2) (lenN t)) as [Hn|Hn].
  2:{ rewrite set12_index_error in H by (unfold in12; lia). discriminate. }
  rewrite set12_ok in H by assumption. inversion H. auto.
Qed.

Theorem set12_decode t n v t' : bytes t -> set12 t n v = Ok t' ->
  decode12 t' = upd (decode12 t) (N.to_nat n) v.
Proof. intros Hb H. apply set12_inv in H as (Hv & Hn & ->). apply decode12_put; assumption. Qed.
Theorem set12_length t n v t' : set12 t n v = Ok t' -> length t' = length t.
Proof.
  intros H. apply set12_inv in H as (_ & _ & ->).
  pose proof (lenN_put16 t (n + n / 2) (new12 n (word16 t (n + n / 2)) v)). unfold lenN in *. lia.
Qed.
Theorem set12_bytes_bounded t n v t' : bytes t -> set12 t n v = Ok t' -> bytes t'.
Proof. intros Hb H. apply set12_inv in H as (_ & _ & ->). apply bytes_put16. assumption. Qed.
Theorem set12_bytes_other t n v t' i : set12 t n v = Ok t' ->
  i <> n + n / 2 -> i <> n + n / 2 + 1 -> nthN t' i = nthN t i.
Proof. intros H H1 H2. apply set12_inv in H as (_ & _ & ->). apply nthN_put16_other; assumption. Qed.

Lemma in12_len t t' n : length t' = length t -> in12 t n -> in12 t' n.
Proof. unfold in12, lenN. intros ->. auto. Qed.

Theorem set12_get_same t n v t' : bytes t -> set12 t n v = Ok t' -> get12 t' n = Ok v.
Proof.
  intros Hb H. pose proof (set12_bytes_bounded _ _ _ _ Hb H) as Hb'.
  pose proof (set12_length _ _ _ _ H) as Hl. pose proof (set12_decode _ _ _ _ Hb H) as Hd.
  apply set12_inv in H as (Hv & Hn & _).
  rewrite get12_spec by (try assumption; eapply in12_len; eauto).
  rewrite Hd, nth_upd_same; [reflexivity|]. apply in12_iff. assumption.
Qed.
(* every other entry -- in particular the neighbour sharing a byte with entry n --
   reads as before (and an index that was out of range still is) *)
Theorem set12_get_other t n v t' j : bytes t -> set12 t n v = Ok t' -> j <> n ->
  get12 t' j = get12 t j.
Proof.
  intros Hb H Hj. pose proof (set12_bytes_bounded _ _ _ _ Hb H) as Hb'.
  pose proof (set12_length _ _ _ _ H) as Hl. pose proof (set12_decode _ _ _ _ Hb H) as Hd.
  destruct (N.le_gt_cases (j + j / 2 + 2) (lenN t)) as [Hi|Hi].
  - rewrite !get12_spec by (try assumption; eapply in12_len; eauto).
    rewrite Hd, nth_upd_other by lia. reflexivity.
  - rewrite !get12_index_error; [reflexivity| |]; unfold in12, lenN in *; try rewrite Hl; lia.
Qed.

(* ---------------- FAT16 ---------------- *)
Lemma decode16_put t : forall n v, v < 65536 -> in16 t n ->
  decode16 (put16 t (2 * n) v) = upd (decode16 t) (N.to_nat n) v.
Proof.
  unfold in16. induction t as [t IH] using list_len_ind. intros n v Hv Hn.
  destruct t as [|a [|b r]].
  - rewrite lenN_nil in Hn. lia.
  - rewrite lenN_cons, lenN_nil in Hn. lia.
  - rewrite !lenN_cons in Hn. destruct (N_cases1 n) as [->|[m ->]].
    + change (2 * 0) with 0. rewrite put16_0, !decode16_2. change (N.to_nat 0) with O.
      cbn [upd]. f_equal. lia.
    + replace (2 * (m + 1)) with (2 * m + 1 + 1) by lia.
      rewrite !put16_cons, !decode16_2.
      replace (N.to_nat (m + 1)) with (S (N.to_nat m)) by lia. cbn [upd].
      f_equal. apply IH; [cbn [length]; lia|assumption|lia].
Qed.

Lemma set16_ok t n v : v < 65536 -> in16 t n -> set16 t n v = Ok (put16 t (2 * n) v).
Proof.
  intros Hv Hn. unfold set16. destruct (N.ltb_spec 0xFFFF v); [lia|]. apply wrH_ok. assumption.
Qed.
Theorem set16_value_error t n v : 65536 <= v -> set16 t n v = Err ValueError.
Proof. intros H. unfold set16. destruct (N.ltb_spec 0xFFFF v); [reflexivity|lia]. Qed.
Theorem set16_index_error t n v : v < 65536 -> ~ in16 t n -> set16 t n v = Err IndexError.
Proof.
  intros Hv Hn. unfold set16. destruct (N.ltb_spec 0xFFFF v); [lia|]. apply wrH_err. assumption.
Qed.
Lemma set16_inv t n v t' : set16 t n v = Ok t' ->
  v < 65536 /\ in16 t n /\ t' = put16 t (2 * n) v.
Proof.
  intros H. destruct (N.lt_ge_cases v 65536) as [Hv|Hv].
  2:{ rewrite set16_value_error in H by assumption. discriminate. }
  destruct (N.le_gt_cases (2 * n + 2) (lenN t)) as [Hn|Hn].
  2:{ rewrite set16_index_error in H by (unfold in16; lia). discriminate. }
  rewrite set16_ok in H by assumption. inversion H. auto.
Qed.
Theorem set16_decode t n v t' : set16 t n v = Ok t' ->
  decode16 t' = upd (decode16 t) (N.to_nat n) v.
Proof. intros H. apply set16_inv in H as (Hv & Hn & ->). apply decode16_put; assumption. Qed.
Theorem set16_length t n v t' : set16 t n v = Ok t' -> length t' = length t.
Proof.
  intros H. apply set16_inv in H as (_ & _ & ->).
  pose proof (lenN_put16 t (2 * n) v). unfold lenN in *. lia.
Qed.
Theorem set16_bytes_bounded t n v t' : bytes t -> set16 t n v = Ok t' -> bytes t'.
Proof. intros Hb H. apply set16_inv in H as (_ & _ & ->). apply bytes_put16. assumption. Qed.
Theorem set16_bytes_other t n v t' i : set16 t n v = Ok t' ->
  i <> 2 * n -> i <> 2 * n + 1 -> nthN t' i = nthN t i.
Proof. intros H H1 H2. apply set16_inv in H as (_ & _ & ->). apply nthN_put16_other; assumption. Qed.

Lemma in16_len t t' n : length t' = length t -> in16 t n -> in16 t' n.
Proof. unfold in16, lenN. intros ->. auto. Qed.

Theorem set16_get_same t n v t' : set16 t n v = Ok t' -> get16 t' n = Ok v.
Proof.
  intros H. pose proof (set16_length _ _ _ _ H) as Hl. pose proof (set16_decode _ _ _ _ H) as Hd.
  apply set16_inv in H as (Hv & Hn & _).
  rewrite get16_spec by (eapply in16_len; eauto).
  rewrite Hd, nth_upd_same; [reflexivity|]. apply in16_iff. assumption.
Qed.
Theorem set16_get_other t n v t' j : set16 t n v = Ok t' -> j <> n -> get16 t' j = get16 t j.
Proof.
  intros H Hj. pose proof (set16_length _ _ _ _ H) as Hl. pose proof (set16_decode _ _ _ _ H) as Hd.
  destruct (N.le_gt_cases (2 * j + 2) (lenN t)) as [Hi|Hi].
  - rewrite !get16_spec by (try assumption; eapply in16_len; eauto).
    rewrite Hd, nth_upd_other by lia. reflexivity.
  - rewrite !get16_index_error; [reflexivity| |]; unfold in16, lenN in *; try rewrite Hl; lia.
Qed.
