(* __getitem__ of the three table classes against the bit-level specification
   (Fat.Spec.decode12/16/32), with the exact index range. *)
From Coq Require Import List NArith ZArith Bool Lia Arith.
Require Import ZifyN ZifyNat ZifyBool.
From NV Require Import Lib.Res Gen.Fat Fat.Spec FatTable.Model FatTable.ProofsBase.
Import ListNotations.
Open Scope N_scope.
Ltac Zify.zify_post_hook ::= Z.div_mod_to_equations.

(* index ranges in which the code answers (anything else: IndexError) *)
Definition in12 (t : list N) (n : N) : Prop := n + n / 2 + 2 <= lenN t.
Definition in16 (t : list N) (n : N) : Prop := 2 * n + 2 <= lenN t.
Definition in32 (t : list N) (n : N) : Prop := 4 * n + 4 <= lenN t.

Lemma decode12_3 a b c r :
  decode12 (a :: b :: c :: r) = (a + 256 * (b mod 16)) :: (b / 16 + 16 * c) :: decode12 r.
Proof. reflexivity. Qed.
Lemma decode16_2 a b r : decode16 (a :: b :: r) = (a + 256 * b) :: decode16 r.
Proof. reflexivity. Qed.
Lemma decode32_4 a b c d r :
  decode32 (a :: b :: c :: d :: r) =
  (a + 256 * b + 65536 * c + 16777216 * (d mod 16)) :: decode32 r.
Proof. reflexivity. Qed.

Lemma word16_0 a b r : word16 (a :: b :: r) 0 = a + 256 * b.
Proof. reflexivity. Qed.
Lemma word16_1 a b c r : word16 (a :: b :: c :: r) 1 = b + 256 * c.
Proof. reflexivity. Qed.
Lemma word32_0 a b c d r :
  word32 (a :: b :: c :: d :: r) 0 = a + 256 * b + 65536 * c + 16777216 * d.
Proof. reflexivity. Qed.

Ltac inv_bytes H :=
  repeat match type of H with
         | bytes (_ :: _) => let H1 := fresh "Hb" in
                             apply Forall_cons_iff in H; destruct H as [H1 H]
         | Forall _ (_ :: _) => let H1 := fresh "Hb" in
                             apply Forall_cons_iff in H; destruct H as [H1 H]
         end.

(* ---------------- number of entries ---------------- *)
Lemma len_decode12 t : N.of_nat (length (decode12 t)) = 2 * lenN t / 3.
Proof.
  induction t as [t IH] using list_len_ind.
  destruct t as [|a [|b [|c r]]]; try reflexivity.
  rewrite decode12_3. cbn [length]. rewrite !lenN_cons.
  specialize (IH r ltac:(cbn [length]; lia)). lia.
Qed.
Lemma len_decode16 t : N.of_nat (length (decode16 t)) = lenN t / 2.
Proof.
  induction t as [t IH] using list_len_ind.
  destruct t as [|a [|b r]]; try reflexivity.
  rewrite decode16_2. cbn [length]. rewrite !lenN_cons.
  specialize (IH r ltac:(cbn [length]; lia)). lia.
Qed.
Lemma len_decode32 t : N.of_nat (length (decode32 t)) = lenN t / 4.
Proof.
  induction t as [t IH] using list_len_ind.
  destruct t as [|a [|b [|c [|d r]]]]; try reflexivity.
  rewrite decode32_4. cbn [length]. rewrite !lenN_cons.
  specialize (IH r ltac:(cbn [length]; lia)). lia.
Qed.

Theorem in12_iff t n : in12 t n <-> (N.to_nat n < length (decode12 t))%nat.
Proof. unfold in12. pose proof (len_decode12 t). lia. Qed.
Theorem in16_iff t n : in16 t n <-> (N.to_nat n < length (decode16 t))%nat.
Proof. unfold in16. pose proof (len_decode16 t). lia. Qed.
Theorem in32_iff t n : in32 t n <-> (N.to_nat n < length (decode32 t))%nat.
Proof. unfold in32. pose proof (len_decode32 t). lia. Qed.

(* ---------------- entries as words of the buffer ---------------- *)
Lemma odd_add2 m : N.odd (m + 2) = N.odd m.
Proof. rewrite !odd_mod2. replace ((m + 2) mod 2) with (m mod 2) by lia. reflexivity. Qed.

Lemma entry12 t : bytes t -> forall n, in12 t n ->
  nth (N.to_nat n) (decode12 t) 0 =
  if N.odd n then word16 t (n + n / 2) / 16 else word16 t (n + n / 2) mod 4096.
Proof.
  unfold in12. induction t as [t IH] using list_len_ind. intros Hb n Hn.
  destruct t as [|a [|b [|c r]]].
  - rewrite lenN_nil in Hn. lia.
  - rewrite lenN_cons, lenN_nil in Hn. lia.
  - rewrite !lenN_cons, lenN_nil in Hn. assert (n = 0) by lia. subst n.
    inv_bytes Hb. change (decode12 [a; b]) with [a + 256 * (b mod 16)].
    change (N.to_nat 0) with O. cbn [nth]. change (N.odd 0) with false. cbv iota.
    change (0 + 0 / 2) with 0. rewrite word16_0. lia.
  - inv_bytes Hb. rewrite decode12_3. rewrite !lenN_cons in Hn.
    destruct (N_cases2 n) as [->|[->|[m ->]]].
    + change (N.to_nat 0) with O. cbn [nth]. change (N.odd 0) with false. cbv iota.
      change (0 + 0 / 2) with 0. rewrite word16_0. lia.
    + change (N.to_nat 1) with 1%nat. cbn [nth]. change (N.odd 1) with true. cbv iota.
      change (1 + 1 / 2) with 1. rewrite word16_1. lia.
    + rewrite odd_add2.
      replace (N.to_nat (m + 2)) with (S (S (N.to_nat m))) by lia. cbn [nth].
      replace (m + 2 + (m + 2) / 2) with (m + m / 2 + 1 + 1 + 1) by lia.
      rewrite !word16_cons. apply IH; [cbn [length]; lia|assumption|lia].
Qed.

Lemma entry16 t n : in16 t n -> nth (N.to_nat n) (decode16 t) 0 = word16 t (2 * n).
Proof.
  unfold in16. revert n. induction t as [t IH] using list_len_ind. intros n Hn.
  destruct t as [|a [|b r]].
  - rewrite lenN_nil in Hn. lia.
  - rewrite lenN_cons, lenN_nil in Hn. lia.
  - rewrite decode16_2. rewrite !lenN_cons in Hn.
    destruct (N_cases1 n) as [->|[m ->]].
    + reflexivity.
    + replace (N.to_nat (m + 1)) with (S (N.to_nat m)) by lia. cbn [nth].
      replace (2 * (m + 1)) with (2 * m + 1 + 1) by lia.
      rewrite !word16_cons. apply IH; [cbn [length]; lia|lia].
Qed.

Lemma entry32 t : bytes t -> forall n, in32 t n ->
  nth (N.to_nat n) (decode32 t) 0 = word32 t (4 * n) mod 268435456.
Proof.
  unfold in32. induction t as [t IH] using list_len_ind. intros Hb n Hn.
  destruct t as [|a [|b [|c [|d r]]]]; try (unfold lenN in Hn; cbn [length] in Hn; lia).
  inv_bytes Hb. rewrite decode32_4. rewrite !lenN_cons in Hn.
  destruct (N_cases1 n) as [->|[m ->]].
  - change (N.to_nat 0) with O. cbn [nth]. change (4 * 0) with 0. rewrite word32_0. lia.
  - replace (N.to_nat (m + 1)) with (S (N.to_nat m)) by lia. cbn [nth].
    replace (4 * (m + 1)) with (4 * m + 1 + 1 + 1 + 1) by lia.
    rewrite !word32_cons. apply IH; [cbn [length]; lia|assumption|lia].
Qed.

(* ---------------- the model's get in closed form ---------------- *)
Lemma rd16_ok t off : off + 2 <= lenN t -> rd16 t off = Ok (word16 t off).
Proof. intros H. unfold rd16. destruct (N.leb_spec (off + 2) (lenN t)); [reflexivity|lia]. Qed.
Lemma rd16_err t off : lenN t < off + 2 -> rd16 t off = Err IndexError.
Proof. intros H. unfold rd16. destruct (N.leb_spec (off + 2) (lenN t)); [lia|reflexivity]. Qed.
Lemma wr16_ok t off w : off + 2 <= lenN t -> wr16 t off w = Ok (put16 t off w).
Proof. intros H. unfold wr16. destruct (N.leb_spec (off + 2) (lenN t)); [reflexivity|lia]. Qed.
Lemma wr16_err t off w : lenN t < off + 2 -> wr16 t off w = Err IndexError.
Proof. intros H. unfold wr16. destruct (N.leb_spec (off + 2) (lenN t)); [lia|reflexivity]. Qed.
Lemma rdH_ok t n : in16 t n -> rdH t n = Ok (word16 t (2 * n)).
Proof. unfold in16, rdH. intros H. destruct (N.leb_spec (2 * n + 2) (lenN t)); [reflexivity|lia]. Qed.
Lemma rdH_err t n : ~ in16 t n -> rdH t n = Err IndexError.
Proof. unfold in16, rdH. intros H. destruct (N.leb_spec (2 * n + 2) (lenN t)); [lia|reflexivity]. Qed.
Lemma wrH_ok t n w : in16 t n -> wrH t n w = Ok (put16 t (2 * n) w).
Proof. unfold in16, wrH. intros H. destruct (N.leb_spec (2 * n + 2) (lenN t)); [reflexivity|lia]. Qed.
Lemma wrH_err t n w : ~ in16 t n -> wrH t n w = Err IndexError.
Proof. unfold in16, wrH. intros H. destruct (N.leb_spec (2 * n + 2) (lenN t)); [lia|reflexivity]. Qed.
Lemma rdI_ok t n : in32 t n -> rdI t n = Ok (word32 t (4 * n)).
Proof. unfold in32, rdI. intros H. destruct (N.leb_spec (4 * n + 4) (lenN t)); [reflexivity|lia]. Qed.
Lemma rdI_err t n : ~ in32 t n -> rdI t n = Err IndexError.
Proof. unfold in32, rdI. intros H. destruct (N.leb_spec (4 * n + 4) (lenN t)); [lia|reflexivity]. Qed.
Lemma wrI_ok t n w : in32 t n -> wrI t n w = Ok (put32 t (4 * n) w).
Proof. unfold in32, wrI. intros H. destruct (N.leb_spec (4 * n + 4) (lenN t)); [reflexivity|lia]. Qed.
Lemma wrI_err t n w : ~ in32 t n -> wrI t n w = Err IndexError.
Proof. unfold in32, wrI. intros H. destruct (N.leb_spec (4 * n + 4) (lenN t)); [lia|reflexivity]. Qed.

Lemma get12_word t n : in12 t n ->
  get12 t n = Ok (if N.odd n then word16 t (n + n / 2) / 16 else word16 t (n + n / 2) mod 4096).
Proof.
  unfold in12. intros H. unfold get12. rewrite off12_eq, rd16_ok by lia. cbn [bind].
  rewrite shiftr4, land_fff. reflexivity.
Qed.
Lemma get32_word t n : in32 t n -> get32 t n = Ok (word32 t (4 * n) mod 268435456).
Proof. intros H. unfold get32. rewrite rdI_ok by assumption. cbn [bind]. rewrite land_28. reflexivity. Qed.

(* ---------------- get = specification entry ---------------- *)
Theorem get12_spec t n : bytes t -> in12 t n ->
  get12 t n = Ok (nth (N.to_nat n) (decode12 t) 0).
Proof. intros Hb H. rewrite get12_word by assumption. rewrite entry12 by assumption. reflexivity. Qed.
Theorem get12_index_error t n : ~ in12 t n -> get12 t n = Err IndexError.
Proof. unfold in12. intros H. unfold get12. rewrite off12_eq, rd16_err by lia. reflexivity. Qed.

Theorem get16_spec t n : in16 t n -> get16 t n = Ok (nth (N.to_nat n) (decode16 t) 0).
Proof. intros H. unfold get16. rewrite rdH_ok, entry16 by assumption. reflexivity. Qed.
Theorem get16_index_error t n : ~ in16 t n -> get16 t n = Err IndexError.
Proof. apply rdH_err. Qed.

Theorem get32_spec t n : bytes t -> in32 t n ->
  get32 t n = Ok (nth (N.to_nat n) (decode32 t) 0).
Proof. intros Hb H. rewrite get32_word, entry32 by assumption. reflexivity. Qed.
Theorem get32_index_error t n : ~ in32 t n -> get32 t n = Err IndexError.
Proof. intros H. unfold get32. rewrite rdI_err by assumption. reflexivity. Qed.

(* results are in range *)
Lemma get12_bound t n v : bytes t -> get12 t n = Ok v -> v < 4096.
Proof.
  intros Hb H. destruct (N.le_gt_cases (n + n / 2 + 2) (lenN t)) as [Hi|Hi].
  - rewrite get12_word in H by exact Hi. inversion H; subst.
    pose proof (word16_bound t (n + n / 2) Hb). destruct (N.odd n); lia.
  - rewrite get12_index_error in H by (unfold in12; lia). discriminate.
Qed.
Lemma get16_bound t n v : bytes t -> get16 t n = Ok v -> v < 65536.
Proof.
  intros Hb H. unfold get16, rdH in H. destruct (2 * n + 2 <=? lenN t); [|discriminate].
  inversion H. apply word16_bound. assumption.
Qed.
Lemma get32_bound t n v : get32 t n = Ok v -> v < 268435456.
Proof.
  intros H. unfold get32, rdI in H. destruct (4 * n + 4 <=? lenN t); [|discriminate].
  cbn [bind] in H. inversion H. rewrite land_28. lia.
Qed.
