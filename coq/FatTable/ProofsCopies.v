(* __setitem__ over ALL copies of the FAT: equal copies stay equal (and each is the
   single-copy set); with unequal copies every copy receives the word computed from
   copy 0.  Also FatTable.chain / mark_end. *)
From Coq Require Import List NArith ZArith Bool Lia Arith.
Require Import ZifyN ZifyNat ZifyBool.
From NV Require Import Lib.Res Gen.Fat Fat.Spec FatTable.Model FatTable.ProofsBase FatTable.ProofsGet
  FatTable.ProofsSet FatTable.ProofsSet32.
Import ListNotations.
Open Scope N_scope.
Ltac Zify.zify_post_hook ::= Z.div_mod_to_equations.

Lemma mapM_map {A B} (f : A -> res B) (g : A -> B) l :
  (forall x, In x l -> f x = Ok (g x)) -> mapM f l = Ok (map g l).
Proof.
  induction l as [|x l IH]; intros H; [reflexivity|].
  cbn [mapM map]. rewrite (H x (or_introl eq_refl)). cbn [bind].
  rewrite IH by (intros y Hy; apply H; right; exact Hy). reflexivity.
Qed.
Lemma mapM_repeat {A B} (f : A -> res B) x k :
  mapM f (repeat x (S k)) = do y <- f x; Ok (repeat y (S k)).
Proof.
  destruct (f x) as [y|e] eqn:E.
  - rewrite (mapM_map f (fun _ => y)).
    + cbn [bind]. f_equal. generalize (S k) as m. induction m; cbn; [reflexivity|]. f_equal. assumption.
    + intros z Hz. apply repeat_spec in Hz. subst z. exact E.
  - cbn [repeat mapM]. rewrite E. reflexivity.
Qed.

Definition same_len (t0 : list N) (ts : list (list N)) : Prop :=
  forall t, In t ts -> lenN t = lenN t0.

(* ---------------- equal copies ---------------- *)
Theorem set_all12_copies t n v k :
  set_all12 (repeat t (S k)) n v = do t' <- set12 t n v; Ok (repeat t' (S k)).
Proof.
  unfold set_all12, set12, set12_from. destruct (0xFFF <? v); [reflexivity|].
  change (copy0 (repeat t (S k))) with (Ok t). cbn [bind].
  destruct (rd16 t (off12 n)) as [old|e]; [|reflexivity]. cbn [bind].
  rewrite mapM_repeat. reflexivity.
Qed.
Theorem set_all16_copies t n v k :
  set_all16 (repeat t (S k)) n v = do t' <- set16 t n v; Ok (repeat t' (S k)).
Proof.
  unfold set_all16, set16. destruct (0xFFFF <? v); [reflexivity|]. rewrite mapM_repeat. reflexivity.
Qed.
Theorem set_all32_copies t i n v k :
  set_all32 (repeat t (S k)) i n v =
  do t' <- set32 t n v;
  Ok (repeat t' (S k), info_step (len32 t) n (word32 t (4 * n)) v i).
Proof.
  unfold set_all32, set32, set32_from. destruct (0x0FFFFFFF <? v); [reflexivity|].
  change (copy0 (repeat t (S k))) with (Ok t). cbn [bind].
  unfold rdI. destruct (4 * n + 4 <=? lenN t); [|reflexivity]. cbn [bind].
  rewrite mapM_repeat. destruct (wrI t n (new32 (word32 t (4 * n)) v)); reflexivity.
Qed.

(* ---------------- copies that differ ---------------- *)
(* every copy receives the 16-bit word computed from copy 0: entry n becomes v in every
   copy, and in FAT12 the neighbouring nibble of every copy becomes that of copy 0 *)
Theorem set_all12_from_copy0 t0 rest n v ts' :
  same_len t0 rest -> set_all12 (t0 :: rest) n v = Ok ts' ->
  v < 4096 /\ in12 t0 n /\
  ts' = map (fun t => put16 t (n + n / 2) (new12 n (word16 t0 (n + n / 2)) v)) (t0 :: rest).
Proof.
  intros Hs H. unfold set_all12 in H. destruct (N.ltb_spec 0xFFF v); [discriminate|].
  cbn [copy0 bind] in H. rewrite off12_eq in H.
  destruct (N.le_gt_cases (n + n / 2 + 2) (lenN t0)) as [Hn|Hn].
  2:{ rewrite rd16_err in H by lia. discriminate. }
  rewrite rd16_ok in H by lia. cbn [bind] in H.
  erewrite mapM_map in H.
  - inversion H. repeat split; [lia|exact Hn].
  - intros t [<-|Ht]; cbn beta; apply wr16_ok; [lia|]. rewrite (Hs t Ht). lia.
Qed.
Theorem set_all16_each t0 rest n v ts' :
  same_len t0 rest -> set_all16 (t0 :: rest) n v = Ok ts' ->
  v < 65536 /\ in16 t0 n /\ ts' = map (fun t => put16 t (2 * n) v) (t0 :: rest).
Proof.
  intros Hs H. unfold set_all16 in H. destruct (N.ltb_spec 0xFFFF v); [discriminate|].
  destruct (N.le_gt_cases (2 * n + 2) (lenN t0)) as [Hn|Hn].
  2:{ cbn [mapM] in H. rewrite wrH_err in H by (unfold in16; lia). discriminate. }
  erewrite mapM_map in H.
  - inversion H. repeat split; [lia|exact Hn].
  - intros t [<-|Ht]; cbn beta; apply wrH_ok; unfold in16; [lia|]. rewrite (Hs t Ht). lia.
Qed.
Theorem set_all32_from_copy0 t0 rest i n v ts' i' :
  same_len t0 rest -> set_all32 (t0 :: rest) i n v = Ok (ts', i') ->
  v < 268435456 /\ in32 t0 n /\
  ts' = map (fun t => put32 t (4 * n) (new32 (word32 t0 (4 * n)) v)) (t0 :: rest) /\
  i' = info_step (len32 t0) n (word32 t0 (4 * n)) v i.
Proof.
  intros Hs H. unfold set_all32 in H. destruct (N.ltb_spec 0x0FFFFFFF v); [discriminate|].
  cbn [copy0 bind] in H.
  destruct (N.le_gt_cases (4 * n + 4) (lenN t0)) as [Hn|Hn].
  2:{ rewrite rdI_err in H by (unfold in32; lia). discriminate. }
  rewrite rdI_ok in H by exact Hn. cbn [bind] in H.
  erewrite mapM_map in H.
  - cbn [bind] in H. inversion H. repeat split; [lia|exact Hn].
  - intros t [<-|Ht]; cbn beta; apply wrI_ok; unfold in32; [lia|]. rewrite (Hs t Ht). exact Hn.
Qed.

(* copy 0 itself is always the single-copy set *)
Corollary set_all12_copy0 t0 rest n v ts' :
  same_len t0 rest -> set_all12 (t0 :: rest) n v = Ok ts' ->
  exists t0' rest', ts' = t0' :: rest' /\ set12 t0 n v = Ok t0'.
Proof.
  intros Hs H. apply set_all12_from_copy0 in H as (Hv & Hn & ->); [|assumption].
  cbn [map]. do 2 eexists. split; [reflexivity|]. apply set12_ok; assumption.
Qed.
Corollary set_all32_copy0 t0 rest i n v ts' i' :
  same_len t0 rest -> set_all32 (t0 :: rest) i n v = Ok (ts', i') ->
  exists t0' rest', ts' = t0' :: rest' /\ set32 t0 n v = Ok t0' /\
                    i' = info_step (len32 t0) n (word32 t0 (4 * n)) v i.
Proof.
  intros Hs H. apply set_all32_from_copy0 in H as (Hv & Hn & -> & ->); [|assumption].
  cbn [map]. do 2 eexists. split; [reflexivity|]. split; [|reflexivity]. apply set32_ok; assumption.
Qed.

(* every copy then reads v at n *)
Theorem set_all12_every_copy_reads t0 rest n v ts' t' :
  same_len t0 rest -> set_all12 (t0 :: rest) n v = Ok ts' -> In t' ts' ->
  word16 t' (n + n / 2) = new12 n (word16 t0 (n + n / 2)) v /\ get12 t' n = Ok v.
Proof.
  intros Hs H Hin. apply set_all12_from_copy0 in H as (Hv & Hn & ->); [|assumption].
  apply in_map_iff in Hin as (t & <- & Ht).
  assert (Hl : lenN t = lenN t0) by (destruct Ht as [<-|Ht]; [reflexivity|apply Hs; exact Ht]).
  unfold in12 in Hn.
  assert (Hw : new12 n (word16 t0 (n + n / 2)) v < 65536).
  { destruct (N.odd n) eqn:E; [rewrite new12_odd by exact E|rewrite new12_even by assumption]; lia. }
  assert (E : word16 (put16 t (n + n / 2) (new12 n (word16 t0 (n + n / 2)) v)) (n + n / 2)
              = new12 n (word16 t0 (n + n / 2)) v) by (apply word16_put16_same; lia).
  split; [exact E|].
  rewrite get12_word by (unfold in12; rewrite lenN_put16; lia). rewrite E.
  destruct (N.odd n) eqn:Eo; [rewrite new12_odd by exact Eo|rewrite new12_even by assumption];
    f_equal; lia.
Qed.

(* the refuted strong form "a set only changes entry n in every copy", when copies differ:
   FAT12, two copies whose entry 1 differs (0x123 vs 0x456); setting entry 0 rewrites
   entry 1 of copy 1 to 0x453 (the low nibble of copy 0's entry 1 leaks in) *)
Example set_all12_unequal_copies_clobber :
  let c0 := [0; 0x30; 0x12] in let c1 := [0; 0x60; 0x45] in
  get12 c0 1 = Ok 0x123 /\ get12 c1 1 = Ok 0x456 /\
  exists c0' c1', set_all12 [c0; c1] 0 0xABC = Ok [c0'; c1'] /\
                  get12 c0' 1 = Ok 0x123 /\ get12 c1' 1 = Ok 0x453.
Proof. vm_compute. repeat split. do 2 eexists. repeat split. Qed.
(* FAT32: the top nibble of every copy becomes that of copy 0 *)
Example set_all32_unequal_copies_top :
  exists c0' c1', set_all32 [[1; 0; 0; 0x20]; [1; 0; 0; 0x50]] None 0 7 = Ok ([c0'; c1'], None) /\
                  raw32 c1' = [0x20000007].
Proof. vm_compute. do 2 eexists. repeat split. Qed.

(* ---------------- chain / mark_end ---------------- *)
Theorem chain_in_range fuel get minv maxv c :
  Forall (fun x => minv <= x <= maxv) (fst (chain_model fuel get minv maxv c)).
Proof.
  revert c; induction fuel as [|f IH]; intros c; cbn [chain_model]; [constructor|].
  destruct ((minv <=? c) && (c <=? maxv)) eqn:E; [|constructor].
  destruct (get c) as [nx|e]; [|constructor]. cbn [fst]. constructor; [lia|apply IH].
Qed.

Lemma chain_stops_at_end fuel get minv maxv c e :
  minv <= c <= maxv -> get c = Ok e -> maxv < e ->
  chain_model (S (S fuel)) get minv maxv c = ([c], None).
Proof.
  intros Hc Hg He. cbn [chain_model].
  replace ((minv <=? c) && (c <=? maxv)) with true by lia. rewrite Hg.
  replace ((minv <=? e) && (e <=? maxv)) with false by lia. reflexivity.
Qed.
Lemma chain_outside fuel get minv maxv c :
  ~ (minv <= c <= maxv) -> chain_model (S fuel) get minv maxv c = ([], None).
Proof.
  intros Hc. cbn [chain_model]. replace ((minv <=? c) && (c <=? maxv)) with false by lia. reflexivity.
Qed.

Lemma end_above_max bits : max_valid bits < end_mark bits.
Proof.
  unfold max_valid, end_mark. destruct (bits =? 12); [|destruct (bits =? 16)]; vm_compute; reflexivity.
Qed.
