(* The invariant that holds at EVERY prefix of a micro-step list, relative to the state [s0] the
   operation started from and to what the operation is allowed to touch:
     T k a   entry with alias a in directory k is a target (may be rewritten / deleted / created)
     TC      clusters of the target chains (in s0): may be set, freed, zeroed
     GL      last clusters of the directories that receive a new entry: may only be re-linked
     D, DD   directories whose registration / dot records (D) or '..' record (DD) may change
   [sub]: the entries of a directory now are the entries of s0 with target entries rewritten in
   place (same names) or dropped, plus target entries at the end.  [ok_step]: a store respects
   the above; [good]: every store of a list does, at the state it is made in;
   [good_inv]: then [Inv] holds after every prefix. *)
From Coq Require Import List NArith Bool Lia Arith.
From NV Require Import Lib.Res FatAlloc.Model FatAlloc.ProofsBase.
From NV Require Import FatVol.Model FatVol.ProofsBase FatVol.ProofsInv FatCrash.Model FatCrash.ProofsBase.
Import ListNotations.
Open Scope N_scope.

Fixpoint upd_first (p : entry -> bool) (g : entry -> entry) (l : list entry) : list entry :=
  match l with [] => [] | x :: r => if p x then g x :: r else x :: upd_first p g r end.
Fixpoint rem_first (p : entry -> bool) (l : list entry) : list entry :=
  match l with [] => [] | x :: r => if p x then r else x :: rem_first p r end.

Section Sub.
Variable upper : name -> name.
Notation hit := (hit upper).
Variable T : name -> Prop.
Definition tg (e : entry) : Prop := T (e_alias e).

Inductive sub : list entry -> list entry -> Prop :=
| sub_new new : Forall tg new -> sub [] new
| sub_keep e l0 l : sub l0 l -> sub (e :: l0) (e :: l)
| sub_upd e e' l0 l : tg e -> e_name e' = e_name e -> e_alias e' = e_alias e -> sub l0 l -> sub (e :: l0) (e' :: l)
| sub_drop e l0 l : tg e -> sub l0 l -> sub (e :: l0) l.

Lemma sub_refl l : sub l l.
Proof. induction l; constructor; [constructor|assumption]. Qed.
Lemma hit_names k e e' : e_name e' = e_name e -> e_alias e' = e_alias e -> hit k e' = hit k e.
Proof. intros A B. unfold Model.hit. rewrite A, B. reflexivity. Qed.

(* a key that found a non-target entry finds the identical entry *)
Lemma sub_find k l0 l e : sub l0 l -> find (hit k) l0 = Some e -> ~ tg e -> find (hit k) l = Some e.
Proof.
  induction 1 as [new F|x l0 l S IH|x x' l0 l Tx En Ea S IH|x l0 l Tx S IH]; cbn [find]; intros Fd Nt.
  - discriminate.
  - destruct (hit k x); [exact Fd|apply IH; assumption].
  - rewrite (hit_names k x x' En Ea). destruct (hit k x); [inversion Fd; subst; contradiction|apply IH; assumption].
  - destruct (hit k x); [inversion Fd; subst; contradiction|apply IH; assumption].
Qed.
Lemma sub_in l0 l x : sub l0 l -> In x l -> tg x \/ In x l0.
Proof.
  induction 1 as [new F|y l0 l S IH|y y' l0 l Ty En Ea S IH|y l0 l Ty S IH]; intros Hx.
  - left. rewrite Forall_forall in F. apply F, Hx.
  - destruct Hx as [->|Hx]; [right; left; reflexivity|]. destruct (IH Hx); [left|right; right]; assumption.
  - destruct Hx as [<-|Hx]; [left; unfold tg; rewrite Ea; exact Ty|]. destruct (IH Hx); [left|right; right]; assumption.
  - destruct (IH Hx); [left|right; right]; assumption.
Qed.
(* every non-target entry is still there *)
Lemma sub_keeps l0 l x : sub l0 l -> In x l0 -> ~ tg x -> In x l.
Proof.
  induction 1 as [new F|y l0 l S IH|y y' l0 l Ty En Ea S IH|y l0 l Ty S IH]; intros Hx Nt.
  - destruct Hx.
  - destruct Hx as [->|Hx]; [left; reflexivity|right; apply IH; assumption].
  - destruct Hx as [->|Hx]; [contradiction|right; apply IH; assumption].
  - destruct Hx as [->|Hx]; [contradiction|apply IH; assumption].
Qed.

Lemma Forall_upd_first p g new : (forall e, e_alias (g e) = e_alias e) -> Forall tg new -> Forall tg (upd_first p g new).
Proof.
  intros G F. induction F as [|x r Hx F IH]; cbn [upd_first]; [constructor|].
  destruct (p x); constructor; auto. unfold tg. rewrite G. exact Hx.
Qed.
Lemma Forall_rem_first p new : Forall tg new -> Forall tg (rem_first p new).
Proof. intros F. induction F as [|x r Hx F IH]; cbn [rem_first]; [constructor|]. destruct (p x); [exact F|constructor; auto]. Qed.

Lemma sub_upd_first k g l0 l : (forall e, e_name (g e) = e_name e) -> (forall e, e_alias (g e) = e_alias e) ->
  sub l0 l -> (forall x, In x l -> hit k x = true -> tg x) -> sub l0 (upd_first (hit k) g l).
Proof.
  intros Gn Ga. induction 1 as [new F|x l0 l S IH|x x' l0 l Tx En Ea S IH|x l0 l Tx S IH]; intros H.
  - apply sub_new. apply Forall_upd_first; assumption.
  - cbn [upd_first]. destruct (hit k x) eqn:Hx.
    + apply sub_upd; [apply H; [left; reflexivity|exact Hx]|apply Gn|apply Ga|exact S].
    + apply sub_keep. apply IH. intros y Hy. apply H. right. exact Hy.
  - cbn [upd_first]. destruct (hit k x') eqn:Hx.
    + apply sub_upd; [exact Tx|rewrite Gn; exact En|rewrite Ga; exact Ea|exact S].
    + apply sub_upd; try assumption. apply IH. intros y Hy. apply H. right. exact Hy.
  - apply sub_drop; [exact Tx|apply IH, H].
Qed.
Lemma sub_rem_first k l0 l :
  sub l0 l -> (forall x, In x l -> hit k x = true -> tg x) -> sub l0 (rem_first (hit k) l).
Proof.
  induction 1 as [new F|x l0 l S IH|x x' l0 l Tx En Ea S IH|x l0 l Tx S IH]; intros H.
  - apply sub_new. apply Forall_rem_first, F.
  - cbn [rem_first]. destruct (hit k x) eqn:Hx.
    + apply sub_drop; [apply H; [left; reflexivity|exact Hx]|exact S].
    + apply sub_keep. apply IH. intros y Hy. apply H. right. exact Hy.
  - cbn [rem_first]. destruct (hit k x') eqn:Hx.
    + apply sub_drop; [exact Tx|exact S].
    + apply sub_upd; try assumption. apply IH. intros y Hy. apply H. right. exact Hy.
  - apply sub_drop; [exact Tx|apply IH, H].
Qed.
Lemma sub_allT l0 l X : sub l0 l -> Forall tg l -> Forall tg X -> sub l0 X.
Proof.
  induction 1 as [new F|x l0 l S IH|x x' l0 l Tx En Ea S IH|x l0 l Tx S IH]; intros Fl FX.
  - apply sub_new, FX.
  - inversion Fl; subst. apply sub_drop; [assumption|apply IH; assumption].
  - inversion Fl; subst. apply sub_drop; [assumption|apply IH; assumption].
  - apply sub_drop; [assumption|apply IH; assumption].
Qed.
(* the tail of the list is replaced: both tails hold target entries only *)
Lemma sub_tail l0 l : sub l0 l -> forall A B B', l = A ++ B -> Forall tg B -> Forall tg B' -> sub l0 (A ++ B').
Proof.
  induction 1 as [new F|x l0 l S IH|x x' l0 l Tx En Ea S IH|x l0 l Tx S IH]; intros A B B' E FB FB'.
  - apply sub_new. subst new. apply Forall_app in F. apply Forall_app. split; [apply F|exact FB'].
  - destruct A as [|a A]; cbn [app] in *.
    + subst B. inversion FB; subst. apply sub_drop; [assumption|]. apply (sub_allT l0 l); assumption.
    + inversion E; subst. apply sub_keep. apply (IH A B B'); auto.
  - destruct A as [|a A]; cbn [app] in *.
    + subst B. inversion FB; subst. apply sub_drop; [assumption|]. apply (sub_allT l0 l); assumption.
    + inversion E; subst. apply sub_upd; try assumption. apply (IH A B B'); auto.
  - apply sub_drop; [assumption|]. apply (IH A B B'); auto.
Qed.
End Sub.

Lemma lives_upd_item upper k g l : lives (upd_item upper k g l) = upd_first (hit upper k) g (lives l).
Proof.
  induction l as [|[x|] r IH]; cbn [Model.upd_item lives upd_first]; [reflexivity| |exact IH].
  destruct (hit upper k x); cbn [lives]; [reflexivity|]. f_equal. exact IH.
Qed.
Lemma lives_del_item upper k l : lives (del_item upper k l) = rem_first (hit upper k) (lives l).
Proof.
  induction l as [|[x|] r IH]; cbn [Model.del_item lives rem_first]; [reflexivity| |exact IH].
  destruct (hit upper k x); cbn [lives]; [rewrite lives_app, lives_repeat_dead; reflexivity|]. f_equal. exact IH.
Qed.
Lemma NoDup_put ds id d : NoDup (List.map fst ds) -> NoDup (List.map fst (put_dir ds id d)).
Proof.
  intros N. destruct (find_dir ds id) as [d0|] eqn:F.
  - rewrite (keys_put_present _ _ _ _ F). exact N.
  - rewrite (keys_put_absent _ _ _ F). apply NoDup_app_intro; [exact N|constructor; [intros []|constructor]|].
    intros x Hx [<-|[]]. destruct (key_find_dir _ _ Hx) as (d' & E). congruence.
Qed.

Section Inv.
Variable upper : name -> name.
Variable V : vparams.
Notation apply_m := (apply_m upper).
Notation run_m := (run_m upper).
Notation hit := (hit upper).

Variable s0 : vol.
Variable T : N -> name -> Prop.
Variables TC GL : list N.
Variables D DD : N -> Prop.

Definition Amod (c : N) : Prop := get (ftbl (v_fat s0)) c = 0 \/ In c TC.
Lemma Amod_dec c : {Amod c} + {~ Amod c}.
Proof.
  unfold Amod. destruct (N.eq_dec (get (ftbl (v_fat s0)) c) 0) as [E|E]; [left; left; exact E|].
  destruct (in_dec N.eq_dec c TC) as [I|I]; [left; right; exact I|right; tauto].
Qed.

Record Inv (s : vol) : Prop := {
  iv_ents : forall k, sub (T k) (lives_of s0 k) (lives_of s k);
  iv_len : length (ftbl (v_fat s)) = length (ftbl (v_fat s0));
  iv_frame : forall c, ~ Amod c -> ~ In c GL -> get (ftbl (v_fat s)) c = get (ftbl (v_fat s0)) c;
  iv_gl : forall c, In c GL -> ~ Amod c -> get (ftbl (v_fat s)) c <> 0;
  iv_dots : forall k, ~ D k -> ~ DD k -> d_dot (get_dir s k) = d_dot (get_dir s0 k) /\
                                         d_dotdot (get_dir s k) = d_dotdot (get_dir s0 k);
  iv_dot : forall k, ~ D k -> d_dot (get_dir s k) = d_dot (get_dir s0 k);
  iv_keys : NoDup (List.map fst (v_dirs s)) }.

Hypothesis GL_nz : forall c, In c GL -> get (ftbl (v_fat s0)) c <> 0.
Hypothesis keys0 : NoDup (List.map fst (v_dirs s0)).

Lemma Inv_start : Inv s0.
Proof.
  constructor; auto.
  all: try (intros k; apply sub_refl).
  all: try (intros c H _; apply GL_nz, H).
Qed.
(* a cluster that is free NOW was free at the start or belongs to a target chain *)
Lemma Inv_free s c : Inv s -> get (ftbl (v_fat s)) c = 0 -> Amod c.
Proof.
  intros I Z. destruct (Amod_dec c) as [A|A]; [exact A|]. exfalso.
  destruct (in_dec N.eq_dec c GL) as [G|G]; [apply (iv_gl _ I c G A Z)|].
  apply A. left. rewrite <- (iv_frame _ I c A G). exact Z.
Qed.

Definition tgt_key (s : vol) (id : N) (key : name) : Prop :=
  forall x, In x (lives_of s id) -> hit key x = true -> T id (e_alias x).
Definition ok_step (s : vol) (m : mstep) : Prop :=
  match m with
  | MInfo _ _ => True
  | MTbl c v => Amod c \/ (In c GL /\ v <> 0)
  | MZero c | MZeroTail c => Amod c
  | MUpd id key _ _ _ | MDel id key => tgt_key s id key
  | MTail id keep tail => Forall (tg (T id)) (lives (skipn keep (items_of s id))) /\ Forall (tg (T id)) (lives tail)
  | MClean _ => True
  | MView _ _ => False               (* only in micro_x: see ProofsClean.v *)
  | MReg c => D c /\ lives_of s0 c = []
  | MForget c => D c /\ lives_of s0 c = []
  | MDot c _ => D c
  | MDotDot c _ => D c \/ DD c
  end.
Fixpoint good (s : vol) (l : list mstep) : Prop :=
  match l with [] => True | m :: r => ok_step s m /\ good (apply_m s m) r end.

(* what a key hits now, from what it hit at the start *)
Lemma tgt_key_static s id key : Inv s ->
  (forall x, In x (lives_of s0 id) -> hit key x = true -> T id (e_alias x)) -> tgt_key s id key.
Proof.
  intros I H x Hx Hk. destruct (sub_in (T id) _ _ x (iv_ents _ I id) Hx) as [Tx|Ix]; [exact Tx|apply H; assumption].
Qed.

Lemma lives_set_dirs s c d k : d_items d = d_items (get_dir s c) ->
  lives_of {| v_fat := v_fat s; v_dirs := put_dir (v_dirs s) c d |} k = lives_of s k.
Proof.
  intros E. unfold lives_of, items_of, get_dir at 1. cbn [v_dirs]. destruct (N.eq_dec k c) as [->|H].
  - rewrite find_put_same, E. reflexivity.
  - rewrite find_put_other by exact H. reflexivity.
Qed.

Lemma ents_set_items s id l :
  Inv s -> sub (T id) (lives_of s0 id) (lives l) -> forall k, sub (T k) (lives_of s0 k) (lives_of (set_items s id l) k).
Proof.
  intros I S k. destruct (N.eq_dec k id) as [->|H].
  - rewrite set_items_lives_same. exact S.
  - rewrite set_items_lives_other by exact H. apply (iv_ents _ I).
Qed.
Lemma Inv_set_items s id l : Inv s -> sub (T id) (lives_of s0 id) (lives l) -> Inv (set_items s id l).
Proof.
  intros I S. constructor; try apply I.
  - apply ents_set_items; assumption.
  - intros k H1 H2. destruct (set_items_dots s id l k) as [-> ->]. apply (iv_dots _ I); assumption.
  - intros k H1. destruct (set_items_dots s id l k) as [-> _]. apply (iv_dot _ I); assumption.
  - cbn [set_items v_dirs]. apply NoDup_put, I.
Qed.

Lemma get_dir_put f s c d k : k <> c -> get_dir {| v_fat := f; v_dirs := put_dir (v_dirs s) c d |} k = get_dir s k.
Proof. intros H. unfold get_dir. cbn [v_dirs]. rewrite find_put_other by exact H. reflexivity. Qed.
Lemma get_dir_put_same f s c d : get_dir {| v_fat := f; v_dirs := put_dir (v_dirs s) c d |} c = d.
Proof. unfold get_dir. cbn [v_dirs]. rewrite find_put_same. reflexivity. Qed.
Lemma get_dir_drop f s c k : k <> c -> get_dir {| v_fat := f; v_dirs := drop_dir (v_dirs s) c |} k = get_dir s k.
Proof. intros H. unfold get_dir. cbn [v_dirs]. rewrite find_drop_other by exact H. reflexivity. Qed.

Theorem ok_step_inv s m : Inv s -> ok_step s m -> Inv (apply_m s m).
Proof.
  intros I Ok. destruct m as [c v|c v|c|c|id key a sz cl|id key|id keep tail|id|id vl|c|c v|c v|c]; cbn [Model.apply_m ok_step] in *.
  - constructor; try apply I.
  - constructor; try apply I; cbn [set_fat v_fat ftbl].
    + rewrite set_length. apply I.
    + intros x A G. rewrite get_set_other; [apply (iv_frame _ I); assumption|]. intros ->. destruct Ok as [Ok|[Ok _]]; contradiction.
    + intros x G A. destruct (N.eq_dec c x) as [->|Hn]; [|rewrite get_set_other by exact Hn; apply (iv_gl _ I); assumption].
      destruct Ok as [Ok|[_ Nz]]; [contradiction|].
      destruct (N.lt_ge_cases x (len (ftbl (v_fat s)))) as [L|L]; [rewrite get_set_same by exact L; exact Nz|].
      exfalso. apply (iv_gl _ I x G A). apply get_beyond, L.
  - exact I.
  - exact I.
  - apply Inv_set_items; [exact I|]. rewrite lives_upd_item. apply sub_upd_first; try reflexivity; [apply I|exact Ok].
  - apply Inv_set_items; [exact I|]. rewrite lives_del_item. apply sub_rem_first; [apply I|exact Ok].
  - apply Inv_set_items; [exact I|]. destruct Ok as [O1 O2]. rewrite lives_app.
    apply (sub_tail (T id) _ _ (iv_ents _ I id) (lives (firstn keep (items_of s id))) (lives (skipn keep (items_of s id)))); try assumption.
    unfold lives_of. rewrite <- lives_app, firstn_skipn. reflexivity.
  - apply Inv_set_items; [exact I|]. rewrite lives_filter_live. apply I.
  - destruct Ok.
  - destruct Ok as [Dc E0]. constructor; try apply I; unfold reg_dir.
    + intros k. destruct (N.eq_dec k c) as [->|H].
      * assert (E : lives_of {| v_fat := v_fat s; v_dirs := put_dir (v_dirs s) c empty_dir |} c = [])
          by (unfold lives_of, items_of, get_dir; cbn [v_dirs]; rewrite find_put_same; reflexivity).
        rewrite E, E0. apply sub_refl.
      * assert (E : lives_of {| v_fat := v_fat s; v_dirs := put_dir (v_dirs s) c empty_dir |} k = lives_of s k)
          by (unfold lives_of, items_of, get_dir; cbn [v_dirs]; rewrite find_put_other by exact H; reflexivity).
        rewrite E. apply (iv_ents _ I k).
    + intros k H1 H2. rewrite get_dir_put by (intros ->; contradiction). apply (iv_dots _ I); assumption.
    + intros k H1. rewrite get_dir_put by (intros ->; contradiction). apply (iv_dot _ I); assumption.
    + cbn [v_dirs]. apply NoDup_put, I.
  - constructor; try apply I; unfold set_dot.
    + intros k. rewrite lives_set_dirs by reflexivity. apply I.
    + intros k H1 H2. rewrite get_dir_put by (intros ->; contradiction). apply (iv_dots _ I); assumption.
    + intros k H1. rewrite get_dir_put by (intros ->; contradiction). apply (iv_dot _ I); assumption.
    + cbn [v_dirs]. apply NoDup_put, I.
  - constructor; try apply I; unfold set_dotdot.
    + intros k. rewrite lives_set_dirs by reflexivity. apply I.
    + intros k H1 H2. rewrite get_dir_put by (intros ->; tauto). apply (iv_dots _ I); assumption.
    + intros k H1. destruct (N.eq_dec k c) as [->|H].
      * rewrite get_dir_put_same. cbn [d_dot]. apply (iv_dot _ I); assumption.
      * rewrite get_dir_put by exact H. apply (iv_dot _ I); assumption.
    + cbn [v_dirs]. apply NoDup_put, I.
  - destruct Ok as [Dc E0]. constructor; try apply I; unfold drop.
    + intros k. destruct (N.eq_dec k c) as [->|H].
      * assert (E : lives_of {| v_fat := v_fat s; v_dirs := drop_dir (v_dirs s) c |} c = [])
          by (unfold lives_of, items_of, get_dir; cbn [v_dirs]; rewrite find_drop_same by apply I; reflexivity).
        rewrite E, E0. apply sub_refl.
      * assert (E : lives_of {| v_fat := v_fat s; v_dirs := drop_dir (v_dirs s) c |} k = lives_of s k)
          by (unfold lives_of, items_of, get_dir; cbn [v_dirs]; rewrite find_drop_other by exact H; reflexivity).
        rewrite E. apply (iv_ents _ I k).
    + intros k H1 H2. rewrite get_dir_drop by (intros ->; contradiction). apply (iv_dots _ I); assumption.
    + intros k H1. rewrite get_dir_drop by (intros ->; contradiction). apply (iv_dot _ I); assumption.
    + cbn [v_dirs]. apply keys_drop_nodup, I.
Qed.

Lemma good_app s a b : good s (a ++ b) <-> good s a /\ good (run_m s a) b.
Proof.
  revert s. induction a as [|m r IH]; intros s; cbn [app good].
  - rewrite run_nil. tauto.
  - rewrite run_cons, IH. tauto.
Qed.
Theorem good_run s l : Inv s -> good s l -> Inv (run_m s l).
Proof.
  revert s. induction l as [|m r IH]; intros s I G; [exact I|]. destruct G as [G1 G2].
  rewrite run_cons. apply IH; [apply ok_step_inv; assumption|exact G2].
Qed.
Lemma good_firstn s l n : good s l -> good s (firstn n l).
Proof.
  revert s n. induction l as [|m r IH]; intros s n G; [destruct n; exact I|].
  destruct n as [|n]; [exact I|]. destruct G as [G1 G2]. split; [exact G1|apply IH, G2].
Qed.
Theorem good_inv s l : Inv s -> good s l -> forall n, Inv (run_m s (firstn n l)).
Proof. intros I G n. apply good_run; [exact I|apply good_firstn, G]. Qed.
(* composing generators: the second list may use the invariant of the state the first leaves *)
Lemma good_app_inv s a b : Inv s -> good s a -> (Inv (run_m s a) -> good (run_m s a) b) -> good s (a ++ b).
Proof. intros I Ga Gb. apply good_app. split; [exact Ga|apply Gb, good_run; assumption]. Qed.

(* FAT-only lists: the conditions do not depend on the state *)
Definition ok_fat (m : mstep) : Prop :=
  match m with
  | MInfo _ _ => True
  | MTbl c v => Amod c \/ (In c GL /\ v <> 0)
  | MZero c | MZeroTail c => Amod c
  | _ => False
  end.
Lemma good_fat l : Forall ok_fat l -> forall s, good s l.
Proof.
  induction 1 as [|m r Hm _ IH]; intros s; [exact I|]. split; [|apply IH].
  destruct m; cbn [ok_step ok_fat] in *; try contradiction; auto.
Qed.
Lemma ok_fat_set c v : Amod c \/ (In c GL /\ v <> 0) -> Forall ok_fat (fat_set c v).
Proof. intros H. constructor; [exact I|]. constructor; [exact H|constructor]. Qed.
End Inv.
