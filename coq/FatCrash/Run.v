(* Wire interface of the micro-step model.  Input as FatVol.Run:
     [params; fat; dirs; upper table; ops]
   "micro": for the FIRST op o of ops, with every compaction spelled out record by record (micro_x):
     [outcome of FatVol's step; list of the states the operation goes through (before the first
      store, after each store: length = number of stores + 1); the stores; state of FatVol's step]
     states are printed in FatVol.Run's canonical form [fat; dirs];
     a store is printed as (tag, arguments...):
       (0,c,v) MInfo  (1,c,v) MTbl  (2,c) MZero  (3,c) MZeroTail  (4,id,key,attr,size,cluster) MUpd
       (5,id,key) MDel  (6,id,keep,items) MTail  (7,id) MClean  (8,c) MReg  (9,c,v) MDot
       (10,c,v) MDotDot  (11,c) MForget  (12,id,items) MView (a view during compaction)
   "targets": the (directory id, alias) keys of the entries the first op names (tkeys) *)
From Coq Require Import List NArith String Bool.
From NV Require Import Lib.Val Lib.Res Lib.Wire FatVol.Model FatVol.Run FatCrash.Model FatCrash.Clean.
From NV Require FatDir.Run.
Import ListNotations.
Open Scope string_scope.

Definition VStep (m : mstep) : val :=
  match m with
  | MInfo c v => VL [VN 0; VN c; VN v]
  | MTbl c v => VL [VN 1; VN c; VN v]
  | MZero c => VL [VN 2; VN c]
  | MZeroTail c => VL [VN 3; VN c]
  | MUpd id k a sz cl => VL [VN 4; VN id; VS k; VN a; VN sz; VN cl]
  | MDel id k => VL [VN 5; VN id; VS k]
  | MTail id keep t => VL [VN 6; VN id; VN (N.of_nat keep); VL (List.map VItem t)]
  | MClean id => VL [VN 7; VN id]
  | MView id l => VL [VN 12; VN id; VL (List.map VItem l)]
  | MReg c => VL [VN 8; VN c]
  | MDot c v => VL [VN 9; VN c; VN v]
  | MDotDot c v => VL [VN 10; VN c; VN v]
  | MForget c => VL [VN 11; VN c]
  end.

Definition dispatch (cmd : string) (a : val) : val :=
  let V := get_params (arg 0 a) in
  let up := FatDir.Run.get_upper a in
  let s := get_vol a in
  let ops := List.map get_op (getL (arg 4 a)) in
  if String.eqb cmd "micro" then
    match ops with
    | o :: _ =>
      let x := step up V s o in
      let l := micro_x up V s o in
      VL [VOut (snd x); VL (List.map VVol (states up s l)); VL (List.map VStep l); VVol (fst x)]
    | [] => VErr "no op"
    end
  else VErr "unknown command".
