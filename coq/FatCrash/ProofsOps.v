(* What an operation may touch, computed from the state it starts in ([tkeys], [tchain],
   [growdir], [Dset], [DDset]), the facts of VolInv that the per-operation proofs need, and
   [good] for unlink and rmdir. *)
From Coq Require Import List NArith Bool Lia Arith Permutation.
From NV Require Import Lib.Res FatAlloc.Model FatAlloc.ProofsBase.
From NV Require Import FatVol.Model FatVol.ProofsBase FatVol.ProofsFat FatVol.ProofsInv FatVol.ProofsWalk
     FatVol.ProofsOps FatVol.ProofsFatOps FatVol.ProofsAppend FatVol.ProofsFile FatVol.ProofsFileOp.
From NV Require Import FatCrash.Model FatCrash.ProofsBase FatCrash.ProofsInv FatCrash.ProofsFatSteps
     FatCrash.ProofsSteps FatCrash.ProofsAppendSteps.
Import ListNotations.
Open Scope N_scope.

Section Params.
Variable upper : name -> name.
Variable V : vparams.
Notation P := (PP V).
Notation limit := (vp_limit V).
Notation resolve := (Model.resolve upper).

(* the directory that holds the entry found at path p *)
Definition cont (s : vol) (p : list name) (idx : N) (e : entry) : N :=
  if is_dir e then match resolve s (parent p) with Ok pr => r_index pr | Err _ => 0 end else idx.
(* (directory id, alias) of the entry a path names: the entry found, or the one that would be created *)
Definition tkey_of (s : vol) (p : list name) : list (N * name) :=
  match resolve s p with
  | Ok (RFound idx e) => [(cont s p idx e, e_alias e)]
  | Ok RNone =>
    match resolve s (parent p) with
    | Ok pr => if r_isdir pr then
                 match make_entry upper (r_index pr) (items_of s (r_index pr)) (leaf p) 0 0 with
                 | Ok e => [(r_index pr, e_alias e)]
                 | Err _ => []
                 end
               else []
    | Err _ => []
    end
  | _ => []
  end.
Definition tkeys (s : vol) (o : op) : list (N * name) := flat_map (tkey_of s) (targets o).
Definition Tk (s : vol) (o : op) (k : N) (a : name) : Prop := In (k, a) (tkeys s o).

Definition file_chain (s : vol) (p : list name) (want_dir : bool) : list N :=
  match resolve s p with
  | Ok (RFound _ e) => if Bool.eqb (is_dir e) want_dir then chain_of V (v_fat s) (e_clu e) else []
  | _ => []
  end.
(* clusters of the chains the operation frees or rewrites *)
Definition tchain (s : vol) (o : op) : list N :=
  match o with
  | OFile p _ _ | OUnlink p => file_chain s p false
  | ORmdir p => file_chain s p true
  | OMkdir _ => []
  | ORename _ q => file_chain s q false
  end.
(* last cluster of the directory that receives a new entry *)
Definition grow_of (s : vol) (p : list name) : list N :=
  match resolve s p with
  | Ok RNone =>
    match resolve s (parent p) with
    | Ok pr => if r_isdir pr then
                 match dir_cap V (r_index pr) with
                 | Some _ => []
                 | None => last_opt (chain_of V (v_fat s) (dir_start V (r_index pr)))
                 end
               else []
    | Err _ => []
    end
  | _ => []
  end.
Definition growdir (s : vol) (o : op) : list N :=
  match o with
  | OFile p _ _ | OMkdir p => grow_of s p
  | ORename _ q => grow_of s q
  | _ => []
  end.
(* the directory created / removed; the directory whose '..' is rewritten *)
Definition Dset (s : vol) (o : op) (c : N) : Prop :=
  match o with
  | OMkdir _ => hd 0 (free_scan P (ftbl (v_fat s)) limit (hint_of (v_fat s))) = c /\ c <> 0
  | ORmdir p => match resolve s p with Ok (RFound _ e) => is_dir e = true /\ e_clu e = c | _ => False end
  | _ => False
  end.
Definition DDset (s : vol) (o : op) (c : N) : Prop :=
  match o with
  | ORename p _ => match resolve s p with Ok (RFound _ e) => is_dir e = true /\ e_clu e = c | _ => False end
  | _ => False
  end.
End Params.

Section Facts.
Variable upper : name -> name.
Variable V : vparams.
Hypothesis PW : params_wf V.
Notation P := (PP V).
Notation cs := (vp_cs V).
Notation limit := (vp_limit V).
Notation VolInv := (VolInv upper V).
Notation names_ok := (names_ok upper).
Notation hit := (Model.hit upper).
Notation lookup := (Model.lookup upper).
Notation resolve := (Model.resolve upper).

Lemma hit_unique l k x y : names_ok l -> In x l -> In y l -> hit k x = true -> hit k y = true -> x = y.
Proof.
  intros (N1 & N2 & X & _) Hx Hy A B. unfold Model.hit in A, B.
  apply orb_prop in A. apply orb_prop in B.
  destruct A as [A|A]; destruct B as [B|B]; apply beq_true in A; apply beq_true in B.
  - apply (NoDup_map_inj (fun e => upper (e_name e)) l x y N1 Hx Hy). congruence.
  - apply X; try assumption. congruence.
  - symmetry. apply X; try assumption. congruence.
  - apply (NoDup_map_inj e_alias l x y N2 Hx Hy). congruence.
Qed.
Lemma lookup_hits l k e : names_ok (lives l) -> lookup k l = Some e ->
  forall x, In x (lives l) -> hit k x = true -> x = e.
Proof. intros Nm L x Hx Hk. destruct (lookup_In upper _ _ _ L) as [He Hh]. apply (hit_unique (lives l) k); assumption. Qed.
Lemma lookup_none_hits l k : lookup k l = None -> forall x, In x (lives l) -> hit k x = true -> False.
Proof.
  intros L x Hx Hk. destruct (lookup_none upper _ _ L) as (F & _). rewrite Forall_forall in F. rewrite (F x Hx) in Hk. discriminate.
Qed.
Lemma alias_key_hits l e : names_ok l -> In e l -> forall x, In x l -> hit (upper (e_alias e)) x = true -> x = e.
Proof.
  intros Nm He x Hx Hk. assert (U : upper (e_alias e) = e_alias e) by (apply Nm, He).
  apply (hit_unique l (upper (e_alias e))); try assumption.
  rewrite U. unfold Model.hit. rewrite (beq_refl (e_alias e)). apply orb_true_r.
Qed.

Lemma file_chain_wf s k e : VolInv s -> In e (lives_of s k) -> is_dir e = false ->
  chain_wf P limit (ftbl (v_fat s)) (chn V (v_fat s) (e_clu e)).
Proof. intros I He Hd. apply (fi_wf _ _ _ (vi_fat _ _ _ I)). apply (In_owners V s k e He Hd). Qed.
Lemma dir_chain_wf s k : VolInv s -> in_store s k -> chain_wf P limit (ftbl (v_fat s)) (chn V (v_fat s) (dir_start V k)).
Proof. intros I Ik. apply (fi_wf _ _ _ (vi_fat _ _ _ I)). apply (In_owners_dir V s k Ik). Qed.

(* a well-formed chain whose entries keep their values is the same chain in the other table *)
Lemma chain_frame t t' m : chain_wf P limit t m -> length t' = length t -> (forall c, In c m -> get t' c = get t c) ->
  chain_wf P limit t' m.
Proof.
  intros [Nd R L E] Ln Fr. constructor.
  - exact Nd.
  - intros c Hc. destruct (R c Hc) as (A1 & A2 & A3 & A4). unfold in_area, len in *. rewrite Ln. auto.
  - apply (links_frame t); assumption.
  - destruct m as [|a r]; [exact I|]. cbn [ended] in *. rewrite Fr by (apply last_In; discriminate). exact E.
Qed.
Lemma chn_frame f f' c : chain_wf P limit (ftbl f) (chn V f c) -> length (ftbl f') = length (ftbl f) ->
  (forall x, In x (chn V f c) -> get (ftbl f') x = get (ftbl f) x) -> chn V f' c = chn V f c.
Proof. intros W Ln Fr. apply (chn_self V f c W). apply (chain_frame _ _ _ W Ln Fr). Qed.
End Facts.
