(* Main theorems of C15 (second sentence) at record level, stated without section context.
   Everywhere: [prefix_state s o n] = the state after the first n elementary stores of operation o
   started in s (a possible crash point); the guards are those of FatVol: params_wf V, VolInv s,
   op_guard s o (path components free of '~', a created name / alias collides with nothing).
   What an operation may touch is COMPUTED from (s, o) in ProofsOps:
     Tk s o k a        the entry with alias a in directory k is named by the operation
                       (the file itself for an overwrite; both paths of a rename; a created name)
     tchain s o        clusters of the chains it frees / rewrites (the target file; the removed
                       directory; the OLD target of a rename -- not the moved source)
     growdir s o       last cluster of the directory that receives a new entry (re-linked only)
     Dset / DDset      the directory created or removed / the moved directory ('..' rewritten). *)
From Coq Require Import List NArith Bool Lia Arith Permutation.
From NV Require Import Lib.Res FatAlloc.Model FatAlloc.ProofsBase FatAlloc.ProofsGrow.
From NV Require Import FatVol.Model FatVol.ProofsBase FatVol.ProofsFat FatVol.ProofsInv FatVol.ProofsWalk
     FatVol.ProofsOps FatVol.ProofsFatOps FatVol.ProofsFileOp FatVol.Proofs.
From NV Require Import FatCrash.Model FatCrash.ProofsBase FatCrash.ProofsRefine FatCrash.ProofsInv FatCrash.ProofsFatSteps
     FatCrash.ProofsSteps FatCrash.ProofsOps FatCrash.ProofsOpsA FatCrash.ProofsOpsB FatCrash.ProofsOpsC.
Import ListNotations.
Open Scope N_scope.

(* clusters whose FAT entry is stored, or which are zeroed, by a list of stores *)
Definition touched (l : list mstep) : list N :=
  flat_map (fun m => match m with MTbl c _ | MZero c | MZeroTail c => [c] | _ => [] end) l.

Section Main.
Variable upper : name -> name.
Variable V : vparams.
Hypothesis PW : params_wf V.
Notation P := (PP V).
Notation limit := (vp_limit V).
Notation VolInv := (VolInv upper V).
Notation lookup := (Model.lookup upper).
Notation resolve := (Model.resolve upper).
Notation run_m := (run_m upper).
Notation Tk := (Tk upper).

Definition prefix_state (s : vol) (o : op) (n : nat) : vol := run_m s (firstn n (micro upper V s o)).

(* ---------------- 1. the micro-steps decompose the proved operation ---------------- *)
Theorem micro_refines_step s o : VolInv s -> op_guard upper s o ->
  fold_left (apply_m upper) (micro upper V s o) s = fst (step upper V s o).
Proof. intros _ _. apply (micro_refines_step_uncond upper V s o). Qed.

(* ---------------- what is touched ---------------- *)
Lemma good_touched s0 T TC GL D DD l : forall s, good upper s0 T TC GL D DD s l ->
  forall c, In c (touched l) -> Amod s0 TC c \/ In c GL.
Proof.
  induction l as [|m r IH]; intros s G c Hc; [destruct Hc|]. destruct G as [G1 G2].
  unfold touched in Hc. cbn [flat_map] in Hc. apply in_app_or in Hc. destruct Hc as [Hc|Hc]; [|apply (IH _ G2 c Hc)].
  destruct m; cbn [ok_step] in G1; cbn in Hc; try contradiction; destruct Hc as [<-|[]]; try (left; exact G1).
  destruct G1 as [A|[G _]]; [left; exact A|right; exact G].
Qed.

Section State.
Variable s : vol.
Hypothesis VI : VolInv s.

(* the owner list split around one file entry / one directory *)
Lemma owners_split_file k e : In e (lives_of s k) -> is_dir e = false ->
  exists O', Permutation (owners V s) (e_clu e :: O') /\
    (forall k' e', In e' (lives_of s k') -> is_dir e' = false -> k' <> k \/ e' <> e -> In (e_clu e') O') /\
    (forall d, in_store s d -> In (dir_start V d) O').
Proof.
  intros He Hd. pose proof (lives_in_store s k e He) as Ik.
  destruct (owners_set_items V s k [] Ik) as (P1 & _).
  destruct (in_split _ _ He) as (l1 & l2 & El).
  exists (dir_start V k :: fclus (l1 ++ l2) ++ rest_owners V s k). split; [|split].
  - eapply perm_trans; [exact P1|]. rewrite El.
    eapply perm_trans; [apply perm_skip, Permutation_app_tail, fclus_mid|]. unfold own_of. rewrite Hd. cbn [app]. apply perm_swap.
  - intros k' e' He' Hd' Ne. right. apply in_or_app. destruct (N.eq_dec k' k) as [->|Hk].
    + left. apply In_fclus; [|exact Hd']. rewrite El in He'. apply in_mid in He'. destruct He' as [->|H]; [|exact H].
      destruct Ne; congruence.
    + right. apply (In_rest_owners V s k k' e' Hk He' Hd').
  - intros d Id. destruct (N.eq_dec d k) as [->|Hk]; [left; reflexivity|]. right. apply in_or_app. right.
    apply (In_rest_owners_dir V s k d Hk Id).
Qed.
Lemma owners_split_dir d : in_store s d ->
  exists O', Permutation (owners V s) (dir_start V d :: O') /\
    (forall k' e', In e' (lives_of s k') -> is_dir e' = false -> In (e_clu e') O') /\
    (forall d', in_store s d' -> d' <> d -> In (dir_start V d') O').
Proof.
  intros Id. destruct (owners_set_items V s d [] Id) as (P1 & _).
  exists (fclus (lives_of s d) ++ rest_owners V s d). split; [exact P1|]. split.
  - intros k' e' He' Hd'. apply in_or_app. destruct (N.eq_dec k' d) as [->|Hk].
    + left. apply In_fclus; assumption.
    + right. apply (In_rest_owners V s d k' e' Hk He' Hd').
  - intros d' Id' Ne. apply in_or_app. right. apply (In_rest_owners_dir V s d d' Ne Id').
Qed.
Lemma disjoint_from c O' o x : Permutation (owners V s) (c :: O') -> In o O' -> In x (chn V (v_fat s) c) -> ~ In x (chn V (v_fat s) o).
Proof.
  intros Pm Ho Hx. apply (FInv_disjoint V (v_fat s) O' c o x); try assumption.
  apply (FInv_perm V _ _ _ Pm). apply VI.
Qed.

Variable o : op.
Hypothesis G : op_guard upper s o.

(* a cluster of a target chain belongs to the entry a target path resolves to *)
Lemma tchain_cases x : In x (tchain upper V s o) ->
  exists p idx te, In p (targets o) /\ resolve s p = Ok (RFound idx te) /\ In x (chn V (v_fat s) (e_clu te)).
Proof.
  assert (F : forall p w, In x (file_chain upper V s p w) -> exists idx te, resolve s p = Ok (RFound idx te) /\ In x (chn V (v_fat s) (e_clu te))).
  { intros p w. unfold file_chain. destruct (resolve s p) as [[| |idx te]|err]; try (intros []).
    destruct (Bool.eqb (is_dir te) w); [|intros []]. intros H. exists idx, te. split; [reflexivity|exact H]. }
  destruct o as [p m a|p|p|p|p q]; cbn [tchain targets]; intros H; try destruct H.
  - destruct (F _ _ H) as (idx & te & R & Hx). exists p, idx, te. auto using in_eq.
  - destruct (F _ _ H) as (idx & te & R & Hx). exists p, idx, te. auto using in_eq.
  - destruct (F _ _ H) as (idx & te & R & Hx). exists p, idx, te. auto using in_eq.
  - destruct (F _ _ H) as (idx & te & R & Hx). exists q, idx, te. split; [right; left; reflexivity|auto].
Qed.
Lemma growdir_cases x : In x (growdir upper V s o) -> exists d, in_store s d /\ In x (chn V (v_fat s) (dir_start V d)).
Proof.
  assert (F : forall p, In x (grow_of upper V s p) -> exists d, in_store s d /\ In x (chn V (v_fat s) (dir_start V d))).
  { intros p. unfold grow_of. destruct (resolve s p) as [[| |i e]|err]; try (intros []).
    destruct (resolve s (parent p)) as [pr|err] eqn:Rp; [|intros []]. destruct (r_isdir pr) eqn:Dp; [|intros []].
    destruct (dir_cap V (r_index pr)); [intros []|]. intros H. exists (r_index pr). split; [|apply last_opt_In, H].
    apply (cur_dir_store upper V s pr VI); [|exact Dp]. apply (resolve_ok upper s _ _ Rp). intros ->. discriminate. }
  destruct o; cbn [growdir]; try (intros []); apply F.
Qed.

(* the chain of a file that the operation does not name meets neither the target chains nor the
   re-linked cluster, and none of its clusters is free *)
Lemma bystander_chain k e : In e (lives_of s k) -> is_dir e = false -> ~ Tk s o k (e_alias e) ->
  forall x, In x (chn V (v_fat s) (e_clu e)) -> ~ Amod s (tchain upper V s o) x /\ ~ In x (growdir upper V s o).
Proof.
  intros He Hd Nt x Hx. destruct (owners_split_file k e He Hd) as (O' & Pm & Of & Od). split.
  - intros [Z|Tc].
    + apply (chain_nonzero P limit _ _ (POK V) (file_chain_wf upper V s k e VI He Hd) x Hx Z).
    + destruct (tchain_cases x Tc) as (p & idx & te & Hp & R & Hte).
      destruct (found_in upper s p idx te R) as (pr & Rp & Dp & L & Ec & Ei).
      assert (Ht : In te (lives_of s (r_index pr))) by apply (lookup_In upper _ _ _ L).
      destruct (is_dir te) eqn:Dt.
      * destruct (vi_subdirs _ _ _ VI _ te Ht Dt) as (Nz & _ & Ic & _).
        assert (Ed : dir_start V (e_clu te) = e_clu te) by (unfold dir_start; destruct (N.eqb_spec (e_clu te) 0); [contradiction|reflexivity]).
        apply (disjoint_from _ O' (dir_start V (e_clu te)) x Pm (Od _ Ic) Hx). rewrite Ed. exact Hte.
      * apply (disjoint_from _ O' (e_clu te) x Pm); [|exact Hx|exact Hte].
        apply (Of (r_index pr) te Ht Dt). destruct (N.eq_dec (r_index pr) k) as [Ek|Nk]; [right|left; exact Nk].
        intros ->. apply Nt. rewrite <- Ek, <- Ec. apply (Tk_found upper s o p idx e Hp R).
  - intros Gl. destruct (growdir_cases x Gl) as (d & Id & Hd'). apply (disjoint_from _ O' (dir_start V d) x Pm (Od d Id) Hx Hd').
Qed.
End State.

(* ---------------- 2. files and directories the operation does not name ---------------- *)
Theorem bystanders_intact s o n : VolInv s -> op_guard upper s o ->
  let sn := prefix_state s o n in
  (* every look-up key (long name in any case, alias) that found an entry the operation does not
     name finds the IDENTICAL entry: same names, attributes, size, first cluster *)
  (forall k key e, lookup key (items_of s k) = Some e -> ~ Tk s o k (e_alias e) -> lookup key (items_of sn k) = Some e) /\
  (* its chain is the same list of clusters, every entry of it has its value, and no cluster of it
     was stored to (set, freed, re-linked) or zeroed by the prefix *)
  (forall k e, In e (lives_of s k) -> is_dir e = false -> ~ Tk s o k (e_alias e) ->
     chain_of V (v_fat sn) (e_clu e) = chain_of V (v_fat s) (e_clu e) /\
     forall c, In c (chain_of V (v_fat s) (e_clu e)) ->
       get (ftbl (v_fat sn)) c = get (ftbl (v_fat s)) c /\ ~ In c (touched (firstn n (micro upper V s o)))) /\
  (* dot records: '.' changes only in the directory created / removed, '..' also in a moved one *)
  (forall k, ~ Dset upper V s o k -> d_dot (get_dir sn k) = d_dot (get_dir s k) /\
     (~ DDset upper s o k -> d_dotdot (get_dir sn k) = d_dotdot (get_dir s k))).
Proof.
  intros VI G sn. pose proof (micro_good upper V PW s VI o G) as Gd. unfold goodo in Gd.
  pose proof (Invo_start upper V s VI o) as I0. unfold Invo in I0.
  pose proof (good_inv upper s _ _ _ _ _ s _ I0 Gd n) as Iv. fold (prefix_state s o n) in Iv. fold sn in Iv.
  split; [|split].
  - intros k key e L Nt. rewrite lookup_lives in L |- *. apply (sub_find upper (Tk s o k) key _ _ e (iv_ents _ _ _ _ _ _ _ Iv k) L Nt).
  - intros k e He Hd Nt. pose proof (bystander_chain s VI o G k e He Hd Nt) as B.
    pose proof (file_chain_wf upper V s k e VI He Hd) as W.
    assert (Fr : forall x, In x (chn V (v_fat s) (e_clu e)) -> get (ftbl (v_fat sn)) x = get (ftbl (v_fat s)) x).
    { intros x Hx. destruct (B x Hx) as [B1 B2]. apply (iv_frame _ _ _ _ _ _ _ Iv x B1 B2). }
    split; [apply (chn_frame V (v_fat s) (v_fat sn) _ W (iv_len _ _ _ _ _ _ _ Iv) Fr)|].
    intros c Hc. split; [apply Fr, Hc|]. intros Tc. destruct (B c Hc) as [B1 B2].
    destruct (good_touched s _ _ _ _ _ _ s (good_firstn upper s _ _ _ _ _ s _ n Gd) c Tc) as [A|A]; contradiction.
  - intros k Nd. split; [apply (iv_dot _ _ _ _ _ _ _ Iv k Nd)|]. intros Ndd. apply (iv_dots _ _ _ _ _ _ _ Iv k Nd Ndd).
Qed.

(* a path none of whose components selects an entry the operation names resolves as before *)
Fixpoint avoids (s : vol) (T : N -> name -> Prop) (cur : rres) (parts : list name) : Prop :=
  match parts with
  | [] => True
  | h :: rest => r_isdir cur = true /\ exists e, lookup (upper h) (items_of s (r_index cur)) = Some e /\
                 ~ T (r_index cur) (e_alias e) /\ avoids s T (RFound (if is_dir e then e_clu e else r_index cur) e) rest
  end.
Theorem bystander_paths_resolve s o n p : VolInv s -> op_guard upper s o -> avoids s (Tk s o) RRoot p ->
  resolve (prefix_state s o n) p = resolve s p.
Proof.
  intros VI G. destruct (bystanders_intact s o n VI G) as (L & _). cbv zeta in L. unfold Model.resolve.
  generalize RRoot. induction p as [|h rest IH]; intros cur A; [reflexivity|].
  destruct A as (Dc & e & Le & Nt & A). rewrite !walk_cons, Dc, (L _ _ _ Le Nt), Le. apply IH, A.
Qed.

(* ---------------- 3. what holds at every prefix: "inconsistent only in the target" ---------------- *)
Definition bystb (s : vol) (o : op) (ow : N) : bool :=
  forallb (fun x => negb (existsb (N.eqb x) (tchain upper V s o)) && negb (existsb (N.eqb x) (growdir upper V s o)))
          (chn V (v_fat s) ow).
Lemma existsb_eqb x l : existsb (N.eqb x) l = true <-> List.In x l.
Proof.
  rewrite existsb_exists. split; [intros (y & Hy & E); apply N.eqb_eq in E; subst; exact Hy|].
  intros H. exists x. split; [exact H|apply N.eqb_refl].
Qed.
Lemma bystb_spec s o ow : bystb s o ow = true <->
  forall x, List.In x (chn V (v_fat s) ow) -> ~ List.In x (tchain upper V s o) /\ ~ List.In x (growdir upper V s o).
Proof.
  unfold bystb. rewrite forallb_forall. split; intros H x Hx.
  - specialize (H x Hx). apply andb_prop in H. destruct H as [H1 H2]. apply negb_true_iff in H1, H2.
    split; intros Y; apply existsb_eqb in Y; congruence.
  - destruct (H x Hx) as [H1 H2]. apply andb_true_intro. split; apply negb_true_iff.
    + destruct (existsb (N.eqb x) (tchain upper V s o)) eqn:E; [apply existsb_eqb in E; contradiction|reflexivity].
    + destruct (existsb (N.eqb x) (growdir upper V s o)) eqn:E; [apply existsb_eqb in E; contradiction|reflexivity].
Qed.
Lemma NoDup_flat_map_filter {A} (f : A -> list N) (p : A -> bool) l : NoDup (flat_map f l) -> NoDup (flat_map f (filter p l)).
Proof.
  induction l as [|a l IH]; cbn [flat_map filter]; intros Nd; [constructor|].
  apply NoDup_app_inv in Nd. destruct Nd as (N1 & N2 & Dj). destruct (p a); [|apply IH, N2].
  cbn [flat_map]. apply NoDup_app_intro; [exact N1|apply IH, N2|].
  intros x Hx Hf. apply (Dj x Hx). apply in_flat_map in Hf. destruct Hf as (y & Hy & Hxy). apply in_flat_map.
  exists y. split; [apply filter_In in Hy; apply Hy|exact Hxy].
Qed.
(* a directory grows only in an operation that frees nothing *)
Lemma growdir_tchain s o x : List.In x (growdir upper V s o) -> tchain upper V s o = [].
Proof.
  assert (F : forall p w, List.In x (grow_of upper V s p) -> file_chain upper V s p w = []).
  { intros p w. unfold grow_of, file_chain. destruct (resolve s p) as [[| |i e]|err]; try (intros []). reflexivity. }
  destruct o; cbn [growdir tchain]; try (intros []); try reflexivity; apply F.
Qed.

Theorem prefix_inv_weak s o n : VolInv s -> op_guard upper s o ->
  let sn := prefix_state s o n in
  (* the FAT: same length; an entry that differs was free at the start, belongs to a chain the
     operation frees / rewrites, or is the re-linked last cluster of the receiving directory --
     and that one is never free *)
  length (ftbl (v_fat sn)) = length (ftbl (v_fat s)) /\
  (forall c, get (ftbl (v_fat sn)) c <> get (ftbl (v_fat s)) c ->
     get (ftbl (v_fat s)) c = 0 \/ List.In c (tchain upper V s o) \/ List.In c (growdir upper V s o)) /\
  (forall c, List.In c (growdir upper V s o) -> get (ftbl (v_fat sn)) c <> 0) /\
  (* every owner (file entry or directory) whose chain meets none of those clusters: its chain is
     unchanged and well-formed in the FAT of the prefix state; such chains are pairwise disjoint *)
  (forall ow, List.In ow (owners V s) -> bystb s o ow = true ->
     chn V (v_fat sn) ow = chn V (v_fat s) ow /\ chain_wf P limit (ftbl (v_fat sn)) (chn V (v_fat s) ow)) /\
  NoDup (flat_map (chn V (v_fat sn)) (filter (bystb s o) (owners V s))) /\
  (* these owners include every file the operation does not name *)
  (forall k e, List.In e (lives_of s k) -> is_dir e = false -> ~ Tk s o k (e_alias e) ->
     List.In (e_clu e) (filter (bystb s o) (owners V s))).
Proof.
  intros VI G sn. pose proof (micro_good upper V PW s VI o G) as Gd. unfold goodo in Gd.
  pose proof (Invo_start upper V s VI o) as I0. unfold Invo in I0.
  pose proof (good_inv upper s _ _ _ _ _ s _ I0 Gd n) as Iv. fold (prefix_state s o n) in Iv. fold sn in Iv.
  assert (Own : forall ow, List.In ow (owners V s) -> bystb s o ow = true ->
            chn V (v_fat sn) ow = chn V (v_fat s) ow /\ chain_wf P limit (ftbl (v_fat sn)) (chn V (v_fat s) ow)).
  { intros ow Ho B. rewrite bystb_spec in B. pose proof (fi_wf _ _ _ (vi_fat _ _ _ VI) ow Ho) as W.
    assert (Fr : forall x, List.In x (chn V (v_fat s) ow) -> get (ftbl (v_fat sn)) x = get (ftbl (v_fat s)) x).
    { intros x Hx. destruct (B x Hx) as [B1 B2]. apply (iv_frame _ _ _ _ _ _ _ Iv x); [|exact B2].
      intros [Z|Tc]; [apply (chain_nonzero P limit _ _ (POK V) W x Hx Z)|contradiction]. }
    split; [apply (chn_frame V (v_fat s) (v_fat sn) _ W (iv_len _ _ _ _ _ _ _ Iv) Fr)|].
    apply (chain_frame V _ _ _ W (iv_len _ _ _ _ _ _ _ Iv) Fr). }
  split; [apply Iv|]. split; [|split; [|split; [exact Own|split]]].
  - intros c Ne. destruct (N.eq_dec (get (ftbl (v_fat s)) c) 0) as [Z|Z]; [left; exact Z|].
    destruct (in_dec N.eq_dec c (tchain upper V s o)) as [Tc|Tc]; [right; left; exact Tc|].
    destruct (in_dec N.eq_dec c (growdir upper V s o)) as [Gl|Gl]; [right; right; exact Gl|].
    exfalso. apply Ne. apply (iv_frame _ _ _ _ _ _ _ Iv c); [intros [A|A]; contradiction|exact Gl].
  - intros c Gl. apply (iv_gl _ _ _ _ _ _ _ Iv c Gl). intros [Z|Tc].
    + apply (growdir_nz upper V s VI o c Gl Z).
    + rewrite (growdir_tchain s o c Gl) in Tc. destruct Tc.
  - assert (E : flat_map (chn V (v_fat sn)) (filter (bystb s o) (owners V s)) = flat_map (chn V (v_fat s)) (filter (bystb s o) (owners V s))).
    { assert (X : forall l, (forall ow, List.In ow l -> chn V (v_fat sn) ow = chn V (v_fat s) ow) ->
                             flat_map (chn V (v_fat sn)) l = flat_map (chn V (v_fat s)) l).
      { induction l as [|a l IH]; intros H; [reflexivity|]. cbn [flat_map]. rewrite (H a (or_introl eq_refl)). f_equal.
        apply IH. intros ow Ho. apply H. right. exact Ho. }
      apply X. intros ow Ho. apply filter_In in Ho. destruct Ho as [Ho B]. apply (proj1 (Own ow Ho B)). }
    rewrite E. apply NoDup_flat_map_filter. apply (fi_nodup _ _ _ (vi_fat _ _ _ VI)).
  - intros k e He Hd Nt. apply filter_In. split; [apply (In_owners V s k e He Hd)|]. apply bystb_spec.
    intros x Hx. destruct (bystander_chain s VI o G k e He Hd Nt x Hx) as [B1 B2]. split; [|exact B2].
    intros Tc. apply B1. right. exact Tc.
Qed.

(* ---------------- 4. directory chains stay readable ---------------- *)
Lemma chain_keeps_prefix t t' m : chain_wf P limit t m -> (forall c, List.In c (removelast m) -> get t' c = get t c) ->
  forall fuel, (length m <= fuel)%nat -> m <> [] -> exists ext, chain P t' fuel (hd 0 m) = m ++ ext.
Proof.
  intros [Nd R L E] Fr. clear Nd E. induction m as [|a r IH]; intros fuel Lf Hn; [congruence|].
  destruct fuel as [|fuel]; [cbn in Lf; lia|]. cbn [hd chain].
  destruct (R a (or_introl eq_refl)) as (A1 & _ & _ & A4).
  destruct (N.leb_spec (min_valid P) a); [|lia]. destruct (N.leb_spec a (max_valid P)); [|lia]. cbn [andb].
  destruct r as [|b r']; [exists (chain P t' fuel (get t' a)); reflexivity|].
  destruct L as [L1 L2]. rewrite Fr by (left; reflexivity). rewrite L1.
  destruct (IH (fun c H => R c (or_intror H)) L2) with (fuel := fuel) as (ext & Ex).
  - intros c Hc. apply Fr. right. exact Hc.
  - cbn [length] in *. lia.
  - discriminate.
  - cbn [hd] in Ex. rewrite Ex. exists ext. reflexivity.
Qed.
Lemma removelast_not_last (m : list N) : NoDup m -> m <> [] -> ~ List.In (last m 0) (removelast m).
Proof.
  intros Nd Hn H. rewrite (split_last m 0 Hn) in Nd. apply NoDup_app_inv in Nd. destruct Nd as (_ & _ & Dj).
  apply (Dj _ H). left. reflexivity.
Qed.
Lemma In_removelast (m : list N) x : List.In x (removelast m) -> List.In x m.
Proof.
  induction m as [|a [|b r] IH]; [intros []|intros []|]. intros H.
  change (removelast (a :: b :: r)) with (a :: removelast (b :: r)) in H.
  destruct H as [H|H]; [left; exact H|right; apply IH, H].
Qed.
Lemma growdir_last s o x : VolInv s -> List.In x (growdir upper V s o) ->
  exists g, in_store s g /\ chn V (v_fat s) (dir_start V g) <> [] /\ x = last (chn V (v_fat s) (dir_start V g)) 0.
Proof.
  intros VI. assert (F : forall p, List.In x (grow_of upper V s p) ->
    exists g, in_store s g /\ chn V (v_fat s) (dir_start V g) <> [] /\ x = last (chn V (v_fat s) (dir_start V g)) 0).
  { intros p. unfold grow_of. destruct (resolve s p) as [[| |i e]|err]; try (intros []).
    destruct (resolve s (parent p)) as [pr|err] eqn:Rp; [|intros []]. destruct (r_isdir pr) eqn:Dp; [|intros []].
    destruct (dir_cap V (r_index pr)); [intros []|]. intros H. exists (r_index pr).
    fold (chn V (v_fat s) (dir_start V (r_index pr))) in H. destruct (chn V (v_fat s) (dir_start V (r_index pr))) as [|a r] eqn:E; [destruct H|].
    cbn [last_opt] in H. destruct H as [<-|[]]. split; [|split; [discriminate|reflexivity]].
    apply (cur_dir_store upper V s pr VI); [|exact Dp]. apply (resolve_ok upper s _ _ Rp). intros ->. discriminate. }
  destruct o; cbn [growdir]; try (intros []); apply F.
Qed.

(* every directory of the start state, except the one rmdir removes: the chain it had is a prefix of
   its chain at every crash point (equal unless it receives the new entry): the records in its
   clusters stay where a reader finds them *)
Theorem dir_chains_readable s o n d : VolInv s -> op_guard upper s o -> in_store s d ->
  ~ (exists p, o = ORmdir p /\ Dset upper V s o d) ->
  exists ext, chn V (v_fat (prefix_state s o n)) (dir_start V d) = chn V (v_fat s) (dir_start V d) ++ ext.
Proof.
  intros VI G Id Nr. pose proof (micro_good upper V PW s VI o G) as Gd. unfold goodo in Gd.
  pose proof (Invo_start upper V s VI o) as I0. unfold Invo in I0.
  pose proof (good_inv upper s _ _ _ _ _ s _ I0 Gd n) as Iv. fold (prefix_state s o n) in Iv.
  set (sn := prefix_state s o n) in *. set (m := chn V (v_fat s) (dir_start V d)).
  destruct (nil_or_ne m) as [Em|Hn].
  { exists []. rewrite Em. cbn [app]. apply (chn_nil_same V (v_fat s)). exact Em. }
  pose proof (dir_chain_wf upper V s d VI Id) as W. fold m in W.
  destruct (owners_split_dir s d Id) as (O' & Pm & Of & Od).
  assert (Hd : hd 0 m = dir_start V d).
  { unfold m in *. destruct (chn_cases V (v_fat s) (dir_start V d)) as [[E _]|(r & E & _)]; [congruence|rewrite E; reflexivity]. }
  assert (Fr : forall c, List.In c (removelast m) -> get (ftbl (v_fat sn)) c = get (ftbl (v_fat s)) c).
  { intros c Hc. pose proof (In_removelast m c Hc) as Hm. apply (iv_frame _ _ _ _ _ _ _ Iv c).
    - intros [Z|Tc]; [apply (chain_nonzero P limit _ _ (POK V) W c Hm Z)|].
      destruct (tchain_cases s o G c Tc) as (p & idx & te & Hp & R & Hte).
      destruct (found_in upper s p idx te R) as (pr & Rp & Dp & L & Ec & Ei).
      assert (Ht : List.In te (lives_of s (r_index pr))) by apply (lookup_In upper _ _ _ L).
      destruct (is_dir te) eqn:Dt.
      + destruct (vi_subdirs _ _ _ VI _ te Ht Dt) as (Nz & _ & Ic & _).
        assert (Ed : dir_start V (e_clu te) = e_clu te) by (unfold dir_start; destruct (N.eqb_spec (e_clu te) 0); [contradiction|reflexivity]).
        destruct (N.eq_dec (e_clu te) d) as [Ecd|Ncd].
        * (* a directory chain among the target chains: only rmdir frees one *)
          apply Nr. destruct o as [q mo ac|q|q|q|q q']; cbn [tchain targets] in *.
          -- unfold file_chain in Tc. destruct Hp as [<-|[]]. rewrite R, Dt in Tc. destruct Tc.
          -- unfold file_chain in Tc. destruct Hp as [<-|[]]. rewrite R, Dt in Tc. destruct Tc.
          -- destruct Tc.
          -- exists q. split; [reflexivity|]. destruct Hp as [<-|[]]. cbn [Dset]. rewrite R. split; assumption.
          -- unfold file_chain in Tc. destruct (resolve s q') as [[| |i2 e2]|err] eqn:R2; try destruct Tc.
             destruct (is_dir e2) eqn:D2; [destruct Tc|]. cbn [Bool.eqb] in Tc.
             (* c lies in the chain of the FILE e2 and in the chain of directory d *)
             destruct (found_in upper s q' i2 e2 R2) as (pr2 & _ & _ & L2 & _ & _).
             assert (H2 : List.In e2 (lives_of s (r_index pr2))) by apply (lookup_In upper _ _ _ L2).
             exfalso. apply (disjoint_from s VI _ O' (e_clu e2) c Pm (Of _ e2 H2 D2) Hm Tc).
        * apply (disjoint_from s VI _ O' (dir_start V (e_clu te)) c Pm (Od _ Ic Ncd) Hm). rewrite Ed. exact Hte.
      + apply (disjoint_from s VI _ O' (e_clu te) c Pm (Of _ te Ht Dt) Hm Hte).
    - intros Gl. destruct (growdir_last s o c VI Gl) as (g & Ig & Ng & Ec).
      destruct (N.eq_dec g d) as [->|Ngd].
      + fold m in Ec. rewrite Ec in Hc. apply (removelast_not_last m (cw_nodup _ _ _ _ W) Hn Hc).
      + apply (disjoint_from s VI _ O' (dir_start V g) c Pm (Od _ Ig Ngd) Hm). rewrite Ec. apply last_In, Ng. }
  unfold chn, chain_of at 1. rewrite <- Hd. apply (chain_keeps_prefix _ _ m W Fr); [|exact Hn].
  rewrite (iv_len _ _ _ _ _ _ _ Iv).
  pose proof (NoDup_len_le m (ftbl (v_fat s)) (cw_nodup _ _ _ _ W)
                (fun c Hc => proj1 (proj2 (proj2 (cw_range _ _ _ _ W c Hc))))) as Le. unfold len in Le. lia.
Qed.
End Main.

Print Assumptions micro_refines_step.
Print Assumptions bystanders_intact.
Print Assumptions bystander_paths_resolve.
Print Assumptions prefix_inv_weak.
Print Assumptions dir_chains_readable.
