(* One FatFile session as micro-steps: the list consists of FAT stores and rewrites of ONE
   directory record; its effect is the FAT effect plus the LAST rewrite ([run_sess]).  Each phase
   of the session (open / action / close) is summarised by [phase]; composing the three gives
   [session_run]: folding [session_steps] = FatVol's [file_session]. *)
From Coq Require Import List NArith Bool Lia Arith.
From NV Require Import Lib.Res FatAlloc.Model FatAlloc.ProofsBase.
From NV Require Import FatVol.Model FatVol.ProofsBase FatCrash.Model FatCrash.ProofsBase.
Import ListNotations.
Open Scope N_scope.

Section Sess.
Variable upper : name -> name.
Variable V : vparams.
Notation P := (PP V).
Notation cs := (vp_cs V).
Notation limit := (vp_limit V).
Notation apply_m := (apply_m upper).
Notation run_m := (run_m upper).
Notation upd_item := (upd_item upper).
Notation hit := (hit upper).

Lemma hit_set_val k a sz cl e : hit k (set_val a sz cl e) = hit k e.
Proof. reflexivity. Qed.
Lemma upd_ext k f g l : (forall e, f e = g e) -> upd_item k f l = upd_item k g l.
Proof.
  intros H. induction l as [|[e|] r IH]; cbn [Model.upd_item]; [reflexivity| |f_equal; exact IH].
  destruct (hit k e); [rewrite H; reflexivity|f_equal; exact IH].
Qed.
Lemma upd_upd k f g l : (forall e, hit k (f e) = hit k e) ->
  upd_item k g (upd_item k f l) = upd_item k (fun e => g (f e)) l.
Proof.
  intros H. induction l as [|[e|] r IH]; cbn [Model.upd_item]; [reflexivity| |f_equal; exact IH].
  destruct (hit k e) eqn:E; cbn [Model.upd_item].
  - rewrite H, E. reflexivity.
  - rewrite E. f_equal. exact IH.
Qed.

Variables (idx : N) (key : name) (attr : N).
Definition upd1 (sz cl : N) : list mstep := [MUpd idx key attr sz cl].
Definition is_sess_step (m : mstep) : Prop := is_fat_step m \/ exists sz cl, m = MUpd idx key attr sz cl.
Definition sess_shape (l : list mstep) : Prop := Forall is_sess_step l.
Fixpoint last_upd (l : list mstep) : option (N * N) :=
  match l with
  | [] => None
  | m :: r => match last_upd r with
              | Some x => Some x
              | None => match m with MUpd _ _ _ sz cl => Some (sz, cl) | _ => None end
              end
  end.
Definition sess_result (s : vol) (f : fat) (o : option (N * N)) : vol :=
  match o with
  | None => set_fat s f
  | Some (sz, cl) => set_fat (set_items s idx (upd_item key (set_val attr sz cl) (items_of s idx))) f
  end.

Lemma shape_app a b : sess_shape a -> sess_shape b -> sess_shape (a ++ b).
Proof. intros A B. apply Forall_app. split; assumption. Qed.
Lemma shape_fat l : fat_only l -> sess_shape l.
Proof. intros F. eapply Forall_impl; [|exact F]. intros m H. left. exact H. Qed.
Lemma shape_upd sz cl : sess_shape (upd1 sz cl).
Proof. constructor; [right; eauto|constructor]. Qed.
Lemma last_upd_app a b : last_upd (a ++ b) = match last_upd b with Some x => Some x | None => last_upd a end.
Proof.
  induction a as [|m r IH]; cbn [app last_upd]; [destruct (last_upd b); reflexivity|].
  rewrite IH. destruct (last_upd b); reflexivity.
Qed.
Lemma last_upd_fat l : fat_only l -> last_upd l = None.
Proof.
  induction 1 as [|m r Hm _ IH]; [reflexivity|]. cbn [last_upd]. rewrite IH. destruct m; try destruct Hm; reflexivity.
Qed.
Lemma fat_run_upd sz cl f : fat_run (upd1 sz cl) f = f.
Proof. reflexivity. Qed.

(* the effect of a session-shaped list: its FAT effect and its last record rewrite *)
Lemma run_sess l : forall s, sess_shape l -> run_m s l = sess_result s (fat_run l (v_fat s)) (last_upd l).
Proof.
  induction l as [|m r IH]; intros s Sh.
  - cbn. symmetry. apply set_fat_self.
  - inversion Sh as [|? ? Hm Sr]; subst. rewrite run_cons, (IH _ Sr). destruct Hm as [Hf|(sz & cl & ->)].
    + assert (L : last_upd (m :: r) = last_upd r).
      { cbn [last_upd]. destruct (last_upd r); [reflexivity|]. destruct m; try destruct Hf; reflexivity. }
      rewrite L. destruct m; try destruct Hf; destruct (last_upd r) as [[a b]|]; reflexivity.
    + cbn [last_upd]. destruct (last_upd r) as [[sz2 cl2]|].
      * cbn [sess_result Model.apply_m]. rewrite items_set_items_same, set_items_twice.
        rewrite upd_upd by (intros e; apply hit_set_val). reflexivity.
      * reflexivity.
Qed.

(* ---------------- phases of a session ---------------- *)
Definition phase (l : list mstep) (st st' : fstate) (wb : bool) : Prop :=
  sess_shape l /\ fat_run l (sfat st) = sfat st' /\
  last_upd l = (if wb then Some (size st', hd 0 (map st')) else None) /\
  (wb = false -> size st' = size st /\ hd 0 (map st') = hd 0 (map st)).

Lemma phase_nil st : phase [] st st false.
Proof. repeat split; constructor. Qed.
Lemma phase_app l1 l2 a b c w1 w2 : phase l1 a b w1 -> phase l2 b c w2 -> phase (l1 ++ l2) a c (w1 || w2).
Proof.
  intros (S1 & F1 & L1 & K1) (S2 & F2 & L2 & K2). split; [apply shape_app; assumption|]. split; [|split].
  - rewrite fat_run_app, F1. exact F2.
  - rewrite last_upd_app, L2. destruct w2; [rewrite orb_true_r; reflexivity|]. rewrite orb_false_r, L1.
    destruct w1; [|reflexivity]. destruct (K2 eq_refl) as [-> ->]. reflexivity.
  - intros H. apply orb_false_iff in H. destruct H as [-> ->].
    destruct (K1 eq_refl) as [E1 E2]. destruct (K2 eq_refl) as [E3 E4]. split; congruence.
Qed.
Lemma phase_from l st st0 st' wb : sfat st = sfat st0 -> size st = size st0 -> map st = map st0 ->
  phase l st st' wb -> phase l st0 st' wb.
Proof. intros E1 E2 E3 (S & F & L & K). unfold phase. rewrite <- E1, <- E2, <- E3. auto. Qed.
Lemma phase_keep l st st' : fat_only l -> fat_run l (sfat st) = sfat st' ->
  size st' = size st -> hd 0 (map st') = hd 0 (map st) -> phase l st st' false.
Proof. intros F R E1 E2. split; [apply shape_fat, F|]. split; [exact R|]. split; [apply last_upd_fat, F|auto]. Qed.
Lemma phase_upd_last l st st' : sess_shape l -> fat_run l (sfat st) = sfat st' ->
  phase (l ++ upd1 (size st') (hd 0 (map st'))) st st' true.
Proof.
  intros S R. split; [apply shape_app; [exact S|apply shape_upd]|]. split; [rewrite fat_run_app; exact R|].
  split; [rewrite last_upd_app; reflexivity|discriminate].
Qed.

Lemma truncate_size n st st' : truncate P cs limit n st = Ok st' -> size st' = n.
Proof.
  unfold truncate. destruct (N.eqb_spec n (size st)) as [E|E]; [intros H; inversion H; subst; auto|].
  cbn zeta. destruct (len (map st) <? N.max 1 (cdiv n cs)).
  - destruct (Nat.ltb _ _); [discriminate|]. intros H. inversion H. reflexivity.
  - destruct (N.max 1 (cdiv n cs) <? len (map st)); intros H; inversion H; reflexivity.
Qed.
Lemma truncate_same_size st : truncate P cs limit (size st) st = Ok st.
Proof. unfold truncate. rewrite N.eqb_refl. reflexivity. Qed.

(* truncate(n) with its _set_size *)
Lemma trunc_phase n st st' : truncate P cs limit n st = Ok st' ->
  phase (trunc_steps V n st ++ (if n =? size st then [] else upd1 n (hd 0 (map st')))) st st' (negb (n =? size st)).
Proof.
  intros T. destruct (N.eqb_spec n (size st)) as [E|E]; cbn [negb].
  - subst n. rewrite truncate_same_size in T. inversion T; subst st'.
    unfold trunc_steps. rewrite N.eqb_refl. apply phase_nil.
  - rewrite <- (truncate_size _ _ _ T) at 2. apply phase_upd_last; [apply shape_fat, fat_only_trunc|].
    rewrite fat_run_trunc, T. reflexivity.
Qed.
Lemma trunc_phase_err n st x : truncate P cs limit n st = Err x -> phase (trunc_steps V n st) st st false.
Proof.
  intros T. apply phase_keep; [apply fat_only_trunc| |reflexivity|reflexivity]. rewrite fat_run_trunc, T. reflexivity.
Qed.

(* write(buf) *)
Lemma shape_write n st : sess_shape (write_steps V upd1 n st).
Proof.
  unfold write_steps. destruct (size st <? pos st).
  - destruct (truncate P cs limit (pos st) st); [|apply shape_fat, fat_only_trunc]. cbv beta iota zeta.
    repeat apply shape_app; try apply shape_upd; apply shape_fat; [apply fat_only_trunc|apply fat_only_alloc].
  - cbv beta iota zeta. cbn [app]. apply shape_app; [apply shape_fat, fat_only_alloc|apply shape_upd].
Qed.
Lemma write_phase n st :
  phase (write_steps V upd1 n st) st (fst (write_clusters P cs limit n st))
        (negb ((size st <? pos st) && negb (is_ok (truncate P cs limit (pos st) st)))).
Proof.
  split; [apply shape_write|]. split; [apply fat_run_write; intros; reflexivity|].
  unfold write_steps, write_clusters. destruct (size st <? pos st) eqn:Pd; cbn [andb].
  - destruct (truncate P cs limit (pos st) st) as [st1|x] eqn:T; cbn [is_ok negb].
    + cbv beta iota zeta. cbn [fst size map]. split; [|discriminate].
      rewrite !last_upd_app. reflexivity.
    + cbn [fst]. split; [apply last_upd_fat, fat_only_trunc|auto].
  - cbv beta iota zeta. cbn [fst size map app negb]. split; [|discriminate]. rewrite last_upd_app. reflexivity.
Qed.

(* close() *)
Lemma close_phase st :
  phase (close_steps upd1 st) st (close_release true st)
        ((size st =? 0) && negb (match map st with [] => true | _ => false end)).
Proof.
  unfold close_steps, close_release. destruct (map st) as [|c r] eqn:M.
  - rewrite andb_false_r. apply phase_keep; try reflexivity. constructor.
  - cbn [negb]. rewrite andb_true_r. destruct (size st =? 0) eqn:Z; cbn [andb].
    + change (upd1 0 0) with (upd1 (size {| sfat := mark_free (sfat st) c; map := []; size := 0; pos := pos st |})
                                   (hd 0 (map {| sfat := mark_free (sfat st) c; map := []; size := 0; pos := pos st |}))).
      apply phase_upd_last; [apply shape_fat, fat_only_set|reflexivity].
    + apply phase_keep; try reflexivity. constructor.
Qed.

(* the action on the open handle *)
Lemma act_phase st1 a :
  phase (act_steps V upd1 st1 a) st1 (fst (fst (session_act V st1 a))) (snd (session_act V st1 a)).
Proof.
  destruct a as [| |p n|n]; cbn [act_steps session_act].
  - apply phase_nil.
  - cbn [fst snd]. apply (phase_upd_last [] st1 st1); [constructor|reflexivity].
  - cbn [fst snd]. destruct p as [q|].
    + apply (phase_from _ (seek q st1)); try reflexivity. apply write_phase.
    + apply write_phase.
  - destruct (truncate P cs limit n st1) as [st'|x] eqn:T; cbn [fst snd].
    + apply trunc_phase, T.
    + apply (trunc_phase_err _ _ _ T).
Qed.
End Sess.

Section Session.
Variable upper : name -> name.
Variable V : vparams.
Notation P := (PP V).
Notation cs := (vp_cs V).
Notation limit := (vp_limit V).
Notation run_m := (run_m upper).

Theorem session_run s idx e m a :
  run_m s (session_steps upper V s idx e m a) = fst (file_session upper V s idx e m a).
Proof.
  unfold session_steps, file_session, session_core.
  set (st0 := {| sfat := v_fat s; map := chain_of V (v_fat s) (e_clu e); size := e_size e; pos := 0 |}).
  set (key := upper (e_alias e)). set (attr := e_attr e).
  change (sess_upd upper idx e) with (upd1 idx key attr).
  destruct (match m with MW | MX => truncate P cs limit 0 st0 | MA => Ok (seek (size st0) st0) | MRW => Ok st0 end)
    as [st1|x] eqn:Init.
  - set (L0 := match m with
               | MW | MX => trunc_steps V 0 st0 ++ (if size st0 =? 0 then [] else upd1 idx key attr 0 (hd 0 (map st1)))
               | _ => [] end).
    set (wb1 := match m with MW | MX => negb (size st0 =? 0) | _ => false end).
    assert (P0 : phase idx key attr L0 st0 st1 wb1).
    { subst L0 wb1. destruct m.
      - rewrite (N.eqb_sym (size st0) 0). apply (trunc_phase V idx key attr 0 st0 st1 Init).
      - rewrite (N.eqb_sym (size st0) 0). apply (trunc_phase V idx key attr 0 st0 st1 Init).
      - inversion Init; subst st1. apply (phase_from idx key attr [] (seek (size st0) st0)); try reflexivity. apply phase_nil.
      - inversion Init; subst st1. apply phase_nil. }
    pose proof (act_phase V idx key attr st1 a) as P1.
    set (x := session_act V st1 a) in *. set (st2 := fst (fst x)) in *.
    pose proof (close_phase idx key attr st2) as P2.
    pose proof (phase_app idx key attr _ _ _ _ _ _ _ P0 (phase_app idx key attr _ _ _ _ _ _ _ P1 P2)) as PP.
    destruct PP as (Sh & Fr & Lu & _).
    rewrite (run_sess upper idx key attr _ s Sh). change (v_fat s) with (sfat st0). rewrite Fr, Lu.
    rewrite orb_assoc. cbn [fst].
    destruct (wb1 || snd x || (size st2 =? 0) && negb match map st2 with [] => true | _ :: _ => false end); reflexivity.
  - cbn [fst]. destruct m; try discriminate.
    + rewrite run_fat_only by apply fat_only_trunc. change (v_fat s) with (sfat st0).
      rewrite fat_run_trunc, Init. apply set_fat_self.
    + rewrite run_fat_only by apply fat_only_trunc. change (v_fat s) with (sfat st0).
      rewrite fat_run_trunc, Init. apply set_fat_self.
Qed.
End Session.
