(* [good] for FatDirectory.__setitem__: the growth of the directory's own chain (only its last
   cluster is re-linked, to clusters that were free), the compaction, the records of the group. *)
From Coq Require Import List NArith Bool Lia Arith.
From NV Require Import Lib.Res FatAlloc.Model FatAlloc.ProofsBase FatAlloc.ProofsGrow FatAlloc.ProofsWrite.
From NV Require Import FatVol.Model FatVol.ProofsBase FatVol.ProofsFat FatVol.ProofsInv FatVol.ProofsFatOps.
From NV Require Import FatCrash.Model FatCrash.ProofsBase FatCrash.ProofsSess FatCrash.ProofsRefine
     FatCrash.ProofsInv FatCrash.ProofsFatSteps FatCrash.ProofsSteps.
Import ListNotations.
Open Scope N_scope.

Lemma lives_skipn_strip l : lives (skipn (length (strip_tail l)) l) = [].
Proof.
  pose proof (firstn_skipn (length (strip_tail l)) l) as E. apply (f_equal lives) in E.
  rewrite lives_app, firstn_strip_tail, lives_strip_tail in E.
  rewrite <- (app_nil_r (lives l)) in E at 2. apply app_inv_head in E. exact E.
Qed.
Lemma skipn_exact {A} (a b : list A) : skipn (length a) (a ++ b) = b.
Proof. induction a as [|x a IH]; [reflexivity|exact IH]. Qed.

Section Append.
Variable upper : name -> name.
Variable V : vparams.
Notation P := (PP V).
Notation cs := (vp_cs V).
Notation limit := (vp_limit V).
Notation run_m := (run_m upper).
Hypothesis CS : 0 < cs.
Hypothesis LIM : limit <= max_valid P + 1.

Variable s0 : vol.
Variable T : N -> name -> Prop.
Variables TC GL : list N.
Variables D DD : N -> Prop.
Notation Amod := (Amod s0 TC).
Notation Inv := (Inv s0 T TC GL D DD).
Notation ok_fat := (ok_fat s0 TC GL).
Notation good := (good upper s0 T TC GL D DD).
Notation relink := (relink s0 TC GL).
Notation tk0 := (tk0 upper s0 T).
Notation tg := (tg).

(* growth of a directory: what is needed of its chain in the CURRENT state *)
Definition dir_ready (s : vol) (id : N) : Prop :=
  dir_cap V id = None ->
  in_rng V (dir_start V id) /\ chain_wf P limit (ftbl (v_fat s)) (chn V (v_fat s) (dir_start V id)) /\
  relink (last (chn V (v_fat s) (dir_start V id)) 0).

Lemma poke_ok s id i : Inv s -> dir_ready s id -> Forall ok_fat (poke_steps V s id i).
Proof.
  intros I R. unfold poke_steps. destruct (dir_cap V id) as [cap|] eqn:Cap; [constructor|].
  destruct (R Cap) as (Rg & W & Rl). cbv zeta. fold (chn V (v_fat s) (dir_start V id)).
  set (m := chn V (v_fat s) (dir_start V id)) in *.
  set (st := {| sfat := v_fat s; map := m; size := cs * len m; pos := 32 * i |}).
  unfold write_steps. cbv zeta. rewrite !app_nil_r.
  assert (Rl0 : map st = [] \/ relink (last (map st) 0)) by (right; exact Rl).
  destruct (size st <? pos st) eqn:Pd.
  - apply N.ltb_lt in Pd.
    pose proof (trunc_ok_dir upper V s0 T TC GL D DD s I (pos st) st eq_refl CS eq_refl Pd Rl0) as F1.
    destruct (truncate P cs limit (pos st) st) as [st1|x] eqn:Tr; [|exact F1].
    apply ok_app; [exact F1|].
    pose proof (Inv_after_fat upper s0 T TC GL D DD s _ I F1) as I1.
    assert (E1 : sfat st1 = v_fat (run_m s (trunc_steps V (pos st) st))).
    { rewrite (v_fat_run upper). change (v_fat s) with (sfat st). rewrite fat_run_trunc, Tr. reflexivity. }
    assert (Rl1 : map st1 = [] \/ relink (last (map st1) 0)).
    { destruct (truncate_map' V _ _ _ Tr) as [(new & M & Fn)|(Sh & _)].
      - right. rewrite M. destruct new as [|a new]; [rewrite app_nil_r; exact Rl|].
        left. apply (scan_amod upper V s0 T TC GL D DD s I st _ eq_refl). apply Fn. apply last_in_app_new. discriminate.
      - exfalso. assert (Ge : len (map st) <= N.max 1 (cdiv (pos st) cs)).
        { apply N.le_trans with (cdiv (pos st) cs); [|lia]. rewrite <- (cdiv_mul (len (map st)) cs CS).
          apply cdiv_mono; [exact CS|]. cbn [size st] in Pd. unfold st in *. cbn [size map] in *. lia. }
        lia. }
    rewrite ?app_nil_r. apply (proj1 (alloc_ok upper V s0 T TC GL D DD _ st1 _ I1 E1 Rl1)).
  - cbn [app]. rewrite ?app_nil_r. apply (proj1 (alloc_ok upper V s0 T TC GL D DD _ st s I eq_refl Rl0)).
Qed.

(* the directory's chain after an attempt to grow it *)
Lemma poke_ready s id i : Inv s -> dir_ready s id -> dir_ready (fst (try_poke V s id i)) id.
Proof.
  intros I R Cap. destruct (R Cap) as (Rg & W & Rl). split; [exact Rg|].
  unfold try_poke. rewrite Cap. cbv zeta. cbn [fst set_fat v_fat].
  fold (chn V (v_fat s) (dir_start V id)). set (m := chn V (v_fat s) (dir_start V id)) in *.
  set (st := {| sfat := v_fat s; map := m; size := cs * len m; pos := 32 * i |}).
  pose proof (dir_state_wf V LIM CS (v_fat s) (dir_start V id) W Rg (32 * i)) as Wst. fold m in Wst. fold st in Wst.
  destruct (write_wf P (POK V) cs limit CS LIM 32 st Wst) as (W' & (_ & new & E & _ & Fr & _) & _).
  set (r := write_clusters P cs limit 32 st) in *. cbn [map st] in E. unfold st in E. cbn [map] in E.
  assert (Hd : hd 0 (map (fst r)) = dir_start V id).
  { rewrite E. destruct (chn_ne V (v_fat s) (dir_start V id) Rg) as (x & Ex). fold m in Ex. rewrite Ex. reflexivity. }
  assert (Ch : chn V (sfat (fst r)) (dir_start V id) = map (fst r)).
  { rewrite <- Hd. apply (chn_of_wf V); [apply W'|]. rewrite E. destruct (chn_ne V (v_fat s) (dir_start V id) Rg) as (x & Ex).
    fold m in Ex. rewrite Ex. discriminate. }
  rewrite Ch. split; [apply W'|]. rewrite E. destruct new as [|a new]; [rewrite app_nil_r; exact Rl|].
  left. assert (Ia : In (last (m ++ a :: new) 0) (a :: new)) by (apply last_in_app_new; discriminate).
  destruct (Fr _ Ia) as (_ & _ & _ & Z). eapply (Inv_free upper); [exact I|exact Z].
Qed.

Lemma store_good s1 id items e : items_of s1 id = items -> ProofsInv.tg (T id) e -> good s1 (store_steps id items e).
Proof.
  intros E Te. unfold store_steps. destruct (Nat.ltb _ _ && (0 <? e_nlfn e)).
  - split; [|split; [|exact I]]; cbn [ok_step Model.apply_m].
    + rewrite E, lives_skipn_strip. split; [constructor|]. rewrite lives_app, lives_repeat_dead. cbn [lives app].
      constructor; [exact Te|constructor].
    + rewrite items_set_items_same, E, firstn_strip_tail, skipn_exact, lives_app, lives_repeat_dead. cbn [lives app].
      split; constructor; try constructor; exact Te.
  - split; [|exact I]. cbn [ok_step]. rewrite E, lives_skipn_strip. split; constructor; [exact Te|constructor].
Qed.

Theorem append_good s id e : Inv s -> dir_ready s id -> ProofsInv.tg (T id) e -> good s (append_steps V s id e).
Proof.
  intros I R Te. unfold append_steps. cbv zeta.
  set (i1 := base id + slots_of (strip_tail (items_of s id)) + (nslots e + 1) - 1).
  set (i2 := base id + slots_of (filter is_live (items_of s id)) + (nslots e + 1) - 1).
  pose proof (poke_ok s id i1 I R) as F1.
  destruct (snd (try_poke V s id i1)).
  - apply good_app. split; [apply good_fat, F1|]. rewrite run_poke. apply store_good; [apply try_poke_items|exact Te].
  - apply good_app. split; [apply good_fat, F1|]. rewrite run_poke.
    set (s1 := fst (try_poke V s id i1)).
    assert (I1 : Inv s1) by (unfold s1; rewrite <- (run_poke upper); apply Inv_after_fat; assumption).
    pose proof (poke_ready s id i1 I R) as R1. fold s1 in R1.
    pose proof (poke_ok s1 id i2 I1 R1) as F2.
    cbn [app]. split; [exact Logic.I|]. cbn [Model.apply_m]. unfold s1 at 2. rewrite try_poke_items. fold s1.
    apply good_app. split; [apply good_fat, F2|]. rewrite (run_poke_from upper V s1) by reflexivity.
    destruct (snd (try_poke V s1 id i2)); [|exact Logic.I].
    split; [|exact Logic.I]. cbn [ok_step].
    assert (Ei : items_of (set_fat (set_items s1 id (filter is_live (items_of s id))) (v_fat (fst (try_poke V s1 id i2)))) id
                 = filter is_live (items_of s id)) by apply (items_set_items_same s1).
    rewrite Ei, skipn_all. split; constructor; [exact Te|constructor].
Qed.

Theorem setitem_good s id nm attr sz cl : Inv s -> dir_ready s id -> tk0 id (upper nm) ->
  (forall e, make_entry upper id (items_of s id) nm attr cl = Ok e -> T id (e_alias e)) ->
  good s (setitem_steps upper V s id nm attr sz cl).
Proof.
  intros I R K Te. unfold setitem_steps. destruct (lookup upper (upper nm) (items_of s id)).
  - split; [|exact Logic.I]. cbn [ok_step]. apply (tgt_key_static upper s0 T TC GL D DD); assumption.
  - destruct (make_entry upper id (items_of s id) nm attr cl) as [e|x] eqn:M; [|exact Logic.I].
    apply append_good; [exact I|exact R|apply Te; reflexivity].
Qed.
End Append.
