(* Base facts about the micro-step semantics: runs, the FAT effect of a list of stores, the
   summary of a session-shaped list (FAT stores + rewrites of ONE directory record), and the
   store (put_dir) algebra needed to compare with FatVol's one-step operations. *)
From Coq Require Import List NArith Bool Lia Arith.
From NV Require Import Lib.Res FatAlloc.Model FatAlloc.ProofsBase.
From NV Require Import FatVol.Model FatVol.ProofsBase FatCrash.Model.
Import ListNotations.
Open Scope N_scope.

(* ---------------- the store ---------------- *)
Lemma put_put ds id a b : put_dir (put_dir ds id a) id b = put_dir ds id b.
Proof.
  induction ds as [|[k x] r IH]; cbn [put_dir].
  - rewrite N.eqb_refl. reflexivity.
  - destruct (N.eqb_spec k id) as [->|Hn]; cbn [put_dir].
    + rewrite N.eqb_refl. reflexivity.
    + destruct (N.eqb_spec k id); [contradiction|]. f_equal. exact IH.
Qed.
Lemma set_fat_self s : set_fat s (v_fat s) = s.
Proof. destruct s; reflexivity. Qed.
Lemma set_items_twice s id l1 l2 : set_items (set_items s id l1) id l2 = set_items s id l2.
Proof.
  unfold set_items, get_dir. cbn [v_fat v_dirs]. rewrite find_put_same, put_put. reflexivity.
Qed.
Lemma items_set_items_same s id l : items_of (set_items s id l) id = l.
Proof. unfold items_of, get_dir, set_items. cbn [v_dirs]. rewrite find_put_same. reflexivity. Qed.
Lemma items_set_items_other s id l k : k <> id -> items_of (set_items s id l) k = items_of s k.
Proof. intros H. unfold items_of, get_dir, set_items. cbn [v_dirs]. rewrite find_put_other by exact H. reflexivity. Qed.

Lemma firstn_strip_tail l : firstn (length (strip_tail l)) l = strip_tail l.
Proof.
  induction l as [|i r IH]; [reflexivity|]. cbn [strip_tail].
  destruct (strip_tail r) as [|j r'] eqn:E.
  - destruct i as [e|]; [|reflexivity]. cbn [length firstn]. reflexivity.
  - assert (H : firstn (length (j :: r')) r = j :: r') by exact IH.
    destruct i as [e|]; cbn [length firstn] in *; rewrite H; reflexivity.
Qed.
Lemma strip_tail_length l : (length (strip_tail l) <= length l)%nat.
Proof.
  induction l as [|i r IH]; [apply le_n|]. cbn [strip_tail].
  destruct (strip_tail r) as [|j r'] eqn:E; destruct i as [e|]; cbn [length] in *; lia.
Qed.

Section Base.
Variable upper : name -> name.
Variable V : vparams.
Notation P := (PP V).
Notation cs := (vp_cs V).
Notation limit := (vp_limit V).
Notation apply_m := (apply_m upper).
Notation run_m := (run_m upper).
Notation upd_item := (upd_item upper).

Lemma run_app s a b : run_m s (a ++ b) = run_m (run_m s a) b.
Proof. unfold Model.run_m. apply fold_left_app. Qed.
Lemma run_nil s : run_m s [] = s.
Proof. reflexivity. Qed.
Lemma run_cons s m l : run_m s (m :: l) = run_m (apply_m s m) l.
Proof. reflexivity. Qed.

(* ---------------- the FAT effect of a list of stores ---------------- *)
Definition fat_eff (f : fat) (m : mstep) : fat :=
  match m with
  | MInfo c v => {| ftbl := ftbl f; finfo := note_set (ftbl f) (finfo f) c v |}
  | MTbl c v => {| ftbl := set (ftbl f) c v; finfo := finfo f |}
  | _ => f
  end.
Definition fat_run (l : list mstep) (f : fat) : fat := fold_left fat_eff l f.
Definition is_fat_step (m : mstep) : Prop :=
  match m with MInfo _ _ | MTbl _ _ | MZero _ | MZeroTail _ => True | _ => False end.
Definition fat_only (l : list mstep) : Prop := Forall is_fat_step l.

Lemma fat_run_app a b f : fat_run (a ++ b) f = fat_run b (fat_run a f).
Proof. unfold fat_run. apply fold_left_app. Qed.
Lemma fat_run_set c v f : fat_run (fat_set c v) f = fset f c v.
Proof. reflexivity. Qed.
Lemma fat_run_zeros l f : fat_run (List.map MZero l) f = f.
Proof. induction l as [|c r IH]; [reflexivity|]. cbn [List.map]. exact IH. Qed.
Lemma fat_only_app a b : fat_only a -> fat_only b -> fat_only (a ++ b).
Proof. intros A B. apply Forall_app. split; assumption. Qed.
Lemma fat_only_set c v : fat_only (fat_set c v).
Proof. repeat constructor. Qed.
Lemma fat_only_zeros l : fat_only (List.map MZero l).
Proof. induction l; constructor; [exact I|assumption]. Qed.

Lemma run_fat_only l : forall s, fat_only l -> run_m s l = set_fat s (fat_run l (v_fat s)).
Proof.
  induction l as [|m r IH]; intros s F.
  - cbn. symmetry. apply set_fat_self.
  - inversion F as [|? ? Hm Fr]; subst. rewrite run_cons, (IH _ Fr).
    destruct m; try destruct Hm; try reflexivity.
    all: cbn [Model.apply_m]; rewrite set_fat_self; reflexivity.
Qed.

(* free_steps = unlink_go *)
Lemma fat_only_free fuel : forall f c, fat_only (free_steps V fuel f c).
Proof.
  induction fuel as [|k IH]; intros f c; cbn [free_steps]; [constructor|].
  destruct ((min_valid P <=? c) && (c <=? max_valid P)); [|constructor].
  apply fat_only_app; [apply fat_only_set|apply IH].
Qed.
Lemma fat_run_free fuel : forall f c, fat_run (free_steps V fuel f c) f = unlink_go P fuel f c.
Proof.
  induction fuel as [|k IH]; intros f c; cbn [free_steps unlink_go]; [reflexivity|].
  destruct ((min_valid P <=? c) && (c <=? max_valid P)); [|reflexivity].
  rewrite fat_run_app, fat_run_set. apply IH.
Qed.
Lemma run_free_chain s c : run_m s (free_chain_steps V s c) = free_chain V s c.
Proof.
  unfold free_chain_steps, free_chain, unlink_chain.
  rewrite run_fat_only by apply fat_only_free. rewrite fat_run_free. reflexivity.
Qed.

(* link_steps = link_chain *)
Lemma fat_only_link l : fat_only (link_steps l).
Proof.
  induction l as [|a [|b r] IH]; cbn [link_steps]; try constructor.
  apply fat_only_app; [exact IH|apply fat_only_set].
Qed.
Lemma fat_run_link l f : fat_run (link_steps l) f = link_chain f l.
Proof.
  induction l as [|a [|b r] IH]; try reflexivity.
  change (link_steps (a :: b :: r)) with (link_steps (b :: r) ++ fat_set a b).
  change (link_chain f (a :: b :: r)) with (fset (link_chain f (b :: r)) a b).
  rewrite fat_run_app, IH. reflexivity.
Qed.
Lemma fat_only_frees l : fat_only (flat_map (fun c => fat_set c 0) l).
Proof. induction l as [|c r IH]; cbn [flat_map]; [constructor|]. apply fat_only_app; [apply fat_only_set|exact IH]. Qed.
Lemma fat_run_frees l : forall f, fat_run (flat_map (fun c => fat_set c 0) l) f = fold_left mark_free l f.
Proof. induction l as [|c r IH]; intros f; [reflexivity|]. cbn [flat_map fold_left]. rewrite fat_run_app, fat_run_set. apply IH. Qed.

(* truncate *)
Lemma fat_only_trunc n st : fat_only (trunc_steps V n st).
Proof.
  unfold trunc_steps. destruct (n =? size st); [constructor|]. cbn zeta.
  apply fat_only_app.
  - destruct ((size st <? n) && negb (len (map st) * cs - size st =? 0)); repeat constructor.
  - destruct (len (map st) <? N.max 1 (cdiv n cs)).
    + destruct (Nat.ltb _ _); [constructor|].
      apply fat_only_app; [apply fat_only_set|]. apply fat_only_app; [apply fat_only_zeros|apply fat_only_link].
    + destruct (N.max 1 (cdiv n cs) <? len (map st)); [|constructor].
      apply fat_only_app; [apply fat_only_set|apply fat_only_frees].
Qed.
Lemma fat_run_trunc n st :
  fat_run (trunc_steps V n st) (sfat st) =
  match truncate P cs limit n st with Ok st' => sfat st' | Err _ => sfat st end.
Proof.
  unfold trunc_steps, truncate. destruct (n =? size st); [reflexivity|]. cbn zeta.
  rewrite fat_run_app.
  assert (Z : forall (b : bool) c, fat_run (if b then [MZeroTail c] else []) (sfat st) = sfat st) by (intros [|] c; reflexivity).
  rewrite Z. clear Z.
  destruct (len (map st) <? N.max 1 (cdiv n cs)).
  - unfold tbl. destruct (Nat.ltb _ _); [reflexivity|]. cbn [sfat].
    rewrite fat_run_app, fat_run_set, fat_run_app, fat_run_zeros, fat_run_link. reflexivity.
  - destruct (N.max 1 (cdiv n cs) <? len (map st)); [|reflexivity]. cbn [sfat].
    rewrite fat_run_app, fat_run_set, fat_run_frees. reflexivity.
Qed.

(* the allocation loop *)
Lemma fat_only_alloc_one st : fat_only (alloc_one_steps V st).
Proof.
  unfold alloc_one_steps. destruct (free_scan _ _ _ _); [constructor|].
  apply fat_only_app; [apply fat_only_set|]. destruct (map st); [constructor|apply fat_only_set].
Qed.
Lemma fat_only_alloc k : forall st, fat_only (alloc_steps V k st).
Proof.
  induction k as [|k IH]; intros st; cbn [alloc_steps]; [constructor|].
  destruct (alloc_one P limit st); [|constructor]. apply fat_only_app; [apply fat_only_alloc_one|apply IH].
Qed.
Lemma fat_run_alloc k : forall st, fat_run (alloc_steps V k st) (sfat st) = sfat (fst (alloc_n P limit k st)).
Proof.
  induction k as [|k IH]; intros st; cbn [alloc_steps alloc_n]; [reflexivity|].
  destruct (alloc_one P limit st) as [st'|x] eqn:A; [|reflexivity].
  rewrite fat_run_app, <- IH. f_equal.
  unfold alloc_one in A. unfold alloc_one_steps.
  destruct (free_scan P (tbl st) limit (hint_of (sfat st))) as [|c rest]; [discriminate|].
  inversion A; subst st'. cbn [sfat]. rewrite fat_run_app, fat_run_set.
  destruct (map st); reflexivity.
Qed.

(* write(): the FAT part, for any [upd] that stores no FAT entry *)
Section Write.
Variable upd : N -> N -> list mstep.
Hypothesis upd_fat : forall sz cl f, fat_run (upd sz cl) f = f.
Lemma fat_run_write n st :
  fat_run (write_steps V upd n st) (sfat st) = sfat (fst (write_clusters P cs limit n st)).
Proof.
  unfold write_steps, write_clusters. destruct (size st <? pos st) eqn:Pd.
  - pose proof (fat_run_trunc (pos st) st) as T.
    destruct (truncate P cs limit (pos st) st) as [st1|x]; [|exact T]. cbv beta iota zeta. cbn [fst sfat].
    rewrite !fat_run_app, T, !upd_fat, fat_run_alloc. reflexivity.
  - cbv beta iota zeta. cbn [fst sfat app]. rewrite fat_run_app, fat_run_alloc, upd_fat. reflexivity.
Qed.
End Write.
Lemma fat_only_write_nil n st : fat_only (write_steps V (fun _ _ => []) n st).
Proof.
  unfold write_steps. destruct (size st <? pos st).
  - destruct (truncate P cs limit (pos st) st); [|apply fat_only_trunc]. cbv beta iota zeta.
    rewrite !app_nil_r. apply fat_only_app; [apply fat_only_trunc|apply fat_only_alloc].
  - cbv beta iota zeta. rewrite app_nil_r. apply fat_only_alloc.
Qed.

Lemma run_poke s id imax : run_m s (poke_steps V s id imax) = fst (try_poke V s id imax).
Proof.
  unfold poke_steps, try_poke. destruct (dir_cap V id); [reflexivity|]. cbn zeta. cbn [fst].
  rewrite run_fat_only by apply fat_only_write_nil.
  change (v_fat s) with (sfat {| sfat := v_fat s; map := chain_of V (v_fat s) (dir_start V id);
                                 size := cs * len (chain_of V (v_fat s) (dir_start V id)); pos := 32 * imax |}) at 1.
  rewrite fat_run_write by reflexivity. reflexivity.
Qed.
Lemma try_poke_items s id imax k : items_of (fst (try_poke V s id imax)) k = items_of s k.
Proof. unfold try_poke. destruct (dir_cap V id); reflexivity. Qed.
Lemma try_poke_dirs s id imax : v_dirs (fst (try_poke V s id imax)) = v_dirs s.
Proof. unfold try_poke. destruct (dir_cap V id); reflexivity. Qed.
End Base.
