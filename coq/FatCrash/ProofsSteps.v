(* [good] for the composite generators: write / close / one session on a FILE, the growth of a
   DIRECTORY, __setitem__ of a new name (growth, compaction, the records). *)
From Coq Require Import List NArith Bool Lia Arith.
From NV Require Import Lib.Res FatAlloc.Model FatAlloc.ProofsBase FatAlloc.ProofsGrow FatAlloc.ProofsWrite.
From NV Require Import FatVol.Model FatVol.ProofsBase FatVol.ProofsFat FatVol.ProofsInv FatVol.ProofsFatOps.
From NV Require Import FatCrash.Model FatCrash.ProofsBase FatCrash.ProofsSess FatCrash.ProofsRefine
     FatCrash.ProofsInv FatCrash.ProofsFatSteps.
Import ListNotations.
Open Scope N_scope.

Section Steps.
Variable upper : name -> name.
Variable V : vparams.
Notation P := (PP V).
Notation cs := (vp_cs V).
Notation limit := (vp_limit V).
Notation run_m := (run_m upper).
Notation hit := (hit upper).

Variable s0 : vol.
Variable T : N -> name -> Prop.
Variables TC GL : list N.
Variables D DD : N -> Prop.
Notation Amod := (Amod s0 TC).
Notation Inv := (Inv s0 T TC GL D DD).
Notation ok_fat := (ok_fat s0 TC GL).
Notation good := (good upper s0 T TC GL D DD).
Notation relink := (relink s0 TC GL).

(* every entry of s0's directory that the key hits is a target *)
Definition tk0 (idx : N) (key : name) : Prop :=
  forall x, In x (lives_of s0 idx) -> hit key x = true -> T idx (e_alias x).

Lemma good_fat' l s : Forall ok_fat l -> good s l.
Proof. intros F. apply good_fat, F. Qed.
Lemma good_upd s idx key attr sz cl : Inv s -> tk0 idx key -> good s (upd1 idx key attr sz cl).
Proof. intros I K. split; [|exact Logic.I]. cbn [ok_step]. apply (tgt_key_static upper s0 T TC GL D DD); assumption. Qed.
Lemma good_nil s : good s [].
Proof. exact I. Qed.

(* the shrinking arm is the only one that cuts the map *)
Lemma truncate_map' n st st' : truncate P cs limit n st = Ok st' ->
  (exists new, map st' = map st ++ new /\ forall c, In c new -> In c (free_scan P (tbl st) limit (hint_of (sfat st)))) \/
  (N.max 1 (cdiv n cs) < len (map st) /\ exists k, map st' = firstn k (map st)).
Proof.
  unfold truncate. destruct (n =? size st); [intros H; inversion H; subst; left; exists []; rewrite app_nil_r; split; [reflexivity|intros c []]|].
  cbv zeta. destruct (len (map st) <? N.max 1 (cdiv n cs)).
  - destruct (Nat.ltb _ _); [discriminate|]. intros H. inversion H; subst. cbn [map]. left. eexists. split; [reflexivity|].
    intros c Hc. apply (In_firstn _ _ _ Hc).
  - destruct (N.ltb_spec (N.max 1 (cdiv n cs)) (len (map st))) as [L|L]; intros H; inversion H; subst; cbn [map].
    + right. split; [exact L|]. eexists. reflexivity.
    + left. exists []. rewrite app_nil_r. split; [reflexivity|intros c []].
Qed.
Lemma truncate_map_amod s n st st' : Inv s -> sfat st = v_fat s -> (forall c, In c (map st) -> Amod c) ->
  truncate P cs limit n st = Ok st' -> forall c, In c (map st') -> Amod c.
Proof.
  intros I E Am Tr c Hc. destruct (truncate_map' n st st' Tr) as [(new & M & F)|(_ & k & M)]; rewrite M in Hc.
  - apply in_app_or in Hc. destruct Hc as [Hc|Hc]; [apply Am, Hc|]. apply (scan_amod upper V s0 T TC GL D DD s I st c E (F c Hc)).
  - apply Am, (In_firstn _ _ _ Hc).
Qed.

(* ---------------- phases of a session on a FILE ---------------- *)
Section File.
Variables (idx : N) (key : name) (attr : N).
Hypothesis K : tk0 idx key.
Notation upd := (upd1 idx key attr).
Notation phase := (phase idx key attr).

Definition gphase (l : list mstep) (st st' : fstate) : Prop :=
  fat_run l (sfat st) = sfat st' /\
  forall s, Inv s -> sfat st = v_fat s -> (forall c, In c (map st) -> Amod c) ->
            good s l /\ (forall c, In c (map st') -> Amod c).

Lemma gphase_app l1 l2 a b c : gphase l1 a b -> gphase l2 b c -> gphase (l1 ++ l2) a c.
Proof.
  intros [F1 G1] [F2 G2]. split; [rewrite fat_run_app, F1; exact F2|]. intros s I E Am.
  destruct (G1 s I E Am) as [Ga Mb].
  assert (I' : Inv (run_m s l1)) by (apply (good_run upper s0 T TC GL D DD); assumption).
  assert (E' : sfat b = v_fat (run_m s l1)) by (rewrite (v_fat_run upper), <- E, F1; reflexivity).
  destruct (G2 _ I' E' Mb) as [Gb Mc]. split; [|exact Mc]. apply good_app. split; assumption.
Qed.
Lemma gphase_nil st : gphase [] st st.
Proof. split; [reflexivity|]. intros s I E Am. split; [exact Logic.I|exact Am]. Qed.
Lemma gphase_from l st st0 st' : sfat st = sfat st0 -> map st = map st0 -> gphase l st st' -> gphase l st0 st'.
Proof. intros E1 E2 [F G]. unfold gphase. rewrite <- E1, <- E2. split; assumption. Qed.

Lemma gphase_upd st sz cl : gphase (upd sz cl) st st.
Proof. split; [reflexivity|]. intros s I E Am. split; [apply good_upd; assumption|exact Am]. Qed.

Lemma gphase_trunc n st st' : truncate P cs limit n st = Ok st' ->
  gphase (trunc_steps V n st ++ (if n =? size st then [] else upd n (hd 0 (map st')))) st st'.
Proof.
  intros Tr. destruct (trunc_phase V idx key attr n st st' Tr) as (_ & Fr & _). split; [exact Fr|].
  intros s I E Am. split; [|apply (truncate_map_amod s n st st' I E Am Tr)].
  apply (good_app_inv upper s0 T TC GL D DD); [exact I|apply good_fat', (trunc_ok_file upper V s0 T TC GL D DD s I n st E Am)|].
  intros I'. destruct (n =? size st); [exact Logic.I|apply good_upd; assumption].
Qed.
Lemma gphase_trunc_err n st x : truncate P cs limit n st = Err x -> gphase (trunc_steps V n st) st st.
Proof.
  intros Tr. split; [rewrite fat_run_trunc, Tr; reflexivity|]. intros s I E Am.
  split; [apply good_fat', (trunc_ok_file upper V s0 T TC GL D DD s I n st E Am)|exact Am].
Qed.

Lemma gphase_write n st : gphase (write_steps V upd n st) st (fst (write_clusters P cs limit n st)).
Proof.
  destruct (write_phase V idx key attr n st) as (_ & Fr & _). split; [exact Fr|]. clear Fr.
  intros s I E Am. unfold write_steps, write_clusters. destruct (size st <? pos st) eqn:Pd.
  - destruct (truncate P cs limit (pos st) st) as [st1|x] eqn:Tr.
    + cbv beta iota zeta. cbn [fst map].
      destruct (trunc_phase V idx key attr (pos st) st st1 Tr) as (_ & Fr1 & _).
      assert (Ne : (pos st =? size st) = false) by (apply N.eqb_neq; apply N.ltb_lt in Pd; lia). rewrite Ne in Fr1.
      rewrite <- (truncate_size V _ _ _ Tr) in Fr1 at 2. rewrite (truncate_size V _ _ _ Tr) in Fr1.
      assert (G1 : good s (trunc_steps V (pos st) st ++ upd (size st1) (hd 0 (map st1)))).
      { apply (good_app_inv upper s0 T TC GL D DD); [exact I|apply good_fat', (trunc_ok_file upper V s0 T TC GL D DD s I _ st E Am)|].
        intros I'. apply good_upd; assumption. }
      pose proof (good_run upper s0 T TC GL D DD s _ I G1) as I1.
      assert (E1 : sfat st1 = v_fat (run_m s (trunc_steps V (pos st) st ++ upd (size st1) (hd 0 (map st1))))).
      { rewrite (v_fat_run upper), <- E. rewrite (truncate_size V _ _ _ Tr). symmetry. exact Fr1. }
      pose proof (truncate_map_amod s _ st st1 I E Am Tr) as Am1.
      set (k := N.to_nat ((if n =? 0 then 0 else cdiv (pos st + n) cs) - len (map st1))).
      assert (Rl : map st1 = [] \/ relink (last (map st1) 0)).
      { destruct (map st1) as [|x r] eqn:M; [left; reflexivity|right; left; apply Am1; rewrite <- M; apply last_In; rewrite M; discriminate]. }
      destruct (alloc_ok upper V s0 T TC GL D DD k st1 _ I1 E1 Rl) as (F & new & Mn & An). split.
      * apply good_app. split; [exact G1|].
        apply (good_app_inv upper s0 T TC GL D DD); [exact I1|apply good_fat', F|]. intros I'. apply good_upd; assumption.
      * intros c Hc. rewrite Mn in Hc. apply in_app_or in Hc. destruct Hc as [Hc|Hc]; [apply Am1, Hc|apply An, Hc].
    + cbn [fst]. split; [apply good_fat', (trunc_ok_file upper V s0 T TC GL D DD s I _ st E Am)|exact Am].
  - cbv beta iota zeta. cbn [fst map app].
    set (k := N.to_nat ((if n =? 0 then 0 else cdiv (pos st + n) cs) - len (map st))).
    assert (Rl : map st = [] \/ relink (last (map st) 0)).
    { destruct (map st) as [|x r] eqn:M; [left; reflexivity|right; left; apply Am; rewrite <- M; apply last_In; rewrite M; discriminate]. }
    destruct (alloc_ok upper V s0 T TC GL D DD k st s I E Rl) as (F & new & Mn & An). split.
    + apply (good_app_inv upper s0 T TC GL D DD); [exact I|apply good_fat', F|]. intros I'. apply good_upd; assumption.
    + intros c Hc. rewrite Mn in Hc. apply in_app_or in Hc. destruct Hc as [Hc|Hc]; [apply Am, Hc|apply An, Hc].
Qed.

Lemma gphase_close st : gphase (close_steps upd st) st (close_release true st).
Proof.
  destruct (close_phase idx key attr st) as (_ & Fr & _). split; [exact Fr|]. intros s I E Am.
  unfold close_steps, close_release. destruct (map st) as [|c r] eqn:M; [split; [exact Logic.I|rewrite M; exact Am]|].
  destruct (size st =? 0); cbn [andb map].
  - split; [|intros x []]. apply (good_app_inv upper s0 T TC GL D DD); [exact I| |intros I'; apply good_upd; assumption].
    apply good_fat', ok_set_amod, Am. left. reflexivity.
  - split; [exact Logic.I|rewrite M; exact Am].
Qed.

Lemma gphase_act st1 a : gphase (act_steps V upd st1 a) st1 (fst (fst (session_act V st1 a))).
Proof.
  destruct a as [| |p n|n]; cbn [act_steps session_act fst].
  - apply gphase_nil.
  - apply gphase_upd.
  - destruct p as [q|]; [|apply gphase_write]. apply (gphase_from _ (seek q st1)); try reflexivity. apply gphase_write.
  - destruct (truncate P cs limit n st1) as [st'|x] eqn:Tr; cbn [fst].
    + apply gphase_trunc, Tr.
    + apply (gphase_trunc_err _ _ _ Tr).
Qed.
End File.

Theorem session_good s idx e m a : Inv s ->
  (forall c, In c (chain_of V (v_fat s) (e_clu e)) -> Amod c) -> tk0 idx (upper (e_alias e)) ->
  good s (session_steps upper V s idx e m a).
Proof.
  intros I Am K. unfold session_steps.
  set (st0 := {| sfat := v_fat s; map := chain_of V (v_fat s) (e_clu e); size := e_size e; pos := 0 |}).
  set (key := upper (e_alias e)). set (attr := e_attr e).
  change (sess_upd upper idx e) with (upd1 idx key attr).
  destruct (match m with MW | MX => truncate P cs limit 0 st0 | MA => Ok (seek (size st0) st0) | MRW => Ok st0 end)
    as [st1|x] eqn:Init.
  - assert (G0 : gphase
             (match m with
              | MW | MX => trunc_steps V 0 st0 ++ (if size st0 =? 0 then [] else upd1 idx key attr 0 (hd 0 (map st1)))
              | _ => [] end) st0 st1).
    { destruct m.
      - rewrite (N.eqb_sym (size st0) 0). apply gphase_trunc; assumption.
      - rewrite (N.eqb_sym (size st0) 0). apply gphase_trunc; assumption.
      - inversion Init; subst st1. apply (gphase_from [] (seek (size st0) st0)); try reflexivity. apply gphase_nil.
      - inversion Init; subst st1. apply gphase_nil. }
    assert (G1 : gphase (act_steps V (upd1 idx key attr) st1 a) st1 (fst (fst (session_act V st1 a)))) by (apply gphase_act; assumption).
    assert (G2 : gphase (close_steps (upd1 idx key attr) (fst (fst (session_act V st1 a)))) (fst (fst (session_act V st1 a)))
                        (close_release true (fst (fst (session_act V st1 a))))) by (apply gphase_close; assumption).
    destruct (gphase_app _ _ _ _ _ G0 (gphase_app _ _ _ _ _ G1 G2)) as [_ G].
    apply (G s I eq_refl Am).
  - destruct m; try discriminate; apply good_fat', (trunc_ok_file upper V s0 T TC GL D DD s I 0 st0 eq_refl Am).
Qed.
End Steps.
