(* [good] for unlink, rmdir and mkdir on a state with VolInv, with the parameters of ProofsOps. *)
From Coq Require Import List NArith Bool Lia Arith Permutation.
From NV Require Import Lib.Res FatAlloc.Model FatAlloc.ProofsBase FatAlloc.ProofsGrow.
From NV Require Import FatVol.Model FatVol.ProofsBase FatVol.ProofsFat FatVol.ProofsInv FatVol.ProofsWalk
     FatVol.ProofsOps FatVol.ProofsFatOps FatVol.ProofsAppend FatVol.ProofsFile FatVol.ProofsFileOp FatVol.Proofs.
From NV Require Import FatCrash.Model FatCrash.ProofsBase FatCrash.ProofsRefine FatCrash.ProofsInv FatCrash.ProofsFatSteps
     FatCrash.ProofsSteps FatCrash.ProofsAppendSteps FatCrash.ProofsOps.
Import ListNotations.
Open Scope N_scope.

Section OpsA.
Variable upper : name -> name.
Variable V : vparams.
Hypothesis PW : params_wf V.
Notation P := (PP V).
Notation cs := (vp_cs V).
Notation limit := (vp_limit V).
Notation VolInv := (VolInv upper V).
Notation hit := (Model.hit upper).
Notation lookup := (Model.lookup upper).
Notation resolve := (Model.resolve upper).
Notation run_m := (run_m upper).

Variable s0 : vol.
Hypothesis VI : VolInv s0.

Definition goodo (o : op) (s : vol) (l : list mstep) : Prop :=
  good upper s0 (Tk upper s0 o) (tchain upper V s0 o) (growdir upper V s0 o) (Dset upper V s0 o) (DDset upper s0 o) s l.
Definition Invo (o : op) (s : vol) : Prop :=
  Inv s0 (Tk upper s0 o) (tchain upper V s0 o) (growdir upper V s0 o) (Dset upper V s0 o) (DDset upper s0 o) s.

(* the last clusters listed for growth are allocated *)
Lemma grow_of_nz p c : In c (grow_of upper V s0 p) -> get (ftbl (v_fat s0)) c <> 0.
Proof.
  unfold grow_of. destruct (resolve s0 p) as [[| |i e]|x]; try (intros []).
  destruct (resolve s0 (parent p)) as [pr|x] eqn:Rp; [|intros []].
  destruct (r_isdir pr) eqn:Dp; [|intros []]. destruct (dir_cap V (r_index pr)); [intros []|].
  intros H. apply last_opt_In in H.
  assert (Ii : in_store s0 (r_index pr)).
  { apply (cur_dir_store upper V s0 pr VI); [|exact Dp]. apply (resolve_ok upper s0 _ _ Rp). intros ->. discriminate. }
  apply (chain_nonzero P limit _ _ (POK V) (dir_chain_wf upper V s0 _ VI Ii) c H).
Qed.
Lemma growdir_nz o c : In c (growdir upper V s0 o) -> get (ftbl (v_fat s0)) c <> 0.
Proof. destruct o; cbn [growdir]; try (intros []); apply grow_of_nz. Qed.
Lemma Invo_start o : Invo o s0.
Proof. apply Inv_start; [apply growdir_nz|apply VI]. Qed.

(* freeing the chain of a target *)
Lemma free_target_ok o s c : v_fat s = v_fat s0 -> chain_wf P limit (ftbl (v_fat s0)) (chn V (v_fat s0) c) ->
  (forall x, In x (chn V (v_fat s0) c) -> In x (tchain upper V s0 o)) ->
  Forall (ok_fat s0 (tchain upper V s0 o) (growdir upper V s0 o)) (free_chain_steps V s c).
Proof.
  intros E W Sub. unfold free_chain_steps. rewrite E.
  apply (free_steps_ok upper V s0 (Tk upper s0 o) (tchain upper V s0 o) (growdir upper V s0 o) (Dset upper V s0 o) (DDset upper s0 o)
           _ (chn V (v_fat s0) c)).
  - exact W.
  - intros Em. destruct (chn_cases V (v_fat s0) c) as [[_ N]|(r & Er & _)]; [exact N|congruence].
  - destruct (chn_cases V (v_fat s0) c) as [[Em _]|(r & Er & _)]; rewrite ?Em, ?Er; reflexivity.
  - intros x Hx. right. apply Sub, Hx.
Qed.

(* the entry a path resolves to, in the directory that holds it *)
Lemma found_in s p idx e : resolve s p = Ok (RFound idx e) ->
  exists pr, resolve s (parent p) = Ok pr /\ r_isdir pr = true /\
             lookup (upper (leaf p)) (items_of s (r_index pr)) = Some e /\ cont upper s p idx e = r_index pr /\
             idx = (if is_dir e then e_clu e else r_index pr).
Proof.
  intros R. destruct (resolve_found upper s p idx e R) as (pr & _ & Rp & Dp & L & Ei).
  exists pr. repeat split; try assumption. unfold cont. rewrite Rp. destruct (is_dir e); [reflexivity|exact Ei].
Qed.
Lemma Tk_found o p idx e : In p (targets o) -> resolve s0 p = Ok (RFound idx e) ->
  Tk upper s0 o (cont upper s0 p idx e) (e_alias e).
Proof.
  intros Hp R. unfold Tk, tkeys. apply in_flat_map. exists p. split; [exact Hp|]. unfold tkey_of. rewrite R. left. reflexivity.
Qed.
(* the key of `del index[name]` / of an in-place rewrite hits the target only *)
Lemma tgt_key_found o p idx e : In p (targets o) -> resolve s0 p = Ok (RFound idx e) ->
  tk0 upper s0 (Tk upper s0 o) (cont upper s0 p idx e) (upper (leaf p)).
Proof.
  intros Hp R x Hx Hk. destruct (found_in s0 p idx e R) as (pr & Rp & Dp & L & Ec & _). rewrite Ec in *.
  rewrite (lookup_hits upper _ _ _ (vi_names _ _ _ VI (r_index pr)) L x Hx Hk). rewrite <- Ec. apply Tk_found; assumption.
Qed.

Lemma tgt_static o s id key : Invo o s -> tk0 upper s0 (Tk upper s0 o) id key -> tgt_key upper (Tk upper s0 o) s id key.
Proof. intros I K. unfold Invo in I. eapply tgt_key_static; eassumption. Qed.

Theorem unlink_good p : goodo (OUnlink p) s0 (unlink_steps upper V s0 p).
Proof.
  unfold goodo, unlink_steps. destruct (negb (valid_parts p)); [exact I|].
  destruct (resolve s0 p) as [r|x] eqn:R; [|exact I].
  destruct (negb (r_exists r)); [exact I|]. destruct (r_isdir r) eqn:Dr; [exact I|].
  destruct r as [| |idx e]; try exact I. cbn [r_isdir] in Dr.
  destruct (found_in s0 p idx e R) as (pr & Rp & Dp & L & Ec & Ei). rewrite Dr in Ei.
  assert (He : In e (lives_of s0 idx)) by (subst idx; apply (lookup_In upper _ _ _ L)).
  split.
  - cbn [ok_step]. apply (tgt_static (OUnlink p)); [apply Invo_start|].
    pose proof (tgt_key_found (OUnlink p) p idx e (or_introl eq_refl) R) as K.
    unfold cont in K. rewrite Dr in K. exact K.
  - apply good_fat. apply (free_target_ok (OUnlink p)); [reflexivity|apply (file_chain_wf upper V s0 idx e VI He Dr)|].
    intros x Hx. cbn [tchain]. unfold file_chain. rewrite R, Dr. exact Hx.
Qed.

Theorem rmdir_good p : goodo (ORmdir p) s0 (rmdir_steps upper V s0 p).
Proof.
  unfold goodo, rmdir_steps. destruct (negb (valid_parts p)); [exact I|].
  destruct (resolve s0 p) as [r|x] eqn:R; [|exact I].
  destruct (negb (r_exists r)); [exact I|]. destruct (r_isdir r) eqn:Dr; [|exact I]. cbn [negb]. cbv zeta.
  destruct (r_cluster r =? 0) eqn:Z; [exact I|]. destruct (lives (items_of s0 (r_index r))) eqn:Em; [|exact I].
  destruct (resolve s0 (parent p)) as [pr|x] eqn:Rp; [|exact I].
  destruct r as [| |idx e]; [discriminate|cbn in Z; discriminate|]. cbn [r_isdir r_cluster r_index] in *.
  destruct (found_in s0 p idx e R) as (pr' & Rp' & Dp & L & Ec & Ei). rewrite Rp in Rp'. inversion Rp'; subst pr'. rewrite Dr in Ei.
  assert (He : In e (lives_of s0 (r_index pr))) by apply (lookup_In upper _ _ _ L).
  destruct (vi_subdirs _ _ _ VI _ e He Dr) as (Nz & _ & Ic & _).
  assert (Dc : Dset upper V s0 (ORmdir p) (e_clu e) /\ lives_of s0 (e_clu e) = []).
  { split; [cbn [Dset]; rewrite R; auto|]. subst idx. exact Em. }
  split; [|split].
  - cbn [ok_step]. apply (tgt_static (ORmdir p)); [apply Invo_start|].
    pose proof (tgt_key_found (ORmdir p) p idx e (or_introl eq_refl) R) as K. rewrite Ec in K. exact K.
  - exact Dc.
  - apply good_fat. apply (free_target_ok (ORmdir p)); [reflexivity| |].
    + assert (E : e_clu e = dir_start V (e_clu e)) by (unfold dir_start; destruct (N.eqb_spec (e_clu e) 0); [contradiction|reflexivity]).
      rewrite E. apply (dir_chain_wf upper V s0 _ VI Ic).
    + intros x Hx. cbn [tchain]. unfold file_chain. rewrite R, Dr. exact Hx.
Qed.
End OpsA.
