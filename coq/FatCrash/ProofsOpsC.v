(* [good] for rename, and for every operation ([micro_good]). *)
From Coq Require Import List NArith Bool Lia Arith Permutation.
From NV Require Import Lib.Res FatAlloc.Model FatAlloc.ProofsBase FatAlloc.ProofsGrow.
From NV Require Import FatVol.Model FatVol.ProofsBase FatVol.ProofsFat FatVol.ProofsInv FatVol.ProofsTree FatVol.ProofsWalk
     FatVol.ProofsOps FatVol.ProofsFatOps FatVol.ProofsAppend FatVol.ProofsFile FatVol.ProofsFileOp
     FatVol.ProofsRenameA FatVol.ProofsRenameF FatVol.Proofs.
From NV Require Import FatCrash.Model FatCrash.ProofsBase FatCrash.ProofsRefine FatCrash.ProofsInv FatCrash.ProofsFatSteps
     FatCrash.ProofsSteps FatCrash.ProofsAppendSteps FatCrash.ProofsOps FatCrash.ProofsOpsA FatCrash.ProofsOpsB.
Import ListNotations.
Open Scope N_scope.

Section OpsC.
Variable upper : name -> name.
Variable V : vparams.
Hypothesis PW : params_wf V.
Notation P := (PP V).
Notation cs := (vp_cs V).
Notation limit := (vp_limit V).
Notation VolInv := (VolInv upper V).
Notation hit := (Model.hit upper).
Notation lookup := (Model.lookup upper).
Notation resolve := (Model.resolve upper).
Notation run_m := (run_m upper).
Notation goodo := (goodo upper V).
Notation Invo := (Invo upper V).

Variable s0 : vol.
Hypothesis VI : VolInv s0.

Lemma goodo_one o s m : ok_step upper s0 (Tk upper s0 o) (tchain upper V s0 o) (growdir upper V s0 o) (Dset upper V s0 o) (DDset upper s0 o) s m ->
  goodo s0 o s [m].
Proof. intros H. split; [exact H|exact I]. Qed.

Theorem rename_good src tgt : guard_create upper s0 tgt -> goodo s0 (ORename src tgt) s0 (rename_steps upper V s0 src tgt).
Proof.
  intros G. set (o := ORename src tgt). pose proof (Invo_start upper V s0 VI o) as I0.
  unfold rename_steps. destruct (valid_parts src && valid_parts tgt) eqn:Vp; [|exact I]. cbn [negb].
  apply andb_prop in Vp. destruct Vp as [Vs Vt].
  destruct (resolve s0 src) as [r|x] eqn:R; [|exact I]. destruct (negb (r_exists r)); [exact I|].
  destruct r as [| |ridx se]; try exact I.
  destruct (if is_dir se then
              do b <- into_itself upper s0 (e_clu se) (parents_of tgt);
              if b then Err OSError_Other else do pr <- resolve s0 (parent src); Ok (r_index pr)
            else Ok ridx) as [sidx|x] eqn:Si; [|exact I].
  destruct (found_in upper s0 src ridx se R) as (prs & Rps & Dps & Ls & Ecs & Eis).
  assert (Es : sidx = r_index prs).
  { destruct (is_dir se).
    - destruct (into_itself upper s0 (e_clu se) (parents_of tgt)) as [[|]|x]; cbn [bind] in Si; try discriminate.
      rewrite Rps in Si. cbn [bind] in Si. inversion Si. reflexivity.
    - inversion Si. congruence. }
  assert (Ks : tk0 upper s0 (Tk upper s0 o) sidx (upper (leaf src))).
  { rewrite Es, <- Ecs. apply (tgt_key_found upper V s0 VI o src ridx se (or_introl eq_refl) R). }
  assert (DDc : is_dir se = true -> DDset upper s0 o (e_clu se)) by (intros Ds; cbn [DDset o]; rewrite R; auto).
  (* the stores after the preparation *)
  assert (Tail : forall s tidx (tclu : N) rest, Invo s0 o s -> tk0 upper s0 (Tk upper s0 o) tidx (upper (leaf tgt)) ->
            (forall s', Invo s0 o s' -> goodo s0 o s' rest) ->
            goodo s0 o s ([MUpd tidx (upper (leaf tgt)) (e_attr se) (e_size se) (e_clu se); MDel sidx (upper (leaf src))] ++ rest)).
  { intros s tidx tclu rest Is Kt Gr.
    change ([MUpd tidx (upper (leaf tgt)) (e_attr se) (e_size se) (e_clu se); MDel sidx (upper (leaf src))] ++ rest)
      with ([MUpd tidx (upper (leaf tgt)) (e_attr se) (e_size se) (e_clu se)] ++ [MDel sidx (upper (leaf src))] ++ rest).
    apply goodo_app; [apply goodo_one; cbn [ok_step]; apply (tgt_static upper V s0 o); assumption| |exact Is].
    intros I1. apply goodo_app; [apply goodo_one; cbn [ok_step]; apply (tgt_static upper V s0 o); assumption| |exact I1].
    intros I2. apply Gr, I2. }
  assert (DD : forall s (x : res rres), goodo s0 o s (if is_dir se then match x with Ok npr => [MDotDot (e_clu se) (r_cluster npr)] | Err _ => [] end else [])).
  { intros s x. destruct (is_dir se) eqn:Ds; [|exact I]. destruct x; [|exact I]. apply goodo_one. cbn [ok_step]. right. apply DDc. reflexivity. }
  destruct (resolve s0 tgt) as [tr|x] eqn:Rt; [|exact I]. cbv zeta.
  destruct tr as [| |tridx te].
  - (* the target is created by touch *)
    assert (G0 : goodo s0 o s0 (file_op_steps upper V s0 tgt MA ATouch)).
    { apply (file_op_good_gen upper V PW s0 VI o tgt MA ATouch); [right; left; reflexivity|exact G| |intros x Hx; exact Hx].
      intros idx e Re. rewrite Rt in Re. discriminate. }
    destruct (touch_missing upper V PW s0 tgt VI G Rt Vt) as (_ & Facts). cbv zeta in Facts.
    destruct (snd (touch upper V s0 tgt)) as [[]|err] eqn:Eo; [|exact G0].
    destruct (Facts eq_refl) as (prt & e & Rp & Dp & It & Ll & En & De & Ce & Lo & Ist). clear Facts.
    destruct (VolInv_tree upper V s0 VI) as (depth & Tr).
    assert (Stab : resolve (fst (touch upper V s0 tgt)) (parent tgt) = resolve s0 (parent tgt)).
    { apply (stable_same_above upper s0 depth _ (parent tgt) prt Tr Rp Dp); [intros d _ Hd; apply Lo, Hd|apply is_prefix_refl]. }
    rewrite Stab, Rp. cbn [N.eqb].
    apply goodo_app; [exact G0| |exact I0]. rewrite run_file_op. fold (touch upper V s0 tgt). intros I1.
    apply (Tail _ (r_index prt) 0); [exact I1| |].
    + intros x Hx Hk. exfalso.
      destruct (resolve_missing upper s0 tgt Rt) as [_ [Rn|(pr' & Rp' & _ & Ln)]]; [rewrite Rn in Rp; inversion Rp; subst; discriminate|].
      rewrite Rp in Rp'. inversion Rp'; subst pr'. apply (lookup_none_hits upper _ _ Ln x Hx Hk).
    + intros s' Is'. cbn [app]. apply DD.
  - exact I.
  - destruct (if is_dir te then do pr <- resolve s0 (parent tgt); Ok (r_index pr) else Ok tridx) as [tidx|x] eqn:Ti; [|exact I].
    destruct ((dir_start V tidx =? dir_start V sidx) && FatNames.Model.beq (e_alias te) (e_alias se)); [exact I|].
    destruct (is_dir te) eqn:Dt; [exact I|]. destruct (is_dir se) eqn:Ds; [exact I|]. inversion Ti; subst tidx. cbn [app].
    destruct (found_in upper s0 tgt tridx te Rt) as (prt & Rpt & Dpt & Lt & Ect & Eit). rewrite Dt in Eit.
    assert (Hte : In te (lives_of s0 tridx)) by (subst tridx; apply (lookup_In upper _ _ _ Lt)).
    apply (Tail _ tridx (e_clu te)); [exact I0| |].
    + pose proof (tgt_key_found upper V s0 VI o tgt tridx te (or_intror (or_introl eq_refl)) Rt) as K.
      unfold cont in K. rewrite Dt in K. exact K.
    + intros s' Is'. rewrite app_nil_r. destruct (e_clu te =? 0); [exact I|].
      apply good_fat. apply (free_target_ok upper V s0 o); [reflexivity|apply (file_chain_wf upper V s0 tridx te VI Hte Dt)|].
      intros x Hx. cbn [tchain o]. unfold file_chain. rewrite Rt, Dt. exact Hx.
Qed.

Theorem micro_good o : op_guard upper s0 o -> goodo s0 o s0 (micro upper V s0 o).
Proof.
  destruct o as [p m a|p|p|p|p q]; cbn [op_guard micro]; intros G.
  - apply (file_op_good upper V PW s0 VI). apply G.
  - apply (unlink_good upper V s0 VI).
  - apply (mkdir_good upper V PW s0 VI). apply G.
  - apply (rmdir_good upper V s0 VI).
  - apply rename_good. apply G.
Qed.
End OpsC.
