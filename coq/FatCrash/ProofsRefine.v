(* micro_refines_step: folding the micro-steps of an operation gives exactly the state of
   FatVol's [step] -- for every operation and every outcome, with no hypothesis on the state. *)
From Coq Require Import List NArith Bool Lia Arith.
From NV Require Import Lib.Res FatAlloc.Model FatAlloc.ProofsBase.
From NV Require Import FatVol.Model FatVol.ProofsBase FatCrash.Model FatCrash.ProofsBase FatCrash.ProofsSess.
Import ListNotations.
Open Scope N_scope.

Lemma firstn_exact {A} (a b : list A) : firstn (length a) (a ++ b) = a.
Proof. induction a as [|x a IH]; [destruct b; reflexivity|]. cbn. f_equal. exact IH. Qed.

Section Refine.
Variable upper : name -> name.
Variable V : vparams.
Notation P := (PP V).
Notation cs := (vp_cs V).
Notation limit := (vp_limit V).
Notation apply_m := (apply_m upper).
Notation run_m := (run_m upper).

Lemma try_poke_shape s id i : fst (try_poke V s id i) = set_fat s (v_fat (fst (try_poke V s id i))).
Proof. unfold try_poke. destruct (dir_cap V id); cbn [fst]; [symmetry; apply set_fat_self|reflexivity]. Qed.
Lemma poke_steps_fat s s' id i : v_fat s' = v_fat s -> poke_steps V s' id i = poke_steps V s id i.
Proof. intros H. unfold poke_steps. rewrite H. reflexivity. Qed.
Lemma run_poke_from s s' id i : v_fat s' = v_fat s ->
  run_m s' (poke_steps V s id i) = set_fat s' (v_fat (fst (try_poke V s id i))).
Proof.
  intros H. rewrite <- (poke_steps_fat s s' id i H), run_poke, (try_poke_shape s' id i).
  cbn [set_fat v_fat]. f_equal. unfold try_poke. rewrite H. destruct (dir_cap V id); cbn [fst]; [exact H|reflexivity].
Qed.

Lemma run_store s1 id items e : items_of s1 id = items ->
  run_m s1 (store_steps id items e) = set_items s1 id (strip_tail items ++ [Live e]).
Proof.
  intros H. unfold store_steps. destruct (Nat.ltb _ _ && (0 <? e_nlfn e)).
  - rewrite !run_cons, run_nil. cbn [Model.apply_m]. rewrite items_set_items_same, H, firstn_strip_tail, firstn_exact.
    apply set_items_twice.
  - rewrite run_cons, run_nil. cbn [Model.apply_m]. rewrite H, firstn_strip_tail. reflexivity.
Qed.

Lemma run_append s id e : run_m s (append_steps V s id e) = fst (dir_append V s id e).
Proof.
  unfold append_steps, dir_append. cbv zeta.
  set (i1 := base id + slots_of (strip_tail (items_of s id)) + (nslots e + 1) - 1).
  set (i2 := base id + slots_of (filter is_live (items_of s id)) + (nslots e + 1) - 1).
  destruct (snd (try_poke V s id i1)).
  - rewrite run_app, run_poke. cbn [fst]. apply run_store. apply try_poke_items.
  - rewrite run_app, run_poke. set (s1 := fst (try_poke V s id i1)).
    cbn [app]. rewrite run_cons. cbn [Model.apply_m]. unfold s1 at 2. rewrite try_poke_items. fold s1.
    rewrite run_app, run_poke_from by reflexivity.
    rewrite (try_poke_shape s1 id i2).
    destruct (snd (try_poke V s1 id i2)); cbn [fst].
    + rewrite run_cons, run_nil. cbn [Model.apply_m]. cbn [set_fat v_fat v_dirs].
      assert (E : items_of (set_fat (set_items s1 id (filter is_live (items_of s id))) (v_fat (fst (try_poke V s1 id i2)))) id
                  = filter is_live (items_of s id)) by apply (items_set_items_same s1).
      rewrite E, firstn_all. unfold set_items, get_dir. cbn [v_fat v_dirs set_fat]. rewrite find_put_same, put_put. reflexivity.
    + rewrite run_nil. reflexivity.
Qed.

Lemma run_setitem s id nm a sz cl :
  run_m s (setitem_steps upper V s id nm a sz cl) = fst (setitem upper V s id nm a sz cl).
Proof.
  unfold setitem_steps, setitem. destruct (lookup upper (upper nm) (items_of s id)); [reflexivity|].
  destruct (make_entry upper id (items_of s id) nm a cl) as [e|x]; [apply run_append|reflexivity].
Qed.

Lemma run_file_op s parts m a : run_m s (file_op_steps upper V s parts m a) = fst (file_op upper V s parts m a).
Proof.
  unfold file_op_steps, file_op. destruct (negb (valid_parts parts)); [reflexivity|].
  destruct (resolve upper s parts) as [r|x]; [|reflexivity].
  destruct (match m with MRW => negb (r_exists r) | _ => false end); [reflexivity|].
  destruct (match m with MX => r_exists r | _ => false end); [reflexivity|].
  destruct (r_isdir r); [reflexivity|].
  assert (C : forall s, run_m s
     match resolve upper s (parent parts) with
     | Ok pr =>
         if negb (r_exists pr) then [] else if negb (r_isdir pr) then [] else
         setitem_steps upper V s (r_index pr) (leaf parts) 32 0 0 ++
         match snd (setitem upper V s (r_index pr) (leaf parts) 32 0 0) with
         | Ok _ => match lookup upper (upper (leaf parts)) (items_of (fst (setitem upper V s (r_index pr) (leaf parts) 32 0 0)) (r_index pr)) with
                   | Some e => session_steps upper V (fst (setitem upper V s (r_index pr) (leaf parts) 32 0 0)) (r_index pr) e m a
                   | None => []
                   end
         | Err _ => []
         end
     | Err _ => []
     end =
     fst match resolve upper s (parent parts) with
     | Ok pr =>
         if negb (r_exists pr) then (s, Err FileNotFound) else if negb (r_isdir pr) then (s, Err NotADirectory) else
         match snd (setitem upper V s (r_index pr) (leaf parts) 32 0 0) with
         | Ok _ => match lookup upper (upper (leaf parts)) (items_of (fst (setitem upper V s (r_index pr) (leaf parts) 32 0 0)) (r_index pr)) with
                   | Some e => file_session upper V (fst (setitem upper V s (r_index pr) (leaf parts) 32 0 0)) (r_index pr) e m a
                   | None => (fst (setitem upper V s (r_index pr) (leaf parts) 32 0 0), Err KeyError)
                   end
         | Err e => (fst (setitem upper V s (r_index pr) (leaf parts) 32 0 0), Err e)
         end
     | Err x => (s, Err x)
     end).
  { intros s'. destruct (resolve upper s' (parent parts)) as [pr|x]; [|reflexivity].
    destruct (negb (r_exists pr)); [reflexivity|]. destruct (negb (r_isdir pr)); [reflexivity|].
    rewrite run_app, run_setitem. destruct (snd (setitem upper V s' (r_index pr) (leaf parts) 32 0 0)); [|reflexivity].
    destruct (lookup upper _ _); [apply session_run|reflexivity]. }
  destruct r as [| |idx e]; [apply C|apply C|apply session_run].
Qed.

Lemma run_free_chain_from s s' c : v_fat s' = v_fat s ->
  run_m s' (free_chain_steps V s c) = free_chain V s' c.
Proof.
  intros H. rewrite <- (run_free_chain upper V s' c). unfold free_chain_steps. rewrite H. reflexivity.
Qed.

Lemma run_unlink s parts : run_m s (unlink_steps upper V s parts) = fst (unlink upper V s parts).
Proof.
  unfold unlink_steps, unlink. destruct (negb (valid_parts parts)); [reflexivity|].
  destruct (resolve upper s parts) as [r|x]; [|reflexivity].
  destruct (negb (r_exists r)); [reflexivity|]. destruct (r_isdir r); [reflexivity|].
  destruct r as [| |idx e]; try reflexivity. rewrite run_cons. cbn [Model.apply_m fst].
  apply run_free_chain_from. reflexivity.
Qed.

Lemma run_new_dir s c pc : run_m s [MReg c; MDot c c; MDotDot c pc] = new_dir s c pc.
Proof.
  rewrite !run_cons, run_nil. cbn [Model.apply_m]. unfold set_dotdot, set_dot, reg_dir, new_dir, get_dir.
  cbn [v_fat v_dirs]. rewrite !find_put_same. cbn [d_items d_dot d_dotdot empty_dir]. rewrite !put_put. reflexivity.
Qed.

Lemma run_mkdir s parts : run_m s (mkdir_steps upper V s parts) = fst (mkdir upper V s parts).
Proof.
  unfold mkdir_steps, mkdir. destruct (negb (valid_parts parts)); [reflexivity|].
  destruct (resolve upper s parts) as [r|x]; [|reflexivity]. destruct (r_exists r); [reflexivity|].
  destruct (resolve upper s (parent parts)) as [pr|x]; [|reflexivity].
  destruct (negb (r_exists pr)); [reflexivity|]. destruct (negb (r_isdir pr)); [reflexivity|].
  destruct (make_entry upper (r_index pr) (items_of s (r_index pr)) (leaf parts) 16 0); [|reflexivity].
  destruct (free_scan P (ftbl (v_fat s)) limit (hint_of (v_fat s))) as [|c rest]; [reflexivity|]. cbv zeta.
  set (s1 := set_fat s (mark_end P (v_fat s) c)).
  rewrite run_app. change (run_m s (fat_set c (end_mark P))) with s1.
  rewrite run_app. change (run_m s1 [MZero c]) with s1. rewrite run_app, run_setitem.
  destruct (snd (setitem upper V s1 (r_index pr) (leaf parts) 16 0 c)); cbn [fst].
  - apply run_new_dir.
  - reflexivity.
Qed.

Lemma run_rmdir s parts : run_m s (rmdir_steps upper V s parts) = fst (rmdir upper V s parts).
Proof.
  unfold rmdir_steps, rmdir. destruct (negb (valid_parts parts)); [reflexivity|].
  destruct (resolve upper s parts) as [r|x]; [|reflexivity].
  destruct (negb (r_exists r)); [reflexivity|]. destruct (negb (r_isdir r)); [reflexivity|]. cbv zeta.
  destruct (r_cluster r =? 0); [reflexivity|]. destruct (lives (items_of s (r_index r))); [|reflexivity].
  destruct (resolve upper s (parent parts)) as [pr|x]; [|reflexivity].
  rewrite !run_cons. cbn [Model.apply_m fst]. rewrite run_free_chain_from by reflexivity. reflexivity.
Qed.

Lemma run_rename s src tgt : run_m s (rename_steps upper V s src tgt) = fst (rename upper V s src tgt).
Proof.
  unfold rename_steps, rename. destruct (negb (valid_parts src && valid_parts tgt)); [reflexivity|].
  destruct (resolve upper s src) as [r|x]; [|reflexivity]. destruct (negb (r_exists r)); [reflexivity|].
  destruct r as [| |ridx se]; try reflexivity.
  destruct (if is_dir se then _ else _) as [sidx|x]; [|reflexivity].
  destruct (resolve upper s tgt) as [tr|x]; [|reflexivity]. cbv zeta.
  (* the common tail, from the state s0 that the preparation leaves *)
  assert (Tail : forall l0 s0 tidx tclu, run_m s l0 = s0 ->
    run_m s (l0 ++ [MUpd tidx (upper (leaf tgt)) (e_attr se) (e_size se) (e_clu se); MDel sidx (upper (leaf src))] ++
       (if tclu =? 0 then [] else
          free_chain_steps V
            (set_items (set_items s0 tidx (upd_item upper (upper (leaf tgt)) (set_val (e_attr se) (e_size se) (e_clu se)) (items_of s0 tidx)))
               sidx (del_item upper (upper (leaf src))
                  (items_of (set_items s0 tidx (upd_item upper (upper (leaf tgt)) (set_val (e_attr se) (e_size se) (e_clu se)) (items_of s0 tidx))) sidx)))
            tclu) ++
       (if is_dir se then
          match resolve upper
                  (if tclu =? 0 then
                     set_items (set_items s0 tidx (upd_item upper (upper (leaf tgt)) (set_val (e_attr se) (e_size se) (e_clu se)) (items_of s0 tidx)))
                       sidx (del_item upper (upper (leaf src))
                          (items_of (set_items s0 tidx (upd_item upper (upper (leaf tgt)) (set_val (e_attr se) (e_size se) (e_clu se)) (items_of s0 tidx))) sidx))
                   else free_chain V
                     (set_items (set_items s0 tidx (upd_item upper (upper (leaf tgt)) (set_val (e_attr se) (e_size se) (e_clu se)) (items_of s0 tidx)))
                       sidx (del_item upper (upper (leaf src))
                          (items_of (set_items s0 tidx (upd_item upper (upper (leaf tgt)) (set_val (e_attr se) (e_size se) (e_clu se)) (items_of s0 tidx))) sidx)))
                     tclu) (parent tgt) with
          | Ok npr => [MDotDot (e_clu se) (r_cluster npr)]
          | Err _ => []
          end
        else [])) =
    fst (let s1 := set_items s0 tidx (upd_item upper (upper (leaf tgt)) (set_val (e_attr se) (e_size se) (e_clu se)) (items_of s0 tidx)) in
         let s2 := set_items s1 sidx (del_item upper (upper (leaf src)) (items_of s1 sidx)) in
         let s3 := if tclu =? 0 then s2 else free_chain V s2 tclu in
         if is_dir se then
           match resolve upper s3 (parent tgt) with
           | Ok npr => (set_dotdot s3 (e_clu se) (r_cluster npr), Ok tt)
           | Err e => (s3, Err e)
           end
         else (s3, Ok tt))).
  { intros l0 s0 tidx tclu H0. cbv zeta. rewrite run_app, H0, run_app, !run_cons, run_nil. cbn [Model.apply_m].
    set (s1 := set_items s0 tidx _). set (s2 := set_items s1 sidx _). rewrite run_app.
    assert (E3 : run_m s2 (if tclu =? 0 then [] else free_chain_steps V s2 tclu) = (if tclu =? 0 then s2 else free_chain V s2 tclu)).
    { destruct (tclu =? 0); [reflexivity|apply run_free_chain]. }
    rewrite E3. set (s3 := if tclu =? 0 then s2 else free_chain V s2 tclu).
    destruct (is_dir se); [|reflexivity]. destruct (resolve upper s3 (parent tgt)); reflexivity. }
  destruct tr as [| |tridx te].
  - (* the target is created by touch *)
    pose proof (run_file_op s tgt MA ATouch) as RT. fold (touch upper V s tgt) in RT.
    destruct (snd (touch upper V s tgt)) as [u|x].
    + destruct (resolve upper (fst (touch upper V s tgt)) (parent tgt)) as [pr|x]; [|exact RT].
      apply (Tail _ _ (r_index pr) 0 RT).
    + exact RT.
  - reflexivity.
  - destruct (if is_dir te then _ else _) as [tidx|x]; [|reflexivity].
    destruct ((dir_start V tidx =? dir_start V sidx) && FatNames.Model.beq (e_alias te) (e_alias se)); [reflexivity|].
    destruct (is_dir te); [reflexivity|]. destruct (is_dir se) eqn:Ds; [reflexivity|].
    exact (Tail [] s tidx (e_clu te) eq_refl).
Qed.

Theorem micro_refines_step_uncond s o : run_m s (micro upper V s o) = fst (step upper V s o).
Proof.
  destruct o as [p m a|p|p|p|p q]; cbn [micro step].
  - apply run_file_op.
  - apply run_unlink.
  - apply run_mkdir.
  - apply run_rmdir.
  - apply run_rename.
Qed.
End Refine.
