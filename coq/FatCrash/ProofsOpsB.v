(* [good] for open()+session (also as the touch inside rename) and for mkdir. *)
From Coq Require Import List NArith Bool Lia Arith Permutation.
From NV Require Import Lib.Res FatAlloc.Model FatAlloc.ProofsBase FatAlloc.ProofsGrow.
From NV Require Import FatVol.Model FatVol.ProofsBase FatVol.ProofsFat FatVol.ProofsInv FatVol.ProofsWalk
     FatVol.ProofsOps FatVol.ProofsFatOps FatVol.ProofsAppend FatVol.ProofsFile FatVol.ProofsFileOp FatVol.Proofs.
From NV Require Import FatCrash.Model FatCrash.ProofsBase FatCrash.ProofsRefine FatCrash.ProofsInv FatCrash.ProofsFatSteps
     FatCrash.ProofsSteps FatCrash.ProofsAppendSteps FatCrash.ProofsOps FatCrash.ProofsOpsA.
Import ListNotations.
Open Scope N_scope.

Section OpsB.
Variable upper : name -> name.
Variable V : vparams.
Hypothesis PW : params_wf V.
Notation P := (PP V).
Notation cs := (vp_cs V).
Notation limit := (vp_limit V).
Notation VolInv := (VolInv upper V).
Notation hit := (Model.hit upper).
Notation lookup := (Model.lookup upper).
Notation resolve := (Model.resolve upper).
Notation run_m := (run_m upper).
Notation goodo := (goodo upper V).
Notation Invo := (Invo upper V).

Variable s0 : vol.
Hypothesis VI : VolInv s0.

Lemma CS : 0 < cs. Proof. apply PW. Qed.
Lemma LIM : limit <= max_valid P + 1. Proof. apply PW. Qed.

Lemma goodo_app o s a b : goodo s0 o s a -> (Invo s0 o (run_m s a) -> goodo s0 o (run_m s a) b) -> Invo s0 o s -> goodo s0 o s (a ++ b).
Proof. intros Ga Gb I. unfold goodo, ProofsOpsA.goodo in *. apply good_app_inv; assumption. Qed.
Lemma Invo_run o s l : Invo s0 o s -> goodo s0 o s l -> Invo s0 o (run_m s l).
Proof. intros I G. unfold goodo, ProofsOpsA.goodo, Invo, ProofsOpsA.Invo in *. apply good_run; assumption. Qed.

(* a directory of s0 is ready to grow in a state whose FAT agrees with s0 on its chain *)
Lemma ready0 o s id : Invo s0 o s -> in_store s0 id ->
  (forall x, In x (chn V (v_fat s0) (dir_start V id)) -> get (ftbl (v_fat s)) x = get (ftbl (v_fat s0)) x) ->
  (dir_cap V id = None -> In (last (chn V (v_fat s0) (dir_start V id)) 0) (growdir upper V s0 o)) ->
  dir_ready V s0 (tchain upper V s0 o) (growdir upper V s0 o) s id.
Proof.
  intros I Ii Fr G Cap. split; [apply (dir_growable upper V PW s0 id VI Ii Cap)|].
  pose proof (dir_chain_wf upper V s0 id VI Ii) as W.
  assert (Ln : length (ftbl (v_fat s)) = length (ftbl (v_fat s0))) by apply I.
  rewrite (chn_frame V (v_fat s0) (v_fat s) _ W Ln Fr). split; [apply (chain_frame V _ _ _ W Ln Fr)|].
  right. apply G, Cap.
Qed.
Lemma grow_of_last p pr : resolve s0 p = Ok RNone -> resolve s0 (parent p) = Ok pr -> r_isdir pr = true ->
  dir_cap V (r_index pr) = None -> in_store s0 (r_index pr) ->
  In (last (chn V (v_fat s0) (dir_start V (r_index pr))) 0) (grow_of upper V s0 p).
Proof.
  intros R Rp Dp Cap Ii. unfold grow_of. rewrite R, Rp, Dp, Cap.
  destruct (chn_ne V (v_fat s0) _ (dir_growable upper V PW s0 _ VI Ii Cap)) as (r & E). fold (chn V (v_fat s0) (dir_start V (r_index pr))).
  rewrite E. cbn [last_opt]. left. reflexivity.
Qed.
(* the key of the name that is created hits nothing in s0; the alias of the created entry is a target *)
Lemma Tk_created o p pr e : In p (targets o) -> resolve s0 p = Ok RNone -> resolve s0 (parent p) = Ok pr -> r_isdir pr = true ->
  forall attr cl, make_entry upper (r_index pr) (items_of s0 (r_index pr)) (leaf p) attr cl = Ok e ->
  Tk upper s0 o (r_index pr) (e_alias e).
Proof.
  intros Hp R Rp Dp attr cl M. unfold Tk, tkeys. apply in_flat_map. exists p. split; [exact Hp|]. unfold tkey_of. rewrite R, Rp, Dp.
  rewrite make_entry_attr in M. destruct (make_entry upper (r_index pr) (items_of s0 (r_index pr)) (leaf p) 0 0) as [e0|x]; [|discriminate].
  inversion M; subst e. left. reflexivity.
Qed.
Lemma missing_facts p pr : resolve s0 p = Ok RNone -> resolve s0 (parent p) = Ok pr -> r_exists pr = true -> r_isdir pr = true ->
  in_store s0 (r_index pr) /\ lookup (upper (leaf p)) (items_of s0 (r_index pr)) = None.
Proof.
  intros R Rp Ep Dp. split.
  - apply (cur_dir_store upper V s0 pr VI); [|exact Dp]. apply (resolve_ok upper s0 _ _ Rp). intros ->. discriminate.
  - destruct (resolve_missing upper s0 p R) as [_ [Rn|(pr' & Rp' & _ & L)]]; [rewrite Rn in Rp; inversion Rp; subst; discriminate|].
    rewrite Rp in Rp'. inversion Rp'; subst. exact L.
Qed.

(* open(): the session on an existing file, or the entry created in the parent and the session on it *)
Theorem file_op_good_gen o q m a : In q (targets o) -> guard_create upper s0 q ->
  (forall idx e, resolve s0 q = Ok (RFound idx e) -> is_dir e = false ->
                 forall x, In x (chn V (v_fat s0) (e_clu e)) -> In x (tchain upper V s0 o)) ->
  (forall x, In x (grow_of upper V s0 q) -> In x (growdir upper V s0 o)) ->
  goodo s0 o s0 (file_op_steps upper V s0 q m a).
Proof.
  intros Hq G HTC HGL. pose proof (Invo_start upper V s0 VI o) as I0.
  unfold file_op_steps. destruct (negb (valid_parts q)); [exact I|].
  destruct (resolve s0 q) as [r|x] eqn:R; [|exact I].
  destruct (match m with MRW => negb (r_exists r) | _ => false end); [exact I|].
  destruct (match m with MX => r_exists r | _ => false end); [exact I|].
  destruct (r_isdir r) eqn:Dr; [exact I|].
  destruct r as [| |idx e]; [|discriminate|].
  - (* created *)
    destruct (resolve s0 (parent q)) as [pr|x] eqn:Rp; [|exact I].
    destruct (r_exists pr) eqn:Ep; [|exact I]. destruct (r_isdir pr) eqn:Dp; [|exact I]. cbn [negb].
    destruct (missing_facts q pr R Rp Ep Dp) as [Ii Ln]. set (idx := r_index pr) in *.
    assert (K : tk0 upper s0 (Tk upper s0 o) idx (upper (leaf q))).
    { intros x Hx Hk. exfalso. apply (lookup_none_hits upper _ _ Ln x Hx Hk). }
    assert (G1 : goodo s0 o s0 (setitem_steps upper V s0 idx (leaf q) 32 0 0)).
    { apply (setitem_good upper V CS LIM); [exact I0| |exact K|].
      - apply (ready0 o s0 idx I0 Ii); [reflexivity|]. intros Cap. apply HGL. apply (grow_of_last q pr R Rp Dp Cap Ii).
      - intros e M. apply (Tk_created o q pr e Hq R Rp Dp 32 0 M). }
    apply goodo_app; [exact G1| |exact I0]. rewrite run_setitem. intros I1.
    destruct (G pr R Rp Dp) as (e0 & M0 & Fr).
    destruct (create_file_entry upper V PW s0 idx (leaf q) e0 VI Ii Ln M0 Fr) as (_ & _ & _ & Cases). cbv zeta in Cases.
    destruct Cases as [(Eo & _ & Lk)|(Eo & _)]; rewrite Eo; [|exact I]. rewrite Lk.
    apply (session_good upper V); [exact I1| |].
    + cbn [set_val e_clu]. rewrite (chn_0 V). intros c [].
    + intros x Hx Hk. exfalso. cbn [set_val e_alias] in Hk. destruct Fr as (Fx & U & _). rewrite U in Hk.
      destruct (Fx x Hx) as (_ & A2 & A3 & _). unfold Model.hit in Hk. apply orb_prop in Hk.
      destruct Hk as [Hk|Hk]; apply beq_true in Hk; congruence.
  - (* existing *)
    cbn [r_isdir] in Dr. destruct (found_in upper s0 q idx e R) as (pr & Rp & Dp & L & Ec & Ei). rewrite Dr in Ei.
    assert (He : In e (lives_of s0 idx)) by (subst idx; apply (lookup_In upper _ _ _ L)).
    apply (session_good upper V); [exact I0| |].
    + intros c Hc. right. apply (HTC idx e eq_refl Dr c Hc).
    + intros x Hx Hk. rewrite (alias_key_hits upper _ e (vi_names _ _ _ VI idx) He x Hx Hk).
      pose proof (Tk_found upper s0 o q idx e Hq R) as K. unfold cont in K. rewrite Dr in K. exact K.
Qed.

Theorem file_op_good p m a : guard_create upper s0 p -> goodo s0 (OFile p m a) s0 (file_op_steps upper V s0 p m a).
Proof.
  intros G. apply file_op_good_gen; [left; reflexivity|exact G| |intros x Hx; exact Hx].
  intros idx e R Dr x Hx. cbn [tchain]. unfold file_chain. rewrite R, Dr. exact Hx.
Qed.

Theorem mkdir_good p : guard_create upper s0 p -> goodo s0 (OMkdir p) s0 (mkdir_steps upper V s0 p).
Proof.
  intros G. set (o := OMkdir p). pose proof (Invo_start upper V s0 VI o) as I0.
  unfold mkdir_steps. destruct (negb (valid_parts p)); [exact I|].
  destruct (resolve s0 p) as [r|x] eqn:R; [|exact I]. destruct (r_exists r) eqn:Er; [exact I|].
  destruct r; try discriminate.
  destruct (resolve s0 (parent p)) as [pr|x] eqn:Rp; [|exact I].
  destruct (r_exists pr) eqn:Ep; [|exact I]. destruct (r_isdir pr) eqn:Dp; [|exact I]. cbn [negb].
  destruct (make_entry upper (r_index pr) (items_of s0 (r_index pr)) (leaf p) 16 0) as [e16|x] eqn:M16; [|exact I].
  destruct (free_scan P (ftbl (v_fat s0)) limit (hint_of (v_fat s0))) as [|c rest] eqn:Sc; [exact I|]. cbv zeta.
  destruct (missing_facts p pr R Rp Ep Dp) as [Ii Ln]. set (idx := r_index pr) in *.
  assert (Fc : is_free P limit (ftbl (v_fat s0)) c) by (apply (free_in_data_area P _ limit (hint_of (v_fat s0))); rewrite Sc; left; reflexivity).
  destruct Fc as (C1 & C2 & C3 & C4).
  assert (Ac : Amod s0 (tchain upper V s0 o) c) by (left; exact C4).
  assert (Dc : Dset upper V s0 o c) by (cbn [Dset o]; rewrite Sc; cbn [hd]; split; [reflexivity|lia]).
  set (s1 := set_fat s0 (mark_end P (v_fat s0) c)).
  assert (G0 : goodo s0 o s0 (fat_set c (end_mark P) ++ [MZero c])).
  { apply good_fat. apply Forall_app. split; [apply ok_fat_set; left; exact Ac|]. constructor; [exact Ac|constructor]. }
  assert (E1 : run_m s0 (fat_set c (end_mark P) ++ [MZero c]) = s1) by reflexivity.
  rewrite app_assoc. apply goodo_app; [exact G0| |exact I0]. rewrite E1. intros I1.
  assert (Nin : ~ in_store s0 c).
  { intros Ic. assert (Hc : c <> 0) by lia. destruct (vi_keyrange _ _ _ VI c Ic Hc) as [Rg _].
    pose proof (dir_chain_wf upper V s0 c VI Ic) as W.
    assert (Ed : dir_start V c = c) by (unfold dir_start; destruct (N.eqb_spec c 0); [contradiction|reflexivity]). rewrite Ed in W.
    destruct (chn_ne V (v_fat s0) c Rg) as (r & Er'). rewrite Er' in W.
    apply (chain_nonzero P limit _ _ (POK V) W c (or_introl eq_refl)). exact C4. }
  assert (G1 : goodo s0 o s1 (setitem_steps upper V s1 idx (leaf p) 16 0 c)).
  { apply (setitem_good upper V CS LIM); [exact I1| | |].
    - apply (ready0 o s1 idx I1 Ii).
      + intros x Hx. unfold s1. cbn [set_fat v_fat]. unfold mark_end. rewrite ftbl_fset. apply get_set_other. intros <-.
        apply (chain_nonzero P limit _ _ (POK V) (dir_chain_wf upper V s0 idx VI Ii) c Hx). exact C4.
      + intros Cap. apply (grow_of_last p pr R Rp Dp Cap Ii).
    - intros x Hx Hk. exfalso. apply (lookup_none_hits upper _ _ Ln x Hx Hk).
    - intros e M. apply (Tk_created o p pr e (or_introl eq_refl) R Rp Dp 16 c M). }
  apply goodo_app; [exact G1| |exact I1]. rewrite run_setitem. intros I2.
  destruct (snd (setitem upper V s1 idx (leaf p) 16 0 c)).
  - split; [|split; [|split; [|exact I]]]; cbn [ok_step].
    + split; [exact Dc|apply lives_of_absent, Nin].
    + exact Dc.
    + left. exact Dc.
  - apply good_fat, ok_fat_set. left. exact Ac.
Qed.
End OpsB.
