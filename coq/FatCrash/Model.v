(* MICRO-STEP semantics of the path operations over FatVol's record-level state [vol]:
   every operation of FatVol.Model ([step]: file_op / unlink / mkdir / rmdir / rename) as the
   list of its ELEMENTARY STORES in the order nobodd/path.py + nobodd/fs.py perform them.
   [micro s o] is that list, [apply_m] performs one of them; folding the whole list gives
   exactly [fst (step s o)] (ProofsRefine.v: micro_refines_step_uncond; Proofs.v: micro_refines_step).  Every prefix of the
   list is a possible crash point.

   Elementary stores, as the code makes them (record level; cluster DATA is not part of [vol]):
     MInfo c v    Fat32Table._alloc / _dealloc: the FSInfo sector is rewritten BEFORE the entry
                  (no effect on FAT12/16 or without a valid info sector)
     MTbl c v     FatTable.__setitem__: entry c := v (all copies; the record-level state reads
                  the first copy)
     MZero c      fs.clusters[c] = zeros (mkdir; truncate() when it adds clusters)
     MZeroTail c  truncate() growing a file zeroes the tail of its last cluster
     MUpd id k a sz cl   FatDirectory.__setitem__ on an existing name: ONE record rewritten in
                  place (the slot keeps its names): _set_size / _set_mtime, rename's target slot
     MDel id k    FatDirectory.__delitem__: the 8.3 record is marked deleted first, then the
                  long-name records backwards; the decoded group is gone with the first store
     MTail id n t __setitem__ of a new name: records stored from the highest slot down, after the
                  first n decoded items of the directory; with the last store of the group the
                  decoded tail becomes t.  When the group starts on deleted records (slots freed
                  by an earlier delete at the END of the directory) the 8.3 record is decoded on
                  its own (short name only) before the long-name records are all there: two MTail
     MClean id    _clean_entries(): compaction.  ONE step in [micro]; FatCrash/Clean.v spells it
                  out record by record ([micro_x]: before each MClean the decoded views the
                  directory goes through, as MView steps; ProofsClean.v: same result, and what a
                  reader can see in between)
     MView id l   (only in micro_x) the decoded records of directory id are now l
     MReg c / MForget c   ghost steps (no store): directory c becomes reachable (mkdir: its entry
                  was just stored) / unreachable (rmdir: its entry was just deleted).  MReg is
                  placed after the whole group of the entry is stored; when the 8.3 record of a
                  long-named directory is decoded one store earlier (two MTail) the zeroed, empty
                  directory is reachable from then on -- not distinguished at record level
     MDot c v, MDotDot c v   the '.' / '..' records of directory c
   Order per operation, as read off the code (see [micro] and the comments at each generator). *)
From Coq Require Import List NArith Bool.
From NV Require Import Lib.Res Gen.Fat.
From NV Require FatNames.Model.
From NV Require Import FatAlloc.Model FatVol.Model.
Import ListNotations.
Open Scope N_scope.

Inductive mstep :=
| MInfo (c v : N)
| MTbl (c v : N)
| MZero (c : N)
| MZeroTail (c : N)
| MUpd (id : N) (key : name) (attr sz cl : N)
| MDel (id : N) (key : name)
| MTail (id : N) (keep : nat) (tail : list item)
| MClean (id : N)
| MView (id : N) (l : list item)
| MReg (c : N)
| MDot (c v : N)
| MDotDot (c v : N)
| MForget (c : N).

(* the paths an operation names *)
Definition targets (o : op) : list (list name) :=
  match o with
  | OFile p _ _ => [p] | OUnlink p => [p] | OMkdir p => [p] | ORmdir p => [p]
  | ORename p q => [p; q]
  end.

Section Micro.
Variable upper : name -> name.
Variable V : vparams.
Notation P := (PP V).
Notation cs := (vp_cs V).
Notation limit := (vp_limit V).

Definition reg_dir (s : vol) (c : N) : vol :=
  {| v_fat := v_fat s; v_dirs := put_dir (v_dirs s) c empty_dir |}.
Definition set_dot (s : vol) (c v : N) : vol :=
  let d := get_dir s c in
  {| v_fat := v_fat s;
     v_dirs := put_dir (v_dirs s) c {| d_items := d_items d; d_dot := v; d_dotdot := d_dotdot d |} |}.

Definition apply_m (s : vol) (m : mstep) : vol :=
  match m with
  | MInfo c v => set_fat s {| ftbl := ftbl (v_fat s); finfo := note_set (ftbl (v_fat s)) (finfo (v_fat s)) c v |}
  | MTbl c v => set_fat s {| ftbl := set (ftbl (v_fat s)) c v; finfo := finfo (v_fat s) |}
  | MZero _ | MZeroTail _ => s
  | MUpd id key a sz cl => set_items s id (upd_item upper key (set_val a sz cl) (items_of s id))
  | MDel id key => set_items s id (del_item upper key (items_of s id))
  | MTail id keep tail => set_items s id (firstn keep (items_of s id) ++ tail)
  | MClean id => set_items s id (filter is_live (items_of s id))
  | MView id l => set_items s id l
  | MReg c => reg_dir s c
  | MDot c v => set_dot s c v
  | MDotDot c v => set_dotdot s c v
  | MForget c => drop s c
  end.
Definition run_m (s : vol) (l : list mstep) : vol := fold_left apply_m l s.
(* the states an operation goes through: after 0, 1, ..., all of its stores *)
Fixpoint states (s : vol) (l : list mstep) : list vol :=
  match l with [] => [s] | m :: r => s :: states (apply_m s m) r end.

(* ---------------- the FAT ---------------- *)
(* fat[c] = v : Fat32Table.__setitem__ calls _alloc/_dealloc (info sector) and then stores *)
Definition fat_set (c v : N) : list mstep := [MInfo c v; MTbl c v].

(* `for cluster in fat.chain(start): fat.mark_free(cluster)`: FRONT to back; chain() has read
   the link of a cluster before the cluster is freed *)
Fixpoint free_steps (fuel : nat) (f : fat) (c : N) : list mstep :=
  match fuel with
  | O => []
  | S k => if (min_valid P <=? c) && (c <=? max_valid P)
           then fat_set c 0 ++ free_steps k (mark_free f c) (get (ftbl f) c) else []
  end.
Definition free_chain_steps (s : vol) (c : N) : list mstep :=
  free_steps (S (length (ftbl (v_fat s)))) (v_fat s) c.

(* `for next_c, this_c in pairwise(reversed(l)): fat[this_c] = next_c`: BACK to front, the link
   out of the old last cluster is the last store *)
Fixpoint link_steps (l : list N) : list mstep :=
  match l with
  | a :: ((b :: _) as r) => link_steps r ++ fat_set a b
  | _ => []
  end.

(* FatFile.truncate up to (not including) _set_size:
   grow:   tail of the last cluster zeroed; [free() exhausted -> ENOSPC, nothing else];
           mark_end(last new); every new cluster zeroed; links back to front
   shrink: mark_end(new last cluster) FIRST, then mark_free of the removed clusters front to back *)
Definition trunc_steps (newsize : N) (st : fstate) : list mstep :=
  if newsize =? size st then [] else
  let clusters := N.max 1 (cdiv newsize cs) in
  let n := len (map st) in
  (if (size st <? newsize) && negb (n * cs - size st =? 0) then [MZeroTail (last (map st) 0)] else []) ++
  (if n <? clusters then
     let need := N.to_nat (clusters - n) in
     let scan := free_scan P (tbl st) limit (hint_of (sfat st)) in
     if Nat.ltb (length scan) need then [] else
     let new := firstn need scan in
     fat_set (last new 0) (end_mark P) ++ List.map MZero new ++ link_steps (last_opt (map st) ++ new)
   else if clusters <? n then
     let k := N.to_nat clusters in
     fat_set (nth (k - 1) (map st) 0) (end_mark P) ++ flat_map (fun c => fat_set c 0) (skipn k (map st))
   else []).

(* write()'s allocation loop, one cluster at a time: mark_end(new), then the link from the old
   last cluster (the data of the cluster is copied by _write1 afterwards: not in [vol]) *)
Definition alloc_one_steps (st : fstate) : list mstep :=
  match free_scan P (tbl st) limit (hint_of (sfat st)) with
  | [] => []
  | c :: _ => fat_set c (end_mark P) ++ match map st with [] => [] | _ => fat_set (last (map st) 0) c end
  end.
Fixpoint alloc_steps (k : nat) (st : fstate) : list mstep :=
  match k with
  | O => []
  | S k' => match alloc_one P limit st with
            | Ok st' => alloc_one_steps st ++ alloc_steps k' st'
            | Err _ => []
            end
  end.

(* FatFile.write: padding truncate() (with ITS _set_size) when the position is beyond the size;
   the allocation loop; `finally`: _set_size(pos) when beyond the old size, _set_mtime.
   [upd sz cl] = the stores of `index[key] = entry(size sz, first cluster cl)`: one MUpd for a
   file, nothing for the entry-less file of a directory *)
Definition write_steps (upd : N -> N -> list mstep) (nbytes : N) (st : fstate) : list mstep :=
  let size0 := size st in
  match (if size0 <? pos st then truncate P cs limit (pos st) st else Ok st) with
  | Err _ => if size0 <? pos st then trunc_steps (pos st) st else []
  | Ok st1 =>
    (if size0 <? pos st then trunc_steps (pos st) st ++ upd (size st1) (hd 0 (map st1)) else []) ++
    let target := if nbytes =? 0 then 0 else cdiv (pos st + nbytes) cs in
    let need := N.to_nat (target - len (map st1)) in
    let r := alloc_n P limit need st1 in
    let st2 := fst r in
    let pos' := if snd r then pos st + nbytes else N.max (pos st) (len (map st2) * cs) in
    let size' := if size0 <? pos' then pos' else size st2 in
    alloc_steps need st1 ++ upd size' (hd 0 (map st2))
  end.

(* FatFile.close of an emptied file: mark_free(map[0]) then _set_size(0) with first cluster 0 *)
Definition close_steps (upd : N -> N -> list mstep) (st : fstate) : list mstep :=
  match map st with
  | c :: _ => if size st =? 0 then fat_set c 0 ++ upd 0 0 else []
  | [] => []
  end.

(* ---------------- one FatFile session ---------------- *)
Definition sess_upd (idx : N) (e : entry) (sz cl : N) : list mstep :=
  [MUpd idx (upper (e_alias e)) (e_attr e) sz cl].

Definition act_steps (upd : N -> N -> list mstep) (st1 : fstate) (a : fact) : list mstep :=
  match a with
  | ANone => []
  | ATouch => upd (size st1) (hd 0 (map st1))
  | AWrite p n => write_steps upd n (match p with Some q => seek q st1 | None => st1 end)
  | ATrunc n =>
    match truncate P cs limit n st1 with
    | Ok st' => trunc_steps n st1 ++ (if n =? size st1 then [] else upd n (hd 0 (map st')))
    | Err _ => trunc_steps n st1
    end
  end.

Definition session_steps (s : vol) (idx : N) (e : entry) (m : omode) (a : fact) : list mstep :=
  let st0 := {| sfat := v_fat s; map := chain_of V (v_fat s) (e_clu e); size := e_size e; pos := 0 |} in
  let upd := sess_upd idx e in
  match (match m with
         | MW | MX => truncate P cs limit 0 st0
         | MA => Ok (seek (size st0) st0)
         | MRW => Ok st0
         end) with
  | Err _ => match m with MW | MX => trunc_steps 0 st0 | _ => [] end
  | Ok st1 =>
    (match m with
     | MW | MX => trunc_steps 0 st0 ++ (if size st0 =? 0 then [] else upd 0 (hd 0 (map st1)))
     | _ => []
     end)
    ++ act_steps upd st1 a
    ++ close_steps upd (fst (fst (session_act V st1 a)))
  end.

(* ---------------- FatDirectory.__setitem__ ---------------- *)
(* the first _update_entry of an append (highest slot): growth of the directory's own chain *)
Definition poke_steps (s : vol) (id imax : N) : list mstep :=
  match dir_cap V id with
  | Some _ => []
  | None =>
    let m := chain_of V (v_fat s) (dir_start V id) in
    write_steps (fun _ _ => []) 32 {| sfat := v_fat s; map := m; size := cs * len m; pos := 32 * imax |}
  end.
(* an 8.3 record decoded without its long-name records *)
Definition short_of (e : entry) : entry :=
  {| e_name := e_alias e; e_alias := e_alias e; e_attr := e_attr e; e_size := e_size e; e_clu := e_clu e;
     e_nlfn := 0 |}.
Definition store_steps (id : N) (items : list item) (e : entry) : list mstep :=
  let keep := length (strip_tail items) in
  if Nat.ltb keep (length items) && (0 <? e_nlfn e)
  then [MTail id keep (repeat Dead (N.to_nat (e_nlfn e)) ++ [Live (short_of e)]); MTail id keep [Live e]]
  else [MTail id keep [Live e]].
(* growth; [ENOSPC: _clean_entries(), growth again]; the records *)
Definition append_steps (s : vol) (id : N) (e : entry) : list mstep :=
  let k := nslots e + 1 in
  let it0 := strip_tail (items_of s id) in
  let i1 := base id + slots_of it0 + k - 1 in
  let a1 := try_poke V s id i1 in
  if snd a1 then poke_steps s id i1 ++ store_steps id (items_of s id) e
  else
    let it1 := filter is_live (items_of s id) in
    let i2 := base id + slots_of it1 + k - 1 in
    let a2 := try_poke V (fst a1) id i2 in
    poke_steps s id i1 ++ [MClean id] ++ poke_steps (fst a1) id i2 ++
    (if snd a2 then [MTail id (length it1) [Live e]] else []).
Definition setitem_steps (s : vol) (id : N) (nm : name) (attr size clu : N) : list mstep :=
  match lookup upper (upper nm) (items_of s id) with
  | Some _ => [MUpd id (upper nm) attr size clu]
  | None =>
    match make_entry upper id (items_of s id) nm attr clu with
    | Err _ => []
    | Ok e => append_steps s id e
    end
  end.

(* ---------------- open(): [entry created in the parent]; the session ---------------- *)
Definition file_op_steps (s : vol) (parts : list name) (m : omode) (a : fact) : list mstep :=
  if negb (valid_parts parts) then [] else
  match resolve upper s parts with
  | Err _ => []
  | Ok r =>
    if (match m with MRW => negb (r_exists r) | _ => false end) then []
    else if (match m with MX => r_exists r | _ => false end) then []
    else if r_isdir r then []
    else
      match r with
      | RFound idx e => session_steps s idx e m a
      | _ =>
        match resolve upper s (parent parts) with
        | Err _ => []
        | Ok pr =>
          if negb (r_exists pr) then [] else if negb (r_isdir pr) then [] else
          let idx := r_index pr in
          let x := setitem upper V s idx (leaf parts) 32 0 0 in
          setitem_steps s idx (leaf parts) 32 0 0 ++
          match snd x with
          | Err _ => []
          | Ok _ => match lookup upper (upper (leaf parts)) (items_of (fst x) idx) with
                    | Some e => session_steps (fst x) idx e m a
                    | None => []
                    end
          end
        end
      end
  end.

(* unlink: `del index[name]` FIRST, then the chain is freed front to back *)
Definition unlink_steps (s : vol) (parts : list name) : list mstep :=
  if negb (valid_parts parts) then [] else
  match resolve upper s parts with
  | Err _ => []
  | Ok r =>
    if negb (r_exists r) then [] else if r_isdir r then []
    else match r with
         | RFound idx e => MDel idx (upper (leaf parts)) :: free_chain_steps s (e_clu e)
         | _ => []
         end
  end.

(* mkdir: mark_end(cluster); the cluster zeroed; the entry stored in the parent (growth /
   compaction of the parent included); [failure: mark_free(cluster)]; '.' then '..' *)
Definition mkdir_steps (s : vol) (parts : list name) : list mstep :=
  if negb (valid_parts parts) then [] else
  match resolve upper s parts with
  | Err _ => []
  | Ok r =>
    if r_exists r then [] else
    match resolve upper s (parent parts) with
    | Err _ => []
    | Ok pr =>
      if negb (r_exists pr) then [] else if negb (r_isdir pr) then [] else
      match make_entry upper (r_index pr) (items_of s (r_index pr)) (leaf parts) 16 0 with
      | Err _ => []
      | Ok _ =>
        match free_scan P (ftbl (v_fat s)) limit (hint_of (v_fat s)) with
        | [] => []
        | c :: _ =>
          let s1 := set_fat s (mark_end P (v_fat s) c) in
          let x := setitem upper V s1 (r_index pr) (leaf parts) 16 0 c in
          fat_set c (end_mark P) ++ [MZero c] ++ setitem_steps s1 (r_index pr) (leaf parts) 16 0 c ++
          match snd x with
          | Err _ => fat_set c 0
          | Ok _ => [MReg c; MDot c c; MDotDot c (r_cluster pr)]
          end
        end
      end
    end
  end.

(* rmdir: `del parent_index[name]` FIRST, then the directory's chain is freed front to back *)
Definition rmdir_steps (s : vol) (parts : list name) : list mstep :=
  if negb (valid_parts parts) then [] else
  match resolve upper s parts with
  | Err _ => []
  | Ok r =>
    if negb (r_exists r) then [] else if negb (r_isdir r) then [] else
    let c := r_cluster r in
    if c =? 0 then [] else
    match lives (items_of s (r_index r)) with
    | _ :: _ => []
    | [] =>
      match resolve upper s (parent parts) with
      | Err _ => []
      | Ok pr => MDel (r_index pr) (upper (leaf parts)) :: MForget c :: free_chain_steps s c
      end
    end
  end.

(* rename: [target.touch()]; the target slot takes the source's (attr, size, first cluster);
   the source entry is deleted; the OLD target chain is freed; '..' of a moved directory *)
Definition rename_steps (s : vol) (src tgt : list name) : list mstep :=
  if negb (valid_parts src && valid_parts tgt) then [] else
  match resolve upper s src with
  | Err _ => []
  | Ok r =>
    if negb (r_exists r) then [] else
    match r with
    | RNone => [] | RRoot => []
    | RFound ridx se =>
      match (if is_dir se then
               do b <- into_itself upper s (e_clu se) (parents_of tgt);
               if b then Err OSError_Other
               else do pr <- resolve upper s (parent src); Ok (r_index pr)
             else Ok ridx) with
      | Err _ => []
      | Ok sidx =>
        match resolve upper s tgt with
        | Err _ => []
        | Ok tr =>
          let prep : list mstep * vol * res (option (N * N)) :=
            match tr with
            | RNone =>
              let x := touch upper V s tgt in
              (file_op_steps s tgt MA ATouch, fst x,
               match snd x with
               | Err e => Err e
               | Ok _ => match resolve upper (fst x) (parent tgt) with
                         | Err e => Err e
                         | Ok pr => Ok (Some (r_index pr, 0))
                         end
               end)
            | RRoot => ([], s, Err IsADirectory)
            | RFound tridx te =>
              match (if is_dir te then do pr <- resolve upper s (parent tgt); Ok (r_index pr)
                     else Ok tridx) with
              | Err e => ([], s, Err e)
              | Ok tidx =>
                if (dir_start V tidx =? dir_start V sidx) && FatNames.Model.beq (e_alias te) (e_alias se)
                then ([], s, Ok None)
                else if is_dir te then ([], s, Err IsADirectory)
                else if is_dir se then ([], s, Err NotADirectory)
                else ([], s, Ok (Some (tidx, e_clu te)))
              end
            end in
          match prep with
          | (l0, _, Err _) => l0
          | (l0, _, Ok None) => l0
          | (l0, s0, Ok (Some (tidx, tclu))) =>
            let s1 := set_items s0 tidx (upd_item upper (upper (leaf tgt))
                                           (set_val (e_attr se) (e_size se) (e_clu se))
                                           (items_of s0 tidx)) in
            let s2 := set_items s1 sidx (del_item upper (upper (leaf src)) (items_of s1 sidx)) in
            let s3 := if tclu =? 0 then s2 else free_chain V s2 tclu in
            l0 ++ [MUpd tidx (upper (leaf tgt)) (e_attr se) (e_size se) (e_clu se);
                   MDel sidx (upper (leaf src))] ++
            (if tclu =? 0 then [] else free_chain_steps s2 tclu) ++
            (if is_dir se then
               match resolve upper s3 (parent tgt) with
               | Err _ => []
               | Ok npr => [MDotDot (e_clu se) (r_cluster npr)]
               end
             else [])
          end
        end
      end
    end
  end.

Definition micro (s : vol) (o : op) : list mstep :=
  match o with
  | OFile p m a => file_op_steps s p m a
  | OUnlink p => unlink_steps s p
  | OMkdir p => mkdir_steps s p
  | ORmdir p => rmdir_steps s p
  | ORename p q => rename_steps s p q
  end.
End Micro.
