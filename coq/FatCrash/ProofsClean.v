(* _clean_entries() record by record (FatCrash/Clean.v):
     decode_expand        the reader's view of a laid-out directory is the directory
     clean_last           after the last store the directory is exactly the compacted one
                          ([filter is_live]): the ONE-step MClean of [micro] is the composition
     run_expand           so spelling the compactions out ([micro_x]) changes no prefix-closed result
     clean_view_bound     what a reader can see after ANY of the stores in between: every entry of
                          the directory is listed -- in full or under its 8.3 name only, possibly twice --
                          with its attributes, size and first cluster; nothing else is listed
     expand_prefix        every prefix state of micro_x is a prefix state of micro, or such a state
                          with ONE directory showing one of those views *)
From Coq Require Import List NArith Bool Lia Arith.
From NV Require FatAlloc.ProofsBase.
From NV Require Import FatVol.Model FatVol.ProofsBase FatCrash.Model FatCrash.Clean FatCrash.ProofsBase.
Import ListNotations.
Open Scope N_scope.

Lemma In_firstn' {A} n (l : list A) x : In x (firstn n l) -> In x l.
Proof. revert n. induction l as [|a l IH]; intros [|n]; cbn; try tauto. intros [H|H]; [left; exact H|right; apply (IH n), H]. Qed.

Definition live_slot (x : slot) : bool := match x with SD => false | _ => true end.
Definition lives_s (l : list slot) : list slot := filter live_slot l.

Lemma deads_0 : deads 0 = [].
Proof. reflexivity. Qed.
Lemma own_eq_refl e : own_eq e e = true.
Proof. apply beq_refl. Qed.

(* ---------------- the reader on a laid-out directory ---------------- *)
Lemma decode_run e rest : forall k c, N.of_nat k < e_nlfn e ->
  decode (Some (e, N.of_nat k, c)) (List.map (SL e) (countdown k) ++ SS e :: rest) = Live e :: decode None rest.
Proof.
  induction k as [|k IH]; intros c Lt.
  - cbn [countdown List.map app decode]. change (N.of_nat 0) with 0. rewrite N.eqb_refl, own_eq_refl. reflexivity.
  - cbn [countdown List.map app decode].
    destruct (N.eqb_spec (N.of_nat (S k)) (e_nlfn e)) as [E|_]; [lia|].
    rewrite own_eq_refl, N.eqb_refl. cbn [andb]. destruct (N.eqb_spec (N.of_nat (S k)) 0) as [E|_]; [lia|]. cbn [negb].
    replace (N.of_nat (S k) - 1) with (N.of_nat k) by lia. apply IH. lia.
Qed.
Lemma decode_item i rest : decode None (slots_of_item i ++ rest) = i :: decode None rest.
Proof.
  destruct i as [e|]; [|reflexivity]. cbn [slots_of_item]. rewrite <- app_assoc. cbn [app].
  destruct (N.to_nat (e_nlfn e)) as [|k] eqn:E.
  - cbn [countdown List.map app decode]. unfold short'. replace (e_nlfn e) with 0 by lia. reflexivity.
  - cbn [countdown List.map app decode]. destruct (N.eqb_spec (N.of_nat (S k)) (e_nlfn e)) as [_|Ne]; [|lia].
    cbn [app]. replace (N.of_nat (S k) - 1) with (N.of_nat k) by lia. apply decode_run. lia.
Qed.
Theorem decode_expand l : decode None (expand l) = l.
Proof.
  induction l as [|i r IH]; [reflexivity|]. unfold expand. cbn [flat_map]. rewrite decode_item. f_equal. exact IH.
Qed.

(* ---------------- the last store ---------------- *)
Lemma clean_go_ne rest : forall done junk, junk <> [] -> clean_go done junk rest <> [].
Proof.
  induction rest as [|x r IH]; intros done junk Hj; cbn [clean_go].
  - destruct junk; [congruence|discriminate].
  - destruct x; try (destruct junk; [congruence|discriminate]).
    apply IH. destruct junk; discriminate.
Qed.
Lemma clean_go_last rest : forall done junk d, clean_go done junk rest <> [] ->
  last (clean_go done junk rest) d = done ++ lives_s rest.
Proof.
  induction rest as [|x r IH]; intros done junk d Hn; cbn [clean_go] in *.
  - destruct junk; [congruence|]. cbn. rewrite app_nil_r. reflexivity.
  - assert (Live : live_slot x = true -> junk <> [] ->
              last ((done ++ [x] ++ tl junk ++ [x] ++ r) :: clean_go (done ++ [x]) (tl junk ++ [x]) r) d = done ++ x :: lives_s r).
    { intros _ Hj. assert (Ne : clean_go (done ++ [x]) (tl junk ++ [x]) r <> []) by (apply clean_go_ne; destruct (tl junk); discriminate).
      destruct (clean_go (done ++ [x]) (tl junk ++ [x]) r) as [|a t] eqn:E; [congruence|].
      change (last (a :: t) d = done ++ x :: lives_s r). rewrite <- E, (IH _ _ d) by (rewrite E; discriminate).
      rewrite <- app_assoc. reflexivity. }
    destruct x as [e j|e|].
    + destruct junk as [|y j'].
      * cbn [lives_s filter live_slot]. rewrite (IH _ _ d Hn), <- app_assoc. reflexivity.
      * cbn [lives_s filter live_slot]. apply (Live eq_refl). discriminate.
    + destruct junk as [|y j'].
      * cbn [lives_s filter live_slot]. rewrite (IH _ _ d Hn), <- app_assoc. reflexivity.
      * cbn [lives_s filter live_slot]. apply (Live eq_refl). discriminate.
    + cbn [lives_s filter live_slot]. apply (IH _ _ d Hn).
Qed.
Lemma lives_s_expand l : lives_s (expand l) = expand (filter is_live l).
Proof.
  induction l as [|i r IH]; [reflexivity|]. unfold expand, lives_s in *. cbn [flat_map]. rewrite filter_app, IH.
  destruct i as [e|]; cbn [is_live filter flat_map]; [|reflexivity]. f_equal.
  cbn [slots_of_item]. rewrite filter_app. cbn [filter live_slot]. f_equal.
  induction (countdown (N.to_nat (e_nlfn e))) as [|a t IHt]; [reflexivity|]. cbn [List.map filter live_slot]. f_equal. exact IHt.
Qed.
Theorem clean_last l d : clean_views l <> [] -> last (clean_views l) d = filter is_live l.
Proof.
  unfold clean_views, clean_arrays. intros Hn.
  assert (Ha : clean_go [] [] (expand l) <> []) by (intros E; rewrite E in Hn; apply Hn; reflexivity).
  pose proof (clean_go_last (expand l) [] [] [] Ha) as CL.
  destruct (clean_go [] [] (expand l)) as [|a t] eqn:E; [congruence|].
  assert (L : forall (f : list slot -> list item) x y, last (List.map f (x :: y)) d = f (last (x :: y) [])).
  { intros f x y. revert x. induction y as [|b y IHy]; intros x; [reflexivity|]. change (last (List.map f (b :: y)) d = f (last (b :: y) [])). apply IHy. }
  rewrite L, CL. cbn [app]. rewrite lives_s_expand. apply decode_expand.
Qed.

(* ---------------- what a reader can see in between ---------------- *)
Definition shown (e : entry) (v : list item) : Prop := In (Live e) v \/ In (Live (short' e)) v.

Lemma In_deads i n : In i (deads n) -> i = Dead.
Proof. unfold deads. apply repeat_spec. Qed.
Lemma decode_shows e l : forall p, In (SS e) l -> shown e (decode p l).
Proof.
  induction l as [|x r IH]; intros p H; [destruct H|].
  assert (Sh : forall pre v, shown e v -> shown e (pre ++ v)).
  { intros pre v [A|A]; [left|right]; apply in_or_app; right; exact A. }
  assert (Sc : forall i v, shown e v -> shown e (i :: v)) by (intros i v [A|A]; [left|right]; right; exact A).
  destruct x as [e' j|e'|]; cbn [decode].
  - assert (Hr : In (SS e) r) by (destruct H as [H|H]; [discriminate|exact H]).
    destruct (j =? e_nlfn e'); [apply Sh, IH, Hr|].
    destruct p as [[[e0 next] c]|]; [|apply Sc, IH, Hr].
    destruct (own_eq e' e0 && (j =? next) && negb (next =? 0)); [apply IH, Hr|apply Sh, Sc, IH, Hr].
  - destruct H as [H|H].
    + inversion H; subst e'. destruct p as [[[e0 next] c]|]; [|right; left; reflexivity].
      destruct ((next =? 0) && own_eq e e0); [left; left; reflexivity|]. right. apply in_or_app. right. left. reflexivity.
    + destruct p as [[[e0 next] c]|]; [|apply Sc, IH, H].
      destruct ((next =? 0) && own_eq e' e0); [apply Sc, IH, H|apply Sh, Sc, IH, H].
  - assert (Hr : In (SS e) r) by (destruct H as [H|H]; [discriminate|exact H]). apply Sh, Sc, IH, Hr.
Qed.
Lemma decode_only x l : forall p, In (Live x) (decode p l) -> exists e, In (SS e) l /\ (x = e \/ x = short' e).
Proof.
  induction l as [|y r IH]; intros p H.
  - cbn [decode] in H. apply In_deads in H. discriminate.
  - assert (Tail : forall q, In (Live x) (decode q r) -> exists e, In (SS e) (y :: r) /\ (x = e \/ x = short' e)).
    { intros q Hq. destruct (IH q Hq) as (e & He & Hx). exists e. split; [right; exact He|exact Hx]. }
    assert (Pre : forall n v, In (Live x) (deads n ++ v) -> In (Live x) v).
    { intros n v Hv. apply in_app_or in Hv. destruct Hv as [Hv|Hv]; [apply In_deads in Hv; discriminate|exact Hv]. }
    destruct y as [e' j|e'|]; cbn [decode] in H.
    + destruct (j =? e_nlfn e'); [apply Pre in H; apply (Tail _ H)|].
      destruct p as [[[e0 next] c]|].
      * destruct (own_eq e' e0 && (j =? next) && negb (next =? 0)); [apply (Tail _ H)|].
        apply Pre in H. destruct H as [H|H]; [discriminate|apply (Tail _ H)].
      * destruct H as [H|H]; [discriminate|apply (Tail _ H)].
    + destruct p as [[[e0 next] c]|].
      * destruct ((next =? 0) && own_eq e' e0).
        -- destruct H as [H|H]; [injection H as Hx; exists e'; split; [left; reflexivity|left; symmetry; exact Hx]|apply (Tail _ H)].
        -- apply Pre in H. destruct H as [H|H]; [injection H as Hx; exists e'; split; [left; reflexivity|right; symmetry; exact Hx]|apply (Tail _ H)].
      * destruct H as [H|H]; [injection H as Hx; exists e'; split; [left; reflexivity|right; symmetry; exact Hx]|apply (Tail _ H)].
    + apply Pre in H. destruct H as [H|H]; [discriminate|apply (Tail _ H)].
Qed.

(* the 8.3 records of a region during the walk: all of them are there, and nothing else *)
Ltac solve_in := repeat (rewrite in_app_iff in * || cbn [In app] in *); intuition (subst; auto; try discriminate).
Lemma clean_go_slots rest : forall done junk A, In A (clean_go done junk rest) ->
  (forall e, In (SS e) (done ++ rest) -> In (SS e) A) /\ (forall x, In x A -> In x (done ++ junk ++ rest)).
Proof.
  induction rest as [|x r IH]; intros done junk A HA; cbn [clean_go] in HA.
  - destruct junk; [destruct HA|]. destruct HA as [<-|[]]. split; [intros e He|intros y Hy]; solve_in.
  - assert (Live : x <> SD ->
      In A (match junk with [] => clean_go (done ++ [x]) [] r
            | _ :: j' => (done ++ [x] ++ j' ++ [x] ++ r) :: clean_go (done ++ [x]) (j' ++ [x]) r end) ->
      (forall e, In (SS e) (done ++ x :: r) -> In (SS e) A) /\ (forall y, In y A -> In y (done ++ junk ++ x :: r))).
    { intros Nx H. destruct junk as [|y j'].
      - destruct (IH _ _ _ H) as [I1 I2]. split.
        + intros e He. apply I1. solve_in.
        + intros z Hz. specialize (I2 z Hz). solve_in.
      - destruct H as [<-|H].
        + split; [intros e He|intros z Hz]; solve_in.
        + destruct (IH _ _ _ H) as [I1 I2]. split.
          * intros e He. apply I1. solve_in.
          * intros z Hz. specialize (I2 z Hz). solve_in. }
    destruct x as [e j|e|]; try (apply Live; [discriminate|exact HA]).
    destruct (IH _ _ _ HA) as [I1 I2]. split.
    + intros e He. apply I1. solve_in.
    + intros z Hz. specialize (I2 z Hz). solve_in.
Qed.
Lemma In_SS_expand e l : In (SS e) (expand l) <-> In e (lives l).
Proof.
  induction l as [|i r IH]; [cbn; tauto|]. unfold expand in *. cbn [flat_map]. rewrite in_app_iff, IH.
  destruct i as [x|]; cbn [slots_of_item lives].
  - rewrite in_app_iff. cbn [In]. split.
    + intros [[H|[H|[]]]|H]; [|inversion H; left; reflexivity|right; exact H].
      apply in_map_iff in H. destruct H as (j & H & _). discriminate.
    + intros [->|H]; [left; right; left; reflexivity|right; exact H].
  - cbn [In]. split; [intros [[H|[]]|H]; [discriminate|exact H]|intros H; right; exact H].
Qed.

Theorem clean_view_bound l v : In v (clean_views l) ->
  (forall e, In e (lives l) -> shown e v) /\
  (forall x, In (Live x) v -> exists e, In e (lives l) /\ (x = e \/ x = short' e)).
Proof.
  unfold clean_views, clean_arrays. intros H. apply in_map_iff in H. destruct H as (A & <- & HA).
  destruct (clean_go_slots _ _ _ _ HA) as [I1 I2]. cbn [app] in I1, I2. split.
  - intros e He. apply decode_shows. apply I1. apply In_SS_expand, He.
  - intros x Hx. destruct (decode_only x A None Hx) as (e & He & Ex). exists e. split; [|exact Ex].
    apply In_SS_expand. apply I2, He.
Qed.
(* in particular: under its alias every entry is still there with its attributes, size, first cluster *)
Corollary clean_view_alias l v e : In v (clean_views l) -> In e (lives l) ->
  exists x, In (Live x) v /\ e_alias x = e_alias e /\ e_attr x = e_attr e /\ e_size x = e_size e /\ e_clu x = e_clu e.
Proof.
  intros Hv He. destruct (proj1 (clean_view_bound l v Hv) e He) as [H|H]; [exists e; auto|].
  exists (short' e). split; [exact H|]. unfold short', short_of. destruct (e_nlfn e =? 0); auto.
Qed.

(* ---------------- micro_x against micro ---------------- *)
Section Expand.
Variable upper : name -> name.
Notation run_m := (run_m upper).
Notation apply_m := (apply_m upper).

Lemma run_views s id vs : vs <> [] -> run_m s (List.map (MView id) vs) = set_items s id (last vs []).
Proof.
  revert s. induction vs as [|v r IH]; intros s Hn; [congruence|]. cbn [List.map]. rewrite run_cons. cbn [Model.apply_m].
  destruct r as [|w r']; [reflexivity|]. rewrite IH by discriminate. rewrite set_items_twice. reflexivity.
Qed.
Lemma run_clean_views s id : run_m s (List.map (MView id) (clean_views (items_of s id)) ++ [MClean id]) = apply_m s (MClean id).
Proof.
  rewrite run_app. destruct (clean_views (items_of s id)) as [|v r] eqn:E; [reflexivity|].
  rewrite run_views by discriminate. rewrite <- E, (clean_last _ []) by (rewrite E; discriminate).
  rewrite run_cons, run_nil. cbn [Model.apply_m]. rewrite items_set_items_same, set_items_twice.
  f_equal. clear. induction (items_of s id) as [|[e|] t IH]; cbn [filter is_live]; [reflexivity|f_equal; exact IH|exact IH].
Qed.
Theorem run_expand l : forall s, run_m s (expand_steps upper s l) = run_m s l.
Proof.
  induction l as [|m r IH]; intros s; [reflexivity|]. cbn [expand_steps]. rewrite run_app, run_cons.
  assert (E : run_m s (match m with MClean id => List.map (MView id) (clean_views (items_of s id)) ++ [m] | _ => [m] end) = apply_m s m).
  { destruct m; try reflexivity. apply run_clean_views. }
  rewrite E. apply IH.
Qed.

(* every prefix of the expanded list: a prefix state of the plain list, or such a state where the
   NEXT store is a compaction and the directory shows one of its views *)
Theorem expand_prefix l : forall s n,
  exists k, run_m s (firstn n (expand_steps upper s l)) = run_m s (firstn k l) \/
            exists id v rest, skipn k l = MClean id :: rest /\ In v (clean_views (items_of (run_m s (firstn k l)) id)) /\
                              run_m s (firstn n (expand_steps upper s l)) = set_items (run_m s (firstn k l)) id v.
Proof.
  induction l as [|m r IH]; intros s n.
  - exists O. left. destruct n; reflexivity.
  - cbn [expand_steps]. set (hd := match m with MClean id => List.map (MView id) (clean_views (items_of s id)) ++ [m] | _ => [m] end).
    assert (Eh : run_m s hd = apply_m s m) by (unfold hd; destruct m; try reflexivity; apply run_clean_views).
    destruct (Nat.le_gt_cases (length hd) n) as [Ge|Lt].
    + (* the whole head, then into the tail *)
      rewrite firstn_app. replace (firstn n hd) with hd by (symmetry; apply firstn_all2; exact Ge).
      rewrite run_app, Eh. destruct (IH (apply_m s m) (n - length hd)%nat) as (k & Hk). exists (S k).
      cbn [firstn skipn]. rewrite run_cons. exact Hk.
    + (* inside the head: only a compaction has a head longer than one store *)
      rewrite firstn_app. replace (n - length hd)%nat with O by lia. cbn [firstn]. rewrite app_nil_r.
      exists O. cbn [firstn skipn]. rewrite run_nil.
      destruct n as [|n']; [left; reflexivity|].
      assert (Cl : exists id, m = MClean id /\ hd = List.map (MView id) (clean_views (items_of s id)) ++ [m]).
      { unfold hd in *. destruct m; cbn [length] in Lt; try lia. eexists. split; reflexivity. }
      destruct Cl as (id & -> & Eh'). right. set (vs := clean_views (items_of s id)) in *.
      assert (Ln : (S n' <= length vs)%nat) by (rewrite Eh', app_length, map_length in Lt; cbn [length] in Lt; lia).
      rewrite Eh', firstn_app, map_length. replace (S n' - length vs)%nat with O by lia.
      change (firstn 0 [MClean id]) with (@nil mstep). rewrite app_nil_r, firstn_map.
      assert (Nn : firstn (S n') vs <> []) by (destruct vs; [cbn in Ln; lia|discriminate]).
      rewrite run_views by exact Nn. exists id, (last (firstn (S n') vs) []), r. split; [reflexivity|]. split; [|reflexivity].
      apply (In_firstn' (S n')). apply FatAlloc.ProofsBase.last_In. exact Nn.
Qed.
End Expand.

Print Assumptions clean_last.
Print Assumptions clean_view_bound.
Print Assumptions run_expand.
Print Assumptions expand_prefix.
