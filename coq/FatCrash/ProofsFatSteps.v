(* The FAT stores of every generator respect the discipline of ProofsInv ([ok_fat]): a cluster is
   set / freed / zeroed only if it was free when the operation started or belongs to a target
   chain ([Amod]); the last cluster of a directory that receives an entry is only re-linked. *)
From Coq Require Import List NArith Bool Lia Arith.
From NV Require Import Lib.Res FatAlloc.Model FatAlloc.ProofsBase.
From NV Require Import FatVol.Model FatVol.ProofsBase FatVol.ProofsFat FatVol.ProofsInv.
From NV Require Import FatCrash.Model FatCrash.ProofsBase FatCrash.ProofsInv.
Import ListNotations.
Open Scope N_scope.

Lemma In_firstn {A} n (l : list A) x : In x (firstn n l) -> In x l.
Proof. revert n. induction l as [|a l IH]; intros [|n]; cbn; try tauto. intros [H|H]; [left; exact H|right; apply (IH n), H]. Qed.
Lemma In_skipn {A} n (l : list A) x : In x (skipn n l) -> In x l.
Proof. revert n. induction l as [|a l IH]; intros [|n]; cbn; try tauto. intros H. right. apply (IH n), H. Qed.
Lemma last_in_app_new (m new : list N) : new <> [] -> In (last (m ++ new) 0) new.
Proof. intros H. rewrite last_app_ne by exact H. apply last_In, H. Qed.

Section FatSteps.
Variable upper : name -> name.
Variable V : vparams.
Notation P := (PP V).
Notation cs := (vp_cs V).
Notation limit := (vp_limit V).
Notation run_m := (run_m upper).

Variable s0 : vol.
Variable T : N -> name -> Prop.
Variables TC GL : list N.
Variables D DD : N -> Prop.
Notation Amod := (Amod s0 TC).
Notation Inv := (Inv s0 T TC GL D DD).
Notation ok_fat := (ok_fat s0 TC GL).
Notation good := (good upper s0 T TC GL D DD).
Definition relink (c : N) : Prop := Amod c \/ In c GL.

Lemma v_fat_run l : forall s, v_fat (run_m s l) = fat_run l (v_fat s).
Proof.
  induction l as [|m r IH]; intros s; [reflexivity|]. rewrite run_cons, IH. destruct m; reflexivity.
Qed.
Lemma Inv_after_fat s l : Inv s -> Forall ok_fat l -> Inv (run_m s l).
Proof. intros I F. apply good_run; [exact I|apply good_fat, F]. Qed.
Lemma ok_set_amod c v : Amod c -> Forall ok_fat (fat_set c v).
Proof. intros H. apply ok_fat_set. left. exact H. Qed.
Lemma ok_set_relink c v : relink c -> v <> 0 -> Forall ok_fat (fat_set c v).
Proof. intros [H|H] Nz; apply ok_fat_set; [left; exact H|right; split; assumption]. Qed.
Lemma ok_app a b : Forall ok_fat a -> Forall ok_fat b -> Forall ok_fat (a ++ b).
Proof. intros A B. apply Forall_app. split; assumption. Qed.

Lemma end_mark_nz : end_mark P <> 0.
Proof. destruct (POK V) as (A & B & C). lia. Qed.

(* ---------------- freeing a chain ---------------- *)
Lemma chain_wf_tail_set t c r v : chain_wf P limit t (c :: r) -> chain_wf P limit (set t c v) r.
Proof.
  intros [Nd R L E]. inversion Nd as [|? ? Hc Nr]; subst.
  assert (Fr : forall x, In x r -> get (set t c v) x = get t x).
  { intros x Hx. apply get_set_other. intros ->. contradiction. }
  constructor.
  - exact Nr.
  - intros x Hx. destruct (R x (or_intror Hx)) as (A1 & A2 & A3 & A4). unfold in_area. rewrite set_len. auto.
  - destruct r as [|b r']; [exact I|]. destruct L as [_ L]. apply (links_frame t); [exact Fr|exact L].
  - destruct r as [|b r']; [exact I|]. cbn [ended] in *. rewrite Fr by (apply last_In; discriminate).
    rewrite last_cons_cons in E. exact E.
Qed.
Lemma free_steps_ok fuel : forall m f c,
  chain_wf P limit (ftbl f) m -> (m = [] -> ~ in_rng V c) -> hd c m = c -> (forall x, In x m -> Amod x) ->
  Forall ok_fat (free_steps V fuel f c).
Proof.
  induction fuel as [|k IH]; intros m f c W Nil Hd Am; cbn [free_steps]; [constructor|].
  destruct ((min_valid P <=? c) && (c <=? max_valid P)) eqn:R; [|constructor].
  destruct m as [|a r].
  - exfalso. apply (Nil eq_refl). apply andb_prop in R. destruct R as [R1 R2].
    apply N.leb_le in R1, R2. split; assumption.
  - cbn [hd] in Hd. subst a. apply ok_app; [apply ok_set_amod, Am; left; reflexivity|].
    apply (IH r).
    + unfold mark_free. rewrite ftbl_fset. apply chain_wf_tail_set, W.
    + intros ->. destruct W as [_ _ _ E]. cbn [ended last] in E. unfold in_rng. lia.
    + destruct r as [|b r']; [reflexivity|]. destruct W as [_ _ L _]. destruct L as [L _]. cbn [hd]. symmetry. exact L.
    + intros x Hx. apply Am. right. exact Hx.
Qed.

(* ---------------- links ---------------- *)
Lemma link_steps_ok l : (forall a, In a l -> relink a) -> (forall b, In b (tl l) -> b <> 0) -> Forall ok_fat (link_steps l).
Proof.
  induction l as [|a [|b r] IH]; intros R Nz; cbn [link_steps]; try constructor.
  apply ok_app.
  - apply IH; [intros x Hx; apply R; right; exact Hx|intros x Hx; apply Nz; right; exact Hx].
  - apply ok_set_relink; [apply R; left; reflexivity|apply Nz; left; reflexivity].
Qed.

Section State.
Variable s : vol.
Hypothesis I : Inv s.

Lemma scan_amod st c : sfat st = v_fat s -> In c (free_scan P (tbl st) limit (hint_of (sfat st))) -> Amod c /\ c <> 0.
Proof.
  intros E H. apply free_in_data_area in H. destruct H as (H1 & _ & _ & H4). split; [|lia].
  eapply (Inv_free upper); [exact I|]. unfold tbl in H4. rewrite E in H4. exact H4.
Qed.

(* the growing arm of truncate() *)
Lemma grow_ok st need :
  sfat st = v_fat s -> (map st = [] \/ relink (last (map st) 0)) -> (0 < need)%nat ->
  (need <= length (free_scan P (tbl st) limit (hint_of (sfat st))))%nat ->
  let new := firstn need (free_scan P (tbl st) limit (hint_of (sfat st))) in
  Forall ok_fat (fat_set (last new 0) (end_mark P) ++ List.map MZero new ++ link_steps (last_opt (map st) ++ new)).
Proof.
  intros E Rl Np Le new.
  assert (Hn : forall c, In c new -> Amod c /\ c <> 0).
  { intros c Hc. apply (scan_amod st c E). apply (In_firstn _ _ _ Hc). }
  assert (Nn : new <> []).
  { unfold new. intros H. apply (f_equal (@length N)) in H. rewrite firstn_length_le in H by exact Le. cbn in H. lia. }
  apply ok_app; [apply ok_set_amod, Hn, last_In, Nn|]. apply ok_app.
  - apply Forall_forall. intros m Hm. apply in_map_iff in Hm. destruct Hm as (c & <- & Hc). apply Hn, Hc.
  - apply link_steps_ok.
    + intros a Ha. apply in_app_or in Ha. destruct Ha as [Ha|Ha]; [|left; apply Hn, Ha].
      destruct (map st) as [|x r] eqn:M; [destruct Ha|]. destruct Rl as [Rl|Rl]; [congruence|].
      cbn [last_opt] in Ha. destruct Ha as [<-|[]]. exact Rl.
    + intros b Hb. apply Hn. destruct (last_opt (map st)) as [|x r] eqn:LO; cbn [app tl] in Hb.
      * destruct new; [destruct Hb|right; exact Hb].
      * destruct r; [exact Hb|]. unfold last_opt in LO. destruct (map st); discriminate.
Qed.

(* truncate() on a FILE: every cluster of its map may be modified *)
Lemma trunc_ok_file n st : sfat st = v_fat s -> (forall c, In c (map st) -> Amod c) -> Forall ok_fat (trunc_steps V n st).
Proof.
  intros E Am. unfold trunc_steps. destruct (n =? size st); [constructor|]. cbv zeta. apply ok_app.
  - destruct ((size st <? n) && negb (len (map st) * cs - size st =? 0)) eqn:C; [|constructor].
    constructor; [|constructor]. cbn [ok_fat ProofsInv.ok_fat]. apply Am. apply last_In. intros M. rewrite M in C.
    apply andb_prop in C. destruct C as [_ C]. cbn in C. discriminate.
  - destruct (len (map st) <? N.max 1 (cdiv n cs)) eqn:G.
    + destruct (Nat.ltb _ _) eqn:Sc; [constructor|]. apply Nat.ltb_ge in Sc. apply N.ltb_lt in G.
      apply grow_ok; [exact E| |lia|exact Sc].
      destruct (map st) as [|x r] eqn:M; [left; reflexivity|right; left; apply Am, last_In; discriminate].
    + destruct (N.max 1 (cdiv n cs) <? len (map st)) eqn:Sh; [|constructor]. apply N.ltb_lt in Sh. apply ok_app.
      * apply ok_set_amod, Am. apply nth_In. unfold len in Sh. lia.
      * apply Forall_forall. intros m Hm. apply in_flat_map in Hm. destruct Hm as (c & Hc & Hm).
        assert (A : Amod c) by (apply Am, (In_skipn _ _ _ Hc)).
        pose proof (ok_set_amod c 0 A) as F. rewrite Forall_forall in F. apply F, Hm.
Qed.
(* truncate() on the entry-less file of a DIRECTORY that is being extended *)
Lemma trunc_ok_dir n st : sfat st = v_fat s -> 0 < cs -> size st = cs * len (map st) -> size st < n ->
  (map st = [] \/ relink (last (map st) 0)) -> Forall ok_fat (trunc_steps V n st).
Proof.
  intros E CS Sz Lt Rl. unfold trunc_steps. destruct (n =? size st); [constructor|]. cbv zeta. apply ok_app.
  - replace (len (map st) * cs - size st =? 0) with true; [rewrite andb_false_r; constructor|].
    symmetry. apply N.eqb_eq. rewrite Sz. lia.
  - assert (Ge : len (map st) <= N.max 1 (cdiv n cs)).
    { apply N.le_trans with (cdiv n cs); [|lia]. rewrite <- (cdiv_mul (len (map st)) cs CS). apply cdiv_mono; [exact CS|lia]. }
    destruct (len (map st) <? N.max 1 (cdiv n cs)) eqn:G.
    + destruct (Nat.ltb _ _) eqn:Sc; [constructor|]. apply Nat.ltb_ge in Sc. apply N.ltb_lt in G.
      apply grow_ok; [exact E|exact Rl|lia|exact Sc].
    + destruct (N.max 1 (cdiv n cs) <? len (map st)) eqn:Sh; [apply N.ltb_lt in Sh; lia|constructor].
Qed.
End State.

(* the map after truncate(): extended by clusters that were free, or cut *)
Lemma truncate_map n st st' : truncate P cs limit n st = Ok st' ->
  (exists new, map st' = map st ++ new /\ forall c, In c new -> In c (free_scan P (tbl st) limit (hint_of (sfat st)))) \/
  (exists k, map st' = firstn k (map st)).
Proof.
  unfold truncate. destruct (n =? size st); [intros H; inversion H; subst; left; exists []; rewrite app_nil_r; split; [reflexivity|intros c []]|].
  cbv zeta. destruct (len (map st) <? N.max 1 (cdiv n cs)).
  - destruct (Nat.ltb _ _); [discriminate|]. intros H. inversion H; subst. cbn [map]. left. eexists. split; [reflexivity|].
    intros c Hc. apply (In_firstn _ _ _ Hc).
  - destruct (N.max 1 (cdiv n cs) <? len (map st)); intros H; inversion H; subst; cbn [map].
    + right. eexists. reflexivity.
    + left. exists []. rewrite app_nil_r. split; [reflexivity|intros c []].
Qed.

(* ---------------- write()'s allocation loop ---------------- *)
Lemma alloc_ok k : forall st s, Inv s -> sfat st = v_fat s -> (map st = [] \/ relink (last (map st) 0)) ->
  Forall ok_fat (alloc_steps V k st) /\
  exists new, map (fst (alloc_n P limit k st)) = map st ++ new /\ forall c, In c new -> Amod c.
Proof.
  induction k as [|k IH]; intros st s I E Rl; cbn [alloc_steps alloc_n].
  - split; [constructor|]. exists []. rewrite app_nil_r. split; [reflexivity|intros c []].
  - destruct (alloc_one P limit st) as [st'|x] eqn:A.
    2:{ split; [constructor|]. exists []. rewrite app_nil_r. split; [reflexivity|intros c []]. }
    unfold alloc_one in A. unfold alloc_one_steps.
    destruct (free_scan P (tbl st) limit (hint_of (sfat st))) as [|c rest] eqn:Sc; [discriminate|].
    destruct (scan_amod s I st c E) as [Ac Nz]; [rewrite Sc; left; reflexivity|].
    assert (F1 : Forall ok_fat (fat_set c (end_mark P) ++ match map st with [] => [] | _ :: _ => fat_set (last (map st) 0) c end)).
    { apply ok_app; [apply ok_set_amod, Ac|]. destruct (map st) as [|x r] eqn:M; [constructor|].
      destruct Rl as [Rl|Rl]; [congruence|]. apply ok_set_relink; assumption. }
    inversion A; subst st'. clear A.
    set (st' := {| sfat := _; map := map st ++ [c]; size := size st; pos := pos st |}).
    pose proof (Inv_after_fat s _ I F1) as I'.
    assert (E' : sfat st' = v_fat (run_m s (fat_set c (end_mark P) ++ match map st with [] => [] | _ :: _ => fat_set (last (map st) 0) c end))).
    { rewrite v_fat_run, <- E, fat_run_app, fat_run_set. unfold st'. cbn [sfat]. destruct (map st); reflexivity. }
    destruct (IH st' _ I' E') as (F2 & new & Mn & An).
    { right. unfold st'. cbn [map]. rewrite last_app_single. left. exact Ac. }
    split; [apply ok_app; assumption|]. exists (c :: new). split.
    + rewrite Mn. unfold st'. cbn [map]. rewrite <- app_assoc. reflexivity.
    + intros x [<-|Hx]; [exact Ac|apply An, Hx].
Qed.
End FatSteps.
