(* FatDirectory._clean_entries() record by record, over the decoded items of FatVol.
   A directory region up to its end marker is a list of SLOTS:
     SL e j   long-name record number j of entry e (j = e_nlfn e is the one flagged "last", stored first)
     SS e     the 8.3 record of e
     SD       a deleted record
   [expand] lays the items out; the code then walks the region with a read and a write offset:
   a deleted record is skipped, any other record is copied down to the write offset WHEN the
   offsets differ (the original stays where it is until something else is copied over it);
   at the end marker the first store of an end record at the write offset cuts the rest off.
   [clean_arrays] lists the region after every store that changes it; [decode] reads a region the
   way the specification reader (Fat/Spec.v decode_dir) does: a run of long-name records counts
   only if it starts at a "last" record, continues with the expected numbers of the SAME entry
   and is complete when the 8.3 record of that entry follows; otherwise the 8.3 record is listed
   under its short name and the records before it are orphans (dead slots).
   "The same entry" is decided by the alias: on disk it is the 8-bit checksum of the 8.3 name,
   assumed here not to collide between two entries of one directory.
   Executable definitions only; proofs in ProofsClean.v. *)
From Coq Require Import List NArith Bool.
From NV Require FatNames.Model.
From NV Require Import FatVol.Model FatCrash.Model.
Import ListNotations.
Open Scope N_scope.

Inductive slot := SL (e : entry) (j : N) | SS (e : entry) | SD.

(* [n; n-1; ...; 1] *)
Fixpoint countdown (n : nat) : list N :=
  match n with O => [] | S k => N.of_nat n :: countdown k end.
Definition slots_of_item (i : item) : list slot :=
  match i with
  | Live e => List.map (SL e) (countdown (N.to_nat (e_nlfn e))) ++ [SS e]
  | Dead => [SD]
  end.
Definition expand (l : list item) : list slot := flat_map slots_of_item l.

(* an 8.3 record listed without long-name records *)
Definition short' (e : entry) : entry := if e_nlfn e =? 0 then e else short_of e.
Definition own_eq (e e' : entry) : bool := FatNames.Model.beq (e_alias e) (e_alias e').
Definition deads (n : N) : list item := repeat Dead (N.to_nat n).

(* pending run: (entry of its records, next expected number, records so far) *)
Fixpoint decode (pend : option (entry * N * N)) (l : list slot) : list item :=
  let pc := match pend with Some (_, _, c) => c | None => 0 end in
  match l with
  | [] => deads pc
  | SD :: r => deads pc ++ Dead :: decode None r
  | SL e j :: r =>
    if j =? e_nlfn e then deads pc ++ decode (Some (e, j - 1, 1)) r
    else match pend with
         | Some (e', next, c) =>
           if own_eq e e' && (j =? next) && negb (next =? 0) then decode (Some (e', next - 1, c + 1)) r
           else deads pc ++ Dead :: decode None r
         | None => Dead :: decode None r
         end
  | SS e :: r =>
    match pend with
    | Some (e', next, c) =>
      if (next =? 0) && own_eq e e' then Live e :: decode None r
      else deads pc ++ Live (short' e) :: decode None r
    | None => Live (short' e) :: decode None r
    end
  end.

(* the walk: [done] = the records already in place (write offset = its length), [junk] = the
   records between the write and the read offset, [rest] = the records not read yet.
   Result: the region after every store that changes it *)
Fixpoint clean_go (done junk rest : list slot) : list (list slot) :=
  match rest with
  | [] => match junk with [] => [] | _ => [done] end        (* the first end record at the write offset *)
  | SD :: r => clean_go done (junk ++ [SD]) r
  | x :: r =>
    match junk with
    | [] => clean_go (done ++ [x]) [] r                       (* read offset = write offset: no store *)
    | _ :: j' => (done ++ [x] ++ j' ++ [x] ++ r) :: clean_go (done ++ [x]) (j' ++ [x]) r
    end
  end.
Definition clean_arrays (l : list item) : list (list slot) := clean_go [] [] (expand l).
(* the decoded directory after each of those stores *)
Definition clean_views (l : list item) : list (list item) := List.map (decode None) (clean_arrays l).

(* the micro-steps with every compaction spelled out: before each MClean the views the directory
   goes through (MView = "the decoded records of the directory are now ...") *)
Section Expand.
Variable upper : name -> name.
Fixpoint expand_steps (s : vol) (l : list mstep) : list mstep :=
  match l with
  | [] => []
  | m :: r =>
    (match m with
     | MClean id => List.map (MView id) (clean_views (items_of s id)) ++ [m]
     | _ => [m]
     end) ++ expand_steps (apply_m upper s m) r
  end.
Definition micro_x (V : vparams) (s : vol) (o : op) : list mstep := expand_steps s (micro upper V s o).
End Expand.
