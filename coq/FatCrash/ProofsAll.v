(* The finest level: the micro-steps with every _clean_entries() spelled out record by record
   ([micro_x], what the correspondence check compares the traced implementation with).
     micro_x_refines_step      folding micro_x gives FatVol's step state as well
     bystanders_intact_x       EVERY prefix state of micro_x is a prefix state of micro (where
                               bystanders_intact / prefix_inv_weak hold), or such a state with ONE
                               directory in the middle of a compaction: then the FAT and every other
                               directory are those of that prefix state, and in the compacted directory
                               every entry is listed in full or under its 8.3 name only (possibly
                               twice) with its attributes, size and first cluster; nothing else is.
   This is the precise bound on what can transiently happen to entries the operation does not
   name: during a compaction a look-up by LONG name can fail or find the entry under its alias
   spelling; a look-up by alias, the size, the first cluster and the chain never change. *)
From Coq Require Import List NArith Bool Lia Arith.
From NV Require Import Lib.Res FatAlloc.Model FatAlloc.ProofsBase.
From NV Require Import FatVol.Model FatVol.ProofsBase FatVol.ProofsFat FatVol.ProofsInv FatVol.ProofsOps FatVol.ProofsFile FatVol.Proofs.
From NV Require Import FatCrash.Model FatCrash.Clean FatCrash.ProofsBase FatCrash.ProofsRefine FatCrash.ProofsInv FatCrash.ProofsOps
     FatCrash.ProofsClean FatCrash.Proofs.
Import ListNotations.
Open Scope N_scope.

Section All.
Variable upper : name -> name.
Variable V : vparams.
Hypothesis PW : params_wf V.
Notation VolInv := (VolInv upper V).
Notation run_m := (run_m upper).
Notation lookup := (Model.lookup upper).

Definition prefix_state_x (s : vol) (o : op) (n : nat) : vol := run_m s (firstn n (micro_x upper V s o)).

Theorem micro_x_refines_step s o : VolInv s -> op_guard upper s o ->
  fold_left (apply_m upper) (micro_x upper V s o) s = fst (step upper V s o).
Proof.
  intros VI G. unfold micro_x. change (fold_left (apply_m upper) ?l s) with (run_m s l).
  rewrite run_expand. apply (micro_refines_step upper V s o VI G).
Qed.

Theorem bystanders_intact_x s o n : VolInv s -> op_guard upper s o ->
  let sx := prefix_state_x s o n in
  (exists k, sx = prefix_state upper V s o k) \/
  (exists k id v, let sp := prefix_state upper V s o k in
     In v (clean_views (items_of sp id)) /\ sx = set_items sp id v /\
     v_fat sx = v_fat sp /\ (forall d, d <> id -> items_of sx d = items_of sp d) /\
     (forall e, In e (lives_of sp id) -> shown e (items_of sx id)) /\
     (forall x, In (Live x) (items_of sx id) -> exists e, In e (lives_of sp id) /\ (x = e \/ x = short' e)) /\
     (* entries of the START state that the operation does not name *)
     (forall e, In e (lives_of s id) -> ~ Tk upper s o id (e_alias e) ->
        exists x, In (Live x) (items_of sx id) /\ e_alias x = e_alias e /\ e_attr x = e_attr e /\
                  e_size x = e_size e /\ e_clu x = e_clu e)).
Proof.
  intros VI G sx. unfold sx, prefix_state_x, micro_x.
  destruct (expand_prefix upper (micro upper V s o) s n) as (k & [E|(id & v & rest & _ & Hv & E)]).
  - left. exists k. exact E.
  - right. exists k, id, v. cbv zeta. fold (prefix_state upper V s o k) in *. set (sp := prefix_state upper V s o k) in *.
    rewrite E. split; [exact Hv|]. split; [reflexivity|]. split; [reflexivity|].
    split; [intros d Hd; apply items_set_items_other, Hd|]. rewrite items_set_items_same.
    destruct (clean_view_bound _ v Hv) as [B1 B2]. split; [exact B1|]. split; [exact B2|].
    intros e He Nt.
    assert (Hsp : In e (lives_of sp id)).
    { destruct (bystanders_intact upper V PW s o k VI G) as (L & _). cbv zeta in L. fold sp in L.
      pose proof (vi_names _ _ _ VI id) as Nm. destruct (in_split _ _ He) as (l1 & l2 & El). unfold lives_of in El.
      assert (Lk : lookup (upper (e_alias e)) (items_of s id) = Some e).
      { rewrite lookup_lives, El. fold (lives_of s id) in Nm. unfold lives_of in Nm. rewrite El in Nm.
        destruct (alias_key_split upper l1 e l2 Nm) as [F1 F2].
        clear -F1 F2. induction F1 as [|x l Hx F IH]; cbn [app find]; [rewrite F2; reflexivity|rewrite Hx; exact IH]. }
      apply (lookup_In upper _ _ _ (L id _ e Lk Nt)). }
    apply (clean_view_alias _ v e Hv Hsp).
Qed.
End All.

Print Assumptions micro_x_refines_step.
Print Assumptions bystanders_intact_x.
