(* Non-vacuity, by vm_compute on FatVol's example volume (FAT16, 10 data clusters of 512 bytes):
   a rename over an existing 3-cluster file in a populated directory -- the stores in the code's
   order, every intermediate state, and the main theorems applied to it (all guards hold);
   an append that lands on deleted records: the 8.3 record is decoded on its own first. *)
From Coq Require Import List NArith Bool Lia Arith String Ascii.
From NV Require Import Lib.Res FatAlloc.Model FatAlloc.ProofsBase.
From NV Require Import FatVol.Model FatVol.ProofsBase FatVol.ProofsFat FatVol.ProofsInv FatVol.ProofsWalk FatVol.ProofsOps
     FatVol.ProofsFileOp FatVol.Proofs FatVol.ProofsEx.
From NV Require Import FatCrash.Model FatCrash.Clean FatCrash.ProofsOps FatCrash.Proofs.
Import ListNotations.
Open Scope N_scope.

Definition nm (s : string) : name := List.map N_of_ascii (list_ascii_of_string s).
Definition n_a := nm "a.txt". Definition n_big := nm "big.bin". Definition n_c := nm "c.txt".

(* /a.txt (5 bytes, cluster 3), /big.bin (1200 bytes, clusters 4 5 6), /c.txt (600 bytes, clusters 7 8),
   /d (directory, cluster 9) with /d/f.txt (cluster 10) *)
Definition hist2 : list op :=
  [OFile [n_a] MW (AWrite None 5); OFile [n_big] MW (AWrite None 1200); OFile [n_c] MW (AWrite None 600);
   OMkdir [n_d]; OFile [n_d; n_f] MW (AWrite None 3)].
Definition s_pop : vol := fst (run up V0 s_empty hist2).

Lemma hist2_guard : run_guard up V0 s_empty hist2.
Proof.
  unfold hist2. cbn [run_guard op_guard].
  split; [split; [tf|gc]|]. set (s1 := fst (step up V0 s_empty _)). vm_compute in s1.
  split; [split; [tf|gc]|]. set (s2 := fst (step up V0 s1 _)). vm_compute in s2.
  split; [split; [tf|gc]|]. set (s3 := fst (step up V0 s2 _)). vm_compute in s3.
  split; [split; [tf|gc]|]. set (s4 := fst (step up V0 s3 _)). vm_compute in s4.
  split; [split; [tf|gc]|]. exact I.
Qed.
Lemma s_pop_inv : VolInv up V0 s_pop.
Proof. apply (FV_history_inv up V0 V0_wf hist2 s_empty empty_inv hist2_guard). Qed.

Definition o_ren : op := ORename [n_c] [n_big].
Lemma o_ren_guard : op_guard up s_pop o_ren.
Proof. cbn [op_guard o_ren]. split; [tf|]. split; [tf|]. intros pr R. vm_compute in R. discriminate. Qed.

(* the stores, in the code's order: the target slot takes (attr, size, first cluster) of the source;
   the source entry is deleted; the OLD target chain 4 -> 5 -> 6 is freed front to back *)
Example FC_rename_micro :
  micro up V0 s_pop o_ren =
  [MUpd 0 (nm "BIG.BIN") 32 600 7; MDel 0 (nm "C.TXT");
   MInfo 4 0; MTbl 4 0; MInfo 5 0; MTbl 5 0; MInfo 6 0; MTbl 6 0].
Proof. vm_compute. reflexivity. Qed.

(* every intermediate state: (FAT values, (name, size, first cluster) of the root's entries) *)
Definition view (st : vol) := (ftbl (v_fat st), List.map (fun e => (e_name e, e_size e, e_clu e)) (lives (items_of st 0))).
Example FC_rename_states :
  List.map view (states up s_pop (micro up V0 s_pop o_ren)) =
  let A := (n_a, 5, 3) in let D := (n_d, 0, 9) in
  let f0 := [65528; 65535; 0; 65535; 5; 6; 65535; 8; 65535; 65535; 65535; 0] in
  let f1 := [65528; 65535; 0; 65535; 0; 6; 65535; 8; 65535; 65535; 65535; 0] in
  let f2 := [65528; 65535; 0; 65535; 0; 0; 65535; 8; 65535; 65535; 65535; 0] in
  let f3 := [65528; 65535; 0; 65535; 0; 0; 0; 8; 65535; 65535; 65535; 0] in
  [ (f0, [A; (n_big, 1200, 4); (n_c, 600, 7); D]);      (* before *)
    (f0, [A; (n_big, 600, 7); (n_c, 600, 7); D]);       (* both names show the source's data; 4 5 6 lost *)
    (f0, [A; (n_big, 600, 7); D]);                      (* source entry gone *)
    (f0, [A; (n_big, 600, 7); D]); (f1, [A; (n_big, 600, 7); D]);
    (f1, [A; (n_big, 600, 7); D]); (f2, [A; (n_big, 600, 7); D]);
    (f2, [A; (n_big, 600, 7); D]); (f3, [A; (n_big, 600, 7); D]) ].
Proof. vm_compute. reflexivity. Qed.

Example FC_rename_refines :
  fold_left (apply_m up) (micro up V0 s_pop o_ren) s_pop = fst (step up V0 s_pop o_ren) /\
  snd (step up V0 s_pop o_ren) = Ok tt.
Proof. split; [apply (micro_refines_step up V0 s_pop o_ren s_pop_inv o_ren_guard)|vm_compute; reflexivity]. Qed.

(* the theorem applied: /a.txt and /d/f.txt are not named by the rename; at EVERY prefix they are
   found by name and by alias, identical, with their chains untouched *)
Definition e_a : entry := {| e_name := n_a; e_alias := nm "A.TXT"; e_attr := 32; e_size := 5; e_clu := 3; e_nlfn := 0 |}.
Definition e_f : entry := {| e_name := n_f; e_alias := nm "F.TXT"; e_attr := 32; e_size := 3; e_clu := 10; e_nlfn := 0 |}.
Example FC_rename_bystanders n :
  let sn := prefix_state up V0 s_pop o_ren n in
  lookup up (up n_a) (items_of sn 0) = Some e_a /\ lookup up (nm "A.TXT") (items_of sn 0) = Some e_a /\
  lookup up (up n_f) (items_of sn 9) = Some e_f /\
  chain_of V0 (v_fat sn) 3 = [3] /\ chain_of V0 (v_fat sn) 10 = [10] /\
  ~ In 3 (touched (firstn n (micro up V0 s_pop o_ren))) /\ ~ In 10 (touched (firstn n (micro up V0 s_pop o_ren))) /\
  resolve up sn [n_d; n_f] = Ok (RFound 9 e_f).
Proof.
  intros sn. destruct (bystanders_intact up V0 V0_wf s_pop o_ren n s_pop_inv o_ren_guard) as (L & C & _). cbv zeta in L, C.
  assert (Na : ~ Tk up s_pop o_ren 0 (e_alias e_a)).
  { unfold Tk. vm_compute. intros [H|[H|[]]]; inversion H. }
  assert (Nf : ~ Tk up s_pop o_ren 9 (e_alias e_f)).
  { unfold Tk. vm_compute. intros [H|[H|[]]]; inversion H. }
  assert (Nd : ~ Tk up s_pop o_ren 0 (nm "D")).
  { unfold Tk. vm_compute. intros [H|[H|[]]]; inversion H. }
  assert (Ia : In e_a (lives_of s_pop 0)) by (vm_compute; left; reflexivity).
  assert (If : In e_f (lives_of s_pop 9)) by (vm_compute; left; reflexivity).
  assert (Da : is_dir e_a = false) by reflexivity. assert (Df : is_dir e_f = false) by reflexivity.
  destruct (C 0 e_a Ia Da Na) as (Ca & Ta). destruct (C 9 e_f If Df Nf) as (Cf & Tf).
  split; [apply (L 0 (up n_a) e_a); [vm_compute; reflexivity|exact Na]|].
  split; [apply (L 0 (nm "A.TXT") e_a); [vm_compute; reflexivity|exact Na]|].
  split; [apply (L 9 (up n_f) e_f); [vm_compute; reflexivity|exact Nf]|].
  assert (E3 : chain_of V0 (v_fat s_pop) (e_clu e_a) = [3]) by (vm_compute; reflexivity).
  assert (E10 : chain_of V0 (v_fat s_pop) (e_clu e_f) = [10]) by (vm_compute; reflexivity).
  rewrite E3 in Ca. rewrite E10 in Cf.
  split; [exact Ca|]. split; [exact Cf|].
  split; [apply (Ta 3); left; reflexivity|]. split; [apply (Tf 10); left; reflexivity|].
  unfold sn. rewrite (bystander_paths_resolve up V0 V0_wf s_pop o_ren n [n_d; n_f] s_pop_inv o_ren_guard); [vm_compute; reflexivity|].
  cbn [avoids]. split; [reflexivity|]. eexists. split; [vm_compute; reflexivity|]. split; [exact Nd|].
  split; [reflexivity|]. eexists. split; [vm_compute; reflexivity|]. split; [exact Nf|exact I].
Qed.

(* an append that lands on deleted records at the END of a directory: the records are stored from
   the highest slot down, so the 8.3 record (decoded under its short name only) is visible before
   the long-name records in front of it are all there *)
Definition n_long1 := nm "first long file name.txt". Definition n_long2 := nm "second long file name.txt".
Definition hist3 : list op := [OFile [n_a] MA ATouch; OFile [n_long1] MA ATouch; OUnlink [n_long1]].
Definition s_tail : vol := fst (run up V0 s_empty hist3).
Example FC_append_on_dead_slots :
  micro up V0 s_tail (OFile [n_long2] MA ATouch) =
  let e := {| e_name := n_long2; e_alias := nm "SECOND~1.TXT"; e_attr := 32; e_size := 0; e_clu := 0; e_nlfn := 2 |} in
  [MTail 0 1 [Dead; Dead; Live (short_of e)]; MTail 0 1 [Live e]; MUpd 0 (nm "SECOND~1.TXT") 32 0 0].
Proof. vm_compute. reflexivity. Qed.


(* _clean_entries() record by record: a directory [deleted record; entry e with two long-name records]
   is compacted (because another name is created in it): after the SECOND store e is listed under
   its 8.3 name only -- a look-up by its long name fails at that crash point -- after the THIRD it is
   listed twice; its alias, size and first cluster are there at every point (clean_view_bound) *)
Definition e_long : entry :=
  {| e_name := n_long1; e_alias := nm "FIRSTL~1.TXT"; e_attr := 32; e_size := 700; e_clu := 5; e_nlfn := 2 |}.
Example FC_compaction_views :
  clean_views [Dead; Live e_long] =
  [ [Dead; Live e_long];                                   (* the "last" long-name record copied down *)
    [Dead; Dead; Dead; Live (short_of e_long)];            (* second long-name record copied over the first's original *)
    [Live e_long; Live (short_of e_long)];                 (* 8.3 record copied: the group is complete, its original still follows *)
    [Live e_long] ].                                       (* end record written behind it *)
Proof. vm_compute. reflexivity. Qed.
Example FC_compaction_long_name_hidden :
  let v := nth 1 (clean_views [Dead; Live e_long]) [] in
  lookup up (up n_long1) v = None /\ lookup up (nm "FIRSTL~1.TXT") v = Some (short_of e_long).
Proof. vm_compute. split; reflexivity. Qed.

Print Assumptions FC_rename_bystanders.
