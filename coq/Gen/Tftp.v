(* translation failed: TranslateError: service_actions resend branch shape *)
Definition translation_failed : False := I.
