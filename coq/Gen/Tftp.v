(* translation failed: TranslateError: poll_interval not found *)
Definition translation_failed : False := I.
