(* translation failed: TranslateError: FatPath.open: open(): the choice of lock is not the expected `lock = fs.lock.read if set(mode) & set('r+') == {'r'} else fs.mark_dirty() if set(mode) & set('awx') else fs.lock.write` (every creating mode a/w/x must mark the volume dirty): ["lock = fs.lock.read if set(mode) & set('r+') == {'r'} else fs.mark_dirty() if set(mode) & set('wx') else fs.lock.write"]: with lock:
    if 'r' in mode:
        self._must_exist()
    elif 'x' in mode:
 *)
Definition translation_failed : False := I.
