(* translation failed: TranslateError: RWLock: unexpected class-level statement *)
Definition translation_failed : False := I.
