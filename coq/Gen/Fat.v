(* translation failed: TranslateError: fat_type_from_count thresholds *)
Definition translation_failed : False := I.
