(* translation failed: TranslateError: unknown name poll_interval *)
Definition translation_failed : False := I.
