(* Model of the VFAT name machinery of nobodd: fat.lfn_valid, fat.lfn_checksum,
   fs.FatDirectory._get_names / _get_unique_sfn / _prefix_entries, tools.exclude /
   any_match, and the name test of FatDirectory.__getitem__.
   A name is a [list N] of Unicode code points; byte strings are [list N] of bytes.
   NOT modelled (passed in by the caller; the harness supplies CPython's values):
     up  = code points of  filename.lstrip('.').upper()
   and, for look-ups, str.upper() of the compared strings.
   SFN encoding is iso-8859-1 (FatFileSystem's default).
   Executable definitions only; proofs are in Proofs*.v. *)
From Coq Require Import List NArith Bool.
From NV Require Import Lib.Res Gen.Fat.
Import ListNotations.
Open Scope N_scope.

(* ---------------- small list helpers ---------------- *)
Fixpoint beq (a b : list N) : bool :=
  match a, b with
  | [], [] => true
  | x :: a', y :: b' => (x =? y) && beq a' b'
  | _, _ => false
  end.
Definition len (l : list N) : N := N.of_nat (length l).
Definition memb (c : N) (l : list N) : bool := existsb (N.eqb c) l.
Definition ljust (n : nat) (fill : N) (s : list N) : list N :=
  s ++ repeat fill (n - length s).

(* ---------------- encodings ---------------- *)
Definition is_surrogate (c : N) : bool := (55296 <=? c) && (c <? 57344).
Definition utf16_1 (c : N) : list N :=
  if c <? 65536 then [c]
  else [55296 + (c - 65536) / 1024; 56320 + (c - 65536) mod 1024].
Definition utf16 (s : list N) : list N := flat_map utf16_1 s.
Definition le16 (u : N) : list N := [u mod 256; u / 256].
(* str.encode('utf-16le'): lone surrogate code points are refused *)
Definition utf16le (s : list N) : res (list N) :=
  if existsb is_surrogate s then Err UnicodeEncodeError
  else Ok (flat_map le16 (utf16 s)).
(* str.encode('iso-8859-1', 'replace') *)
Definition latin1_replace (s : list N) : list N :=
  map (fun c => if c <? 256 then c else 63) s.
(* str.lower() on the iso-8859-1 decoding, re-encoded: A-Z and the Latin-1 capitals 0xC0-0xDE except the
   multiplication sign 0xD7; the writer (_get_names) and the reader (_split_entries) use the same map *)
Definition lower_b (c : N) : N := if ((65 <=? c) && (c <=? 90)) || ((192 <=? c) && (c <=? 222) && negb (c =? 215)) then c + 32 else c.

(* ---------------- fat.lfn_valid ---------------- *)
Definition last_is (s : list N) (c : N) : bool :=
  match rev s with x :: _ => x =? c | [] => false end.
Definition first_is (s : list N) (c : N) : bool :=
  match s with x :: _ => x =? c | [] => false end.
(* [regex.match] of ^[^denied]+\Z ; with "$" one trailing newline is tolerated *)
Definition lfn_regex_match (s : list N) : bool :=
  let body := if lfn_valid_anchored_end then s
              else if last_is s 10 then removelast s else s in
  match body with
  | [] => false
  | _ => forallb (fun c => negb (memb c lfn_valid_denied_chars)) body
  end.
Definition lfn_valid (s : list N) : bool :=
  (if lfn_valid_guards_standard
   then negb (first_is s 32) && negb (last_is s 32 || last_is s 46) else true)
  && lfn_regex_match s.

(* ---------------- fat.lfn_checksum ---------------- *)
Definition sfn_checksum (sfn ext : list N) : N :=
  fold_left (fun r c => N.land (N.shiftl (N.land r 1) 7 + N.shiftr r 1 + c) 255)
            (sfn ++ ext) 0.

(* ---------------- FatDirectory.SFN_VALID ---------------- *)
(* [^A-Z0-9 !#$%&'()@^_`{}~\x80-\xFF-] is replaced by "_" *)
Definition sfn_symbols : list N :=
  [32; 33; 35; 36; 37; 38; 39; 40; 41; 64; 94; 95; 96; 123; 125; 126; 45].
Definition sfn_valid_char (c : N) : bool :=
  ((65 <=? c) && (c <=? 90)) || ((48 <=? c) && (c <=? 57)) || memb c sfn_symbols
  || ((128 <=? c) && (c <=? 255)).
Definition sfn_sub (c : N) : N := if sfn_valid_char c then c else 95.

(* bytes.rsplit(b'.', 1) when a dot is present *)
Fixpoint rsplit_dot (s : list N) : option (list N * list N) :=
  match s with
  | [] => None
  | c :: r => match rsplit_dot r with
              | Some (a, b) => Some (c :: a, b)
              | None => if c =? 46 then Some ([], r) else None
              end
  end.

(* ---------------- decimal numbers ---------------- *)
Fixpoint dec_go (fuel : nat) (n : N) (acc : list N) : list N :=
  match fuel with
  | O => acc
  | S f => let acc' := (48 + n mod 10) :: acc in
           if n / 10 =? 0 then acc' else dec_go f (n / 10) acc'
  end.
Definition dec_str (n : N) : list N := dec_go (S (N.size_nat n)) n [].   (* str(n) *)
Definition is_digit (c : N) : bool := (48 <=? c) && (c <=? 57).
Definition int_of_digits (ds : list N) : N :=                             (* int(s) *)
  fold_left (fun a d => 10 * a + (d - 48)) ds 0.

(* ---------------- re.IGNORECASE on one character ---------------- *)
(* simple case folding as CPython's sre applies it to the characters that can occur in
   an alias prefix (Latin-1): ASCII and Latin-1 letters, plus the characters outside
   Latin-1 whose lower case lies in Latin-1 / sre's extra equivalences *)
Definition fold1 (c : N) : N :=
  if ((65 <=? c) && (c <=? 90)) || ((192 <=? c) && (c <=? 222) && negb (c =? 215))
  then c + 32
  else if (c =? 304) || (c =? 305) then 105         (* I-dot, dotless i ~ i *)
  else if c =? 8490 then 107                        (* KELVIN SIGN ~ k *)
  else if c =? 383 then 115                         (* LONG S ~ s *)
  else if (c =? 924) || (c =? 956) then 181         (* GREEK MU ~ MICRO SIGN *)
  else if c =? 8491 then 229                        (* ANGSTROM SIGN ~ a-ring *)
  else if c =? 7838 then 223                        (* CAPITAL SHARP S ~ sharp s *)
  else if c =? 376 then 255                         (* Y-diaeresis *)
  else c.
Definition ci_eq1 (a b : N) : bool := fold1 a =? fold1 b.

(* match the literal [p] case-insensitively at the start of [t]; rest of [t] *)
Fixpoint match_lit (p t : list N) : option (list N) :=
  match p with
  | [] => Some t
  | a :: p' => match t with
               | [] => None
               | b :: t' => if ci_eq1 a b then match_lit p' t' else None
               end
  end.
(* ([0-9]{i}) *)
Fixpoint take_digits (i : nat) (t : list N) : option (list N * list N) :=
  match i with
  | O => Some ([], t)
  | S i' => match t with
            | [] => None
            | d :: t' => if is_digit d
                         then match take_digits i' t' with
                              | Some (ds, r) => Some (d :: ds, r)
                              | None => None
                              end
                         else None
            end
  end.
(* regex number i:  escape(prefix[:7-i]) ~ ([0-9]{i}) [ \. escape(ext) ] \Z   with
   re.IGNORECASE, used through .match(): anchored at the start by match() and at the
   end by \Z.  Result: int(group(1)).  [anchored = false] is the pattern as it was before
   the repair of the duplicate-alias defect (no \Z); kept for the regression example. *)
Definition at_end (anchored : bool) (r : list N) : bool :=
  if anchored then match r with [] => true | _ => false end else true.
Definition rx_match_gen (anchored : bool) (prefix ext : list N) (i : nat) (t : list N)
  : option N :=
  match match_lit (firstn (7 - i) prefix ++ [126]) t with
  | None => None
  | Some r =>
    match take_digits i r with
    | None => None
    | Some (ds, r') =>
      match ext with
      | [] => if at_end anchored r' then Some (int_of_digits ds) else None
      | _ => match match_lit (46 :: ext) r' with
             | Some r'' => if at_end anchored r'' then Some (int_of_digits ds) else None
             | None => None
             end
      end
    end
  end.
Definition rx_match := rx_match_gen true.
(* tools.any_match over the regexes for i = 1 .. len(str(MAX_SFN_SUFFIX)) *)
Fixpoint any_match_in (prefix ext : list N) (is : list nat) (t : list N) : option N :=
  match is with
  | [] => None
  | i :: r => match rx_match prefix ext i t with
              | Some v => Some v
              | None => any_match_in prefix ext r t
              end
  end.
Definition n_rx : nat := length (dec_str max_sfn_suffix).
Definition any_match (prefix ext t : list N) : option N :=
  any_match_in prefix ext (seq 1 n_rx) t.

(* ---------------- tools.exclude ---------------- *)
(* a range is (start, stop); [if r] = non-empty *)
Fixpoint exclude (ranges : list (N * N)) (v : N) : list (N * N) :=
  match ranges with
  | [] => []
  | (a, b) :: rest =>
    if (a <=? v) && (v <? b)
    then (if a <? v then [(a, v)] else []) ++ (if v + 1 <? b then [(v + 1, b)] else []) ++ rest
    else (a, b) :: exclude rest v
  end.

(* ---------------- FatDirectory._get_unique_sfn ---------------- *)
(* [existing]: (lfn text, sfn text) of every entry of the directory, as produced by
   _split_entries.  The sfn is tested first, then the lfn. *)
Definition excl_text (prefix ext : list N) (ranges : list (N * N)) (t : list N) :=
  match any_match prefix ext t with
  | Some v => exclude ranges v
  | None => ranges
  end.
Definition excl_entry (prefix ext : list N) (ranges : list (N * N))
           (e : list N * list N) : list (N * N) :=
  excl_text prefix ext (excl_text prefix ext ranges (snd e)) (fst e).
Definition final_ranges (prefix ext : list N) (existing : list (list N * list N)) :=
  fold_left (excl_entry prefix ext) existing [(1, max_sfn_suffix)].
Definition alias_of (prefix : list N) (n : N) : list N :=
  let ds := dec_str n in firstn (7 - length ds) prefix ++ [126] ++ ds.
Definition unique_sfn (prefix ext : list N) (existing : list (list N * list N))
  : res (list N) :=
  match final_ranges prefix ext existing with
  | [] => Err OSError_ENOSPC
  | (n, _) :: _ => Ok (alias_of prefix n)
  end.

(* ---------------- FatDirectory._get_names ---------------- *)
Definition is_dot_name (s : list N) : bool := beq s [46] || beq s [46; 46].
Definition make_sfn (n e : list N) : list N :=
  match e with [] => n | _ => n ++ [46] ++ e end.

(* sfn, ext before the length test *)
Definition short_parts (name up : list N) : list N * list N :=
  if is_dot_name name then (name, [])
  else
    let s := latin1_replace up in                       (* .encode(enc, 'replace') *)
    let s := filter (fun c => negb (c =? 32)) s in      (* .replace(b' ', b'') *)
    let p := match rsplit_dot s with Some p => p | None => (s, []) end in
    (map sfn_sub (fst p), map sfn_sub (snd p)).

(* Some attr when the name can be stored as a short entry only *)
Definition case_attr (name sfn ext : list N) : option N :=
  if Nat.leb (length sfn) 8 && Nat.leb (length ext) 3 then
    let l := latin1_replace name in
    if beq l (make_sfn sfn ext) then Some 0
    else if beq l (make_sfn sfn (map lower_b ext)) then Some 16
    else if beq l (make_sfn (map lower_b sfn) ext) then Some 8
    else if beq l (make_sfn (map lower_b sfn) (map lower_b ext)) then Some 24
    else None
  else None.

(* the long-name bytes: utf-16le, at most 255 units, NUL if it does not fill the last
   record, 0xFF up to a multiple of 26 *)
Definition lfn_encode (name : list N) : res (list N) :=
  do b <- utf16le name;
  if 255 * 2 <? len b then Err ValueError
  else
    let b1 := if len b mod 26 =? 0 then b else b ++ [0; 0] in
    let b2 := if len b1 mod 26 =? 0 then b1
              else ljust (N.to_nat (((len b1 + 25) / 26) * 26)) 255 b1 in
    Ok b2.

(* (lfn, sfn, ext, attr) *)
Definition get_names (name up : list N) (existing : list (list N * list N))
  : res (list N * list N * list N * N) :=
  let p := short_parts name up in
  let sfn := fst p in let ext := snd p in
  match case_attr name sfn ext with
  | Some attr => Ok ([], ljust 8 32 sfn, ljust 3 32 ext, attr)
  | None =>
    do lfn <- lfn_encode name;
    let ext := firstn 3 ext in
    do alias <- unique_sfn sfn ext existing;
    Ok (lfn, ljust 8 32 (latin1_replace alias), ljust 3 32 ext, 0)
  end.

(* ---------------- records ---------------- *)
(* struct.pack_into of one field ("Ns" pads with NUL / truncates) *)
Definition put (f : N * N) (v : list N) (r : list N) : list N :=
  let off := N.to_nat (fst f) in let n := N.to_nat (snd f) in
  firstn off r ++ firstn n (v ++ repeat 0 n) ++ skipn (off + n) r.

Definition lfn_record (sequence cks : N) (chunk : list N) : list N :=
  put lfn_sequence [sequence]
  (put lfn_name_1 (firstn 10 chunk)
  (put lfn_attr [15]
  (put lfn_checksum [cks]
  (put lfn_name_2 (firstn 12 (skipn 10 chunk))
  (put lfn_first_cluster [0; 0]
  (put lfn_name_3 (firstn 4 (skipn 22 chunk))
  (repeat 0 (N.to_nat lfn_sizeof)))))))).

Fixpoint chunks26 (fuel : nat) (b : list N) : list (list N) :=
  match fuel with
  | O => []
  | S f => match b with
           | [] => []
           | _ => firstn 26 b :: chunks26 f (skipn 26 b)
           end
  end.
(* enumerate(..., start) *)
Fixpoint numbered (start : N) (l : list (list N)) : list (N * list N) :=
  match l with
  | [] => []
  | c :: r => (start, c) :: numbered (start + 1) r
  end.
(* entries[0]._replace(sequence=0x40 | entries[0].sequence) *)
Definition mark_last (recs : list (list N)) : list (list N) :=
  match recs with
  | (s :: body) :: rest => (N.lor 64 s :: body) :: rest
  | _ => recs
  end.
Definition lfn_records (cks : N) (lfn : list N) : list (list N) :=
  mark_last (rev (map (fun ic => lfn_record (fst ic) cks (snd ic))
                      (numbered 1 (chunks26 (length lfn) lfn)))).

Definition short_record (entry sfn ext : list N) (attr2 : N) : list N :=
  put de_filename sfn (put de_ext ext (put de_attr2 [attr2] entry)).

(* FatDirectory._prefix_entries: bytes(e) of every returned entry *)
Definition prefix_entries (name up : list N) (existing : list (list N * list N))
           (entry : list N) : res (list (list N)) :=
  do x <- get_names name up existing;
  let '(lfn, sfn, ext, attr) := x in
  let recs := match lfn with
              | [] => []
              | _ => lfn_records (sfn_checksum sfn ext) lfn
              end in
  Ok (recs ++ [short_record entry sfn ext attr]).

(* creation through FatPath: every component but "." / ".." passes lfn_valid in the constructor;
   "." / ".." are references, and the calls that create an entry under the final component refuse
   them (_must_be_named; the fact is regenerated from path.py) *)
Definition create_records (name up : list N) (existing : list (list N * list N))
           (entry : list N) : res (list (list N)) :=
  if is_dot_name name then
    (if fatpath_mutators_refuse_dot_names then Err ValueError else prefix_entries name up existing entry)
  else if lfn_valid name then prefix_entries name up existing entry
  else Err ValueError.

(* ---------------- name test of __getitem__ / __setitem__ / __delitem__ ---------------- *)
(* [uname] = name.upper(); [existing_up] = (lfn.upper(), sfn) per entry; index of the
   first entry that answers to the name *)
Fixpoint lookup_from (i : N) (uname : list N) (existing_up : list (list N * list N))
  : option N :=
  match existing_up with
  | [] => None
  | (lu, s) :: r => if beq lu uname || beq s uname then Some i
                    else lookup_from (i + 1) uname r
  end.
Definition lookup := lookup_from 0.
