(* Proofs about _get_unique_sfn / tools.exclude: the numeric tail chosen is the least
   free one, ENOSPC only when none is free, and the alias differs (in the modelled
   case-insensitive comparison) from every long and short name of the directory. *)
From Coq Require Import List NArith Bool Lia Arith.
From NV Require Import Lib.Res Gen.Fat FatNames.Model.
Import ListNotations.
Open Scope N_scope.

(* ---------- generic: finite case analysis by computation ---------- *)
Lemma small_cases (P : N -> bool) (n : nat) :
  forallb P (map N.of_nat (seq 0 n)) = true -> forall k, k < N.of_nat n -> P k = true.
Proof.
  intros H k Hk. rewrite forallb_forall in H. apply H.
  apply in_map_iff. exists (N.to_nat k). split; [apply N2Nat.id|].
  apply in_seq. lia.
Qed.

(* ---------- ranges ---------- *)
Definition inr (x : N) (rs : list (N * N)) : bool :=
  existsb (fun r => (fst r <=? x) && (x <? snd r)) rs.

(* sorted, disjoint, non-empty ranges, all at or above [lo] *)
Fixpoint wf (lo : N) (rs : list (N * N)) : Prop :=
  match rs with
  | [] => True
  | (a, b) :: r => lo <= a /\ a < b /\ wf b r
  end.

Lemma wf_weaken lo lo' rs : lo' <= lo -> wf lo rs -> wf lo' rs.
Proof. destruct rs as [|[a b] r]; cbn; [auto|]. intros H (H1 & H2 & H3). repeat split; auto; lia. Qed.

Lemma inr_below lo rs x : wf lo rs -> x < lo -> inr x rs = false.
Proof.
  revert lo; induction rs as [|[a b] r IH]; intros lo Hw Hx; [reflexivity|].
  cbn in Hw. destruct Hw as (H1 & H2 & H3). cbn [inr existsb fst snd].
  replace (a <=? x) with false by (symmetry; apply N.leb_gt; lia). cbn [andb orb].
  apply (IH b); [exact H3|lia].
Qed.

Lemma exclude_wf rs : forall lo v, wf lo rs -> wf lo (exclude rs v).
Proof.
  induction rs as [|[a b] r IH]; intros lo v Hw; [exact I|].
  cbn in Hw. destruct Hw as (H1 & H2 & H3). cbn [exclude].
  destruct ((a <=? v) && (v <? b)) eqn:E.
  - apply andb_true_iff in E as [E1 E2]. apply N.leb_le in E1. apply N.ltb_lt in E2.
    destruct (N.ltb_spec a v), (N.ltb_spec (v + 1) b); cbn [app wf]; repeat split; try lia;
      try (apply (wf_weaken b); [lia|exact H3]).
  - cbn [wf]. repeat split; auto.
Qed.

Lemma exclude_inr rs : forall lo v x, wf lo rs ->
  inr x (exclude rs v) = inr x rs && negb (x =? v).
Proof.
  induction rs as [|[a b] r IH]; intros lo v x Hw; [reflexivity|].
  cbn in Hw. destruct Hw as (H1 & H2 & H3). cbn [exclude].
  destruct ((a <=? v) && (v <? b)) eqn:E.
  - apply andb_true_iff in E as [E1 E2]. apply N.leb_le in E1. apply N.ltb_lt in E2.
    assert (Hr : x < b -> inr x r = false) by (intros; apply (inr_below b); assumption).
    unfold inr in *.
    destruct (N.ltb_spec a v), (N.ltb_spec (v + 1) b); cbn [app existsb fst snd];
      destruct (N.eqb_spec x v) as [->|Hn]; cbn [negb];
      repeat match goal with
             | |- context [?p <=? ?q] => destruct (N.leb_spec p q)
             | |- context [?p <? ?q] => destruct (N.ltb_spec p q)
             end; cbn [andb orb]; try reflexivity; try lia;
      try (rewrite Hr by lia; reflexivity); try (symmetry; apply Hr; lia);
      try (rewrite andb_true_r; reflexivity); try (rewrite andb_false_r; reflexivity).
  - cbn [inr existsb fst snd]. fold (inr x (exclude r v)). fold (inr x r).
    rewrite (IH b v x H3).
    destruct (N.eqb_spec x v) as [->|Hn]; cbn [negb].
    + rewrite E. rewrite !andb_false_r. reflexivity.
    + rewrite !andb_true_r. reflexivity.
Qed.

Lemma wf_head_min lo a b r x : wf lo ((a, b) :: r) -> inr x ((a, b) :: r) = true -> a <= x.
Proof.
  cbn [wf]. intros (H1 & H2 & H3) H. cbn [inr existsb fst snd] in H.
  apply orb_true_iff in H as [H|H].
  - apply andb_true_iff in H as [H _]. apply N.leb_le in H. exact H.
  - destruct (N.lt_ge_cases x b) as [Hl|Hg]; [|lia].
    fold (inr x r) in H. rewrite (inr_below b r x H3 Hl) in H. discriminate.
Qed.
Lemma wf_head_in lo a b r : wf lo ((a, b) :: r) -> inr a ((a, b) :: r) = true.
Proof.
  cbn [wf]. intros (H1 & H2 & H3). cbn [inr existsb fst snd].
  rewrite N.leb_refl. replace (a <? b) with true by (symmetry; apply N.ltb_lt; lia). reflexivity.
Qed.

(* folding exclude over a list of values *)
Lemma fold_exclude_wf vs : forall lo rs, wf lo rs -> wf lo (fold_left exclude vs rs).
Proof. induction vs as [|v vs IH]; intros lo rs H; cbn; [exact H|]. apply IH, exclude_wf, H. Qed.
Lemma fold_exclude_inr vs : forall lo rs x, wf lo rs ->
  inr x (fold_left exclude vs rs) = inr x rs && negb (existsb (N.eqb x) vs).
Proof.
  induction vs as [|v vs IH]; intros lo rs x H; cbn [fold_left existsb negb].
  - rewrite andb_true_r. reflexivity.
  - rewrite (IH lo) by (apply exclude_wf, H). rewrite (exclude_inr rs lo v x H).
    rewrite negb_orb, andb_assoc. reflexivity.
Qed.

(* ---------- the tails read from the directory ---------- *)
Definition opt_list (o : option N) : list N := match o with Some v => [v] | None => [] end.
(* the numbers handed to exclude, in order: per entry the sfn first, then the lfn *)
Definition tails (prefix ext : list N) (existing : list (list N * list N)) : list N :=
  flat_map (fun e => opt_list (any_match prefix ext (snd e)) ++
                     opt_list (any_match prefix ext (fst e))) existing.

Lemma final_ranges_tails prefix ext existing : forall rs,
  fold_left (excl_entry prefix ext) existing rs =
  fold_left exclude (tails prefix ext existing) rs.
Proof.
  induction existing as [|e r IH]; intros rs; [reflexivity|].
  cbn [fold_left tails flat_map]. fold (tails prefix ext r).
  rewrite fold_left_app, IH. f_equal.
  unfold excl_entry, excl_text.
  destruct (any_match prefix ext (snd e)), (any_match prefix ext (fst e)); reflexivity.
Qed.

Lemma max_gt_1 : 1 < max_sfn_suffix. Proof. reflexivity. Qed.

Definition taken (prefix ext : list N) (existing : list (list N * list N)) (n : N) : bool :=
  existsb (N.eqb n) (tails prefix ext existing).

(* tools.exclude, as used: afterwards the ranges hold exactly the numbers of
   [1, MAX_SFN_SUFFIX) that were not read from the directory *)
Theorem exclude_spec prefix ext existing x :
  inr x (final_ranges prefix ext existing) =
  (1 <=? x) && (x <? max_sfn_suffix) && negb (taken prefix ext existing x).
Proof.
  unfold final_ranges. rewrite final_ranges_tails.
  rewrite (fold_exclude_inr _ 1); [|cbn [wf]; split; [lia|split; [apply max_gt_1|exact I]]].
  cbn [inr existsb fst snd]. rewrite orb_false_r. reflexivity.
Qed.

Lemma final_wf prefix ext existing : wf 1 (final_ranges prefix ext existing).
Proof.
  unfold final_ranges. rewrite final_ranges_tails. apply fold_exclude_wf.
  cbn [wf]; split; [lia|split; [apply max_gt_1|exact I]].
Qed.

(* the alias carries the least free tail n >= 1 *)
Theorem unique_sfn_least prefix ext existing a :
  unique_sfn prefix ext existing = Ok a ->
  exists n, a = alias_of prefix n /\ 1 <= n /\ n < max_sfn_suffix /\
            taken prefix ext existing n = false /\
            forall m, 1 <= m -> m < n -> taken prefix ext existing m = true.
Proof.
  unfold unique_sfn. pose proof (final_wf prefix ext existing) as Hw.
  pose proof (exclude_spec prefix ext existing) as Hs.
  destruct (final_ranges prefix ext existing) as [|[n b] r] eqn:E; [discriminate|].
  intros H; inversion H; subst a; clear H. exists n.
  pose proof (wf_head_in _ _ _ _ Hw) as Hin. rewrite Hs in Hin.
  apply andb_true_iff in Hin as [Hin Ht]. apply andb_true_iff in Hin as [H1 H2].
  apply N.leb_le in H1. apply N.ltb_lt in H2. apply negb_true_iff in Ht.
  repeat split; auto.
  intros m Hm1 Hm2. destruct (taken prefix ext existing m) eqn:Tm; [reflexivity|].
  assert (Hi : inr m ((n, b) :: r) = true).
  { rewrite Hs, Tm. replace (1 <=? m) with true by (symmetry; apply N.leb_le; lia).
    replace (m <? max_sfn_suffix) with true by (symmetry; apply N.ltb_lt; lia). reflexivity. }
  pose proof (wf_head_min _ _ _ _ _ Hw Hi). lia.
Qed.

(* ENOSPC exactly when every tail of [1, MAX_SFN_SUFFIX) is taken *)
Theorem unique_sfn_enospc prefix ext existing :
  (exists e, unique_sfn prefix ext existing = Err e) <->
  (forall m, 1 <= m -> m < max_sfn_suffix -> taken prefix ext existing m = true).
Proof.
  unfold unique_sfn. pose proof (final_wf prefix ext existing) as Hw.
  pose proof (exclude_spec prefix ext existing) as Hs.
  destruct (final_ranges prefix ext existing) as [|[n b] r] eqn:E; split.
  - intros _ m H1 H2. specialize (Hs m). cbn in Hs.
    replace (1 <=? m) with true in Hs by (symmetry; apply N.leb_le; lia).
    replace (m <? max_sfn_suffix) with true in Hs by (symmetry; apply N.ltb_lt; lia).
    cbn in Hs. destruct (taken prefix ext existing m); [reflexivity|discriminate].
  - intros _. exists OSError_ENOSPC. reflexivity.
  - intros [e H]. discriminate.
  - intros H. exfalso. pose proof (wf_head_in _ _ _ _ Hw) as Hin. rewrite Hs in Hin.
    apply andb_true_iff in Hin as [Hin Ht]. apply andb_true_iff in Hin as [H1 H2].
    apply N.leb_le in H1. apply N.ltb_lt in H2. rewrite (H n H1 H2) in Ht. discriminate.
Qed.
Lemma unique_sfn_err_enospc prefix ext existing e :
  unique_sfn prefix ext existing = Err e -> e = OSError_ENOSPC.
Proof. unfold unique_sfn. destruct (final_ranges prefix ext existing) as [|[n b] r]; congruence. Qed.

(* ---------- case folding facts ---------- *)
Definition fs (t : list N) : list N := map fold1 t.
Definition digits (ds : list N) : bool := forallb is_digit ds.

Ltac fold1_cases x :=
  unfold fold1;
  destruct (N.leb_spec 65 x), (N.leb_spec x 90), (N.leb_spec 192 x), (N.leb_spec x 222),
    (N.eqb_spec x 215), (N.eqb_spec x 304), (N.eqb_spec x 305), (N.eqb_spec x 8490),
    (N.eqb_spec x 383), (N.eqb_spec x 924), (N.eqb_spec x 956), (N.eqb_spec x 8491),
    (N.eqb_spec x 7838), (N.eqb_spec x 376); cbn [andb orb negb]; try lia.

(* only the character itself folds to "~", ".", or a digit *)
Lemma fold1_low x c : c < 65 -> fold1 x = c -> x = c.
Proof. intros Hc. fold1_cases x. Qed.
Lemma fold1_tilde x : fold1 x = 126 -> x = 126.
Proof. fold1_cases x. Qed.
Lemma fold1_low_id c : c < 65 -> fold1 c = c.
Proof. intros Hc. fold1_cases c. Qed.
Lemma is_digit_range d : is_digit d = true -> 48 <= d /\ d <= 57.
Proof. unfold is_digit. intros H. apply andb_true_iff in H as [H1 H2].
  apply N.leb_le in H1, H2. auto. Qed.
Lemma fs_digits ds : digits ds = true -> fs ds = ds.
Proof.
  induction ds as [|d r IH]; cbn; [reflexivity|]. intros H. apply andb_true_iff in H as [H1 H2].
  apply is_digit_range in H1. rewrite fold1_low_id by lia. f_equal. apply IH, H2.
Qed.
Lemma fs_eq_digits t ds : digits ds = true -> fs t = ds -> t = ds.
Proof.
  revert ds; induction t as [|x t IH]; intros [|d ds]; cbn; try discriminate; [reflexivity|].
  intros H E. apply andb_true_iff in H as [H1 H2]. inversion E as [[E1 E2]].
  apply is_digit_range in H1. apply fold1_low in E1; [|lia]. rewrite E1, E2.
  f_equal. rewrite <- E2 at 2. apply IH; [rewrite E2; exact H2|reflexivity].
Qed.
Lemma fs_app a b : fs (a ++ b) = fs a ++ fs b. Proof. apply map_app. Qed.
Lemma fs_split t : forall a b, fs t = a ++ b -> exists t1 t2, t = t1 ++ t2 /\ fs t1 = a /\ fs t2 = b.
Proof.
  induction t as [|x t IH]; intros a b H.
  - destruct a; [|discriminate]. destruct b; [|discriminate]. exists [], []. auto.
  - destruct a as [|y a].
    + exists [], (x :: t). auto.
    + cbn in H. inversion H as [[H1 H2]]. destruct (IH a b H2) as (t1 & t2 & E & E1 & E2).
      exists (x :: t1), t2. subst. auto.
Qed.

(* ---------- the matchers ---------- *)
Lemma match_lit_some p : forall t r,
  match_lit p t = Some r <-> exists t1, t = t1 ++ r /\ fs t1 = fs p.
Proof.
  induction p as [|a p IH]; intros t r; cbn [match_lit].
  - split.
    + intros H; inversion H; subst. exists []. auto.
    + intros (t1 & E & F). destruct t1; [|discriminate]. subst. reflexivity.
  - destruct t as [|b t].
    + split; [discriminate|]. intros (t1 & E & F). destruct t1; discriminate.
    + unfold ci_eq1. destruct (N.eqb_spec (fold1 a) (fold1 b)) as [Hab|Hab].
      * rewrite IH. split.
        -- intros (t1 & E & F). exists (b :: t1). subst. cbn. rewrite Hab, F. auto.
        -- intros (t1 & E & F). destruct t1 as [|x t1]; [discriminate|].
           cbn in E, F. inversion E; inversion F; subst. exists t1. auto.
      * split; [discriminate|]. intros (t1 & E & F). destruct t1 as [|x t1]; [discriminate|].
        cbn in E, F. inversion E; inversion F; subst. congruence.
Qed.

Lemma take_digits_some i : forall t ds r,
  take_digits i t = Some (ds, r) <-> t = ds ++ r /\ length ds = i /\ digits ds = true.
Proof.
  induction i as [|i IH]; intros t ds r; cbn [take_digits].
  - split.
    + intros H; inversion H; subst. auto.
    + intros (E & L & _). destruct ds; [|discriminate]. subst. reflexivity.
  - destruct t as [|d t].
    + split; [discriminate|]. intros (E & L & _). destruct ds; discriminate.
    + destruct (is_digit d) eqn:Hd.
      * destruct (take_digits i t) as [[ds' r']|] eqn:T.
        -- apply IH in T. destruct T as (E & L & D). split.
           ++ intros H; inversion H; subst. cbn. rewrite Hd, D. auto.
           ++ intros (E' & L' & D'). destruct ds as [|x ds]; [discriminate|].
              cbn in E', L', D'. inversion E'; subst x. apply andb_true_iff in D' as [_ D'].
              assert (T' : take_digits i t = Some (ds, r)) by (apply IH; repeat split; auto; lia).
              assert (T0 : take_digits i t = Some (ds', r')) by (apply IH; auto).
              congruence.
        -- split; [discriminate|]. intros (E' & L' & D'). destruct ds as [|x ds]; [discriminate|].
           cbn in E', L', D'. inversion E'; subst x. apply andb_true_iff in D' as [_ D'].
           assert (T' : take_digits i t = Some (ds, r)) by (apply IH; repeat split; auto; lia).
           congruence.
      * split; [discriminate|]. intros (E' & L' & D'). destruct ds as [|x ds]; [discriminate|].
        cbn in E', D'. inversion E'; subst x. rewrite Hd in D'. discriminate.
Qed.
