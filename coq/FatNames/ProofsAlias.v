(* Proofs about _get_unique_sfn / tools.exclude: the numeric tail chosen is the least
   free one, ENOSPC only when none is free, and the alias differs (in the modelled
   case-insensitive comparison) from every long and short name of the directory. *)
From Coq Require Import List NArith Bool Lia Arith.
From NV Require Import Lib.Res Gen.Fat FatNames.Model.
Import ListNotations.
Open Scope N_scope.

(* ---------- generic: finite case analysis by computation ---------- *)
Lemma small_cases (P : N -> bool) (n : nat) :
  forallb P (map N.of_nat (seq 0 n)) = true -> forall k, k < N.of_nat n -> P k = true.
Proof.
  intros H k Hk. rewrite forallb_forall in H. apply H.
  apply in_map_iff. exists (N.to_nat k). split; [apply N2Nat.id|].
  apply in_seq. lia.
Qed.

(* ---------- ranges ---------- *)
Definition inr (x : N) (rs : list (N * N)) : bool :=
  existsb (fun r => (fst r <=? x) && (x <? snd r)) rs.

(* sorted, disjoint, non-empty ranges, all at or above [lo] *)
Fixpoint wf (lo : N) (rs : list (N * N)) : Prop :=
  match rs with
  | [] => True
  | (a, b) :: r => lo <= a /\ a < b /\ wf b r
  end.

Lemma wf_weaken lo lo' rs : lo' <= lo -> wf lo rs -> wf lo' rs.
Proof. destruct rs as [|[a b] r]; cbn; [auto|]. intros H (H1 & H2 & H3). repeat split; auto; lia. Qed.

Lemma inr_below lo rs x : wf lo rs -> x < lo -> inr x rs = false.
Proof.
  revert lo; induction rs as [|[a b] r IH]; intros lo Hw Hx; [reflexivity|].
  cbn in Hw. destruct Hw as (H1 & H2 & H3). cbn [inr existsb fst snd].
  replace (a <=? x) with false by (symmetry; apply N.leb_gt; lia). cbn [andb orb].
  apply (IH b); [exact H3|lia].
Qed.

Lemma exclude_wf rs : forall lo v, wf lo rs -> wf lo (exclude rs v).
Proof.
  induction rs as [|[a b] r IH]; intros lo v Hw; [exact I|].
  cbn in Hw. destruct Hw as (H1 & H2 & H3). cbn [exclude].
  destruct ((a <=? v) && (v <? b)) eqn:E.
  - apply andb_true_iff in E as [E1 E2]. apply N.leb_le in E1. apply N.ltb_lt in E2.
    destruct (N.ltb_spec a v), (N.ltb_spec (v + 1) b); cbn [app wf]; repeat split; try lia;
      try (apply (wf_weaken b); [lia|exact H3]).
  - cbn [wf]. repeat split; auto.
Qed.

Lemma exclude_inr rs : forall lo v x, wf lo rs ->
  inr x (exclude rs v) = inr x rs && negb (x =? v).
Proof.
  induction rs as [|[a b] r IH]; intros lo v x Hw; [reflexivity|].
  cbn in Hw. destruct Hw as (H1 & H2 & H3). cbn [exclude].
  destruct ((a <=? v) && (v <? b)) eqn:E.
  - apply andb_true_iff in E as [E1 E2]. apply N.leb_le in E1. apply N.ltb_lt in E2.
    assert (Hr : x < b -> inr x r = false) by (intros; apply (inr_below b); assumption).
    unfold inr in *.
    destruct (N.ltb_spec a v), (N.ltb_spec (v + 1) b); cbn [app existsb fst snd];
      destruct (N.eqb_spec x v) as [->|Hn]; cbn [negb];
      repeat match goal with
             | |- context [?p <=? ?q] => destruct (N.leb_spec p q)
             | |- context [?p <? ?q] => destruct (N.ltb_spec p q)
             end; cbn [andb orb]; try reflexivity; try lia;
      try (rewrite Hr by lia; reflexivity); try (symmetry; apply Hr; lia);
      try (rewrite andb_true_r; reflexivity); try (rewrite andb_false_r; reflexivity).
  - cbn [inr existsb fst snd]. fold (inr x (exclude r v)). fold (inr x r).
    rewrite (IH b v x H3).
    destruct (N.eqb_spec x v) as [->|Hn]; cbn [negb].
    + rewrite E. rewrite !andb_false_r. reflexivity.
    + rewrite !andb_true_r. reflexivity.
Qed.

Lemma wf_head_min lo a b r x : wf lo ((a, b) :: r) -> inr x ((a, b) :: r) = true -> a <= x.
Proof.
  cbn [wf]. intros (H1 & H2 & H3) H. cbn [inr existsb fst snd] in H.
  apply orb_true_iff in H as [H|H].
  - apply andb_true_iff in H as [H _]. apply N.leb_le in H. exact H.
  - destruct (N.lt_ge_cases x b) as [Hl|Hg]; [|lia].
    fold (inr x r) in H. rewrite (inr_below b r x H3 Hl) in H. discriminate.
Qed.
Lemma wf_head_in lo a b r : wf lo ((a, b) :: r) -> inr a ((a, b) :: r) = true.
Proof.
  cbn [wf]. intros (H1 & H2 & H3). cbn [inr existsb fst snd].
  rewrite N.leb_refl. replace (a <? b) with true by (symmetry; apply N.ltb_lt; lia). reflexivity.
Qed.

(* folding exclude over a list of values *)
Lemma fold_exclude_wf vs : forall lo rs, wf lo rs -> wf lo (fold_left exclude vs rs).
Proof. induction vs as [|v vs IH]; intros lo rs H; cbn; [exact H|]. apply IH, exclude_wf, H. Qed.
Lemma fold_exclude_inr vs : forall lo rs x, wf lo rs ->
  inr x (fold_left exclude vs rs) = inr x rs && negb (existsb (N.eqb x) vs).
Proof.
  induction vs as [|v vs IH]; intros lo rs x H; cbn [fold_left existsb negb].
  - rewrite andb_true_r. reflexivity.
  - rewrite (IH lo) by (apply exclude_wf, H). rewrite (exclude_inr rs lo v x H).
    rewrite negb_orb, andb_assoc. reflexivity.
Qed.

(* ---------- the tails read from the directory ---------- *)
Definition opt_list (o : option N) : list N := match o with Some v => [v] | None => [] end.
(* the numbers handed to exclude, in order: per entry the sfn first, then the lfn *)
Definition tails (prefix ext : list N) (existing : list (list N * list N)) : list N :=
  flat_map (fun e => opt_list (any_match prefix ext (snd e)) ++
                     opt_list (any_match prefix ext (fst e))) existing.

Lemma final_ranges_tails prefix ext existing : forall rs,
  fold_left (excl_entry prefix ext) existing rs =
  fold_left exclude (tails prefix ext existing) rs.
Proof.
  induction existing as [|e r IH]; intros rs; [reflexivity|].
  cbn [fold_left tails flat_map]. fold (tails prefix ext r).
  rewrite fold_left_app, IH. f_equal.
  unfold excl_entry, excl_text.
  destruct (any_match prefix ext (snd e)), (any_match prefix ext (fst e)); reflexivity.
Qed.

Lemma max_gt_1 : 1 < max_sfn_suffix. Proof. reflexivity. Qed.

Definition taken (prefix ext : list N) (existing : list (list N * list N)) (n : N) : bool :=
  existsb (N.eqb n) (tails prefix ext existing).

(* tools.exclude, as used: afterwards the ranges hold exactly the numbers of
   [1, MAX_SFN_SUFFIX) that were not read from the directory *)
Theorem exclude_spec prefix ext existing x :
  inr x (final_ranges prefix ext existing) =
  (1 <=? x) && (x <? max_sfn_suffix) && negb (taken prefix ext existing x).
Proof.
  unfold final_ranges. rewrite final_ranges_tails.
  rewrite (fold_exclude_inr _ 1); [|cbn [wf]; split; [lia|split; [apply max_gt_1|exact I]]].
  cbn [inr existsb fst snd]. rewrite orb_false_r. reflexivity.
Qed.

Lemma final_wf prefix ext existing : wf 1 (final_ranges prefix ext existing).
Proof.
  unfold final_ranges. rewrite final_ranges_tails. apply fold_exclude_wf.
  cbn [wf]; split; [lia|split; [apply max_gt_1|exact I]].
Qed.

(* the alias carries the least free tail n >= 1 *)
Theorem unique_sfn_least prefix ext existing a :
  unique_sfn prefix ext existing = Ok a ->
  exists n, a = alias_of prefix n /\ 1 <= n /\ n < max_sfn_suffix /\
            taken prefix ext existing n = false /\
            forall m, 1 <= m -> m < n -> taken prefix ext existing m = true.
Proof.
  unfold unique_sfn. pose proof (final_wf prefix ext existing) as Hw.
  pose proof (exclude_spec prefix ext existing) as Hs.
  destruct (final_ranges prefix ext existing) as [|[n b] r] eqn:E; [discriminate|].
  intros H; inversion H; subst a; clear H. exists n.
  pose proof (wf_head_in _ _ _ _ Hw) as Hin. rewrite Hs in Hin.
  apply andb_true_iff in Hin as [Hin Ht]. apply andb_true_iff in Hin as [H1 H2].
  apply N.leb_le in H1. apply N.ltb_lt in H2. apply negb_true_iff in Ht.
  repeat split; auto.
  intros m Hm1 Hm2. destruct (taken prefix ext existing m) eqn:Tm; [reflexivity|].
  assert (Hi : inr m ((n, b) :: r) = true).
  { rewrite Hs, Tm. replace (1 <=? m) with true by (symmetry; apply N.leb_le; lia).
    replace (m <? max_sfn_suffix) with true by (symmetry; apply N.ltb_lt; lia). reflexivity. }
  pose proof (wf_head_min _ _ _ _ _ Hw Hi). lia.
Qed.

(* ENOSPC exactly when every tail of [1, MAX_SFN_SUFFIX) is taken *)
Theorem unique_sfn_enospc prefix ext existing :
  (exists e, unique_sfn prefix ext existing = Err e) <->
  (forall m, 1 <= m -> m < max_sfn_suffix -> taken prefix ext existing m = true).
Proof.
  unfold unique_sfn. pose proof (final_wf prefix ext existing) as Hw.
  pose proof (exclude_spec prefix ext existing) as Hs.
  destruct (final_ranges prefix ext existing) as [|[n b] r] eqn:E; split.
  - intros _ m H1 H2. specialize (Hs m). cbn in Hs.
    replace (1 <=? m) with true in Hs by (symmetry; apply N.leb_le; lia).
    replace (m <? max_sfn_suffix) with true in Hs by (symmetry; apply N.ltb_lt; lia).
    cbn in Hs. destruct (taken prefix ext existing m); [reflexivity|discriminate].
  - intros _. exists OSError_ENOSPC. reflexivity.
  - intros [e H]. discriminate.
  - intros H. exfalso. pose proof (wf_head_in _ _ _ _ Hw) as Hin. rewrite Hs in Hin.
    apply andb_true_iff in Hin as [Hin Ht]. apply andb_true_iff in Hin as [H1 H2].
    apply N.leb_le in H1. apply N.ltb_lt in H2. rewrite (H n H1 H2) in Ht. discriminate.
Qed.
Lemma unique_sfn_err_enospc prefix ext existing e :
  unique_sfn prefix ext existing = Err e -> e = OSError_ENOSPC.
Proof. unfold unique_sfn. destruct (final_ranges prefix ext existing) as [|[n b] r]; congruence. Qed.

(* ---------- case folding facts ---------- *)
Definition fs (t : list N) : list N := map fold1 t.
Definition digits (ds : list N) : bool := forallb is_digit ds.

Ltac b2p := repeat match goal with
  | H : _ || _ = true |- _ => apply orb_true_iff in H; destruct H
  | H : _ || _ = false |- _ => apply orb_false_iff in H; destruct H
  | H : _ && _ = true |- _ => apply andb_true_iff in H; destruct H
  | H : _ && _ = false |- _ => apply andb_false_iff in H; destruct H
  | H : negb _ = true |- _ => apply negb_true_iff in H
  | H : negb _ = false |- _ => apply negb_false_iff in H
  | H : (_ <=? _) = true |- _ => apply N.leb_le in H
  | H : (_ <=? _) = false |- _ => apply N.leb_gt in H
  | H : (_ =? _) = true |- _ => apply N.eqb_eq in H
  | H : (_ =? _) = false |- _ => apply N.eqb_neq in H
  end.
(* walk down the if-chain of fold1, one condition at a time *)
Ltac fold1_seq :=
  unfold fold1;
  repeat match goal with
         | |- context [if ?b then _ else _] => let E := fresh "E" in destruct b eqn:E
         end; b2p; try lia.

(* only the character itself folds to "~", ".", or a digit *)
Lemma fold1_low x c : c < 65 -> fold1 x = c -> x = c.
Proof. intros Hc. fold1_seq. Qed.
Lemma fold1_tilde x : fold1 x = 126 -> x = 126.
Proof. fold1_seq. Qed.
Lemma fold1_low_id c : c < 65 -> fold1 c = c.
Proof. intros Hc. fold1_seq. Qed.
Lemma is_digit_range d : is_digit d = true -> 48 <= d /\ d <= 57.
Proof. unfold is_digit. intros H. apply andb_true_iff in H as [H1 H2].
  apply N.leb_le in H1, H2. auto. Qed.
Lemma fs_digits ds : digits ds = true -> fs ds = ds.
Proof.
  induction ds as [|d r IH]; cbn; [reflexivity|]. intros H. apply andb_true_iff in H as [H1 H2].
  apply is_digit_range in H1. rewrite fold1_low_id by lia. f_equal. apply IH, H2.
Qed.
Lemma fs_eq_digits t : forall ds, digits ds = true -> fs t = ds -> t = ds.
Proof.
  induction t as [|x t IH]; intros [|d ds]; cbn [fs map digits forallb]; try discriminate; [reflexivity|].
  intros H E. apply andb_true_iff in H as [H1 H2]. injection E as E1 E2.
  apply is_digit_range in H1. apply fold1_low in E1; [|lia]. subst x. f_equal.
  apply IH; assumption.
Qed.
Lemma fs_app a b : fs (a ++ b) = fs a ++ fs b. Proof. apply map_app. Qed.
Lemma fs_split t : forall a b, fs t = a ++ b -> exists t1 t2, t = t1 ++ t2 /\ fs t1 = a /\ fs t2 = b.
Proof.
  induction t as [|x t IH]; intros a b H.
  - destruct a; [|discriminate]. destruct b; [|discriminate]. exists [], []. auto.
  - destruct a as [|y a].
    + exists [], (x :: t). auto.
    + cbn in H. inversion H as [[H1 H2]]. destruct (IH a b H2) as (t1 & t2 & E & E1 & E2).
      exists (x :: t1), t2. subst. auto.
Qed.

(* ---------- the matchers ---------- *)
Lemma match_lit_some p : forall t r,
  match_lit p t = Some r <-> exists t1, t = t1 ++ r /\ fs t1 = fs p.
Proof.
  unfold fs. induction p as [|a p IH]; intros t r; cbn [match_lit].
  - split.
    + intros H; inversion H; subst. exists []. auto.
    + intros (t1 & E & F). destruct t1; [|discriminate]. subst. reflexivity.
  - destruct t as [|b t].
    + split; [discriminate|]. intros (t1 & E & F). destruct t1; discriminate.
    + unfold ci_eq1. destruct (N.eqb_spec (fold1 a) (fold1 b)) as [Hab|Hab].
      * rewrite IH. split.
        -- intros (t1 & E & F). exists (b :: t1). subst t. cbn [map app]. rewrite Hab, F. auto.
        -- intros (t1 & E & F). destruct t1 as [|x t1]; [discriminate|].
           cbn [map app] in E, F. injection E as E0 E. injection F as F0 F. subst x. exists t1. auto.
      * split; [discriminate|]. intros (t1 & E & F). destruct t1 as [|x t1]; [discriminate|].
        cbn [map app] in E, F. injection E as E0 E. injection F as F0 F. subst x. congruence.
Qed.

Lemma take_digits_sound i : forall t ds r,
  take_digits i t = Some (ds, r) -> t = ds ++ r /\ length ds = i /\ digits ds = true.
Proof.
  induction i as [|i IH]; intros t ds r H; cbn [take_digits] in H.
  - inversion H; subst. auto.
  - destruct t as [|d t]; [discriminate|]. destruct (is_digit d) eqn:Hd; [|discriminate].
    destruct (take_digits i t) as [[ds' r']|] eqn:T; [|discriminate].
    inversion H; subst. apply IH in T as (E & L & D). subst.
    cbn [digits forallb app length]. rewrite Hd. auto.
Qed.
Lemma take_digits_complete ds : forall r, digits ds = true ->
  take_digits (length ds) (ds ++ r) = Some (ds, r).
Proof.
  induction ds as [|d ds IH]; intros r H; cbn [length app take_digits]; [reflexivity|].
  cbn [digits forallb] in H. apply andb_true_iff in H as [H1 H2]. rewrite H1, (IH r H2). reflexivity.
Qed.

(* ---------- what one pattern matches ---------- *)
(* the text after the numeric tail: "" or "." ext *)
Definition extpart (ext : list N) : list N := match ext with [] => [] | _ => 46 :: ext end.
(* case-folded form of everything pattern i matches with the digits ds *)
Definition shape (prefix ext : list N) (i : nat) (ds : list N) : list N :=
  fs (firstn (7 - i) prefix) ++ [126] ++ ds ++ fs (extpart ext).

Lemma fs_nil t : fs t = [] -> t = [].
Proof. destruct t; [reflexivity|discriminate]. Qed.

Lemma rx_sound prefix ext i t v :
  rx_match prefix ext i t = Some v ->
  exists ds, fs t = shape prefix ext i ds /\ length ds = i /\ digits ds = true /\
             v = int_of_digits ds.
Proof.
  unfold rx_match, rx_match_gen, shape.
  destruct (match_lit (firstn (7 - i) prefix ++ [126]) t) as [r|] eqn:M; [|discriminate].
  apply match_lit_some in M as (t1 & E & F).
  destruct (take_digits i r) as [[ds r']|] eqn:T; [|discriminate].
  apply take_digits_sound in T as (E2 & L & D). rewrite fs_app in F. cbn [fs map] in F.
  change (fold1 126) with 126 in F. fold (fs t1) in F. fold (fs (firstn (7 - i) prefix)) in F.
  destruct ext as [|e ext].
  - cbn [at_end]. destruct r' as [|x r']; [|discriminate]. intros H; inversion H; subst.
    exists ds. rewrite !fs_app, F, (fs_digits ds D). cbn [extpart fs map].
    rewrite <- !app_assoc. auto.
  - destruct (match_lit (46 :: e :: ext) r') as [r''|] eqn:M2; [|discriminate].
    apply match_lit_some in M2 as (t3 & E3 & F3). cbn [at_end].
    destruct r'' as [|x r'']; [|discriminate]. intros H; inversion H; subst.
    exists ds. rewrite !fs_app, F, (fs_digits ds D), F3. cbn [extpart app].
    rewrite <- !app_assoc. change (fs []) with (@nil N). rewrite app_nil_r. cbn [app]. auto.
Qed.

Lemma rx_complete prefix ext t ds :
  fs t = shape prefix ext (length ds) ds -> digits ds = true ->
  rx_match prefix ext (length ds) t = Some (int_of_digits ds).
Proof.
  unfold shape. intros H D.
  apply fs_split in H as (t1 & t2 & E & F1 & F2).
  apply fs_split in F2 as (ta & tb & E2 & Fa & Fb).
  apply fs_split in Fb as (tc & td & E3 & Fc & Fd).
  apply (fs_eq_digits tc ds D) in Fc. subst tc tb t2 t.
  unfold rx_match, rx_match_gen.
  assert (M : match_lit (firstn (7 - length ds) prefix ++ [126]) (t1 ++ ta ++ ds ++ td)
              = Some (ds ++ td)).
  { apply match_lit_some. exists (t1 ++ ta). split; [rewrite <- app_assoc; reflexivity|].
    rewrite !fs_app, F1, Fa. reflexivity. }
  rewrite M, (take_digits_complete ds td D).
  destruct ext as [|e ext].
  - cbn [extpart fs map] in Fd. apply fs_nil in Fd. subst td. reflexivity.
  - cbn [extpart] in Fd.
    assert (M2 : match_lit (46 :: e :: ext) td = Some []).
    { apply match_lit_some. exists td. split; [rewrite app_nil_r; reflexivity|exact Fd]. }
    rewrite M2. reflexivity.
Qed.

(* a text of the shape of pattern j is not matched by an earlier pattern i < j *)
Lemma firstn_le_split {A} (l : list A) : forall b a, (b <= a)%nat ->
  exists X, firstn a l = firstn b l ++ X.
Proof.
  induction l as [|x l IH]; intros b a H.
  - exists []. rewrite !firstn_nil. reflexivity.
  - destruct b as [|b]; [exists (firstn a (x :: l)); reflexivity|].
    destruct a as [|a]; [lia|]. destruct (IH b a) as [X E]; [lia|].
    exists X. cbn [firstn app]. rewrite E. reflexivity.
Qed.

Lemma digits_no_tilde ds : digits ds = true -> ~ In 126 ds.
Proof.
  intros D Hin. unfold digits in D. rewrite forallb_forall in D. specialize (D _ Hin). discriminate.
Qed.

Lemma rx_no_smaller prefix ext i t ds :
  fs t = shape prefix ext (length ds) ds -> digits ds = true -> (i < length ds)%nat ->
  rx_match prefix ext i t = None.
Proof.
  intros H D Hi. destruct (rx_match prefix ext i t) as [v|] eqn:R; [exfalso|reflexivity].
  apply rx_sound in R as (ds' & H' & L' & D' & _). rewrite H in H'. unfold shape in H'.
  destruct (firstn_le_split prefix (7 - length ds) (7 - i)) as [X EX]; [lia|].
  rewrite EX, fs_app in H'.
  rewrite !app_assoc in H'. apply app_inv_tail in H'. rewrite <- !app_assoc in H'.
  apply app_inv_head in H'.
  destruct X as [|x X]; cbn [fs map app] in H'.
  - injection H' as H'. subst ds'. lia.
  - injection H' as H0 H'. apply (digits_no_tilde ds D). rewrite H'.
    apply in_or_app. right. left. reflexivity.
Qed.

(* ---------- str(n) / int(s) on the numbers that can be chosen ---------- *)
Definition dec_ok (n : N) : bool :=
  let d := dec_str n in
  Nat.leb 1 (length d) && Nat.leb (length d) 5 && digits d && (int_of_digits d =? n).
Fixpoint all_from (fuel : nat) (P : N -> bool) (k : N) : bool :=
  match fuel with O => true | S f => P k && all_from f P (k + 1) end.
Lemma all_from_spec fuel P : forall k, all_from fuel P k = true ->
  forall x, k <= x -> x < k + N.of_nat fuel -> P x = true.
Proof.
  induction fuel as [|f IH]; intros k H x H1 H2; [lia|].
  cbn [all_from] in H. apply andb_true_iff in H as [Hk Hr].
  destruct (N.eq_dec x k) as [->|Hne]; [exact Hk|].
  apply (IH (k + 1) Hr); lia.
Qed.
Lemma dec_ok_all n : n < 65536 -> dec_ok n = true.
Proof.
  intros H. apply (all_from_spec (N.to_nat 65536) dec_ok 0); [vm_compute; reflexivity|lia|].
  rewrite N2Nat.id. exact H.
Qed.
Lemma n_rx_5 : n_rx = 5%nat. Proof. reflexivity. Qed.
Lemma max_le : max_sfn_suffix <= 65536. Proof. discriminate. Qed.

Lemma any_match_in_hit prefix ext t v j : forall l1 l2,
  (forall i, In i l1 -> rx_match prefix ext i t = None) ->
  rx_match prefix ext j t = Some v ->
  any_match_in prefix ext (l1 ++ j :: l2) t = Some v.
Proof.
  induction l1 as [|i l1 IH]; intros l2 Hn Hj; cbn [app any_match_in].
  - rewrite Hj. reflexivity.
  - rewrite (Hn i (or_introl eq_refl)). apply IH; [|exact Hj]. intros k Hk. apply Hn. right. exact Hk.
Qed.

(* a text that equals (case-insensitively) the alias with tail n is read as tail n *)
Lemma any_match_alias prefix ext t n :
  1 <= n -> n < max_sfn_suffix ->
  fs t = fs (alias_of prefix n ++ extpart ext) ->
  any_match prefix ext t = Some n.
Proof.
  intros H1 H2 E. pose proof max_le as Hm.
  assert (Hok : dec_ok n = true) by (apply dec_ok_all; lia).
  unfold dec_ok in Hok. set (d := dec_str n) in *.
  apply andb_true_iff in Hok as [Hok Hv]. apply andb_true_iff in Hok as [Hok Hd].
  apply andb_true_iff in Hok as [L1 L5]. apply Nat.leb_le in L1, L5. apply N.eqb_eq in Hv.
  assert (Es : fs t = shape prefix ext (length d) d).
  { rewrite E. unfold alias_of, shape. fold d. rewrite !fs_app, (fs_digits d Hd).
    cbn [fs map]. change (fold1 126) with 126. rewrite <- !app_assoc. reflexivity. }
  unfold any_match. rewrite n_rx_5.
  replace 5%nat with ((length d - 1) + (1 + (5 - length d)))%nat by lia.
  rewrite seq_app. cbn [seq]. replace (1 + (length d - 1))%nat with (length d) by lia.
  rewrite <- Hv. apply any_match_in_hit.
  - intros i Hi. apply in_seq in Hi. apply (rx_no_smaller prefix ext i t d Es Hd). lia.
  - apply rx_complete; assumption.
Qed.

Lemma taken_in prefix ext existing l s n :
  In (l, s) existing ->
  any_match prefix ext l = Some n \/ any_match prefix ext s = Some n ->
  taken prefix ext existing n = true.
Proof.
  intros Hin H. unfold taken. apply existsb_exists. exists n. split; [|apply N.eqb_refl].
  unfold tails. apply in_flat_map. exists (l, s). split; [exact Hin|]. cbn [fst snd].
  apply in_or_app. destruct H as [H|H]; rewrite H; [right|left]; left; reflexivity.
Qed.

(* the alias (with its extension) differs, case-insensitively, from every long name and
   every 8.3 name of the directory: it cannot shadow or merge with an existing entry *)
Theorem alias_unique prefix ext existing a :
  unique_sfn prefix ext existing = Ok a ->
  forall l s, In (l, s) existing ->
    fs l <> fs (a ++ extpart ext) /\ fs s <> fs (a ++ extpart ext).
Proof.
  intros H l s Hin. apply unique_sfn_least in H as (n & -> & H1 & H2 & Ht & _).
  split; intros E; apply (any_match_alias prefix ext _ n H1 H2) in E;
    rewrite (taken_in prefix ext existing l s n Hin) in Ht; auto; discriminate.
Qed.

(* regression: without the end anchor (the code before the repair) the one-digit
   pattern also matched a two-digit alias and read the wrong tail *)
Example unanchored_reads_wrong_tail :
  rx_match_gen false [65; 66] [] 1 [65; 66; 126; 49; 48] = Some 1 /\
  rx_match_gen true [65; 66] [] 1 [65; 66; 126; 49; 48] = None /\
  any_match [65; 66] [] [65; 66; 126; 49; 48] = Some 10.
Proof. vm_compute. auto. Qed.
