(* Non-vacuity: the theorems' hypotheses hold on concrete names and the computed records
   are the expected ones (vm_compute). *)
From Coq Require Import List NArith Bool String Lia.
From NV Require Import Lib.Val Lib.Res Gen.Fat FatNames.Model FatNames.ProofsAlias
     FatNames.ProofsValid FatNames.ProofsLfn.
From NV Require Fat.Spec.
Import ListNotations.
Open Scope N_scope.

Definition entry0 : list N := repeat 32 11 ++ [32] ++ repeat 0 20.   (* attr 0x20 *)
Definition term0 : list N := repeat 0 32.

(* "Shared Prefix name 1.txt" .. "Shared Prefix name 10.txt" already exist *)
Definition ten_existing : list (list N * list N) :=
  map (fun i => (str "Shared Prefix name " ++ dec_str i ++ str ".txt",
                 alias_of (str "SHAREDPREFIXNAME" ++ dec_str i) i ++ str ".TXT"))
      [1; 2; 3; 4; 5; 6; 7; 8; 9; 10].
Definition shared12 := str "Shared Prefix name 12.txt".
Definition shared12_up := str "SHARED PREFIX NAME 12.TXT".

Example ten_existing_aliases :
  map snd ten_existing =
  [str "SHARED~1.TXT"; str "SHARED~2.TXT"; str "SHARED~3.TXT"; str "SHARED~4.TXT"; str "SHARED~5.TXT";
   str "SHARED~6.TXT"; str "SHARED~7.TXT"; str "SHARED~8.TXT"; str "SHARED~9.TXT"; str "SHARE~10.TXT"].
Proof. vm_compute. reflexivity. Qed.

(* 25 units + NUL fill two records exactly: no padding; alias SHARE~11.TXT *)
Example shared12_names :
  exists lfn, get_names shared12 shared12_up ten_existing = Ok (lfn, str "SHARE~11", str "TXT", 0)
              /\ List.length lfn = 52%nat.
Proof. eexists. vm_compute. split; reflexivity. Qed.

Example shared12_ordinals :
  match prefix_entries shared12 shared12_up ten_existing entry0 with
  | Ok recs => map (fun r => nth 0 r 0) recs = [66; 1; 83] /\ List.length recs = 3%nat   (* 0x42, 1, 'S' *)
  | Err _ => False
  end.
Proof. vm_compute. auto. Qed.

Example shared12_read_back :
  match prefix_entries shared12 shared12_up ten_existing entry0 with
  | Ok recs => match Spec.decode_dir (recs ++ [term0]) 0 None 0 with
               | ([d], 0) => Spec.d_name d = shared12 /\ Spec.d_sfn d = str "SHARE~11.TXT" /\
                             Spec.d_nlfn d = 2
               | _ => False
               end
  | Err _ => False
  end.
Proof. vm_compute. auto. Qed.

(* the hypotheses of name_roundtrip are satisfiable *)
Example shared12_roundtrip_instance :
  exists recs short,
    prefix_entries shared12 shared12_up ten_existing entry0 = Ok recs /\
    fst (Spec.decode_dir (recs ++ [term0]) 0 None 0) =
    [{| Spec.d_name := shared12; Spec.d_sfn := snd (Spec.short_name short); Spec.d_raw := short;
        Spec.d_nlfn := 2; Spec.d_off := 2 |}].
Proof.
  destruct (prefix_entries shared12 shared12_up ten_existing entry0) as [recs|e] eqn:E;
    [|vm_compute in E; discriminate].
  assert (H1 : case_attr shared12 (fst (short_parts shared12 shared12_up))
                         (snd (short_parts shared12 shared12_up)) = None) by (vm_compute; reflexivity).
  assert (H2 : shared12 <> []) by discriminate.
  assert (H3 : name_ok shared12 = true) by (vm_compute; reflexivity).
  assert (H4 : (List.length (utf16 shared12) <= 255)%nat) by (vm_compute; lia).
  assert (H5 : ~ In 229 shared12_up) by (vm_compute; intuition discriminate).
  assert (H6 : List.length entry0 = 32%nat) by reflexivity.
  assert (H7 : Spec.rfield de_attr entry0 <> 15) by (vm_compute; discriminate).
  assert (H8 : N.land (Spec.rfield de_attr entry0) 8 = 0) by (vm_compute; reflexivity).
  assert (H9 : nth 0 term0 0 = 0) by reflexivity.
  destruct (name_roundtrip shared12 shared12_up ten_existing entry0 recs term0 H1 H2 H3 H4 H5 H6 H7 H8 H9 E)
    as (short & D & _).
  exists recs, short. split; [reflexivity|]. rewrite D. reflexivity.
Qed.

(* a name outside the BMP: U+1F600 'a' '.' 't' -> units d83d de00 0061 002e 0074 *)
Definition astral := [128512; 97; 46; 116].
Example astral_names :
  get_names astral [128512; 65; 46; 84] [] =
  Ok ([61; 216; 0; 222; 97; 0; 46; 0; 116; 0; 0; 0] ++ repeat 255 14, str "_A~1    ", str "T  ", 0).
Proof. vm_compute. reflexivity. Qed.
Example astral_read_back :
  match prefix_entries astral [128512; 65; 46; 84] [] entry0 with
  | Ok recs => match Spec.decode_dir (recs ++ [term0]) 0 None 0 with
               | ([d], 0) => Spec.d_name d = astral /\ Spec.d_nlfn d = 1
               | _ => False
               end
  | Err _ => False
  end.
Proof. vm_compute. auto. Qed.

(* readme.TXT: pure 8.3 with a lower-case base: no long record, attr2 = 0x08 *)
Example readme_short_only :
  prefix_entries (str "readme.TXT") (str "README.TXT") ten_existing entry0 =
  Ok [short_record entry0 (str "README  ") (str "TXT") 8] /\
  pure83 (str "readme") (str "TXT") = true /\
  fst (Spec.short_name (short_record entry0 (str "README  ") (str "TXT") 8)) = str "readme.TXT".
Proof. vm_compute. auto. Qed.

(* invalid names *)
Example invalid_examples :
  create_records (str "a*b") (str "A*B") [] entry0 = Err ValueError /\
  create_records (str "trail.") (str "TRAIL.") [] entry0 = Err ValueError /\
  create_records (str " lead") (str " LEAD") [] entry0 = Err ValueError /\
  create_records (repeat 120 256) (repeat 88 256) [] entry0 = Err ValueError /\
  vfat_valid (str "ok name.txt") = true.
Proof. vm_compute. auto. Qed.

(* tools.exclude on a small list; no range left = ENOSPC *)
Example exclude_small :
  exclude [(1, 4)] 2 = [(1, 2); (3, 4)] /\ exclude (exclude [(1, 3)] 1) 2 = [] /\
  exclude [(1, 4)] 0 = [(1, 4)] /\ exclude [(1, 4)] 4 = [(1, 4)].
Proof. vm_compute. auto. Qed.

(* an entry is found by its alias *)
Example lookup_by_alias :
  lookup (str "SHARE~10.TXT") (map (fun e => (fst e, snd e)) ten_existing) = Some 9.
Proof. vm_compute. reflexivity. Qed.
