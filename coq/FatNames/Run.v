From Coq Require Import List NArith String.
From NV Require Import Lib.Val Lib.Res Lib.Wire FatNames.Model.
Import ListNotations.
Open Scope string_scope.

(* existing: list of [lfn text; sfn text] *)
Definition get_existing (v : val) : list (list N * list N) :=
  map (fun e => (getS (arg 0 e), getS (arg 1 e))) (getL v).

Definition VNames (x : list N * list N * list N * N) : val :=
  let '(lfn, sfn, ext, attr) := x in VL [VS lfn; VS sfn; VS ext; VN attr].

Definition dispatch (cmd : string) (a : val) : val :=
  if String.eqb cmd "get_names" then            (* name up existing *)
    VRes VNames (get_names (getS (arg 0 a)) (getS (arg 1 a)) (get_existing (arg 2 a)))
  else if String.eqb cmd "prefix_entries" then   (* name up existing entry *)
    VRes VLs (prefix_entries (getS (arg 0 a)) (getS (arg 1 a)) (get_existing (arg 2 a))
                             (getS (arg 3 a)))
  else if String.eqb cmd "create_records" then
    VRes VLs (create_records (getS (arg 0 a)) (getS (arg 1 a)) (get_existing (arg 2 a))
                             (getS (arg 3 a)))
  else if String.eqb cmd "lfn_valid" then
    VB (lfn_valid (getS (arg 0 a)))
  else if String.eqb cmd "unique_sfn" then       (* prefix ext existing *)
    VRes VS (unique_sfn (getS (arg 0 a)) (getS (arg 1 a)) (get_existing (arg 2 a)))
  else if String.eqb cmd "ci_eq1" then
    VB (ci_eq1 (getN (arg 0 a)) (getN (arg 1 a)))
  else if String.eqb cmd "fold_class" then       (* p, list of t -> those matching *)
    VS (filter (ci_eq1 (getN (arg 0 a))) (getS (arg 1 a)))
  else if String.eqb cmd "checksum" then
    VN (sfn_checksum (getS (arg 0 a)) (getS (arg 1 a)))
  else if String.eqb cmd "lookup" then           (* uname, existing_up *)
    VOpt VN (lookup (getS (arg 0 a)) (get_existing (arg 1 a)))
  else VErr "unknown command".
