(* Proofs: the long-name records are standard VFAT (count, ordinals, attribute, cluster,
   checksum, units / terminator / padding) and the independent specification reader
   Fat.Spec.decode_dir recovers exactly the name from them. *)
From Coq Require Import List NArith ZArith Bool Lia Arith.
From NV Require Import Lib.Res Gen.Fat FatNames.Model FatNames.ProofsAlias FatNames.ProofsValid.
From NV Require Fat.Spec.
Import ListNotations.
Open Scope N_scope.

From Coq Require Import ZifyNat.
Ltac Zify.zify_post_hook ::= Z.div_mod_to_equations.

(* ---------- the encoded long name, in UTF-16 units ---------- *)
Definition term_of (n : nat) : list N := if Nat.eqb (n mod 13) 0 then [] else [0].
Definition pad_of (m : nat) : nat := ((13 - m mod 13) mod 13)%nat.
(* units ++ [NUL unless the units fill the last record] ++ 0xFFFF up to a multiple of 13 *)
Definition padded (u : list N) : list N :=
  let t := term_of (length u) in u ++ t ++ repeat 65535 (pad_of (length u + length t)).

Lemma padded_length u : (length (padded u) = 13 * ((length u + length (term_of (length u)) + 12) / 13))%nat.
Proof.
  unfold padded, pad_of. rewrite !app_length, repeat_length.
  lia.
Qed.

Lemma le16_repeat k : flat_map le16 (repeat 65535 k) = repeat 255 (2 * k).
Proof.
  induction k as [|k IH]; [reflexivity|]. replace (2 * S k)%nat with (S (S (2 * k))) by lia.
  cbn [repeat flat_map]. rewrite IH. reflexivity.
Qed.
Lemma flat_map_app' {A B} (f : A -> list B) a b : flat_map f (a ++ b) = flat_map f a ++ flat_map f b.
Proof. induction a as [|x a IH]; cbn; [reflexivity|]. rewrite IH, app_assoc. reflexivity. Qed.

Lemma lfn_encode_spec name :
  existsb is_surrogate name = false -> (length (utf16 name) <= 255)%nat ->
  lfn_encode name = Ok (flat_map le16 (padded (utf16 name))).
Proof.
  intros Hs Hl. unfold lfn_encode, utf16le. rewrite Hs. cbn [bind].
  set (u := utf16 name) in *. unfold len. rewrite le16_flat_length.
  replace (255 * 2 <? N.of_nat (2 * length u)) with false by (symmetry; apply N.ltb_ge; lia).
  unfold padded, term_of.
  destruct (Nat.eqb_spec (length u mod 13) 0) as [E|E].
  - replace (N.of_nat (2 * length u) mod 26 =? 0) with true by (symmetry; apply N.eqb_eq; lia).
    rewrite le16_flat_length.
    replace (N.of_nat (2 * length u) mod 26 =? 0) with true by (symmetry; apply N.eqb_eq; lia).
    cbn [length app]. unfold pad_of. replace ((13 - (length u + 0) mod 13) mod 13)%nat with 0%nat by lia.
    cbn [repeat]. rewrite (app_nil_r u). reflexivity.
  - replace (N.of_nat (2 * length u) mod 26 =? 0) with false by (symmetry; apply N.eqb_neq; lia).
    cbn [length]. rewrite app_length, le16_flat_length. cbn [length].
    f_equal. rewrite !flat_map_app'. cbn [flat_map le16 app]. change (0 mod 256) with 0. change (0 / 256) with 0.
    destruct (N.eqb_spec (N.of_nat (2 * length u + 2) mod 26) 0) as [E2|E2].
    + unfold pad_of. replace ((13 - (length u + 1) mod 13) mod 13)%nat with 0%nat by lia.
      cbn [repeat flat_map]. reflexivity.
    + unfold ljust. rewrite app_length, le16_flat_length. cbn [length].
      rewrite le16_repeat. rewrite <- app_assoc. f_equal. unfold pad_of. cbn [app]. f_equal. f_equal. f_equal. lia.
Qed.

(* ---------- chunking ---------- *)
Lemma chunks26_spec k : forall fuel b,
  length b = (26 * k)%nat -> (k <= fuel)%nat ->
  let cs := chunks26 fuel b in
  concat cs = b /\ length cs = k /\ Forall (fun c => length c = 26%nat) cs.
Proof.
  induction k as [|k IH]; intros fuel b Hb Hf; cbv zeta.
  - destruct b; [|cbn in Hb; lia]. destruct fuel; cbn; auto.
  - destruct fuel as [|f]; [lia|]. cbn [chunks26].
    destruct b as [|x b'] eqn:Eb; [cbn in Hb; lia|]. rewrite <- Eb in *. clear Eb x b'.
    destruct (IH f (skipn 26 b)) as (C & L & F); [rewrite skipn_length; lia|lia|].
    cbn [concat length]. rewrite C, L, firstn_skipn. repeat split; auto.
    constructor; [rewrite firstn_length; lia|exact F].
Qed.

(* ---------- UTF-16LE units ---------- *)
Lemma units_app2 n : forall a b, length a = (2 * n)%nat -> Spec.units (a ++ b) = Spec.units a ++ Spec.units b.
Proof.
  induction n as [|n IH]; intros a b H.
  - destruct a; [reflexivity|cbn in H; lia].
  - destruct a as [|lo [|hi a]]; try (cbn in H; lia). cbn [app Spec.units]. rewrite IH; [reflexivity|].
    cbn [length] in H. lia.
Qed.
Lemma units_concat cs : Forall (fun c => length c = 26%nat) cs ->
  concat (map Spec.units cs) = Spec.units (concat cs).
Proof.
  induction 1 as [|c cs Hc _ IH]; [reflexivity|]. cbn [map concat].
  rewrite (units_app2 13 c); [|exact Hc]. rewrite IH. reflexivity.
Qed.
Lemma units_le16 u : forallb (fun x => x <? 65536) u = true -> Spec.units (flat_map le16 u) = u.
Proof.
  induction u as [|x u IH]; [reflexivity|]. cbn [forallb flat_map le16 app Spec.units]. intros H.
  apply andb_true_iff in H as [Hx Hu]. apply N.ltb_lt in Hx. rewrite (IH Hu). f_equal.
  pose proof (N.div_mod x 256). lia.
Qed.

(* ---------- one long-name record ---------- *)
Lemma lfn_record_shape sq ck c : length c = 26%nat ->
  lfn_record sq ck c =
  sq :: firstn 10 c ++ [15; 0; ck] ++ firstn 12 (skipn 10 c) ++ [0; 0] ++ skipn 22 c.
Proof. intros H. explode c H 26. reflexivity. Qed.

Lemma lfn_record_fields sq ck c : length c = 26%nat ->
  let r := lfn_record sq ck c in
  nth 0 r 0 = sq /\ Spec.rfield de_attr r = 15 /\ Spec.rfield lfn_first_cluster r = 0 /\
  Spec.rfield Gen.Fat.lfn_checksum r = ck /\ Spec.lfn_units r = Spec.units c /\ length r = 32%nat.
Proof.
  intros H. explode c H 26. cbv zeta. repeat split; try reflexivity.
  vm_compute. apply N.add_0_r.
Qed.

Lemma mark_last_record sq ck c rest : length c = 26%nat ->
  mark_last (lfn_record sq ck c :: rest) = lfn_record (N.lor 64 sq) ck c :: rest.
Proof. intros H. rewrite !(lfn_record_shape _ ck c H). reflexivity. Qed.

Lemma numbered_app l1 : forall s l2,
  numbered s (l1 ++ l2) = numbered s l1 ++ numbered (s + N.of_nat (length l1)) l2.
Proof.
  induction l1 as [|c l1 IH]; intros s l2; cbn [app numbered length].
  - rewrite N.add_0_r. reflexivity.
  - rewrite IH. f_equal. f_equal. f_equal. lia.
Qed.

(* ---------- one-step lemmas for the specification reader ---------- *)
Lemma dd_end r rest idx orph : nth 0 r 0 = 0 ->
  Spec.decode_dir (r :: rest) idx None orph = ([], orph + 0).
Proof. intros H. cbn [Spec.decode_dir]. rewrite H. reflexivity. Qed.

Lemma dd_first r rest idx orph sq :
  nth 0 r 0 = sq -> sq <> 0 -> sq <> 229 -> Spec.rfield de_attr r = 15 ->
  Spec.rfield lfn_first_cluster r = 0 -> N.land sq 64 <> 0 -> N.land sq 31 <> 0 ->
  Spec.decode_dir (r :: rest) idx None orph =
  Spec.decode_dir rest (idx + 1)
    (Some {| Spec.l_next := N.land sq 31 - 1; Spec.l_sum := Spec.rfield Gen.Fat.lfn_checksum r;
             Spec.l_units := Spec.lfn_units r; Spec.l_count := 1 |}) (orph + 0).
Proof.
  intros H0 H1 H2 H3 H4 H5 H6. cbn [Spec.decode_dir]. rewrite H0, H3, H4.
  destruct (N.eqb_spec sq 0); [contradiction|]. cbn [N.eqb Pos.eqb].
  destruct (N.eqb_spec sq 229); [contradiction|]. cbn [negb].
  destruct (N.eqb_spec (N.land sq 64) 0); [contradiction|]. cbn [negb].
  destruct (N.eqb_spec (N.land sq 31) 0); [contradiction|]. reflexivity.
Qed.

Lemma dd_cont r rest idx orph p sq :
  nth 0 r 0 = sq -> sq <> 0 -> sq <> 229 -> Spec.rfield de_attr r = 15 ->
  Spec.rfield lfn_first_cluster r = 0 -> N.land sq 64 = 0 -> sq = Spec.l_next p ->
  Spec.rfield Gen.Fat.lfn_checksum r = Spec.l_sum p ->
  Spec.decode_dir (r :: rest) idx (Some p) orph =
  Spec.decode_dir rest (idx + 1)
    (Some {| Spec.l_next := Spec.l_next p - 1; Spec.l_sum := Spec.l_sum p;
             Spec.l_units := Spec.lfn_units r ++ Spec.l_units p;
             Spec.l_count := Spec.l_count p + 1 |}) orph.
Proof.
  intros H0 H1 H2 H3 H4 H5 H6 H7. cbn [Spec.decode_dir]. rewrite H0, H3, H4, H7.
  destruct (N.eqb_spec sq 0); [contradiction|]. cbn [N.eqb Pos.eqb].
  destruct (N.eqb_spec sq 229); [contradiction|]. cbn [negb]. rewrite H5. cbn [N.eqb negb].
  rewrite <- H6, !N.eqb_refl. destruct (N.eqb_spec sq 0); [contradiction|]. reflexivity.
Qed.

Lemma dd_short r rest idx orph p :
  nth 0 r 0 <> 0 -> nth 0 r 0 <> 229 -> Spec.rfield de_attr r <> 15 ->
  N.land (Spec.rfield de_attr r) 8 = 0 -> Spec.l_next p = 0 ->
  Spec.l_sum p = Spec.checksum (firstn 11 r) ->
  Spec.decode_dir (r :: rest) idx (Some p) orph =
  let nm := Spec.join_surrogates (Spec.take_until0 (Spec.l_units p)) in
  let x := Spec.decode_dir rest (idx + 1) None (orph + 0) in
  ({| Spec.d_name := match nm with [] => fst (Spec.short_name r) | _ => nm end;
      Spec.d_sfn := snd (Spec.short_name r); Spec.d_raw := r;
      Spec.d_nlfn := Spec.l_count p; Spec.d_off := idx |} :: fst x, snd x).
Proof.
  intros H0 H1 H2 H3 H4 H5. cbn [Spec.decode_dir].
  destruct (N.eqb_spec (nth 0 r 0) 0); [contradiction|].
  destruct (N.eqb_spec (Spec.rfield de_attr r) 15); [contradiction|].
  destruct (N.eqb_spec (nth 0 r 0) 229); [contradiction|].
  rewrite H3, H4, H5. cbn [N.eqb negb andb]. rewrite N.eqb_refl. reflexivity.
Qed.

(* ---------- the run of continuation records ---------- *)
Lemma land_64_small sq : sq < 64 -> N.land sq 64 = 0.
Proof.
  intros H. apply (small_cases (fun x => N.land x 64 =? 0) 64) in H; [|vm_compute; reflexivity].
  apply N.eqb_eq in H. exact H.
Qed.
Lemma lor_64_small k : k < 32 ->
  N.lor 64 k = 64 + k /\ N.land (N.lor 64 k) 64 = 64 /\ N.land (N.lor 64 k) 31 = k.
Proof.
  intros H.
  apply (small_cases (fun k => (N.lor 64 k =? 64 + k) && (N.land (N.lor 64 k) 64 =? 64) &&
                               (N.land (N.lor 64 k) 31 =? k)) 32) in H; [|vm_compute; reflexivity].
  apply andb_true_iff in H as [H H3]. apply andb_true_iff in H as [H1 H2].
  apply N.eqb_eq in H1, H2, H3. auto.
Qed.

Definition mkrec (ck : N) (ic : N * list N) : list N := lfn_record (fst ic) ck (snd ic).

Lemma decode_cont ck cs : forall s rest idx p orph,
  Forall (fun c => length c = 26%nat) cs -> 1 <= s -> s + N.of_nat (length cs) <= 64 ->
  Spec.l_next p = s + N.of_nat (length cs) - 1 -> Spec.l_sum p = ck ->
  Spec.decode_dir (rev (map (mkrec ck) (numbered s cs)) ++ rest) idx (Some p) orph =
  Spec.decode_dir rest (idx + N.of_nat (length cs))
    (Some {| Spec.l_next := s - 1; Spec.l_sum := ck;
             Spec.l_units := concat (map Spec.units cs) ++ Spec.l_units p;
             Spec.l_count := Spec.l_count p + N.of_nat (length cs) |}) orph.
Proof.
  induction cs as [|c cs IH] using rev_ind; intros s rest idx p orph HF Hs Hle Hn Hk.
  - cbn [numbered map rev app length concat N.of_nat]. rewrite !N.add_0_r in *.
    destruct p as [pn ps pu pc]. cbn [Spec.l_next Spec.l_sum Spec.l_units Spec.l_count] in *.
    subst. reflexivity.
  - apply Forall_app in HF as [HF Hc]. apply Forall_inv in Hc. rename Hc into Hc26.
    rewrite app_length in *. cbn [length] in *.
    rewrite numbered_app, map_app, rev_app_distr. cbn [numbered map rev app].
    unfold mkrec at 1. cbn [fst snd].
    destruct (lfn_record_fields (s + N.of_nat (length cs)) ck c Hc26) as (F0 & F1 & F2 & F3 & F4 & _).
    rewrite (dd_cont _ _ idx orph p (s + N.of_nat (length cs)) F0); try assumption; try lia.
    + rewrite IH; try assumption; try lia; try (cbn [Spec.l_next Spec.l_sum]; (assumption || lia)).
      cbn [Spec.l_next Spec.l_sum Spec.l_units Spec.l_count]. rewrite F4.
      rewrite map_app, concat_app. cbn [map concat]. rewrite app_nil_r, <- app_assoc.
      f_equal; [lia|]. f_equal. f_equal. lia.
    + apply land_64_small. lia.
Qed.

(* ---------- the whole run of long-name records, as the reader sees it ---------- *)
Lemma lfn_records_decode ck lfn k rest idx orph :
  length lfn = (26 * k)%nat -> (1 <= k <= 20)%nat ->
  Spec.decode_dir (lfn_records ck lfn ++ rest) idx None orph =
  Spec.decode_dir rest (idx + N.of_nat k)
    (Some {| Spec.l_next := 0; Spec.l_sum := ck; Spec.l_units := Spec.units lfn;
             Spec.l_count := N.of_nat k |}) (orph + 0).
Proof.
  intros Hl Hk. unfold lfn_records. fold (mkrec ck).
  destruct (chunks26_spec k (length lfn) lfn Hl) as (C & L & F); [lia|].
  set (cs := chunks26 (length lfn) lfn) in *. clearbody cs.
  destruct (exists_last (l := cs)) as (cs' & cl & E); [intros ->; cbn in L; lia|].
  subst cs. apply Forall_app in F as [F Fl]. apply Forall_inv in Fl.
  rewrite app_length in L. cbn [length] in L.
  rewrite numbered_app, map_app, rev_app_distr. cbn [numbered map rev app].
  unfold mkrec at 1. cbn [fst snd]. rewrite (mark_last_record _ ck cl _ Fl).
  set (kk := 1 + N.of_nat (length cs')).
  assert (Hkk : kk = N.of_nat k) by (unfold kk; lia).
  destruct (lor_64_small kk) as (O1 & O2 & O3); [lia|].
  destruct (lfn_record_fields (N.lor 64 kk) ck cl Fl) as (F0 & F1 & F2 & F3 & F4 & _).
  cbn [app].
  rewrite (dd_first _ _ idx orph (N.lor 64 kk) F0); try assumption; try (rewrite ?O2, ?O3; lia).
  rewrite (decode_cont ck cs' 1); try assumption; try lia;
    try (cbn [Spec.l_next Spec.l_sum]; rewrite ?O3; (assumption || lia)).
  cbn [Spec.l_units Spec.l_count]. rewrite F4.
  replace (concat (map Spec.units cs') ++ Spec.units cl) with (Spec.units lfn).
  - f_equal; [lia|]. f_equal. f_equal. lia.
  - rewrite <- C, <- units_concat by (apply Forall_app; split; [exact F|constructor; [exact Fl|constructor]]).
    rewrite map_app, concat_app. cbn [map concat]. rewrite app_nil_r. reflexivity.
Qed.

(* ---------- recovering the name from the units ---------- *)
Definition name_ok (name : list N) : bool :=
  forallb (fun c => negb (c =? 0) && negb (is_surrogate c) && (c <? 1114112)) name.

Lemma utf16_1_props c : c <> 0 -> is_surrogate c = false -> c < 1114112 ->
  forall rest, Spec.join_surrogates (utf16_1 c ++ rest) = c :: Spec.join_surrogates rest /\
  forallb (fun x => x <? 65536) (utf16_1 c) = true /\ ~ In 0 (utf16_1 c).
Proof.
  intros H0 Hs Hm rest. unfold utf16_1, is_surrogate in *.
  destruct (N.ltb_spec c 65536) as [Hc|Hc].
  - cbn [app Spec.join_surrogates forallb In].
    replace ((55296 <=? c) && (c <? 56320)) with false.
    + replace (c <? 65536) with true by (symmetry; apply N.ltb_lt; exact Hc).
      repeat split; auto. intros [E|[]]. congruence.
    + symmetry. apply andb_false_iff. apply andb_false_iff in Hs as [Hs|Hs].
      * left. exact Hs.
      * right. apply N.ltb_ge in Hs. apply N.ltb_ge. lia.
  - pose proof (N.div_mod (c - 65536) 1024) as DM.
    pose proof (N.mod_lt (c - 65536) 1024) as ML.
    assert (DQ : (c - 65536) / 1024 < 1024) by (apply N.div_lt_upper_bound; lia).
    set (q := (c - 65536) / 1024) in *. set (r := (c - 65536) mod 1024) in *.
    cbn [app Spec.join_surrogates forallb In].
    replace ((55296 <=? 55296 + q) && (55296 + q <? 56320)) with true
      by (symmetry; apply andb_true_iff; split; [apply N.leb_le|apply N.ltb_lt]; lia).
    replace ((56320 <=? 56320 + r) && (56320 + r <? 57344)) with true
      by (symmetry; apply andb_true_iff; split; [apply N.leb_le|apply N.ltb_lt]; lia).
    replace (55296 + q <? 65536) with true by (symmetry; apply N.ltb_lt; lia).
    replace (56320 + r <? 65536) with true by (symmetry; apply N.ltb_lt; lia).
    repeat split; auto.
    + f_equal. lia.
    + intros [E|[E|[]]]; lia.
Qed.

Lemma utf16_roundtrip name : name_ok name = true ->
  Spec.join_surrogates (utf16 name) = name /\
  forallb (fun x => x <? 65536) (utf16 name) = true /\ ~ In 0 (utf16 name) /\
  existsb is_surrogate name = false.
Proof.
  induction name as [|c name IH]; intros H; [repeat split; auto|].
  cbn [name_ok forallb] in H. apply andb_true_iff in H as [Hc Hn].
  apply andb_true_iff in Hc as [Hc H3]. apply andb_true_iff in Hc as [H1 H2].
  apply negb_true_iff in H1, H2. apply N.eqb_neq in H1. apply N.ltb_lt in H3.
  destruct (IH Hn) as (I1 & I2 & I3 & I4).
  cbn [utf16 flat_map existsb]. fold (utf16 name).
  destruct (utf16_1_props c H1 H2 H3 (utf16 name)) as (P1 & P2 & P3).
  rewrite P1, I1, forallb_app, P2, I2, H2, I4. repeat split; auto.
  intros Hin. apply in_app_or in Hin as [Hin|Hin]; auto.
Qed.

Lemma take_until0_no0 u : ~ In 0 u -> forall r, Spec.take_until0 (u ++ 0 :: r) = u /\ Spec.take_until0 u = u.
Proof.
  induction u as [|x u IH]; intros H r; [split; reflexivity|].
  cbn [app Spec.take_until0].
  destruct (N.eqb_spec x 0) as [->|_]; [exfalso; apply H; left; reflexivity|].
  destruct (IH (fun Hin => H (or_intror Hin)) r) as [I1 I2]. rewrite I1, I2. auto.
Qed.

Lemma take_until0_padded u : ~ In 0 u -> Spec.take_until0 (padded u) = u.
Proof.
  intros H. unfold padded, term_of, pad_of.
  destruct (Nat.eqb_spec (length u mod 13) 0) as [E|E].
  - cbn [length app]. replace ((13 - (length u + 0) mod 13) mod 13)%nat with 0%nat by lia.
    cbn [repeat]. rewrite app_nil_r. apply (take_until0_no0 u H []).
  - cbn [app]. apply (take_until0_no0 u H).
Qed.

Lemma padded_lt u : forallb (fun x => x <? 65536) u = true ->
  forallb (fun x => x <? 65536) (padded u) = true.
Proof.
  intros H. unfold padded. rewrite !forallb_app, H. cbn [andb].
  apply andb_true_iff. split.
  - unfold term_of. destruct (Nat.eqb _ _); reflexivity.
  - generalize (pad_of (length u + length (term_of (length u)))). intros n.
    induction n; cbn; auto.
Qed.

(* ---------- structure of the record list ---------- *)
Fixpoint count_from (s : N) (n : nat) : list N :=
  match n with O => [] | S n' => s :: count_from (s + 1) n' end.
(* k|0x40, k-1, ..., 1 *)
Definition ordinals (k : nat) : list N :=
  match k with O => [] | S k' => (64 + N.of_nat k) :: rev (count_from 1 k') end.

Record std_lfn (ck : N) (r : list N) : Prop := {
  std_len : length r = 32%nat;
  std_attr : Spec.rfield de_attr r = 15;
  std_cluster : Spec.rfield lfn_first_cluster r = 0;
  std_sum : Spec.rfield Gen.Fat.lfn_checksum r = ck
}.

Lemma mkrec_std ck sq c : length c = 26%nat -> std_lfn ck (lfn_record sq ck c).
Proof. intros H. destruct (lfn_record_fields sq ck c H) as (_ & F1 & F2 & F3 & _ & F5). constructor; assumption. Qed.

Lemma numbered_props ck cs : forall s, Forall (fun c => length c = 26%nat) cs ->
  map (fun r => nth 0 r 0) (map (mkrec ck) (numbered s cs)) = count_from s (length cs) /\
  Forall (std_lfn ck) (map (mkrec ck) (numbered s cs)) /\
  map Spec.lfn_units (map (mkrec ck) (numbered s cs)) = map Spec.units cs.
Proof.
  induction cs as [|c cs IH]; intros s H; [repeat split; constructor|].
  inversion H as [|? ? Hc Hcs]; subst. destruct (IH (s + 1) Hcs) as (I1 & I2 & I3).
  cbn [numbered map length count_from]. unfold mkrec at 1 3 5. cbn [fst snd].
  destruct (lfn_record_fields s ck c Hc) as (F0 & _ & _ & _ & F4 & _).
  rewrite F0, F4, I1, I3. repeat split; auto. constructor; [apply mkrec_std, Hc|exact I2].
Qed.

Lemma lfn_records_struct ck lfn k :
  length lfn = (26 * k)%nat -> (1 <= k <= 20)%nat ->
  let recs := lfn_records ck lfn in
  length recs = k /\ map (fun r => nth 0 r 0) recs = ordinals k /\
  Forall (std_lfn ck) recs /\
  concat (map Spec.lfn_units (rev recs)) = Spec.units lfn.
Proof.
  intros Hl Hk. cbv zeta. unfold lfn_records. fold (mkrec ck).
  destruct (chunks26_spec k (length lfn) lfn Hl) as (C & L & F); [lia|].
  set (cs := chunks26 (length lfn) lfn) in *. clearbody cs.
  destruct (exists_last (l := cs)) as (cs' & cl & E); [intros ->; cbn in L; lia|].
  subst cs. pose proof F as Fall. apply Forall_app in F as [F Fl]. apply Forall_inv in Fl.
  rewrite app_length in L. cbn [length] in L.
  set (kk := 1 + N.of_nat (length cs')).
  assert (ER : mark_last (rev (map (mkrec ck) (numbered 1 (cs' ++ [cl])))) =
               lfn_record (N.lor 64 kk) ck cl :: rev (map (mkrec ck) (numbered 1 cs'))).
  { rewrite numbered_app, map_app, rev_app_distr. cbn [numbered map rev app].
    unfold mkrec at 1. cbn [fst snd]. apply (mark_last_record _ ck cl _ Fl). }
  rewrite ER. clear ER.
  assert (Hkk : kk = N.of_nat k) by (unfold kk; lia).
  destruct (lor_64_small kk) as (O1 & _ & _); [lia|].
  destruct (lfn_record_fields (N.lor 64 kk) ck cl Fl) as (F0 & _ & _ & _ & F4 & _).
  destruct (numbered_props ck cs' 1 F) as (P1 & P2 & P3).
  repeat split.
  - cbn [length]. rewrite rev_length, !map_length.
    assert (Ln : forall s, length (numbered s cs') = length cs').
    { clear. induction cs' as [|c cs IH]; intros s; cbn; [reflexivity|]. rewrite IH. reflexivity. }
    rewrite Ln. lia.
  - cbn [map]. cbv beta. rewrite F0, O1, map_rev, P1. unfold ordinals.
    destruct k as [|k']; [lia|]. replace (length cs') with k' by lia. f_equal. lia.
  - constructor; [apply mkrec_std, Fl|]. apply Forall_rev. exact P2.
  - cbn [rev]. rewrite rev_involutive, map_app, concat_app. cbn [map concat].
    rewrite F4, P3, app_nil_r.
    rewrite <- C, <- (units_concat _ Fall), map_app, concat_app. cbn [map concat].
    rewrite app_nil_r. reflexivity.
Qed.

(* ---------- names that need long entries ---------- *)
(* number of long-name records for n units *)
Definition lfn_count (n : nat) : nat := ((n + length (term_of n) + 12) / 13)%nat.

Lemma lfn_count_bounds n : (1 <= n <= 255)%nat -> (1 <= lfn_count n <= 20)%nat.
Proof. intros H. unfold lfn_count, term_of. destruct (Nat.eqb _ _); cbn [length]; lia. Qed.

Lemma utf16_nonempty name : name <> [] -> (1 <= length (utf16 name))%nat.
Proof.
  destruct name as [|c r]; [congruence|]. intros _. cbn [utf16 flat_map]. rewrite app_length.
  unfold utf16_1. destruct (c <? 65536); cbn [length]; lia.
Qed.

Lemma dot_name_short_only name up :
  is_dot_name name = true ->
  case_attr name (fst (short_parts name up)) (snd (short_parts name up)) = Some 0.
Proof.
  intros H. unfold short_parts. rewrite H. cbn [fst snd].
  apply is_dot_name_cases in H as [-> | ->]; reflexivity.
Qed.

Lemma long_setup name up existing entry recs :
  let sp := short_parts name up in
  let u := utf16 name in
  let k := lfn_count (length u) in
  case_attr name (fst sp) (snd sp) = None ->
  name <> [] -> existsb is_surrogate name = false -> (length u <= 255)%nat ->
  prefix_entries name up existing entry = Ok recs ->
  exists sfn8 ext3,
    let lfn := flat_map le16 (padded u) in
    get_names name up existing = Ok (lfn, sfn8, ext3, 0) /\
    recs = lfn_records (Spec.checksum (sfn8 ++ ext3)) lfn ++ [short_record entry sfn8 ext3 0] /\
    length lfn = (26 * k)%nat /\ (1 <= k <= 20)%nat.
Proof.
  cbv zeta. intros C Hne Hs Hl H.
  unfold prefix_entries in H. unfold get_names in *. rewrite C in *.
  rewrite (lfn_encode_spec name Hs Hl) in *. cbn [bind] in *.
  destruct (unique_sfn _ _ existing) as [alias|e]; [|discriminate]. cbn [bind] in *.
  set (sfn8 := ljust 8 32 (latin1_replace alias)) in *.
  set (ext3 := ljust 3 32 (firstn 3 (snd (short_parts name up)))) in *.
  exists sfn8, ext3.
  assert (Lk : length (flat_map le16 (padded (utf16 name))) = (26 * lfn_count (length (utf16 name)))%nat).
  { rewrite le16_flat_length, padded_length. unfold lfn_count. lia. }
  pose proof (lfn_count_bounds (length (utf16 name))) as B.
  pose proof (utf16_nonempty name Hne).
  repeat split; try lia.
  destruct (flat_map le16 (padded (utf16 name))) as [|x l] eqn:E; [cbn [length] in Lk; lia|].
  rewrite <- E in *. inversion H. rewrite checksum_standard. reflexivity.
Qed.

(* code points are at most U+10FFFF *)
Definition code_points (name : list N) : bool := forallb (fun c => c <? 1114112) name.

Lemma utf16_units_lt name : code_points name = true ->
  forallb (fun x => x <? 65536) (utf16 name) = true.
Proof.
  induction name as [|c name IH]; intros H; [reflexivity|].
  cbn [code_points forallb] in H. apply andb_true_iff in H as [Hc Hn]. apply N.ltb_lt in Hc.
  cbn [utf16 flat_map]. fold (utf16 name). rewrite forallb_app, (IH Hn), andb_true_r.
  unfold utf16_1. destruct (N.ltb_spec c 65536) as [H1|H1]; cbn [forallb].
  - replace (c <? 65536) with true by (symmetry; apply N.ltb_lt; exact H1). reflexivity.
  - assert (DQ : (c - 65536) / 1024 < 1024) by (apply N.div_lt_upper_bound; lia).
    pose proof (N.mod_lt (c - 65536) 1024) as ML.
    replace (55296 + (c - 65536) / 1024 <? 65536) with true by (symmetry; apply N.ltb_lt; lia).
    replace (56320 + (c - 65536) mod 1024 <? 65536) with true by (symmetry; apply N.ltb_lt; lia).
    reflexivity.
Qed.

(* the long-name entries are standard VFAT: count, ordinals in on-disk order, attribute
   0x0F, first_cluster 0, the checksum of the 8.3 name, and in name order the units of
   the name, a NUL unless the units fill the last record, then 0xFFFF padding *)
Theorem lfn_entries_standard name up existing entry recs :
  let sp := short_parts name up in
  let u := utf16 name in
  let n := length u in
  let k := lfn_count n in
  case_attr name (fst sp) (snd sp) = None ->
  name <> [] -> existsb is_surrogate name = false -> code_points name = true ->
  (n <= 255)%nat ->
  prefix_entries name up existing entry = Ok recs ->
  exists lrecs sfn8 ext3,
    recs = lrecs ++ [short_record entry sfn8 ext3 0] /\
    length lrecs = k /\ (1 <= k <= 20)%nat /\
    map (fun r => nth 0 r 0) lrecs = ordinals k /\
    Forall (std_lfn (Spec.checksum (sfn8 ++ ext3))) lrecs /\
    concat (map Spec.lfn_units (rev lrecs)) =
      u ++ term_of n ++ repeat 65535 (13 * k - n - length (term_of n)).
Proof.
  cbv zeta. intros C Hne Hs Hcp Hl H.
  destruct (long_setup name up existing entry recs C Hne Hs Hl H) as (sfn8 & ext3 & _ & -> & Lk & Bk).
  destruct (lfn_records_struct (Spec.checksum (sfn8 ++ ext3)) _ _ Lk Bk) as (S1 & S2 & S3 & S4).
  eexists _, sfn8, ext3. repeat split; try eassumption; try lia.
  rewrite S4. rewrite units_le16.
  - unfold padded. do 2 f_equal. f_equal. unfold pad_of, lfn_count. lia.
  - apply padded_lt, utf16_units_lt, Hcp.
Qed.

(* ---------- the independent reader recovers the name ---------- *)
Lemma name_ok_code_points name : name_ok name = true -> code_points name = true.
Proof.
  unfold name_ok, code_points. induction name as [|c r IH]; cbn; [reflexivity|]. intros H.
  apply andb_true_iff in H as [Hc Hr]. apply andb_true_iff in Hc as [_ Hc]. rewrite Hc, (IH Hr). reflexivity.
Qed.

Theorem name_roundtrip name up existing entry recs term :
  let sp := short_parts name up in
  let k := N.of_nat (lfn_count (length (utf16 name))) in
  case_attr name (fst sp) (snd sp) = None ->          (* the name needs long entries *)
  name <> [] -> name_ok name = true -> (length (utf16 name) <= 255)%nat ->
  ~ In 229 up ->
  length entry = 32%nat -> Spec.rfield de_attr entry <> 15 ->
  N.land (Spec.rfield de_attr entry) 8 = 0 ->
  nth 0 term 0 = 0 ->
  prefix_entries name up existing entry = Ok recs ->
  exists short,
    Spec.decode_dir (recs ++ [term]) 0 None 0 =
    ([{| Spec.d_name := name; Spec.d_sfn := snd (Spec.short_name short); Spec.d_raw := short;
         Spec.d_nlfn := k; Spec.d_off := k |}], 0) /\
    last recs [] = short.
Proof.
  cbv zeta. intros C Hne Hok Hl Hu He Ha15 Ha8 Ht H.
  destruct (utf16_roundtrip name Hok) as (J1 & J2 & J3 & Hs).
  destruct (long_setup name up existing entry recs C Hne Hs Hl H) as (sfn8 & ext3 & G & -> & Lk & Bk).
  assert (Hdot : is_dot_name name = false).
  { destruct (is_dot_name name) eqn:D; [|reflexivity]. rewrite (dot_name_short_only name up D) in C. discriminate. }
  destruct (alias_standard name up existing _ sfn8 ext3 0 Hdot G) as (L8 & L3 & V8 & _ & N229).
  set (short := short_record entry sfn8 ext3 0).
  destruct (short_record_fields entry sfn8 ext3 0 He L8 L3) as (_ & _ & _ & FA & F11 & F0 & _).
  fold short in FA, F11, F0.
  exists short. split; [|rewrite last_last; reflexivity].
  rewrite <- app_assoc. rewrite (lfn_records_decode _ _ _ _ 0 0 Lk Bk). cbn [app].
  assert (B0 : nth 0 short 0 <> 0 /\ nth 0 short 0 <> 229).
  { rewrite F0. destruct sfn8 as [|c r]; [discriminate|]. cbn [nth]. cbn [forallb] in V8.
    apply andb_true_iff in V8 as [Vc _]. split.
    - intros ->. discriminate.
    - intros ->. apply (N229 Hu). left. reflexivity. }
  destruct B0 as [B0 B229].
  rewrite dd_short; try assumption; try (rewrite FA; assumption); [|reflexivity|cbn [Spec.l_sum]; rewrite F11; reflexivity].
  cbv zeta. cbn [Spec.l_units Spec.l_count].
  rewrite (dd_end term [] _ _ Ht). cbn [fst snd].
  rewrite (units_le16 _ (padded_lt _ J2)), (take_until0_padded _ J3), J1.
  destruct name as [|c r]; [congruence|]. reflexivity.
Qed.
